(** Proofs about Model/Setup.v: the run compiled by the component machines refines the specification run
    (C03 + C04 carried through Model/Sim.v by the relational bisimulation), and the closed symmetry
    theorems: time shift (C14) and time mirror (C10) of whole set-ups.  The advection scheme of the set-up (EF /
    RK2 / RK4 with fractional-step sampling) enters through [adv_eq] / [move_eq] (the move respects == of the
    flow at the fractions 0, 1/2, 1) and [m_uf_spec] (the machine's flow at a fractional step is the
    interpolation at n + f); the last two sections prove that under [no_clip] the stage positions stay inside
    the clip box of tracker.py and that the scheme is the tracker model's (Model/Tracker.v) scheme. *)
From Coq Require Import ZArith QArith Qround Qabs List Bool Lia Lqa.
From Ladim Require Import Base.Num Model.Time Model.ForcingTime Model.Release Model.Sim Model.Setup.
From Ladim Require Import Proofs.SimProofs Proofs.SimRelProofs Proofs.ForcingTimeProofs Proofs.ReleaseProofs
  Proofs.SimInvProofs.
From Ladim Require Model.Tracker.
Import ListNotations.
Open Scope Z_scope.

(** * pv_eq is an equivalence respected by the physics *)
Lemma pv_eq_refl v : pv_eq v v.
Proof. unfold pv_eq. repeat split; reflexivity. Qed.
Lemma pv_eq_sym v w : pv_eq v w -> pv_eq w v.
Proof. intros (A & B & C & D). unfold pv_eq. repeat split; symmetry; assumption. Qed.
Lemma pv_eq_trans a b c : pv_eq a b -> pv_eq b c -> pv_eq a c.
Proof.
  intros (A & B & C & D) (A' & B' & C' & D'). unfold pv_eq. repeat split.
  - rewrite A. exact A'.
  - congruence.
  - congruence.
  - rewrite D. exact D'.
Qed.

Lemma Qlt_bool_comp a a' b b' : (a == a')%Q -> (b == b')%Q -> Qlt_bool a b = Qlt_bool a' b'.
Proof. intros H1 H2. unfold Qlt_bool. rewrite H1, H2. reflexivity. Qed.

Lemma with_temp_eq v w t t' : pv_eq v w -> (t == t')%Q -> pv_eq (with_temp v t) (with_temp w t').
Proof. intros (A & B & C & _) H. unfold pv_eq, with_temp; cbn. repeat split; assumption. Qed.

(** round-half-even, the masked faces and the felt flow respect == *)
Lemma qround_comp a b : (a == b)%Q -> qround a = qround b.
Proof.
  intro H. unfold qround. rewrite (Qfloor_comp _ _ H).
  assert (a - inject_Z (Qfloor b) == b - inject_Z (Qfloor b))%Q as E by (rewrite H; reflexivity).
  rewrite (Qcompare_comp _ _ E _ _ (Qeq_refl (1 # 2))). reflexivity.
Qed.
Lemma face_eq s U U' k : (U == U')%Q -> (face s U k == face s U' k)%Q.
Proof. intro H. unfold face. destruct (is_land s k || is_land s (k + 1)); [reflexivity|exact H]. Qed.
Lemma felt_eq s U U' x x' : (U == U')%Q -> (x == x')%Q -> (felt s U x == felt s U' x')%Q.
Proof.
  intros HU Hx. unfold felt, qfloor.
  assert (x - (1 # 2) == x' - (1 # 2))%Q as E by (rewrite Hx; reflexivity).
  rewrite (Qfloor_comp _ _ E).
  rewrite (face_eq s U U' _ HU), (face_eq s U U' (_ + 1) HU), Hx. reflexivity.
Qed.

(** two flows that agree at the fractional steps the schemes sample *)
Definition uf_eq (uf uf' : Q -> Q) : Prop :=
  (uf 0 == uf' 0)%Q /\ (uf (1 # 2) == uf' (1 # 2))%Q /\ (uf 1 == uf' 1)%Q.
Lemma uf_eq_refl uf : uf_eq uf uf.
Proof. unfold uf_eq. repeat split; reflexivity. Qed.
Lemma stage_eq s uf uf' c f x x' : (uf f == uf' f)%Q -> (x == x')%Q -> (stage s uf c f x == stage s uf' c f x')%Q.
Proof. intros Hu Hx. unfold stage. apply felt_eq; [rewrite Hu; reflexivity|exact Hx]. Qed.
Lemma rk_pos_eq s x x' fr U U' : (x == x')%Q -> (U == U')%Q -> (rk_pos s x fr U == rk_pos s x' fr U')%Q.
Proof. intros Hx HU. unfold rk_pos. rewrite Hx, HU. reflexivity. Qed.
Lemma avg_eq (a b c d a' b' c' d' : Q) : (a == a' -> b == b' -> c == c' -> d == d' ->
  (a + 2 * b + 2 * c + d) / 6 == (a' + 2 * b' + 2 * c' + d') / 6)%Q.
Proof. intros -> -> -> ->. reflexivity. Qed.
Lemma adv_eq s uf uf' c x x' : uf_eq uf uf' -> (x == x')%Q -> (adv s uf c x == adv s uf' c x')%Q.
Proof.
  intros (H0 & Hh & H1) Hx. unfold adv.
  pose proof (stage_eq s uf uf' c 0 x x' H0 Hx) as E1.
  destruct (s_adv s =? 1).
  - cbv zeta. apply stage_eq; [exact Hh|]. apply rk_pos_eq; assumption.
  - destruct (s_adv s =? 2); [|exact E1]. cbv zeta.
    pose proof (stage_eq s uf uf' c (1 # 2) _ _ Hh (rk_pos_eq s x x' (1 # 2) _ _ Hx E1)) as E2.
    pose proof (stage_eq s uf uf' c (1 # 2) _ _ Hh (rk_pos_eq s x x' (1 # 2) _ _ Hx E2)) as E3.
    pose proof (stage_eq s uf uf' c 1 _ _ H1 (rk_pos_eq s x x' 1 _ _ Hx E3)) as E4.
    exact (avg_eq _ _ _ _ _ _ _ _ E1 E2 E3 E4).
Qed.

Lemma move_eq s uf uf' v w c : uf_eq uf uf' -> pv_eq v w ->
  pv_eq (fst (move s uf v c)) (fst (move s uf' w c)) /\ snd (move s uf v c) = snd (move s uf' w c).
Proof.
  intros Hu (A & B & C & D). unfold move.
  assert (Qred (vx v + adv s uf c (vx v) * s_dtdx s) =
          Qred (vx w + adv s uf' c (vx w) * s_dtdx s)) as E.
  { apply Qred_complete. rewrite (adv_eq s uf uf' c (vx v) (vx w) Hu A). rewrite A. reflexivity. }
  rewrite E.
  destruct (Qlt_bool (s_lo s) _ && Qlt_bool _ (s_hi s)); [destruct (is_land s _)|]; cbn; split; try reflexivity;
    unfold pv_eq; cbn; repeat split; (reflexivity || assumption).
Qed.

(** * what [move] does (the tracker's land / valid-region rules of Model/Tracker.v along the particle line) *)
Definition cand (s : setup) (u : Q -> Q) (v : pv) (c : Z) : Q := Qred (vx v + adv s u c (vx v) * s_dtdx s)%Q.
Lemma cand_value s u v c : (cand s u v c == vx v + adv s u c (vx v) * s_dtdx s)%Q.
Proof. apply Qred_correct. Qed.
(** the velocity of the move, scheme by scheme (tracker.py EF / RK2 / RK4 without the clip) *)
Lemma adv_EF s uf c x : s_adv s = 0 -> adv s uf c x = felt s (uf 0%Q * cfac s c) x.
Proof. intro E. unfold adv. rewrite E. reflexivity. Qed.
Lemma adv_RK2 s uf c x : s_adv s = 1 ->
  adv s uf c x = felt s (uf (1 # 2)%Q * cfac s c) (x + (1 # 2) * felt s (uf 0%Q * cfac s c) x * s_dtdx s)%Q.
Proof. intro E. unfold adv. rewrite E. reflexivity. Qed.
Lemma adv_RK4 s uf c x : s_adv s = 2 ->
  let U1 := felt s (uf 0%Q * cfac s c) x in
  let U2 := felt s (uf (1 # 2)%Q * cfac s c) (x + (1 # 2) * U1 * s_dtdx s)%Q in
  let U3 := felt s (uf (1 # 2)%Q * cfac s c) (x + (1 # 2) * U2 * s_dtdx s)%Q in
  let U4 := felt s (uf 1%Q * cfac s c) (x + 1 * U3 * s_dtdx s)%Q in
  adv s uf c x = ((U1 + 2 * U2 + 2 * U3 + U4) / 6)%Q.
Proof. intro E. unfold adv. rewrite E. reflexivity. Qed.
Definition inside (s : setup) (x : Q) : bool := Qlt_bool (s_lo s) x && Qlt_bool x (s_hi s).
(** killed iff the candidate is outside the valid interval; a killed particle keeps its value *)
Lemma move_alive_iff s u v c : snd (move s u v c) = inside s (cand s u v c).
Proof.
  unfold move, inside, cand. destruct (Qlt_bool (s_lo s) _ && Qlt_bool _ (s_hi s)); [|reflexivity].
  destruct (is_land s _); reflexivity.
Qed.
Lemma move_outside s u v c : inside s (cand s u v c) = false -> move s u v c = (v, false).
Proof. unfold move, inside, cand. intros ->. reflexivity. Qed.
(** a move onto land is cancelled: the particle stays where it is, alive *)
Lemma move_onto_land s u v c : inside s (cand s u v c) = true -> is_land s (qround (cand s u v c)) = true ->
  move s u v c = (v, true).
Proof. unfold move, inside, cand. intros -> ->. reflexivity. Qed.
(** otherwise the particle moves to the candidate, everything else unchanged *)
Lemma move_at_sea s u v c : inside s (cand s u v c) = true -> is_land s (qround (cand s u v c)) = false ->
  move s u v c = ({| vx := cand s u v c; vcls := vcls v; vage := vage v; vtemp := vtemp v |}, true).
Proof. unfold move, inside, cand. intros -> ->. reflexivity. Qed.
(** a particle at sea stays at sea, a particle inside the valid interval stays inside *)
Lemma move_stays_at_sea s u v c : is_land s (qround (vx v)) = false ->
  is_land s (qround (vx (fst (move s u v c)))) = false.
Proof.
  intro H. unfold move. fold (cand s u v c). destruct (Qlt_bool (s_lo s) _ && Qlt_bool _ (s_hi s)); [|exact H].
  destruct (is_land s (qround (cand s u v c))) eqn:E; [exact H|exact E].
Qed.
Lemma move_stays_inside s u v c : inside s (vx v) = true -> inside s (vx (fst (move s u v c))) = true.
Proof.
  intro H. unfold move. fold (cand s u v c). fold (inside s (cand s u v c)).
  destruct (inside s (cand s u v c)) eqn:E; [|exact H]. destruct (is_land s _); [exact H|exact E].
Qed.
(** the felt flow: the whole flow between two open faces (in particular without land), nothing between two
    masked faces, and always between 0 and the flow *)
Lemma felt_open s U x : let k := qfloor (x - (1 # 2)) in
  is_land s k = false -> is_land s (k + 1) = false -> is_land s (k + 2) = false -> (felt s U x == U)%Q.
Proof.
  intros k A B C. unfold felt, face. fold k. replace (k + 1 + 1) with (k + 2) by lia. rewrite A, B, C. cbn. ring.
Qed.
Lemma felt_no_land s U x : s_land s = [] -> (felt s U x == U)%Q.
Proof. intro H. apply felt_open; unfold is_land; rewrite H; reflexivity. Qed.
Lemma felt_in_land s U x : is_land s (qfloor (x - (1 # 2)) + 1) = true -> (felt s U x == 0)%Q.
Proof.
  intro H. unfold felt, face. rewrite H, orb_true_r. cbn [orb]. ring.
Qed.

(** every particle of every record of the run is inside the valid interval in a sea cell, when the particles
    are released there (system-level invariant of Proofs/SimInvProofs.v for the set-up's physics) *)
Definition wet (s : setup) (v : pv) : Prop := inside s (vx v) = true /\ is_land s (qround (vx v)) = false.
Theorem setup_records_in_water s :
  (forall n x, In x (m_release s n) -> wet s (snd x)) ->
  Forall (fun r : rec pv => Forall (fun x => wet s (snd x)) (rrows r)) (recs (m_run s)).
Proof.
  intro Hrel. unfold m_run.
  apply (Proofs.SimInvProofs.cold_records_satisfy pv Z (m_release s) (m_force s) s_cache (m_track s) (ibm s) (s_due s) (wet s)).
  - exact Hrel.
  - intros n v W. exact W.
  - intros n v c v' [W1 W2] E. unfold m_track in E.
    assert (v' = fst (move s (m_uf s n) v c)) as -> by (rewrite E; reflexivity).
    split; [apply move_stays_inside; exact W1|apply move_stays_at_sea; exact W2].
  - intros n v v' W E. unfold ibm in E. injection E as <- _. exact W.
Qed.

Lemma ibm_eq s n v w : pv_eq v w ->
  pv_eq (fst (ibm s n v)) (fst (ibm s n w)) /\ snd (ibm s n v) = snd (ibm s n w).
Proof.
  intros (A & B & C & D). unfold ibm; cbn. rewrite C. split; [|reflexivity].
  unfold pv_eq; cbn. repeat split; assumption.
Qed.

(** * the hypotheses of C03 / C04 from [setup_ok] *)
Lemma covers_mono raw n m : m <= n -> covers raw n = true -> covers raw m = true.
Proof.
  intros H C. unfold covers in *. apply andb_true_iff in C as [C1 C2]. rewrite C1. cbn.
  apply existsb_exists in C2 as (x & Hx & Hlt). apply existsb_exists. exists x. split; [exact Hx|].
  apply Z.ltb_lt in Hlt. apply Z.ltb_lt. lia.
Qed.

Record ok_facts (s : setup) : Prop := {
  of_dt : 0 < dt (s_tk s);
  of_tab : tab_ok s = true;
  of_started : started s = true;
  of_nodup : nodupb (map fstep (s_raw s)) = true;
  of_readable : readable (s_raw s) (s_disk s) = true;
  of_covers : forall n, n < s_nsteps s -> covers (s_raw s) n = true;
  of_noclip : no_clip s = true }.

Lemma setup_ok_facts s : setup_ok s = true -> ok_facts s.
Proof.
  unfold setup_ok. intro H.
  repeat (apply andb_true_iff in H as [H ?]).
  apply Z.ltb_lt in H.
  constructor; try assumption.
  - apply layout_nodup; assumption.
  - apply layout_readable.
  - intros n Hn. apply covers_mono with (n := s_nsteps s - 1); [lia|assumption].
Qed.

(** * the machines compute the specification *)
Lemma last_map_seq {A} (f : nat -> A) k d : last (map f (seq 0 (S k))) d = f k.
Proof. rewrite seq_S, map_app. cbn [map]. apply last_last. Qed.

Lemma m_rows_spec s n : ok_facts s -> 0 <= n -> m_rows s n = sp_rows s n.
Proof.
  intros F Hn. unfold m_rows, sp_rows. pose proof (of_started s F) as St. pose proof (of_tab s F) as Tb.
  unfold started in St. unfold tab_ok in Tb.
  destruct (s_cont s) as [f|].
  - (* continuous release: C04's T2 *)
    destruct (rel_init (s_tk s) (Some f) false (s_tab s)) as [|D groups steps] eqn:E; [discriminate|].
    rewrite (continuous_schedule (s_tk s) f false (s_tab s) D groups steps (of_dt s F) Tb E (S (Z.to_nat n))).
    rewrite last_map_seq. rewrite Z2Nat.id by exact Hn. reflexivity.
  - (* discrete release: C04's T1 *)
    destruct (rel_init (s_tk s) None false (s_tab s)) as [|D groups steps] eqn:E; [discriminate|].
    rewrite (release_schedule (s_tk s) false (s_tab s) D groups steps (of_dt s F) Tb E (S (Z.to_nat n))).
    rewrite last_map_seq. rewrite Z2Nat.id by exact Hn. reflexivity.
Qed.

(** the fractional steps at which Forcing.velocity interpolates (f = 0, or 1/1000 <= f <= 1): the machine's flow
    is the linear interpolation of the frames at n + f, with the reversal sign (C03: [fractional_velocity]) *)
Definition frac_ok (f : Q) : Prop := ((f == 0 \/ 1 # 1000 <= f) /\ f <= 1)%Q.
Lemma m_uf_spec' s n f : nodupb (map fstep (s_raw s)) = true -> readable (s_raw s) (s_disk s) = true ->
  covers (s_raw s) n = true -> 0 <= n -> frac_ok f -> (m_uf s n f == sp_uf s n f)%Q.
Proof.
  intros A B C Hn [Hf Hf1]. unfold m_uf, sp_uf, m_fstate.
  destruct (fractional_velocity (s_raw s) (s_disk s) true (rev (s_tk s)) n f A B C Hn Hf Hf1) as (st & v & E1 & E2 & H).
  rewrite E1, E2. exact H.
Qed.
Lemma m_uf_spec s n f : ok_facts s -> 0 <= n < s_nsteps s -> frac_ok f -> (m_uf s n f == sp_uf s n f)%Q.
Proof.
  intros F Hn Hf.
  exact (m_uf_spec' s n f (of_nodup s F) (of_readable s F) (of_covers s F n (proj2 Hn)) (proj1 Hn) Hf).
Qed.
Lemma frac_ok_0 : frac_ok 0. Proof. unfold frac_ok. split; [left; reflexivity|discriminate]. Qed.
Lemma frac_ok_half : frac_ok (1 # 2). Proof. unfold frac_ok. split; [right|]; discriminate. Qed.
Lemma frac_ok_1 : frac_ok 1. Proof. unfold frac_ok. split; [right|]; discriminate. Qed.
Lemma m_uf_eq s n : ok_facts s -> 0 <= n < s_nsteps s -> uf_eq (m_uf s n) (sp_uf s n).
Proof.
  intros F Hn. unfold uf_eq.
  repeat split; apply m_uf_spec; auto using frac_ok_0, frac_ok_half, frac_ok_1.
Qed.
Lemma m_u_spec s n : ok_facts s -> 0 <= n < s_nsteps s -> (m_u s n == sp_u s n)%Q.
Proof. intros F Hn. apply m_uf_spec; [exact F|exact Hn|exact frac_ok_0]. Qed.

Lemma m_temp_spec s n : ok_facts s -> 0 <= n < s_nsteps s -> (m_temp s n == sp_temp s n)%Q.
Proof.
  intros F Hn. unfold m_temp, sp_temp, m_fstate.
  destruct (scalar_latest (s_raw s) (s_disk s) n (of_nodup s F) (of_readable s F)
              (of_covers s F n (proj2 Hn)) (proj1 Hn)) as (st & v & E1 & E2 & H).
  rewrite E1, E2. exact H.
Qed.

Lemma Forall2_refl_rows (l : list (Z * pv)) : Forall2 (rel_rows pv pv pv_eq) l l.
Proof. induction l as [|a l IH]; constructor; [split; [reflexivity|apply pv_eq_refl]|exact IH]. Qed.

(** ** T-A: for every well-formed set-up the run of the machines and the specification run hold the same
    particles (identity, liveness, values up to ==) after the last step and wrote the same records *)
Theorem run_refines_spec s : setup_ok s = true ->
  srel pv pv Z pv_eq (m_run s) (sp_run s).
Proof.
  intro Hok. pose proof (setup_ok_facts s Hok) as F. unfold m_run, sp_run.
  apply cold_run_rel with (ok := fun n => 0 <= n < s_nsteps s) (okr := fun n => 0 <= n < s_nsteps s).
  - intros n Hn. unfold m_release, sp_release. rewrite (m_rows_spec s n F (proj1 Hn)). apply Forall2_refl_rows.
  - intros n v w Hn R. unfold m_force, sp_force. apply with_temp_eq; [exact R|apply m_temp_spec; assumption].
  - intros n v w _ (_ & B & _). exact B.
  - intros n v w c Hn R. unfold m_track, sp_track. apply move_eq; [apply m_uf_eq; assumption|exact R].
  - intros n v w _ R. apply ibm_eq. exact R.
  - reflexivity.
  - intros n Hn. split; exact Hn.
Qed.

(** * Two well-formed set-ups with the same physics whose SPECIFICATION environments agree run alike *)
Definition phys_eq (s s' : setup) : Prop :=
  s_period s' = s_period s /\ s_dtdx s' = s_dtdx s /\ s_lo s' = s_lo s /\ s_hi s' = s_hi s /\
  s_life s' = s_life s /\ s_cfac s' = s_cfac s /\ s_land s' = s_land s /\ s_adv s' = s_adv s.

Lemma move_phys s s' u v c : phys_eq s s' -> move s' u v c = move s u v c.
Proof.
  intros (_ & A & B & C & _ & E & L & Ad). unfold move, adv, rk_pos, stage, felt, face, is_land, cfac.
  rewrite A, B, C, E, L, Ad. reflexivity.
Qed.
Lemma ibm_phys s s' n v : phys_eq s s' -> ibm s' n v = ibm s n v.
Proof. intros (_ & _ & _ & _ & D & _). unfold ibm. rewrite D. reflexivity. Qed.
Lemma due_phys s s' n : phys_eq s s' -> s_due s' n = s_due s n.
Proof. intros (A & _). unfold s_due. rewrite A. reflexivity. Qed.

Theorem runs_alike s s' : setup_ok s = true -> setup_ok s' = true -> phys_eq s s' ->
  s_nsteps s' = s_nsteps s ->
  (forall n f, 0 <= n < s_nsteps s -> (sp_uf s n f == sp_uf s' n f)%Q) ->
  (forall n, 0 <= n < s_nsteps s -> (sp_temp s n == sp_temp s' n)%Q) ->
  (forall n, 0 <= n < s_nsteps s -> sp_release s n = sp_release s' n) ->
  srel pv pv Z pv_eq (m_run s) (m_run s').
Proof.
  intros Hok Hok' P HN Hu Ht Hr.
  pose proof (setup_ok_facts s Hok) as F. pose proof (setup_ok_facts s' Hok') as F'.
  unfold m_run. rewrite HN.
  apply cold_run_rel with (ok := fun n => 0 <= n < s_nsteps s) (okr := fun n => 0 <= n < s_nsteps s).
  - intros n Hn. unfold m_release. rewrite (m_rows_spec s n F (proj1 Hn)), (m_rows_spec s' n F' (proj1 Hn)).
    fold (sp_release s n). fold (sp_release s' n). rewrite (Hr n Hn). apply Forall2_refl_rows.
  - intros n v w Hn R. unfold m_force. apply with_temp_eq; [exact R|].
    rewrite (m_temp_spec s n F Hn), (Ht n Hn). symmetry. apply m_temp_spec; [exact F'|rewrite HN; exact Hn].
  - intros n v w _ (_ & B & _). exact B.
  - intros n v w c Hn R. unfold m_track. rewrite (move_phys s s' _ _ _ P). apply move_eq; [|exact R].
    assert (0 <= n < s_nsteps s') as Hn' by (rewrite HN; exact Hn).
    destruct (m_uf_eq s n F Hn) as (A0 & Ah & A1). destruct (m_uf_eq s' n F' Hn') as (B0 & Bh & B1).
    unfold uf_eq. rewrite A0, Ah, A1, B0, Bh, B1. repeat split; apply Hu; exact Hn.
  - intros n v w _ R. rewrite (ibm_phys s s' _ _ P). apply ibm_eq. exact R.
  - intros n _. symmetry. apply due_phys. exact P.
  - intros n Hn. split; exact Hn.
Qed.

(** * [no_clip]: the stage positions of the Runge-Kutta schemes stay inside the clip box of tracker.py

    tracker.py clips every stage position into [xmin + 0.01, xmax - 0.01] = [lo - 49/100, hi + 49/100]
    (lo = xmin + 1/2, hi = xmax - 1/2 bound the valid interval); Model/Setup.v leaves the clip out.  Under
    [setup_ok] ([no_clip]) the flow any stage feels moves a particle by at most 98/100 (RK2) / 49/100 (RK4) of a
    cell per step — the felt flow lies between 0 and the flow, the flow at a fractional step is a convex
    combination of two frames — so every stage position of a particle inside (lo, hi) lies in the box and the
    clip is the identity. *)
Lemma felt_abs s U x : (Qabs (felt s U x) <= Qabs U)%Q.
Proof.
  unfold felt. set (k0 := qfloor (x - (1 # 2))). set (p := (x - (1 # 2) - inject_Z k0)%Q).
  assert (0 <= p /\ p < 1)%Q as [P0 P1].
  { pose proof (qfloor_spec (x - (1 # 2))) as [A B]. fold k0 in A, B.
    rewrite inject_Z_plus in B. change (inject_Z 1) with 1%Q in B. unfold p. split; lra. }
  apply Qabs_Qle_condition.
  assert (- Qabs U <= U /\ U <= Qabs U)%Q as [L R] by (apply Qabs_Qle_condition; apply Qle_refl).
  pose proof (Qabs_nonneg U) as NN. revert L R NN. generalize (Qabs U). intros M L R NN.
  unfold face. destruct (is_land s k0 || is_land s (k0 + 1)), (is_land s (k0 + 1) || is_land s (k0 + 1 + 1)); split; nra.
Qed.

Lemma lerp_conv (a b fa fb x K bd : Q) : (a <= x <= b -> - bd <= fa * K <= bd -> - bd <= fb * K <= bd ->
  - bd <= lerp a fa b fb x * K <= bd)%Q.
Proof.
  intros [Hax Hxb] HA HB. unfold lerp. set (t := ((x - a) / (b - a))%Q).
  assert (0 <= t <= 1)%Q as [T0 T1].
  { destruct (Qeq_dec (b - a) 0) as [E|E].
    - assert (t == 0)%Q as -> by (unfold t, Qdiv; rewrite E; change (/ 0)%Q with 0%Q; ring). split; lra.
    - assert (0 < b - a)%Q as P by (destruct (Qlt_le_dec 0 (b - a)); [assumption|exfalso; apply E; lra]).
      unfold t. split; [apply Qle_shift_div_l|apply Qle_shift_div_r]; try exact P; lra. }
  assert ((fa + (fb - fa) * t) * K == (1 - t) * (fa * K) + t * (fb * K))%Q as -> by ring.
  revert HA HB. generalize (fa * K)%Q (fb * K)%Q. intros A B HA HB. split; nra.
Qed.

Lemma lerp_spec_conv pts K bd : (forall p, In p pts -> (- bd <= snd p * K <= bd)%Q) ->
  forall x v, lerp_spec pts x = Some v -> (- bd <= v * K <= bd)%Q.
Proof.
  induction pts as [|[a fa] r IH]; intros H x v E; [discriminate|]. cbn [lerp_spec] in E.
  destruct r as [|[b fb] r'].
  - destruct (Qeq_bool x (inject_Z a)); [|discriminate]. injection E as <-. exact (H (a, fa) (or_introl eq_refl)).
  - destruct (Qle_bool (inject_Z a) x && Qle_bool x (inject_Z b)) eqn:B.
    + injection E as <-. apply andb_true_iff in B as [B1 B2]. apply Qle_bool_iff in B1. apply Qle_bool_iff in B2.
      apply lerp_conv; [split; assumption| |].
      * exact (H (a, fa) (or_introl eq_refl)).
      * exact (H (b, fb) (or_intror (or_introl eq_refl))).
    + apply (IH (fun p Hp => H p (or_intror Hp)) x v E).
Qed.

Lemma nth_opt_In {A} (l : list A) : forall n x, nth_opt l n = Some x -> In x l.
Proof.
  induction l as [|a l IH]; intros [|n] x E; cbn in E; try discriminate.
  - injection E as <-. left; reflexivity.
  - right. exact (IH n x E).
Qed.
Lemma znth_opt_In {A} (l : list A) i x : znth_opt l i = Some x -> In x l.
Proof. unfold znth_opt. destruct (i <? 0); [discriminate|apply nth_opt_In]. Qed.

Lemma uval_small files raw K bd : (0 <= bd)%Q ->
  (forall r : record, In r (concat files) -> (- bd <= snd (fst r) * K <= bd)%Q) ->
  forall st, (- bd <= uval raw (disk_of files) st * K <= bd)%Q.
Proof.
  intros Hb H st. unfold uval, frame_val.
  assert (- bd <= 0 * K <= bd)%Q as Z0 by (split; lra).
  destruct (lookup raw st) as [fr|]; [|exact Z0].
  unfold disk_of. destruct (znth_opt files (ffile fr)) as [f|] eqn:Ef; [|exact Z0].
  destruct (znth_opt f (fidx fr)) as [[[x uv] sv]|] eqn:Ei; [|exact Z0]. cbn [fst].
  apply (H (x, uv, sv)). apply in_concat. exists f. split; eapply znth_opt_In; eassumption.
Qed.

Lemma sp_uf_small s K bd n f : (0 <= bd)%Q ->
  (forall r : record, In r (concat (s_files s)) -> (- bd <= snd (fst r) * K <= bd)%Q) ->
  (- bd <= sp_uf s n f * K <= bd)%Q.
Proof.
  intros Hb H. unfold sp_uf.
  destruct (lerp_spec (upts (s_raw s) (s_disk s)) (inject_Z n + f)) as [v|] eqn:E; [|split; lra].
  assert (- bd <= v * K <= bd)%Q as [L R].
  { apply (lerp_spec_conv (upts (s_raw s) (s_disk s)) K bd) with (x := (inject_Z n + f)%Q); [|exact E].
    intros p Hp. unfold upts in Hp. apply in_map_iff in Hp as (st & <- & _). cbn [snd].
    apply uval_small; assumption. }
  destruct (rev (s_tk s)); [|split; assumption].
  assert (- v * K == - (v * K))%Q as -> by ring. split; lra.
Qed.

Lemma cfac_in s c : In (cfac s c) (1%Q :: s_cfac s).
Proof.
  unfold cfac. destruct (znth_opt (s_cfac s) c) as [q|] eqn:E; [right; eapply znth_opt_In; exact E|left; reflexivity].
Qed.
Lemma disp_le_spec s b c : disp_le s b = true ->
  forall r : record, In r (concat (s_files s)) -> (- b <= snd (fst r) * (cfac s c * s_dtdx s) <= b)%Q.
Proof.
  intros H r Hr. unfold disp_le in H. rewrite forallb_forall in H. specialize (H r Hr).
  rewrite forallb_forall in H. specialize (H (cfac s c) (cfac_in s c)). apply Qle_bool_iff in H.
  apply Qabs_Qle_condition. rewrite !Qabs_Qmult. rewrite Qmult_assoc. exact H.
Qed.

(** the fractional steps the schemes sample, and the positions at which the later stages sample the flow *)
Definition fr3 (f : Q) : Prop := f = 0%Q \/ f = (1 # 2)%Q \/ f = 1%Q.
Definition stage_points (s : setup) (uf : Q -> Q) (c : Z) (x : Q) : list Q :=
  if s_adv s =? 1 then [rk_pos s x (1 # 2) (stage s uf c 0 x)]
  else if s_adv s =? 2 then
    let X1 := rk_pos s x (1 # 2) (stage s uf c 0 x) in
    let X2 := rk_pos s x (1 # 2) (stage s uf c (1 # 2) X1) in
    let X3 := rk_pos s x 1 (stage s uf c (1 # 2) X2) in
    [X1; X2; X3]
  else [].
Definition in_box (s : setup) (X : Q) : Prop := (s_lo s - (49 # 100) <= X <= s_hi s + (49 # 100))%Q.

Section Box.
  Variables (s : setup) (uf : Q -> Q) (c : Z) (b : Q).
  Hypothesis Hsm : forall f, fr3 f -> (- b <= uf f * (cfac s c * s_dtdx s) <= b)%Q.

  (** no stage velocity moves the particle by more than b cells in a whole step *)
  Lemma stage_disp f X : fr3 f -> (- b <= stage s uf c f X * s_dtdx s <= b)%Q.
  Proof.
    intro Hf. apply Qabs_Qle_condition. unfold stage. rewrite Qabs_Qmult.
    apply Qle_trans with (Qabs (uf f * cfac s c) * Qabs (s_dtdx s))%Q.
    - apply Qmult_le_compat_r; [apply felt_abs|apply Qabs_nonneg].
    - rewrite <- Qabs_Qmult. apply Qabs_Qle_condition.
      assert (uf f * cfac s c * s_dtdx s == uf f * (cfac s c * s_dtdx s))%Q as -> by ring. exact (Hsm f Hf).
  Qed.
  Lemma rk_pos_box x fr f X : fr3 f -> inside s x = true -> (0 <= fr)%Q -> (fr * b <= 49 # 100)%Q ->
    in_box s (rk_pos s x fr (stage s uf c f X)).
  Proof.
    intros Hf Hin F0 Fb. destruct (stage_disp f X Hf) as [L R].
    unfold inside in Hin. apply andb_true_iff in Hin as [I1 I2]. apply Qlt_bool_true in I1. apply Qlt_bool_true in I2.
    unfold in_box, rk_pos.
    assert (x + fr * stage s uf c f X * s_dtdx s == x + fr * (stage s uf c f X * s_dtdx s))%Q as -> by ring.
    revert L R. generalize (stage s uf c f X * s_dtdx s)%Q. intros d L R. split; nra.
  Qed.
  Lemma stage_points_box x : inside s x = true ->
    (s_adv s = 1 -> (b == 98 # 100)%Q) -> (s_adv s = 2 -> (b == 49 # 100)%Q) ->
    Forall (in_box s) (stage_points s uf c x).
  Proof.
    intros Hin B1 B2. unfold stage_points.
    destruct (Z.eqb_spec (s_adv s) 1) as [E1|_].
    - constructor; [|constructor]. apply rk_pos_box; [left; reflexivity|exact Hin|discriminate|].
      rewrite (B1 E1). discriminate.
    - destruct (Z.eqb_spec (s_adv s) 2) as [E2|_]; [|constructor]. cbv zeta.
      assert (fr3 0%Q) as F0 by (left; reflexivity). assert (fr3 (1 # 2)%Q) as Fh by (right; left; reflexivity).
      constructor; [|constructor; [|constructor; [|constructor]]]; apply rk_pos_box; try assumption; try discriminate;
        rewrite (B2 E2); discriminate.
  Qed.
End Box.

(** under [no_clip] a bound b on the displacements of all frames exists that suits the scheme; EF has no stages *)
Lemma stage_points_ef s uf c x : s_adv s <> 1 -> s_adv s <> 2 -> stage_points s uf c x = [].
Proof.
  intros N1 N2. unfold stage_points.
  destruct (Z.eqb_spec (s_adv s) 1); [contradiction|]. destruct (Z.eqb_spec (s_adv s) 2); [contradiction|reflexivity].
Qed.
Lemma boxed s uf c x : no_clip s = true -> inside s x = true ->
  (forall b f, (0 <= b)%Q -> fr3 f ->
     (forall r : record, In r (concat (s_files s)) -> (- b <= snd (fst r) * (cfac s c * s_dtdx s) <= b)%Q) ->
     (- b <= uf f * (cfac s c * s_dtdx s) <= b)%Q) ->
  Forall (in_box s) (stage_points s uf c x).
Proof.
  intros Hnc Hin H. unfold no_clip in Hnc.
  destruct (Z.eq_dec (s_adv s) 1) as [E1|N1]; [|destruct (Z.eq_dec (s_adv s) 2) as [E2|N2]].
  - rewrite E1 in Hnc. cbn in Hnc. apply (stage_points_box s uf c (98 # 100)); try assumption.
    + intros f Hf. apply H; [discriminate|exact Hf|apply disp_le_spec; exact Hnc].
    + reflexivity.
    + intro; lia.
  - rewrite E2 in Hnc. cbn in Hnc. apply (stage_points_box s uf c (49 # 100)); try assumption.
    + intros f Hf. apply H; [discriminate|exact Hf|apply disp_le_spec; exact Hnc].
    + intro; lia.
    + reflexivity.
  - rewrite stage_points_ef by assumption. constructor.
Qed.

Theorem sp_stages_in_box s n v c : no_clip s = true -> inside s (vx v) = true ->
  Forall (in_box s) (stage_points s (sp_uf s n) c (vx v)).
Proof.
  intros Hnc Hin. apply boxed; try assumption.
  intros b f Hb _ H. apply sp_uf_small; assumption.
Qed.

(** T-clip: in every well-formed set-up, at every step of the run, every stage position of a particle inside
    the valid interval lies in the clip box of tracker.py — the clip the model leaves out is the identity *)
Theorem stages_in_box s n v c : setup_ok s = true -> 0 <= n < s_nsteps s -> inside s (vx v) = true ->
  Forall (in_box s) (stage_points s (m_uf s n) c (vx v)).
Proof.
  intros Hok Hn Hin. pose proof (setup_ok_facts s Hok) as F.
  apply boxed; [exact (of_noclip s F)|exact Hin|].
  intros b f Hb Hf H. rewrite (m_uf_spec s n f F Hn).
  - apply sp_uf_small; assumption.
  - destruct Hf as [->|[->| ->]]; auto using frac_ok_0, frac_ok_half, frac_ok_1.
Qed.
Corollary stages_not_clipped s n v c : setup_ok s = true -> 0 <= n < s_nsteps s -> inside s (vx v) = true ->
  Forall (fun X => Tracker.clipq (s_lo s - (49 # 100)) (s_hi s + (49 # 100)) X == X)%Q (stage_points s (m_uf s n) c (vx v)).
Proof.
  intros Hok Hn Hin. eapply Forall_impl; [|exact (stages_in_box s n v c Hok Hn Hin)].
  intros X [L R]. unfold Tracker.clipq, Qmin', Qmax'.
  assert (Qle_bool X (s_hi s + (49 # 100)) = true) as -> by (apply Qle_bool_iff; exact R).
  destruct (Qle_bool X (s_lo s - (49 # 100))) eqn:Q'; [|reflexivity].
  apply Qle_bool_iff in Q'. lra.
Qed.

(** * the schemes of the set-up ARE the tracker model's schemes (Model/Tracker.v: EF, RK2, RK4 with the clip —
    the model tied to tracker.py by the correspondences of C01 / C09) along the particle line: velocity oracle
    [vel1] = (flow felt at the stage position at the stage fraction, 0), clip box [lo - 49/100, hi + 49/100] in
    x; whenever the stage positions lie in the box (always under [setup_ok]: [stages_in_box]) the clipped schemes
    of Tracker.v give the velocity [adv] *)
Definition vel1 (s : setup) (uf : Q -> Q) (c : Z) : Q -> Q -> Q -> Q * Q := fun f X _ => (stage s uf c f X, 0%Q).
Lemma clipq_id lo hi X : (lo <= X <= hi)%Q -> (Tracker.clipq lo hi X == X)%Q.
Proof.
  intros [L R]. unfold Tracker.clipq, Qmin', Qmax'.
  assert (Qle_bool X hi = true) as -> by (apply Qle_bool_iff; exact R).
  destruct (Qle_bool X lo) eqn:Q'; [|reflexivity]. apply Qle_bool_iff in Q'. lra.
Qed.
Section Link.
  Variables (s : setup) (uf : Q -> Q) (c : Z) (x y dtdy ylo yhi : Q).
  Let xlo := (s_lo s - (49 # 100))%Q.
  Let xhi := (s_hi s + (49 # 100))%Q.
  Hypothesis Hbox : Forall (in_box s) (stage_points s uf c x).

  Theorem adv_is_tracker_EF : s_adv s = 0 -> (adv s uf c x == fst (Tracker.EF (vel1 s uf c) x y))%Q.
  Proof. intro E. rewrite (adv_EF s uf c x E). reflexivity. Qed.

  Theorem adv_is_tracker_RK2 : s_adv s = 1 ->
    (adv s uf c x == fst (Tracker.RK2 (vel1 s uf c) (s_dtdx s) dtdy xlo xhi ylo yhi x y))%Q.
  Proof.
    intro E. unfold stage_points in Hbox. rewrite E in Hbox. cbn [Z.eqb Pos.eqb] in Hbox.
    inversion Hbox as [|X1 l B1 _]; subst.
    unfold adv. rewrite E. cbn [Z.eqb Pos.eqb]. cbv zeta.
    unfold Tracker.RK2, vel1, Tracker.rkstep, Tracker.clip2. cbn [fst snd].
    apply stage_eq; [reflexivity|]. symmetry. unfold rk_pos in *. apply clipq_id. exact B1.
  Qed.

  Theorem adv_is_tracker_RK4 : s_adv s = 2 ->
    (adv s uf c x == fst (Tracker.RK4 (vel1 s uf c) (s_dtdx s) dtdy xlo xhi ylo yhi x y))%Q.
  Proof.
    intro E. unfold stage_points in Hbox. rewrite E in Hbox. cbn [Z.eqb Pos.eqb] in Hbox. cbv zeta in Hbox.
    inversion Hbox as [|X1 l1 B1 H1]; subst. inversion H1 as [|X2 l2 B2 H2]; subst.
    inversion H2 as [|X3 l3 B3 _]; subst.
    unfold adv. rewrite E. cbn [Z.eqb Pos.eqb]. cbv zeta.
    unfold Tracker.RK4, vel1, Tracker.rkstep, Tracker.clip2, Tracker.rk4avg. cbn [fst snd].
    unfold rk_pos in *.
    pose proof (clipq_id xlo xhi _ B1) as C1.
    assert (stage s uf c (1 # 2) (x + (1 # 2) * stage s uf c 0 x * s_dtdx s) ==
            stage s uf c (1 # 2) (Tracker.clipq xlo xhi (x + (1 # 2) * stage s uf c 0 x * s_dtdx s)))%Q as E2
      by (apply stage_eq; [reflexivity|symmetry; exact C1]).
    set (U1 := stage s uf c 0 x) in *.
    set (U2 := stage s uf c (1 # 2) (x + (1 # 2) * U1 * s_dtdx s)) in *.
    set (U2' := stage s uf c (1 # 2) (Tracker.clipq xlo xhi (x + (1 # 2) * U1 * s_dtdx s))) in *.
    assert (in_box s (x + (1 # 2) * U2' * s_dtdx s)) as B2' by (unfold in_box in *; rewrite <- E2; exact B2).
    pose proof (clipq_id xlo xhi _ B2') as C2.
    assert (stage s uf c (1 # 2) (x + (1 # 2) * U2 * s_dtdx s) ==
            stage s uf c (1 # 2) (Tracker.clipq xlo xhi (x + (1 # 2) * U2' * s_dtdx s)))%Q as E3.
    { apply stage_eq; [reflexivity|]. rewrite C2, E2. reflexivity. }
    set (U3 := stage s uf c (1 # 2) (x + (1 # 2) * U2 * s_dtdx s)) in *.
    set (U3' := stage s uf c (1 # 2) (Tracker.clipq xlo xhi (x + (1 # 2) * U2' * s_dtdx s))) in *.
    assert (in_box s (x + 1 * U3' * s_dtdx s)) as B3' by (unfold in_box in *; rewrite <- E3; exact B3).
    pose proof (clipq_id xlo xhi _ B3') as C3.
    assert (stage s uf c 1 (x + 1 * U3 * s_dtdx s) ==
            stage s uf c 1 (Tracker.clipq xlo xhi (x + 1 * U3' * s_dtdx s)))%Q as E4.
    { apply stage_eq; [reflexivity|]. rewrite C3, E3. reflexivity. }
    exact (avg_eq _ _ _ _ _ _ _ _ (Qeq_refl U1) E2 E3 E4).
  Qed.
End Link.
