(** Proofs about Model/Setup.v: the run compiled by the component machines refines the specification run
    (C03 + C04 carried through Model/Sim.v by the relational bisimulation), and the closed symmetry
    theorems: time shift (C14) and time mirror (C10) of whole set-ups. *)
From Coq Require Import ZArith QArith Qround List Bool Lia.
From Ladim Require Import Base.Num Model.Time Model.ForcingTime Model.Release Model.Sim Model.Setup.
From Ladim Require Import Proofs.SimProofs Proofs.SimRelProofs Proofs.ForcingTimeProofs Proofs.ReleaseProofs
  Proofs.SimInvProofs.
Import ListNotations.
Open Scope Z_scope.

(** * pv_eq is an equivalence respected by the physics *)
Lemma pv_eq_refl v : pv_eq v v.
Proof. unfold pv_eq. repeat split; reflexivity. Qed.
Lemma pv_eq_sym v w : pv_eq v w -> pv_eq w v.
Proof. intros (A & B & C & D). unfold pv_eq. repeat split; symmetry; assumption. Qed.
Lemma pv_eq_trans a b c : pv_eq a b -> pv_eq b c -> pv_eq a c.
Proof.
  intros (A & B & C & D) (A' & B' & C' & D'). unfold pv_eq. repeat split.
  - rewrite A. exact A'.
  - congruence.
  - congruence.
  - rewrite D. exact D'.
Qed.

Lemma Qlt_bool_comp a a' b b' : (a == a')%Q -> (b == b')%Q -> Qlt_bool a b = Qlt_bool a' b'.
Proof. intros H1 H2. unfold Qlt_bool. rewrite H1, H2. reflexivity. Qed.

Lemma with_temp_eq v w t t' : pv_eq v w -> (t == t')%Q -> pv_eq (with_temp v t) (with_temp w t').
Proof. intros (A & B & C & _) H. unfold pv_eq, with_temp; cbn. repeat split; assumption. Qed.

(** round-half-even, the masked faces and the felt flow respect == *)
Lemma qround_comp a b : (a == b)%Q -> qround a = qround b.
Proof.
  intro H. unfold qround. rewrite (Qfloor_comp _ _ H).
  assert (a - inject_Z (Qfloor b) == b - inject_Z (Qfloor b))%Q as E by (rewrite H; reflexivity).
  rewrite (Qcompare_comp _ _ E _ _ (Qeq_refl (1 # 2))). reflexivity.
Qed.
Lemma face_eq s U U' k : (U == U')%Q -> (face s U k == face s U' k)%Q.
Proof. intro H. unfold face. destruct (is_land s k || is_land s (k + 1)); [reflexivity|exact H]. Qed.
Lemma felt_eq s U U' x x' : (U == U')%Q -> (x == x')%Q -> (felt s U x == felt s U' x')%Q.
Proof.
  intros HU Hx. unfold felt, qfloor.
  assert (x - (1 # 2) == x' - (1 # 2))%Q as E by (rewrite Hx; reflexivity).
  rewrite (Qfloor_comp _ _ E).
  rewrite (face_eq s U U' _ HU), (face_eq s U U' (_ + 1) HU), Hx. reflexivity.
Qed.

Lemma move_eq s u u' v w c : (u == u')%Q -> pv_eq v w ->
  pv_eq (fst (move s u v c)) (fst (move s u' w c)) /\ snd (move s u v c) = snd (move s u' w c).
Proof.
  intros Hu (A & B & C & D). unfold move.
  assert (Qred (vx v + felt s (u * cfac s c) (vx v) * s_dtdx s) =
          Qred (vx w + felt s (u' * cfac s c) (vx w) * s_dtdx s)) as E.
  { apply Qred_complete.
    rewrite (felt_eq s (u * cfac s c) (u' * cfac s c) (vx v) (vx w)); [|rewrite Hu; reflexivity|exact A].
    rewrite A. reflexivity. }
  rewrite E.
  destruct (Qlt_bool (s_lo s) _ && Qlt_bool _ (s_hi s)); [destruct (is_land s _)|]; cbn; split; try reflexivity;
    unfold pv_eq; cbn; repeat split; (reflexivity || assumption).
Qed.

(** * what [move] does (the tracker's land / valid-region rules of Model/Tracker.v along the particle line) *)
Definition cand (s : setup) (u : Q) (v : pv) (c : Z) : Q := Qred (vx v + felt s (u * cfac s c) (vx v) * s_dtdx s)%Q.
Lemma cand_value s u v c : (cand s u v c == vx v + felt s (u * cfac s c) (vx v) * s_dtdx s)%Q.
Proof. apply Qred_correct. Qed.
Definition inside (s : setup) (x : Q) : bool := Qlt_bool (s_lo s) x && Qlt_bool x (s_hi s).
(** killed iff the candidate is outside the valid interval; a killed particle keeps its value *)
Lemma move_alive_iff s u v c : snd (move s u v c) = inside s (cand s u v c).
Proof.
  unfold move, inside, cand. destruct (Qlt_bool (s_lo s) _ && Qlt_bool _ (s_hi s)); [|reflexivity].
  destruct (is_land s _); reflexivity.
Qed.
Lemma move_outside s u v c : inside s (cand s u v c) = false -> move s u v c = (v, false).
Proof. unfold move, inside, cand. intros ->. reflexivity. Qed.
(** a move onto land is cancelled: the particle stays where it is, alive *)
Lemma move_onto_land s u v c : inside s (cand s u v c) = true -> is_land s (qround (cand s u v c)) = true ->
  move s u v c = (v, true).
Proof. unfold move, inside, cand. intros -> ->. reflexivity. Qed.
(** otherwise the particle moves to the candidate, everything else unchanged *)
Lemma move_at_sea s u v c : inside s (cand s u v c) = true -> is_land s (qround (cand s u v c)) = false ->
  move s u v c = ({| vx := cand s u v c; vcls := vcls v; vage := vage v; vtemp := vtemp v |}, true).
Proof. unfold move, inside, cand. intros -> ->. reflexivity. Qed.
(** a particle at sea stays at sea, a particle inside the valid interval stays inside *)
Lemma move_stays_at_sea s u v c : is_land s (qround (vx v)) = false ->
  is_land s (qround (vx (fst (move s u v c)))) = false.
Proof.
  intro H. unfold move. fold (cand s u v c). destruct (Qlt_bool (s_lo s) _ && Qlt_bool _ (s_hi s)); [|exact H].
  destruct (is_land s (qround (cand s u v c))) eqn:E; [exact H|exact E].
Qed.
Lemma move_stays_inside s u v c : inside s (vx v) = true -> inside s (vx (fst (move s u v c))) = true.
Proof.
  intro H. unfold move. fold (cand s u v c). fold (inside s (cand s u v c)).
  destruct (inside s (cand s u v c)) eqn:E; [|exact H]. destruct (is_land s _); [exact H|exact E].
Qed.
(** the felt flow: the whole flow between two open faces (in particular without land), nothing between two
    masked faces, and always between 0 and the flow *)
Lemma felt_open s U x : let k := qfloor (x - (1 # 2)) in
  is_land s k = false -> is_land s (k + 1) = false -> is_land s (k + 2) = false -> (felt s U x == U)%Q.
Proof.
  intros k A B C. unfold felt, face. fold k. replace (k + 1 + 1) with (k + 2) by lia. rewrite A, B, C. cbn. ring.
Qed.
Lemma felt_no_land s U x : s_land s = [] -> (felt s U x == U)%Q.
Proof. intro H. apply felt_open; unfold is_land; rewrite H; reflexivity. Qed.
Lemma felt_in_land s U x : is_land s (qfloor (x - (1 # 2)) + 1) = true -> (felt s U x == 0)%Q.
Proof.
  intro H. unfold felt, face. rewrite H, orb_true_r. cbn [orb]. ring.
Qed.

(** every particle of every record of the run is inside the valid interval in a sea cell, when the particles
    are released there (system-level invariant of Proofs/SimInvProofs.v for the set-up's physics) *)
Definition wet (s : setup) (v : pv) : Prop := inside s (vx v) = true /\ is_land s (qround (vx v)) = false.
Theorem setup_records_in_water s :
  (forall n x, In x (m_release s n) -> wet s (snd x)) ->
  Forall (fun r : rec pv => Forall (fun x => wet s (snd x)) (rrows r)) (recs (m_run s)).
Proof.
  intro Hrel. unfold m_run.
  apply (Proofs.SimInvProofs.cold_records_satisfy pv Z (m_release s) (m_force s) s_cache (m_track s) (ibm s) (s_due s) (wet s)).
  - exact Hrel.
  - intros n v W. exact W.
  - intros n v c v' [W1 W2] E. unfold m_track in E.
    assert (v' = fst (move s (m_u s n) v c)) as -> by (rewrite E; reflexivity).
    split; [apply move_stays_inside; exact W1|apply move_stays_at_sea; exact W2].
  - intros n v v' W E. unfold ibm in E. injection E as <- _. exact W.
Qed.

Lemma ibm_eq s n v w : pv_eq v w ->
  pv_eq (fst (ibm s n v)) (fst (ibm s n w)) /\ snd (ibm s n v) = snd (ibm s n w).
Proof.
  intros (A & B & C & D). unfold ibm; cbn. rewrite C. split; [|reflexivity].
  unfold pv_eq; cbn. repeat split; assumption.
Qed.

(** * the hypotheses of C03 / C04 from [setup_ok] *)
Lemma covers_mono raw n m : m <= n -> covers raw n = true -> covers raw m = true.
Proof.
  intros H C. unfold covers in *. apply andb_true_iff in C as [C1 C2]. rewrite C1. cbn.
  apply existsb_exists in C2 as (x & Hx & Hlt). apply existsb_exists. exists x. split; [exact Hx|].
  apply Z.ltb_lt in Hlt. apply Z.ltb_lt. lia.
Qed.

Record ok_facts (s : setup) : Prop := {
  of_dt : 0 < dt (s_tk s);
  of_tab : tab_ok s = true;
  of_started : started s = true;
  of_nodup : nodupb (map fstep (s_raw s)) = true;
  of_readable : readable (s_raw s) (s_disk s) = true;
  of_covers : forall n, n < s_nsteps s -> covers (s_raw s) n = true }.

Lemma setup_ok_facts s : setup_ok s = true -> ok_facts s.
Proof.
  unfold setup_ok. intro H.
  repeat (apply andb_true_iff in H as [H ?]).
  apply Z.ltb_lt in H.
  constructor; try assumption.
  - apply layout_nodup; assumption.
  - apply layout_readable.
  - intros n Hn. apply covers_mono with (n := s_nsteps s - 1); [lia|assumption].
Qed.

(** * the machines compute the specification *)
Lemma last_map_seq {A} (f : nat -> A) k d : last (map f (seq 0 (S k))) d = f k.
Proof. rewrite seq_S, map_app. cbn [map]. apply last_last. Qed.

Lemma m_rows_spec s n : ok_facts s -> 0 <= n -> m_rows s n = sp_rows s n.
Proof.
  intros F Hn. unfold m_rows, sp_rows. pose proof (of_started s F) as St. pose proof (of_tab s F) as Tb.
  unfold started in St. unfold tab_ok in Tb.
  destruct (s_cont s) as [f|].
  - (* continuous release: C04's T2 *)
    destruct (rel_init (s_tk s) (Some f) false (s_tab s)) as [|D groups steps] eqn:E; [discriminate|].
    rewrite (continuous_schedule (s_tk s) f false (s_tab s) D groups steps (of_dt s F) Tb E (S (Z.to_nat n))).
    rewrite last_map_seq. rewrite Z2Nat.id by exact Hn. reflexivity.
  - (* discrete release: C04's T1 *)
    destruct (rel_init (s_tk s) None false (s_tab s)) as [|D groups steps] eqn:E; [discriminate|].
    rewrite (release_schedule (s_tk s) false (s_tab s) D groups steps (of_dt s F) Tb E (S (Z.to_nat n))).
    rewrite last_map_seq. rewrite Z2Nat.id by exact Hn. reflexivity.
Qed.

Lemma m_u_spec s n : ok_facts s -> 0 <= n < s_nsteps s -> (m_u s n == sp_u s n)%Q.
Proof.
  intros F Hn. unfold m_u, sp_u, m_fstate.
  destruct (forcing_refines_lerp (s_raw s) (s_disk s) true (rev (s_tk s)) n (of_nodup s F) (of_readable s F)
              (of_covers s F n (proj2 Hn)) (proj1 Hn)) as (st & v & E1 & E2 & _ & H).
  rewrite E1, E2. exact H.
Qed.

Lemma m_temp_spec s n : ok_facts s -> 0 <= n < s_nsteps s -> (m_temp s n == sp_temp s n)%Q.
Proof.
  intros F Hn. unfold m_temp, sp_temp, m_fstate.
  destruct (scalar_latest (s_raw s) (s_disk s) n (of_nodup s F) (of_readable s F)
              (of_covers s F n (proj2 Hn)) (proj1 Hn)) as (st & v & E1 & E2 & H).
  rewrite E1, E2. exact H.
Qed.

Lemma Forall2_refl_rows (l : list (Z * pv)) : Forall2 (rel_rows pv pv pv_eq) l l.
Proof. induction l as [|a l IH]; constructor; [split; [reflexivity|apply pv_eq_refl]|exact IH]. Qed.

(** ** T-A: for every well-formed set-up the run of the machines and the specification run hold the same
    particles (identity, liveness, values up to ==) after the last step and wrote the same records *)
Theorem run_refines_spec s : setup_ok s = true ->
  srel pv pv Z pv_eq (m_run s) (sp_run s).
Proof.
  intro Hok. pose proof (setup_ok_facts s Hok) as F. unfold m_run, sp_run.
  apply cold_run_rel with (ok := fun n => 0 <= n < s_nsteps s) (okr := fun n => 0 <= n < s_nsteps s).
  - intros n Hn. unfold m_release, sp_release. rewrite (m_rows_spec s n F (proj1 Hn)). apply Forall2_refl_rows.
  - intros n v w Hn R. unfold m_force, sp_force. apply with_temp_eq; [exact R|apply m_temp_spec; assumption].
  - intros n v w _ (_ & B & _). exact B.
  - intros n v w c Hn R. unfold m_track, sp_track. apply move_eq; [apply m_u_spec; assumption|exact R].
  - intros n v w _ R. apply ibm_eq. exact R.
  - reflexivity.
  - intros n Hn. split; exact Hn.
Qed.

(** * Two well-formed set-ups with the same physics whose SPECIFICATION environments agree run alike *)
Definition phys_eq (s s' : setup) : Prop :=
  s_period s' = s_period s /\ s_dtdx s' = s_dtdx s /\ s_lo s' = s_lo s /\ s_hi s' = s_hi s /\
  s_life s' = s_life s /\ s_cfac s' = s_cfac s /\ s_land s' = s_land s.

Lemma move_phys s s' u v c : phys_eq s s' -> move s' u v c = move s u v c.
Proof.
  intros (_ & A & B & C & _ & E & L). unfold move, felt, face, is_land, cfac. rewrite A, B, C, E, L. reflexivity.
Qed.
Lemma ibm_phys s s' n v : phys_eq s s' -> ibm s' n v = ibm s n v.
Proof. intros (_ & _ & _ & _ & D & _ & _). unfold ibm. rewrite D. reflexivity. Qed.
Lemma due_phys s s' n : phys_eq s s' -> s_due s' n = s_due s n.
Proof. intros (A & _). unfold s_due. rewrite A. reflexivity. Qed.

Theorem runs_alike s s' : setup_ok s = true -> setup_ok s' = true -> phys_eq s s' ->
  s_nsteps s' = s_nsteps s ->
  (forall n, 0 <= n < s_nsteps s -> (sp_u s n == sp_u s' n)%Q) ->
  (forall n, 0 <= n < s_nsteps s -> (sp_temp s n == sp_temp s' n)%Q) ->
  (forall n, 0 <= n < s_nsteps s -> sp_release s n = sp_release s' n) ->
  srel pv pv Z pv_eq (m_run s) (m_run s').
Proof.
  intros Hok Hok' P HN Hu Ht Hr.
  pose proof (setup_ok_facts s Hok) as F. pose proof (setup_ok_facts s' Hok') as F'.
  unfold m_run. rewrite HN.
  apply cold_run_rel with (ok := fun n => 0 <= n < s_nsteps s) (okr := fun n => 0 <= n < s_nsteps s).
  - intros n Hn. unfold m_release. rewrite (m_rows_spec s n F (proj1 Hn)), (m_rows_spec s' n F' (proj1 Hn)).
    fold (sp_release s n). fold (sp_release s' n). rewrite (Hr n Hn). apply Forall2_refl_rows.
  - intros n v w Hn R. unfold m_force. apply with_temp_eq; [exact R|].
    rewrite (m_temp_spec s n F Hn), (Ht n Hn). symmetry. apply m_temp_spec; [exact F'|rewrite HN; exact Hn].
  - intros n v w _ (_ & B & _). exact B.
  - intros n v w c Hn R. unfold m_track. rewrite (move_phys s s' _ _ _ P). apply move_eq; [|exact R].
    rewrite (m_u_spec s n F Hn), (Hu n Hn). symmetry. apply m_u_spec; [exact F'|rewrite HN; exact Hn].
  - intros n v w _ R. rewrite (ibm_phys s s' _ _ P). apply ibm_eq. exact R.
  - intros n _. symmetry. apply due_phys. exact P.
  - intros n Hn. split; exact Hn.
Qed.
