(** Proofs about Model/Setup.v: the run compiled by the component machines refines the specification run
    (C03 + C04 carried through Model/Sim.v by the relational bisimulation), and the closed symmetry
    theorems: time shift (C14) and time mirror (C10) of whole set-ups. *)
From Coq Require Import ZArith QArith List Bool Lia.
From Ladim Require Import Base.Num Model.Time Model.ForcingTime Model.Release Model.Sim Model.Setup.
From Ladim Require Import Proofs.SimProofs Proofs.SimRelProofs Proofs.ForcingTimeProofs Proofs.ReleaseProofs.
Import ListNotations.
Open Scope Z_scope.

(** * pv_eq is an equivalence respected by the physics *)
Lemma pv_eq_refl v : pv_eq v v.
Proof. unfold pv_eq. repeat split; reflexivity. Qed.
Lemma pv_eq_sym v w : pv_eq v w -> pv_eq w v.
Proof. intros (A & B & C & D). unfold pv_eq. repeat split; symmetry; assumption. Qed.
Lemma pv_eq_trans a b c : pv_eq a b -> pv_eq b c -> pv_eq a c.
Proof.
  intros (A & B & C & D) (A' & B' & C' & D'). unfold pv_eq. repeat split.
  - rewrite A. exact A'.
  - congruence.
  - congruence.
  - rewrite D. exact D'.
Qed.

Lemma Qlt_bool_comp a a' b b' : (a == a')%Q -> (b == b')%Q -> Qlt_bool a b = Qlt_bool a' b'.
Proof. intros H1 H2. unfold Qlt_bool. rewrite H1, H2. reflexivity. Qed.

Lemma with_temp_eq v w t t' : pv_eq v w -> (t == t')%Q -> pv_eq (with_temp v t) (with_temp w t').
Proof. intros (A & B & C & _) H. unfold pv_eq, with_temp; cbn. repeat split; assumption. Qed.

Lemma move_eq s u u' v w c : (u == u')%Q -> pv_eq v w ->
  pv_eq (fst (move s u v c)) (fst (move s u' w c)) /\ snd (move s u v c) = snd (move s u' w c).
Proof.
  intros Hu (A & B & C & D). unfold move.
  assert (vx v + u * cfac s c * s_dtdx s == vx w + u' * cfac s c * s_dtdx s)%Q as E by (rewrite A, Hu; reflexivity).
  rewrite (Qlt_bool_comp _ _ _ _ (Qeq_refl (s_lo s)) E), (Qlt_bool_comp _ _ _ _ E (Qeq_refl (s_hi s))).
  destruct (Qlt_bool (s_lo s) _ && Qlt_bool _ (s_hi s)); cbn; split; try reflexivity.
  - unfold pv_eq; cbn. repeat split; assumption.
  - unfold pv_eq. repeat split; assumption.
Qed.

Lemma ibm_eq s n v w : pv_eq v w ->
  pv_eq (fst (ibm s n v)) (fst (ibm s n w)) /\ snd (ibm s n v) = snd (ibm s n w).
Proof.
  intros (A & B & C & D). unfold ibm; cbn. rewrite C. split; [|reflexivity].
  unfold pv_eq; cbn. repeat split; assumption.
Qed.

(** * the hypotheses of C03 / C04 from [setup_ok] *)
Lemma covers_mono raw n m : m <= n -> covers raw n = true -> covers raw m = true.
Proof.
  intros H C. unfold covers in *. apply andb_true_iff in C as [C1 C2]. rewrite C1. cbn.
  apply existsb_exists in C2 as (x & Hx & Hlt). apply existsb_exists. exists x. split; [exact Hx|].
  apply Z.ltb_lt in Hlt. apply Z.ltb_lt. lia.
Qed.

Record ok_facts (s : setup) : Prop := {
  of_dt : 0 < dt (s_tk s);
  of_tab : tab_ok s = true;
  of_started : started s = true;
  of_nodup : nodupb (map fstep (s_raw s)) = true;
  of_readable : readable (s_raw s) (s_disk s) = true;
  of_covers : forall n, n < s_nsteps s -> covers (s_raw s) n = true }.

Lemma setup_ok_facts s : setup_ok s = true -> ok_facts s.
Proof.
  unfold setup_ok. intro H.
  repeat (apply andb_true_iff in H as [H ?]).
  apply Z.ltb_lt in H.
  constructor; try assumption.
  - apply layout_nodup; assumption.
  - apply layout_readable.
  - intros n Hn. apply covers_mono with (n := s_nsteps s - 1); [lia|assumption].
Qed.

(** * the machines compute the specification *)
Lemma last_map_seq {A} (f : nat -> A) k d : last (map f (seq 0 (S k))) d = f k.
Proof. rewrite seq_S, map_app. cbn [map]. apply last_last. Qed.

Lemma m_rows_spec s n : ok_facts s -> 0 <= n -> m_rows s n = sp_rows s n.
Proof.
  intros F Hn. unfold m_rows, sp_rows. pose proof (of_started s F) as St. pose proof (of_tab s F) as Tb.
  unfold started in St. unfold tab_ok in Tb.
  destruct (s_cont s) as [f|].
  - (* continuous release: C04's T2 *)
    destruct (rel_init (s_tk s) (Some f) false (s_tab s)) as [|D groups steps] eqn:E; [discriminate|].
    rewrite (continuous_schedule (s_tk s) f false (s_tab s) D groups steps (of_dt s F) Tb E (S (Z.to_nat n))).
    rewrite last_map_seq. rewrite Z2Nat.id by exact Hn. reflexivity.
  - (* discrete release: C04's T1 *)
    destruct (rel_init (s_tk s) None false (s_tab s)) as [|D groups steps] eqn:E; [discriminate|].
    rewrite (release_schedule (s_tk s) false (s_tab s) D groups steps (of_dt s F) Tb E (S (Z.to_nat n))).
    rewrite last_map_seq. rewrite Z2Nat.id by exact Hn. reflexivity.
Qed.

Lemma m_u_spec s n : ok_facts s -> 0 <= n < s_nsteps s -> (m_u s n == sp_u s n)%Q.
Proof.
  intros F Hn. unfold m_u, sp_u, m_fstate.
  destruct (forcing_refines_lerp (s_raw s) (s_disk s) true (rev (s_tk s)) n (of_nodup s F) (of_readable s F)
              (of_covers s F n (proj2 Hn)) (proj1 Hn)) as (st & v & E1 & E2 & _ & H).
  rewrite E1, E2. exact H.
Qed.

Lemma m_temp_spec s n : ok_facts s -> 0 <= n < s_nsteps s -> (m_temp s n == sp_temp s n)%Q.
Proof.
  intros F Hn. unfold m_temp, sp_temp, m_fstate.
  destruct (scalar_latest (s_raw s) (s_disk s) n (of_nodup s F) (of_readable s F)
              (of_covers s F n (proj2 Hn)) (proj1 Hn)) as (st & v & E1 & E2 & H).
  rewrite E1, E2. exact H.
Qed.

Lemma Forall2_refl_rows (l : list (Z * pv)) : Forall2 (rel_rows pv pv pv_eq) l l.
Proof. induction l as [|a l IH]; constructor; [split; [reflexivity|apply pv_eq_refl]|exact IH]. Qed.

(** ** T-A: for every well-formed set-up the run of the machines and the specification run hold the same
    particles (identity, liveness, values up to ==) after the last step and wrote the same records *)
Theorem run_refines_spec s : setup_ok s = true ->
  srel pv pv Z pv_eq (m_run s) (sp_run s).
Proof.
  intro Hok. pose proof (setup_ok_facts s Hok) as F. unfold m_run, sp_run.
  apply cold_run_rel with (ok := fun n => 0 <= n < s_nsteps s) (okr := fun n => 0 <= n < s_nsteps s).
  - intros n Hn. unfold m_release, sp_release. rewrite (m_rows_spec s n F (proj1 Hn)). apply Forall2_refl_rows.
  - intros n v w Hn R. unfold m_force, sp_force. apply with_temp_eq; [exact R|apply m_temp_spec; assumption].
  - intros n v w _ (_ & B & _). exact B.
  - intros n v w c Hn R. unfold m_track, sp_track. apply move_eq; [apply m_u_spec; assumption|exact R].
  - intros n v w _ R. apply ibm_eq. exact R.
  - reflexivity.
  - intros n Hn. split; exact Hn.
Qed.

(** * Two well-formed set-ups with the same physics whose SPECIFICATION environments agree run alike *)
Definition phys_eq (s s' : setup) : Prop :=
  s_period s' = s_period s /\ s_dtdx s' = s_dtdx s /\ s_lo s' = s_lo s /\ s_hi s' = s_hi s /\
  s_life s' = s_life s /\ s_cfac s' = s_cfac s.

Lemma move_phys s s' u v c : phys_eq s s' -> move s' u v c = move s u v c.
Proof. intros (_ & A & B & C & _ & E). unfold move, cfac. rewrite A, B, C, E. reflexivity. Qed.
Lemma ibm_phys s s' n v : phys_eq s s' -> ibm s' n v = ibm s n v.
Proof. intros (_ & _ & _ & _ & D & _). unfold ibm. rewrite D. reflexivity. Qed.
Lemma due_phys s s' n : phys_eq s s' -> s_due s' n = s_due s n.
Proof. intros (A & _). unfold s_due. rewrite A. reflexivity. Qed.

Theorem runs_alike s s' : setup_ok s = true -> setup_ok s' = true -> phys_eq s s' ->
  s_nsteps s' = s_nsteps s ->
  (forall n, 0 <= n < s_nsteps s -> (sp_u s n == sp_u s' n)%Q) ->
  (forall n, 0 <= n < s_nsteps s -> (sp_temp s n == sp_temp s' n)%Q) ->
  (forall n, 0 <= n < s_nsteps s -> sp_release s n = sp_release s' n) ->
  srel pv pv Z pv_eq (m_run s) (m_run s').
Proof.
  intros Hok Hok' P HN Hu Ht Hr.
  pose proof (setup_ok_facts s Hok) as F. pose proof (setup_ok_facts s' Hok') as F'.
  unfold m_run. rewrite HN.
  apply cold_run_rel with (ok := fun n => 0 <= n < s_nsteps s) (okr := fun n => 0 <= n < s_nsteps s).
  - intros n Hn. unfold m_release. rewrite (m_rows_spec s n F (proj1 Hn)), (m_rows_spec s' n F' (proj1 Hn)).
    fold (sp_release s n). fold (sp_release s' n). rewrite (Hr n Hn). apply Forall2_refl_rows.
  - intros n v w Hn R. unfold m_force. apply with_temp_eq; [exact R|].
    rewrite (m_temp_spec s n F Hn), (Ht n Hn). symmetry. apply m_temp_spec; [exact F'|rewrite HN; exact Hn].
  - intros n v w _ (_ & B & _). exact B.
  - intros n v w c Hn R. unfold m_track. rewrite (move_phys s s' _ _ _ P). apply move_eq; [|exact R].
    rewrite (m_u_spec s n F Hn), (Hu n Hn). symmetry. apply m_u_spec; [exact F'|rewrite HN; exact Hn].
  - intros n v w _ R. rewrite (ibm_phys s s' _ _ P). apply ibm_eq. exact R.
  - intros n _. symmetry. apply due_phys. exact P.
  - intros n Hn. split; exact Hn.
Qed.
