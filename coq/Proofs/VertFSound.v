(** Soundness of the float-level correspondence checker Corr/VertF.v with respect to the theorems of
    Proofs/VerticalFloatProofs.v: whenever a case passes [check_side] (the hypotheses, as booleans) and
    [check_bits] (the model reproduces the observed bits), the value the REAL code returned (the float with bit
    pattern rb, resp. the pair (K, Ab)) IS the model's value and satisfies the invariant EXACTLY:
      kinds 1, 2:  finite and 0 <= observed depth <= h;
      kind 3:      1 <= K <= N - 1, A finite, 0 <= A <= 1;
    and the boolean [check_inv] the checker evaluates on the observed value is true. *)
From Coq Require Import ZArith Reals List Bool Floats.
From Ladim Require Import Model.TrilinearFloat Model.VerticalFloat Corr.C02F Corr.VertF.
From Ladim Require Import Proofs.TrilinearFloatProofs Proofs.C02FSound Proofs.VerticalFloatProofs.
Import ListNotations.

Lemma result_agrees_eq : forall m rb, result_agrees m rb = true -> float_of_bits rb = m.
Proof.
  intros m rb H. unfold result_agrees in H. apply andb_true_iff in H. destruct H as [H _].
  symmetry. apply same_bits_eq. exact H.
Qed.

Open Scope R_scope.

Theorem check_vstep_sound : forall zb wb dtb hb rb,
  check_side [1; zb; wb; dtb; hb; rb]%Z = true -> check_bits [1; zb; wb; dtb; hb; rb]%Z = true ->
  let h := float_of_bits hb in let observed := float_of_bits rb in
  observed = vstep_f (float_of_bits zb) (float_of_bits wb) (float_of_bits dtb) h /\
  fin observed /\ 0 <= FR observed <= FR h.
Proof.
  intros zb wb dtb hb rb Hs Hb. cbv zeta. simpl in Hs. unfold check_bits in Hb.
  apply andb_true_iff in Hb. destruct Hb as [_ Hb]. apply result_agrees_eq in Hb. rewrite Hb.
  split; [reflexivity|]. apply vstep_f_checked. exact Hs.
Qed.

Theorem check_vstep2_sound : forall zb w1b w2b dtb hb rb,
  check_side [2; zb; w1b; w2b; dtb; hb; rb]%Z = true -> check_bits [2; zb; w1b; w2b; dtb; hb; rb]%Z = true ->
  let h := float_of_bits hb in let observed := float_of_bits rb in
  observed = vstep2_f (float_of_bits zb) (float_of_bits w1b) (float_of_bits w2b) (float_of_bits dtb) h /\
  fin observed /\ 0 <= FR observed <= FR h.
Proof.
  intros zb w1b w2b dtb hb rb Hs Hb. cbv zeta. simpl in Hs. unfold check_bits in Hb.
  apply andb_true_iff in Hb. destruct Hb as [_ Hb]. apply result_agrees_eq in Hb. rewrite Hb.
  split; [reflexivity|]. apply vstep2_f_checked. exact Hs.
Qed.

Theorem check_z2s_sound : forall r n zr zb k ab,
  split_z2s r = Some (n, zr, zb, k, ab) ->
  check_side (3%Z :: r) = true -> check_bits (3%Z :: r) = true ->
  let levels := map float_of_bits zr in let A := float_of_bits ab in
  (k, A) = z2s_f levels (float_of_bits zb) /\
  (1 <= k <= Z.of_nat (length levels) - 1)%Z /\ fin A /\ 0 <= FR A <= 1.
Proof.
  intros r n zr zb k ab Hsp Hs Hb. cbv zeta. unfold check_side in Hs. unfold check_bits in Hb.
  rewrite Hsp in Hs, Hb.
  apply andb_true_iff in Hb. destruct Hb as [_ Hb]. cbv zeta in Hb.
  apply andb_true_iff in Hb. destruct Hb as [Hk Ha]. apply Z.eqb_eq in Hk. apply result_agrees_eq in Ha.
  pose proof (z2s_f_checked _ _ Hs) as C. cbv zeta in C.
  destruct (z2s_f (map float_of_bits zr) (float_of_bits zb)) as [K A]. simpl fst in *. simpl snd in *. subst K. rewrite Ha.
  split; [reflexivity|exact C].
Qed.

(** the boolean form, for every kind at once: inside the hypotheses and with agreeing bits, the invariant evaluated
    on the observed value is true (so [violating] of Corr/VertF.v is always the empty list) *)
Lemma split_z2s_length : forall r n zr zb k ab, split_z2s r = Some (n, zr, zb, k, ab) -> length zr = n.
Proof.
  intros r n zr zb k ab H. unfold split_z2s in H. destruct r as [|m rest]; [discriminate|].
  destruct (m <? 0)%Z; [discriminate|].
  destruct (skipn (Z.to_nat m) rest) as [|x1 [|x2 [|x3 [|x4 t]]]] eqn:E; try discriminate.
  destruct (Nat.eqb_spec (length rest) (Z.to_nat m + 3)) as [L|L]; [|discriminate].
  injection H as <- <- <- <- <-. apply firstn_length_le. rewrite L. apply Nat.le_add_r.
Qed.

Theorem check_inv_sound : forall c, check_side c = true -> check_bits c = true -> check_inv c = true.
Proof.
  intros [|t c] Hs Hb; [discriminate|].
  destruct t as [|[[p|p|]|[p|p|]|]|]; try (simpl in Hs; discriminate).
  - (* kind 3 *)
    destruct (split_z2s c) as [[[[[n zr] zb] k] ab]|] eqn:E.
    + pose proof (split_z2s_length _ _ _ _ _ _ E) as L.
      unfold check_side in Hs. unfold check_bits in Hb. unfold check_inv. rewrite E in *.
      apply andb_true_iff in Hb. destruct Hb as [_ Hb]. cbv zeta in Hb.
      apply andb_true_iff in Hb. destruct Hb as [Hk Ha]. apply Z.eqb_eq in Hk. apply result_agrees_eq in Ha.
      pose proof (z2s_f_checked_bool _ _ Hs) as C. rewrite map_length, L in C.
      destruct (z2s_f (map float_of_bits zr) (float_of_bits zb)) as [K A]. simpl fst in Hk. simpl snd in Ha.
      subst K. rewrite Ha. exact C.
    + unfold check_side in Hs. rewrite E in Hs. discriminate.
  - (* kind 2 *)
    destruct c as [|x1 [|x2 [|x3 [|x4 [|x5 [|x6 [|x7 c]]]]]]]; try discriminate.
    simpl in Hs. unfold check_bits in Hb. apply andb_true_iff in Hb. destruct Hb as [_ Hb].
    apply result_agrees_eq in Hb. unfold check_inv. rewrite Hb. apply vstep2_f_checked_bool. exact Hs.
  - (* kind 1 *)
    destruct c as [|x1 [|x2 [|x3 [|x4 [|x5 [|x6 c]]]]]]; try discriminate.
    simpl in Hs. unfold check_bits in Hb. apply andb_true_iff in Hb. destruct Hb as [_ Hb].
    apply result_agrees_eq in Hb. unfold check_inv. rewrite Hb. apply vstep_f_checked_bool. exact Hs.
Qed.
Print Assumptions check_inv_sound.
