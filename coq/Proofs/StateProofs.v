(** Proofs about Model/State.v *)
From Coq Require Import ZArith List Bool Lia.
From Ladim Require Import Base.Num Model.State.
Import ListNotations.
Open Scope Z_scope.

(** * list helpers *)
Lemma length_fmask_eq {A B} (m : list bool) : forall (l1 : list A) (l2 : list B),
  length l1 = length l2 -> length (fmask m l1) = length (fmask m l2).
Proof.
  induction m as [|b m IH]; intros [|x l1] [|y l2] H; cbn in *; try reflexivity; try discriminate.
  injection H as H. destruct b; cbn; [f_equal|]; apply IH; exact H.
Qed.
Lemma Forall_fmask {A} (P : A -> Prop) (m : list bool) : forall l, Forall P l -> Forall P (fmask m l).
Proof.
  induction m as [|b m IH]; intros [|x l] H; cbn; try constructor.
  inversion H; subst. destruct b; [constructor; [assumption|]|]; apply IH; assumption.
Qed.
Lemma incr_from_weaken l : forall lo lo', lo' <= lo -> incr_from lo l -> incr_from lo' l.
Proof. destruct l as [|x l]; cbn; intros lo lo' H; [trivial|]. intros [A B]. split; [lia|exact B]. Qed.
Lemma incr_from_fmask m : forall l lo, incr_from lo l -> incr_from lo (fmask m l).
Proof.
  induction m as [|b m IH]; intros [|x l] lo H; cbn; trivial.
  cbn in H. destruct H as [A B]. destruct b.
  - cbn. split; [exact A|]. apply IH. exact B.
  - apply IH. apply incr_from_weaken with (lo := x + 1); [lia|exact B].
Qed.
Lemma incr_from_range n : forall a lo, lo <= a -> incr_from lo (zrange_aux a n).
Proof. induction n as [|n IH]; intros a lo H; cbn; [trivial|]. split; [exact H|]. apply IH. lia. Qed.
Lemma incr_from_app_range l : forall lo a n, incr_from lo l -> Forall (fun p => p < a) l -> lo <= a ->
  incr_from lo (l ++ zrange_aux a n).
Proof.
  induction l as [|x l IH]; intros lo a n H F L; cbn.
  - apply incr_from_range. exact L.
  - cbn in H. destruct H as [A B]. inversion F; subst. split; [exact A|]. apply IH; [exact B|assumption|lia].
Qed.
Lemma Forall_range_lt n : forall a, Forall (fun p => p < a + Z.of_nat n) (zrange_aux a n).
Proof.
  induction n as [|n IH]; intro a; cbn [zrange_aux]; constructor; [lia|].
  replace (a + Z.of_nat (S n)) with ((a + 1) + Z.of_nat n) by lia. apply IH.
Qed.
Lemma length_zrange_aux n : forall a, length (zrange_aux a n) = n.
Proof. induction n as [|n IH]; intro a; cbn; [reflexivity|]. f_equal. apply IH. Qed.
Lemma zrange_aux_app n : forall a k, zrange_aux a (n + k) = zrange_aux a n ++ zrange_aux (a + Z.of_nat n) k.
Proof.
  induction n as [|n IH]; intros a k.
  - cbn. replace (a + 0) with a by lia. reflexivity.
  - cbn [Nat.add zrange_aux app]. f_equal. rewrite IH. f_equal. f_equal. lia.
Qed.
Lemma Forall_map2 {A B C} (P : C -> Prop) (f : A -> B -> C) : forall l1 l2,
  (forall x y, In x l1 -> In y l2 -> P (f x y)) -> Forall P (map2 f l1 l2).
Proof.
  induction l1 as [|x l1 IH]; intros [|y l2] H; cbn; constructor.
  - apply H; left; reflexivity.
  - apply IH. intros a b Ha Hb. apply H; right; assumption.
Qed.
Lemma length_map2 {A B C} (f : A -> B -> C) : forall l1 l2, length l1 = length l2 -> length (map2 f l1 l2) = length l1.
Proof. induction l1 as [|x l1 IH]; intros [|y l2] H; cbn in *; try reflexivity; try discriminate. f_equal. apply IH. lia. Qed.
Lemma In_map2 {A B C} (f : A -> B -> C) : forall l1 l2 z, In z (map2 f l1 l2) -> exists x y, In x l1 /\ In y l2 /\ z = f x y.
Proof.
  induction l1 as [|x l1 IH]; intros [|y l2] z H; cbn in H; try contradiction.
  destruct H as [<-|H].
  - exists x, y. repeat split; left; reflexivity.
  - apply IH in H as (a & b & Ha & Hb & ->). exists a, b. repeat split; right; assumption.
Qed.
Lemma Forall_set_nth {A} (P : A -> Prop) v : forall n l, P v -> Forall P l -> Forall P (set_nth n v l).
Proof.
  induction n as [|n IH]; intros [|x l] Hv H; cbn; try constructor; inversion H; subst; try assumption.
  apply IH; assumption.
Qed.
Lemma length_set_nth {A} (v : A) : forall n l, length (set_nth n v l) = length l.
Proof. induction n as [|n IH]; intros [|x l]; cbn; try reflexivity. f_equal. apply IH. Qed.

(** * broadcasting *)
Lemma bsize_len args n : bsize args = Some n ->
  forall l, In (Ar l) args -> length l = 1%nat \/ length l = n.
Proof.
  unfold bsize. set (lens := flat_map _ args).
  intros H l Hin.
  assert (In (length l) lens) as Hl.
  { unfold lens. apply in_flat_map. exists (Ar l). split; [exact Hin|left; reflexivity]. }
  destruct (Nat.eq_dec (length l) 1) as [E|E]; [left; exact E|right].
  assert (In (length l) (filter (fun n0 => negb (Nat.eqb n0 1)) lens)) as Hf.
  { apply filter_In. split; [exact Hl|]. apply negb_true_iff. apply Nat.eqb_neq. exact E. }
  destruct (filter _ lens) as [|m r]; [destruct Hf|].
  destruct (forallb (Nat.eqb m) r) eqn:F; [|discriminate]. injection H as <-.
  destruct Hf as [<-|Hf]; [reflexivity|].
  rewrite forallb_forall in F. specialize (F _ Hf). apply Nat.eqb_eq in F. auto.
Qed.
Lemma length_bcast args n a : bsize args = Some n -> In a args -> length (bcast n a) = n.
Proof.
  intros H Hin. destruct a as [v|l]; cbn.
  - apply repeat_length.
  - destruct (bsize_len _ _ H _ Hin) as [E|E].
    + destruct l as [|x [|y l]]; cbn in E; try discriminate. apply repeat_length.
    + destruct l as [|x [|y l]]; [exact E| |exact E]. cbn in E. subst n. reflexivity.
Qed.

(** * invariant *)
Lemma empty_inv ni np idf pdf : length idf = ni -> length pdf = np -> Inv (empty_state ni np idf pdf).
Proof.
  intros H1 H2. unfold Inv, empty_state; cbn. repeat split; try lia; try constructor.
  - apply Forall_forall. intros c Hc. apply repeat_spec in Hc. subst. reflexivity.
  - apply Forall_forall. intros c Hc. apply repeat_spec in Hc. subst. reflexivity.
  - rewrite repeat_length. exact H1.
  - rewrite repeat_length. exact H2.
Qed.

Lemma count_true_le m : 0 <= count_true m <= Z.of_nat (length m).
Proof. unfold count_true. induction m as [|b m IH]; cbn [map zsum length]; [lia|]. destruct b; lia. Qed.

Lemma step_inv s o : Inv s -> op_wf s o = true -> Inv (step s o).
Proof.
  intros (Hn & Hi & Hb & Hl & Hp & Hd1 & Hd2) W. destruct o as [ia pa| |m| |c m v|c v|c v]; cbn [step].
  - (* Append *)
    cbn in W. apply andb_true_iff in W as [W1 W2]. apply Nat.eqb_eq in W1, W2.
    destruct (bsize _) as [n|] eqn:B; [|repeat split; assumption].
    unfold Inv; cbn [npid pid inst pvar idef pdef].
    assert (forall a, In a (map2 resolve ia (idef s)) -> length (bcast n a) = n) as L1.
    { intros a Ha. eapply length_bcast; [exact B|]. apply in_or_app. left. exact Ha. }
    assert (forall a, In a (map2 resolve pa (pdef s)) -> length (bcast n a) = n) as L2.
    { intros a Ha. eapply length_bcast; [exact B|]. apply in_or_app. right. exact Ha. }
    repeat split.
    + lia.
    + apply incr_from_app_range; [exact Hi|exact Hb|lia].
    + apply Forall_app. split.
      * eapply Forall_impl; [|exact Hb]. cbn. intros; lia.
      * apply Forall_range_lt.
    + apply Forall_map2. intros col a Hc Ha. rewrite !app_length, length_zrange_aux.
      rewrite Forall_forall in Hl. rewrite (Hl _ Hc), (L1 _ Ha). reflexivity.
    + apply Forall_map2. intros col a Hc Ha. rewrite app_length.
      rewrite Forall_forall in Hp. rewrite Nat2Z.inj_add, (Hp _ Hc), (L2 _ Ha). reflexivity.
    + rewrite length_map2; [exact Hd1|]. rewrite length_map2; lia.
    + rewrite length_map2; [exact Hd2|]. rewrite length_map2; lia.
  - repeat split; assumption.
  - (* Kill *)
    destruct (inst s) as [|a r] eqn:E; [rewrite <- E in *; repeat split; assumption|].
    unfold Inv; cbn [npid pid inst pvar idef pdef]. cbn in W. apply Nat.eqb_eq in W.
    inversion Hl; subst. repeat split; try assumption.
    constructor; [|assumption]. unfold kill_col. rewrite length_map2; lia.
  - (* Compactify *)
    destruct (0 <? _) eqn:E; [|repeat split; assumption].
    unfold Inv; cbn [npid pid inst pvar idef pdef]. repeat split; try assumption.
    + apply incr_from_fmask. exact Hi.
    + apply Forall_fmask. exact Hb.
    + apply Forall_forall. intros c Hc. apply in_map_iff in Hc as (c0 & <- & Hc0).
      rewrite Forall_forall in Hl. apply length_fmask_eq. apply Hl. exact Hc0.
    + rewrite map_length. exact Hd1.
  - (* Poke *)
    cbn in W. apply andb_true_iff in W as [W1 W2]. apply Nat.eqb_eq in W2. apply Nat.ltb_lt in W1.
    unfold Inv; cbn [npid pid inst pvar idef pdef]. repeat split; try assumption.
    + apply Forall_set_nth; [|exact Hl]. rewrite length_map2; [exact W2|].
      rewrite Forall_forall in Hl. rewrite (Hl _ (nth_In _ _ W1)). exact W2.
    + rewrite length_set_nth. exact Hd1.
  - (* SetInst *)
    cbn in W. apply andb_true_iff in W as [W1 W2]. apply Nat.eqb_eq in W2.
    unfold Inv; cbn [npid pid inst pvar idef pdef]. repeat split; try assumption.
    + apply Forall_set_nth; [exact W2|exact Hl].
    + rewrite length_set_nth. exact Hd1.
  - (* SetPvar *)
    cbn in W. apply andb_true_iff in W as [W1 W2]. apply Z.eqb_eq in W2.
    unfold Inv; cbn [npid pid inst pvar idef pdef]. repeat split; try assumption.
    + apply Forall_set_nth; [exact W2|exact Hp].
    + rewrite length_set_nth. exact Hd2.
Qed.

Lemma run_inv ops : forall s, Inv s -> wf_run s ops = true -> Inv (run s ops).
Proof.
  induction ops as [|o ops IH]; intros s H W; cbn in *; [exact H|].
  apply andb_true_iff in W as [W1 W2]. apply IH; [apply step_inv; assumption|exact W2].
Qed.

(** strictly increasing and pid[k] >= k, as facts about positions *)
Lemma incr_from_nth l : forall lo k x, incr_from lo l -> nth_opt l k = Some x -> lo + Z.of_nat k <= x.
Proof.
  induction l as [|y l IH]; intros lo k x H N; [destruct k; discriminate|].
  cbn in H. destruct H as [A B]. destruct k as [|k]; cbn in N.
  - injection N as <-. lia.
  - specialize (IH _ _ _ B N). lia.
Qed.
Lemma incr_from_strict l : forall lo i j x y, incr_from lo l -> (i < j)%nat ->
  nth_opt l i = Some x -> nth_opt l j = Some y -> x < y.
Proof.
  induction l as [|z l IH]; intros lo i j x y H L Ni Nj; [destruct i; discriminate|].
  cbn in H. destruct H as [A B]. destruct j as [|j]; [lia|]. destruct i as [|i]; cbn in Ni, Nj.
  - injection Ni as <-. pose proof (incr_from_nth _ _ _ _ B Nj). lia.
  - eapply IH; [exact B| |exact Ni|exact Nj]. lia.
Qed.

(** * never reused: the pids issued by any operation sequence are npid0, npid0+1, ... in order *)
Lemma npid_step_ge s o : npid s <= npid (step s o).
Proof.
  destruct o as [ia pa| |m| |c m v|c v|c v]; cbn [step].
  - destruct (bsize _); cbn; lia.
  - lia.
  - destruct (inst s); cbn; lia.
  - destruct (0 <? _); cbn; lia.
  - cbn; lia.
  - cbn; lia.
  - cbn; lia.
Qed.
Lemma zrange_split a b c : a <= b -> b <= c -> zrange a c = zrange a b ++ zrange b c.
Proof.
  intros H1 H2. unfold zrange. replace (Z.to_nat (c - a)) with (Z.to_nat (b - a) + Z.to_nat (c - b))%nat by lia.
  rewrite zrange_aux_app. f_equal. f_equal. lia.
Qed.
Lemma npid_run_ge ops : forall s, npid s <= npid (run s ops).
Proof.
  induction ops as [|o ops IH]; intro s; cbn; [lia|].
  etransitivity; [apply (npid_step_ge s o)|apply IH].
Qed.
Lemma issued_dense ops : forall s, issued s ops = zrange (npid s) (npid (run s ops)).
Proof.
  induction ops as [|o ops IH]; intro s; cbn [issued run fold_left].
  - unfold zrange. replace (npid s - npid s) with 0 by lia. reflexivity.
  - rewrite IH. symmetry. apply zrange_split; [apply npid_step_ge|apply npid_run_ge].
Qed.

(** append hands out npid .. npid+n-1 to the new particles, in argument order *)
Lemma append_pids s ia pa n :
  bsize (map2 resolve ia (idef s) ++ map2 resolve pa (pdef s)) = Some n ->
  pid (step s (Append ia pa)) = pid s ++ zrange_aux (npid s) n /\
  npid (step s (Append ia pa)) = npid s + Z.of_nat n.
Proof. intro B. cbn [step]. rewrite B. cbn. split; reflexivity. Qed.

(** * lookups by identifier *)
Lemma find_by_none_lt {A} keys : forall (vals : list A) lo k, incr_from lo keys -> k < lo -> find_by keys vals k = None.
Proof.
  induction keys as [|x keys IH]; intros [|v vals] lo k H L; cbn; try reflexivity.
  cbn in H. destruct H as [A0 B]. destruct (x =? k) eqn:E; [apply Z.eqb_eq in E; lia|].
  eapply IH; [exact B|lia].
Qed.
Lemma find_by_fmask_none {A} m : forall keys (vals : list A) lo k, incr_from lo keys -> k < lo ->
  find_by (fmask m keys) (fmask m vals) k = None.
Proof.
  intros keys vals lo k H L. destruct (fmask m vals) eqn:E.
  - destruct (fmask m keys); reflexivity.
  - rewrite <- E. clear E.
    revert keys vals lo H L. induction m as [|b m IH]; intros [|x keys] [|v vals] lo H L; cbn; try reflexivity.
    + destruct b; destruct (fmask m keys); reflexivity.
    + cbn in H. destruct H as [A0 B]. destruct b.
      * cbn. destruct (x =? k) eqn:E; [apply Z.eqb_eq in E; lia|]. eapply IH; [exact B|lia].
      * eapply IH; [exact B|lia].
Qed.

(** compaction keeps exactly the living particles, each with its own value, and nothing else *)
Lemma find_by_fmask {A} m : forall keys (vals : list A) lo k,
  length keys = length vals -> length keys = length m -> incr_from lo keys ->
  find_by (fmask m keys) (fmask m vals) k =
  match find_by keys m k with Some true => find_by keys vals k | _ => None end.
Proof.
  induction m as [|b m IH]; intros [|x keys] [|v vals] lo k L1 L2 H; cbn in *; try reflexivity; try discriminate.
  destruct H as [A0 B]. injection L1 as L1. injection L2 as L2.
  destruct b; cbn.
  - destruct (x =? k) eqn:E; [reflexivity|]. eapply IH; eassumption.
  - destruct (x =? k) eqn:E.
    + apply Z.eqb_eq in E. subst k. eapply find_by_fmask_none; [exact B|lia].
    + eapply IH; eassumption.
Qed.

Lemma count_true_cons b m : count_true (b :: m) = (if b then 1 else 0) + count_true m.
Proof. reflexivity. Qed.
Lemma all_alive_find keys : forall m (vals : list Z) p, length keys = length m -> length keys = length vals ->
  Z.of_nat (length keys) - count_true m <= 0 ->
  match find_by keys m p with Some true => find_by keys vals p | _ => None end = find_by keys vals p.
Proof.
  induction keys as [|x keys IH]; intros [|b m] [|v vals] p L1 L2 H; cbn [length find_by] in *; try reflexivity; try discriminate.
  injection L1 as L1. injection L2 as L2. pose proof (count_true_le m) as CL.
  rewrite count_true_cons, Nat2Z.inj_succ in H. rewrite <- L1 in CL.
  destruct b; [|lia]. destruct (x =? p); [reflexivity|]. apply IH; try assumption. lia.
Qed.
Lemma fmask_nil {A} m : fmask m (@nil A) = [].
Proof. destruct m as [|[] m]; reflexivity. Qed.
Lemma nth_map_fmask m (cols : list (list Z)) : forall c, nth c (map (fmask m) cols) [] = fmask m (nth c cols []).
Proof.
  induction cols as [|col cols IH]; intros [|c]; cbn; try (symmetry; apply fmask_nil); try reflexivity. apply IH.
Qed.

Lemma compactify_lookup s c p : Inv s -> (c < length (inst s))%nat ->
  ival (step s Compactify) c p = if is_alive s p then ival s c p else None.
Proof.
  intros (Hn & Hi & Hb & Hl & Hp & _) Hc. unfold ival, is_alive. cbn [step].
  assert (length (nth c (inst s) []) = length (pid s)) as Lc.
  { rewrite Forall_forall in Hl. apply Hl. apply nth_In. exact Hc. }
  assert (length (alive_mask s) = length (pid s)) as Lm.
  { unfold alive_mask. rewrite map_length. destruct (inst s) as [|a r]; [cbn in Hc; lia|].
    inversion Hl; subst. assumption. }
  destruct (0 <? _) eqn:E.
  - cbn [pid inst]. rewrite nth_map_fmask. erewrite find_by_fmask; [|symmetry; exact Lc|symmetry; exact Lm|exact Hi].
    destruct (find_by (pid s) (alive_mask s) p) as [[|]|]; reflexivity.
  - (* nobody is dead: every particle found is alive *)
    apply Z.ltb_ge in E.
    pose proof (all_alive_find (pid s) (alive_mask s) (nth c (inst s) []) p) as G.
    specialize (G (eq_sym Lm) (eq_sym Lc) E).
    destruct (find_by (pid s) (alive_mask s) p) as [[|]|]; [reflexivity|symmetry; exact G|symmetry; exact G].
Qed.

(** compaction drops exactly the dead and keeps the relative order: pid list = living pids in order *)
Lemma compactify_pids s : Inv s -> pid (step s Compactify) = fmask (alive_mask s) (pid s).
Proof.
  intros (Hn & Hi & Hb & Hl & Hp & _). cbn [step]. destruct (0 <? _) eqn:E; [reflexivity|].
  apply Z.ltb_ge in E.
  assert (length (alive_mask s) <= length (pid s))%nat as Lm.
  { unfold alive_mask. rewrite map_length. destruct (inst s) as [|a r]; [cbn; lia|]. inversion Hl; subst. cbn. lia. }
  revert Lm E. generalize (alive_mask s) as m. generalize (pid s) as l. clear.
  induction l as [|x l IH]; intros [|b m] Lm E; cbn [length fmask] in *.
  - reflexivity.
  - lia.
  - rewrite Nat2Z.inj_succ in E. change (count_true []) with 0 in E. lia.
  - pose proof (count_true_le m) as CL. rewrite count_true_cons, Nat2Z.inj_succ in E.
    destruct b; [|lia]. f_equal. apply IH; lia.
Qed.

(** particle variables are never touched by kill / compactify / instance assignment *)
Lemma pvar_untouched s o : (match o with Kill _ | Compactify | SetInst _ _ | Poke _ _ _ | AppendInvalid => True | _ => False end) ->
  pvar (step s o) = pvar s /\ npid (step s o) = npid s.
Proof.
  destruct o as [ia pa| |m| |c m v|c v|c v]; intro H; try contradiction; cbn [step].
  - split; reflexivity.
  - destruct (inst s); split; reflexivity.
  - destruct (0 <? _); split; reflexivity.
  - split; reflexivity.
  - split; reflexivity.
Qed.

(** append keeps every existing binding (instance values by pid, particle values by index) *)
Lemma find_by_app {A} keys : forall (vals : list A) k2 v2 k, length keys = length vals ->
  find_by keys vals k <> None -> find_by (keys ++ k2) (vals ++ v2) k = find_by keys vals k.
Proof.
  induction keys as [|x keys IH]; intros [|v vals] k2 v2 k L H; cbn in *; try congruence; try discriminate.
  destruct (x =? k); [reflexivity|]. apply IH; [lia|exact H].
Qed.
Lemma nth_opt_app {A} (l : list A) : forall r n, (n < length l)%nat -> nth_opt (l ++ r) n = nth_opt l n.
Proof.
  induction l as [|x l IH]; intros r n H; cbn in *; [lia|]. destruct n; [reflexivity|]. apply IH. lia.
Qed.
Lemma nth_map2_app (cols : list (list Z)) : forall (args : list arg) n c, (c < length cols)%nat -> length args = length cols ->
  exists a, nth c (map2 (fun col a => col ++ bcast n a) cols args) [] = nth c cols [] ++ bcast n a.
Proof.
  induction cols as [|col cols IH]; intros [|a args] n c Hc L; cbn in *; try lia.
  destruct c as [|c]; [exists a; reflexivity|]. apply IH; lia.
Qed.
Lemma append_keeps s ia pa c p : Inv s -> op_wf s (Append ia pa) = true ->
  (c < length (inst s))%nat -> ival s c p <> None -> ival (step s (Append ia pa)) c p = ival s c p.
Proof.
  intros (Hn & Hi & Hb & Hl & Hp & Hd1 & Hd2) W Hc F. cbn in W. apply andb_true_iff in W as [W1 W2].
  apply Nat.eqb_eq in W1, W2. unfold ival in *. cbn [step].
  destruct (bsize _) as [n|]; [|reflexivity]. cbn [pid inst].
  destruct (nth_map2_app (inst s) (map2 resolve ia (idef s)) n c Hc) as (a & ->).
  { rewrite length_map2; lia. }
  apply find_by_app; [|exact F]. rewrite Forall_forall in Hl. symmetry. apply Hl. apply nth_In. exact Hc.
Qed.
Lemma append_keeps_pvar s ia pa c p : Inv s -> op_wf s (Append ia pa) = true ->
  (c < length (pvar s))%nat -> 0 <= p < npid s -> pval (step s (Append ia pa)) c p = pval s c p.
Proof.
  intros (Hn & Hi & Hb & Hl & Hp & Hd1 & Hd2) W Hc F. cbn in W. apply andb_true_iff in W as [W1 W2].
  apply Nat.eqb_eq in W1, W2. unfold pval in *. cbn [step].
  destruct (bsize _) as [n|]; [|reflexivity]. cbn [pvar].
  destruct (nth_map2_app (pvar s) (map2 resolve pa (pdef s)) n c Hc) as (a & ->).
  { rewrite length_map2; lia. }
  unfold znth_opt. destruct (p <? 0) eqn:E; [reflexivity|]. apply nth_opt_app.
  rewrite Forall_forall in Hp. specialize (Hp (nth c (pvar s) []) (nth_In _ _ Hc)). lia.
Qed.
