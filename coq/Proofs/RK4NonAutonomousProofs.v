(** Local truncation error of the CLASSICAL RK4 scheme for TIME-DEPENDENT, POSITION-DEPENDENT scalar
    fields x' = f t x by Taylor's theorem in two variables, and hence COMPLETE fourth-order
    convergence of the tracker's RK4 scheme for such fields, over the reals.

    GeneralConvergenceProofs.v: RK4_converges_order4 keeps the local truncation bound
        |y(t+h) - y(t) - h * Phi_RK4 f h t (y t)| <= C * h^5
    as a HYPOTHESIS; RK4TruncationProofs.v discharges it for quadrature f t x = q t, for linear
    autonomous and for autonomous fields f t x = g x only.  This file discharges it for

    ACHIEVED: class (A) of the task, in full, plus a localised version of it, plus class (B) as a
    corollary of the localised version.

    (A) GENERAL time-dependent fields on the strip [t0, t0+T] x R.   Section NonAutonomousRK4Strip:
          F : nat -> nat -> R -> R -> R        F i j = d^i/dt^i d^j/dx^j f,  f = F 0 0,  i + j <= 4
          HF : forall i j t x, (i + j < 4)%nat -> t0 <= t <= t0 + T ->
                 differentiable_pt_lim (F i j) t x (F (S i) j t x) (F i (S j) t x)
               (Coquelicot's Frechet differentiability in R^2, as in RK2TruncationProofs (B); it
                follows from existence of the partial derivatives near (t,x) and continuity of the
                t-derivative: differentiable_pt_lim_of_partials below.  The family F carries the
                symmetry of the mixed partials, which holds for every C^4 field by Schwarz.)
          HB : forall i j t x, (i + j <= 4)%nat -> t0 <= t <= t0 + T ->
                 Rabs (F i j t x) <= nBd B0 B1 B2 B3 B4 (i + j)
               (B0 bounds f, Bk bounds every partial derivative of total order k, on the strip)
          Hode : forall t, t0 <= t <= t0 + T -> is_derive y t (F 0 0 t (y t))
        (two-sided derivatives also at the end points; no further regularity of y is assumed).
        With   C_RK4n B0..B4 := C_RK4a (1 + B0) B1 B2 B3 B4
                 = (1+B0) B1^4/120 + 47/240 (1+B0)^2 B1^2 B2 + 31/480 (1+B0)^3 B2^2
                   + 169/1440 (1+B0)^3 B1 B3 + 49/2880 (1+B0)^4 B4
        (the constant of the autonomous case for the augmented field (1, f), sup-norm 1 + B0):
          RK4_local_truncation_nonautonomous   0 < h, t0 <= s, s + h <= t0 + T:
              |y(s+h) - y s - h * Phi_RK4 (F 0 0) h s (y s)| <= C_RK4n B0 B1 B2 B3 B4 * h^5
              (for ALL h > 0, no smallness condition)
          RK4_converges_nonautonomous (COMPLETE), ..._uniform, ..._field:   0 < h, INR n * h = T:
              |one_step_iter (Phi_RK4 (F 0 0) h) h t0 n (y t0) - y (t0 + T)|
                 <= exp (T * Lip_RK4 h B1) * T * C_RK4n B0 B1 B2 B3 B4 * h^4
              obtained by feeding the local bound into RK4_converges_order4.  (That theorem asks for
              a Lipschitz bound at ALL times; it is applied to the field frozen outside the strip,
              nFc t x = f (clampt t0 T t) x, which the RK4 steps on the grid cannot tell from f.)
          RK4_cos_sin_example (closed, non-vacuity): f t x = cos t * sin x, F i j = cos^(i) t * sin^(j) x
              (F_cs_differentiable, F_cs_bound: HF and HB hold with B0 = ... = B4 = 1), y(0) = PI/2,
              y t = 2 atan (exp (sin t)):  |x_n - y T| <= exp (T Lip_RK4 h 1) T (91/36) h^4;
              RK4_cos_sin_local_example: the one-step bound 91/36 h^5 for all s, h > 0.

    (A') THE SAME ON [t0, t0+T] x Dx, Dx an OPEN CONVEX set of positions (Section NonAutonomousRK4):
        HF, HB only for x in Dx; a tube of radius rho >= 0 around the solution lies in Dx
          Htube : forall t dd, t0 <= t <= t0 + T -> Rabs dd <= rho -> Dx (y t + dd)
        and the step is small enough for the stage positions to stay in it: h * B0 <= rho.
          RK4_local_truncation_nonautonomous_tube, RK4_converges_nonautonomous_tube (..._uniform);
        in the latter the Lipschitz constant L of f in x (all x, t in [t0,t0+T]) is a separate
        hypothesis.  (A) is the instance Dx = R, rho = h B0, L = B1.  This covers every C^4 field
        (bounds are only needed near the solution), in particular fields unbounded in x.

    (B) AFFINE-IN-x fields f t x = p t + q t * x, the class of the tracker's interpolated velocity
        inside one grid cell and one time bracket (Section AffineRK4): P k, Q k the derivatives of
        p = P 0, q = Q 0 (is_derive (P k) t (P (S k) t), k < 4, on [t0,t0+T]), |P k| <= Pm,
        |Q k| <= Qm (k <= 4), |y| <= Ym on [t0,t0+T]; through (A') with Dx = (-(Ym+2), Ym+2),
        rho = 1, L = Qm, all Bk = B_aff := Pm + Qm (Ym + 3), for h * B_aff <= 1:
          RK4_local_truncation_affine, RK4_converges_affine:
              |x_n - y(t0+T)| <= exp (T Lip_RK4 h Qm) T C_RK4n B_aff .. B_aff h^4
          RK4_cos_x_example (closed): f t x = cos t * x, y = exp (sin t), h <= 1/6.

    HOW.  (i) Section RK4NAlgebra, over plain reals: with the nine two-variable Taylor remainders of
    the stages as DEFINED quantities (k2 and k3 to orders 0..3, k4 to order 3; nT1..nT3 are the
    Taylor polynomials in the increment (al, d)), rk4n_combination is ONE polynomial identity (by
    field; this is where the order conditions of RK4 for non-autonomous problems enter) writing
    h*Phi_RK4 as  h Y1 + h^2/2 Y2 + h^3/6 Y3 + h^4/24 Y4 + h/6 (2 r2 + 2 R3 + R4),  Yk = nYk the
    total derivatives of the solution (Y2 = ft + fx f, Y3 = ftt + 2 ftx f + fxx f^2 + fx Y2, ...);
    every remainder is bounded using |k_i| <= B0, homogeneously of degree 4 in h (E_RK4n), so there
    is no smallness condition from the algebra; C_RK4n_eq: M5 h^5/120 + E_RK4n = C_RK4n h^5.
    (ii) TaylorF4: r |-> f (t + r al, p + r d) has k-th derivative (al d/dt + d d/dx)^k f (sP k,
    bin2/3/4_derive), Taylor-Lagrange on [0,1] (the segment is prolonged a little at both ends
    inside the domain, seg_room, because Coquelicot's derivatives are two-sided): taylor_f0..f3
    with remainder <= B_(m+1) (al + D)^(m+1)/(m+1)!.  (iii) NSolution: the derivatives of order
    2..5 of the exact solution are DERIVED as nY2..nY5 along the solution (nY2/3/4_derive by
    auto_derive on polynomials in the 15 functions s |-> F i j s (y s), each with derivative
    F (i+1) j + F i (j+1) * f by the two-variable chain rule), the fifth one bounded by nM5;
    Taylor-Lagrange of order 4 for y.  (iv) assembly on the open interval; the two end steps of
    the closed interval by continuity of the shrunk step (Phi_RK4_cont, bound_at_0_by_continuity).

    WHAT REMAINS A HYPOTHESIS / IS NOT COVERED: existence of the exact solution y (given, not
    constructed) and, in (A') and (B), its staying in the tube / its bound Ym; the field must be
    differentiable in the two-sided sense also at t = t0 and t = t0 + T, i.e. be defined slightly
    beyond the strip; bounds are lumped per total order (so for an autonomous f the constant is
    C_RK4a with 1 + B0 in place of B0, slightly larger than RK4TruncationProofs (L3)); (A') needs
    h B0 <= rho and a separately given global Lipschitz constant; scalar case only; the rational
    model (Tracker.rk_iter, one velocity oracle for all steps) is not re-instantiated for
    time-dependent fields.  No proof is left open; no axioms beyond those of the standard-library
    reals / Coquelicot (Print Assumptions at the end). *)
From Coq Require Import Reals Lra Lia.
From Coquelicot Require Import Coquelicot.
From Ladim Require Import Proofs.GeneralConvergenceProofs Proofs.RK2TruncationProofs
  Proofs.RK4TruncationProofs.
Open Scope R_scope.

(** * (i) the algebra of one RK4 step of a time-dependent field, over plain reals.
    f, ft, fx, ..., fxxx stand for the partial derivatives of order <= 3 of the field at the point
    (s, p), p = y s; k2, k3, k4 for the stage values; all remainders are DEFINED as differences. *)
Section RK4NAlgebra.
  Variables h f ft fx ftt ftx fxx fttt fttx ftxx fxxx k2 k3 k4 : R.
  Variables B0 B1 B2 B3 B4 : R.
  Hypothesis Hh : 0 < h.
  Hypothesis Hf : Rabs f <= B0.
  Hypothesis Hk2 : Rabs k2 <= B0.
  Hypothesis Hk3 : Rabs k3 <= B0.
  Hypothesis Hft : Rabs ft <= B1.
  Hypothesis Hfx : Rabs fx <= B1.
  Hypothesis Hftt : Rabs ftt <= B2.
  Hypothesis Hftx : Rabs ftx <= B2.
  Hypothesis Hfxx : Rabs fxx <= B2.
  Hypothesis Hfttt : Rabs fttt <= B3.
  Hypothesis Hfttx : Rabs fttx <= B3.
  Hypothesis Hftxx : Rabs ftxx <= B3.
  Hypothesis Hfxxx : Rabs fxxx <= B3.

  Let a := h * / 2.
  (** the two-variable Taylor polynomials of the field at (s, p), increment (al, d) *)
  Definition nT1 (al d : R) : R := f + (al * ft + d * fx).
  Definition nT2 (al d : R) : R :=
    nT1 al d + (al * al * ftt + 2 * (al * d * ftx) + d * d * fxx) * / 2.
  Definition nT3 (al d : R) : R :=
    nT2 al d + (al * al * al * fttt + 3 * (al * al * d * fttx) + 3 * (al * d * d * ftxx)
                + d * d * d * fxxx) * / 6.
  Let d2 := a * f.
  Let d3 := a * k2.
  Let d4 := h * k3.
  Let A := a + a * B0.
  Let H := h + h * B0.
  (** Taylor remainders of the three stages (orders 0..3 for k2 and k3, order 3 for k4) *)
  Let u2 := k2 - f.
  Let t2 := k2 - nT1 a d2.
  Let s2 := k2 - nT2 a d2.
  Let r2 := k2 - nT3 a d2.
  Let u3 := k3 - f.
  Let t3' := k3 - nT1 a d3.
  Let s3' := k3 - nT2 a d3.
  Let r3 := k3 - nT3 a d3.
  Let r4 := k4 - nT3 h d4.
  Hypothesis Hu2 : Rabs u2 <= B1 * A.
  Hypothesis Ht2 : Rabs t2 <= B2 * A ^ 2 / 2.
  Hypothesis Hs2 : Rabs s2 <= B3 * A ^ 3 / 6.
  Hypothesis Hr2 : Rabs r2 <= B4 * A ^ 4 / 24.
  Hypothesis Hu3 : Rabs u3 <= B1 * A.
  Hypothesis Ht3' : Rabs t3' <= B2 * A ^ 2 / 2.
  Hypothesis Hs3' : Rabs s3' <= B3 * A ^ 3 / 6.
  Hypothesis Hr3 : Rabs r3 <= B4 * A ^ 4 / 24.
  Hypothesis Hr4 : Rabs r4 <= B4 * H ^ 4 / 24.

  Let Ha : 0 <= a.
  Proof. unfold a. lra. Qed.

  (** derived remainders *)
  Let L := a * ft + a * f * fx.
  Let q2 := L * u2 + t2 * (k2 + f).
  Let c2 := u2 * (k2 * k2 + k2 * f + f * f).
  Let R3 := a * fx * s2 + a * a * ftx * t2 + a * a * fxx * / 2 * q2 + a * a * a * fttx * / 2 * u2
            + a * a * a * ftxx * / 2 * (u2 * (k2 + f)) + a * a * a * fxxx * / 6 * c2 + r3.
  Let t3 := a * fx * u2 + t3'.
  Let s3 := a * fx * t2 + a * a * ftx * u2 + a * a * fxx * / 2 * (u2 * (k2 + f)) + s3'.
  Let q3 := L * u3 + t3 * (k3 + f).
  Let c3 := u3 * (k3 * k3 + k3 * f + f * f).
  Let R4 := h * fx * s3 + h * h * ftx * t3 + h * h * fxx * / 2 * q3 + h * h * h * fttx * / 2 * u3
            + h * h * h * ftxx * / 2 * (u3 * (k3 + f)) + h * h * h * fxxx * / 6 * c3 + r4.

  (** the total derivatives of order 2, 3, 4 of the exact solution (elementary differentials) *)
  Definition nY2 := ft + fx * f.
  Definition nY3 := ftt + 2 * ftx * f + fxx * f ^ 2 + fx * nY2.
  Definition nY4 := fttt + 3 * fttx * f + 3 * ftxx * f ^ 2 + fxxx * f ^ 3
                    + 3 * (ftx + fxx * f) * nY2 + fx * nY3.

  (** the order conditions of RK4 for a NON-AUTONOMOUS field, through h^4, as ONE polynomial
      identity *)
  Lemma rk4n_combination :
    h * ((f + 2 * k2 + 2 * k3 + k4) / 6)
    = h * f + h ^ 2 / 2 * nY2 + h ^ 3 / 6 * nY3 + h ^ 4 / 24 * nY4
      + h * / 6 * (2 * r2 + 2 * R3 + R4).
  Proof.
    unfold R4, c3, q3, s3, t3, R3, c2, q2, L, r4, r3, s3', t3', u3, r2, s2, t2, u2, d4, d3, d2,
      nY4, nY3, nY2, nT3, nT2, nT1, a.
    field.
  Qed.

  Definition nbL := a * B1 + a * B0 * B1.
  Definition nbq2 := nbL * (B1 * A) + B2 * A ^ 2 / 2 * (B0 + B0).
  Definition nbc2 := B1 * A * (B0 * B0 + B0 * B0 + B0 * B0).
  Definition nbR3 :=
    a * B1 * (B3 * A ^ 3 / 6) + a * a * B2 * (B2 * A ^ 2 / 2) + a * a * B2 * / 2 * nbq2
    + a * a * a * B3 * / 2 * (B1 * A) + a * a * a * B3 * / 2 * (B1 * A * (B0 + B0))
    + a * a * a * B3 * / 6 * nbc2 + B4 * A ^ 4 / 24.
  Definition nbt3 := a * B1 * (B1 * A) + B2 * A ^ 2 / 2.
  Definition nbs3 := a * B1 * (B2 * A ^ 2 / 2) + a * a * B2 * (B1 * A)
                     + a * a * B2 * / 2 * (B1 * A * (B0 + B0)) + B3 * A ^ 3 / 6.
  Definition nbq3 := nbL * (B1 * A) + nbt3 * (B0 + B0).
  Definition nbR4 :=
    h * B1 * nbs3 + h * h * B2 * nbt3 + h * h * B2 * / 2 * nbq3
    + h * h * h * B3 * / 2 * (B1 * A) + h * h * h * B3 * / 2 * (B1 * A * (B0 + B0))
    + h * h * h * B3 * / 6 * nbc2 + B4 * H ^ 4 / 24.

  Lemma nL_bound : Rabs L <= nbL.  Proof. unfold L, nbL. absb. Qed.
  Lemma nq2_bound : Rabs q2 <= nbq2.  Proof. pose proof nL_bound. unfold q2, nbq2. absb. Qed.
  Lemma nc2_bound : Rabs c2 <= nbc2.  Proof. unfold c2, nbc2. absb. Qed.
  Lemma nc3_bound : Rabs c3 <= nbc2.  Proof. unfold c3, nbc2. absb. Qed.
  Lemma nt3_bound : Rabs t3 <= nbt3.  Proof. unfold t3, nbt3. absb. Qed.
  Lemma nR3_bound : Rabs R3 <= nbR3.
  Proof. pose proof nq2_bound. pose proof nc2_bound. unfold R3, nbR3. absb. Qed.
  Lemma ns3_bound : Rabs s3 <= nbs3.  Proof. unfold s3, nbs3. absb. Qed.
  Lemma nq3_bound : Rabs q3 <= nbq3.
  Proof. pose proof nL_bound. pose proof nt3_bound. unfold q3, nbq3. absb. Qed.
  Lemma nR4_bound : Rabs R4 <= nbR4.
  Proof.
    pose proof ns3_bound. pose proof nt3_bound. pose proof nq3_bound. pose proof nc3_bound.
    unfold R4, nbR4. absb.
  Qed.

  Definition E_RK4n := h * / 6 * (2 * (B4 * A ^ 4 / 24) + 2 * nbR3 + nbR4).

  Lemma rk4n_remainder_bound : Rabs (h * / 6 * (2 * r2 + 2 * R3 + R4)) <= E_RK4n.
  Proof. pose proof nR3_bound. pose proof nR4_bound. unfold E_RK4n. absb. Qed.

  (** h * Phi_RK4 agrees with the Taylor polynomial of the exact solution through h^4 *)
  Lemma rk4n_local_algebra :
    Rabs (h * ((f + 2 * k2 + 2 * k3 + k4) / 6)
          - (h * f + h ^ 2 / 2 * nY2 + h ^ 3 / 6 * nY3 + h ^ 4 / 24 * nY4)) <= E_RK4n.
  Proof.
    rewrite rk4n_combination.
    match goal with |- Rabs ?e <= _ =>
      replace e with (h * / 6 * (2 * r2 + 2 * R3 + R4)) by ring end.
    exact rk4n_remainder_bound.
  Qed.

  (** the fifth total derivative of the solution, and bounds of the total derivatives *)
  Variables f40 f31 f22 f13 f04 : R.
  Hypothesis Hf40 : Rabs f40 <= B4.
  Hypothesis Hf31 : Rabs f31 <= B4.
  Hypothesis Hf22 : Rabs f22 <= B4.
  Hypothesis Hf13 : Rabs f13 <= B4.
  Hypothesis Hf04 : Rabs f04 <= B4.

  Definition nY5 :=
    f40 + 4 * f31 * f + 6 * f22 * f ^ 2 + 4 * f13 * f ^ 3 + f04 * f ^ 4
    + 6 * (fttx + 2 * ftxx * f + fxxx * f ^ 2) * nY2 + 3 * fxx * nY2 ^ 2
    + 4 * (ftx + fxx * f) * nY3 + fx * nY4.

  Definition nM2 := B1 + B1 * B0.
  Definition nM3 := B2 + 2 * B2 * B0 + B2 * B0 ^ 2 + B1 * nM2.
  Definition nM4 := B3 + 3 * B3 * B0 + 3 * B3 * B0 ^ 2 + B3 * B0 ^ 3
                    + 3 * (B2 + B2 * B0) * nM2 + B1 * nM3.
  Definition nM5 :=
    B4 + 4 * B4 * B0 + 6 * B4 * B0 ^ 2 + 4 * B4 * B0 ^ 3 + B4 * B0 ^ 4
    + 6 * (B3 + 2 * B3 * B0 + B3 * B0 ^ 2) * nM2 + 3 * B2 * nM2 ^ 2
    + 4 * (B2 + B2 * B0) * nM3 + B1 * nM4.

  Ltac absp := repeat (apply Rabs_plus_le || apply Rabs_mult_le || apply Rabs_pow_le
                       || assumption || (apply Rabs_const_le; lra)).

  Lemma nY2_bound : Rabs nY2 <= nM2.  Proof. unfold nY2, nM2. absp. Qed.
  Lemma nY3_bound : Rabs nY3 <= nM3.
  Proof. pose proof nY2_bound. unfold nY3, nM3. absp. Qed.
  Lemma nY4_bound : Rabs nY4 <= nM4.
  Proof. pose proof nY2_bound. pose proof nY3_bound. unfold nY4, nM4. absp. Qed.
  Lemma nY5_bound : Rabs nY5 <= nM5.
  Proof.
    pose proof nY2_bound. pose proof nY3_bound. pose proof nY4_bound. unfold nY5, nM5. absp.
  Qed.
End RK4NAlgebra.

(** the error constant of RK4 for time-dependent scalar fields: B0 bounds f, Bk (k = 1..4) bounds
    every partial derivative of total order k.  It is the constant C_RK4a of the autonomous case
    (RK4TruncationProofs.v) with B0 replaced by 1 + B0, the bound of the augmented autonomous field
    (1, f) of the system (t, x)' = (1, f t x):
      C_RK4n = (1+B0) B1^4/120 + 47/240 (1+B0)^2 B1^2 B2 + 31/480 (1+B0)^3 B2^2
               + 169/1440 (1+B0)^3 B1 B3 + 49/2880 (1+B0)^4 B4 *)
Definition C_RK4n (B0 B1 B2 B3 B4 : R) : R := C_RK4a (1 + B0) B1 B2 B3 B4.

Lemma C_RK4n_eq (h B0 B1 B2 B3 B4 : R) :
  nM5 B0 B1 B2 B3 B4 * h ^ 5 / 120 + E_RK4n h B0 B1 B2 B3 B4 = C_RK4n B0 B1 B2 B3 B4 * h ^ 5.
Proof.
  unfold C_RK4n, C_RK4a, nM5, nM4, nM3, nM2, E_RK4n, nbR4, nbR3, nbq3, nbs3, nbt3, nbc2, nbq2, nbL.
  field.
Qed.

Lemma C_RK4n_nonneg (B0 B1 B2 B3 B4 : R) :
  0 <= B0 -> 0 <= B1 -> 0 <= B2 -> 0 <= B3 -> 0 <= B4 -> 0 <= C_RK4n B0 B1 B2 B3 B4.
Proof. intros H0 H1 H2 H3 H4. unfold C_RK4n. apply C_RK4a_nonneg; lra. Qed.

(** * (ii-a) derivatives of binomial combinations along a line (abstract one-variable functions) *)
Ltac dfold v H :=
  change (Derive (fun x : R => v x)) with (Derive v); rewrite (is_derive_unique _ _ _ H).

Lemma bin2_derive (al d : R) (v0 v1 w0 w1 w2 : R -> R) r :
  is_derive v0 r (al * w0 r + d * w1 r) -> is_derive v1 r (al * w1 r + d * w2 r) ->
  is_derive (fun s => al * v0 s + d * v1 s) r
    (al * al * w0 r + 2 * (al * d * w1 r) + d * d * w2 r).
Proof.
  intros H0 H1.
  assert (E0 : ex_derive v0 r) by (eexists; exact H0).
  assert (E1 : ex_derive v1 r) by (eexists; exact H1).
  auto_derive. repeat split; assumption.
  dfold v0 H0. dfold v1 H1. ring.
Qed.

Lemma bin3_derive (al d : R) (v0 v1 v2 w0 w1 w2 w3 : R -> R) r :
  is_derive v0 r (al * w0 r + d * w1 r) -> is_derive v1 r (al * w1 r + d * w2 r) ->
  is_derive v2 r (al * w2 r + d * w3 r) ->
  is_derive (fun s => al * al * v0 s + 2 * (al * d * v1 s) + d * d * v2 s) r
    (al * al * al * w0 r + 3 * (al * al * d * w1 r) + 3 * (al * d * d * w2 r) + d * d * d * w3 r).
Proof.
  intros H0 H1 H2.
  assert (E0 : ex_derive v0 r) by (eexists; exact H0).
  assert (E1 : ex_derive v1 r) by (eexists; exact H1).
  assert (E2 : ex_derive v2 r) by (eexists; exact H2).
  auto_derive. repeat split; assumption.
  dfold v0 H0. dfold v1 H1. dfold v2 H2. ring.
Qed.

Lemma bin4_derive (al d : R) (v0 v1 v2 v3 w0 w1 w2 w3 w4 : R -> R) r :
  is_derive v0 r (al * w0 r + d * w1 r) -> is_derive v1 r (al * w1 r + d * w2 r) ->
  is_derive v2 r (al * w2 r + d * w3 r) -> is_derive v3 r (al * w3 r + d * w4 r) ->
  is_derive (fun s => al * al * al * v0 s + 3 * (al * al * d * v1 s) + 3 * (al * d * d * v2 s)
                      + d * d * d * v3 s) r
    (al * al * al * al * w0 r + 4 * (al * al * al * d * w1 r) + 6 * (al * al * d * d * w2 r)
     + 4 * (al * d * d * d * w3 r) + d * d * d * d * w4 r).
Proof.
  intros H0 H1 H2 H3.
  assert (E0 : ex_derive v0 r) by (eexists; exact H0).
  assert (E1 : ex_derive v1 r) by (eexists; exact H1).
  assert (E2 : ex_derive v2 r) by (eexists; exact H2).
  assert (E3 : ex_derive v3 r) by (eexists; exact H3).
  auto_derive. repeat split; assumption.
  dfold v0 H0. dfold v1 H1. dfold v2 H2. dfold v3 H3. ring.
Qed.

Lemma is_derive_line (c0 c r : R) : is_derive (fun u : R => c0 + u * c) r c.
Proof. auto_derive. exact I. ring. Qed.

(** * (ii-c) derivatives of the elementary differentials nY2, nY3, nY4 along a solution: u_ij
    stands for s |-> (d^i/dt^i d^j/dx^j f) (s, y s), whose derivative is u_(i+1)j + u_i(j+1) * u_00 *)
Section AlongSolution.
  Variables u00 u10 u01 u20 u11 u02 u30 u21 u12 u03 u40 u31 u22 u13 u04 : R -> R.
  Variable t : R.
  Hypothesis D00 : is_derive u00 t (u10 t + u01 t * u00 t).
  Hypothesis D10 : is_derive u10 t (u20 t + u11 t * u00 t).
  Hypothesis D01 : is_derive u01 t (u11 t + u02 t * u00 t).
  Hypothesis D20 : is_derive u20 t (u30 t + u21 t * u00 t).
  Hypothesis D11 : is_derive u11 t (u21 t + u12 t * u00 t).
  Hypothesis D02 : is_derive u02 t (u12 t + u03 t * u00 t).
  Hypothesis D30 : is_derive u30 t (u40 t + u31 t * u00 t).
  Hypothesis D21 : is_derive u21 t (u31 t + u22 t * u00 t).
  Hypothesis D12 : is_derive u12 t (u22 t + u13 t * u00 t).
  Hypothesis D03 : is_derive u03 t (u13 t + u04 t * u00 t).

  Let E00 : ex_derive u00 t.  Proof. eexists; exact D00. Qed.
  Let E10 : ex_derive u10 t.  Proof. eexists; exact D10. Qed.
  Let E01 : ex_derive u01 t.  Proof. eexists; exact D01. Qed.
  Let E20 : ex_derive u20 t.  Proof. eexists; exact D20. Qed.
  Let E11 : ex_derive u11 t.  Proof. eexists; exact D11. Qed.
  Let E02 : ex_derive u02 t.  Proof. eexists; exact D02. Qed.
  Let E30 : ex_derive u30 t.  Proof. eexists; exact D30. Qed.
  Let E21 : ex_derive u21 t.  Proof. eexists; exact D21. Qed.
  Let E12 : ex_derive u12 t.  Proof. eexists; exact D12. Qed.
  Let E03 : ex_derive u03 t.  Proof. eexists; exact D03. Qed.

  Lemma nY2_derive :
    is_derive (fun s => nY2 (u00 s) (u10 s) (u01 s)) t
      (nY3 (u00 t) (u10 t) (u01 t) (u20 t) (u11 t) (u02 t)).
  Proof.
    unfold nY3, nY2. auto_derive. repeat split; assumption.
    dfold u00 D00. dfold u10 D10. dfold u01 D01. ring.
  Qed.

  Lemma nY3_derive :
    is_derive (fun s => nY3 (u00 s) (u10 s) (u01 s) (u20 s) (u11 s) (u02 s)) t
      (nY4 (u00 t) (u10 t) (u01 t) (u20 t) (u11 t) (u02 t) (u30 t) (u21 t) (u12 t) (u03 t)).
  Proof.
    unfold nY4, nY3, nY2. auto_derive. repeat split; assumption.
    dfold u00 D00. dfold u10 D10. dfold u01 D01. dfold u20 D20. dfold u11 D11. dfold u02 D02.
    ring.
  Qed.

  Lemma nY4_derive :
    is_derive (fun s => nY4 (u00 s) (u10 s) (u01 s) (u20 s) (u11 s) (u02 s)
                            (u30 s) (u21 s) (u12 s) (u03 s)) t
      (nY5 (u00 t) (u10 t) (u01 t) (u20 t) (u11 t) (u02 t) (u30 t) (u21 t) (u12 t) (u03 t)
           (u40 t) (u31 t) (u22 t) (u13 t) (u04 t)).
  Proof.
    unfold nY5, nY4, nY3, nY2. auto_derive. repeat split; assumption.
    dfold u00 D00. dfold u10 D10. dfold u01 D01. dfold u20 D20. dfold u11 D11. dfold u02 D02.
    dfold u30 D30. dfold u21 D21. dfold u12 D12. dfold u03 D03.
    ring.
  Qed.
End AlongSolution.

(** * continuity on R, in a form convenient for [apply] *)
Lemma cont_plus_R (u v : R -> R) (e : R) :
  continuous u e -> continuous v e -> continuous (fun z => u z + v z) e.
Proof. intros Hu Hv. apply (continuous_plus (V := R_NormedModule) u v e Hu Hv). Qed.
Lemma cont_minus_R (u v : R -> R) (e : R) :
  continuous u e -> continuous v e -> continuous (fun z => u z - v z) e.
Proof. intros Hu Hv. apply (continuous_minus (V := R_NormedModule) u v e Hu Hv). Qed.
Lemma cont_mult_R (u v : R -> R) (e : R) :
  continuous u e -> continuous v e -> continuous (fun z => u z * v z) e.
Proof. intros Hu Hv. apply (continuous_mult (K := R_AbsRing) u v e Hu Hv). Qed.
Lemma cont_const_R (c e : R) : continuous (fun _ : R => c) e.
Proof. apply continuous_const. Qed.
Lemma cont_id_R (e : R) : continuous (fun z : R => z) e.
Proof. apply continuous_id. Qed.
Lemma cont_comp2_R (k : R -> R -> R) (u v : R -> R) (e : R) :
  continuity_2d_pt k (u e) (v e) -> continuous u e -> continuous v e ->
  continuous (fun z => k (u z) (v z)) e.
Proof.
  intros Hk Hu Hv. apply (continuous_comp_2 u v k e Hu Hv).
  apply continuity_2d_pt_filterlim. exact Hk.
Qed.
Lemma cont_comp_R (g u : R -> R) (e : R) :
  continuous u e -> continuous g (u e) -> continuous (fun z => g (u z)) e.
Proof. intros Hu Hg. apply (continuous_comp u g e Hu Hg). Qed.

(** clamping the time to [t0, t0 + T] (used only to feed a field that is smooth on the strip into
    RK4_converges_order4, which asks for a Lipschitz bound at ALL times) *)
Definition clampt (t0 T t : R) : R := Rmax t0 (Rmin t (t0 + T)).

Lemma clampt_in t0 T t : 0 <= T -> t0 <= clampt t0 T t <= t0 + T.
Proof.
  intros HT. unfold clampt. split. apply Rmax_l.
  apply Rmax_lub. lra. apply Rmin_r.
Qed.

Lemma clampt_id t0 T t : t0 <= t <= t0 + T -> clampt t0 T t = t.
Proof.
  intros Ht. unfold clampt. rewrite Rmin_left by lra. apply Rmax_right. lra.
Qed.

Lemma one_step_iter_ext_grid (Phi Phi' : R -> R -> R) (h t0 : R) (n : nat) (x0 : R) :
  (forall k x, (k < n)%nat -> Phi (t0 + INR k * h) x = Phi' (t0 + INR k * h) x) ->
  one_step_iter Phi h t0 n x0 = one_step_iter Phi' h t0 n x0.
Proof.
  induction n as [|n IH]; intros HP.
  - reflexivity.
  - cbn [one_step_iter]. rewrite IH by (intros k x Hk; apply HP; lia).
    rewrite HP by lia. reflexivity.
Qed.

Lemma Phi_RK4_ext (f g : R -> R -> R) (h t x : R) :
  (forall t x, f t x = g t x) -> Phi_RK4 f h t x = Phi_RK4 g h t x.
Proof.
  intros H. unfold Phi_RK4, rk4_k4, rk4_k3, rk4_k2, rk4_k1. rewrite !H. reflexivity.
Qed.

(** * (A') TIME-DEPENDENT fields f t x on [t0, t0 + T] x Dx, Dx an open convex set of positions:
    F i j is the partial derivative d^i/dt^i d^j/dx^j of f = F 0 0, for i + j <= 4 *)
Section NonAutonomousRK4.
  Variable F : nat -> nat -> R -> R -> R.
  Variables B0 B1 B2 B3 B4 : R.
  Variables t0 T : R.
  Variable Dx : R -> Prop.
  Definition nBd (k : nat) : R :=
    match k with O => B0 | 1%nat => B1 | 2%nat => B2 | 3%nat => B3 | _ => B4 end.
  Hypothesis Dx_open : forall x, Dx x ->
    exists e : R, 0 < e /\ forall x', Rabs (x' - x) < e -> Dx x'.
  Hypothesis Dx_convex : forall x x' r, Dx x -> Dx x' -> 0 <= r <= 1 -> Dx (x + r * (x' - x)).
  Hypothesis HF : forall (i j : nat) (t x : R), (i + j < 4)%nat -> t0 <= t <= t0 + T -> Dx x ->
    differentiable_pt_lim (F i j) t x (F (S i) j t x) (F i (S j) t x).
  Hypothesis HB : forall (i j : nat) (t x : R), (i + j <= 4)%nat -> t0 <= t <= t0 + T -> Dx x ->
    Rabs (F i j t x) <= nBd (i + j).

  Lemma nB_nn k x : 0 <= T -> Dx x -> 0 <= nBd k.
  Proof.
    intros HT Hx.
    destruct k as [|[|[|[|k]]]]; cbn [nBd]; (eapply Rle_trans; [apply Rabs_pos|]).
    - apply (HB 0 0 t0 x). lia. lra. exact Hx.
    - apply (HB 0 1 t0 x). lia. lra. exact Hx.
    - apply (HB 0 2 t0 x). lia. lra. exact Hx.
    - apply (HB 0 3 t0 x). lia. lra. exact Hx.
    - apply (HB 0 4 t0 x). lia. lra. exact Hx.
  Qed.

  (** ** (ii-b) Taylor expansions of f at (t, p) along the segment to (t + al, p + d), orders 0..3;
      the segment, prolonged by dl at both ends, lies in the domain *)
  Section TaylorF4.
    Variables t p al d dl : R.
    Hypothesis Hal : 0 <= al.
    Hypothesis Hdl : 0 < dl.
    Hypothesis Hroom : forall r, - dl < r < 1 + dl -> t0 <= t + r * al <= t0 + T /\ Dx (p + r * d).
    Let ra := - dl.
    Let rb := 1 + dl.

    Definition seg (i j : nat) (r : R) : R := F i j (t + r * al) (p + r * d).

    Lemma seg_is_derive i j r : (i + j < 4)%nat -> ra < r < rb ->
      is_derive (seg i j) r (al * seg (S i) j r + d * seg i (S j) r).
    Proof.
      intros Hij Hr. destruct (Hroom r Hr) as [Hr1 Hr2]. unfold seg. evar_last.
      apply (is_derive_comp2 (F i j) (fun r => t + r * al) (fun r => p + r * d) r _ _ al d
               (HF i j _ _ Hij Hr1 Hr2)).
      apply is_derive_line. apply is_derive_line. ring.
    Qed.

    Lemma seg_bound i j r : (i + j <= 4)%nat -> ra < r < rb -> Rabs (seg i j r) <= nBd (i + j).
    Proof. intros Hij Hr. destruct (Hroom r Hr) as [Hr1 Hr2]. apply HB; assumption. Qed.

    (** the k-th derivative of r |-> f (t + r al, p + r d) is (al d/dt + d d/dx)^k f *)
    Definition sP (k : nat) (r : R) : R :=
      match k with
      | O => seg 0 0 r
      | 1%nat => al * seg 1 0 r + d * seg 0 1 r
      | 2%nat => al * al * seg 2 0 r + 2 * (al * d * seg 1 1 r) + d * d * seg 0 2 r
      | 3%nat => al * al * al * seg 3 0 r + 3 * (al * al * d * seg 2 1 r)
                 + 3 * (al * d * d * seg 1 2 r) + d * d * d * seg 0 3 r
      | _ => al * al * al * al * seg 4 0 r + 4 * (al * al * al * d * seg 3 1 r)
             + 6 * (al * al * d * d * seg 2 2 r) + 4 * (al * d * d * d * seg 1 3 r)
             + d * d * d * d * seg 0 4 r
      end.

    Lemma sP_is_derive k r : (k < 4)%nat -> ra < r < rb -> is_derive (sP k) r (sP (S k) r).
    Proof.
      intros Hk Hr. destruct k as [|[|[|[|k]]]]; [ | | | | lia]; cbn [sP].
      - apply (seg_is_derive 0 0). lia. exact Hr.
      - apply (bin2_derive al d (seg 1 0) (seg 0 1) (seg 2 0) (seg 1 1) (seg 0 2));
          apply seg_is_derive; (lia || exact Hr).
      - apply (bin3_derive al d (seg 2 0) (seg 1 1) (seg 0 2) (seg 3 0) (seg 2 1) (seg 1 2)
                 (seg 0 3)); apply seg_is_derive; (lia || exact Hr).
      - apply (bin4_derive al d (seg 3 0) (seg 2 1) (seg 1 2) (seg 0 3) (seg 4 0) (seg 3 1)
                 (seg 2 2) (seg 1 3) (seg 0 4)); apply seg_is_derive; (lia || exact Hr).
    Qed.

    Lemma sP_ladder k : (k <= 4)%nat ->
      (forall r, ra < r < rb -> Derive_n (sP 0) k r = sP k r).
    Proof.
      induction k as [|k IH]; intros Hk.
      - intros r _. reflexivity.
      - apply (asol_ladder (sP 0) ra rb k (sP k) (sP (S k))).
        + apply IH. lia.
        + intros r Hr. apply sP_is_derive. lia. exact Hr.
    Qed.

    Lemma sP_ex_derive_n k r : (k <= 4)%nat -> ra < r < rb -> ex_derive_n (sP 0) k r.
    Proof.
      intros Hk Hr. destruct k as [|k]. exact I.
      change (ex_derive (Derive_n (sP 0) k) r). exists (sP (S k) r).
      apply (asol_ladder (sP 0) ra rb k (sP k) (sP (S k))).
      - apply sP_ladder. lia.
      - intros u Hu. apply sP_is_derive. lia. exact Hu.
      - exact Hr.
    Qed.

    Lemma seg_c_in c : 0 <= c <= 1 -> ra < c < rb.
    Proof. intros Hc. unfold ra, rb. lra. Qed.

    (** Taylor-Lagrange on [0,1] *)
    Lemma seg_taylor n : (n < 4)%nat -> exists c, 0 < c < 1 /\
      F 0 0 (t + al) (p + d)
      = sum_f_R0 (fun m => sP m 0 / INR (fact m)) n + sP (S n) c / INR (fact (S n)).
    Proof.
      intros Hn.
      destruct (Taylor_Lagrange (sP 0) n 0 1 ltac:(lra)) as (c & Hc & E).
      { intros r Hr k Hk. apply sP_ex_derive_n. lia. apply seg_c_in. exact Hr. }
      exists c. split. exact Hc.
      replace (F 0 0 (t + al) (p + d)) with (sP 0 1)
        by (cbn [sP]; unfold seg; f_equal; ring).
      rewrite E. rewrite sP_ladder by (lia || (apply seg_c_in; lra)). f_equal.
      - apply sum_eq. intros i Hi. rewrite sP_ladder by (lia || (apply seg_c_in; lra)).
        replace (1 - 0) with 1 by ring. rewrite pow1. field. apply INR_fact_neq_0.
      - replace (1 - 0) with 1 by ring. rewrite pow1. field. apply INR_fact_neq_0.
    Qed.

    Variable D : R.
    Hypothesis HD : Rabs d <= D.

    Lemma sP1_bound r : ra < r < rb -> Rabs (sP 1 r) <= B1 * (al + D).
    Proof.
      intros Hr.
      pose proof (seg_bound 1 0 r ltac:(lia) Hr) as b10.
      pose proof (seg_bound 0 1 r ltac:(lia) Hr) as b01.
      cbn [nBd Nat.add] in b10, b01. cbn [sP].
      eapply Rle_trans. absb. apply Req_le. ring.
    Qed.
    Lemma sP2_bound r : ra < r < rb -> Rabs (sP 2 r) <= B2 * (al + D) ^ 2.
    Proof.
      intros Hr.
      pose proof (seg_bound 2 0 r ltac:(lia) Hr) as b20.
      pose proof (seg_bound 1 1 r ltac:(lia) Hr) as b11.
      pose proof (seg_bound 0 2 r ltac:(lia) Hr) as b02.
      cbn [nBd Nat.add] in b20, b11, b02. cbn [sP].
      eapply Rle_trans. absb. apply Req_le. ring.
    Qed.
    Lemma sP3_bound r : ra < r < rb -> Rabs (sP 3 r) <= B3 * (al + D) ^ 3.
    Proof.
      intros Hr.
      pose proof (seg_bound 3 0 r ltac:(lia) Hr) as b30.
      pose proof (seg_bound 2 1 r ltac:(lia) Hr) as b21.
      pose proof (seg_bound 1 2 r ltac:(lia) Hr) as b12.
      pose proof (seg_bound 0 3 r ltac:(lia) Hr) as b03.
      cbn [nBd Nat.add] in b30, b21, b12, b03. cbn [sP].
      eapply Rle_trans. absb. apply Req_le. ring.
    Qed.
    Lemma sP4_bound r : ra < r < rb -> Rabs (sP 4 r) <= B4 * (al + D) ^ 4.
    Proof.
      intros Hr.
      pose proof (seg_bound 4 0 r ltac:(lia) Hr) as b40.
      pose proof (seg_bound 3 1 r ltac:(lia) Hr) as b31.
      pose proof (seg_bound 2 2 r ltac:(lia) Hr) as b22.
      pose proof (seg_bound 1 3 r ltac:(lia) Hr) as b13.
      pose proof (seg_bound 0 4 r ltac:(lia) Hr) as b04.
      cbn [nBd Nat.add] in b40, b31, b22, b13, b04. cbn [sP].
      eapply Rle_trans. absb. apply Req_le. ring.
    Qed.

    Lemma seg_at_0 i j : seg i j 0 = F i j t p.
    Proof. unfold seg. f_equal; ring. Qed.

    Lemma taylor_f0 : Rabs (F 0 0 (t + al) (p + d) - F 0 0 t p) <= B1 * (al + D).
    Proof.
      destruct (seg_taylor 0 ltac:(lia)) as (c & Hc & E). rewrite E. cbn [sum_f_R0].
      change (sP 0 0) with (seg 0 0 0). rewrite seg_at_0.
      match goal with |- Rabs ?e <= _ => replace e with (sP 1 c) by (simpl; field) end.
      apply sP1_bound. apply seg_c_in. lra.
    Qed.
    Lemma taylor_f1 :
      Rabs (F 0 0 (t + al) (p + d) - nT1 (F 0 0 t p) (F 1 0 t p) (F 0 1 t p) al d)
        <= B2 * (al + D) ^ 2 / 2.
    Proof.
      destruct (seg_taylor 1 ltac:(lia)) as (c & Hc & E). rewrite E. cbn [sum_f_R0].
      cbn [sP]. rewrite !seg_at_0. unfold nT1.
      match goal with |- Rabs ?e <= _ => replace e with (/ 2 * sP 2 c) by (simpl; field) end.
      rewrite Rabs_mult, (Rabs_pos_eq (/ 2)) by lra.
      pose proof (sP2_bound c (seg_c_in c ltac:(lra))). lra.
    Qed.
    Lemma taylor_f2 :
      Rabs (F 0 0 (t + al) (p + d)
            - nT2 (F 0 0 t p) (F 1 0 t p) (F 0 1 t p) (F 2 0 t p) (F 1 1 t p) (F 0 2 t p) al d)
        <= B3 * (al + D) ^ 3 / 6.
    Proof.
      destruct (seg_taylor 2 ltac:(lia)) as (c & Hc & E). rewrite E. cbn [sum_f_R0].
      cbn [sP]. rewrite !seg_at_0. unfold nT2, nT1.
      match goal with |- Rabs ?e <= _ => replace e with (/ 6 * sP 3 c) by (simpl; field) end.
      rewrite Rabs_mult, (Rabs_pos_eq (/ 6)) by lra.
      pose proof (sP3_bound c (seg_c_in c ltac:(lra))). lra.
    Qed.
    Lemma taylor_f3 :
      Rabs (F 0 0 (t + al) (p + d)
            - nT3 (F 0 0 t p) (F 1 0 t p) (F 0 1 t p) (F 2 0 t p) (F 1 1 t p) (F 0 2 t p)
                  (F 3 0 t p) (F 2 1 t p) (F 1 2 t p) (F 0 3 t p) al d)
        <= B4 * (al + D) ^ 4 / 24.
    Proof.
      destruct (seg_taylor 3 ltac:(lia)) as (c & Hc & E). rewrite E. cbn [sum_f_R0].
      cbn [sP]. rewrite !seg_at_0. unfold nT3, nT2, nT1.
      match goal with |- Rabs ?e <= _ => replace e with (/ 24 * sP 4 c) by (simpl; field) end.
      rewrite Rabs_mult, (Rabs_pos_eq (/ 24)) by lra.
      pose proof (sP4_bound c (seg_c_in c ltac:(lra))). lra.
    Qed.
  End TaylorF4.

  (** a segment from (t, p) to (t + al, p + d) with end points in the open strip x Dx can be
      prolonged a little at both ends inside [t0, t0 + T] x Dx *)
  Lemma seg_room t p al d : 0 < al -> t0 < t -> t + al < t0 + T -> Dx p -> Dx (p + d) ->
    exists dl, 0 < dl /\
      forall r, - dl < r < 1 + dl -> t0 <= t + r * al <= t0 + T /\ Dx (p + r * d).
  Proof.
    intros Hal Ht0 Ht1 Hp Hpd.
    destruct (Dx_open p Hp) as (e1 & He1 & H1).
    destruct (Dx_open (p + d) Hpd) as (e2 & He2 & H2).
    set (m := Rabs d + 1).
    assert (Hm : 0 < m) by (unfold m; pose proof (Rabs_pos d); lra).
    set (dt := Rmin ((t - t0) / al) ((t0 + T - t - al) / al)).
    set (dx := Rmin e1 e2 / m).
    assert (Hdt : 0 < dt).
    { unfold dt. apply Rmin_glb_lt; apply Rdiv_lt_0_compat; lra. }
    assert (Hdx : 0 < dx).
    { unfold dx. apply Rdiv_lt_0_compat. apply Rmin_glb_lt; assumption. exact Hm. }
    exists (Rmin dt dx). split. apply Rmin_glb_lt; assumption.
    intros r [Hr1 Hr2].
    assert (Ldt : Rmin dt dx <= dt) by apply Rmin_l.
    assert (Ldx : Rmin dt dx <= dx) by apply Rmin_r.
    assert (Ldt1 : dt * al <= t - t0).
    { replace (t - t0) with ((t - t0) / al * al) by (field; lra).
      apply Rmult_le_compat_r. lra. apply Rmin_l. }
    assert (Ldt2 : dt * al <= t0 + T - t - al).
    { replace (t0 + T - t - al) with ((t0 + T - t - al) / al * al) by (field; lra).
      apply Rmult_le_compat_r. lra. apply Rmin_r. }
    assert (Ldx1 : dx * m <= e1).
    { unfold dx. replace (Rmin e1 e2 / m * m) with (Rmin e1 e2) by (field; lra). apply Rmin_l. }
    assert (Ldx2 : dx * m <= e2).
    { unfold dx. replace (Rmin e1 e2 / m * m) with (Rmin e1 e2) by (field; lra). apply Rmin_r. }
    split.
    - assert (A1 : - dt * al < r * al) by (apply Rmult_lt_compat_r; lra).
      assert (A2 : (r - 1) * al < dt * al) by (apply Rmult_lt_compat_r; lra).
      lra.
    - assert (Habs : forall w, Rabs w < dx -> Rabs (w * d) < dx * m).
      { intros w Hw. rewrite Rabs_mult. unfold m.
        pose proof (Rabs_pos w). pose proof (Rabs_pos d).
        assert (Rabs w * Rabs d <= dx * Rabs d) by (apply Rmult_le_compat_r; lra).
        lra. }
      destruct (Rlt_le_dec r 0) as [Hneg | Hpos].
      + apply H1. replace (p + r * d - p) with (r * d) by ring.
        eapply Rlt_le_trans; [apply Habs | exact Ldx1].
        rewrite Rabs_left by lra. lra.
      + destruct (Rle_lt_dec r 1) as [Hle | Hgt].
        * replace (p + r * d) with (p + r * (p + d - p)) by ring.
          apply Dx_convex; [exact Hp | exact Hpd | lra].
        * apply H2. replace (p + r * d - (p + d)) with ((r - 1) * d) by ring.
          eapply Rlt_le_trans; [apply Habs | exact Ldx2].
          rewrite Rabs_pos_eq by lra. lra.
  Qed.

  (** ** (iii) the exact solution on the open interval (t0, t0 + T), with a tube of radius rho
      around it inside Dx: total derivatives up to order 5 *)
  Section NSolution.
    Variable y : R -> R.
    Variable rho : R.
    Hypothesis Hrho : 0 <= rho.
    Hypothesis Hode : forall t, t0 < t < t0 + T -> is_derive y t (F 0 0 t (y t)).
    Hypothesis Htube : forall t dd, t0 < t < t0 + T -> Rabs dd <= rho -> Dx (y t + dd).

    Lemma ysol_in_Dx t : t0 < t < t0 + T -> Dx (y t).
    Proof.
      intros Ht. replace (y t) with (y t + 0) by ring. apply Htube. exact Ht.
      rewrite Rabs_R0. exact Hrho.
    Qed.

    (** the partial derivatives of f along the solution *)
    Definition uu (i j : nat) (s : R) : R := F i j s (y s).

    Lemma uu_is_derive i j t : (i + j < 4)%nat -> t0 < t < t0 + T ->
      is_derive (uu i j) t (uu (S i) j t + uu i (S j) t * uu 0 0 t).
    Proof.
      intros Hij Ht. assert (Ht' : t0 <= t <= t0 + T) by lra. unfold uu. evar_last.
      apply (is_derive_comp2 (F i j) (fun s => s) y t _ _ 1 (F 0 0 t (y t))
               (HF i j t (y t) Hij Ht' (ysol_in_Dx t Ht))).
      apply is_derive_id_R. apply Hode. exact Ht. ring.
    Qed.

    Lemma uu_bound i j s : (i + j <= 4)%nat -> t0 < s < t0 + T -> Rabs (uu i j s) <= nBd (i + j).
    Proof. intros Hij Hs. apply HB. exact Hij. lra. apply ysol_in_Dx. exact Hs. Qed.

    Definition sY2 (s : R) : R := nY2 (uu 0 0 s) (uu 1 0 s) (uu 0 1 s).
    Definition sY3 (s : R) : R :=
      nY3 (uu 0 0 s) (uu 1 0 s) (uu 0 1 s) (uu 2 0 s) (uu 1 1 s) (uu 0 2 s).
    Definition sY4 (s : R) : R :=
      nY4 (uu 0 0 s) (uu 1 0 s) (uu 0 1 s) (uu 2 0 s) (uu 1 1 s) (uu 0 2 s)
          (uu 3 0 s) (uu 2 1 s) (uu 1 2 s) (uu 0 3 s).
    Definition sY5 (s : R) : R :=
      nY5 (uu 0 0 s) (uu 1 0 s) (uu 0 1 s) (uu 2 0 s) (uu 1 1 s) (uu 0 2 s)
          (uu 3 0 s) (uu 2 1 s) (uu 1 2 s) (uu 0 3 s)
          (uu 4 0 s) (uu 3 1 s) (uu 2 2 s) (uu 1 3 s) (uu 0 4 s).

    Lemma sY1_is_derive t : t0 < t < t0 + T -> is_derive (uu 0 0) t (sY2 t).
    Proof. intros Ht. apply (uu_is_derive 0 0 t). lia. exact Ht. Qed.
    Lemma sY2_is_derive t : t0 < t < t0 + T -> is_derive sY2 t (sY3 t).
    Proof.
      intros Ht. unfold sY2, sY3. apply nY2_derive; apply uu_is_derive; (lia || exact Ht).
    Qed.
    Lemma sY3_is_derive t : t0 < t < t0 + T -> is_derive sY3 t (sY4 t).
    Proof.
      intros Ht. unfold sY3, sY4. apply nY3_derive; apply uu_is_derive; (lia || exact Ht).
    Qed.
    Lemma sY4_is_derive t : t0 < t < t0 + T -> is_derive sY4 t (sY5 t).
    Proof.
      intros Ht. unfold sY4, sY5. apply nY4_derive; apply uu_is_derive; (lia || exact Ht).
    Qed.

    Lemma nsol_d0 : (forall t, t0 < t < t0 + T -> is_derive (Derive_n y 0) t (uu 0 0 t))
                    /\ (forall t, t0 < t < t0 + T -> Derive_n y 1 t = uu 0 0 t).
    Proof.
      split. exact Hode. intros t Ht. apply is_derive_unique. apply Hode. exact Ht.
    Qed.
    Lemma nsol_d1 : (forall t, t0 < t < t0 + T -> is_derive (Derive_n y 1) t (sY2 t))
                    /\ (forall t, t0 < t < t0 + T -> Derive_n y 2 t = sY2 t).
    Proof. apply (asol_ladder y t0 (t0 + T) 1 (uu 0 0)). apply nsol_d0. exact sY1_is_derive. Qed.
    Lemma nsol_d2 : (forall t, t0 < t < t0 + T -> is_derive (Derive_n y 2) t (sY3 t))
                    /\ (forall t, t0 < t < t0 + T -> Derive_n y 3 t = sY3 t).
    Proof. apply (asol_ladder y t0 (t0 + T) 2 sY2). apply nsol_d1. exact sY2_is_derive. Qed.
    Lemma nsol_d3 : (forall t, t0 < t < t0 + T -> is_derive (Derive_n y 3) t (sY4 t))
                    /\ (forall t, t0 < t < t0 + T -> Derive_n y 4 t = sY4 t).
    Proof. apply (asol_ladder y t0 (t0 + T) 3 sY3). apply nsol_d2. exact sY3_is_derive. Qed.
    Lemma nsol_d4 : (forall t, t0 < t < t0 + T -> is_derive (Derive_n y 4) t (sY5 t))
                    /\ (forall t, t0 < t < t0 + T -> Derive_n y 5 t = sY5 t).
    Proof. apply (asol_ladder y t0 (t0 + T) 4 sY4). apply nsol_d3. exact sY4_is_derive. Qed.

    Lemma sY5_bound t : t0 < t < t0 + T -> Rabs (sY5 t) <= nM5 B0 B1 B2 B3 B4.
    Proof.
      intros Ht. unfold sY5. apply nY5_bound.
      - apply (uu_bound 0 0). lia. exact Ht.
      - apply (uu_bound 1 0). lia. exact Ht.
      - apply (uu_bound 0 1). lia. exact Ht.
      - apply (uu_bound 2 0). lia. exact Ht.
      - apply (uu_bound 1 1). lia. exact Ht.
      - apply (uu_bound 0 2). lia. exact Ht.
      - apply (uu_bound 3 0). lia. exact Ht.
      - apply (uu_bound 2 1). lia. exact Ht.
      - apply (uu_bound 1 2). lia. exact Ht.
      - apply (uu_bound 0 3). lia. exact Ht.
      - apply (uu_bound 4 0). lia. exact Ht.
      - apply (uu_bound 3 1). lia. exact Ht.
      - apply (uu_bound 2 2). lia. exact Ht.
      - apply (uu_bound 1 3). lia. exact Ht.
      - apply (uu_bound 0 4). lia. exact Ht.
    Qed.

    (** Taylor-Lagrange of order 4 for y *)
    Lemma taylor5_yn s h : 0 < h -> t0 < s -> s + h < t0 + T ->
      Rabs (y (s + h) - (y s + h * uu 0 0 s + h ^ 2 / 2 * sY2 s + h ^ 3 / 6 * sY3 s
                         + h ^ 4 / 24 * sY4 s)) <= nM5 B0 B1 B2 B3 B4 * h ^ 5 / 120.
    Proof.
      intros Hh Ha Hb.
      destruct (Taylor_Lagrange y 4 s (s + h) ltac:(lra)) as (c & Hc & E).
      { intros t Ht k Hk.
        assert (Ht' : t0 < t < t0 + T) by lra.
        destruct k as [|[|[|[|[|[|k]]]]]]; [exact I | | | | | | lia]; eexists.
        - apply (proj1 nsol_d0). exact Ht'.
        - apply (proj1 nsol_d1). exact Ht'.
        - apply (proj1 nsol_d2). exact Ht'.
        - apply (proj1 nsol_d3). exact Ht'.
        - apply (proj1 nsol_d4). exact Ht'. }
      assert (E2 : y (s + h) - (y s + h * uu 0 0 s + h ^ 2 / 2 * sY2 s + h ^ 3 / 6 * sY3 s
                                + h ^ 4 / 24 * sY4 s) = h ^ 5 / 120 * sY5 c).
      { rewrite E. replace (s + h - s) with h by ring. cbn [sum_f_R0].
        rewrite (proj2 nsol_d4), (proj2 nsol_d3), (proj2 nsol_d2), (proj2 nsol_d1),
          (proj2 nsol_d0) by lra.
        change (Derive_n y 0 s) with (y s).
        generalize (sY5 c) (sY4 s) (sY3 s) (sY2 s) (uu 0 0 s) (y s). intros d5 d4 d3 d2 d1 d0.
        simpl. field. }
      rewrite E2. apply taylor_rem_bound. lra.
      rewrite Rabs_pos_eq; lra. apply sY5_bound. lra.
    Qed.

    (** LOCAL TRUNCATION ERROR of the classical RK4 scheme along y (open interval); the step is
        small enough for the stage positions to stay in the tube: h B0 <= rho *)
    Theorem RK4_local_truncation_tube_open s h :
      0 < h -> t0 < s -> s + h < t0 + T -> h * B0 <= rho ->
      Rabs (y (s + h) - y s - h * Phi_RK4 (F 0 0) h s (y s)) <= C_RK4n B0 B1 B2 B3 B4 * h ^ 5.
    Proof.
      intros Hh Ha Hb Hsmall.
      pose proof (taylor5_yn s h Hh Ha Hb) as H1.
      unfold Phi_RK4, rk4_k4, rk4_k3, rk4_k2, rk4_k1.
      unfold sY2, sY3, sY4, uu in H1.
      assert (Hs' : t0 < s < t0 + T) by lra.
      pose proof (ysol_in_Dx s Hs') as Hp.
      assert (HB0 : 0 <= B0) by (apply (nB_nn 0 (y s)); [lra | exact Hp]).
      set (p := y s) in *.
      set (k2 := F 0 0 (s + h / 2) (p + h / 2 * F 0 0 s p)).
      set (k3 := F 0 0 (s + h / 2) (p + h / 2 * k2)).
      set (k4 := F 0 0 (s + h) (p + h * k3)).
      assert (Hs : t0 <= s <= t0 + T) by lra.
      assert (Hs2 : t0 <= s + h / 2 <= t0 + T) by lra.
      assert (Hb0 : forall t x, t0 <= t <= t0 + T -> Dx x -> Rabs (F 0 0 t x) <= B0)
        by (intros t x; apply (HB 0 0); lia).
      assert (Hhalf : h * / 2 * B0 <= rho).
      { assert (h * / 2 * B0 <= h * B0) by (pose proof (Rmult_le_pos _ _ (Rlt_le _ _ Hh) HB0); lra).
        lra. }
      assert (Hd2 : Rabs (h * / 2 * F 0 0 s p) <= h * / 2 * B0).
      { apply Rabs_mult_le. apply Rabs_const_le. lra. apply Hb0. exact Hs. exact Hp. }
      assert (Hp2 : Dx (p + h * / 2 * F 0 0 s p)) by (apply Htube; [exact Hs' | lra]).
      assert (Hd3 : Rabs (h * / 2 * k2) <= h * / 2 * B0).
      { apply Rabs_mult_le. apply Rabs_const_le. lra. apply Hb0. exact Hs2. exact Hp2. }
      assert (Hp3 : Dx (p + h * / 2 * k2)) by (apply Htube; [exact Hs' | lra]).
      assert (Hd4 : Rabs (h * k3) <= h * B0).
      { apply Rabs_mult_le. apply Rabs_const_le. lra. apply Hb0. exact Hs2. exact Hp3. }
      assert (Hp4 : Dx (p + h * k3)) by (apply Htube; [exact Hs' | lra]).
      assert (Ha2 : 0 < h * / 2) by lra.
      assert (Hb2 : s + h * / 2 < t0 + T) by lra.
      destruct (seg_room s p _ _ Ha2 Ha Hb2 Hp Hp2) as (l2 & Hl2 & R2).
      destruct (seg_room s p _ _ Ha2 Ha Hb2 Hp Hp3) as (l3 & Hl3 & R3).
      destruct (seg_room s p _ _ Hh Ha Hb Hp Hp4) as (l4 & Hl4 & R4).
      assert (Ha2' : 0 <= h * / 2) by lra.
      assert (Hh' : 0 <= h) by lra.
      pose proof (rk4n_local_algebra h (F 0 0 s p) (F 1 0 s p) (F 0 1 s p) (F 2 0 s p) (F 1 1 s p)
                    (F 0 2 s p) (F 3 0 s p) (F 2 1 s p) (F 1 2 s p) (F 0 3 s p) k2 k3 k4
                    B0 B1 B2 B3 B4 Hh
                    (Hb0 _ _ Hs Hp) (Hb0 _ _ Hs2 Hp2) (Hb0 _ _ Hs2 Hp3)
                    (HB 1 0 s p ltac:(lia) Hs Hp) (HB 0 1 s p ltac:(lia) Hs Hp)
                    (HB 1 1 s p ltac:(lia) Hs Hp) (HB 0 2 s p ltac:(lia) Hs Hp)
                    (HB 2 1 s p ltac:(lia) Hs Hp) (HB 1 2 s p ltac:(lia) Hs Hp)
                    (HB 0 3 s p ltac:(lia) Hs Hp)
                    (taylor_f0 s p _ _ l2 Ha2' Hl2 R2 _ Hd2) (taylor_f1 s p _ _ l2 Ha2' Hl2 R2 _ Hd2)
                    (taylor_f2 s p _ _ l2 Ha2' Hl2 R2 _ Hd2) (taylor_f3 s p _ _ l2 Ha2' Hl2 R2 _ Hd2)
                    (taylor_f0 s p _ _ l3 Ha2' Hl3 R3 _ Hd3) (taylor_f1 s p _ _ l3 Ha2' Hl3 R3 _ Hd3)
                    (taylor_f2 s p _ _ l3 Ha2' Hl3 R3 _ Hd3) (taylor_f3 s p _ _ l3 Ha2' Hl3 R3 _ Hd3)
                    (taylor_f3 s p _ _ l4 Hh' Hl4 R4 _ Hd4)) as H2.
      rewrite <- (C_RK4n_eq h).
      match type of H1 with Rabs ?e1 <= _ => match type of H2 with Rabs ?e2 <= _ =>
        replace (y (s + h) - p - h * ((F 0 0 s p + 2 * k2 + 2 * k3 + k4) / 6))
          with (e1 + - e2) by ring
      end end.
      eapply Rle_trans. apply Rabs_triang. rewrite Rabs_Ropp. lra.
    Qed.
  End NSolution.

  Lemma nF_continuity_2d t x : t0 <= t <= t0 + T -> Dx x -> continuity_2d_pt (F 0 0) t x.
  Proof.
    intros Ht Hx.
    apply differentiable_continuity_pt. exists (F 1 0 t x), (F 0 1 t x).
    apply HF. lia. exact Ht. exact Hx.
  Qed.

  Lemma nF_cont (u v : R -> R) (e : R) : t0 <= u e <= t0 + T -> Dx (v e) ->
    continuous u e -> continuous v e -> continuous (fun z => F 0 0 (u z) (v z)) e.
  Proof.
    intros He Hv' Hu Hv. apply cont_comp2_R. apply nF_continuity_2d. exact He. exact Hv'.
    exact Hu. exact Hv.
  Qed.

  Ltac cont :=
    match goal with
    | H : continuous ?f ?e |- continuous ?f ?e => exact H
    | |- continuous (fun z => z) ?e => apply cont_id_R
    | |- continuous (fun z => @?a z - @?b z) ?e => apply (cont_minus_R a b e); cont
    | |- continuous (fun z => @?a z + @?b z) ?e => apply (cont_plus_R a b e); cont
    | |- continuous (fun z => @?a z * @?b z) ?e => apply (cont_mult_R a b e); cont
    | |- continuous (fun _ => ?c) ?e => apply (cont_const_R c e)
    end.

  (** the increment function of RK4 is jointly continuous in (h, t, x) where the step lies in
      the strip and the positions within h B0 of x lie in Dx *)
  Lemma Phi_RK4_cont (hh tt pp : R -> R) (e : R) :
    0 <= B0 -> 0 <= hh e -> t0 <= tt e -> tt e + hh e <= t0 + T ->
    (forall dd, Rabs dd <= hh e * B0 -> Dx (pp e + dd)) ->
    continuous hh e -> continuous tt e -> continuous pp e ->
    continuous (fun z => Phi_RK4 (F 0 0) (hh z) (tt z) (pp z)) e.
  Proof.
    intros HB0 Hh0 Ht0 Ht1 Hroom Ch Ct Cp.
    assert (Hb0 : forall t x, t0 <= t <= t0 + T -> Dx x -> Rabs (F 0 0 t x) <= B0)
      by (intros t x; apply (HB 0 0); lia).
    assert (Hp : Dx (pp e)).
    { replace (pp e) with (pp e + 0) by ring. apply Hroom. rewrite Rabs_R0.
      apply Rmult_le_pos; assumption. }
    assert (Hhalf : hh e * / 2 * B0 <= hh e * B0).
    { pose proof (Rmult_le_pos _ _ Hh0 HB0). lra. }
    assert (C1 : continuous (fun z => rk4_k1 (F 0 0) (tt z) (pp z)) e).
    { unfold rk4_k1. apply nF_cont; [lra | exact Hp | assumption | assumption]. }
    assert (P2 : Dx (pp e + hh e / 2 * rk4_k1 (F 0 0) (tt e) (pp e))).
    { apply Hroom. eapply Rle_trans; [|exact Hhalf]. unfold Rdiv.
      apply Rabs_mult_le. apply Rabs_const_le. lra. apply Hb0. lra. exact Hp. }
    assert (C2 : continuous (fun z => rk4_k2 (F 0 0) (hh z) (tt z) (pp z)) e).
    { unfold rk4_k2. apply nF_cont; [lra | exact P2 | unfold Rdiv; cont | unfold Rdiv; cont]. }
    assert (P3 : Dx (pp e + hh e / 2 * rk4_k2 (F 0 0) (hh e) (tt e) (pp e))).
    { apply Hroom. eapply Rle_trans; [|exact Hhalf]. unfold Rdiv at 1.
      apply Rabs_mult_le. apply Rabs_const_le. lra. unfold rk4_k2. apply Hb0. lra. exact P2. }
    assert (C3 : continuous (fun z => rk4_k3 (F 0 0) (hh z) (tt z) (pp z)) e).
    { unfold rk4_k3. apply nF_cont; [lra | exact P3 | unfold Rdiv; cont | unfold Rdiv; cont]. }
    assert (P4 : Dx (pp e + hh e * rk4_k3 (F 0 0) (hh e) (tt e) (pp e))).
    { apply Hroom.
      apply Rabs_mult_le. apply Rabs_const_le. lra. unfold rk4_k3. apply Hb0. lra. exact P3. }
    assert (C4 : continuous (fun z => rk4_k4 (F 0 0) (hh z) (tt z) (pp z)) e).
    { unfold rk4_k4. apply nF_cont; [lra | exact P4 | cont | cont]. }
    unfold Phi_RK4, Rdiv. cont.
  Qed.

  (** ** the exact solution on the CLOSED interval [t0, t0 + T]: the two end steps by continuity *)
  Section NSolutionClosed.
    Variable y : R -> R.
    Variable rho : R.
    Hypothesis Hrho : 0 <= rho.
    Hypothesis Hode : forall t, t0 <= t <= t0 + T -> is_derive y t (F 0 0 t (y t)).
    Hypothesis Htube : forall t dd, t0 <= t <= t0 + T -> Rabs dd <= rho -> Dx (y t + dd).

    Lemma nHode_open4 : forall t, t0 < t < t0 + T -> is_derive y t (F 0 0 t (y t)).
    Proof. intros t Ht. apply Hode. lra. Qed.
    Lemma nHtube_open4 : forall t dd, t0 < t < t0 + T -> Rabs dd <= rho -> Dx (y t + dd).
    Proof. intros t dd Ht. apply Htube. lra. Qed.

    Lemma ysolc_in_Dx t : t0 <= t <= t0 + T -> Dx (y t).
    Proof.
      intros Ht. replace (y t) with (y t + 0) by ring. apply Htube. exact Ht.
      rewrite Rabs_R0. exact Hrho.
    Qed.

    Lemma nB_nn_sol k : 0 <= T -> 0 <= nBd k.
    Proof. intros HT. apply (nB_nn k (y t0) HT). apply ysolc_in_Dx. lra. Qed.

    Lemma C_RK4n_field_nonneg : 0 <= T -> 0 <= C_RK4n B0 B1 B2 B3 B4.
    Proof.
      intros HT.
      apply C_RK4n_nonneg; [apply (nB_nn_sol 0 HT) | apply (nB_nn_sol 1 HT) | apply (nB_nn_sol 2 HT)
                            | apply (nB_nn_sol 3 HT) | apply (nB_nn_sol 4 HT)].
    Qed.

    Section NShrink.
      Variables s h : R.
      Hypothesis Hh : 0 < h.
      Hypothesis Hs0 : t0 <= s.
      Hypothesis Hs1 : s + h <= t0 + T.
      Hypothesis Hsmall : h * B0 <= rho.

      (** the local error of the step shrunk by eps at both ends *)
      Definition nshrunk (eps : R) : R :=
        y (s + h - eps) - y (s + eps)
        - (h - 2 * eps) * Phi_RK4 (F 0 0) (h - 2 * eps) (s + eps) (y (s + eps)).

      Lemma nshrunk_0 : nshrunk 0 = y (s + h) - y s - h * Phi_RK4 (F 0 0) h s (y s).
      Proof.
        unfold nshrunk.
        replace (s + h - 0) with (s + h) by ring. replace (s + 0) with s by ring.
        replace (h - 2 * 0) with h by ring. reflexivity.
      Qed.

      Lemma nshrunk_bound eps : 0 < eps < h / 2 ->
        Rabs (nshrunk eps) <= C_RK4n B0 B1 B2 B3 B4 * h ^ 5.
      Proof.
        intros He.
        assert (HB0 : 0 <= B0) by (apply (nB_nn_sol 0); lra).
        assert (Hsm : (h - 2 * eps) * B0 <= rho).
        { assert ((h - 2 * eps) * B0 <= h * B0) by (apply Rmult_le_compat_r; lra). lra. }
        pose proof (RK4_local_truncation_tube_open y rho Hrho nHode_open4 nHtube_open4
                      (s + eps) (h - 2 * eps) ltac:(lra) ltac:(lra) ltac:(lra) Hsm) as H.
        replace (s + eps + (h - 2 * eps)) with (s + h - eps) in H by ring.
        eapply Rle_trans. exact H.
        apply Rmult_le_compat_l. apply C_RK4n_field_nonneg. lra.
        apply pow_incr. lra.
      Qed.

      Lemma nshrunk_continuous : continuous nshrunk 0.
      Proof.
        assert (Cy0 : continuous (fun e => y (s + e)) 0).
        { apply cont_comp_R. apply cont_plus_R. apply cont_const_R. apply cont_id_R.
          apply (ex_derive_continuous (K := R_AbsRing) (V := R_NormedModule) y (s + 0)).
          exists (F 0 0 (s + 0) (y (s + 0))). apply Hode. lra. }
        assert (Cy1 : continuous (fun e => y (s + h - e)) 0).
        { apply cont_comp_R. apply cont_minus_R. apply cont_const_R. apply cont_id_R.
          apply (ex_derive_continuous (K := R_AbsRing) (V := R_NormedModule) y (s + h - 0)).
          exists (F 0 0 (s + h - 0) (y (s + h - 0))). apply Hode. lra. }
        unfold nshrunk.
        apply cont_minus_R. apply cont_minus_R. exact Cy1. exact Cy0.
        apply cont_mult_R. cont.
        apply (Phi_RK4_cont (fun e => h - 2 * e) (fun e => s + e) (fun e => y (s + e)));
          [apply (nB_nn_sol 0); lra | lra | lra | lra | | cont | cont | cont].
        intros dd Hdd. apply Htube. lra.
        replace ((h - 2 * 0) * B0) with (h * B0) in Hdd by ring. lra.
      Qed.

      Lemma nclosed_step_bound :
        Rabs (y (s + h) - y s - h * Phi_RK4 (F 0 0) h s (y s)) <= C_RK4n B0 B1 B2 B3 B4 * h ^ 5.
      Proof.
        rewrite <- nshrunk_0.
        apply (bound_at_0_by_continuity nshrunk h _ Hh nshrunk_continuous nshrunk_bound).
      Qed.
    End NShrink.

    (** LOCAL TRUNCATION ERROR of the classical RK4 scheme along the exact solution of a
        time-dependent field, closed interval, explicit constant; domain version *)
    Theorem RK4_local_truncation_nonautonomous_tube s h :
      0 < h -> t0 <= s -> s + h <= t0 + T -> h * B0 <= rho ->
      Rabs (y (s + h) - y s - h * Phi_RK4 (F 0 0) h s (y s)) <= C_RK4n B0 B1 B2 B3 B4 * h ^ 5.
    Proof. intros Hh H0 H1 Hsm. apply nclosed_step_bound; assumption. Qed.
  End NSolutionClosed.

  (** ** fourth-order convergence of the classical RK4 scheme for time-dependent fields: COMPLETE.
      The Lipschitz constant L of f in x (for ALL x, as RK4_converges_order4 asks) is a separate
      hypothesis here; on Dx it could be taken to be B1 *)
  Section NConvergence.
    Variable y : R -> R.
    Variables rho L h : R.
    Variable n : nat.
    Hypothesis Hrho : 0 <= rho.
    Hypothesis HL : 0 <= L.
    Hypothesis Hh : 0 < h.
    Hypothesis HT : INR n * h = T.
    Hypothesis Hsmall : h * B0 <= rho.
    Hypothesis Hlip : forall t x x', t0 <= t <= t0 + T ->
      Rabs (F 0 0 t x - F 0 0 t x') <= L * Rabs (x - x').
    Hypothesis Hode : forall t, t0 <= t <= t0 + T -> is_derive y t (F 0 0 t (y t)).
    Hypothesis Htube : forall t dd, t0 <= t <= t0 + T -> Rabs dd <= rho -> Dx (y t + dd).

    Lemma nT_nonneg : 0 <= T.
    Proof. rewrite <- HT. apply Rmult_le_pos. apply pos_INR. lra. Qed.

    Lemma RK4_nonautonomous_grid_truncation k : (k < n)%nat ->
      Rabs (y (t0 + INR (S k) * h) - y (t0 + INR k * h)
            - h * Phi_RK4 (F 0 0) h (t0 + INR k * h) (y (t0 + INR k * h)))
        <= C_RK4n B0 B1 B2 B3 B4 * h ^ 5.
    Proof.
      intros Hk.
      pose proof (grid_in_interval t0 h n k Hh ltac:(lia)) as H1.
      pose proof (grid_in_interval t0 h n (S k) Hh ltac:(lia)) as H2.
      rewrite HT in H1, H2.
      replace (t0 + INR (S k) * h) with (t0 + INR k * h + h) in * by (rewrite S_INR; ring).
      apply (RK4_local_truncation_nonautonomous_tube y rho Hrho Hode Htube); lra.
    Qed.

    (** the field frozen outside the strip: Lipschitz in x at ALL times, and the RK4 steps on the
        grid do not see the difference *)
    Definition nFc (t x : R) : R := F 0 0 (clampt t0 T t) x.

    Lemma nFc_lipschitz t x x' : Rabs (nFc t x - nFc t x') <= L * Rabs (x - x').
    Proof. unfold nFc. apply Hlip. apply clampt_in. exact nT_nonneg. Qed.

    Lemma Phi_RK4_nFc s x : t0 <= s -> s + h <= t0 + T ->
      Phi_RK4 nFc h s x = Phi_RK4 (F 0 0) h s x.
    Proof.
      intros H0 H1. unfold Phi_RK4, rk4_k4, rk4_k3, rk4_k2, rk4_k1, nFc.
      rewrite !clampt_id by lra. reflexivity.
    Qed.

    Lemma Phi_RK4_nFc_grid k x : (k < n)%nat ->
      Phi_RK4 nFc h (t0 + INR k * h) x = Phi_RK4 (F 0 0) h (t0 + INR k * h) x.
    Proof.
      intros Hk.
      pose proof (grid_in_interval t0 h n k Hh ltac:(lia)) as H1.
      pose proof (grid_in_interval t0 h n (S k) Hh ltac:(lia)) as H2.
      rewrite HT in H1, H2. rewrite S_INR in H2.
      apply Phi_RK4_nFc; lra.
    Qed.

    Theorem RK4_converges_nonautonomous_tube :
      Rabs (one_step_iter (Phi_RK4 (F 0 0) h) h t0 n (y t0) - y (t0 + T))
        <= exp (T * Lip_RK4 h L) * T * C_RK4n B0 B1 B2 B3 B4 * h ^ 4.
    Proof.
      rewrite <- (one_step_iter_ext_grid (Phi_RK4 nFc h) (Phi_RK4 (F 0 0) h) h t0 n (y t0))
        by (intros k x Hk; apply Phi_RK4_nFc_grid; exact Hk).
      apply (RK4_converges_order4 nFc y h L (C_RK4n B0 B1 B2 B3 B4) t0 T n Hh
               HL (C_RK4n_field_nonneg y rho Hrho Htube nT_nonneg) HT).
      - exact nFc_lipschitz.
      - intros k Hk. rewrite Phi_RK4_nFc_grid by exact Hk.
        apply RK4_nonautonomous_grid_truncation. exact Hk.
    Qed.

    Theorem RK4_converges_nonautonomous_tube_uniform hmax : h <= hmax ->
      Rabs (one_step_iter (Phi_RK4 (F 0 0) h) h t0 n (y t0) - y (t0 + T))
        <= exp (T * Lip_RK4 hmax L) * T * C_RK4n B0 B1 B2 B3 B4 * h ^ 4.
    Proof.
      intros Hmax.
      rewrite <- (one_step_iter_ext_grid (Phi_RK4 nFc h) (Phi_RK4 (F 0 0) h) h t0 n (y t0))
        by (intros k x Hk; apply Phi_RK4_nFc_grid; exact Hk).
      apply (RK4_converges_order4_uniform nFc y h hmax L (C_RK4n B0 B1 B2 B3 B4)
               t0 T n (conj Hh Hmax) HL (C_RK4n_field_nonneg y rho Hrho Htube nT_nonneg) HT).
      - exact nFc_lipschitz.
      - intros k Hk. rewrite Phi_RK4_nFc_grid by exact Hk.
        apply RK4_nonautonomous_grid_truncation. exact Hk.
    Qed.
  End NConvergence.
End NonAutonomousRK4.

(** * (A) on the whole strip [t0, t0 + T] x R: Dx = R, no tube condition, L = B1 *)
Section NonAutonomousRK4Strip.
  Variable F : nat -> nat -> R -> R -> R.
  Variables B0 B1 B2 B3 B4 : R.
  Variables t0 T : R.
  Hypothesis HF : forall (i j : nat) (t x : R), (i + j < 4)%nat -> t0 <= t <= t0 + T ->
    differentiable_pt_lim (F i j) t x (F (S i) j t x) (F i (S j) t x).
  Hypothesis HB : forall (i j : nat) (t x : R), (i + j <= 4)%nat -> t0 <= t <= t0 + T ->
    Rabs (F i j t x) <= nBd B0 B1 B2 B3 B4 (i + j).

  Let Dall (x : R) : Prop := True.
  Let Dall_open : forall x, Dall x -> exists e : R, 0 < e /\ forall x', Rabs (x' - x) < e -> Dall x'.
  Proof. intros x _. exists 1. split. lra. intros x' _. exact I. Qed.
  Let Dall_convex : forall x x' r, Dall x -> Dall x' -> 0 <= r <= 1 -> Dall (x + r * (x' - x)).
  Proof. intros. exact I. Qed.
  Let HF' : forall (i j : nat) (t x : R), (i + j < 4)%nat -> t0 <= t <= t0 + T -> Dall x ->
    differentiable_pt_lim (F i j) t x (F (S i) j t x) (F i (S j) t x).
  Proof. intros i j t x Hij Ht _. apply HF; assumption. Qed.
  Let HB' : forall (i j : nat) (t x : R), (i + j <= 4)%nat -> t0 <= t <= t0 + T -> Dall x ->
    Rabs (F i j t x) <= nBd B0 B1 B2 B3 B4 (i + j).
  Proof. intros i j t x Hij Ht _. apply HB; assumption. Qed.

  (** f is B1-Lipschitz in x, uniformly in t in [t0, t0 + T] *)
  Lemma nF_x_is_derive t x : t0 <= t <= t0 + T -> is_derive (fun u => F 0 0 t u) x (F 0 1 t x).
  Proof.
    intros Ht. evar_last.
    apply (is_derive_comp2 (F 0 0) (fun _ => t) (fun u => u) x _ _ 0 1
             (HF 0 0 t x ltac:(lia) Ht)).
    apply is_derive_const_R. apply is_derive_id_R. ring.
  Qed.

  Lemma nF_lipschitz t x x' : t0 <= t <= t0 + T ->
    Rabs (F 0 0 t x - F 0 0 t x') <= B1 * Rabs (x - x').
  Proof.
    intros Ht.
    apply (bounded_variation (fun u => F 0 0 t u) (fun u => F 0 1 t u)).
    intros u _. split. apply nF_x_is_derive. exact Ht. apply (HB 0 1 t u). lia. exact Ht.
  Qed.

  Section StripSolution.
    Variable y : R -> R.
    Hypothesis Hode : forall t, t0 <= t <= t0 + T -> is_derive y t (F 0 0 t (y t)).

    (** LOCAL TRUNCATION ERROR of the classical RK4 scheme along the exact solution of a
        time-dependent field: no smallness condition on h *)
    Theorem RK4_local_truncation_nonautonomous s h : 0 < h -> t0 <= s -> s + h <= t0 + T ->
      Rabs (y (s + h) - y s - h * Phi_RK4 (F 0 0) h s (y s)) <= C_RK4n B0 B1 B2 B3 B4 * h ^ 5.
    Proof.
      intros Hh H0 H1.
      assert (HB0 : 0 <= B0).
      { apply (nB_nn F B0 B1 B2 B3 B4 t0 T Dall HB' 0 0). lra. exact I. }
      apply (RK4_local_truncation_nonautonomous_tube F B0 B1 B2 B3 B4 t0 T Dall Dall_open
               Dall_convex HF' HB' y (h * B0)).
      - apply Rmult_le_pos; lra.
      - exact Hode.
      - intros; exact I.
      - exact Hh.
      - exact H0.
      - exact H1.
      - lra.
    Qed.

    Variable n : nat.
    Variable h : R.
    Hypothesis Hh : 0 < h.
    Hypothesis HT : INR n * h = T.

    Let HT0 : 0 <= T.
    Proof. rewrite <- HT. apply Rmult_le_pos. apply pos_INR. lra. Qed.
    Let HB0 : 0 <= B0.
    Proof. apply (nB_nn F B0 B1 B2 B3 B4 t0 T Dall HB' 0 0). exact HT0. exact I. Qed.
    Let HB1 : 0 <= B1.
    Proof. apply (nB_nn F B0 B1 B2 B3 B4 t0 T Dall HB' 1 0). exact HT0. exact I. Qed.

    (** CONVERGENCE of order 4, COMPLETE: no truncation hypothesis *)
    Theorem RK4_converges_nonautonomous :
      Rabs (one_step_iter (Phi_RK4 (F 0 0) h) h t0 n (y t0) - y (t0 + T))
        <= exp (T * Lip_RK4 h B1) * T * C_RK4n B0 B1 B2 B3 B4 * h ^ 4.
    Proof.
      apply (RK4_converges_nonautonomous_tube F B0 B1 B2 B3 B4 t0 T Dall Dall_open
               Dall_convex HF' HB' y (h * B0) B1 h n).
      - apply Rmult_le_pos; lra.
      - exact HB1.
      - exact Hh.
      - exact HT.
      - lra.
      - intros t x x' Ht. apply nF_lipschitz. exact Ht.
      - exact Hode.
      - intros; exact I.
    Qed.

    Theorem RK4_converges_nonautonomous_uniform hmax : h <= hmax ->
      Rabs (one_step_iter (Phi_RK4 (F 0 0) h) h t0 n (y t0) - y (t0 + T))
        <= exp (T * Lip_RK4 hmax B1) * T * C_RK4n B0 B1 B2 B3 B4 * h ^ 4.
    Proof.
      intros Hmax.
      apply (RK4_converges_nonautonomous_tube_uniform F B0 B1 B2 B3 B4 t0 T Dall Dall_open
               Dall_convex HF' HB' y (h * B0) B1 h n).
      - apply Rmult_le_pos; lra.
      - exact HB1.
      - exact Hh.
      - exact HT.
      - lra.
      - intros t x x' Ht. apply nF_lipschitz. exact Ht.
      - exact Hode.
      - intros; exact I.
      - exact Hmax.
    Qed.

    (** the same for any field that agrees pointwise with F 0 0 *)
    Corollary RK4_converges_nonautonomous_field (f : R -> R -> R) :
      (forall t x, f t x = F 0 0 t x) ->
      Rabs (one_step_iter (Phi_RK4 f h) h t0 n (y t0) - y (t0 + T))
        <= exp (T * Lip_RK4 h B1) * T * C_RK4n B0 B1 B2 B3 B4 * h ^ 4.
    Proof.
      intros Hf.
      rewrite (one_step_iter_ext_grid (Phi_RK4 f h) (Phi_RK4 (F 0 0) h) h t0 n (y t0)).
      - exact RK4_converges_nonautonomous.
      - intros k x _. apply Phi_RK4_ext. exact Hf.
    Qed.
  End StripSolution.
End NonAutonomousRK4Strip.

(** * Non-vacuity: the product field f t x = cos t * sin x (time-dependent, position-dependent,
    non-linear), F i j t x = cos^(i) t * sin^(j) x, all bounds 1; y(0) = PI/2, exact solution
    y t = 2 atan (exp (sin t));  C_RK4n 1 1 1 1 1 = 91/36 *)
Lemma differentiable_pt_lim_snd t x : differentiable_pt_lim (fun _ v => v) t x 0 1.
Proof.
  intros eps. exists (mkposreal 1 Rlt_0_1). intros u v _ _.
  replace (v - x - (0 * (u - t) + 1 * (v - x))) with 0 by ring.
  rewrite Rabs_R0. apply Rmult_le_pos. left. apply cond_pos.
  eapply Rle_trans. apply Rabs_pos. apply Rmax_l.
Qed.

Lemma differentiable_pt_lim_Rmult p q : differentiable_pt_lim Rmult p q q p.
Proof.
  intros eps. exists eps. intros u v Hu Hv.
  replace (u * v - p * q - (q * (u - p) + p * (v - q))) with ((u - p) * (v - q)) by ring.
  rewrite Rabs_mult.
  apply Rmult_le_compat; try apply Rabs_pos. lra. apply Rmax_r.
Qed.

(** (u, v) |-> a u * b v is Frechet-differentiable *)
Lemma differentiable_pt_lim_prod (a b : R -> R) (t x da db : R) :
  is_derive a t da -> is_derive b x db ->
  differentiable_pt_lim (fun u v => a u * b v) t x (da * b x) (a t * db).
Proof.
  intros Ha Hb.
  replace (da * b x) with (b x * da + a t * (db * 0 + 0 * 0)) by ring.
  replace (a t * db) with (b x * 0 + a t * (db * 1 + 0 * 0)) by ring.
  apply (differentiable_pt_lim_comp Rmult (fun u _ => a u)
           (fun u v => (fun w _ => b w) ((fun _ v' => v') u v) ((fun _ _ => 0) u v))
           t x (b x) (a t) da 0 (db * 0 + 0 * 0) (db * 1 + 0 * 0)).
  - apply differentiable_pt_lim_Rmult.
  - apply differentiable_pt_lim_proj1_0. apply is_derive_Reals. exact Ha.
  - apply (differentiable_pt_lim_comp (fun w _ => b w) (fun _ v' => v') (fun _ _ => 0)
             t x db 0 0 1 0 0).
    + apply differentiable_pt_lim_proj1_0. apply is_derive_Reals. exact Hb.
    + apply differentiable_pt_lim_snd.
    + apply (differentiable_pt_lim_proj1_0 (fun _ => 0) t x 0).
      apply is_derive_Reals. apply is_derive_const_R.
Qed.

(** the k-th derivatives of cos and sin, k = 0..4 *)
Definition cosD (k : nat) : R -> R :=
  match k with
  | O => cos | 1%nat => fun u => - sin u | 2%nat => fun u => - cos u | 3%nat => sin | _ => cos
  end.
Definition sinD (k : nat) : R -> R :=
  match k with
  | O => sin | 1%nat => cos | 2%nat => fun u => - sin u | 3%nat => fun u => - cos u | _ => sin
  end.

Lemma cosD_is_derive k u : (k < 4)%nat -> is_derive (cosD k) u (cosD (S k) u).
Proof.
  intros Hk. destruct k as [|[|[|[|k]]]]; [ | | | | lia]; cbn [cosD];
    auto_derive; try exact I; ring.
Qed.
Lemma sinD_is_derive k u : (k < 4)%nat -> is_derive (sinD k) u (sinD (S k) u).
Proof.
  intros Hk. destruct k as [|[|[|[|k]]]]; [ | | | | lia]; cbn [sinD];
    auto_derive; try exact I; ring.
Qed.
Lemma cosD_bound k u : Rabs (cosD k u) <= 1.
Proof.
  destruct k as [|[|[|[|k]]]]; cbn [cosD]; rewrite ?Rabs_Ropp;
    first [apply Rabs_cos_le | apply Rabs_sin_le].
Qed.
Lemma sinD_bound k u : Rabs (sinD k u) <= 1.
Proof.
  destruct k as [|[|[|[|k]]]]; cbn [sinD]; rewrite ?Rabs_Ropp;
    first [apply Rabs_cos_le | apply Rabs_sin_le].
Qed.

Definition F_cs (i j : nat) (t x : R) : R := cosD i t * sinD j x.

(** the smoothness and boundedness hypotheses of Section NonAutonomousRK4 hold for cos t * sin x *)
Lemma F_cs_differentiable (t0 T : R) (i j : nat) (t x : R) :
  (i + j < 4)%nat -> t0 <= t <= t0 + T ->
  differentiable_pt_lim (F_cs i j) t x (F_cs (S i) j t x) (F_cs i (S j) t x).
Proof.
  intros Hij _. unfold F_cs.
  apply (differentiable_pt_lim_prod (cosD i) (sinD j)).
  apply cosD_is_derive. lia. apply sinD_is_derive. lia.
Qed.

Lemma F_cs_bound (t0 T : R) (i j : nat) (t x : R) :
  (i + j <= 4)%nat -> t0 <= t <= t0 + T ->
  Rabs (F_cs i j t x) <= nBd 1 1 1 1 1 (i + j).
Proof.
  intros _ _. replace (nBd 1 1 1 1 1 (i + j)) with (1 * 1).
  - unfold F_cs. apply Rabs_mult_le. apply cosD_bound. apply sinD_bound.
  - destruct (i + j)%nat as [|[|[|[|k]]]]; cbn [nBd]; ring.
Qed.

Definition y_cs (t : R) : R := 2 * atan (exp (sin t)).

Lemma y_cs_is_derive t : is_derive y_cs t (cos t * sin (y_cs t)).
Proof.
  unfold y_cs. rewrite sin_2atan. auto_derive. exact I.
  assert (0 < 1 + exp (sin t) ^ 2) by (pose proof (pow2_ge_0 (exp (sin t))); lra).
  field. lra.
Qed.

Lemma y_cs_0 : y_cs 0 = PI / 2.
Proof. unfold y_cs. rewrite sin_0, exp_0, atan_1. field. Qed.

Lemma C_RK4n_ones : C_RK4n 1 1 1 1 1 = 91 / 36.
Proof. unfold C_RK4n, C_RK4a. field. Qed.

Example RK4_cos_sin_local_example (s h : R) : 0 < h ->
  Rabs (y_cs (s + h) - y_cs s - h * Phi_RK4 (fun t x => cos t * sin x) h s (y_cs s))
    <= 91 / 36 * h ^ 5.
Proof.
  intros Hh. rewrite <- C_RK4n_ones.
  apply (RK4_local_truncation_nonautonomous F_cs 1 1 1 1 1 s h (F_cs_differentiable s h)
           (F_cs_bound s h) y_cs (fun t _ => y_cs_is_derive t) s h Hh); lra.
Qed.

Example RK4_cos_sin_example n h T : 0 < h -> INR n * h = T ->
  Rabs (one_step_iter (Phi_RK4 (fun t x => cos t * sin x) h) h 0 n (PI / 2)
        - 2 * atan (exp (sin T)))
    <= exp (T * Lip_RK4 h 1) * T * (91 / 36) * h ^ 4.
Proof.
  intros Hh HT.
  pose proof (RK4_converges_nonautonomous F_cs 1 1 1 1 1 0 T (F_cs_differentiable 0 T)
                (F_cs_bound 0 T) y_cs (fun t _ => y_cs_is_derive t) n h Hh HT) as H.
  rewrite y_cs_0, Rplus_0_l, C_RK4n_ones in H. unfold y_cs at 1 in H.
  exact H.
Qed.

(** * (B) AFFINE-IN-x fields f t x = p t + q t * x (the class of the tracker's interpolated velocity
    inside one grid cell and one time bracket): f and f_t are unbounded in x, so the strip theorem
    does not apply, but the tube theorem does, with Dx = (-(Ym+2), Ym+2), rho = 1, where Ym bounds
    the exact solution.  P k, Q k are the k-th derivatives of p = P 0 and q = Q 0, k <= 4. *)
Lemma differentiable_pt_lim_Rplus p q : differentiable_pt_lim Rplus p q 1 1.
Proof.
  intros eps. exists (mkposreal 1 Rlt_0_1). intros u v _ _.
  replace (u + v - (p + q) - (1 * (u - p) + 1 * (v - q))) with 0 by ring.
  rewrite Rabs_R0. apply Rmult_le_pos. left. apply cond_pos.
  eapply Rle_trans. apply Rabs_pos. apply Rmax_l.
Qed.

Lemma differentiable_pt_lim_const c t x : differentiable_pt_lim (fun _ _ => c) t x 0 0.
Proof.
  apply (differentiable_pt_lim_proj1_0 (fun _ => c) t x 0).
  apply is_derive_Reals. apply is_derive_const_R.
Qed.

(** (u, v) |-> a u + b u * v *)
Lemma differentiable_pt_lim_affine (a b : R -> R) (t x da db : R) :
  is_derive a t da -> is_derive b t db ->
  differentiable_pt_lim (fun u v => a u + b u * v) t x (da + db * x) (b t).
Proof.
  intros Ha Hb.
  assert (H : differentiable_pt_lim (fun u v => a u + b u * v) t x
                (1 * da + 1 * (db * x)) (1 * 0 + 1 * (b t * 1))).
  { apply (differentiable_pt_lim_comp Rplus (fun u _ => a u) (fun u v => b u * (fun w => w) v)
             t x 1 1 da 0 (db * x) (b t * 1)).
    - apply differentiable_pt_lim_Rplus.
    - apply differentiable_pt_lim_proj1_0. apply is_derive_Reals. exact Ha.
    - apply (differentiable_pt_lim_prod b (fun w => w) t x db 1). exact Hb. apply is_derive_id_R. }
  replace (1 * da + 1 * (db * x)) with (da + db * x) in H by ring.
  replace (1 * 0 + 1 * (b t * 1)) with (b t) in H by ring.
  exact H.
Qed.

Section AffineRK4.
  Variables P Q : nat -> R -> R.
  Variables Pm Qm Ym t0 T : R.
  Hypothesis HP : forall (k : nat) (t : R), (k < 4)%nat -> t0 <= t <= t0 + T ->
    is_derive (P k) t (P (S k) t).
  Hypothesis HQ : forall (k : nat) (t : R), (k < 4)%nat -> t0 <= t <= t0 + T ->
    is_derive (Q k) t (Q (S k) t).
  Hypothesis HPm : forall (k : nat) (t : R), (k <= 4)%nat -> t0 <= t <= t0 + T -> Rabs (P k t) <= Pm.
  Hypothesis HQm : forall (k : nat) (t : R), (k <= 4)%nat -> t0 <= t <= t0 + T -> Rabs (Q k t) <= Qm.

  (** the partial derivatives of f t x = P 0 t + Q 0 t * x *)
  Definition F_aff (i j : nat) (t x : R) : R :=
    match j with O => P i t + Q i t * x | 1%nat => Q i t | _ => 0 end.
  Definition D_aff (x : R) : Prop := Rabs x < Ym + 2.
  (** the common bound of f and all its partial derivatives on [t0, t0+T] x D_aff *)
  Definition B_aff : R := Pm + Qm * (Ym + 3).

  Lemma D_aff_open x : D_aff x -> exists e : R, 0 < e /\ forall x', Rabs (x' - x) < e -> D_aff x'.
  Proof.
    unfold D_aff. intros Hx. exists (Ym + 2 - Rabs x). split. lra.
    intros x' Hx'. replace x' with ((x' - x) + x) by ring.
    eapply Rle_lt_trans. apply Rabs_triang. lra.
  Qed.

  Lemma D_aff_convex x x' r : D_aff x -> D_aff x' -> 0 <= r <= 1 -> D_aff (x + r * (x' - x)).
  Proof.
    unfold D_aff. intros Hx Hx' Hr.
    replace (x + r * (x' - x)) with ((1 - r) * x + r * x') by ring.
    eapply Rle_lt_trans. apply Rabs_triang.
    rewrite !Rabs_mult, (Rabs_pos_eq (1 - r)), (Rabs_pos_eq r) by lra.
    destruct (Rle_lt_dec r (/ 2)) as [Hr2 | Hr2].
    - assert (r * Rabs x' <= r * (Ym + 2)) by (apply Rmult_le_compat_l; lra).
      assert ((1 - r) * Rabs x < (1 - r) * (Ym + 2)) by (apply Rmult_lt_compat_l; lra).
      lra.
    - assert (r * Rabs x' < r * (Ym + 2)) by (apply Rmult_lt_compat_l; lra).
      assert ((1 - r) * Rabs x <= (1 - r) * (Ym + 2)) by (apply Rmult_le_compat_l; lra).
      lra.
  Qed.

  Lemma F_aff_differentiable (i j : nat) (t x : R) :
    (i + j < 4)%nat -> t0 <= t <= t0 + T -> D_aff x ->
    differentiable_pt_lim (F_aff i j) t x (F_aff (S i) j t x) (F_aff i (S j) t x).
  Proof.
    intros Hij Ht _. destruct j as [|[|j]].
    - apply (differentiable_pt_lim_affine (P i) (Q i) t x (P (S i) t) (Q (S i) t)).
      apply HP. lia. exact Ht. apply HQ. lia. exact Ht.
    - apply (differentiable_pt_lim_proj1_0 (Q i) t x (Q (S i) t)).
      apply is_derive_Reals. apply HQ. lia. exact Ht.
    - apply (differentiable_pt_lim_const 0 t x).
  Qed.

  Lemma F_aff_bound (i j : nat) (t x : R) :
    (i + j <= 4)%nat -> t0 <= t <= t0 + T -> D_aff x ->
    Rabs (F_aff i j t x) <= nBd B_aff B_aff B_aff B_aff B_aff (i + j).
  Proof.
    intros Hij Ht Hx. unfold D_aff in Hx.
    replace (nBd B_aff B_aff B_aff B_aff B_aff (i + j)) with B_aff
      by (destruct (i + j)%nat as [|[|[|[|k]]]]; reflexivity).
    pose proof (HPm i t ltac:(lia) Ht) as bp. pose proof (HQm i t ltac:(lia) Ht) as bq.
    pose proof (Rabs_pos (P i t)). pose proof (Rabs_pos (Q i t)). pose proof (Rabs_pos x).
    assert (HY : 0 <= Ym + 3) by lra.
    assert (Hqy : Qm * (Ym + 2) <= Qm * (Ym + 3)) by (apply Rmult_le_compat_l; lra).
    assert (0 <= Qm * (Ym + 2)) by (apply Rmult_le_pos; lra).
    unfold B_aff. destruct j as [|[|j]]; cbn [F_aff].
    - eapply Rle_trans. apply Rabs_triang. rewrite Rabs_mult.
      assert (Rabs (Q i t) * Rabs x <= Qm * (Ym + 2)) by (apply Rmult_le_compat; lra).
      lra.
    - lra.
    - rewrite Rabs_R0. lra.
  Qed.

  Section AffineSolution.
    Variable y : R -> R.
    Variable h : R.
    Variable n : nat.
    Hypothesis Hh : 0 < h.
    Hypothesis HT : INR n * h = T.
    Hypothesis Hsmall : h * B_aff <= 1.
    Hypothesis Hode : forall t, t0 <= t <= t0 + T -> is_derive y t (P 0 t + Q 0 t * y t).
    Hypothesis HYm : forall t, t0 <= t <= t0 + T -> Rabs (y t) <= Ym.

    Lemma aff_tube t dd : t0 <= t <= t0 + T -> Rabs dd <= 1 -> D_aff (y t + dd).
    Proof.
      intros Ht Hdd. unfold D_aff. eapply Rle_lt_trans. apply Rabs_triang.
      pose proof (HYm t Ht). lra.
    Qed.

    Lemma aff_lipschitz t x x' : t0 <= t <= t0 + T ->
      Rabs (F_aff 0 0 t x - F_aff 0 0 t x') <= Qm * Rabs (x - x').
    Proof.
      intros Ht. cbn [F_aff].
      replace (P 0 t + Q 0 t * x - (P 0 t + Q 0 t * x')) with (Q 0 t * (x - x')) by ring.
      rewrite Rabs_mult. apply Rmult_le_compat_r. apply Rabs_pos. apply HQm. lia. exact Ht.
    Qed.

    Lemma aff_T_nonneg : 0 <= T.
    Proof. rewrite <- HT. apply Rmult_le_pos. apply pos_INR. lra. Qed.

    Lemma aff_Qm_nonneg : 0 <= Qm.
    Proof.
      eapply Rle_trans. apply Rabs_pos. apply (HQm 0 t0). lia. pose proof aff_T_nonneg. lra.
    Qed.

    Theorem RK4_local_truncation_affine s : t0 <= s -> s + h <= t0 + T ->
      Rabs (y (s + h) - y s - h * Phi_RK4 (fun t x => P 0 t + Q 0 t * x) h s (y s))
        <= C_RK4n B_aff B_aff B_aff B_aff B_aff * h ^ 5.
    Proof.
      intros H0 H1.
      apply (RK4_local_truncation_nonautonomous_tube F_aff B_aff B_aff B_aff B_aff B_aff t0 T D_aff
               D_aff_open D_aff_convex F_aff_differentiable F_aff_bound y 1 ltac:(lra) Hode aff_tube
               s h Hh H0 H1 Hsmall).
    Qed.

    Theorem RK4_converges_affine :
      Rabs (one_step_iter (Phi_RK4 (fun t x => P 0 t + Q 0 t * x) h) h t0 n (y t0) - y (t0 + T))
        <= exp (T * Lip_RK4 h Qm) * T * C_RK4n B_aff B_aff B_aff B_aff B_aff * h ^ 4.
    Proof.
      apply (RK4_converges_nonautonomous_tube F_aff B_aff B_aff B_aff B_aff B_aff t0 T D_aff
               D_aff_open D_aff_convex F_aff_differentiable F_aff_bound y 1 Qm h n ltac:(lra)
               aff_Qm_nonneg Hh HT Hsmall aff_lipschitz Hode aff_tube).
    Qed.
  End AffineSolution.
End AffineRK4.

(** * Non-vacuity of (B): f t x = cos t * x  (p = 0, q = cos), y(0) = 1, exact solution
    y t = exp (sin t) <= exp 1 <= 3;  Pm = 0, Qm = 1, Ym = 3, B_aff = 6, for h <= 1/6 *)
Lemma y_es_is_derive t : is_derive (fun t => exp (sin t)) t (0 + cos t * exp (sin t)).
Proof. auto_derive. exact I. ring. Qed.

Lemma y_es_bound t : Rabs (exp (sin t)) <= 3.
Proof.
  rewrite Rabs_pos_eq by (left; apply exp_pos).
  eapply Rle_trans; [|exact exp_le_3]. apply exp_le_mono. pose proof (SIN_bound t). lra.
Qed.

Example RK4_cos_x_example n h T : 0 < h -> h <= / 6 -> INR n * h = T ->
  Rabs (one_step_iter (Phi_RK4 (fun t x => 0 + cos t * x) h) h 0 n 1 - exp (sin T))
    <= exp (T * Lip_RK4 h 1) * T * (445445 / 96) * h ^ 4.
Proof.
  intros Hh Hh6 HT.
  pose proof (RK4_converges_affine (fun _ _ => 0) cosD 0 1 3 0 T) as H.
  assert (A1 : forall (k : nat) (t : R), (k < 4)%nat -> 0 <= t <= 0 + T ->
                 is_derive ((fun _ _ => 0) k) t ((fun (_ : nat) (_ : R) => 0) (S k) t)).
  { intros k t _ _. apply is_derive_const_R. }
  assert (A2 : forall (k : nat) (t : R), (k < 4)%nat -> 0 <= t <= 0 + T ->
                 is_derive (cosD k) t (cosD (S k) t)).
  { intros k t Hk _. apply cosD_is_derive. exact Hk. }
  assert (A3 : forall (k : nat) (t : R), (k <= 4)%nat -> 0 <= t <= 0 + T ->
                 Rabs ((fun (_ : nat) (_ : R) => 0) k t) <= 0).
  { intros k t _ _. rewrite Rabs_R0. lra. }
  assert (A4 : forall (k : nat) (t : R), (k <= 4)%nat -> 0 <= t <= 0 + T -> Rabs (cosD k t) <= 1).
  { intros k t _ _. apply cosD_bound. }
  assert (E6 : B_aff 0 1 3 = 6) by (unfold B_aff; ring).
  specialize (H A1 A2 A3 A4 (fun t => exp (sin t)) h n Hh HT).
  rewrite E6 in H.
  specialize (H ltac:(lra) (fun t _ => y_es_is_derive t) (fun t _ => y_es_bound t)).
  cbn [cosD] in H. rewrite sin_0, exp_0, Rplus_0_l in H.
  replace (C_RK4n 6 6 6 6 6) with (445445 / 96) in H by (unfold C_RK4n, C_RK4a; field).
  exact H.
Qed.

(** * a bridge from the classical formulation "the partial derivatives exist near (t, x) and the
    t-derivative is continuous at (t, x)" to the Frechet differentiability asked by (A) *)
Lemma differentiable_pt_lim_of_partials (G Gt : R -> R -> R) (t x gx : R) :
  locally_2d (fun u v => is_derive (fun z => G z v) u (Gt u v)) t x ->
  is_derive (fun z => G t z) x gx ->
  continuity_2d_pt Gt t x ->
  differentiable_pt_lim G t x (Gt t x) gx.
Proof.
  intros Dt Dx Ct. apply filterdiff_differentiable_pt_lim.
  apply (is_derive_filterdiff G t x Gt gx).
  - apply locally_2d_locally in Dt. exact Dt.
  - exact Dx.
  - apply continuity_2d_pt_filterlim. exact Ct.
Qed.

Check rk4n_combination.
Check rk4n_local_algebra.
Check C_RK4n_eq.
Check taylor_f3.
Check taylor5_yn.
Check RK4_local_truncation_tube_open.
Check RK4_local_truncation_nonautonomous_tube.
Check RK4_converges_nonautonomous_tube.
Check RK4_local_truncation_nonautonomous.
Check RK4_converges_nonautonomous.
Check RK4_converges_nonautonomous_uniform.
Check RK4_converges_nonautonomous_field.
Check F_cs_differentiable.
Check F_cs_bound.
Check RK4_cos_sin_local_example.
Check RK4_cos_sin_example.
Check RK4_local_truncation_affine.
Check RK4_converges_affine.
Check RK4_cos_x_example.
Check differentiable_pt_lim_of_partials.

Print Assumptions RK4_local_truncation_nonautonomous.
Print Assumptions RK4_converges_nonautonomous.
Print Assumptions RK4_cos_sin_example.
Print Assumptions RK4_converges_nonautonomous_tube.
Print Assumptions RK4_converges_affine.
Print Assumptions RK4_cos_x_example.
