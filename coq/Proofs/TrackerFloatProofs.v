(** Floating-point level of C01: the binary64 behaviour of the horizontal step of [ladim.tracker.Tracker]
    (EF / RK2 / RK4; numba kernels RKstep1, clip, RK4avg; the final move of [Tracker.update]).

    Model: Model/TrackerFloat.v over Coq's primitive floats ([stage_f], [clip_f], [rk4avg_f], [move_f], [final_f],
    [ef_f], [rk2_f], [rk4_f]); one coordinate; the stage velocities the forcing returned are INPUTS.
    Notation (from Proofs/TrilinearFloatProofs.v): [FR x] is the real value [B2R (Prim2B x)] of a primitive float,
    [fin x] says it is finite, [rnd] is rounding to nearest even in binary64 ([FLT_exp (-1074) 53]),
    [u64 = 2^-53] (unit roundoff u), [eta = 2^-1075] (half the smallest subnormal),
    [fb x k] = [fin x /\ |FR x| <= 2^k].

    Hypotheses of the error theorems ("in range", the computable [step_ok]): x finite with |x| <= 2^1000;
    dt and the velocities finite, at most 2^100 in magnitude; dx finite with |dx| >= 2^-100 ([dxb]); lo, hi finite.
    Under them NO intermediate overflows, and underflow is INCLUDED in the bounds (the eta terms).

    (T1) [stage_f_is_IEEE], [clip_f_is_IEEE], [rk4avg_f_is_IEEE], [final_f_is_IEEE], [ef_f_is_IEEE], [rk2_f_is_IEEE],
         [rk4_f_is_IEEE]: [Prim2B] of every model function is the same expression written with Flocq's
         [Bplus] / [Bmult] / [Bdiv] in [mode_NE] and [Bltb] on [Prim2B] of the inputs -- no hypothesis at all.
    (T2) error bounds against the exact Runge-Kutta step WITH THE SAME STAGE VELOCITIES:
         [move_f_error] / [final_f_error]   | FR (x + u * dt / dx) - (x + u dt/dx) |
                                               <= u |x| + 4 u |u dt/dx| + eta (2 + 2 / |dx|)              [move_bound]
         [rkstep_f_error] / [stage_f_error] | FR stage - clip (x + f u dt/dx) |
                                               <= u |x| + 5 u |f u dt/dx| + eta (2 + 2 |f u| + 2 |dt/dx|) [stage_bound]
                                            (clip on reals is 1-Lipschitz, and the float clip computes it exactly)
         [rk4avg_f_error]                   | FR avg - (u1 + 2 u2 + 2 u3 + u4) / 6 | <= (4 u + 7 u^2) M + eta,  M >= |ui|
                                            ([rk4avg_f_error5]: <= 5 u M + eta)
         [rk4_final_error]                  | FR final - (x + ubar dt/dx) |
                                               <= u |x| + 9 u M |dt/dx| + eta (2 + 2 / |dx| + 2 |dt/dx|) [rk4_bound]
         and in the shape c1 u (|x| + D) + c2 eta for |dx| >= 1, |dt/dx| <= 1024 (D = displacement in cells):
         [final_f_error_grid] (c1 = 4, c2 = 4), [stage_f_error_grid] (5, 4098), [rk4_final_error_grid] (9, 2052).
         [ef_f_checked], [rk2_f_checked], [rk4_f_checked]: the whole step from the single boolean [step_ok].
    (T3) clip is exact: [clip_f_cases] (the result IS one of its three arguments), [clip_f_in_range] (in [lo, hi]
         whenever lo <= hi), [clip_f_id] (inside the box the same float comes back: the no-clip case of the
         rational model carries over), [clip_f_hi] / [clip_f_lo], [clip_f_value] (= max (min x hi) lo on reals),
         [clip_f_nan] (a NaN position stays NaN), [clip_f_infinite].
    (T4) exactness facts without a delta:
         [final_f_zero_velocity]: u = +-0, dt and dx finite, dx <> 0, x not -0.0  ==>  the final position IS x
            (Leibniz equality of floats: bit for bit; x may be infinite or NaN);
         [final_f_zero_velocity_negzero]: x = -0.0 becomes +0.0, unless dt and dx have opposite signs;
         [final_f_zero_velocity_value]: the value is unchanged in every case;
         [mul_one_exact]: 1 * u = u for EVERY float (so [stage_f_frac_one]: the third RK4 stage is x + u * dtdx);
         [mul_half_exact]: 0.5 * u = u / 2 exactly unless |u| < 2^-1021;
         [rk4avg_f_equal_ulp]: RK4avg of four equal velocities u (2^-1022 <= |u| <= 2^100) is off by AT MOST ONE
            ulp of u -- and this is sharp: [rk4avg_equal_not_exact] (u = 0.1 comes back one ulp smaller).
            The proof works on the integer mantissa m of u = m 2^e: the three partial sums are integers times 2^e,
            their rounding errors d1 + d2 + d3 never exceed 8 units because the errors of rounding 3 m to a
            multiple of 4 and of rounding (a multiple of 8) + m to a multiple of 8 cannot both be large
            ([cand48]), and a nearest-point argument finishes the division by 6.
         [rk4avg_f_equal]: the weaker consequence of (T2), (4 u + 7 u^2) |u| + eta, valid down to 0.

    Axioms: only those of the standard library -- the classical reals (incl. [classic], functional
    extensionality as used by Flocq/Reals) and [FloatAxioms] / primitive integers (the specification of the
    primitive float operations in terms of [SpecFloat]); see the [Print Assumptions] outputs. *)
From Coq Require Import ZArith Reals Floats Lra Lia Psatz Bool List.
From Flocq Require Import Core BinarySingleNaN Relative Plus_error Mult_error Ulp.
From Flocq Require IEEE754.PrimFloat.
From Ladim Require Import Model.TrilinearFloat Model.TrackerFloat Proofs.TrilinearFloatProofs.
Import Flocq.IEEE754.PrimFloat.
Import ListNotations.
Open Scope R_scope.

#[local] Existing Instance Hprec.
#[local] Existing Instance Hmax.
#[local] Existing Instance fexp64_valid.
#[local] Existing Instance prec53.


(** * T1 *)
Definition Bd (x y : bf) : bf := Bdiv mode_NE x y.
Definition Bmin (a b : bf) : bf := if Bltb b a then b else a.
Definition Bmax (a b : bf) : bf := if Bltb a b then b else a.
Definition Bzero : bf := B754_zero false.
Definition Bhalf : bf := Prim2B 0.5.
Definition Btwo : bf := Prim2B 2.
Definition Bsix : bf := Prim2B 6.

Lemma Prim2B_zero : Prim2B 0%float = Bzero.
Proof. apply B2SF_inj. rewrite B2SF_Prim2B. reflexivity. Qed.

Definition clip_B (x lo hi : bf) : bf := Bmax (Bmin x hi) lo.
Definition rkstep_B (x frac u dtdx : bf) : bf := Bp x (Bm (Bm frac u) dtdx).
Definition stage_B (x frac u dtdx lo hi : bf) : bf := clip_B (rkstep_B x frac u dtdx) lo hi.
Definition rk4avg_B (u1 u2 u3 u4 : bf) : bf := Bd (Bp (Bp (Bp u1 (Bm Btwo u2)) (Bm Btwo u3)) u4) Bsix.
Definition move_B (x u dt dx : bf) : bf := Bp x (Bd (Bm u dt) dx).
Definition final_B (x u dt dx : bf) : bf := move_B x (Bp Bzero u) dt dx.

Lemma min_f_equiv : forall a b, Prim2B (min_f a b) = Bmin (Prim2B a) (Prim2B b).
Proof. intros. unfold min_f, Bmin. rewrite ltb_equiv. destruct (Bltb _ _); reflexivity. Qed.
Lemma max_f_equiv : forall a b, Prim2B (max_f a b) = Bmax (Prim2B a) (Prim2B b).
Proof. intros. unfold max_f, Bmax. rewrite ltb_equiv. destruct (Bltb _ _); reflexivity. Qed.

Theorem clip_f_is_IEEE : forall x lo hi, Prim2B (clip_f x lo hi) = clip_B (Prim2B x) (Prim2B lo) (Prim2B hi).
Proof. intros. unfold clip_f, clip_B. rewrite max_f_equiv, min_f_equiv. reflexivity. Qed.

Theorem stage_f_is_IEEE : forall x frac u dtdx lo hi,
  Prim2B (stage_f x frac u dtdx lo hi) =
  stage_B (Prim2B x) (Prim2B frac) (Prim2B u) (Prim2B dtdx) (Prim2B lo) (Prim2B hi).
Proof.
  intros. unfold stage_f, stage_B. rewrite clip_f_is_IEEE. f_equal.
  unfold rkstep_f, rkstep_B, Bp, Bm. rewrite add_equiv, !mul_equiv. reflexivity.
Qed.
Print Assumptions stage_f_is_IEEE.
Print Assumptions clip_f_is_IEEE.

Theorem rk4avg_f_is_IEEE : forall u1 u2 u3 u4,
  Prim2B (rk4avg_f u1 u2 u3 u4) = rk4avg_B (Prim2B u1) (Prim2B u2) (Prim2B u3) (Prim2B u4).
Proof.
  intros. unfold rk4avg_f, rk4avg_B, Bd, Bp, Bm, Btwo, Bsix.
  rewrite div_equiv, !add_equiv, !mul_equiv. reflexivity.
Qed.
Print Assumptions rk4avg_f_is_IEEE.

Theorem final_f_is_IEEE : forall x u dt dx,
  Prim2B (final_f x u dt dx) = final_B (Prim2B x) (Prim2B u) (Prim2B dt) (Prim2B dx).
Proof.
  intros. unfold final_f, move_f, accum_f, final_B, move_B, Bd, Bp, Bm.
  rewrite add_equiv, div_equiv, mul_equiv, add_equiv, Prim2B_zero. reflexivity.
Qed.
Print Assumptions final_f_is_IEEE.

Definition rk4_B (x dt dx lo hi u1 u2 u3 u4 : bf) : list bf * bf :=
  let dtdx := Bd dt dx in
  ([stage_B x Bhalf u1 dtdx lo hi; stage_B x Bhalf u2 dtdx lo hi; stage_B x Bone u3 dtdx lo hi],
   final_B x (rk4avg_B u1 u2 u3 u4) dt dx).
Definition rk2_B (x dt dx lo hi u1 u2 : bf) : list bf * bf :=
  ([stage_B x Bhalf u1 (Bd dt dx) lo hi], final_B x u2 dt dx).
Definition ef_B (x dt dx lo hi u1 : bf) : list bf * bf := ([], final_B x u1 dt dx).

Definition P2 (r : list pfloat * pfloat) : list bf * bf := (List.map Prim2B (fst r), Prim2B (snd r)).

Theorem ef_f_is_IEEE : forall x dt dx lo hi u1,
  P2 (ef_f x dt dx lo hi u1) = ef_B (Prim2B x) (Prim2B dt) (Prim2B dx) (Prim2B lo) (Prim2B hi) (Prim2B u1).
Proof. intros. unfold P2, ef_f, ef_B. simpl. rewrite final_f_is_IEEE. reflexivity. Qed.
Theorem rk2_f_is_IEEE : forall x dt dx lo hi u1 u2,
  P2 (rk2_f x dt dx lo hi u1 u2) =
  rk2_B (Prim2B x) (Prim2B dt) (Prim2B dx) (Prim2B lo) (Prim2B hi) (Prim2B u1) (Prim2B u2).
Proof.
  intros. unfold P2, rk2_f, rk2_B, dtdx_f. simpl. rewrite final_f_is_IEEE, stage_f_is_IEEE.
  unfold Bd. rewrite div_equiv. reflexivity.
Qed.
Print Assumptions rk2_f_is_IEEE.
Print Assumptions ef_f_is_IEEE.
Theorem rk4_f_is_IEEE : forall x dt dx lo hi u1 u2 u3 u4,
  P2 (rk4_f x dt dx lo hi u1 u2 u3 u4) =
  rk4_B (Prim2B x) (Prim2B dt) (Prim2B dx) (Prim2B lo) (Prim2B hi) (Prim2B u1) (Prim2B u2) (Prim2B u3) (Prim2B u4).
Proof.
  intros. unfold P2, rk4_f, rk4_B, dtdx_f. simpl. rewrite final_f_is_IEEE, !stage_f_is_IEEE, rk4avg_f_is_IEEE.
  unfold Bd. rewrite div_equiv, Prim2B_one. reflexivity.
Qed.
Print Assumptions rk4_f_is_IEEE.

(** the constants *)
Lemma FR_half : FR 0.5 = / 2.
Proof. rewrite FR_SF. vm_compute Prim2SF. unfold SF2R, F2R, cond_Zopp. simpl. lra. Qed.
Lemma FR_two : FR 2 = 2.
Proof. rewrite FR_SF. vm_compute Prim2SF. unfold SF2R, F2R, cond_Zopp. simpl. lra. Qed.
Lemma FR_six : FR 6 = 6.
Proof. rewrite FR_SF. vm_compute Prim2SF. unfold SF2R, F2R, cond_Zopp. simpl. lra. Qed.
Lemma fin_half : fin 0.5. Proof. apply fin_bool. reflexivity. Qed.
Lemma fin_two : fin 2. Proof. apply fin_bool. reflexivity. Qed.
Lemma fin_six : fin 6. Proof. apply fin_bool. reflexivity. Qed.

(** * T3: clip *)
Lemma ltb_R : forall a b, fin a -> fin b -> (a <? b)%float = Rlt_bool (FR a) (FR b).
Proof. intros a b Fa Fb. rewrite ltb_equiv. apply Bltb_correct; assumption. Qed.

Theorem clip_f_cases : forall x lo hi, clip_f x lo hi = x \/ clip_f x lo hi = lo \/ clip_f x lo hi = hi.
Proof.
  intros. unfold clip_f, max_f, min_f.
  destruct (hi <? x)%float; destruct (_ <? lo)%float; auto.
Qed.
Print Assumptions clip_f_cases.

Theorem clip_f_in_range : forall x lo hi, fin x -> fin lo -> fin hi -> FR lo <= FR hi ->
  fin (clip_f x lo hi) /\ FR lo <= FR (clip_f x lo hi) <= FR hi.
Proof.
  intros x lo hi Fx Fl Fh H. unfold clip_f, max_f, min_f.
  rewrite (ltb_R hi x Fh Fx). destruct (Rlt_bool_spec (FR hi) (FR x)) as [H1|H1].
  - rewrite (ltb_R hi lo Fh Fl). destruct (Rlt_bool_spec (FR hi) (FR lo)) as [H2|H2]; split; auto; lra.
  - rewrite (ltb_R x lo Fx Fl). destruct (Rlt_bool_spec (FR x) (FR lo)) as [H2|H2]; split; auto; lra.
Qed.
Print Assumptions clip_f_in_range.

(** inside the box nothing happens: the SAME float comes back *)
Theorem clip_f_id : forall x lo hi, fin x -> fin lo -> fin hi -> FR lo <= FR x <= FR hi ->
  clip_f x lo hi = x.
Proof.
  intros x lo hi Fx Fl Fh H. unfold clip_f, max_f, min_f.
  rewrite (ltb_R hi x Fh Fx). destruct (Rlt_bool_spec (FR hi) (FR x)) as [H1|H1]; [lra|].
  rewrite (ltb_R x lo Fx Fl). destruct (Rlt_bool_spec (FR x) (FR lo)) as [H2|H2]; [lra|]. reflexivity.
Qed.
Print Assumptions clip_f_id.

(** outside it, the bound itself comes back *)
Theorem clip_f_hi : forall x lo hi, fin x -> fin lo -> fin hi -> FR lo <= FR hi -> FR hi < FR x ->
  clip_f x lo hi = hi.
Proof.
  intros x lo hi Fx Fl Fh H Hx. unfold clip_f, max_f, min_f.
  rewrite (ltb_R hi x Fh Fx). destruct (Rlt_bool_spec (FR hi) (FR x)) as [H1|H1]; [|lra].
  rewrite (ltb_R hi lo Fh Fl). destruct (Rlt_bool_spec (FR hi) (FR lo)) as [H2|H2]; [lra|]. reflexivity.
Qed.
Print Assumptions clip_f_hi.
Theorem clip_f_lo : forall x lo hi, fin x -> fin lo -> fin hi -> FR lo <= FR hi -> FR x < FR lo ->
  clip_f x lo hi = lo.
Proof.
  intros x lo hi Fx Fl Fh H Hx. unfold clip_f, max_f, min_f.
  rewrite (ltb_R hi x Fh Fx). destruct (Rlt_bool_spec (FR hi) (FR x)) as [H1|H1]; [lra|].
  rewrite (ltb_R x lo Fx Fl). destruct (Rlt_bool_spec (FR x) (FR lo)) as [H2|H2]; [|lra]. reflexivity.
Qed.
Print Assumptions clip_f_lo.

(** a NaN position stays NaN *)
Lemma ltb_nan_l : forall x y, PrimFloat.is_nan x = true -> (x <? y)%float = false.
Proof.
  intros x y H. rewrite is_nan_equiv in H. rewrite ltb_equiv.
  destruct (Prim2B x); try discriminate. reflexivity.
Qed.
Lemma ltb_nan_r : forall x y, PrimFloat.is_nan y = true -> (x <? y)%float = false.
Proof.
  intros x y H. rewrite is_nan_equiv in H. rewrite ltb_equiv.
  destruct (Prim2B y); try discriminate. destruct (Prim2B x); reflexivity.
Qed.
Theorem clip_f_nan : forall x lo hi, PrimFloat.is_nan x = true -> clip_f x lo hi = x.
Proof.
  intros x lo hi H. unfold clip_f, max_f, min_f. rewrite (ltb_nan_r hi x H). rewrite (ltb_nan_l x lo H). reflexivity.
Qed.
Print Assumptions clip_f_nan.

(** an infinite position is clipped to the bound on its side *)
Theorem clip_f_infinite : forall x lo hi, fin lo -> fin hi -> FR lo <= FR hi ->
  (x = infinity -> clip_f x lo hi = hi) /\ (x = neg_infinity -> clip_f x lo hi = lo).
Proof.
  intros x lo hi Fl Fh H. unfold clip_f, max_f, min_f. split; intros ->.
  - assert (E : (hi <? infinity)%float = true).
    { rewrite ltb_equiv. unfold fin in Fh. destruct (Prim2B hi) as [s|s| |s m e p] eqn:Eh; try discriminate;
      replace (Prim2B infinity) with (B754_infinity (prec:=prec) (emax:=emax) false) by (symmetry; apply B2SF_inj; rewrite B2SF_Prim2B; reflexivity);
      destruct s; reflexivity. }
    rewrite E. rewrite (ltb_R hi lo Fh Fl). destruct (Rlt_bool_spec (FR hi) (FR lo)); [lra|reflexivity].
  - assert (E : (hi <? neg_infinity)%float = false).
    { rewrite ltb_equiv. unfold fin in Fh. destruct (Prim2B hi) as [s|s| |s m e p] eqn:Eh; try discriminate;
      replace (Prim2B neg_infinity) with (B754_infinity (prec:=prec) (emax:=emax) true) by (symmetry; apply B2SF_inj; rewrite B2SF_Prim2B; reflexivity);
      destruct s; reflexivity. }
    rewrite E.
    assert (E2 : (neg_infinity <? lo)%float = true).
    { rewrite ltb_equiv. unfold fin in Fl. destruct (Prim2B lo) as [s|s| |s m e p] eqn:El; try discriminate;
      replace (Prim2B neg_infinity) with (B754_infinity (prec:=prec) (emax:=emax) true) by (symmetry; apply B2SF_inj; rewrite B2SF_Prim2B; reflexivity);
      destruct s; reflexivity. }
    rewrite E2. reflexivity.
Qed.
Print Assumptions clip_f_infinite.

(** * T4 (a): zero velocity *)
Lemma Prim2B_negzero : Prim2B (-0)%float = B754_zero true.
Proof. apply B2SF_inj. rewrite B2SF_Prim2B. reflexivity. Qed.

Definition is_zero_f (u : pfloat) : Prop := u = 0%float \/ u = (-0)%float.

Lemma final_B_zero : forall (x dt dx : bf) s, is_finite dt = true -> is_finite dx = true -> B2R dx <> 0 ->
  final_B x (B754_zero s) dt dx = Bp x (B754_zero (xorb (Bsign dt) (Bsign dx))).
Proof.
  intros x dt dx s Fdt Fdx Hdx. unfold final_B, move_B, Bp, Bd, Bm, Bzero.
  destruct s;
  (destruct dt as [sd|sd| |sd md ed pd]; try discriminate;
  destruct dx as [sx|sx| |sx mx ex px]; try discriminate; try (exfalso; apply Hdx; reflexivity); destruct sd; destruct sx; reflexivity).
Qed.

Theorem final_f_zero_velocity : forall x u dt dx,
  is_zero_f u -> fin dt -> fin dx -> FR dx <> 0 -> Prim2SF x <> S754_zero true ->
  final_f x u dt dx = x.
Proof.
  intros x u dt dx Hu Fdt Fdx Hdx Hx. apply Prim2B_inj. rewrite final_f_is_IEEE.
  assert (Eu : exists s, Prim2B u = B754_zero s).
  { destruct Hu as [-> | ->]; [exists false; apply Prim2B_zero | exists true; apply Prim2B_negzero]. }
  destruct Eu as [s ->]. rewrite (final_B_zero _ _ _ s Fdt Fdx Hdx). unfold Bp.
  rewrite <- B2SF_Prim2B in Hx.
  destruct (Prim2B x) as [sx|sx| |sx mx ex px]; try reflexivity.
  destruct sx; [exfalso; apply Hx; reflexivity|]. destruct (xorb _ _); reflexivity.
Qed.
Print Assumptions final_f_zero_velocity.

(** the corner: x = -0.0 keeps its sign only if the zero displacement is negative too *)
Theorem final_f_zero_velocity_negzero : forall u dt dx,
  is_zero_f u -> fin dt -> fin dx -> FR dx <> 0 ->
  final_f (-0) u dt dx = if xorb (Bsign (Prim2B dt)) (Bsign (Prim2B dx)) then (-0)%float else 0%float.
Proof.
  intros u dt dx Hu Fdt Fdx Hdx. apply Prim2B_inj. rewrite final_f_is_IEEE.
  assert (Eu : exists s, Prim2B u = B754_zero s).
  { destruct Hu as [-> | ->]; [exists false; apply Prim2B_zero | exists true; apply Prim2B_negzero]. }
  destruct Eu as [s ->]. rewrite (final_B_zero _ _ _ s Fdt Fdx Hdx). unfold Bp. rewrite Prim2B_negzero.
  destruct (xorb _ _); [rewrite Prim2B_negzero | rewrite Prim2B_zero]; reflexivity.
Qed.
Print Assumptions final_f_zero_velocity_negzero.

(** in every case the VALUE is unchanged *)
Corollary final_f_zero_velocity_value : forall x u dt dx,
  is_zero_f u -> fin x -> fin dt -> fin dx -> FR dx <> 0 ->
  fin (final_f x u dt dx) /\ FR (final_f x u dt dx) = FR x.
Proof.
  intros x u dt dx Hu Fx Fdt Fdx Hdx.
  assert (D : Prim2SF x = S754_zero true \/ Prim2SF x <> S754_zero true).
  { destruct (Prim2SF x) as [[|]|s| |s m e]; [left; reflexivity|right; discriminate..]. }
  destruct D as [E|E].
  - assert (Ex : x = (-0)%float) by (apply Prim2SF_inj; rewrite E; reflexivity). subst x.
    rewrite final_f_zero_velocity_negzero by assumption.
    destruct (xorb _ _); split; try (apply fin_bool; reflexivity); rewrite !FR_SF; reflexivity.
  - rewrite final_f_zero_velocity by assumption. split; [assumption|reflexivity].
Qed.
Print Assumptions final_f_zero_velocity_value.

(** * T4 (b): exact multiplications *)
Lemma Bmult_one_l : forall y : bf, Bmult mode_NE Bone y = y.
Proof.
  intros y. destruct y as [s|s| |s m e p] eqn:Ey; try reflexivity.
  - destruct s; reflexivity.
  - destruct s; reflexivity.
  - rewrite <- Ey.
    assert (Fy : is_finite y = true) by (rewrite Ey; reflexivity).
    generalize (Bmult_correct prec emax Hprec Hmax mode_NE Bone y).
    rewrite Bone_correct, Rmult_1_l.
    rewrite round_generic by (auto with typeclass_instances; apply generic_format_B2R).
    rewrite Rlt_bool_true by apply abs_B2R_lt_emax.
    rewrite is_finite_Bone, Fy. simpl andb. intros (H1 & H2 & H3).
    apply B2R_Bsign_inj; auto.
    assert (Hn : is_nan (Bmult mode_NE Bone y) = false)
      by (destruct (Bmult mode_NE Bone y); try discriminate; reflexivity).
    etransitivity; [exact (H3 Hn)|]. rewrite Bsign_Bone. destruct (Bsign y); reflexivity.
Qed.

Theorem mul_one_exact : forall u : pfloat, (1 * u)%float = u.
Proof. intros u. apply Prim2B_inj. rewrite mul_equiv, Prim2B_one. apply Bmult_one_l. Qed.

Corollary stage_f_frac_one : forall x u dtdx lo hi,
  stage_f x 1 u dtdx lo hi = clip_f (x + u * dtdx)%float lo hi.
Proof. intros. unfold stage_f, rkstep_f. rewrite mul_one_exact. reflexivity. Qed.

Lemma fmt_double : forall x, fmt x -> fmt (2 * x).
Proof.
  intros x Fx. apply FLT_format_generic in Fx; [|reflexivity]. destruct Fx as [f Hx Hm He].
  apply generic_format_FLT. exists (Float radix2 (Fnum f) (Fexp f + 1)); simpl; auto; [|lia].
  rewrite Hx. unfold F2R. simpl. rewrite bpow_plus. change (bpow radix2 1) with 2. ring.
Qed.
Print Assumptions mul_one_exact.

Lemma fmt_half : forall x, fmt x -> bpow radix2 (-1021) <= Rabs x -> fmt (/ 2 * x).
Proof.
  intros x Fx Hx. replace (/ 2 * x) with (x * bpow radix2 (-1)) by (change (bpow radix2 (-1)) with (/ 2); ring).
  apply mult_bpow_exact_FLT; [exact Fx|].
  assert (-1021 < mag radix2 x)%Z; [|lia].
  apply mag_gt_bpow. replace (-1021 - 1 + 1)%Z with (-1021)%Z by ring. exact Hx.
Qed.

(** * single operations: division *)
Lemma div_fb : forall x y kx ky, fb x kx -> fin y -> bpow radix2 ky <= Rabs (FR y) -> (-1074 <= kx - ky < 1024)%Z ->
  fb (x / y)%float (kx - ky) /\ FR (x / y)%float = rnd (FR x / FR y).
Proof.
  intros x y kx ky [Fx Bx] Fy By Hk. unfold fb, fin, FR in *. rewrite div_equiv.
  assert (Hy0 : B2R (Prim2B y) <> 0).
  { intros E. rewrite E, Rabs_R0 in By. pose proof (bpow_gt_0 radix2 ky). lra. }
  assert (Hxy : Rabs (B2R (Prim2B x) / B2R (Prim2B y)) <= bpow radix2 (kx - ky)).
  { unfold Rdiv, Zminus. rewrite Rabs_mult, bpow_plus, Rabs_inv, bpow_opp.
    apply Rmult_le_compat; auto using Rabs_pos.
    - left. apply Rinv_0_lt_compat. apply Rabs_pos_lt. exact Hy0.
    - apply Rinv_le; [apply bpow_gt_0|exact By]. }
  destruct (no_ovf _ _ Hk Hxy) as [Hb Ho].
  generalize (Bdiv_correct prec emax Hprec Hmax mode_NE (Prim2B x) (Prim2B y) Hy0). rewrite Ho.
  intros [H1 [H2 _]]. rewrite H1, H2, Fx. repeat split; auto.
Qed.

Lemma fb_weaken : forall x k k', fb x k -> (k <= k')%Z -> fb x k'.
Proof. intros x k k' [F B] H. split; [exact F|]. eapply Rle_trans; [exact B|]. apply bpow_le. exact H. Qed.

Lemma accum_fb : forall u k, fb u k -> (0 <= k < 1023)%Z -> fb (accum_f u) k /\ FR (accum_f u) = FR u.
Proof.
  intros u k [Fu Bu] Hk. unfold accum_f.
  assert (F0 : fb 0%float 0).
  { split; [apply fin_0|]. rewrite FR_0, Rabs_R0. apply bpow_ge_0. }
  destruct (add_fb 0 u 0 k F0 (conj Fu Bu)) as [[Fs _] Es]; [lia|].
  rewrite FR_0, Rplus_0_l, rnd_id in Es by apply fmt_FR.
  split; [|exact Es]. split; [exact Fs|]. rewrite Es. exact Bu.
Qed.

(** * T2: error analysis on the rounded real computation *)
Definition move_r (x u dt dx : R) : R := rnd (x + rnd (rnd (u * dt) / dx)).
Definition rkstep_r (x f u g : R) : R := rnd (x + rnd (rnd (f * u) * g)).
Definition rk4avg_r (u1 u2 u3 u4 : R) : R :=
  rnd (rnd (rnd (rnd (u1 + rnd (2 * u2)) + rnd (2 * u3)) + u4) / 6).

Lemma u64_val : u64 = / 9007199254740992.
Proof. unfold u64. change (-53)%Z with (- (53))%Z. rewrite (bpow_neg_val 53) by lia. reflexivity. Qed.
Lemma eta_le_u64 : eta <= u64.
Proof. unfold eta, u64. apply bpow_le. lia. Qed.

(** |x| <= B gives |rnd x - x| <= u B + eta and |rnd x| <= (1 + u) B + eta *)
Lemma rnd_err_le : forall x B, Rabs x <= B -> Rabs (rnd x - x) <= u64 * B + eta /\ Rabs (rnd x) <= (1 + u64) * B + eta.
Proof.
  intros x B H. pose proof (rnd_err x) as E. pose proof u_pos.
  assert (E' : Rabs (rnd x - x) <= u64 * B + eta) by nra.
  split; [exact E'|].
  replace (rnd x) with ((rnd x - x) + x) by ring. eapply Rle_trans; [apply Rabs_triang|]. lra.
Qed.

Lemma move_r_err : forall x u dt dx, fmt x -> dx <> 0 ->
  Rabs (move_r x u dt dx - (x + u * dt / dx)) <=
  u64 * Rabs x + 4 * u64 * Rabs (u * dt / dx) + eta * (2 + 2 / Rabs dx).
Proof.
  intros x u dt dx Fx Hdx. unfold move_r.
  set (i := / Rabs dx).
  assert (Hi : 0 < i) by (apply Rinv_0_lt_compat, Rabs_pos_lt; exact Hdx).
  set (a := Rabs (u * dt)). assert (Ha : 0 <= a) by apply Rabs_pos.
  destruct (rnd_err_le (u * dt) a (Rle_refl _)) as [Ep Bp]. set (p := rnd (u * dt)) in *.
  assert (Hq1 : Rabs (p / dx) = Rabs p * i) by (unfold Rdiv; rewrite Rabs_mult, Rabs_inv; reflexivity).
  assert (Bq0 : Rabs (p / dx) <= ((1 + u64) * a + eta) * i).
  { rewrite Hq1. apply Rmult_le_compat_r; lra. }
  destruct (rnd_err_le (p / dx) _ Bq0) as [Eq _]. set (q := rnd (p / dx)) in *.
  assert (HE : Rabs (u * dt / dx) = a * i) by (unfold Rdiv; rewrite Rabs_mult, Rabs_inv; reflexivity).
  assert (D1 : Rabs (p / dx - u * dt / dx) <= (u64 * a + eta) * i).
  { replace (p / dx - u * dt / dx) with ((p - u * dt) * / dx) by (field; exact Hdx).
    rewrite Rabs_mult, Rabs_inv. apply Rmult_le_compat_r; lra. }
  assert (Bq : Rabs (q - u * dt / dx) <= u64 * (((1 + u64) * a + eta) * i) + eta + (u64 * a + eta) * i).
  { replace (q - u * dt / dx) with ((q - p / dx) + (p / dx - u * dt / dx)) by ring.
    eapply Rle_trans; [apply Rabs_triang|]. lra. }
  pose proof (rnd_add_err x q Fx (fmt_rnd _)) as Er.
  assert (Bs : Rabs (x + q) <= Rabs x + a * i + Rabs (q - u * dt / dx)).
  { replace (x + q) with (x + u * dt / dx + (q - u * dt / dx)) by ring.
    eapply Rle_trans; [apply Rabs_triang|]. eapply Rle_trans; [apply Rplus_le_compat_r, Rabs_triang|]. lra. }
  replace (rnd (x + q) - (x + u * dt / dx)) with ((rnd (x + q) - (x + q)) + (q - u * dt / dx)) by ring.
  eapply Rle_trans; [apply Rabs_triang|].
  rewrite HE. replace (2 / Rabs dx) with (2 * i) by (unfold i; field; apply Rabs_no_R0; exact Hdx).
  pose proof eta_pos as He. pose proof eta_le_u64 as Heu. pose proof (Rabs_pos x) as Hx.
  set (X := Rabs x) in *. set (Q := Rabs (q - u * dt / dx)) in *. set (S := Rabs (x + q)) in *.
  set (R0 := Rabs (rnd (x + q) - (x + q))) in *.
  assert (Hai : 0 <= a * i) by nra. assert (Hei : 0 <= eta * i) by nra.
  assert (HuS : u64 * S <= u64 * (X + a * i + Q)) by (pose proof u_pos; nra).
  rewrite u64_val in *. lra.
Qed.

Lemma rkstep_r_err : forall x f u dt dx, fmt x -> dx <> 0 ->
  Rabs (rkstep_r x f u (rnd (dt / dx)) - (x + f * u * (dt / dx))) <=
  u64 * Rabs x + 5 * u64 * Rabs (f * u * (dt / dx)) + eta * (2 + 2 * Rabs (f * u) + 2 * Rabs (dt / dx)).
Proof.
  intros x f u dt dx Fx Hdx. unfold rkstep_r.
  set (W := Rabs (f * u)). set (T := Rabs (dt / dx)).
  assert (HW : 0 <= W) by apply Rabs_pos. assert (HT : 0 <= T) by apply Rabs_pos.
  destruct (rnd_err_le (f * u) W (Rle_refl _)) as [Ea Ba]. set (a := rnd (f * u)) in *.
  destruct (rnd_err_le (dt / dx) T (Rle_refl _)) as [Eg Bg]. set (g := rnd (dt / dx)) in *.
  pose proof eta_pos as He. pose proof eta_le_u64 as Heu. pose proof u_pos as Hu. pose proof u_lt_1 as Hu1.
  assert (Bag : Rabs (a * g) <= ((1 + u64) * W + eta) * ((1 + u64) * T + eta)).
  { rewrite Rabs_mult. apply Rmult_le_compat; auto using Rabs_pos. }
  destruct (rnd_err_le (a * g) _ Bag) as [Eb _]. set (b := rnd (a * g)) in *.
  assert (D1 : Rabs (a * g - f * u * (dt / dx)) <= ((1 + u64) * W + eta) * (u64 * T + eta) + (u64 * W + eta) * T).
  { replace (a * g - f * u * (dt / dx)) with (a * (g - dt / dx) + (a - f * u) * (dt / dx)) by ring.
    eapply Rle_trans; [apply Rabs_triang|]. rewrite !Rabs_mult. fold T.
    apply Rplus_le_compat.
    - apply Rmult_le_compat; auto using Rabs_pos.
    - apply Rmult_le_compat_r; auto. }
  assert (HS : Rabs (f * u * (dt / dx)) = W * T) by (rewrite Rabs_mult; reflexivity).
  assert (Bb : Rabs (b - f * u * (dt / dx)) <=
               u64 * (((1 + u64) * W + eta) * ((1 + u64) * T + eta)) + eta
               + (((1 + u64) * W + eta) * (u64 * T + eta) + (u64 * W + eta) * T)).
  { replace (b - f * u * (dt / dx)) with ((b - a * g) + (a * g - f * u * (dt / dx))) by ring.
    eapply Rle_trans; [apply Rabs_triang|]. lra. }
  pose proof (rnd_add_err x b Fx (fmt_rnd _)) as Er.
  assert (Bs : Rabs (x + b) <= Rabs x + W * T + Rabs (b - f * u * (dt / dx))).
  { replace (x + b) with (x + f * u * (dt / dx) + (b - f * u * (dt / dx))) by ring.
    eapply Rle_trans; [apply Rabs_triang|]. eapply Rle_trans; [apply Rplus_le_compat_r, Rabs_triang|]. lra. }
  replace (rnd (x + b) - (x + f * u * (dt / dx))) with ((rnd (x + b) - (x + b)) + (b - f * u * (dt / dx))) by ring.
  eapply Rle_trans; [apply Rabs_triang|]. rewrite HS.
  pose proof (Rabs_pos x) as Hx.
  set (X := Rabs x) in *. set (Q := Rabs (b - f * u * (dt / dx))) in *. set (S := Rabs (x + b)) in *.
  set (R0 := Rabs (rnd (x + b) - (x + b))) in *.
  assert (HWT : 0 <= W * T) by nra. assert (HeW : 0 <= eta * W) by nra. assert (HeT : 0 <= eta * T) by nra.
  assert (Hee : eta * eta <= eta * u64) by nra. assert (Hee0 : 0 <= eta * eta) by nra.
  assert (HuS : u64 * S <= u64 * (X + W * T + Q)) by nra.
  rewrite u64_val in *. lra.
Qed.

Definition rk4avg_R (u1 u2 u3 u4 : R) : R := (u1 + 2 * u2 + 2 * u3 + u4) / 6.
(** gamma4 = (1 + u)^4 - 1 <= 4 u + 7 u^2 *)
Definition c4 : R := 4 * u64 + 7 * u64 * u64.

Lemma rk4avg_r_err : forall u1 u2 u3 u4 M, fmt u1 -> fmt u2 -> fmt u3 -> fmt u4 ->
  Rabs u1 <= M -> Rabs u2 <= M -> Rabs u3 <= M -> Rabs u4 <= M ->
  Rabs (rk4avg_r u1 u2 u3 u4 - rk4avg_R u1 u2 u3 u4) <= c4 * M + eta.
Proof.
  intros u1 u2 u3 u4 M F1 F2 F3 F4 B1 B2 B3 B4. unfold rk4avg_r, rk4avg_R.
  rewrite (rnd_id (2 * u2)) by (apply fmt_double; exact F2).
  rewrite (rnd_id (2 * u3)) by (apply fmt_double; exact F3).
  pose proof (sum4 u1 (2 * u2) (2 * u3) u4 F1 (fmt_double _ F2) (fmt_double _ F3) F4) as S.
  set (s := rnd (rnd (rnd (u1 + 2 * u2) + 2 * u3) + u4)) in *.
  rewrite !Rabs_mult, (Rabs_pos_eq 2) in S by lra.
  pose proof (Rabs_pos u1).
  assert (HS : Rabs (s - (u1 + 2 * u2 + 2 * u3 + u4)) <= g3 * (6 * M)).
  { eapply Rle_trans; [exact S|]. pose proof g3_pos. nra. }
  assert (BS : Rabs (s / 6) <= M + g3 * M).
  { replace (s / 6) with (/ 6 * ((s - (u1 + 2 * u2 + 2 * u3 + u4)) + (u1 + 2 * u2 + 2 * u3 + u4))) by field.
    rewrite Rabs_mult, (Rabs_pos_eq (/ 6)) by lra.
    assert (Rabs (u1 + 2 * u2 + 2 * u3 + u4) <= 6 * M).
    { apply Rabs_le. apply Rabs_le_inv in B1, B2, B3, B4. lra. }
    assert (Rabs (s - (u1 + 2 * u2 + 2 * u3 + u4) + (u1 + 2 * u2 + 2 * u3 + u4)) <= g3 * (6 * M) + 6 * M).
    { eapply Rle_trans; [apply Rabs_triang|]. lra. }
    lra. }
  destruct (rnd_err_le (s / 6) _ BS) as [Er _].
  replace (rnd (s / 6) - (u1 + 2 * u2 + 2 * u3 + u4) / 6) with
    ((rnd (s / 6) - s / 6) + / 6 * (s - (u1 + 2 * u2 + 2 * u3 + u4))) by field.
  eapply Rle_trans; [apply Rabs_triang|]. rewrite Rabs_mult, (Rabs_pos_eq (/ 6)) by lra.
  unfold c4, g3 in *. pose proof eta_pos.
  set (A := Rabs (rnd (s / 6) - s / 6)) in *. set (B := Rabs (s - (u1 + 2 * u2 + 2 * u3 + u4))) in *.
  assert (0 <= M) by lra.
  rewrite u64_val in *. lra.
Qed.

Lemma c4_le : c4 <= 5 * u64.
Proof. unfold c4. rewrite u64_val. lra. Qed.

(** the exact value of the average of four equal velocities *)
Lemma rk4avg_R_equal : forall u, rk4avg_R u u u u = u.
Proof. intros. unfold rk4avg_R. field. Qed.

(** * The theorems on primitive floats *)
(** a grid spacing: finite and at least 2^-100 in magnitude *)
Definition dxb (dx : pfloat) : Prop := fin dx /\ bpow radix2 (-100) <= Rabs (FR dx).
Lemma dxb_neq : forall dx, dxb dx -> FR dx <> 0.
Proof. intros dx [_ H] E. rewrite E, Rabs_R0 in H. pose proof (bpow_gt_0 radix2 (-100)). lra. Qed.

Lemma move_f_rounded : forall x u dt dx, fb x 1000 -> fb u 102 -> fb dt 100 -> dxb dx ->
  fin (move_f x u dt dx) /\ FR (move_f x u dt dx) = move_r (FR x) (FR u) (FR dt) (FR dx).
Proof.
  intros x u dt dx Hx Hu Hdt [Fdx Bdx]. unfold move_f, move_r.
  destruct (mul_fb u dt 102 100 Hu Hdt) as [Hp Ep]; [lia|]. simpl in Hp.
  destruct (div_fb _ dx 202 (-100) Hp Fdx Bdx) as [Hq Eq]; [lia|]. simpl in Hq.
  destruct (add_fb x _ 1000 302 Hx Hq) as [[Fr _] Er]; [simpl; lia|].
  split; [exact Fr|]. rewrite Er, Eq, Ep. reflexivity.
Qed.

Definition move_bound (x u dt dx : R) : R :=
  u64 * Rabs x + 4 * u64 * Rabs (u * dt / dx) + eta * (2 + 2 / Rabs dx).

Theorem move_f_error : forall x u dt dx, fb x 1000 -> fb u 102 -> fb dt 100 -> dxb dx ->
  fin (move_f x u dt dx) /\
  Rabs (FR (move_f x u dt dx) - (FR x + FR u * FR dt / FR dx)) <= move_bound (FR x) (FR u) (FR dt) (FR dx).
Proof.
  intros x u dt dx Hx Hu Hdt Hdx. destruct (move_f_rounded x u dt dx Hx Hu Hdt Hdx) as [Fr Er].
  split; [exact Fr|]. rewrite Er. apply move_r_err; [apply fmt_FR|apply dxb_neq; exact Hdx].
Qed.
Print Assumptions move_f_error.

(** the final position of a step whose scheme returned the velocity [u]: the accumulation 0.0 + u is exact *)
Theorem final_f_error : forall x u dt dx, fb x 1000 -> fb u 102 -> fb dt 100 -> dxb dx ->
  fin (final_f x u dt dx) /\
  Rabs (FR (final_f x u dt dx) - (FR x + FR u * FR dt / FR dx)) <= move_bound (FR x) (FR u) (FR dt) (FR dx).
Proof.
  intros x u dt dx Hx Hu Hdt Hdx. unfold final_f.
  destruct (accum_fb u 102 Hu) as [Ha Ea]; [lia|]. rewrite <- Ea. apply move_f_error; assumption.
Qed.
Print Assumptions final_f_error.

(** ** stage positions *)
Lemma rkstep_f_rounded : forall x frac u dt dx, fb x 1000 -> fb frac 0 -> fb u 100 -> fb dt 100 -> dxb dx ->
  fin (rkstep_f x frac u (dtdx_f dt dx)) /\
  FR (rkstep_f x frac u (dtdx_f dt dx)) = rkstep_r (FR x) (FR frac) (FR u) (rnd (FR dt / FR dx)).
Proof.
  intros x frac u dt dx Hx Hf Hu Hdt [Fdx Bdx]. unfold rkstep_f, rkstep_r, dtdx_f.
  destruct (div_fb dt dx 100 (-100) Hdt Fdx Bdx) as [Hg Eg]; [lia|]. simpl in Hg.
  destruct (mul_fb frac u 0 100 Hf Hu) as [Ha Ea]; [lia|]. simpl in Ha.
  destruct (mul_fb _ _ 100 200 Ha Hg) as [Hb Eb]; [lia|]. simpl in Hb.
  destruct (add_fb x _ 1000 300 Hx Hb) as [[Fr _] Er]; [simpl; lia|].
  split; [exact Fr|]. rewrite Er, Eb, Ea, Eg. reflexivity.
Qed.

Definition stage_bound (x f u dt dx : R) : R :=
  u64 * Rabs x + 5 * u64 * Rabs (f * u * (dt / dx)) + eta * (2 + 2 * Rabs (f * u) + 2 * Rabs (dt / dx)).

Theorem rkstep_f_error : forall x frac u dt dx, fb x 1000 -> fb frac 0 -> fb u 100 -> fb dt 100 -> dxb dx ->
  fin (rkstep_f x frac u (dtdx_f dt dx)) /\
  Rabs (FR (rkstep_f x frac u (dtdx_f dt dx)) - (FR x + FR frac * FR u * (FR dt / FR dx)))
    <= stage_bound (FR x) (FR frac) (FR u) (FR dt) (FR dx).
Proof.
  intros x frac u dt dx Hx Hf Hu Hdt Hdx. destruct (rkstep_f_rounded x frac u dt dx Hx Hf Hu Hdt Hdx) as [Fr Er].
  split; [exact Fr|]. rewrite Er. apply rkstep_r_err; [apply fmt_FR|apply dxb_neq; exact Hdx].
Qed.
Print Assumptions rkstep_f_error.

(** the clip on reals, and the float clip computes it exactly *)
Definition clip_R (x lo hi : R) : R := Rmax (Rmin x hi) lo.

Lemma clip_f_fin : forall x lo hi, fin x -> fin lo -> fin hi -> fin (clip_f x lo hi).
Proof. intros x lo hi Fx Fl Fh. destruct (clip_f_cases x lo hi) as [-> | [-> | ->]]; assumption. Qed.

Theorem clip_f_value : forall x lo hi, fin x -> fin lo -> fin hi ->
  FR (clip_f x lo hi) = clip_R (FR x) (FR lo) (FR hi).
Proof.
  intros x lo hi Fx Fl Fh. unfold clip_f, max_f, min_f, clip_R.
  rewrite (ltb_R hi x Fh Fx). destruct (Rlt_bool_spec (FR hi) (FR x)) as [H1|H1].
  - rewrite (Rmin_right (FR x) (FR hi)) by lra.
    rewrite (ltb_R hi lo Fh Fl). destruct (Rlt_bool_spec (FR hi) (FR lo)) as [H2|H2].
    + rewrite Rmax_right by lra. reflexivity.
    + rewrite Rmax_left by lra. reflexivity.
  - rewrite (Rmin_left (FR x) (FR hi)) by lra.
    rewrite (ltb_R x lo Fx Fl). destruct (Rlt_bool_spec (FR x) (FR lo)) as [H2|H2].
    + rewrite Rmax_right by lra. reflexivity.
    + rewrite Rmax_left by lra. reflexivity.
Qed.
Print Assumptions clip_f_value.

Lemma clip_R_lipschitz : forall a b lo hi, Rabs (clip_R a lo hi - clip_R b lo hi) <= Rabs (a - b).
Proof.
  intros a b lo hi. unfold clip_R, Rmax, Rmin.
  repeat (destruct (Rle_dec _ _)); unfold Rabs; repeat (destruct (Rcase_abs _)); lra.
Qed.

Lemma clip_R_id : forall a lo hi, lo <= a <= hi -> clip_R a lo hi = a.
Proof. intros a lo hi H. unfold clip_R. rewrite Rmin_left by lra. rewrite Rmax_left by lra. reflexivity. Qed.

(** a stage position is the exactly clipped exact stage position, up to [stage_bound] *)
Theorem stage_f_error : forall x frac u dt dx lo hi,
  fb x 1000 -> fb frac 0 -> fb u 100 -> fb dt 100 -> dxb dx -> fin lo -> fin hi ->
  let s := stage_f x frac u (dtdx_f dt dx) lo hi in
  fin s /\
  Rabs (FR s - clip_R (FR x + FR frac * FR u * (FR dt / FR dx)) (FR lo) (FR hi))
    <= stage_bound (FR x) (FR frac) (FR u) (FR dt) (FR dx) /\
  (FR lo <= FR hi -> FR lo <= FR s <= FR hi) /\
  (FR lo <= FR (rkstep_f x frac u (dtdx_f dt dx)) <= FR hi -> s = rkstep_f x frac u (dtdx_f dt dx)).
Proof.
  intros x frac u dt dx lo hi Hx Hf Hu Hdt Hdx Fl Fh s.
  destruct (rkstep_f_error x frac u dt dx Hx Hf Hu Hdt Hdx) as [Fr Er].
  unfold s, stage_f. split; [apply clip_f_fin; assumption|]. split; [|split].
  - rewrite clip_f_value by assumption.
    eapply Rle_trans; [apply clip_R_lipschitz|exact Er].
  - intros H. apply clip_f_in_range; assumption.
  - intros H. apply clip_f_id; assumption.
Qed.
Print Assumptions stage_f_error.

(** ** the Runge-Kutta average *)
Lemma fb_two : fb 2 1.
Proof. split; [apply fin_two|]. rewrite FR_two. simpl. rewrite Rabs_pos_eq; lra. Qed.

Lemma rk4avg_f_rounded : forall u1 u2 u3 u4, fb u1 100 -> fb u2 100 -> fb u3 100 -> fb u4 100 ->
  fb (rk4avg_f u1 u2 u3 u4) 102 /\
  FR (rk4avg_f u1 u2 u3 u4) = rk4avg_r (FR u1) (FR u2) (FR u3) (FR u4).
Proof.
  intros u1 u2 u3 u4 H1 H2 H3 H4. unfold rk4avg_f, rk4avg_r.
  destruct (mul_fb 2 u2 1 100 fb_two H2) as [Ha Ea]; [lia|]. simpl in Ha.
  destruct (mul_fb 2 u3 1 100 fb_two H3) as [Hb Eb]; [lia|]. simpl in Hb.
  destruct (add_fb _ _ 100 101 H1 Ha) as [Hs1 Es1]; [simpl; lia|]. simpl in Hs1.
  destruct (add_fb _ _ 102 101 Hs1 Hb) as [Hs2 Es2]; [simpl; lia|]. simpl in Hs2.
  destruct (add_fb _ _ 103 100 Hs2 H4) as [Hs3 Es3]; [simpl; lia|]. simpl in Hs3.
  assert (B6 : bpow radix2 2 <= Rabs (FR 6)) by (rewrite FR_six; simpl; rewrite Rabs_pos_eq; lra).
  destruct (div_fb _ 6 104 2 Hs3 fin_six B6) as [Hr Er]; [lia|]. simpl in Hr.
  split; [exact Hr|]. rewrite Er, Es3, Es2, Es1, Ea, Eb, FR_two, FR_six. reflexivity.
Qed.

Theorem rk4avg_f_error : forall u1 u2 u3 u4 M, fb u1 100 -> fb u2 100 -> fb u3 100 -> fb u4 100 ->
  Rabs (FR u1) <= M -> Rabs (FR u2) <= M -> Rabs (FR u3) <= M -> Rabs (FR u4) <= M ->
  fin (rk4avg_f u1 u2 u3 u4) /\
  Rabs (FR (rk4avg_f u1 u2 u3 u4) - rk4avg_R (FR u1) (FR u2) (FR u3) (FR u4)) <= c4 * M + eta.
Proof.
  intros u1 u2 u3 u4 M H1 H2 H3 H4 B1 B2 B3 B4.
  destruct (rk4avg_f_rounded u1 u2 u3 u4 H1 H2 H3 H4) as [[Fr _] Er].
  split; [exact Fr|]. rewrite Er. apply rk4avg_r_err; auto using fmt_FR.
Qed.
Print Assumptions rk4avg_f_error.

Corollary rk4avg_f_error5 : forall u1 u2 u3 u4 M, fb u1 100 -> fb u2 100 -> fb u3 100 -> fb u4 100 ->
  Rabs (FR u1) <= M -> Rabs (FR u2) <= M -> Rabs (FR u3) <= M -> Rabs (FR u4) <= M ->
  Rabs (FR (rk4avg_f u1 u2 u3 u4) - rk4avg_R (FR u1) (FR u2) (FR u3) (FR u4)) <= 5 * u64 * M + eta.
Proof.
  intros u1 u2 u3 u4 M H1 H2 H3 H4 B1 B2 B3 B4.
  destruct (rk4avg_f_error u1 u2 u3 u4 M) as [_ E]; auto.
  eapply Rle_trans; [exact E|]. pose proof c4_le. pose proof (Rabs_pos (FR u1)). nra.
Qed.
Print Assumptions rk4avg_f_error5.

(** four equal velocities: the average is u up to (4 u + 7 u^2) |u| + eta  (NOT exactly u in general: see the
    example [rk4avg_equal_not_exact] below) *)
Corollary rk4avg_f_equal : forall u, fb u 100 ->
  Rabs (FR (rk4avg_f u u u u) - FR u) <= c4 * Rabs (FR u) + eta.
Proof.
  intros u H. destruct (rk4avg_f_error u u u u (Rabs (FR u))) as [_ E]; auto using Rle_refl.
  rewrite rk4avg_R_equal in E. exact E.
Qed.
Print Assumptions rk4avg_f_equal.

(** ** whole steps *)
Definition rk4_bound (x M dt dx : R) : R :=
  u64 * Rabs x + 9 * u64 * (M * Rabs (dt / dx)) + eta * (2 + 2 / Rabs dx + 2 * Rabs (dt / dx)).

Theorem rk4_final_error : forall x dt dx u1 u2 u3 u4 M,
  fb x 1000 -> fb dt 100 -> dxb dx -> fb u1 100 -> fb u2 100 -> fb u3 100 -> fb u4 100 ->
  Rabs (FR u1) <= M -> Rabs (FR u2) <= M -> Rabs (FR u3) <= M -> Rabs (FR u4) <= M ->
  let r := final_f x (rk4avg_f u1 u2 u3 u4) dt dx in
  fin r /\
  Rabs (FR r - (FR x + rk4avg_R (FR u1) (FR u2) (FR u3) (FR u4) * FR dt / FR dx)) <= rk4_bound (FR x) M (FR dt) (FR dx).
Proof.
  intros x dt dx u1 u2 u3 u4 M Hx Hdt Hdx H1 H2 H3 H4 B1 B2 B3 B4 r.
  destruct (rk4avg_f_rounded u1 u2 u3 u4 H1 H2 H3 H4) as [HU _].
  destruct (rk4avg_f_error u1 u2 u3 u4 M H1 H2 H3 H4 B1 B2 B3 B4) as [_ EU].
  destruct (final_f_error x _ dt dx Hx HU Hdt Hdx) as [Fr Er]. fold r in Fr, Er.
  split; [exact Fr|].
  set (U := FR (rk4avg_f u1 u2 u3 u4)) in *. set (A := rk4avg_R (FR u1) (FR u2) (FR u3) (FR u4)) in *.
  pose proof (dxb_neq dx Hdx) as Hd0.
  set (T := Rabs (FR dt / FR dx)).
  assert (HT : 0 <= T) by apply Rabs_pos.
  assert (HM : 0 <= M) by (pose proof (Rabs_pos (FR u1)); lra).
  assert (HA : Rabs A <= M).
  { unfold A, rk4avg_R. apply Rabs_le. apply Rabs_le_inv in B1, B2, B3, B4. lra. }
  assert (HUb : Rabs U <= M + (c4 * M + eta)).
  { replace U with (A + (U - A)) by ring. eapply Rle_trans; [apply Rabs_triang|]. lra. }
  assert (E1 : Rabs (U * FR dt / FR dx) <= (M + (c4 * M + eta)) * T).
  { replace (U * FR dt / FR dx) with (U * (FR dt / FR dx)) by (field; exact Hd0).
    rewrite Rabs_mult. apply Rmult_le_compat_r; assumption. }
  assert (E2 : Rabs ((U - A) * (FR dt / FR dx)) <= (c4 * M + eta) * T).
  { rewrite Rabs_mult. apply Rmult_le_compat_r; assumption. }
  replace (FR r - (FR x + A * FR dt / FR dx)) with
    ((FR r - (FR x + U * FR dt / FR dx)) + (U - A) * (FR dt / FR dx)) by (field; exact Hd0).
  eapply Rle_trans; [apply Rabs_triang|].
  unfold move_bound in Er. unfold rk4_bound. fold T.
  pose proof eta_pos as He. pose proof (Rabs_pos (FR x)).
  assert (Hi : 0 < / Rabs (FR dx)) by (apply Rinv_0_lt_compat, Rabs_pos_lt; exact Hd0).
  unfold Rdiv in *. set (i := / Rabs (FR dx)) in *.
  set (P := Rabs (U * FR dt * / FR dx)) in *. set (Q := Rabs ((U - A) * (FR dt * / FR dx))) in *.
  set (R0 := Rabs (FR r - (FR x + U * FR dt * / FR dx))) in *. set (X := Rabs (FR x)) in *.
  assert (0 <= M * T) by nra. assert (0 <= eta * T) by nra.
  unfold c4 in *. rewrite u64_val in *. lra.
Qed.
Print Assumptions rk4_final_error.

(** 0.5 * u is exact unless it falls into the subnormal range *)
Theorem mul_half_exact : forall u, fin u -> bpow radix2 (-1021) <= Rabs (FR u) ->
  fin (0.5 * u)%float /\ FR (0.5 * u)%float = FR u / 2.
Proof.
  intros u Fu Hu.
  assert (Bu : fb u 1024) by (split; [exact Fu|left; apply abs_B2R_lt_emax]).
  assert (Bh : fb 0.5 (-1)).
  { split; [apply fin_half|]. rewrite FR_half. change (bpow radix2 (-1)) with (/ 2). rewrite Rabs_pos_eq; lra. }
  destruct (mul_fb 0.5 u (-1) 1024 Bh Bu) as [[Fr _] Er]; [lia|].
  split; [exact Fr|]. rewrite Er, FR_half, rnd_id; [field|]. apply fmt_half; [apply fmt_FR|exact Hu].
Qed.
Print Assumptions mul_half_exact.

(** ** bounds in the shape  c1 * u * (|x| + D) + c2 * eta  for grid-sized numbers *)
Corollary final_f_error_grid : forall x u dt dx D, fb x 1000 -> fb u 102 -> fb dt 100 -> fin dx ->
  1 <= Rabs (FR dx) -> Rabs (FR u * FR dt / FR dx) <= D ->
  fin (final_f x u dt dx) /\
  Rabs (FR (final_f x u dt dx) - (FR x + FR u * FR dt / FR dx)) <= 4 * u64 * (Rabs (FR x) + D) + 4 * eta.
Proof.
  intros x u dt dx D Hx Hu Hdt Fdx Hdx HD.
  assert (Hd : dxb dx).
  { split; [exact Fdx|]. eapply Rle_trans; [|exact Hdx]. change 1 with (bpow radix2 0). apply bpow_le. lia. }
  destruct (final_f_error x u dt dx Hx Hu Hdt Hd) as [Fr Er]. split; [exact Fr|].
  eapply Rle_trans; [exact Er|]. unfold move_bound.
  assert (Hi : 0 < / Rabs (FR dx) <= 1).
  { split; [apply Rinv_0_lt_compat; lra|]. rewrite <- Rinv_1. apply Rinv_le; lra. }
  unfold Rdiv in *. set (i := / Rabs (FR dx)) in *. pose proof eta_pos. pose proof (Rabs_pos (FR x)).
  assert (0 <= eta * i <= eta) by nra. rewrite u64_val. lra.
Qed.
Print Assumptions final_f_error_grid.

Corollary stage_f_error_grid : forall x frac u dt dx lo hi D,
  fb x 1000 -> fb frac 0 -> fb u 100 -> fb dt 100 -> dxb dx -> fin lo -> fin hi ->
  Rabs (FR frac * FR u) <= 1024 -> Rabs (FR dt / FR dx) <= 1024 -> Rabs (FR frac * FR u * (FR dt / FR dx)) <= D ->
  let s := stage_f x frac u (dtdx_f dt dx) lo hi in
  Rabs (FR s - clip_R (FR x + FR frac * FR u * (FR dt / FR dx)) (FR lo) (FR hi))
    <= 5 * u64 * (Rabs (FR x) + D) + 4098 * eta.
Proof.
  intros x frac u dt dx lo hi D Hx Hf Hu Hdt Hdx Fl Fh HW HT HD s.
  destruct (stage_f_error x frac u dt dx lo hi Hx Hf Hu Hdt Hdx Fl Fh) as (_ & E & _). fold s in E.
  eapply Rle_trans; [exact E|]. unfold stage_bound. pose proof eta_pos. pose proof (Rabs_pos (FR x)).
  set (W := Rabs (FR frac * FR u)) in *. set (T := Rabs (FR dt / FR dx)) in *.
  assert (eta * W <= eta * 1024) by nra. assert (eta * T <= eta * 1024) by nra.
  rewrite u64_val. lra.
Qed.
Print Assumptions stage_f_error_grid.

Corollary rk4_final_error_grid : forall x dt dx u1 u2 u3 u4 M D,
  fb x 1000 -> fb dt 100 -> fin dx -> fb u1 100 -> fb u2 100 -> fb u3 100 -> fb u4 100 ->
  Rabs (FR u1) <= M -> Rabs (FR u2) <= M -> Rabs (FR u3) <= M -> Rabs (FR u4) <= M ->
  1 <= Rabs (FR dx) -> Rabs (FR dt / FR dx) <= 1024 -> M * Rabs (FR dt / FR dx) <= D ->
  let r := final_f x (rk4avg_f u1 u2 u3 u4) dt dx in
  Rabs (FR r - (FR x + rk4avg_R (FR u1) (FR u2) (FR u3) (FR u4) * FR dt / FR dx))
    <= 9 * u64 * (Rabs (FR x) + D) + 2052 * eta.
Proof.
  intros x dt dx u1 u2 u3 u4 M D Hx Hdt Fdx H1 H2 H3 H4 B1 B2 B3 B4 Hdx HT HD r.
  assert (Hd : dxb dx).
  { split; [exact Fdx|]. eapply Rle_trans; [|exact Hdx]. change 1 with (bpow radix2 0). apply bpow_le. lia. }
  destruct (rk4_final_error x dt dx u1 u2 u3 u4 M Hx Hdt Hd H1 H2 H3 H4 B1 B2 B3 B4) as [_ E]. fold r in E.
  eapply Rle_trans; [exact E|]. unfold rk4_bound.
  assert (Hi : 0 < / Rabs (FR dx) <= 1).
  { split; [apply Rinv_0_lt_compat; lra|]. rewrite <- Rinv_1. apply Rinv_le; lra. }
  unfold Rdiv in *. set (i := / Rabs (FR dx)) in *. set (T := Rabs (FR dt * / FR dx)) in *.
  pose proof eta_pos. pose proof (Rabs_pos (FR x)).
  assert (0 <= eta * i <= eta) by nra. assert (eta * T <= eta * 1024) by nra.
  rewrite u64_val. lra.
Qed.
Print Assumptions rk4_final_error_grid.

(** ** computable hypotheses ([step_ok] of Model/TrackerFloat.v) *)
Lemma FR_two100 : FR two100 = bpow radix2 100.
Proof. apply FR_pow2; [lia|]. vm_compute. reflexivity. Qed.
Lemma FR_twom100 : FR twom100 = bpow radix2 (-100).
Proof. apply FR_pow2; [lia|]. vm_compute. reflexivity. Qed.

Lemma abs_le_fb : forall x b k, PrimFloat.is_finite x = true -> fin b -> FR b = bpow radix2 k ->
  (abs x <=? b)%float = true -> fb x k.
Proof.
  intros x b k Fx Fb Eb H. apply fin_bool in Fx. split; [exact Fx|].
  rewrite <- Eb, <- FR_abs. apply leb_FR; auto using fin_abs.
Qed.

Lemma pos_ok_spec : forall x, pos_ok x = true -> fb x 1000.
Proof.
  intros x H. unfold pos_ok in H. apply andb_true_iff in H. destruct H as [H1 H2].
  apply (abs_le_fb x two1000 1000 H1); [apply fin_bool; reflexivity|apply FR_two1000|exact H2].
Qed.
Lemma vel_ok_spec : forall x, vel_ok x = true -> fb x 100.
Proof.
  intros x H. unfold vel_ok in H. apply andb_true_iff in H. destruct H as [H1 H2].
  apply (abs_le_fb x two100 100 H1); [apply fin_bool; reflexivity|apply FR_two100|exact H2].
Qed.
Lemma dt_ok_spec : forall x, dt_ok x = true -> fb x 100.
Proof. exact vel_ok_spec. Qed.
Lemma dx_ok_spec : forall x, dx_ok x = true -> dxb x.
Proof.
  intros x H. unfold dx_ok in H. apply andb_true_iff in H. destruct H as [H1 H2]. apply fin_bool in H1.
  split; [exact H1|]. rewrite <- FR_twom100, <- FR_abs. apply leb_FR; auto using fin_abs. apply fin_bool. reflexivity.
Qed.

Lemma step_ok_spec : forall x dt dx lo hi us, step_ok x dt dx lo hi us = true ->
  fb x 1000 /\ fb dt 100 /\ dxb dx /\ fin lo /\ fin hi /\ Forall (fun u => fb u 100) us.
Proof.
  intros x dt dx lo hi us H. unfold step_ok in H. rewrite !andb_true_iff in H.
  destruct H as (((((H1 & H2) & H3) & H4) & H5) & H6).
  split; [apply pos_ok_spec; exact H1|]. split; [apply dt_ok_spec; exact H2|].
  split; [apply dx_ok_spec; exact H3|]. split; [apply fin_bool; exact H4|]. split; [apply fin_bool; exact H5|].
  rewrite forallb_forall in H6. apply Forall_forall. intros u Hu. apply vel_ok_spec, H6, Hu.
Qed.

Lemma fb_half : fb 0.5 0.
Proof. split; [apply fin_half|]. rewrite FR_half. simpl. rewrite Rabs_pos_eq; lra. Qed.

Definition maxabs4 (a b c d : R) : R := Rmax (Rabs a) (Rmax (Rabs b) (Rmax (Rabs c) (Rabs d))).
Lemma maxabs4_ge : forall a b c d, let m := maxabs4 a b c d in
  Rabs a <= m /\ Rabs b <= m /\ Rabs c <= m /\ Rabs d <= m.
Proof.
  intros. unfold m, maxabs4.
  pose proof (Rmax_l (Rabs c) (Rabs d)). pose proof (Rmax_r (Rabs c) (Rabs d)). set (m3 := Rmax (Rabs c) (Rabs d)) in *.
  pose proof (Rmax_l (Rabs b) m3). pose proof (Rmax_r (Rabs b) m3). set (m2 := Rmax (Rabs b) m3) in *.
  pose proof (Rmax_l (Rabs a) m2). pose proof (Rmax_r (Rabs a) m2). repeat split; lra.
Qed.

(** EF: the final position is x + u1 dt/dx up to [move_bound] *)
Theorem ef_f_checked : forall x dt dx lo hi u1, step_ok x dt dx lo hi [u1] = true ->
  let r := snd (ef_f x dt dx lo hi u1) in
  fst (ef_f x dt dx lo hi u1) = [] /\ fin r /\
  Rabs (FR r - (FR x + FR u1 * FR dt / FR dx)) <= move_bound (FR x) (FR u1) (FR dt) (FR dx).
Proof.
  intros x dt dx lo hi u1 H r. apply step_ok_spec in H. destruct H as (Hx & Hdt & Hdx & Fl & Fh & Hu).
  inversion Hu as [|? ? Hu1 _]; subst. split; [reflexivity|].
  apply final_f_error; auto. apply (fb_weaken _ 100); [assumption|lia].
Qed.
Print Assumptions ef_f_checked.

(** RK2: the forcing is asked at the clipped midpoint x + (1/2) u1 dt/dx up to [stage_bound], and the final
    position is x + u2 dt/dx up to [move_bound] *)
Theorem rk2_f_checked : forall x dt dx lo hi u1 u2, step_ok x dt dx lo hi [u1; u2] = true ->
  let r := rk2_f x dt dx lo hi u1 u2 in
  exists x1, fst r = [x1] /\ fin x1 /\
  Rabs (FR x1 - clip_R (FR x + / 2 * FR u1 * (FR dt / FR dx)) (FR lo) (FR hi))
    <= stage_bound (FR x) (/ 2) (FR u1) (FR dt) (FR dx) /\
  (FR lo <= FR hi -> FR lo <= FR x1 <= FR hi) /\
  fin (snd r) /\
  Rabs (FR (snd r) - (FR x + FR u2 * FR dt / FR dx)) <= move_bound (FR x) (FR u2) (FR dt) (FR dx).
Proof.
  intros x dt dx lo hi u1 u2 H r. apply step_ok_spec in H. destruct H as (Hx & Hdt & Hdx & Fl & Fh & Hu).
  inversion Hu as [|? ? Hu1 Hu']; subst. inversion Hu' as [|? ? Hu2 _]; subst.
  destruct (stage_f_error x 0.5 u1 dt dx lo hi Hx fb_half Hu1 Hdt Hdx Fl Fh) as (S1 & S2 & S3 & _).
  rewrite FR_half in S2.
  destruct (final_f_error x u2 dt dx Hx (fb_weaken _ 100 102 Hu2 ltac:(lia)) Hdt Hdx) as [Fr Er].
  eexists. split; [reflexivity|]. repeat split; try assumption; apply S3; assumption.
Qed.
Print Assumptions rk2_f_checked.

(** RK4: three clipped stage positions, and the final position x + ((u1 + 2 u2 + 2 u3 + u4) / 6) dt/dx up to
    [rk4_bound] with M = the largest of the four speeds *)
Theorem rk4_f_checked : forall x dt dx lo hi u1 u2 u3 u4, step_ok x dt dx lo hi [u1; u2; u3; u4] = true ->
  let r := rk4_f x dt dx lo hi u1 u2 u3 u4 in
  let stage_ok (s : pfloat) (f u : R) :=
    fin s /\
    Rabs (FR s - clip_R (FR x + f * u * (FR dt / FR dx)) (FR lo) (FR hi)) <= stage_bound (FR x) f u (FR dt) (FR dx) /\
    (FR lo <= FR hi -> FR lo <= FR s <= FR hi) in
  exists x1 x2 x3, fst r = [x1; x2; x3] /\
  stage_ok x1 (/ 2) (FR u1) /\ stage_ok x2 (/ 2) (FR u2) /\ stage_ok x3 1 (FR u3) /\
  fin (snd r) /\
  Rabs (FR (snd r) - (FR x + rk4avg_R (FR u1) (FR u2) (FR u3) (FR u4) * FR dt / FR dx))
    <= rk4_bound (FR x) (maxabs4 (FR u1) (FR u2) (FR u3) (FR u4)) (FR dt) (FR dx).
Proof.
  intros x dt dx lo hi u1 u2 u3 u4 H r stage_ok. apply step_ok_spec in H. destruct H as (Hx & Hdt & Hdx & Fl & Fh & Hu).
  inversion Hu as [|? ? Hu1 Hu']; subst. inversion Hu' as [|? ? Hu2 Hu'']; subst.
  inversion Hu'' as [|? ? Hu3 Hu''']; subst. inversion Hu''' as [|? ? Hu4 _]; subst.
  destruct (stage_f_error x 0.5 u1 dt dx lo hi Hx fb_half Hu1 Hdt Hdx Fl Fh) as (A1 & A2 & A3 & _).
  destruct (stage_f_error x 0.5 u2 dt dx lo hi Hx fb_half Hu2 Hdt Hdx Fl Fh) as (B1 & B2 & B3 & _).
  destruct (stage_f_error x 1 u3 dt dx lo hi Hx (proj1 fb_one) Hu3 Hdt Hdx Fl Fh) as (C1 & C2 & C3 & _).
  rewrite FR_half in A2, B2. rewrite FR_1 in C2.
  destruct (maxabs4_ge (FR u1) (FR u2) (FR u3) (FR u4)) as (M1 & M2 & M3 & M4).
  destruct (rk4_final_error x dt dx u1 u2 u3 u4 _ Hx Hdt Hdx Hu1 Hu2 Hu3 Hu4 M1 M2 M3 M4) as [Fr Er].
  eexists. eexists. eexists. split; [reflexivity|].
  unfold stage_ok. repeat split; try assumption; try (apply A3; assumption); try (apply B3; assumption); apply C3; assumption.
Qed.
Print Assumptions rk4_f_checked.

(** * T4 (c), sharp: RK4avg of four equal velocities is off by at most ONE unit in the last place *)

(** integer multiples of a power of two with at most 53 significant bits are representable *)
Lemma fmt_int_mult : forall (j k : Z), (Z.abs j <= 2 ^ 53)%Z -> (-1074 <= k)%Z -> fmt (IZR j * bpow radix2 k).
Proof.
  intros j k Hj Hk. destruct (Z.eq_dec (Z.abs j) (2 ^ 53)) as [E|E].
  - assert (D : j = (2 ^ 53)%Z \/ j = (- 2 ^ 53)%Z) by lia.
    destruct D as [-> | ->].
    + change (IZR (2 ^ 53)) with (bpow radix2 53). rewrite <- bpow_plus. apply fmt_bpow. lia.
    + rewrite opp_IZR. change (IZR (2 ^ 53)) with (bpow radix2 53).
      replace (- bpow radix2 53 * bpow radix2 k) with (- (bpow radix2 53 * bpow radix2 k)) by ring.
      apply fmt_opp. rewrite <- bpow_plus. apply fmt_bpow. lia.
  - apply generic_format_FLT. exists (Float radix2 j k); simpl; [unfold F2R; simpl; ring | lia | lia].
Qed.

(** a representable number that is large enough is an integer multiple of bpow k *)
Lemma fmt_is_mult : forall y k, fmt y -> (-1074 <= k)%Z -> (k = (-1074)%Z \/ bpow radix2 (k + 52) <= Rabs y) ->
  exists n : Z, y = IZR n * bpow radix2 k.
Proof.
  intros y k Fy Hk Hy. unfold fmt, generic_format in Fy.
  set (c := cexp radix2 fexp64 y) in *.
  assert (Hc : (k <= c)%Z).
  { unfold c, cexp, fexp64, FLT_exp. destruct Hy as [-> | Hy]; [lia|].
    assert (k + 53 <= mag radix2 y)%Z; [|lia].
    apply mag_ge_bpow. replace (k + 53 - 1)%Z with (k + 52)%Z by ring. exact Hy. }
  exists (Ztrunc (scaled_mantissa radix2 fexp64 y) * 2 ^ (c - k))%Z.
  rewrite Fy at 1. unfold F2R. simpl. rewrite mult_IZR. rewrite (IZR_Zpower radix2) by lia.
  rewrite Rmult_assoc, <- bpow_plus. f_equal. f_equal. ring.
Qed.

Lemma rnd_nearest : forall z g, fmt g -> Rabs (rnd z - z) <= Rabs (g - z).
Proof.
  intros z g Fg. destruct (round_N_pt radix2 fexp64 (fun t => negb (Z.even t)) z) as [_ H]. apply H. exact Fg.
Qed.
Lemma rnd_ge_fmt : forall z g, fmt g -> g <= z -> g <= rnd z.
Proof. intros. apply round_ge_generic; auto with typeclass_instances. Qed.

(** rounding an integer multiple z * 2^e, z >= 2^52: the result is again an integer multiple S * 2^e, at least as
    close to z as any j * 2^t (|j| <= 2^53), and a multiple of 2^t as soon as z >= 2^(52 + t) *)
Lemma round_int : forall e z, (-1074 <= e)%Z -> (2 ^ 52 <= z)%Z ->
  exists S : Z, rnd (IZR z * bpow radix2 e) = IZR S * bpow radix2 e /\
    (forall t j, (0 <= t)%Z -> (Z.abs j <= 2 ^ 53)%Z -> (Z.abs (S - z) <= Z.abs (2 ^ t * j - z))%Z) /\
    (forall t, (0 <= t)%Z -> (2 ^ (52 + t) <= z)%Z -> exists S', S = (2 ^ t * S')%Z).
Proof.
  intros e z He Hz. set (q := bpow radix2 e). assert (Hq : 0 < q) by apply bpow_gt_0.
  assert (Lo : forall t, (0 <= t)%Z -> (2 ^ (52 + t) <= z)%Z -> bpow radix2 (e + t + 52) <= rnd (IZR z * q)).
  { intros t Ht Hzt. apply rnd_ge_fmt; [apply fmt_bpow; lia|].
    replace (e + t + 52)%Z with ((52 + t) + e)%Z by ring. rewrite bpow_plus. fold q.
    apply Rmult_le_compat_r; [lra|]. rewrite <- (IZR_Zpower radix2) by lia. apply IZR_le. exact Hzt. }
  assert (L0 : bpow radix2 (e + 52) <= rnd (IZR z * q)).
  { replace (e + 52)%Z with (e + 0 + 52)%Z by ring. apply Lo; [lia|]. replace (52 + 0)%Z with 52%Z by ring. exact Hz. }
  destruct (fmt_is_mult (rnd (IZR z * q)) e (fmt_rnd _) He) as [S ES].
  { right. rewrite Rabs_pos_eq; [exact L0|]. pose proof (bpow_gt_0 radix2 (e + 52)). lra. }
  exists S. fold q in ES. split; [exact ES|]. split.
  - intros t j Ht Hj.
    assert (Fg : fmt (IZR j * bpow radix2 (e + t))) by (apply fmt_int_mult; [exact Hj|lia]).
    pose proof (rnd_nearest (IZR z * q) _ Fg) as N. rewrite ES in N.
    replace (IZR S * q - IZR z * q) with (IZR (S - z) * q) in N by (rewrite minus_IZR; ring).
    replace (IZR j * bpow radix2 (e + t) - IZR z * q) with (IZR (2 ^ t * j - z) * q) in N.
    2:{ rewrite minus_IZR, mult_IZR, (IZR_Zpower radix2) by lia. rewrite bpow_plus. fold q. ring. }
    rewrite !Rabs_mult, (Rabs_pos_eq q) in N by lra.
    apply Rmult_le_reg_r in N; [|exact Hq]. rewrite <- !abs_IZR in N. apply le_IZR. exact N.
  - intros t Ht Hzt.
    destruct (fmt_is_mult (rnd (IZR z * q)) (e + t) (fmt_rnd _) ltac:(lia)) as [S' ES'].
    { right. rewrite Rabs_pos_eq; [apply Lo; assumption|]. pose proof (bpow_gt_0 radix2 (e + 52)). lra. }
    exists S'. apply eq_IZR. apply (Rmult_eq_reg_r q); [|lra].
    rewrite <- ES, ES'. rewrite mult_IZR, (IZR_Zpower radix2) by lia. rewrite bpow_plus. fold q. ring.
Qed.

Lemma cand2 : forall z : Z, exists j, (Z.abs (2 * j - z) <= 1)%Z.
Proof. intros z. exists ((z + 1) / 2)%Z. pose proof (Z.div_mod (z + 1) 2 ltac:(lia)). pose proof (Z.mod_pos_bound (z + 1) 2 ltac:(lia)). lia. Qed.
Lemma cand4 : forall z : Z, exists j, (Z.abs (4 * j - z) <= 2)%Z.
Proof. intros z. exists ((z + 2) / 4)%Z. pose proof (Z.div_mod (z + 2) 4 ltac:(lia)). pose proof (Z.mod_pos_bound (z + 2) 4 ltac:(lia)). lia. Qed.
Lemma cand8 : forall z : Z, exists j, (Z.abs (8 * j - z) <= 4)%Z.
Proof. intros z. exists ((z + 4) / 8)%Z. pose proof (Z.div_mod (z + 4) 8 ltac:(lia)). pose proof (Z.mod_pos_bound (z + 4) 8 ltac:(lia)). lia. Qed.
(** the roundings of 3m (to a multiple of 4) and of 8k + m (to a multiple of 8) cannot both be bad *)
Lemma cand48 : forall m : Z, exists j1 j3, (Z.abs (4 * j1 - 3 * m) + Z.abs (8 * j3 - m) <= 4)%Z.
Proof.
  intros m. exists ((3 * m + 2) / 4)%Z, ((m + 4) / 8)%Z.
  pose proof (Z.div_mod (3 * m + 2) 4 ltac:(lia)). pose proof (Z.mod_pos_bound (3 * m + 2) 4 ltac:(lia)).
  pose proof (Z.div_mod (m + 4) 8 ltac:(lia)). pose proof (Z.mod_pos_bound (m + 4) 8 ltac:(lia)).
  pose proof (Z.div_mod m 8 ltac:(lia)). pose proof (Z.mod_pos_bound m 8 ltac:(lia)).
  set (a := ((3 * m + 2) / 4)%Z) in *. set (b := ((m + 4) / 8)%Z) in *. set (c := (m / 8)%Z) in *.
  set (r1 := ((3 * m + 2) mod 4)%Z) in *. set (r2 := ((m + 4) mod 8)%Z) in *. set (r := (m mod 8)%Z) in *.
  assert (r = 0 \/ r = 1 \/ r = 2 \/ r = 3 \/ r = 4 \/ r = 5 \/ r = 6 \/ r = 7)%Z by lia.
  lia.
Qed.

(** the three additions, on the integer mantissa m of u = m * 2^e: the sum S3 differs from 6 m by at most 8
    (by at most 5 when 6 m + 8 <= 2^55) *)
Lemma sum_equal_int : forall e m, (-1074 <= e)%Z -> (2 ^ 52 <= m < 2 ^ 53)%Z ->
  let q := bpow radix2 e in let u := IZR m * q in
  exists S3 : Z, rnd (rnd (rnd (u + 2 * u) + 2 * u) + u) = IZR S3 * q /\
    (Z.abs (S3 - 6 * m) <= 8)%Z /\ ((6 * m + 8 <= 2 ^ 55)%Z -> (Z.abs (S3 - 6 * m) <= 5)%Z).
Proof.
  intros e m He Hm q u.
  change (2 ^ 52)%Z with 4503599627370496%Z in *. change (2 ^ 53)%Z with 9007199254740992%Z in *.
  destruct (round_int e (3 * m) He ltac:(change (2 ^ 52)%Z with 4503599627370496%Z; lia)) as (S1 & E1 & N1 & M1).
  destruct (cand4 (3 * m)) as [a1 Ha1].
  pose proof (N1 2%Z a1 ltac:(lia) ltac:(change (2 ^ 53)%Z with 9007199254740992%Z; lia)) as B1.
  change (2 ^ 2)%Z with 4%Z in B1.
  destruct (round_int e (S1 + 2 * m) He ltac:(change (2 ^ 52)%Z with 4503599627370496%Z; lia)) as (S2 & E2 & N2 & M2).
  destruct (cand8 (S1 + 2 * m)) as [a2 Ha2].
  pose proof (N2 3%Z a2 ltac:(lia) ltac:(change (2 ^ 53)%Z with 9007199254740992%Z; lia)) as B2.
  change (2 ^ 3)%Z with 8%Z in B2.
  destruct (round_int e (S2 + m) He ltac:(change (2 ^ 52)%Z with 4503599627370496%Z; lia)) as (S3 & E3 & N3 & M3).
  destruct (cand8 (S2 + m)) as [a3 Ha3].
  pose proof (N3 3%Z a3 ltac:(lia) ltac:(change (2 ^ 53)%Z with 9007199254740992%Z; lia)) as B3.
  change (2 ^ 3)%Z with 8%Z in B3.
  exists S3. split; [|split].
  - replace (u + 2 * u) with (IZR (3 * m) * q) by (unfold u; rewrite mult_IZR; ring).
    fold q in E1, E2, E3. rewrite E1.
    replace (IZR S1 * q + 2 * u) with (IZR (S1 + 2 * m) * q) by (unfold u; rewrite plus_IZR, mult_IZR; ring).
    rewrite E2.
    replace (IZR S2 * q + u) with (IZR (S2 + m) * q) by (unfold u; rewrite plus_IZR; ring).
    exact E3.
  - destruct (Z_le_gt_dec (2 ^ 55) (S1 + 2 * m)) as [Hb|Hb].
    + destruct (M2 3%Z ltac:(lia) Hb) as [S2' ES2]. change (2 ^ 3)%Z with 8%Z in ES2.
      change (2 ^ 55)%Z with 36028797018963968%Z in Hb.
      destruct (cand48 m) as (j1 & j3 & Hj).
      pose proof (N1 2%Z j1 ltac:(lia) ltac:(change (2 ^ 53)%Z with 9007199254740992%Z; lia)) as C1.
      change (2 ^ 2)%Z with 4%Z in C1.
      pose proof (N3 3%Z (j3 + S2')%Z ltac:(lia) ltac:(change (2 ^ 53)%Z with 9007199254740992%Z; lia)) as C3.
      change (2 ^ 3)%Z with 8%Z in C3.
      replace (8 * (j3 + S2') - (S2 + m))%Z with (8 * j3 - m)%Z in C3 by lia.
      lia.
    + change (2 ^ 55)%Z with 36028797018963968%Z in Hb.
      destruct (cand4 (S1 + 2 * m)) as [b2 Hb2].
      pose proof (N2 2%Z b2 ltac:(lia) ltac:(change (2 ^ 53)%Z with 9007199254740992%Z; lia)) as C2.
      change (2 ^ 2)%Z with 4%Z in C2. lia.
  - intros Hs. change (2 ^ 55)%Z with 36028797018963968%Z in Hs.
    destruct (cand2 (3 * m)) as [b1 Hb1].
    pose proof (N1 1%Z b1 ltac:(lia) ltac:(change (2 ^ 53)%Z with 9007199254740992%Z; lia)) as C1.
    change (2 ^ 1)%Z with 2%Z in C1.
    destruct (cand4 (S1 + 2 * m)) as [b2 Hb2].
    pose proof (N2 2%Z b2 ltac:(lia) ltac:(change (2 ^ 53)%Z with 9007199254740992%Z; lia)) as C2.
    change (2 ^ 2)%Z with 4%Z in C2.
    destruct (cand4 (S2 + m)) as [b3 Hb3].
    pose proof (N3 2%Z b3 ltac:(lia) ltac:(change (2 ^ 53)%Z with 9007199254740992%Z; lia)) as C3.
    change (2 ^ 2)%Z with 4%Z in C3. lia.
Qed.

(** a point at least as close to Y as M - 1, M and M + 1 are, for Y near M *)
Lemma near3_big : forall r Y M, Rabs (r - Y) <= Rabs (M - 1 - Y) -> Rabs (r - Y) <= Rabs (M - Y) ->
  Rabs (r - Y) <= Rabs (M + 1 - Y) -> Rabs (Y - M) <= 4 / 3 -> M - 2 < r < M + 2.
Proof. intros r Y M. unfold Rabs. repeat destruct (Rcase_abs _); lra. Qed.
Lemma near3_small : forall r Y M, Rabs (r - Y) <= Rabs (M - 1 - Y) -> Rabs (r - Y) <= Rabs (M - Y) ->
  Rabs (r - Y) <= Rabs (M + 1 - Y) -> Rabs (Y - M) <= 5 / 6 -> M - 3 / 2 < r < M + 3 / 2.
Proof. intros r Y M. unfold Rabs. repeat destruct (Rcase_abs _); lra. Qed.

Lemma avg_equal_pos : forall e m, (-1074 <= e)%Z -> (2 ^ 52 <= m < 2 ^ 53)%Z ->
  let q := bpow radix2 e in let u := IZR m * q in
  Rabs (rk4avg_r u u u u - u) <= q.
Proof.
  intros e m He Hm q u. assert (Hq : 0 < q) by apply bpow_gt_0.
  assert (Fu : fmt u) by (apply fmt_int_mult; lia).
  unfold rk4avg_r. rewrite (rnd_id (2 * u)) by (apply fmt_double; exact Fu).
  destruct (sum_equal_int e m He Hm) as (S3 & E3 & H8 & H5). fold q u in E3. rewrite E3.
  change (2 ^ 52)%Z with 4503599627370496%Z in *. change (2 ^ 53)%Z with 9007199254740992%Z in *.
  change (2 ^ 55)%Z with 36028797018963968%Z in *.
  set (Y := IZR S3 / 6). replace (IZR S3 * q / 6) with (Y * q) by (unfold Y; field).
  assert (Cand : forall c : Z, (Z.abs c <= 9007199254740992)%Z -> forall rho, rnd (Y * q) = rho * q ->
                 Rabs (rho - Y) <= Rabs (IZR c - Y)).
  { intros c Hc rho Er.
    pose proof (rnd_nearest (Y * q) (IZR c * q) ltac:(apply fmt_int_mult; [change (2 ^ 53)%Z with 9007199254740992%Z; exact Hc|lia])) as N.
    rewrite Er in N. replace (rho * q - Y * q) with ((rho - Y) * q) in N by ring.
    replace (IZR c * q - Y * q) with ((IZR c - Y) * q) in N by ring.
    rewrite !Rabs_mult, (Rabs_pos_eq q) in N by lra. apply Rmult_le_reg_r in N; assumption. }
  assert (HY8 : Rabs (Y - IZR m) <= 4 / 3).
  { unfold Y. replace (IZR S3 / 6 - IZR m) with (IZR (S3 - 6 * m) / 6) by (rewrite minus_IZR, mult_IZR; field).
    unfold Rdiv. rewrite Rabs_mult, (Rabs_pos_eq (/ 6)) by lra. rewrite <- abs_IZR.
    apply IZR_le in H8. lra. }
  destruct (Z_le_gt_dec (6 * m + 8) 36028797018963968) as [Hs|Hb].
  - (* small mantissa: the result may lie in the binade below, where the spacing is q / 2 *)
    specialize (H5 Hs).
    assert (HY5 : Rabs (Y - IZR m) <= 5 / 6).
    { unfold Y. replace (IZR S3 / 6 - IZR m) with (IZR (S3 - 6 * m) / 6) by (rewrite minus_IZR, mult_IZR; field).
      unfold Rdiv. rewrite Rabs_mult, (Rabs_pos_eq (/ 6)) by lra. rewrite <- abs_IZR.
      apply IZR_le in H5. lra. }
    assert (HN : exists N : Z, rnd (Y * q) = IZR N / 2 * q).
    { destruct (Z.eq_dec e (-1074)) as [Ee|Ee].
      - destruct (fmt_is_mult (rnd (Y * q)) e (fmt_rnd _) He (or_introl Ee)) as [R ER].
        exists (2 * R)%Z. rewrite ER. fold q. rewrite mult_IZR. field.
      - destruct (fmt_is_mult (rnd (Y * q)) (e - 1) (fmt_rnd _) ltac:(lia)) as [N EN].
        { right. replace (e - 1 + 52)%Z with (51 + e)%Z by ring.
          assert (L : bpow radix2 (51 + e) <= rnd (Y * q)).
          { apply rnd_ge_fmt; [apply fmt_bpow; lia|]. rewrite bpow_plus. fold q.
            apply Rmult_le_compat_r; [lra|]. apply Rabs_le_inv in HY5.
            assert (IZR 4503599627370496 <= IZR m) by (apply IZR_le; lia).
            change (bpow radix2 51) with (IZR 2251799813685248). lra. }
          rewrite Rabs_pos_eq; [exact L|]. pose proof (bpow_gt_0 radix2 (51 + e)). lra. }
        exists N. rewrite EN. unfold Zminus. rewrite bpow_plus. fold q. change (bpow radix2 (- (1))) with (/ 2). field. }
    destruct HN as [N EN].
    pose proof (Cand (m - 1)%Z ltac:(lia) _ EN) as C1. pose proof (Cand m ltac:(lia) _ EN) as C2.
    pose proof (Cand (m + 1)%Z ltac:(lia) _ EN) as C3.
    rewrite minus_IZR in C1. rewrite plus_IZR in C3.
    destruct (near3_small _ _ _ C1 C2 C3 HY5) as [L1 L2].
    assert (HNm : (Z.abs (N - 2 * m) <= 2)%Z).
    { assert (IZR (2 * m - 3) < IZR N) by (rewrite minus_IZR, mult_IZR; lra).
      assert (IZR N < IZR (2 * m + 3)) by (rewrite plus_IZR, mult_IZR; lra).
      apply lt_IZR in H, H0. lia. }
    rewrite EN. replace (IZR N / 2 * q - u) with (IZR (N - 2 * m) / 2 * q) by (unfold u; rewrite minus_IZR, mult_IZR; field).
    rewrite Rabs_mult, (Rabs_pos_eq q) by lra. unfold Rdiv. rewrite Rabs_mult, (Rabs_pos_eq (/ 2)) by lra.
    rewrite <- abs_IZR. apply IZR_le in HNm. nra.
  - (* the result stays in the binade of u: an integer multiple of q *)
    destruct (fmt_is_mult (rnd (Y * q)) e (fmt_rnd _) He) as [R ER].
    { right. replace (e + 52)%Z with (52 + e)%Z by ring.
      assert (L : bpow radix2 (52 + e) <= rnd (Y * q)).
      { apply rnd_ge_fmt; [apply fmt_bpow; lia|]. rewrite bpow_plus. fold q.
        apply Rmult_le_compat_r; [lra|]. apply Rabs_le_inv in HY8.
        assert (IZR 4503599627370498 <= IZR m) by (apply IZR_le; lia).
        change (bpow radix2 52) with (IZR 4503599627370496). lra. }
      rewrite Rabs_pos_eq; [exact L|]. pose proof (bpow_gt_0 radix2 (52 + e)). lra. }
    fold q in ER.
    pose proof (Cand (m - 1)%Z ltac:(lia) _ ER) as C1. pose proof (Cand m ltac:(lia) _ ER) as C2.
    pose proof (Cand (m + 1)%Z ltac:(lia) _ ER) as C3.
    rewrite minus_IZR in C1. rewrite plus_IZR in C3.
    destruct (near3_big _ _ _ C1 C2 C3 HY8) as [L1 L2].
    assert (HRm : (Z.abs (R - m) <= 1)%Z).
    { assert (IZR (m - 2) < IZR R) by (rewrite minus_IZR; lra).
      assert (IZR R < IZR (m + 2)) by (rewrite plus_IZR; lra).
      apply lt_IZR in H, H0. lia. }
    rewrite ER. replace (IZR R * q - u) with (IZR (R - m) * q) by (unfold u; rewrite minus_IZR; ring).
    rewrite Rabs_mult, (Rabs_pos_eq q) by lra. rewrite <- abs_IZR. apply IZR_le in HRm. nra.
Qed.

Lemma rnd_opp : forall x, rnd (- x) = - rnd x.
Proof. intros. apply round_NE_opp. Qed.

Lemma rk4avg_r_opp : forall v, rk4avg_r (- v) (- v) (- v) (- v) = - rk4avg_r v v v v.
Proof.
  intros v. unfold rk4avg_r.
  replace (2 * - v) with (- (2 * v)) by ring. rewrite rnd_opp.
  replace (- v + - rnd (2 * v)) with (- (v + rnd (2 * v))) by ring. rewrite rnd_opp.
  replace (- rnd (v + rnd (2 * v)) + - rnd (2 * v)) with (- (rnd (v + rnd (2 * v)) + rnd (2 * v))) by ring. rewrite rnd_opp.
  replace (- rnd (rnd (v + rnd (2 * v)) + rnd (2 * v)) + - v) with (- (rnd (rnd (v + rnd (2 * v)) + rnd (2 * v)) + v)) by ring.
  rewrite rnd_opp.
  replace (- rnd (rnd (rnd (v + rnd (2 * v)) + rnd (2 * v)) + v) / 6) with (- (rnd (rnd (rnd (v + rnd (2 * v)) + rnd (2 * v)) + v) / 6)) by field.
  apply rnd_opp.
Qed.

(** every representable x with |x| >= 2^-1022 is m * 2^e with 2^52 <= |m| < 2^53, and ulp x = 2^e *)
Lemma normal_decomp : forall x, fmt x -> bpow radix2 (-1022) <= Rabs x ->
  exists (m e : Z), x = IZR m * bpow radix2 e /\ (2 ^ 52 <= Z.abs m < 2 ^ 53)%Z /\ (-1074 <= e)%Z /\
    ulp radix2 fexp64 x = bpow radix2 e.
Proof.
  intros x Fx Hx.
  assert (Hx0 : x <> 0).
  { intros E. rewrite E, Rabs_R0 in Hx. pose proof (bpow_gt_0 radix2 (-1022)). lra. }
  assert (Hmag : (-1021 <= mag radix2 x)%Z).
  { apply mag_ge_bpow. replace (-1021 - 1)%Z with (-1022)%Z by ring. exact Hx. }
  set (e := (mag radix2 x - 53)%Z).
  assert (Ec : cexp radix2 fexp64 x = e) by (unfold cexp, fexp64, FLT_exp, e; lia).
  set (m := Ztrunc (scaled_mantissa radix2 fexp64 x)).
  assert (Ex : x = IZR m * bpow radix2 e).
  { unfold fmt, generic_format in Fx. rewrite Ec in Fx. exact Fx. }
  exists m, e. split; [exact Ex|]. split; [|split; [unfold e; lia|]].
  - destruct (mag radix2 x) as [ex Hex]. simpl in e, Hmag. specialize (Hex Hx0).
    rewrite Ex in Hex. rewrite Rabs_mult, (Rabs_pos_eq (bpow radix2 e)) in Hex by apply bpow_ge_0.
    rewrite <- abs_IZR in Hex. destruct Hex as [H1 H2].
    assert (Hq : 0 < bpow radix2 e) by apply bpow_gt_0.
    replace (ex - 1)%Z with (52 + e)%Z in H1 by (unfold e; ring).
    replace ex with (53 + e)%Z in H2 by (unfold e; ring).
    rewrite bpow_plus in H1, H2.
    apply Rmult_le_reg_r in H1; [|exact Hq]. apply Rmult_lt_reg_r in H2; [|exact Hq].
    change (bpow radix2 52) with (IZR (2 ^ 52)) in H1. change (bpow radix2 53) with (IZR (2 ^ 53)) in H2.
    apply le_IZR in H1. apply lt_IZR in H2. split; assumption.
  - rewrite ulp_neq_0 by exact Hx0. rewrite Ec. reflexivity.
Qed.

Theorem rk4avg_f_equal_ulp : forall u, fb u 100 -> bpow radix2 (-1022) <= Rabs (FR u) ->
  Rabs (FR (rk4avg_f u u u u) - FR u) <= ulp radix2 fexp64 (FR u).
Proof.
  intros u Hu Hn. destruct (rk4avg_f_rounded u u u u Hu Hu Hu Hu) as [_ Er]. rewrite Er.
  destruct (normal_decomp (FR u) (fmt_FR u) Hn) as (m & e & Ex & Hm & He & Eu). rewrite Eu, Ex.
  destruct (Z_le_gt_dec 0 m) as [Hp|Hneg].
  - apply (avg_equal_pos e m He). lia.
  - replace (IZR m * bpow radix2 e) with (- (IZR (- m) * bpow radix2 e)) by (rewrite opp_IZR; ring).
    rewrite rk4avg_r_opp.
    replace (- rk4avg_r (IZR (- m) * bpow radix2 e) (IZR (- m) * bpow radix2 e) (IZR (- m) * bpow radix2 e) (IZR (- m) * bpow radix2 e)
             - - (IZR (- m) * bpow radix2 e))
      with (- (rk4avg_r (IZR (- m) * bpow radix2 e) (IZR (- m) * bpow radix2 e) (IZR (- m) * bpow radix2 e) (IZR (- m) * bpow radix2 e)
               - IZR (- m) * bpow radix2 e)) by ring.
    rewrite Rabs_Ropp. apply (avg_equal_pos e (- m)%Z He). lia.
Qed.
Print Assumptions rk4avg_f_equal_ulp.

(** * Non-vacuity and nasty inputs (all by [vm_compute] on the executable model) *)
#[local] Set Warnings "-inexact-float".
Local Open Scope float_scope.

(** the hypotheses hold for an ordinary step, for x = 2^40 with a tiny velocity, at the edge of the ranges, and for
    subnormal products *)
Example ex_step_ok :
  step_ok 1 60 100 0.01 9.99 [0.5; 0.25; 0.3; 0.1] = true /\
  step_ok 0x1p40 600 800 0.01 0x1p41 [1e-300; -1e-300; 0x1p-1074; 0] = true /\
  step_ok (-0x1p1000) 0x1p100 0x1p-100 (-0x1p1000) 0x1p1000 [0x1p100; -0x1p100; 0x1p100; -0x1p100] = true /\
  step_ok 0 0x1p-30 0x1p900 0 1 [0x1p-1060; 0x1.8p-1070] = true.
Proof. vm_compute. repeat split; reflexivity. Qed.
(** ... and fail for NaN, infinite or out-of-range inputs, and for dx = 0 *)
Example ex_step_not_ok :
  step_ok nan 60 100 0 1 [0] = false /\ step_ok 1 60 0 0 1 [0] = false /\ step_ok 1 60 100 0 1 [infinity] = false /\
  step_ok 1 60 0x1p-101 0 1 [0] = false /\ step_ok 1 0x1.0000000000001p100 100 0 1 [0] = false.
Proof. vm_compute. repeat split; reflexivity. Qed.

(** the theorems apply to concrete inputs: RK4 from x = 2^40 (where one ulp is 2^-12) *)
Example ex_rk4_big_x :
  let r := rk4_f 0x1p40 600 800 0.01 0x1p41 0.5 0.25 0.3 0.1 in
  List.map bits_of_float (fst r) = List.map bits_of_float [0x1.00000000003p40; 0x1.0000000000180p40; 0x1.000000000039ap40]
  /\ bits_of_float (snd r) = bits_of_float 0x1.0000000000366p40.
Proof. vm_compute. split; reflexivity. Qed.
Local Close Scope float_scope.
Example ex_rk4_big_x_bound :
  let r := rk4_f 0x1p40 600 800 0.01 0x1p41 0.5 0.25 0.3 0.1 in
  Rabs (FR (snd r) - (FR 0x1p40 + rk4avg_R (FR 0.5) (FR 0.25) (FR 0.3) (FR 0.1) * FR 600 / FR 800))
    <= rk4_bound (FR 0x1p40) (maxabs4 (FR 0.5) (FR 0.25) (FR 0.3) (FR 0.1)) (FR 600) (FR 800).
Proof.
  intros r.
  destruct (rk4_f_checked 0x1p40 600 800 0.01 0x1p41 0.5 0.25 0.3 0.1 ltac:(vm_compute; reflexivity))
    as (x1 & x2 & x3 & _ & _ & _ & _ & _ & E). exact E.
Qed.
Local Open Scope float_scope.

(** clip exactly at the bounds: a position ON a bound is unchanged, one ulp outside comes back to the bound *)
Example ex_clip_bounds :
  same_bits (clip_f 9.99 0.01 9.99) 9.99 = true /\ same_bits (clip_f 0.01 0.01 9.99) 0.01 = true /\
  same_bits (clip_f 0x1.3fae147ae147cp3 0.01 9.99) 9.99 = true /\       (* 9.99 + 1 ulp *)
  same_bits (clip_f 0x1.47ae147ae147ap-7 0.01 9.99) 0.01 = true /\     (* 0.01 - 1 ulp *)
  same_bits (clip_f infinity 0.01 9.99) 9.99 = true /\ same_bits (clip_f neg_infinity 0.01 9.99) 0.01 = true /\
  PrimFloat.is_nan (clip_f nan 0.01 9.99) = true.
Proof. vm_compute. repeat split; reflexivity. Qed.
(** a box turned inside out (lo > hi): everything lands on lo *)
Example ex_clip_reversed :
  same_bits (clip_f 5 9 1) 9 = true /\ same_bits (clip_f 0 9 1) 9 = true /\ same_bits (clip_f 20 9 1) 9 = true.
Proof. vm_compute. repeat split; reflexivity. Qed.

(** zero velocity: x is unchanged bit for bit, whatever the signs -- except x = -0.0, which becomes +0.0 when
    dt / dx > 0 and stays -0.0 when dt / dx < 0 *)
Example ex_zero_velocity :
  same_bits (final_f 0x1p40 0 600 800) 0x1p40 = true /\ same_bits (final_f 0x1p-1074 (-0) 600 (-800)) 0x1p-1074 = true /\
  same_bits (final_f 0 (-0) 600 (-800)) 0 = true /\
  same_bits (final_f (-0) 0 600 800) 0 = true /\ same_bits (final_f (-0) (-0) 600 800) 0 = true /\
  same_bits (final_f (-0) 0 600 (-800)) (-0) = true /\ same_bits (final_f (-0) (-0) (-600) 800) (-0) = true.
Proof. vm_compute. repeat split; reflexivity. Qed.
(** dx = 0 is excluded for a reason: 0 * dt / 0 is NaN *)
Example ex_zero_dx : PrimFloat.is_nan (final_f 1 0 600 0) = true.
Proof. vm_compute. reflexivity. Qed.

(** tiny velocities at x = 2^40: the displacement is absorbed, x does not move *)
Example ex_tiny_u : same_bits (final_f 0x1p40 1e-300 600 800) 0x1p40 = true /\
                    same_bits (stage_f 0x1p40 0.5 1e-300 (dtdx_f 600 800) 0.01 0x1p41) 0x1p40 = true.
Proof. vm_compute. split; reflexivity. Qed.
(** subnormal products: 0.5 * 2^-1074 rounds to 0 (ties to even), 0.5 * 3 * 2^-1074 to 2 * 2^-1074: the eta term *)
Example ex_subnormal :
  same_bits (0.5 * 0x1p-1074) 0 = true /\ same_bits (0.5 * 0x1.8p-1073) 0x1p-1073 = true /\
  same_bits (rkstep_f 0 0.5 0x1.8p-1073 1) 0x1p-1073 = true /\
  same_bits (move_f 0 0x1p-1074 0.5 1) 0 = true /\ same_bits (move_f 0 0x1p-1074 1 2) 0 = true.
Proof. vm_compute. repeat split; reflexivity. Qed.

(** RK4avg of four equal velocities is NOT always that velocity: u = 0.1 comes back one ulp smaller ... *)
Example rk4avg_equal_not_exact :
  bits_of_float (rk4avg_f 0.1 0.1 0.1 0.1) = (bits_of_float 0.1 - 1)%Z.
Proof. vm_compute. reflexivity. Qed.
(** ... while 1/3, 0.5 and 3 come back exactly; and 1.7e308 overflows in the partial sums *)
Example rk4avg_equal_exact :
  same_bits (rk4avg_f 0.5 0.5 0.5 0.5) 0.5 = true /\ same_bits (rk4avg_f 3 3 3 3) 3 = true /\
  same_bits (rk4avg_f 0x1.5555555555555p-2 0x1.5555555555555p-2 0x1.5555555555555p-2 0x1.5555555555555p-2) 0x1.5555555555555p-2 = true /\
  same_bits (rk4avg_f 1.7e308 1.7e308 1.7e308 1.7e308) infinity = true.
Proof. vm_compute. repeat split; reflexivity. Qed.
