(** Floating-point level of C15 (vertical step with reflecting boundaries) and C12 (level search weight):
    invariants that hold EXACTLY in binary64 -- no rounding delta -- because rounding to nearest is monotone.

    Models: Model/VerticalFloat.v ([reflect_f], [vdisp_f], [vstep_f], [vstep2_f]; [searchsorted_left], [z2s_f],
    [z2s_depth_f]) over Coq's primitive floats.  Notation as in Proofs/TrilinearFloatProofs.v: [FR x] the real value
    of a primitive float, [fin x] finiteness, [rnd] rounding to nearest even in binary64, [fmt] "is a binary64
    number", [u64 = 2^-53], [eta = 2^-1075].

    (A) vertical step  (/repo/ladim/tracker.py, Tracker.update)
    (A1) [reflect_f_correct]: for finite h, |h| <= 2^1000, finite z1, |z1| <= 2^1001:
           FR (reflect_f z1 h) = rnd (reflectR (FR z1) (FR h)),   reflectR x h = h - | |x| - h |
         the float code returns the CORRECTLY ROUNDED exact reflection: the surface reflection z * (-1.0) is exact,
         2.0 * h is exact ([fmt_double], subnormals included), one rounding in 2 h - z.
    (A2) [reflect_f_bounds]: finite h, 0 < h <= 2^1000, finite z1 with -h <= z1 <= 2 h (the ROUNDED displaced depth)
           ==>  reflect_f z1 h is finite and 0 <= FR (reflect_f z1 h) <= FR h   EXACTLY.
         [vstep_f_bounds], [vstep2_f_bounds]: the same for one / two displacements, hypothesis on
         z1 = vdisp_f z w dt, resp. vdisp_f (vdisp_f z w1 dt) w2 dt.
    (A3) hypotheses on the INPUTS: [vdisp_f_range], [vstep_f_in_column]: finite z, w, dt, 0 <= z <= h and
         |FR w * FR dt| <= FR h (the exact product)  ==>  -h <= z1 <= 2 h, hence 0 <= result <= h exactly.
         Two displacements: [vdisp2_f_range] (floats b1, b2 >= the exact products, b1 + b2 <= h and
         rnd (h + b1) + b2 <= 2 h), [vstep2_f_in_column_quarter] (both exact products at most h / 4, h >= 2^-1020).
         |d1| + |d2| <= h alone is NOT enough in binary64: [vstep2_counterexample] (two ties rounded up; the result is
         -2^-51 < 0; the real code returns the same).
    (A4) [vstep_f_still]: a zero displacement (fl(w * dt) = +-0) leaves every finite z in [0, h], z not -0.0,
         unchanged BIT FOR BIT (Leibniz equality of primitive floats); [vstep_f_still_value]: as a real number in
         every case (-0.0 + +0.0 = +0.0 is the one change of bits, [ex_negzero]).
    (A5) [vstep_f_error]: | FR (vstep_f z w dt h) - reflectR (FR z + FR w * FR dt) (FR h) | <= 4 u64 FR h + eta
         (three roundings; the reflection is 1-Lipschitz, [reflectR_lipschitz]).
    (A6) [vstep_f_checked], [vstep2_f_checked] (+ [_bool]): all hypotheses as ONE boolean ([vstep_ok], [vstep2_ok],
         what Corr/VertF.v evaluates).

    (B) level search  (/repo/ladim/ROMS.py, z2s_kernel)
    (B1) [searchsorted_left_count]: the binary search equals the number of leading elements below the key whenever
         the key predicate is monotone along the array; [searchsorted_left_spec]: on a non-decreasing array of
         finite floats, finite key v: k <= N, zr[i] < v for i < k, v <= zr[k] if k < N.
    (B2) [z2s_f_cases]: the three branches; in the middle one zr[K-1] < -z <= zr[K],
         FR A = rnd (rnd (zr[K] + z) / rnd (zr[K] - zr[K-1])), 0 <= numerator <= denominator, 0 < denominator
         (the difference of two distinct floats is never rounded to zero: [rnd_sub_neq_0], gradual underflow).
    (B3) [z2s_f_bounds]: N >= 2 finite levels, |level| <= 2^1022, non-decreasing (strictly increasing in
         particular), finite z  ==>  1 <= K <= N - 1, A finite, 0 <= FR A <= 1   EXACTLY.
         [z2s_f_checked] (+ [_bool]): hypotheses as ONE boolean [z2s_ok].
    (B4) [z2s_weight_error]: | A a + (1 - A) b - (-z) | <= (4 u64 + eta) (b - a) for the FLOAT weight A in exact
         arithmetic; [z2s_depth_error]: the depth computed in binary64 as the interpolation kernel combines the two
         levels ([lerp_f A zr[K-1] zr[K]]) is within 12 u64 M + 3 eta of -z clamped to [zr[0], zr[N-1]]
         (levels bounded by M <= 2^1000), and exactly the end level outside.

    Axioms: the classical reals of the standard library (incl. [classic], functional extensionality) and
    [FloatAxioms]/primitive integers (the specification of the primitive float operations); see the
    [Print Assumptions] outputs. *)
From Coq Require Import ZArith Reals Floats Lra Lia Psatz Bool List Arith.
From Flocq Require Import Core BinarySingleNaN Relative Plus_error Mult_error.
From Flocq Require IEEE754.PrimFloat.
From Ladim Require Import Model.TrilinearFloat Model.VerticalFloat Proofs.TrilinearFloatProofs.
Import Flocq.IEEE754.PrimFloat.
Import ListNotations.
Open Scope R_scope.

#[local] Existing Instance Hprec.
#[local] Existing Instance Hmax.
#[local] Existing Instance fexp64_valid.

(** * Single operations: no overflow below 2^1023, value = rounded exact value *)
Lemma add_R : forall x y, fin x -> fin y -> Rabs (FR x + FR y) <= bpow radix2 1023 ->
  fin (x + y)%float /\ FR (x + y)%float = rnd (FR x + FR y).
Proof.
  intros x y Fx Fy H. unfold fin, FR in *. rewrite add_equiv.
  destruct (no_ovf _ 1023 ltac:(lia) H) as [_ Ho].
  generalize (Bplus_correct prec emax Hprec Hmax mode_NE (Prim2B x) (Prim2B y) Fx Fy). rewrite Ho.
  intros [H1 [H2 _]]. split; assumption.
Qed.

Lemma add_R' : forall x y, fin x -> fin y -> Rabs (rnd (FR x + FR y)) < bpow radix2 1024 ->
  fin (x + y)%float /\ FR (x + y)%float = rnd (FR x + FR y).
Proof.
  intros x y Fx Fy H. unfold fin, FR in *. rewrite add_equiv.
  generalize (Bplus_correct prec emax Hprec Hmax mode_NE (Prim2B x) (Prim2B y) Fx Fy).
  rewrite Rlt_bool_true by exact H.
  intros [H1 [H2 _]]. split; assumption.
Qed.

Lemma sub_R : forall x y, fin x -> fin y -> Rabs (FR x - FR y) <= bpow radix2 1023 ->
  fin (x - y)%float /\ FR (x - y)%float = rnd (FR x - FR y).
Proof.
  intros x y Fx Fy H. unfold fin, FR in *. rewrite sub_equiv.
  destruct (no_ovf _ 1023 ltac:(lia) H) as [_ Ho].
  generalize (Bminus_correct prec emax Hprec Hmax mode_NE (Prim2B x) (Prim2B y) Fx Fy). rewrite Ho.
  intros [H1 [H2 _]]. split; assumption.
Qed.

Lemma mul_R : forall x y, fin x -> fin y -> Rabs (FR x * FR y) <= bpow radix2 1023 ->
  fin (x * y)%float /\ FR (x * y)%float = rnd (FR x * FR y).
Proof.
  intros x y Fx Fy H. unfold fin, FR in *. rewrite mul_equiv.
  destruct (no_ovf _ 1023 ltac:(lia) H) as [_ Ho].
  generalize (Bmult_correct prec emax Hprec Hmax mode_NE (Prim2B x) (Prim2B y)). rewrite Ho.
  intros [H1 [H2 _]]. rewrite H1, H2, Fx, Fy. split; reflexivity.
Qed.

Lemma div_R : forall x y, fin x -> fin y -> FR y <> 0 -> Rabs (FR x / FR y) <= bpow radix2 1023 ->
  fin (x / y)%float /\ FR (x / y)%float = rnd (FR x / FR y).
Proof.
  intros x y Fx Fy Hy H. unfold fin, FR in *. rewrite div_equiv.
  destruct (no_ovf _ 1023 ltac:(lia) H) as [_ Ho].
  generalize (Bdiv_correct prec emax Hprec Hmax mode_NE (Prim2B x) (Prim2B y) Hy). rewrite Ho.
  intros [H1 [H2 _]]. rewrite H1, H2, Fx. split; reflexivity.
Qed.

Lemma fin_opp : forall x, fin x -> fin (- x)%float.
Proof. intros x H. unfold fin. rewrite opp_equiv, is_finite_Bopp. exact H. Qed.
Lemma FR_opp : forall x, FR (- x)%float = - FR x.
Proof. intros. unfold FR. rewrite opp_equiv. apply B2R_Bopp. Qed.

Lemma ltb_FR_false : forall x y, fin x -> fin y -> (x <? y)%float = false -> FR y <= FR x.
Proof.
  intros x y Fx Fy H. rewrite ltb_equiv, Bltb_correct in H by assumption.
  revert H. unfold FR. case Rlt_bool_spec; [discriminate|tauto].
Qed.
Lemma ltb_FR_true : forall x y, fin x -> fin y -> FR x < FR y -> (x <? y)%float = true.
Proof.
  intros x y Fx Fy H. rewrite ltb_equiv, Bltb_correct by assumption. apply Rlt_bool_true. exact H.
Qed.
Lemma leb_FR_true : forall x y, fin x -> fin y -> FR x <= FR y -> (x <=? y)%float = true.
Proof.
  intros x y Fx Fy H. rewrite leb_equiv, Bleb_correct by assumption. apply Rle_bool_true. exact H.
Qed.

Lemma FR_m1 : fin (-1)%float /\ FR (-1)%float = -1.
Proof.
  split; [apply fin_bool; reflexivity|].
  rewrite FR_SF. vm_compute Prim2SF. unfold SF2R, F2R, cond_Zopp. simpl. lra.
Qed.
Lemma FR_2 : fin 2%float /\ FR 2%float = 2.
Proof.
  split; [apply fin_bool; reflexivity|].
  rewrite FR_SF. vm_compute Prim2SF. unfold SF2R, F2R, cond_Zopp. simpl. lra.
Qed.

(** multiplication by two is exact in binary64 (subnormals included) *)
Lemma fmt_double : forall x, fmt x -> fmt (2 * x).
Proof.
  intros x Fx. destruct (Req_dec x 0) as [->|Nz].
  { rewrite Rmult_0_r. apply generic_format_0. }
  unfold fmt in *. rewrite Fx.
  set (m := Ztrunc (scaled_mantissa radix2 fexp64 x)).
  replace (2 * F2R (Float radix2 m (cexp radix2 fexp64 x))) with (F2R (Float radix2 m (cexp radix2 fexp64 x + 1))).
  2:{ unfold F2R. simpl Fnum. simpl Fexp. rewrite bpow_plus. change (bpow radix2 1) with 2. ring. }
  apply generic_format_F2R. intros _.
  replace (F2R (Float radix2 m (cexp radix2 fexp64 x + 1))) with (x * bpow radix2 1).
  2:{ rewrite Fx at 1. unfold F2R. simpl Fnum. simpl Fexp. rewrite bpow_plus. fold m. ring. }
  unfold cexp. rewrite mag_mult_bpow by assumption. unfold fexp64, FLT_exp. lia.
Qed.

Lemma Rabs_le_2 : forall a b c, Rabs a <= c -> Rabs b <= c -> Rabs (a - b) <= 2 * c.
Proof. intros. unfold Rminus. eapply Rle_trans; [apply Rabs_triang|]. rewrite Rabs_Ropp. lra. Qed.

Lemma bpow_succ2 : forall k, 2 * bpow radix2 k = bpow radix2 (k + 1).
Proof. intros. rewrite bpow_plus. change (bpow radix2 1) with 2. ring. Qed.

Lemma bpow_1001 : bpow radix2 1001 = 2 * bpow radix2 1000.
Proof. rewrite bpow_succ2. reflexivity. Qed.
Lemma bpow_1023 : bpow radix2 1023 = 2 * bpow radix2 1022.
Proof. rewrite bpow_succ2. reflexivity. Qed.

(** * (A) The reflections *)

(** exact reflection of a depth x at the surface 0 and at the bottom h: h - | |x| - h |
    (= |x| when |x| <= h, = 2 h - |x| when |x| > h) *)
Definition reflectR (x h : R) : R := h - Rabs (Rabs x - h).

Lemma reflectR_in : forall x h, Rabs x <= h -> reflectR x h = Rabs x.
Proof. intros. unfold reflectR. rewrite Rabs_left1 by lra. ring. Qed.
Lemma reflectR_out : forall x h, h <= Rabs x -> reflectR x h = 2 * h - Rabs x.
Proof. intros. unfold reflectR. rewrite Rabs_pos_eq by lra. ring. Qed.
Lemma reflectR_range : forall x h, - h <= x <= 2 * h -> 0 <= reflectR x h <= h.
Proof.
  intros x h H. unfold reflectR. pose proof (Rabs_pos (Rabs x - h)).
  assert (Rabs x <= 2 * h) by (apply Rabs_le; lra).
  assert (Rabs (Rabs x - h) <= h) by (pose proof (Rabs_pos x); apply Rabs_le; lra). lra.
Qed.
Lemma reflectR_lipschitz : forall x y h, Rabs (reflectR x h - reflectR y h) <= Rabs (x - y).
Proof.
  intros. unfold reflectR.
  replace (h - Rabs (Rabs x - h) - (h - Rabs (Rabs y - h))) with (Rabs (Rabs y - h) - Rabs (Rabs x - h)) by ring.
  eapply Rle_trans; [apply Rabs_triang_inv2|].
  replace (Rabs y - h - (Rabs x - h)) with (Rabs y - Rabs x) by ring.
  eapply Rle_trans; [apply Rabs_triang_inv2|]. rewrite Rabs_minus_sym. lra.
Qed.

(** the float code computes the correctly rounded exact reflection: ONE rounding (in the bottom branch only);
    the surface reflection z * (-1.0) and the product 2.0 * h are exact *)
Theorem reflect_f_correct : forall z1 h,
  fin h -> Rabs (FR h) <= bpow radix2 1000 -> fin z1 -> Rabs (FR z1) <= bpow radix2 1001 ->
  fin (reflect_f z1 h) /\ FR (reflect_f z1 h) = rnd (reflectR (FR z1) (FR h)).
Proof.
  intros z1 h Fh Bh Fz Bz. unfold reflect_f.
  destruct FR_m1 as [Fm1 Em1]. destruct FR_2 as [F2 E2].
  (* surface *)
  assert (S : let z2 := (if z1 <? 0 then z1 * (-1) else z1)%float in fin z2 /\ FR z2 = Rabs (FR z1)).
  { cbv zeta. destruct (z1 <? 0)%float eqn:E.
    - apply ltb_FR in E; auto using fin_0. rewrite FR_0 in E.
      destruct (mul_R z1 (-1)%float Fz Fm1) as [Fp Ep].
      { rewrite Em1. replace (FR z1 * -1) with (- FR z1) by ring. rewrite Rabs_Ropp.
        eapply Rle_trans; [exact Bz|]. apply bpow_le. lia. }
      split; [exact Fp|]. rewrite Ep, Em1. replace (FR z1 * -1) with (- FR z1) by ring.
      rewrite rnd_id by (apply fmt_opp, fmt_FR). rewrite Rabs_left by lra. reflexivity.
    - apply ltb_FR_false in E; auto using fin_0. rewrite FR_0 in E.
      split; [exact Fz|]. rewrite Rabs_pos_eq by lra. reflexivity. }
  cbv zeta in S. set (z2 := (if z1 <? 0 then z1 * (-1) else z1)%float) in *. destruct S as [Fz2 Ez2].
  (* bottom *)
  destruct (h <? z2)%float eqn:E.
  - apply ltb_FR in E; auto. rewrite Ez2 in E.
    destruct (mul_R 2%float h F2 Fh) as [Fp Ep].
    { rewrite E2, Rabs_mult, (Rabs_pos_eq 2) by lra. replace (bpow radix2 1023) with (2 * bpow radix2 1022) by (rewrite bpow_succ2; reflexivity).
      assert (bpow radix2 1000 <= bpow radix2 1022) by (apply bpow_le; lia). lra. }
    rewrite E2, rnd_id in Ep by (apply fmt_double, fmt_FR).
    destruct (sub_R (2 * h)%float z2 Fp Fz2) as [Fs Es].
    { rewrite Ep, Ez2. eapply Rle_trans; [apply (Rabs_le_2 _ _ (bpow radix2 1001))|].
      - rewrite Rabs_mult, (Rabs_pos_eq 2) by lra.
        replace (bpow radix2 1001) with (2 * bpow radix2 1000) by (rewrite bpow_succ2; reflexivity). lra.
      - rewrite Rabs_Rabsolu. exact Bz.
      - rewrite bpow_succ2. apply bpow_le. lia. }
    split; [exact Fs|]. rewrite Es, Ep, Ez2. rewrite reflectR_out by lra. reflexivity.
  - apply ltb_FR_false in E; auto. rewrite Ez2 in E.
    split; [exact Fz2|]. rewrite reflectR_in by exact E. rewrite <- Ez2.
    symmetry. apply rnd_id, fmt_FR.
Qed.

(** C15 at the float level, EXACTLY: no rounding delta *)
Theorem reflect_f_bounds : forall z1 h,
  fin h -> 0 < FR h <= bpow radix2 1000 -> fin z1 -> - FR h <= FR z1 <= 2 * FR h ->
  fin (reflect_f z1 h) /\ 0 <= FR (reflect_f z1 h) <= FR h.
Proof.
  intros z1 h Fh Hh Fz Hz.
  destruct (reflect_f_correct z1 h Fh) as [Fr Er]; auto.
  { rewrite Rabs_pos_eq; lra. }
  { apply Rabs_le. replace (bpow radix2 1001) with (2 * bpow radix2 1000) by (rewrite bpow_succ2; reflexivity). lra. }
  split; [exact Fr|]. rewrite Er.
  pose proof (reflectR_range (FR z1) (FR h) Hz) as [R0 R1]. split.
  - rewrite <- rnd_0. apply rnd_le. exact R0.
  - rewrite <- (rnd_id (FR h)) at 2 by apply fmt_FR. apply rnd_le. exact R1.
Qed.
Print Assumptions reflect_f_bounds.

(** * (A) The displacement *)
Lemma rnd_abs_fmt : forall x b, fmt b -> Rabs x <= b -> - b <= rnd x <= b.
Proof. intros x b Fb H. apply Rabs_le_inv. apply rnd_abs_le; assumption. Qed.

Lemma rnd_between : forall x lo hi, fmt lo -> fmt hi -> lo <= x <= hi -> lo <= rnd x <= hi.
Proof.
  intros x lo hi Fl Fh [H1 H2]. split.
  - rewrite <- (rnd_id lo) by assumption. apply rnd_le. exact H1.
  - rewrite <- (rnd_id hi) by assumption. apply rnd_le. exact H2.
Qed.

(** one displacement: value = two roundings; if the exact product |w * dt| is at most a float b, the rounded
    product is too, and the rounded sum stays within [lo - b, hi + b] rounded *)
Lemma vdisp_f_value : forall z w dt b,
  fin z -> fin w -> fin dt -> fmt b -> Rabs (FR w * FR dt) <= b -> Rabs (FR z) + b <= bpow radix2 1023 ->
  fin (vdisp_f z w dt) /\ FR (vdisp_f z w dt) = rnd (FR z + rnd (FR w * FR dt)) /\
  - b <= rnd (FR w * FR dt) <= b.
Proof.
  intros z w dt b Fz Fw Fd Fb Hb Hs. unfold vdisp_f.
  pose proof (Rabs_pos (FR z)) as Pz.
  destruct (mul_R w dt Fw Fd) as [Fp Ep]; [lra|].
  pose proof (rnd_abs_fmt _ _ Fb Hb) as Hp.
  destruct (add_R z (w * dt)%float Fz Fp) as [Fs Es].
  { rewrite Ep. eapply Rle_trans; [apply Rabs_triang|]. apply Rabs_le in Hp. lra. }
  rewrite Ep in Es. auto.
Qed.

(** sufficient condition on the INPUTS for one displacement: |w * dt| <= h (exact product, h itself being a float) *)
Theorem vdisp_f_range : forall z w dt h,
  fin h -> 0 < FR h <= bpow radix2 1000 -> fin z -> 0 <= FR z <= FR h -> fin w -> fin dt ->
  Rabs (FR w * FR dt) <= FR h ->
  fin (vdisp_f z w dt) /\ - FR h <= FR (vdisp_f z w dt) <= 2 * FR h.
Proof.
  intros z w dt h Fh Hh Fz Hz Fw Fd Hw.
  assert (B : bpow radix2 1000 + bpow radix2 1000 <= bpow radix2 1023).
  { apply Rle_trans with (bpow radix2 1001); [rewrite bpow_1001; lra | apply bpow_le; lia]. }
  destruct (vdisp_f_value z w dt (FR h)) as (Fs & Es & Hp); auto using fmt_FR.
  { rewrite Rabs_pos_eq; lra. }
  split; [exact Fs|]. rewrite Es.
  apply rnd_between; [apply fmt_opp, fmt_FR | apply fmt_double, fmt_FR | lra].
Qed.

Theorem vstep_f_bounds : forall z w dt h,
  fin h -> 0 < FR h <= bpow radix2 1000 ->
  fin (vdisp_f z w dt) -> - FR h <= FR (vdisp_f z w dt) <= 2 * FR h ->
  fin (vstep_f z w dt h) /\ 0 <= FR (vstep_f z w dt h) <= FR h.
Proof. intros. unfold vstep_f. apply reflect_f_bounds; assumption. Qed.

Theorem vstep_f_in_column : forall z w dt h,
  fin h -> 0 < FR h <= bpow radix2 1000 -> fin z -> 0 <= FR z <= FR h -> fin w -> fin dt ->
  Rabs (FR w * FR dt) <= FR h ->
  fin (vstep_f z w dt h) /\ 0 <= FR (vstep_f z w dt h) <= FR h.
Proof.
  intros z w dt h Fh Hh Fz Hz Fw Fd Hw.
  destruct (vdisp_f_range z w dt h) as [F1 H1]; auto. apply vstep_f_bounds; assumption.
Qed.
Print Assumptions vstep_f_in_column.

Theorem vstep2_f_bounds : forall z w1 w2 dt h,
  fin h -> 0 < FR h <= bpow radix2 1000 ->
  fin (vdisp_f (vdisp_f z w1 dt) w2 dt) -> - FR h <= FR (vdisp_f (vdisp_f z w1 dt) w2 dt) <= 2 * FR h ->
  fin (vstep2_f z w1 w2 dt h) /\ 0 <= FR (vstep2_f z w1 w2 dt h) <= FR h.
Proof. intros. unfold vstep2_f. apply reflect_f_bounds; assumption. Qed.

(** sufficient condition on the inputs for TWO displacements: floats b1, b2 bounding the exact products with
    b1 + b2 <= h and fl(h + b1) + b2 <= 2 h.  (b1 + b2 <= h ALONE is not enough: see [vstep2_counterexample].) *)
Theorem vdisp2_f_range : forall z w1 w2 dt h b1 b2,
  fin h -> 0 < FR h <= bpow radix2 1000 -> fin z -> 0 <= FR z <= FR h -> fin w1 -> fin w2 -> fin dt ->
  fmt b1 -> fmt b2 -> Rabs (FR w1 * FR dt) <= b1 -> Rabs (FR w2 * FR dt) <= b2 ->
  b1 + b2 <= FR h -> rnd (FR h + b1) + b2 <= 2 * FR h ->
  fin (vdisp_f (vdisp_f z w1 dt) w2 dt) /\ - FR h <= FR (vdisp_f (vdisp_f z w1 dt) w2 dt) <= 2 * FR h.
Proof.
  intros z w1 w2 dt h b1 b2 Fh Hh Fz Hz Fw1 Fw2 Fd Fb1 Fb2 H1 H2 Hb Hc.
  assert (P1 : 0 <= b1) by (pose proof (Rabs_pos (FR w1 * FR dt)); lra).
  assert (P2 : 0 <= b2) by (pose proof (Rabs_pos (FR w2 * FR dt)); lra).
  assert (B : 3 * bpow radix2 1000 <= bpow radix2 1023).
  { apply Rle_trans with (bpow radix2 1002).
    - replace (bpow radix2 1002) with (2 * (2 * bpow radix2 1000)) by (rewrite !bpow_succ2; reflexivity).
      pose proof (bpow_gt_0 radix2 1000). lra.
    - apply bpow_le. lia. }
  destruct (vdisp_f_value z w1 dt b1) as (Fs & Es & Hp); auto.
  { rewrite Rabs_pos_eq; lra. }
  set (z' := vdisp_f z w1 dt) in *.
  assert (R1 : - b1 <= FR z' <= rnd (FR h + b1)).
  { rewrite Es. split.
    - rewrite <- (rnd_id (- b1)) by (apply fmt_opp; assumption). apply rnd_le. lra.
    - apply rnd_le. lra. }
  assert (R1' : rnd (FR h + b1) <= 2 * FR h) by lra.
  destruct (vdisp_f_value z' w2 dt b2) as (Fs2 & Es2 & Hp2); auto.
  { assert (Rabs (FR z') <= 2 * FR h) by (apply Rabs_le; lra). lra. }
  split; [exact Fs2|]. rewrite Es2.
  apply rnd_between; [apply fmt_opp, fmt_FR | apply fmt_double, fmt_FR | lra].
Qed.

(** ... for instance both exact displacements at most h / 4 (h normal, so that h / 4 is a float) *)
Lemma fmt_quarter : forall x, fmt x -> bpow radix2 (-1020) <= Rabs x -> fmt (x / 4).
Proof.
  intros x Fx Hx. replace (x / 4) with (x * bpow radix2 (-2)).
  2:{ change (bpow radix2 (-2)) with (/ 4). field. }
  apply mult_bpow_exact_FLT; [exact Fx|].
  assert (-1020 < mag radix2 x)%Z; [|lia].
  apply mag_gt_bpow. exact Hx.
Qed.

Lemma u64_le_quarter : u64 <= / 4.
Proof. unfold u64. change (/ 4) with (bpow radix2 (-2)). apply bpow_le. lia. Qed.

Theorem vstep2_f_in_column_quarter : forall z w1 w2 dt h,
  fin h -> bpow radix2 (-1020) <= FR h <= bpow radix2 1000 -> fin z -> 0 <= FR z <= FR h ->
  fin w1 -> fin w2 -> fin dt ->
  Rabs (FR w1 * FR dt) <= FR h / 4 -> Rabs (FR w2 * FR dt) <= FR h / 4 ->
  fin (vstep2_f z w1 w2 dt h) /\ 0 <= FR (vstep2_f z w1 w2 dt h) <= FR h.
Proof.
  intros z w1 w2 dt h Fh Hh Fz Hz Fw1 Fw2 Fd H1 H2.
  pose proof (bpow_gt_0 radix2 (-1020)) as P.
  assert (Fq : fmt (FR h / 4)) by (apply fmt_quarter; [apply fmt_FR | rewrite Rabs_pos_eq; lra]).
  destruct (vdisp2_f_range z w1 w2 dt h (FR h / 4) (FR h / 4)) as [F1 R1]; auto; try lra.
  { pose proof (rnd_add_err (FR h) (FR h / 4) (fmt_FR h) Fq) as E. apply Rabs_le_inv in E.
    rewrite Rabs_pos_eq in E by lra. pose proof u64_le_quarter. pose proof u_pos. nra. }
  apply vstep2_f_bounds; auto; lra.
Qed.
Print Assumptions vstep2_f_in_column_quarter.

(** * (A) No displacement: the depth is unchanged *)
Lemma Prim2B_negzero : Prim2B (-0)%float = B754_zero true.
Proof. reflexivity. Qed.

Lemma Bsign_nonneg : forall z, fin z -> 0 <= FR z -> z <> (-0)%float -> Bsign (Prim2B z) = false.
Proof.
  intros z Fz Hz Nz. unfold fin, FR in *.
  destruct (Prim2B z) as [s|s| |s m e He] eqn:E; try discriminate.
  - destruct s; [|reflexivity]. exfalso. apply Nz. apply Prim2B_inj. rewrite E, Prim2B_negzero. reflexivity.
  - destruct s; [|reflexivity]. exfalso. simpl in Hz.
    assert (F2R (Float radix2 (Z.neg m) e) < 0) by (apply F2R_lt_0; reflexivity). lra.
Qed.

(** a zero displacement (w * dt = +0 or -0 as a float: w = 0, dt = 0, or a product that underflows to zero)
    leaves every depth in [0, h] unchanged BIT FOR BIT -- except that -0.0 + (+0.0) is +0.0 *)
Theorem vstep_f_still : forall z w dt h,
  fin h -> fin z -> 0 <= FR z <= FR h -> fin (w * dt)%float -> FR (w * dt)%float = 0 ->
  z <> (-0)%float ->
  vstep_f z w dt h = z.
Proof.
  intros z w dt h Fh Fz Hz Fd Ed Nz. unfold vstep_f, vdisp_f.
  set (d := (w * dt)%float) in *.
  assert (S : (z + d)%float = z).
  { apply Prim2B_inj. rewrite add_equiv.
    pose proof (Bsign_nonneg z Fz (proj1 Hz) Nz) as Sz. unfold fin, FR in *.
    generalize (Bplus_correct prec emax Hprec Hmax mode_NE (Prim2B z) (Prim2B d) Fz Fd).
    rewrite Ed, Rplus_0_r.
    change (round radix2 (fexp prec emax) (round_mode mode_NE) (B2R (Prim2B z))) with (rnd (FR z)).
    rewrite (rnd_id _ (fmt_FR z)). rewrite Rlt_bool_true.
    2:{ fold (FR z). pose proof (fmt_FR z). apply (abs_B2R_lt_emax _ _ (Prim2B z)). }
    intros (H1 & H2 & H3). apply B2R_Bsign_inj; auto.
    rewrite H3, Sz. destruct (Rcompare_spec (B2R (Prim2B z)) 0); try reflexivity. lra. }
  rewrite S. unfold reflect_f.
  assert (E1 : (z <? 0)%float = false).
  { destruct (z <? 0)%float eqn:E; [|reflexivity]. apply ltb_FR in E; auto using fin_0. rewrite FR_0 in E. lra. }
  rewrite E1.
  assert (E2 : (h <? z)%float = false).
  { destruct (h <? z)%float eqn:E; [|reflexivity]. apply ltb_FR in E; auto. lra. }
  rewrite E2. reflexivity.
Qed.
Print Assumptions vstep_f_still.

(** ... and as a real number it is unchanged in every case (z = -0.0 included) *)
Theorem vstep_f_still_value : forall z w dt h,
  fin h -> fin z -> 0 <= FR z <= FR h -> fin (w * dt)%float -> FR (w * dt)%float = 0 ->
  fin (vstep_f z w dt h) /\ FR (vstep_f z w dt h) = FR z.
Proof.
  intros z w dt h Fh Fz Hz Fd Ed. unfold vstep_f, vdisp_f.
  set (d := (w * dt)%float) in *.
  destruct (add_R' z d Fz Fd) as [Fs Es].
  { rewrite Ed, Rplus_0_r, (rnd_id _ (fmt_FR z)). apply (abs_B2R_lt_emax _ _ (Prim2B z)). }
  rewrite Ed, Rplus_0_r, (rnd_id _ (fmt_FR z)) in Es.
  unfold reflect_f.
  assert (E1 : ((z + d) <? 0)%float = false).
  { destruct ((z + d) <? 0)%float eqn:E; [|reflexivity]. apply ltb_FR in E; auto using fin_0. rewrite FR_0 in E. lra. }
  rewrite E1.
  assert (E2 : (h <? (z + d))%float = false).
  { destruct (h <? (z + d))%float eqn:E; [|reflexivity]. apply ltb_FR in E; auto. lra. }
  rewrite E2. auto.
Qed.

(** * (A) Distance to the exact reflection of the exact sum *)
Lemma reflect_round_err : forall x h, fmt x -> fmt h ->
  Rabs (rnd (reflectR x h) - reflectR x h) <= u64 * Rabs (reflectR x h).
Proof.
  intros x h Fx Fh. pose proof u_pos as Hu.
  destruct (Rle_dec (Rabs x) h) as [H|H].
  - rewrite reflectR_in by exact H. rewrite rnd_id by (apply generic_format_abs; exact Fx).
    replace (Rabs x - Rabs x) with 0 by ring. rewrite Rabs_R0, Rabs_Rabsolu. pose proof (Rabs_pos x). nra.
  - rewrite reflectR_out by lra.
    apply (rnd_add_err (2 * h) (- Rabs x)); [apply fmt_double; exact Fh | apply fmt_opp, generic_format_abs; exact Fx].
Qed.

(** the float result against the exact reflection of the exact sum z + w * dt: three roundings
    (product, sum, bottom reflection), at most 4 u h + eta in total *)
Theorem vstep_f_error : forall z w dt h,
  fin h -> 0 < FR h <= bpow radix2 1000 -> fin z -> 0 <= FR z <= FR h -> fin w -> fin dt ->
  Rabs (FR w * FR dt) <= FR h ->
  Rabs (FR (vstep_f z w dt h) - reflectR (FR z + FR w * FR dt) (FR h)) <= 4 * u64 * FR h + eta.
Proof.
  intros z w dt h Fh Hh Fz Hz Fw Fd Hw.
  assert (B : bpow radix2 1000 + bpow radix2 1000 <= bpow radix2 1023).
  { apply Rle_trans with (bpow radix2 1001); [rewrite bpow_1001; lra | apply bpow_le; lia]. }
  destruct (vdisp_f_value z w dt (FR h)) as (Fs & Es & Hp); auto using fmt_FR.
  { rewrite Rabs_pos_eq; lra. }
  destruct (vdisp_f_range z w dt h) as [_ Hr]; auto.
  unfold vstep_f. set (z1 := vdisp_f z w dt) in *.
  destruct (reflect_f_correct z1 h Fh) as [Fr Er]; auto.
  { rewrite Rabs_pos_eq; lra. }
  { apply Rabs_le. rewrite bpow_1001. lra. }
  rewrite Er.
  pose proof (reflect_round_err (FR z1) (FR h) (fmt_FR _) (fmt_FR _)) as E3.
  pose proof (reflectR_range (FR z1) (FR h) Hr) as R3. rewrite (Rabs_pos_eq (reflectR _ _)) in E3 by lra.
  pose proof (reflectR_lipschitz (FR z1) (FR z + FR w * FR dt) (FR h)) as L.
  pose proof (rnd_err (FR w * FR dt)) as E1. set (d := rnd (FR w * FR dt)) in *.
  pose proof (rnd_add_err (FR z) d (fmt_FR _) (fmt_rnd _)) as E2. rewrite <- Es in E2.
  assert (A2 : Rabs (FR z + d) <= 2 * FR h) by (apply Rabs_le; lra).
  assert (E12 : Rabs (FR z1 - (FR z + FR w * FR dt)) <= u64 * (2 * FR h) + (u64 * FR h + eta)).
  { replace (FR z1 - (FR z + FR w * FR dt)) with ((FR z1 - (FR z + d)) + (d - FR w * FR dt)) by ring.
    eapply Rle_trans; [apply Rabs_triang|]. pose proof u_pos. apply Rplus_le_compat; [nra|nra]. }
  set (X := reflectR (FR z1) (FR h)) in *. set (Y := reflectR (FR z + FR w * FR dt) (FR h)) in *.
  replace (rnd X - Y) with ((rnd X - X) + (X - Y)) by ring.
  eapply Rle_trans; [apply Rabs_triang|]. pose proof u_pos. nra.
Qed.
Print Assumptions vstep_f_error.

(** * (A) The hypotheses as ONE computable boolean (what Corr/VertF.v checks on every case) *)
Lemma fin_two1000 : fin two1000. Proof. apply fin_bool. reflexivity. Qed.

Lemma depth_ok_spec : forall h, depth_ok h = true -> fin h /\ 0 < FR h <= bpow radix2 1000.
Proof.
  intros h H. unfold depth_ok in H. rewrite !andb_true_iff in H. destruct H as [[H1 H2] H3].
  apply fin_bool in H1. split; [exact H1|]. split.
  - rewrite <- FR_0. apply ltb_FR; auto using fin_0.
  - rewrite <- FR_two1000. apply leb_FR; auto using fin_two1000.
Qed.
Lemma start_ok_spec : forall z h, fin h -> start_ok z h = true -> fin z /\ 0 <= FR z <= FR h.
Proof.
  intros z h Fh H. unfold start_ok in H. rewrite !andb_true_iff in H. destruct H as [[H1 H2] H3].
  apply fin_bool in H1. split; [exact H1|]. split.
  - rewrite <- FR_0. apply leb_FR; auto using fin_0.
  - apply leb_FR; auto.
Qed.
Lemma double_f : forall h, fin h -> Rabs (FR h) <= bpow radix2 1000 -> fin (2 * h)%float /\ FR (2 * h)%float = 2 * FR h.
Proof.
  intros h Fh Bh. destruct FR_2 as [F2 E2].
  destruct (mul_R 2%float h F2 Fh) as [Fp Ep].
  { rewrite E2, Rabs_mult, (Rabs_pos_eq 2) by lra. rewrite bpow_1023.
    assert (bpow radix2 1000 <= bpow radix2 1022) by (apply bpow_le; lia). lra. }
  rewrite E2, rnd_id in Ep by (apply fmt_double, fmt_FR). auto.
Qed.
Lemma disp_ok_spec : forall z1 h, fin h -> 0 < FR h <= bpow radix2 1000 -> disp_ok z1 h = true ->
  fin z1 /\ - FR h <= FR z1 <= 2 * FR h.
Proof.
  intros z1 h Fh Hh H. unfold disp_ok in H. rewrite !andb_true_iff in H. destruct H as [[H1 H2] H3].
  apply fin_bool in H1. split; [exact H1|].
  destruct (double_f h Fh) as [F2 E2]; [rewrite Rabs_pos_eq; lra|].
  split.
  - rewrite <- FR_opp. apply leb_FR; auto using fin_opp.
  - rewrite <- E2. apply leb_FR; auto.
Qed.
Lemma in_column_spec : forall r h, fin h -> (fin r /\ 0 <= FR r <= FR h) <-> in_column r h = true.
Proof.
  intros r h Fh. unfold in_column. rewrite !andb_true_iff. split.
  - intros (F & H0 & H1). repeat split.
    + unfold fin in F. rewrite <- is_finite_equiv in F. exact F.
    + apply leb_FR_true; [exact fin_0 | exact F | rewrite FR_0; exact H0].
    + apply leb_FR_true; auto.
  - intros [[H1 H2] H3]. apply fin_bool in H1. split; [exact H1|]. split.
    + rewrite <- FR_0. apply leb_FR; auto using fin_0.
    + apply leb_FR; auto.
Qed.

Theorem vstep_f_checked : forall z w dt h, vstep_ok z w dt h = true ->
  fin (vstep_f z w dt h) /\ 0 <= FR (vstep_f z w dt h) <= FR h.
Proof.
  intros z w dt h H. unfold vstep_ok in H. rewrite !andb_true_iff in H. destruct H as [[H1 H2] H3].
  destruct (depth_ok_spec h H1) as [Fh Hh]. destruct (disp_ok_spec _ h Fh Hh H3) as [F1 R1].
  apply vstep_f_bounds; assumption.
Qed.
Theorem vstep2_f_checked : forall z w1 w2 dt h, vstep2_ok z w1 w2 dt h = true ->
  fin (vstep2_f z w1 w2 dt h) /\ 0 <= FR (vstep2_f z w1 w2 dt h) <= FR h.
Proof.
  intros z w1 w2 dt h H. unfold vstep2_ok in H. rewrite !andb_true_iff in H. destruct H as [[H1 H2] H3].
  destruct (depth_ok_spec h H1) as [Fh Hh]. destruct (disp_ok_spec _ h Fh Hh H3) as [F1 R1].
  apply vstep2_f_bounds; assumption.
Qed.
(** the same conclusion as the boolean the checker evaluates *)
Corollary vstep_f_checked_bool : forall z w dt h, vstep_ok z w dt h = true -> in_column (vstep_f z w dt h) h = true.
Proof.
  intros z w dt h H. pose proof (vstep_f_checked z w dt h H) as C.
  unfold vstep_ok in H. rewrite !andb_true_iff in H. destruct H as [[H1 _] _].
  apply in_column_spec; [apply (depth_ok_spec h H1) | exact C].
Qed.
Corollary vstep2_f_checked_bool : forall z w1 w2 dt h, vstep2_ok z w1 w2 dt h = true ->
  in_column (vstep2_f z w1 w2 dt h) h = true.
Proof.
  intros z w1 w2 dt h H. pose proof (vstep2_f_checked z w1 w2 dt h H) as C.
  unfold vstep2_ok in H. rewrite !andb_true_iff in H. destruct H as [[H1 _] _].
  apply in_column_spec; [apply (depth_ok_spec h H1) | exact C].
Qed.
Print Assumptions vstep2_f_checked_bool.

(** * (B) The binary search *)
Fixpoint bsearchP (P : nat -> bool) (fuel lo hi : nat) : nat :=
  match fuel with
  | O => lo
  | S f =>
      if Nat.ltb lo hi then
        let mid := (lo + Nat.div2 (hi - lo))%nat in
        if P mid then bsearchP P f (S mid) hi else bsearchP P f lo mid
      else lo
  end.

Lemma bsearch_P : forall l v fuel lo hi,
  bsearch fuel l v lo hi = bsearchP (fun i => lt_key (nth i l nan) v) fuel lo hi.
Proof.
  intros l v fuel. induction fuel as [|f IH]; intros lo hi; simpl; [reflexivity|].
  destruct (Nat.ltb lo hi); [|reflexivity]. rewrite !IH. reflexivity.
Qed.

(** binary search on a predicate that is true below c and false from c on finds c *)
Lemma bsearchP_spec : forall P n c,
  (forall i, (i < c)%nat -> P i = true) -> (forall i, (c <= i < n)%nat -> P i = false) ->
  forall fuel lo hi, (lo <= c <= hi)%nat -> (hi <= n)%nat -> (hi - lo <= fuel)%nat -> bsearchP P fuel lo hi = c.
Proof.
  intros P n c Ht Hf fuel. induction fuel as [|f IH]; intros lo hi Hc Hn Hfu; simpl.
  - lia.
  - destruct (Nat.ltb_spec lo hi) as [Hlt|Hge]; [|lia].
    assert (Hd : (Nat.div2 (hi - lo) < hi - lo)%nat) by (apply Nat.lt_div2; lia).
    set (mid := (lo + Nat.div2 (hi - lo))%nat) in *.
    destruct (P mid) eqn:E.
    + apply IH; try lia. destruct (le_lt_dec c mid) as [Hle|Hgt]; [|lia].
      rewrite Hf in E by lia. discriminate.
    + apply IH; try lia. destruct (le_lt_dec c mid) as [Hle|Hgt]; [lia|].
      rewrite Ht in E by lia. discriminate.
Qed.

Lemma count_lt_le : forall l v, (count_lt l v <= length l)%nat.
Proof. induction l as [|a r IH]; intros v; simpl; [lia|]. destruct (lt_key a v); [specialize (IH v)|]; lia. Qed.
Lemma count_lt_true : forall l v i, (i < count_lt l v)%nat -> lt_key (nth i l nan) v = true.
Proof.
  induction l as [|a r IH]; intros v i; simpl; [lia|].
  destruct (lt_key a v) eqn:E; [|lia]. destruct i; [intros _; exact E|]. intros H. apply IH. lia.
Qed.
Lemma count_lt_false : forall l v, (count_lt l v < length l)%nat -> lt_key (nth (count_lt l v) l nan) v = false.
Proof.
  induction l as [|a r IH]; intros v; simpl; [lia|].
  destruct (lt_key a v) eqn:E; [|intros _; exact E]. intros H. apply IH. lia.
Qed.

(** the key predicate is monotone along the array: once false, always false (true for sorted arrays) *)
Definition key_monotone (l : list pfloat) (v : pfloat) : Prop :=
  forall i j, (i <= j < length l)%nat -> lt_key (nth j l nan) v = true -> lt_key (nth i l nan) v = true.

Theorem searchsorted_left_count : forall l v, key_monotone l v -> searchsorted_left l v = count_lt l v.
Proof.
  intros l v M. unfold searchsorted_left. rewrite bsearch_P.
  apply (bsearchP_spec _ (length l)); try lia.
  - intros i Hi. apply count_lt_true. exact Hi.
  - intros i Hi. destruct (lt_key (nth i l nan) v) eqn:E; [|reflexivity].
    assert (C : lt_key (nth (count_lt l v) l nan) v = true) by (apply (M _ i); [lia|exact E]).
    rewrite count_lt_false in C by lia. discriminate.
  - pose proof (count_lt_le l v). lia.
Qed.

(** * Sorted arrays of finite levels *)
Definition finl (l : list pfloat) : Prop := forall i, (i < length l)%nat -> fin (nth i l nan).
Definition incr (l : list pfloat) : Prop :=
  forall i j, (i < j < length l)%nat -> FR (nth i l nan) <= FR (nth j l nan).

Lemma finl_cons : forall a r, finl (a :: r) -> fin a /\ finl r.
Proof.
  intros a r H. split; [apply (H 0%nat); simpl; lia|]. intros i Hi. apply (H (S i)). simpl. lia.
Qed.

Lemma nondecreasing_incr : forall l, finl l -> nondecreasing l = true -> incr l.
Proof.
  induction l as [|a r IH]; intros Fl H i j Hij; [simpl in Hij; lia|].
  destruct (finl_cons _ _ Fl) as [Fa Fr].
  destruct r as [|b r']; [simpl in Hij; lia|].
  simpl nondecreasing in H. apply andb_true_iff in H. destruct H as [Hab Hr].
  destruct (finl_cons _ _ Fr) as [Fb _].
  apply leb_FR in Hab; auto.
  specialize (IH Fr Hr).
  destruct i as [|i]; destruct j as [|j]; try lia.
  - simpl nth at 1. change (nth (S j) (a :: b :: r') nan) with (nth j (b :: r') nan).
    destruct j as [|j]; [exact Hab|].
    eapply Rle_trans; [exact Hab|]. apply (IH 0%nat (S j)). simpl in *. lia.
  - change (nth (S i) (a :: b :: r') nan) with (nth i (b :: r') nan).
    change (nth (S j) (a :: b :: r') nan) with (nth j (b :: r') nan).
    apply IH. simpl in *. lia.
Qed.

Lemma lt_key_fin : forall a v, fin a -> fin v -> lt_key a v = Rlt_bool (FR a) (FR v).
Proof.
  intros a v Fa Fv. unfold lt_key.
  assert (N : PrimFloat.is_nan v = false).
  { rewrite is_nan_equiv. unfold fin in Fv. destruct (Prim2B v); try discriminate; reflexivity. }
  rewrite N. simpl. rewrite orb_false_r. rewrite ltb_equiv, Bltb_correct by assumption. reflexivity.
Qed.

Lemma sorted_key_monotone : forall l v, finl l -> incr l -> fin v -> key_monotone l v.
Proof.
  intros l v Fl Il Fv i j Hij H.
  rewrite lt_key_fin in * by (auto; apply Fl; lia).
  destruct (Nat.eq_dec i j) as [->|Hne]; [exact H|].
  apply Rlt_bool_true. revert H. case Rlt_bool_spec; [|discriminate]. intros H _.
  eapply Rle_lt_trans; [apply (Il i j); lia | exact H].
Qed.

(** what the search returns on a sorted array of finite levels, finite key:
    everything before k is below the key, the element at k (if any) is not *)
Theorem searchsorted_left_spec : forall l v, finl l -> incr l -> fin v ->
  let k := searchsorted_left l v in
  (k <= length l)%nat /\
  (forall i, (i < k)%nat -> FR (nth i l nan) < FR v) /\
  ((k < length l)%nat -> FR v <= FR (nth k l nan)).
Proof.
  intros l v Fl Il Fv k. unfold k. rewrite searchsorted_left_count by (apply sorted_key_monotone; assumption).
  pose proof (count_lt_le l v) as Hle. split; [exact Hle|]. split.
  - intros i Hi. pose proof (count_lt_true l v i Hi) as H. rewrite lt_key_fin in H by (auto; apply Fl; lia).
    revert H. case Rlt_bool_spec; [tauto|discriminate].
  - intros Hk. pose proof (count_lt_false l v Hk) as H. rewrite lt_key_fin in H by (auto; apply Fl; lia).
    revert H. case Rlt_bool_spec; [discriminate|tauto].
Qed.
Print Assumptions searchsorted_left_spec.

(** * (B) The weight *)
Definition levb (l : list pfloat) : Prop :=
  forall i, (i < length l)%nat -> Rabs (FR (nth i l nan)) <= bpow radix2 1022.

#[local] Instance fexp64_not_FTZ : Exp_not_FTZ fexp64.
Proof. intros e. unfold fexp64, FLT_exp. lia. Qed.

(** the difference of two distinct floats is never rounded to zero (gradual underflow) *)
Lemma rnd_sub_neq_0 : forall x y, fmt x -> fmt y -> x <> y -> rnd (x - y) <> 0.
Proof.
  intros x y Fx Fy H. unfold rnd, Rminus.
  apply round_plus_neq_0; auto with typeclass_instances.
  - apply fmt_opp. exact Fy.
  - lra.
Qed.

Lemma rnd_sub_pos : forall x y, fmt x -> fmt y -> y < x -> 0 < rnd (x - y).
Proof.
  intros x y Fx Fy H.
  assert (0 <= rnd (x - y)) by (rewrite <- rnd_0; apply rnd_le; lra).
  pose proof (rnd_sub_neq_0 x y Fx Fy). lra.
Qed.

(** the three branches of the kernel, on a sorted column of finite levels (N >= 2, |level| <= 2^1022), finite z *)
Theorem z2s_f_cases : forall zr z,
  (2 <= length zr)%nat -> finl zr -> levb zr -> incr zr -> fin z ->
  let N := length zr in
  let K := fst (z2s_f zr z) in let A := snd (z2s_f zr z) in
  (* above the uppermost level *)
  ((forall i, (i < N)%nat -> FR (nth i zr nan) < - FR z) /\ K = (Z.of_nat N - 1)%Z /\ A = 0%float) \/
  (* at or below the lowest level *)
  (- FR z <= FR (nth 0 zr nan) /\ K = 1%Z /\ A = 1%float) \/
  (* between two levels: zr[K-1] < -z <= zr[K] *)
  (exists k, (0 < k < N)%nat /\ K = Z.of_nat k /\
     FR (nth (k - 1) zr nan) < - FR z <= FR (nth k zr nan) /\
     fin A /\
     FR A = rnd (rnd (FR (nth k zr nan) + FR z) / rnd (FR (nth k zr nan) - FR (nth (k - 1) zr nan))) /\
     0 <= rnd (FR (nth k zr nan) + FR z) <= rnd (FR (nth k zr nan) - FR (nth (k - 1) zr nan)) /\
     0 < rnd (FR (nth k zr nan) - FR (nth (k - 1) zr nan))).
Proof.
  intros zr z HN Fl Bl Il Fz N K A. unfold K, A, z2s_f. clear K A. fold N.
  destruct (searchsorted_left_spec zr (- z)%float Fl Il (fin_opp _ Fz)) as (Hle & Hlt & Hge).
  rewrite FR_opp in Hlt, Hge. fold N in Hle, Hge.
  set (k := searchsorted_left zr (- z)%float) in *.
  destruct (Nat.eqb_spec k N) as [E|NE].
  - left. simpl. rewrite E in *. repeat split; auto.
  - destruct (Nat.ltb_spec 0 k) as [Hk|Hk].
    + right. right. exists k. simpl fst. simpl snd.
      assert (HkN : (k < N)%nat) by lia.
      set (a := nth (k - 1) zr nan). set (b := nth k zr nan).
      assert (Fa : fin a) by (apply Fl; lia). assert (Fb : fin b) by (apply Fl; lia).
      assert (Ba : Rabs (FR a) <= bpow radix2 1022) by (apply Bl; lia).
      assert (Bb : Rabs (FR b) <= bpow radix2 1022) by (apply Bl; lia).
      assert (Ha : FR a < - FR z) by (apply Hlt; lia).
      assert (Hb : - FR z <= FR b) by (apply Hge; lia).
      apply Rabs_le_inv in Ba. apply Rabs_le_inv in Bb.
      destruct (add_R b z Fb Fz) as [Fn En]; [apply Rabs_le; rewrite bpow_1023; lra|].
      destruct (sub_R b a Fb Fa) as [Fd Ed]; [apply Rabs_le; rewrite bpow_1023; lra|].
      assert (Pd : 0 < rnd (FR b - FR a)) by (apply rnd_sub_pos; [apply fmt_FR | apply fmt_FR | lra]).
      assert (Pn : 0 <= rnd (FR b + FR z) <= rnd (FR b - FR a)).
      { split; [rewrite <- rnd_0; apply rnd_le; lra | apply rnd_le; lra]. }
      destruct (div_R _ _ Fn Fd) as [Fq Eq].
      { rewrite Ed. lra. }
      { rewrite En, Ed. apply Rle_trans with 1.
        - apply Rabs_le. split.
          + apply Rle_trans with 0; [lra|]. apply Rmult_le_pos; [lra|]. left. apply Rinv_0_lt_compat. exact Pd.
          + apply (Rmult_le_reg_r (rnd (FR b - FR a))); [exact Pd|]. unfold Rdiv. rewrite Rmult_assoc, Rinv_l by lra. lra.
        - change 1 with (bpow radix2 0). apply bpow_le. lia. }
      rewrite En, Ed in Eq.
      split; [lia|]. split; [reflexivity|]. split; [split; assumption|]. split; [exact Fq|].
      split; [exact Eq|]. split; [exact Pn | exact Pd].
    + right. left. assert (E0 : k = 0%nat) by lia. simpl. repeat split; auto.
      rewrite <- E0. apply Hge. lia.
Qed.

(** C12 at the float level, EXACTLY: 1 <= K <= N - 1, A finite and 0 <= A <= 1 (no rounding delta) *)
Theorem z2s_f_bounds : forall zr z,
  (2 <= length zr)%nat -> finl zr -> levb zr -> incr zr -> fin z ->
  let K := fst (z2s_f zr z) in let A := snd (z2s_f zr z) in
  (1 <= K <= Z.of_nat (length zr) - 1)%Z /\ fin A /\ 0 <= FR A <= 1.
Proof.
  intros zr z HN Fl Bl Il Fz.
  destruct (z2s_f_cases zr z HN Fl Bl Il Fz) as [(_ & HK & HA)|[(_ & HK & HA)|(k & Hk & HK & _ & FA & EA & Hn & Hd)]];
    cbv zeta in *.
  - rewrite HK, HA. split; [lia|]. split; [exact fin_0|]. rewrite FR_0. lra.
  - rewrite HK, HA. split; [lia|]. split; [exact fin_1|]. rewrite FR_1. lra.
  - rewrite HK. split; [lia|]. split; [exact FA|]. rewrite EA. apply rnd_01.
    set (n := rnd (FR (nth k zr nan) + FR z)) in *.
    set (d := rnd (FR (nth k zr nan) - FR (nth (k - 1) zr nan))) in *. split.
    + apply Rmult_le_pos; [lra|]. left. apply Rinv_0_lt_compat. exact Hd.
    + apply (Rmult_le_reg_r d); [exact Hd|]. unfold Rdiv. rewrite Rmult_assoc, Rinv_l by lra. lra.
Qed.
Print Assumptions z2s_f_bounds.

(** * (B) The hypotheses as ONE computable boolean *)
Lemma FR_two1022 : fin two1022 /\ FR two1022 = bpow radix2 1022.
Proof. split; [apply fin_bool; reflexivity|]. apply FR_pow2; [lia|]. vm_compute. reflexivity. Qed.

Lemma level_ok_spec : forall a, level_ok a = true -> fin a /\ Rabs (FR a) <= bpow radix2 1022.
Proof.
  intros a H. unfold level_ok in H. apply andb_true_iff in H. destruct H as [H1 H2]. apply fin_bool in H1.
  split; [exact H1|]. destruct FR_two1022 as [F E]. rewrite <- E, <- FR_abs. apply leb_FR; auto using fin_abs.
Qed.

Lemma z2s_ok_spec : forall zr z, z2s_ok zr z = true ->
  (2 <= length zr)%nat /\ finl zr /\ levb zr /\ incr zr /\ fin z.
Proof.
  intros zr z H. unfold z2s_ok in H. rewrite !andb_true_iff in H. destruct H as [[[H1 H2] H3] H4].
  apply Nat.leb_le in H1. apply fin_bool in H4.
  assert (L : forall i, (i < length zr)%nat -> level_ok (nth i zr nan) = true).
  { intros i Hi. rewrite forallb_forall in H2. apply H2. apply nth_In. exact Hi. }
  assert (Fl : finl zr) by (intros i Hi; apply (level_ok_spec _ (L i Hi))).
  split; [exact H1|]. split; [exact Fl|]. split; [|split; [|exact H4]].
  - intros i Hi. apply (level_ok_spec _ (L i Hi)).
  - apply nondecreasing_incr; assumption.
Qed.

Theorem z2s_f_checked : forall zr z, z2s_ok zr z = true ->
  let K := fst (z2s_f zr z) in let A := snd (z2s_f zr z) in
  (1 <= K <= Z.of_nat (length zr) - 1)%Z /\ fin A /\ 0 <= FR A <= 1.
Proof.
  intros zr z H. destruct (z2s_ok_spec zr z H) as (H1 & H2 & H3 & H4 & H5). apply z2s_f_bounds; assumption.
Qed.

Corollary z2s_f_checked_bool : forall zr z, z2s_ok zr z = true -> z2s_inv (length zr) (z2s_f zr z) = true.
Proof.
  intros zr z H. pose proof (z2s_f_checked zr z H) as C. cbv zeta in C.
  unfold z2s_inv. destruct (z2s_f zr z) as [K A]. simpl in C. destruct C as ((K1 & K2) & FA & A0 & A1).
  rewrite !andb_true_iff. repeat split.
  - apply Z.leb_le. exact K1.
  - apply Z.leb_le. exact K2.
  - unfold fin in FA. rewrite <- is_finite_equiv in FA. exact FA.
  - apply leb_FR_true; [exact fin_0 | exact FA | rewrite FR_0; exact A0].
  - apply leb_FR_true; [exact FA | exact fin_1 | rewrite FR_1; exact A1].
Qed.
Print Assumptions z2s_f_checked_bool.

(** * (B) The depth the pair (K, A) stands for *)
Lemma u64_le_eighth : u64 <= / 8.
Proof. unfold u64. change (/ 8) with (bpow radix2 (-3)). apply bpow_le. lia. Qed.
Lemma eta_le_u : eta <= u64 / 4.
Proof.
  unfold eta, u64. replace (bpow radix2 (-53) / 4) with (bpow radix2 (-55)).
  - apply bpow_le. lia.
  - change (-55)%Z with (-53 + -2)%Z. rewrite bpow_plus. change (bpow radix2 (-2)) with (/ 4). field.
Qed.

(** pure real arithmetic: a quotient of two slightly perturbed numbers, rounded, times the exact denominator *)
Lemma weight_err : forall S D n d q al,
  0 <= S <= D -> 0 < D -> Rabs (n - S) <= u64 * S -> Rabs (d - D) <= u64 * D -> 0 < d -> 0 <= n <= d ->
  q * d = n -> Rabs (al - q) <= u64 * q + eta ->
  Rabs (al * D - S) <= (4 * u64 + eta) * D.
Proof.
  intros S D n d q al HS HD En Ed Pd Hn Hq Ea.
  pose proof u_pos as Hu. pose proof u64_le_eighth as Hu8. pose proof eta_pos as He.
  apply Rabs_le_inv in En. apply Rabs_le_inv in Ed.
  assert (Hd : 3 / 4 * D <= d) by nra.
  assert (Q0 : 0 <= q).
  { destruct (Rle_lt_dec 0 q) as [H|H]; [exact H|]. exfalso. assert (q * d < 0) by nra. lra. }
  assert (Q1 : q <= 1).
  { destruct (Rle_lt_dec q 1) as [H|H]; [exact H|]. exfalso. assert (d < q * d) by nra. lra. }
  set (t := q * D - S).
  assert (T : t * d = (n - S) * D - S * (d - D)) by (unfold t; rewrite <- Hq; ring).
  assert (T1 : - (2 * u64 * D * D) <= t * d <= 2 * u64 * D * D).
  { rewrite T. assert (0 <= u64 * S <= u64 * D) by nra. split; nra. }
  assert (T2 : Rabs t <= 8 / 3 * u64 * D).
  { apply Rabs_le. split.
    - destruct (Rle_lt_dec (- (8 / 3 * u64 * D)) t) as [H|H]; [exact H|]. exfalso.
      assert (t * d < - (8 / 3 * u64 * D) * (3 / 4 * D)) by nra. nra.
    - destruct (Rle_lt_dec t (8 / 3 * u64 * D)) as [H|H]; [exact H|]. exfalso.
      assert ((8 / 3 * u64 * D) * (3 / 4 * D) < t * d) by nra. nra. }
  replace (al * D - S) with ((al - q) * D + t) by (unfold t; ring).
  eapply Rle_trans; [apply Rabs_triang|]. rewrite Rabs_mult, (Rabs_pos_eq D) by lra.
  assert (Rabs (al - q) * D <= (u64 + eta) * D) by (apply Rmult_le_compat_r; [lra|nra]).
  nra.
Qed.

(** the exact combination b - A (b - a) with the FLOAT weight A against the exact depth -z *)
Theorem z2s_weight_error : forall a b z A : R,
  fmt a -> fmt b -> fmt z -> a < - z <= b ->
  A = rnd (rnd (b + z) / rnd (b - a)) ->
  Rabs ((A * a + (1 - A) * b) - (- z)) <= (4 * u64 + eta) * (b - a).
Proof.
  intros a b z A Fa Fb Fz Hz EA.
  pose proof (rnd_add_err b z Fb Fz) as En. rewrite (Rabs_pos_eq (b + z)) in En by lra.
  pose proof (rnd_add_err b (- a) Fb (fmt_opp _ Fa)) as Ed. change (b + - a) with (b - a) in Ed.
  rewrite (Rabs_pos_eq (b - a)) in Ed by lra.
  assert (Pd : 0 < rnd (b - a)) by (apply rnd_sub_pos; auto; lra).
  assert (Pn : 0 <= rnd (b + z) <= rnd (b - a)).
  { split; [rewrite <- rnd_0; apply rnd_le; lra | apply rnd_le; lra]. }
  set (n := rnd (b + z)) in *. set (d := rnd (b - a)) in *.
  assert (Q0 : 0 <= n / d) by (apply Rmult_le_pos; [lra | left; apply Rinv_0_lt_compat; exact Pd]).
  pose proof (rnd_err (n / d)) as Ea. rewrite <- EA, (Rabs_pos_eq (n / d)) in Ea by exact Q0.
  pose proof (weight_err (b + z) (b - a) n d (n / d) A) as W.
  replace (A * a + (1 - A) * b - - z) with (- (A * (b - a) - (b + z))) by ring. rewrite Rabs_Ropp.
  apply W; auto; try lra. field. lra.
Qed.

Definition clampR (lo hi x : R) : R := Rmax lo (Rmin hi x).

Lemma lerp_r_0 : forall d v, fmt v -> lerp_r 0 d v = v.
Proof.
  intros d v Fv. unfold lerp_r. rewrite Rmult_0_l, rnd_0, Rplus_0_l, Rminus_0_r, rnd_1, Rmult_1_l.
  rewrite !(rnd_id v Fv). reflexivity.
Qed.
Lemma lerp_r_1 : forall d v, fmt d -> lerp_r 1 d v = d.
Proof.
  intros d v Fd. unfold lerp_r. replace (1 - 1) with 0 by ring. rewrite rnd_0, Rmult_0_l, rnd_0, Rplus_0_r, Rmult_1_l.
  rewrite !(rnd_id d Fd). reflexivity.
Qed.

(** C12's third clause at the float level: the depth A * zr[K-1] + (1 - A) * zr[K], computed in binary64 the way
    the interpolation kernel combines two levels ([lerp_f]), is within 12 u M + 3 eta of the depth -z clamped
    to [zr[0], zr[N-1]] -- and EXACTLY the end level when -z is outside.  M bounds the levels, M <= 2^1000. *)
Theorem z2s_depth_error : forall zr z M,
  (2 <= length zr)%nat -> finl zr -> incr zr -> fin z ->
  (forall i, (i < length zr)%nat -> Rabs (FR (nth i zr nan)) <= M) -> M <= bpow radix2 1000 ->
  let r := z2s_depth_f zr (z2s_f zr z) in
  fin r /\
  Rabs (FR r - clampR (FR (nth 0 zr nan)) (FR (nth (length zr - 1) zr nan)) (- FR z)) <= 12 * u64 * M + 3 * eta.
Proof.
  intros zr z M HN Fl Il Fz BM HM r.
  assert (Bl : levb zr).
  { intros i Hi. eapply Rle_trans; [apply BM; exact Hi|]. eapply Rle_trans; [exact HM|]. apply bpow_le. lia. }
  assert (M0 : 0 <= M) by (eapply Rle_trans; [apply Rabs_pos | apply (BM 0%nat); lia]).
  assert (Fb : forall i, (i < length zr)%nat -> fb (nth i zr nan) 1000).
  { intros i Hi. split; [apply Fl; exact Hi|]. eapply Rle_trans; [apply BM; exact Hi | exact HM]. }
  assert (Hlohi : FR (nth 0 zr nan) <= FR (nth (length zr - 1) zr nan)) by (apply Il; lia).
  pose proof u_pos as Hu. pose proof eta_pos as He.
  assert (Bnd : 0 <= 12 * u64 * M + 3 * eta) by nra.
  unfold r, z2s_depth_f.
  destruct (z2s_f_cases zr z HN Fl Bl Il Fz) as [(Hall & HK & HA)|[(Hlow & HK & HA)|(k & Hk & HK & Hbr & FA & EA & Hn & Hd)]];
    cbv zeta in *; destruct (z2s_f zr z) as [K A]; simpl fst in *; simpl snd in *.
  - (* above the top level: exactly zr[N-1] *)
    subst K A. replace (Z.to_nat (Z.of_nat (length zr) - 1)) with (length zr - 1)%nat by lia.
    destruct (lerp_fb 0%float (nth (length zr - 1 - 1) zr nan) (nth (length zr - 1) zr nan)) as [[Fr _] Er].
    { split; [exact fin_0|]. rewrite FR_0, Rabs_R0. simpl. lra. }
    { apply Fb. lia. } { apply Fb. lia. }
    split; [exact Fr|]. rewrite Er, FR_0, lerp_r_0 by apply fmt_FR.
    assert (H : FR (nth (length zr - 1) zr nan) < - FR z) by (apply Hall; lia).
    unfold clampR. rewrite Rmin_left by lra. rewrite Rmax_right by lra.
    replace (_ - _) with 0 by ring. rewrite Rabs_R0. exact Bnd.
  - (* at or below the lowest level: exactly zr[0] *)
    subst K A. change (Z.to_nat 1 - 1)%nat with 0%nat. change (Z.to_nat 1) with 1%nat.
    destruct (lerp_fb 1%float (nth 0 zr nan) (nth 1 zr nan)) as [[Fr _] Er].
    { split; [exact fin_1|]. rewrite FR_1, Rabs_R1. simpl. lra. }
    { apply Fb. lia. } { apply Fb. lia. }
    split; [exact Fr|]. rewrite Er, FR_1, lerp_r_1 by apply fmt_FR.
    unfold clampR. rewrite Rmin_right by lra. rewrite Rmax_left by lra.
    replace (_ - _) with 0 by ring. rewrite Rabs_R0. exact Bnd.
  - (* between two levels *)
    subst K. rewrite Nat2Z.id.
    set (a := nth (k - 1) zr nan) in *. set (b := nth k zr nan) in *.
    assert (A01 : 0 <= FR A <= 1).
    { rewrite EA. apply rnd_01. set (n := rnd (FR b + FR z)) in *. set (d := rnd (FR b - FR a)) in *. split.
      - apply Rmult_le_pos; [lra|]. left. apply Rinv_0_lt_compat. exact Hd.
      - apply (Rmult_le_reg_r d); [exact Hd|]. unfold Rdiv. rewrite Rmult_assoc, Rinv_l by lra. lra. }
    destruct (lerp_fb A a b) as [[Fr _] Er].
    { split; [exact FA|]. rewrite Rabs_pos_eq by lra. simpl. lra. }
    { apply Fb. lia. } { apply Fb. lia. }
    split; [exact Fr|]. rewrite Er.
    assert (Ha : Rabs (FR a) <= M) by (apply BM; lia). assert (Hb : Rabs (FR b) <= M) by (apply BM; lia).
    pose proof (lerp_err (FR A) (FR a) (FR b) M (fmt_FR _) A01 Ha Hb) as E1.
    pose proof (z2s_weight_error (FR a) (FR b) (FR z) (FR A) (fmt_FR _) (fmt_FR _) (fmt_FR _) Hbr EA) as E2.
    assert (Hlo : FR (nth 0 zr nan) <= FR a).
    { destruct (Nat.eq_dec (k - 1) 0) as [E0|N0]; [unfold a; rewrite E0; lra | apply Il; lia]. }
    assert (Hhi : FR b <= FR (nth (length zr - 1) zr nan)).
    { destruct (Nat.eq_dec k (length zr - 1)) as [E0|N0]; [unfold b; rewrite E0; lra | apply Il; lia]. }
    unfold clampR. rewrite Rmin_right by lra. rewrite Rmax_right by lra.
    apply Rabs_le_inv in Ha. apply Rabs_le_inv in Hb.
    assert (D2 : FR b - FR a <= 2 * M) by lra.
    set (X := lerp_r (FR A) (FR a) (FR b)) in *. set (Y := FR A * FR a + (1 - FR A) * FR b) in *.
    replace (X - - FR z) with ((X - Y) + (Y - - FR z)) by ring.
    eapply Rle_trans; [apply Rabs_triang|].
    pose proof u64_le_eighth as Hu8. pose proof eta_le_u as Heu.
    assert (G : g3 <= 7 / 2 * u64) by (unfold g3; nra).
    assert (E2' : Rabs (Y - - FR z) <= (4 * u64 + eta) * (2 * M)).
    { eapply Rle_trans; [exact E2|]. apply Rmult_le_compat_l; [lra|exact D2]. }
    assert (g3 * M <= 7 / 2 * u64 * M) by (apply Rmult_le_compat_r; assumption).
    assert (2 * (1 + u64) * eta <= 3 * eta) by nra.
    assert (eta * (2 * M) <= u64 / 2 * M) by nra.
    lra.
Qed.
Print Assumptions z2s_depth_error.

#[local] Set Warnings "-inexact-float".
(** * Non-vacuity: the hypotheses hold (and the conclusions are computed) on nasty inputs *)
Open Scope float_scope.

(** z1 lands ONE ULP above the bottom h = 100: reflected to one ulp (of the binade below) under h *)
Example ex_ulp_above :
  vstep_ok 100 0x1p-46 1 100 = true /\ vdisp_f 100 0x1p-46 1 = 0x1.9000000000001p6 /\
  vstep_f 100 0x1p-46 1 100 = 0x1.8ffffffffffffp6 /\ in_column (vstep_f 100 0x1p-46 1 100) 100 = true.
Proof. vm_compute. repeat split. Qed.
(** h of subnormal size (3 * 2^-1074), start on the bottom, one unit further down: 2 h - 4 = 2 units *)
Example ex_subnormal :
  vstep_ok 0x3p-1074 0x1p-1074 1 0x3p-1074 = true /\ vstep_f 0x3p-1074 0x1p-1074 1 0x3p-1074 = 0x2p-1074.
Proof. vm_compute. split; reflexivity. Qed.
(** z = 0 moved up by 1: reflected at the surface (exact negation); z = 0 moved up by h: ends ON the bottom *)
Example ex_surface :
  vstep_ok 0 (-1) 1 100 = true /\ vstep_f 0 (-1) 1 100 = 1 /\
  vstep_ok 0 (-100) 1 100 = true /\ vstep_f 0 (-100) 1 100 = 100.
Proof. vm_compute. repeat split. Qed.
(** z = h moved down by h: z1 = 2 h exactly, reflected to +0 *)
Example ex_two_h : vstep_ok 100 100 1 100 = true /\ same_bits (vstep_f 100 100 1 100) 0 = true.
Proof. vm_compute. split; reflexivity. Qed.
(** -0.0: not below the surface; with a zero displacement of either sign *)
Example ex_negzero :
  vstep_ok (-0) 0 1 100 = true /\ same_bits (vstep_f (-0) 0 1 100) 0 = true /\
  same_bits (vstep_f (-0) (-0) 1 100) (-0) = true /\ same_bits (vstep_f 0 (-0) 1 100) 0 = true.
Proof. vm_compute. repeat split. Qed.
(** the largest h allowed, largest displacement allowed: no overflow *)
Example ex_huge : vstep_ok 0x1p1000 0x1p1000 1 0x1p1000 = true /\ same_bits (vstep_f 0x1p1000 0x1p1000 1 0x1p1000) 0 = true.
Proof. vm_compute. split; reflexivity. Qed.
(** a product w * dt that underflows to zero leaves the depth unchanged bit for bit *)
Example ex_underflow : vstep_f 0x1.23456789abcdep3 0x1p-600 0x1p-600 100 = 0x1.23456789abcdep3.
Proof. vm_compute. reflexivity. Qed.
(** two displacements *)
Example ex_two : vstep2_ok 99 0.5 0.25 4 100 = true /\ vstep2_f 99 0.5 0.25 4 100 = 98.
Proof. vm_compute. split; reflexivity. Qed.

(** TWO displacements with |d1| + |d2| = h EXACTLY can leave the water column in binary64 (they cannot in exact
    arithmetic, and one displacement with |d| <= h cannot either, [vstep_f_in_column]):
    h = 1.5 + 2^-52 (odd mantissa), z = h, d1 = h - 3 * 2^-52, d2 = 3 * 2^-52.
    z + d1 = 2 h - 3 * 2^-52 is a tie and rounds (to even) UP to 2 h - 2^-51; adding d2 gives 2 h + 2^-52, again a
    tie, rounded (to even) UP to 2 h + 2^-51 > 2 h; the bottom reflection 2 h - z1 is then NEGATIVE: -2^-51.
    The real numpy code returns the same -4.44e-16 (harness/props/vert_float.py replays this case).
    So the hypothesis "z1 <= 2 h" of [vstep2_f_bounds] is on the ROUNDED sum, and [vdisp2_f_range] asks for
    fl(h + b1) + b2 <= 2 h rather than b1 + b2 <= h alone. *)
Example vstep2_counterexample :
  let h := 0x1.8000000000001p0 in
  let d1 := 0x1.7fffffffffffep0 in let d2 := 0x1.8p-51 in
  same_bits (d1 + d2) h = true /\                                   (* |d1| + |d2| = h, exactly *)
  vstep2_f h d1 d2 1 h = (-0x1p-51) /\ (vstep2_f h d1 d2 1 h <? 0) = true /\
  vstep2_ok h d1 d2 1 h = false.
Proof. vm_compute. repeat split. Qed.

(** (B) levels ONE ULP apart: the denominator is one ulp, never rounded to zero *)
Example ex_levels_ulp :
  let zr := [-0x1.0000000000002p0; -0x1.0000000000001p0; -1] in
  z2s_ok zr 1 = true /\
  z2s_f zr 1 = (2%Z, 0) /\ z2s_f zr 0x1.0000000000001p0 = (1%Z, 0) /\ z2s_f zr 0x1.0000000000002p0 = (1%Z, 1) /\
  z2s_f zr 0.5 = (2%Z, 0) /\ z2s_f zr 2 = (1%Z, 1).
Proof. vm_compute. repeat split. Qed.
(** subnormal levels: 2^-1074 apart; the smallest subnormal as denominator *)
Example ex_levels_subnormal :
  let zr := [-0x3p-1074; -0x2p-1074; -0x1p-1074] in
  z2s_ok zr 0x2p-1074 = true /\ z2s_f zr 0x2p-1074 = (1%Z, 0) /\ z2s_f zr 0x1p-1074 = (2%Z, 0) /\
  z2s_f zr 0x3p-1074 = (1%Z, 1) /\ z2s_f zr 0 = (2%Z, 0).
Proof. vm_compute. repeat split. Qed.
(** z = 0 and z = -0.0 are above every (negative) level: K = N - 1, A = +0 *)
Example ex_surface_z :
  z2s_ok [-10; -5; -1] 0 = true /\ z2s_ok [-10; -5; -1] (-0) = true /\
  z2s_f [-10; -5; -1] 0 = (2%Z, 0) /\ z2s_f [-10; -5; -1] (-0) = (2%Z, 0).
Proof. vm_compute. repeat split. Qed.
(** the largest levels allowed: the difference 2^1023 does not overflow *)
Example ex_levels_huge :
  z2s_ok [-0x1p1022; 0x1p1022] 0 = true /\ z2s_f [-0x1p1022; 0x1p1022] 0 = (1%Z, 0.5).
Proof. vm_compute. split; reflexivity. Qed.
(** ... larger levels and numerator and denominator both overflow: A = NaN (inf / inf) -- why [level_ok] bounds the levels *)
Example ex_levels_overflow :
  z2s_ok [-0x1.8p1023; 0x1.8p1023] 0x1.4p1023 = false /\
  Coq.Floats.PrimFloat.is_nan (snd (z2s_f [-0x1.8p1023; 0x1.8p1023] 0x1.4p1023)) = true.
Proof. vm_compute. split; reflexivity. Qed.
(** a general weight: levels -10.1, -5.3, -1.7, z = 3.3 *)
Example ex_general :
  z2s_ok [-10.1; -5.3; -1.7] 3.3 = true /\ z2s_inv 3 (z2s_f [-10.1; -5.3; -1.7] 3.3) = true /\
  fst (z2s_f [-10.1; -5.3; -1.7] 3.3) = 2%Z.
Proof. vm_compute. repeat split. Qed.

(** the theorems applied to concrete instances *)
Open Scope R_scope.
Example ex_apply_vstep : 0 <= FR (vstep_f 100 0x1p-46 1 100) <= FR 100.
Proof. apply (vstep_f_checked 100 0x1p-46 1 100). vm_compute. reflexivity. Qed.
Example ex_apply_z2s : 0 <= FR (snd (z2s_f [-10.1; -5.3; -1.7] 3.3)%float) <= 1.
Proof. apply (z2s_f_checked [-10.1; -5.3; -1.7]%float 3.3%float). vm_compute. reflexivity. Qed.
