(** Local truncation error of the explicit midpoint rule (RK2) by Taylor's theorem, and hence
    COMPLETE second-order convergence of the tracker's RK2 scheme, over the reals.

    GeneralConvergenceProofs.v proves "consistency + stability => convergence" and the stability of
    Phi_RK2 f h t x = f (t + h/2) (x + h/2 * f t x), but its RK2_converges_order2 keeps the local
    truncation bound  |y(t+h) - y(t) - h * Phi_RK2 f h t (y t)| <= C * h^3  as a HYPOTHESIS.
    This file DISCHARGES that hypothesis for two classes of fields.  One space dimension throughout.

    (A) AUTONOMOUS fields  f t x = g x.     Exact hypotheses (Section Field):
          Hg1 : forall x, ex_derive g x                    g differentiable on R
          Hg2 : forall x, ex_derive (Derive g) x           g' differentiable on R
          HB0 : forall x, Rabs (g x) <= B0
          HB1 : forall x, Rabs (Derive g x) <= B1          (so g is B1-Lipschitz: g_lipschitz)
          HB2 : forall x, Rabs (Derive_n g 2 x) <= B2
        and y solves the equation on the CLOSED interval (Coquelicot's two-sided derivative, also at
        the two end points):
          Hode : forall t, t0 <= t <= t0 + T -> is_derive y t (g (y t)).
        No regularity of y is assumed beyond Hode: the second derivative (g' o y)(g o y) and the
        third derivative (g'' o y)(g o y)^2 + (g' o y)^2 (g o y) of y are DERIVED (sol_Derive2,
        sol_Derive3), the third one being bounded by M3 := B2 B0^2 + B1^2 B0.
        With C_RK2 := M3/6 + B2 B0^2/8:
          RK2_autonomous_local_truncation_open   ODE on an open (a,b), a < s, s+h < b, 0 < h:
              |y(s+h) - y s - h g(y s + h/2 g(y s))| <= C_RK2 h^3
              (splitting  e = [y(s+h) - y - h Dy - h^2/2 D2y] - h [g(z) - g(p) - (z-p) Dg(p)],
               Taylor_Lagrange with n = 2 on y and with n = 1 on r |-> g(p + r (z-p)); the third
               derivative of g is not needed)
          RK2_autonomous_local_truncation        the same on the closed [t0, t0+T], t0 <= s,
              s+h <= t0+T (the two end steps by continuity: the step shrunk by eps at both ends lies
              in the open interval, and its error is a continuous function of eps)
          RK2_autonomous_converges_order2        COMPLETE: n midpoint steps of size h, n h = T,
              from y t0 end within  exp(T * Lip_RK2 h B1) * T * C_RK2 * h^2  of y (t0 + T)
          RK2_autonomous_converges_order2_uniform   the same with Lip_RK2 hmax B1 for h <= hmax
          model_RK2_autonomous_converges_order2  the same for n steps of the rational model
              (rk_iter ... tab_RK2) on a velocity oracle whose x-component equals g through Q2R
          RK2_sin_example (closed, no hypotheses): g = sin, B0 = B1 = B2 = 1, y(0) = PI/2, exact
              solution y t = 2 atan (exp t):  |x_n - 2 atan(exp T)| <= exp(T Lip_RK2 h 1) T (11/24) h^2.

    (B) NON-AUTONOMOUS fields f t x.        Exact hypotheses (Section NonAutonomous): functions
        ft fx ftt ftx fxt fxx : R -> R -> R with (Coquelicot's Frechet differentiability in R^2)
          Hf  : forall t x, differentiable_pt_lim f  t x (ft  t x) (fx  t x)
          Hft : forall t x, differentiable_pt_lim ft t x (ftt t x) (ftx t x)
          Hfx : forall t x, differentiable_pt_lim fx t x (fxt t x) (fxx t x)
        (the two mixed partials are kept apart, so Schwarz's theorem is not needed) and the bounds
          |f| <= B0, |ft| <= Bt, |fx| <= Bx, |ftt| <= Btt, |ftx| <= Btx, |fxt| <= Bxt, |fxx| <= Bxx
        for all t x (so f is Bx-Lipschitz in x: f_lipschitz), and
          Hode : forall t, t0 <= t <= t0 + T -> is_derive y t (f t (y t)).
        With N2 := Btt + B0 Btx + B0 Bxt + B0^2 Bxx,  M3n := N2 + Bx (Bt + Bx B0)  (bound of the
        third derivative of y),  C_RK2n := M3n/6 + N2/8:
          RK2_local_truncation_open, RK2_local_truncation:
              |y(s+h) - y s - h * Phi_RK2 f h s (y s)| <= C_RK2n h^3
          RK2_nonautonomous_converges_order2 (COMPLETE), ..._uniform:
              |x_n - y (t0 + T)| <= exp(T * Lip_RK2 h Bx) * T * C_RK2n * h^2
          RK2_shift_example (closed): f t x = 1 + sin (x - t), y t = t + 2 atan (exp t), C = 25/8.
        For f t x = g x:  N2 = B2 B0^2 and M3n = M3, i.e. (B) specialises to the constants of (A).

    WHAT REMAINS A HYPOTHESIS: existence of the exact solution y (given, not constructed); global
    (all x, all t) boundedness of f and of its derivatives up to order 2; scalar case.
    No axioms beyond those of the standard-library reals / Coquelicot (Print Assumptions below). *)
From Coq Require Import Reals Lra Lia QArith Qreals.
From Coquelicot Require Import Coquelicot.
From Ladim Require Import Model.Tracker Proofs.ConvergenceProofs Proofs.GeneralConvergenceProofs.
Open Scope R_scope.

Lemma Rabs_mult_le a b A B : Rabs a <= A -> Rabs b <= B -> Rabs (a * b) <= A * B.
Proof.
  intros Ha Hb. rewrite Rabs_mult.
  apply Rmult_le_compat; try apply Rabs_pos; assumption.
Qed.

Lemma Rabs_sqr_le a A : Rabs a <= A -> a ^ 2 <= A ^ 2.
Proof.
  intros Ha. pose proof (Rabs_pos a) as H0.
  replace (a ^ 2) with (Rabs a ^ 2).
  - apply pow_incr. lra.
  - rewrite RPow_abs. apply Rabs_pos_eq. apply pow2_ge_0.
Qed.

(** * (A) AUTONOMOUS fields f t x = g x *)
Section Field.
  Variable g : R -> R.
  Variables B0 B1 B2 : R.
  Hypothesis Hg1 : forall x : R, ex_derive g x.
  Hypothesis Hg2 : forall x : R, ex_derive (Derive g) x.
  Hypothesis HB0 : forall x, Rabs (g x) <= B0.
  Hypothesis HB1 : forall x, Rabs (Derive g x) <= B1.
  Hypothesis HB2 : forall x, Rabs (Derive_n g 2 x) <= B2.

  Lemma B0_nonneg : 0 <= B0.
  Proof. eapply Rle_trans. apply Rabs_pos. apply (HB0 0). Qed.
  Lemma B1_nonneg : 0 <= B1.
  Proof. eapply Rle_trans. apply Rabs_pos. apply (HB1 0). Qed.
  Lemma B2_nonneg : 0 <= B2.
  Proof. eapply Rle_trans. apply Rabs_pos. apply (HB2 0). Qed.

  Lemma g_is_derive x : is_derive g x (Derive g x).
  Proof. apply Derive_correct. apply Hg1. Qed.
  Lemma dg_is_derive x : is_derive (Derive g) x (Derive_n g 2 x).
  Proof. apply (Derive_correct (Derive g)). apply Hg2. Qed.

  (** g is B1-Lipschitz *)
  Lemma g_lipschitz x x' : Rabs (g x - g x') <= B1 * Rabs (x - x').
  Proof.
    apply (bounded_variation g (Derive g)).
    intros t _. split. apply g_is_derive. apply HB1.
  Qed.

  (** first-order Taylor expansion of g at p with increment d of any sign *)
  Section TaylorG.
    Variables p d : R.
    Let phi (s : R) : R := g (p + s * d).

    Lemma phi_is_derive s : is_derive phi s (d * Derive g (p + s * d)).
    Proof.
      unfold phi. auto_derive. apply Hg1. rewrite Rmult_1_l. reflexivity.
    Qed.
    Lemma Derive_phi s : Derive phi s = d * Derive g (p + s * d).
    Proof. apply is_derive_unique. apply phi_is_derive. Qed.
    Lemma dphi_is_derive s :
      is_derive (Derive phi) s (d * (d * Derive_n g 2 (p + s * d))).
    Proof.
      apply (is_derive_ext (fun u => d * Derive g (p + u * d))).
      - intros u. symmetry. apply Derive_phi.
      - auto_derive. apply Hg2. rewrite Rmult_1_l. reflexivity.
    Qed.
    Lemma Derive2_phi s : Derive_n phi 2 s = d ^ 2 * Derive_n g 2 (p + s * d).
    Proof.
      change (Derive_n phi 2 s) with (Derive (Derive phi) s).
      rewrite (is_derive_unique _ _ _ (dphi_is_derive s)). ring.
    Qed.

    Lemma taylor1_g :
      Rabs (g (p + d) - g p - d * Derive g p) <= B2 * d ^ 2 / 2.
    Proof.
      destruct (Taylor_Lagrange phi 1 0 1 ltac:(lra)) as (c & Hc & E).
      { intros t Ht k Hk.
        destruct k as [|[|[|k]]]; [exact I | | | lia].
        - exists (d * Derive g (p + t * d)). apply phi_is_derive.
        - exists (d * (d * Derive_n g 2 (p + t * d))). apply dphi_is_derive. }
      assert (E2 : g (p + d) - g p - d * Derive g p = d ^ 2 / 2 * Derive_n g 2 (p + c * d)).
      { replace (g (p + d)) with (phi 1) by (unfold phi; f_equal; ring).
        rewrite E. cbn [sum_f_R0]. rewrite Derive2_phi.
        change (Derive_n phi 0 0) with (phi 0). change (Derive_n phi 1 0) with (Derive phi 0).
        rewrite Derive_phi. unfold phi.
        replace (p + 0 * d) with p by ring.
        generalize (Derive_n g 2 (p + c * d)) (Derive g p) (g p). intros d2 d1 d0. simpl. field. }
      rewrite E2. rewrite Rabs_mult, Rabs_pos_eq.
      - pose proof (HB2 (p + c * d)) as H.
        assert (0 <= d ^ 2 / 2) by (pose proof (pow2_ge_0 d); lra).
        replace (B2 * d ^ 2 / 2) with (d ^ 2 / 2 * B2) by field.
        apply Rmult_le_compat_l; assumption.
      - pose proof (pow2_ge_0 d); lra.
    Qed.
  End TaylorG.

  (** ** the exact solution on an open interval (a, b) *)
  Definition M3 : R := B2 * B0 ^ 2 + B1 ^ 2 * B0.
  Definition C_RK2 : R := M3 / 6 + B2 * B0 ^ 2 / 8.

  Lemma M3_nonneg : 0 <= M3.
  Proof.
    unfold M3. pose proof B0_nonneg. pose proof B1_nonneg. pose proof B2_nonneg.
    assert (0 <= B2 * B0 ^ 2) by (apply Rmult_le_pos; [lra | apply pow2_ge_0]).
    assert (0 <= B1 ^ 2 * B0) by (apply Rmult_le_pos; [apply pow2_ge_0 | lra]).
    lra.
  Qed.
  Lemma C_RK2_nonneg : 0 <= C_RK2.
  Proof.
    unfold C_RK2. pose proof M3_nonneg. pose proof B2_nonneg.
    assert (0 <= B2 * B0 ^ 2) by (apply Rmult_le_pos; [lra | apply pow2_ge_0]).
    lra.
  Qed.

  Section Solution.
    Variable y : R -> R.
    Variables a b : R.
    Hypothesis Hode : forall t, a < t < b -> is_derive y t (g (y t)).

    Lemma sol_Derive t : a < t < b -> Derive y t = g (y t).
    Proof. intros Ht. apply is_derive_unique. apply Hode. exact Ht. Qed.

    Lemma sol_locally t (P : R -> Prop) : a < t < b ->
      (forall s, a < s < b -> P s) -> locally t P.
    Proof.
      intros Ht HP. apply (locally_interval P t a b); simpl; try lra.
      intros s Hs1 Hs2. apply HP. simpl in *. lra.
    Qed.

    Lemma comp_is_derive (k : R -> R) (dk : R) t : a < t < b ->
      is_derive k (y t) dk -> is_derive (fun s => k (y s)) t (dk * g (y t)).
    Proof.
      intros Ht Hk.
      evar_last. apply (is_derive_comp k y). exact Hk. apply Hode. exact Ht.
      simpl. unfold scal; simpl; unfold mult; simpl. ring.
    Qed.

    (** y'' = (g' o y) * (g o y) *)
    Lemma sol_d1_is_derive t : a < t < b ->
      is_derive (Derive y) t (Derive g (y t) * g (y t)).
    Proof.
      intros Ht.
      apply (is_derive_ext_loc (fun s => g (y s))).
      - apply sol_locally. exact Ht. intros s Hs. symmetry. apply sol_Derive. exact Hs.
      - apply comp_is_derive. exact Ht. apply g_is_derive.
    Qed.

    Lemma sol_Derive2 t : a < t < b -> Derive_n y 2 t = Derive g (y t) * g (y t).
    Proof.
      intros Ht. change (Derive_n y 2 t) with (Derive (Derive y) t).
      apply is_derive_unique. apply sol_d1_is_derive. exact Ht.
    Qed.

    (** y''' = (g'' o y) * (g o y)^2 + (g' o y)^2 * (g o y) *)
    Definition y3 (t : R) : R :=
      Derive_n g 2 (y t) * g (y t) ^ 2 + Derive g (y t) ^ 2 * g (y t).

    Lemma sol_d2_is_derive t : a < t < b -> is_derive (Derive_n y 2) t (y3 t).
    Proof.
      intros Ht.
      apply (is_derive_ext_loc (fun s => Derive g (y s) * g (y s))).
      - apply sol_locally. exact Ht. intros s Hs. symmetry. apply sol_Derive2. exact Hs.
      - pose proof (comp_is_derive (Derive g) _ t Ht (dg_is_derive (y t))) as H1.
        pose proof (comp_is_derive g _ t Ht (g_is_derive (y t))) as H2.
        evar_last.
        apply (is_derive_mult (fun s => Derive g (y s)) (fun s => g (y s)) t _ _ H1 H2).
        intros u v. apply Rmult_comm.
        unfold y3, plus, mult; simpl. ring.
    Qed.

    Lemma sol_Derive3 t : a < t < b -> Derive_n y 3 t = y3 t.
    Proof.
      intros Ht. change (Derive_n y 3 t) with (Derive (Derive_n y 2) t).
      apply is_derive_unique. apply sol_d2_is_derive. exact Ht.
    Qed.

    Lemma y3_bound t : Rabs (y3 t) <= M3.
    Proof.
      unfold y3, M3. eapply Rle_trans. apply Rabs_triang.
      apply Rplus_le_compat.
      - apply Rabs_mult_le. apply HB2.
        rewrite Rabs_pos_eq by apply pow2_ge_0. apply Rabs_sqr_le. apply HB0.
      - apply Rabs_mult_le; [|apply HB0].
        rewrite Rabs_pos_eq by apply pow2_ge_0. apply Rabs_sqr_le. apply HB1.
    Qed.

    (** Taylor-Lagrange of order 2 for y *)
    Lemma taylor3_y s h : 0 < h -> a < s -> s + h < b ->
      Rabs (y (s + h) - y s - h * g (y s) - h ^ 2 / 2 * (Derive g (y s) * g (y s)))
        <= M3 * h ^ 3 / 6.
    Proof.
      intros Hh Ha Hb.
      destruct (Taylor_Lagrange y 2 s (s + h) ltac:(lra)) as (c & Hc & E).
      { intros t Ht k Hk.
        assert (Ht' : a < t < b) by lra.
        destruct k as [|[|[|[|k]]]]; [exact I | | | | lia].
        - exists (g (y t)). apply Hode. exact Ht'.
        - exists (Derive g (y t) * g (y t)). apply sol_d1_is_derive. exact Ht'.
        - exists (y3 t). apply sol_d2_is_derive. exact Ht'. }
      assert (E2 : y (s + h) - y s - h * g (y s) - h ^ 2 / 2 * (Derive g (y s) * g (y s))
                   = h ^ 3 / 6 * y3 c).
      { rewrite E. replace (s + h - s) with h by ring. cbn [sum_f_R0].
        rewrite sol_Derive3, sol_Derive2 by lra.
        change (Derive_n y 0 s) with (y s). change (Derive_n y 1 s) with (Derive y s).
        rewrite sol_Derive by lra.
        generalize (y3 c) (Derive g (y s)) (g (y s)) (y s). intros d3 d2 d1 d0. simpl. field. }
      rewrite E2. rewrite Rabs_mult, Rabs_pos_eq.
      - pose proof (y3_bound c) as H.
        assert (0 <= h ^ 3 / 6) by (pose proof (pow_le h 3 (Rlt_le _ _ Hh)); lra).
        replace (M3 * h ^ 3 / 6) with (h ^ 3 / 6 * M3) by field.
        apply Rmult_le_compat_l; assumption.
      - pose proof (pow_le h 3 (Rlt_le _ _ Hh)); lra.
    Qed.

    (** LOCAL TRUNCATION ERROR of the explicit midpoint rule along y *)
    Theorem RK2_autonomous_local_truncation_open s h : 0 < h -> a < s -> s + h < b ->
      Rabs (y (s + h) - y s - h * g (y s + h / 2 * g (y s))) <= C_RK2 * h ^ 3.
    Proof.
      intros Hh Ha Hb.
      pose proof (taylor3_y s h Hh Ha Hb) as H1.
      pose proof (taylor1_g (y s) (h / 2 * g (y s))) as H2.
      set (p := y s) in *. set (z := p + h / 2 * g p) in *.
      assert (H3 : (h / 2 * g p) ^ 2 <= h ^ 2 / 4 * B0 ^ 2).
      { replace ((h / 2 * g p) ^ 2) with (h ^ 2 / 4 * g p ^ 2) by field.
        apply Rmult_le_compat_l. pose proof (pow2_ge_0 h); lra.
        apply Rabs_sqr_le. apply HB0. }
      assert (H4 : Rabs (g z - g p - h / 2 * g p * Derive g p) <= B2 * (h ^ 2 / 4 * B0 ^ 2) / 2).
      { eapply Rle_trans. exact H2.
        pose proof B2_nonneg.
        assert (B2 * (h / 2 * g p) ^ 2 <= B2 * (h ^ 2 / 4 * B0 ^ 2))
          by (apply Rmult_le_compat_l; assumption).
        lra. }
      replace (y (s + h) - p - h * g z)
        with ((y (s + h) - p - h * g p - h ^ 2 / 2 * (Derive g p * g p))
              + - (h * (g z - g p - h / 2 * g p * Derive g p))) by field.
      eapply Rle_trans. apply Rabs_triang. rewrite Rabs_Ropp, Rabs_mult, (Rabs_pos_eq h) by lra.
      assert (H5 : h * Rabs (g z - g p - h / 2 * g p * Derive g p)
                   <= h * (B2 * (h ^ 2 / 4 * B0 ^ 2) / 2))
        by (apply Rmult_le_compat_l; [lra | exact H4]).
      unfold C_RK2. apply Rle_trans with (M3 * h ^ 3 / 6 + h * (B2 * (h ^ 2 / 4 * B0 ^ 2) / 2)).
      lra. apply Req_le. field.
    Qed.
  End Solution.

  (** ** the exact solution on a CLOSED interval [t0, t0 + T]: the two end steps by continuity *)
  Section SolutionClosed.
    Variable y : R -> R.
    Variables t0 T : R.
    Hypothesis Hode : forall t, t0 <= t <= t0 + T -> is_derive y t (g (y t)).

    Lemma Hode_open : forall t, t0 < t < t0 + T -> is_derive y t (g (y t)).
    Proof. intros t Ht. apply Hode. lra. Qed.

    Section Shrink.
      Variables s h : R.
      Hypothesis Hh : 0 < h.
      Hypothesis Hs0 : t0 <= s.
      Hypothesis Hs1 : s + h <= t0 + T.

      (** the local error of the step shrunk by eps at both ends *)
      Definition shrunk (eps : R) : R :=
        y (s + h - eps) - y (s + eps)
        - (h - 2 * eps) * g (y (s + eps) + (h - 2 * eps) / 2 * g (y (s + eps))).

      Lemma shrunk_0 : shrunk 0 = y (s + h) - y s - h * g (y s + h / 2 * g (y s)).
      Proof.
        unfold shrunk.
        replace (s + h - 0) with (s + h) by ring. replace (s + 0) with s by ring.
        replace (h - 2 * 0) with h by ring. reflexivity.
      Qed.

      Lemma shrunk_bound eps : 0 < eps < h / 2 -> Rabs (shrunk eps) <= C_RK2 * h ^ 3.
      Proof.
        intros He.
        pose proof (RK2_autonomous_local_truncation_open y t0 (t0 + T) Hode_open
                      (s + eps) (h - 2 * eps) ltac:(lra) ltac:(lra) ltac:(lra)) as H.
        replace (s + eps + (h - 2 * eps)) with (s + h - eps) in H by ring.
        eapply Rle_trans. exact H.
        apply Rmult_le_compat_l. apply C_RK2_nonneg.
        apply pow_incr. lra.
      Qed.

      Lemma shrunk_continuous : continuous shrunk 0.
      Proof.
        apply (ex_derive_continuous (K := R_AbsRing) (V := R_NormedModule) shrunk 0).
        assert (Hy0 : ex_derive y (s + 0)).
        { exists (g (y (s + 0))). apply Hode. lra. }
        assert (Hy1 : ex_derive y (s + h - 0)).
        { exists (g (y (s + h - 0))). apply Hode. lra. }
        unfold shrunk. auto_derive.
        repeat split; try assumption; try apply Hg1.
      Qed.

      Lemma closed_step_bound :
        Rabs (y (s + h) - y s - h * g (y s + h / 2 * g (y s))) <= C_RK2 * h ^ 3.
      Proof.
        rewrite <- shrunk_0.
        apply le_epsilon. intros e He.
        assert (Hc : filterlim shrunk (locally (0 : R_UniformSpace)) (locally (shrunk 0 : R_UniformSpace))) by exact shrunk_continuous.
        destruct (proj1 (filterlim_locally shrunk (shrunk 0)) Hc (mkposreal e He)) as [d Hd].
        set (eps := Rmin (pos d / 2) (h / 4)).
        assert (Heps : 0 < eps < h / 2 /\ eps < d).
        { unfold eps. pose proof (cond_pos d).
          pose proof (Rmin_l (d / 2) (h / 4)). pose proof (Rmin_r (d / 2) (h / 4)).
          assert (0 < Rmin (d / 2) (h / 4)) by (apply Rmin_glb_lt; lra). lra. }
        assert (Hb : Rabs (shrunk eps - shrunk 0) < e).
        { apply (Hd eps). unfold ball; simpl. unfold AbsRing_ball, abs, minus, plus, opp; simpl.
          rewrite Ropp_0, Rplus_0_r, Rabs_pos_eq by lra. lra. }
        pose proof (shrunk_bound eps (proj1 Heps)) as H1.
        replace (shrunk 0) with (shrunk eps + - (shrunk eps - shrunk 0)) by ring.
        eapply Rle_trans. apply Rabs_triang. rewrite Rabs_Ropp. lra.
      Qed.
    End Shrink.

    Theorem RK2_autonomous_local_truncation s h : 0 < h -> t0 <= s -> s + h <= t0 + T ->
      Rabs (y (s + h) - y s - h * Phi_RK2 (fun _ x => g x) h s (y s)) <= C_RK2 * h ^ 3.
    Proof. intros Hh H0 H1. unfold Phi_RK2. apply closed_step_bound; assumption. Qed.
  End SolutionClosed.

  (** ** second-order convergence of the explicit midpoint rule: COMPLETE *)
  Section Convergence.
    Variable y : R -> R.
    Variables h t0 T : R.
    Variable n : nat.
    Hypothesis Hh : 0 < h.
    Hypothesis HT : INR n * h = T.
    Hypothesis Hode : forall t, t0 <= t <= t0 + T -> is_derive y t (g (y t)).

    Lemma RK2_autonomous_grid_truncation k : (k < n)%nat ->
      Rabs (y (t0 + INR (S k) * h) - y (t0 + INR k * h)
            - h * Phi_RK2 (fun _ x => g x) h (t0 + INR k * h) (y (t0 + INR k * h)))
        <= C_RK2 * h ^ 3.
    Proof.
      intros Hk.
      pose proof (grid_in_interval t0 h n k Hh ltac:(lia)) as H1.
      pose proof (grid_in_interval t0 h n (S k) Hh ltac:(lia)) as H2.
      rewrite HT in H1, H2.
      replace (t0 + INR (S k) * h) with (t0 + INR k * h + h) in * by (rewrite S_INR; ring).
      apply (RK2_autonomous_local_truncation y t0 T Hode); lra.
    Qed.

    Theorem RK2_autonomous_converges_order2 :
      Rabs (one_step_iter (Phi_RK2 (fun _ x => g x) h) h t0 n (y t0) - y (t0 + T))
        <= exp (T * Lip_RK2 h B1) * T * C_RK2 * h ^ 2.
    Proof.
      apply (RK2_converges_order2 (fun _ x => g x) y h B1 C_RK2 t0 T n Hh B1_nonneg C_RK2_nonneg HT).
      - intros _ x x'. apply g_lipschitz.
      - exact RK2_autonomous_grid_truncation.
    Qed.
  End Convergence.
End Field.

(** * Non-vacuity: y' = sin y, y(0) = PI/2, exact solution y t = 2 atan (exp t); B0 = B1 = B2 = 1 *)
Lemma sin_is_derive x : is_derive sin x (cos x).
Proof. auto_derive. exact I. ring. Qed.
Lemma cos_is_derive x : is_derive cos x (- sin x).
Proof. auto_derive. exact I. ring. Qed.
Lemma Derive_sin x : Derive sin x = cos x.
Proof. apply is_derive_unique. apply sin_is_derive. Qed.
Lemma Derive2_sin x : Derive_n sin 2 x = - sin x.
Proof.
  change (Derive_n sin 2 x) with (Derive (Derive sin) x).
  rewrite (Derive_ext _ cos x Derive_sin). apply is_derive_unique. apply cos_is_derive.
Qed.
Lemma Rabs_sin_le x : Rabs (sin x) <= 1.
Proof. apply Rabs_le. pose proof (SIN_bound x). lra. Qed.
Lemma Rabs_cos_le x : Rabs (cos x) <= 1.
Proof. apply Rabs_le. pose proof (COS_bound x). lra. Qed.

Lemma sin_2atan u : sin (2 * atan u) = 2 * u / (1 + u ^ 2).
Proof.
  rewrite sin_2a, sin_atan, cos_atan.
  assert (Hp : 0 < 1 + u²) by (pose proof (Rle_0_sqr u); lra).
  pose proof (sqrt_lt_R0 _ Hp) as Hs.
  pose proof (sqrt_sqrt (1 + u²) (Rlt_le _ _ Hp)) as E.
  replace (1 + u ^ 2) with (sqrt (1 + u²) * sqrt (1 + u²)) by (rewrite E; unfold Rsqr; ring).
  field. lra.
Qed.

Definition y_sin (t : R) : R := 2 * atan (exp t).

Lemma y_sin_is_derive t : is_derive y_sin t (sin (y_sin t)).
Proof.
  unfold y_sin. rewrite sin_2atan. auto_derive. exact I.
  assert (0 < 1 + exp t ^ 2) by (pose proof (pow2_ge_0 (exp t)); lra).
  field. lra.
Qed.

Lemma y_sin_0 : y_sin 0 = PI / 2.
Proof. unfold y_sin. rewrite exp_0, atan_1. field. Qed.

Example RK2_sin_example n h T : 0 < h -> INR n * h = T ->
  Rabs (one_step_iter (Phi_RK2 (fun _ x => sin x) h) h 0 n (PI / 2) - 2 * atan (exp T))
    <= exp (T * Lip_RK2 h 1) * T * (11 / 24) * h ^ 2.
Proof.
  intros Hh HT.
  pose proof (RK2_autonomous_converges_order2 sin 1 1 1) as H.
  specialize (H (fun x => ex_intro _ _ (sin_is_derive x))).
  assert (H2 : forall x : R, ex_derive (Derive sin) x).
  { intros x. apply (ex_derive_ext cos). intros u. symmetry. apply Derive_sin.
    exists (- sin x). apply cos_is_derive. }
  specialize (H H2 Rabs_sin_le).
  assert (H3 : forall x, Rabs (Derive sin x) <= 1) by (intros x; rewrite Derive_sin; apply Rabs_cos_le).
  assert (H4 : forall x, Rabs (Derive_n sin 2 x) <= 1)
    by (intros x; rewrite Derive2_sin, Rabs_Ropp; apply Rabs_sin_le).
  specialize (H H3 H4 y_sin h 0 T n Hh HT (fun t _ => y_sin_is_derive t)).
  rewrite y_sin_0, Rplus_0_l in H. unfold y_sin at 1 in H.
  replace (C_RK2 1 1 1) with (11 / 24) in H by (unfold C_RK2, M3; field).
  exact H.
Qed.

(** * (B) NON-AUTONOMOUS fields f t x with bounded partial derivatives up to second order *)
Lemma Rabs_mult3_le a b c A B C :
  Rabs a <= A -> Rabs b <= B -> Rabs c <= C -> Rabs (a * b * c) <= A * B * C.
Proof. intros Ha Hb Hc. apply Rabs_mult_le. apply Rabs_mult_le; assumption. exact Hc. Qed.

Lemma Rabs_triang4 a b c d A B C D :
  Rabs a <= A -> Rabs b <= B -> Rabs c <= C -> Rabs d <= D ->
  Rabs (a + b + c + d) <= A + B + C + D.
Proof.
  intros Ha Hb Hc Hd.
  pose proof (Rabs_triang (a + b + c) d). pose proof (Rabs_triang (a + b) c).
  pose proof (Rabs_triang a b). lra.
Qed.

(** chain rule for a two-variable function along a curve, in [is_derive] form *)
Lemma is_derive_comp2 (k : R -> R -> R) (u v : R -> R) (t kx ky du dv : R) :
  differentiable_pt_lim k (u t) (v t) kx ky ->
  is_derive u t du -> is_derive v t dv ->
  is_derive (fun s => k (u s) (v s)) t (kx * du + ky * dv).
Proof.
  intros Hk Hu Hv. apply is_derive_Reals.
  apply derivable_pt_lim_comp_2d. exact Hk.
  apply is_derive_Reals. exact Hu. apply is_derive_Reals. exact Hv.
Qed.

Lemma is_derive_const_R (c x : R) : is_derive (fun _ : R => c) x 0.
Proof. auto_derive. exact I. ring. Qed.
Lemma is_derive_id_R (x : R) : is_derive (fun u : R => u) x 1.
Proof. auto_derive. exact I. ring. Qed.

(** differentiability at 0 of the local error of a step shrunk by eps at both ends
    (used to extend the local truncation bound to the end points of a closed interval) *)
Lemma shrunk_ex_derive (y G K : R -> R) (s h : R) :
  ex_derive y s -> ex_derive y (s + h) -> ex_derive K s -> (forall x, ex_derive G x) ->
  ex_derive (fun e => y (s + h - e) - y (s + e)
                      - (h - 2 * e) * G (y (s + e) + (h - 2 * e) / 2 * K (s + e))) 0.
Proof.
  intros Hy0 Hy1 HK HG.
  replace s with (s + 0) in Hy0, HK by ring.
  replace (s + h) with (s + h - 0) in Hy1 by ring.
  auto_derive. repeat split; try assumption; try apply HG.
Qed.

Section NonAutonomous.
  Variables f ft fx ftt ftx fxt fxx : R -> R -> R.
  Variables B0 Bt Bx Btt Btx Bxt Bxx : R.
  Hypothesis Hf : forall t x, differentiable_pt_lim f t x (ft t x) (fx t x).
  Hypothesis Hft : forall t x, differentiable_pt_lim ft t x (ftt t x) (ftx t x).
  Hypothesis Hfx : forall t x, differentiable_pt_lim fx t x (fxt t x) (fxx t x).
  Hypothesis HB0 : forall t x, Rabs (f t x) <= B0.
  Hypothesis HBt : forall t x, Rabs (ft t x) <= Bt.
  Hypothesis HBx : forall t x, Rabs (fx t x) <= Bx.
  Hypothesis HBtt : forall t x, Rabs (ftt t x) <= Btt.
  Hypothesis HBtx : forall t x, Rabs (ftx t x) <= Btx.
  Hypothesis HBxt : forall t x, Rabs (fxt t x) <= Bxt.
  Hypothesis HBxx : forall t x, Rabs (fxx t x) <= Bxx.

  Lemma nB0_nonneg : 0 <= B0.  Proof. eapply Rle_trans. apply Rabs_pos. apply (HB0 0 0). Qed.
  Lemma nBt_nonneg : 0 <= Bt.  Proof. eapply Rle_trans. apply Rabs_pos. apply (HBt 0 0). Qed.
  Lemma nBx_nonneg : 0 <= Bx.  Proof. eapply Rle_trans. apply Rabs_pos. apply (HBx 0 0). Qed.
  Lemma nBtt_nonneg : 0 <= Btt.  Proof. eapply Rle_trans. apply Rabs_pos. apply (HBtt 0 0). Qed.
  Lemma nBtx_nonneg : 0 <= Btx.  Proof. eapply Rle_trans. apply Rabs_pos. apply (HBtx 0 0). Qed.
  Lemma nBxt_nonneg : 0 <= Bxt.  Proof. eapply Rle_trans. apply Rabs_pos. apply (HBxt 0 0). Qed.
  Lemma nBxx_nonneg : 0 <= Bxx.  Proof. eapply Rle_trans. apply Rabs_pos. apply (HBxx 0 0). Qed.

  (** bound of the second directional derivative (1, k) of f, |k| <= B0; bound of y''' *)
  Definition N2 : R := Btt + B0 * Btx + B0 * Bxt + B0 * B0 * Bxx.
  Definition M3n : R := N2 + Bx * (Bt + Bx * B0).
  Definition C_RK2n : R := M3n / 6 + N2 / 8.

  Lemma N2_nonneg : 0 <= N2.
  Proof.
    unfold N2. pose proof nB0_nonneg. pose proof nBtt_nonneg. pose proof nBtx_nonneg.
    pose proof nBxt_nonneg. pose proof nBxx_nonneg.
    assert (0 <= B0 * Btx) by (apply Rmult_le_pos; assumption).
    assert (0 <= B0 * Bxt) by (apply Rmult_le_pos; assumption).
    assert (0 <= B0 * B0 * Bxx) by (repeat apply Rmult_le_pos; assumption).
    lra.
  Qed.
  Lemma M3n_nonneg : 0 <= M3n.
  Proof.
    unfold M3n. pose proof N2_nonneg. pose proof nB0_nonneg. pose proof nBt_nonneg.
    pose proof nBx_nonneg.
    assert (0 <= Bx * B0) by (apply Rmult_le_pos; assumption).
    assert (0 <= Bx * (Bt + Bx * B0)) by (apply Rmult_le_pos; lra).
    lra.
  Qed.
  Lemma C_RK2n_nonneg : 0 <= C_RK2n.
  Proof. unfold C_RK2n. pose proof N2_nonneg. pose proof M3n_nonneg. lra. Qed.

  (** f is Bx-Lipschitz in x, uniformly in t *)
  Lemma f_x_is_derive t x : is_derive (fun u => f t u) x (fx t x).
  Proof.
    evar_last.
    apply (is_derive_comp2 f (fun _ => t) (fun u => u) x _ _ 0 1 (Hf t x)).
    apply is_derive_const_R. apply is_derive_id_R. ring.
  Qed.

  Lemma f_lipschitz t x x' : Rabs (f t x - f t x') <= Bx * Rabs (x - x').
  Proof.
    apply (bounded_variation (fun u => f t u) (fun u => fx t u)).
    intros u _. split. apply f_x_is_derive. apply HBx.
  Qed.

  (** first-order Taylor expansion of f at (s, p) with increment (c, d), 0 <= c, |d| <= c * B0 *)
  Section TaylorF.
    Variables s p c d : R.
    Hypothesis Hc : 0 <= c.
    Hypothesis Hd : Rabs d <= c * B0.
    Let psi (r : R) : R := f (s + r * c) (p + r * d).
    Let dpsi (r : R) : R := c * ft (s + r * c) (p + r * d) + d * fx (s + r * c) (p + r * d).
    Let ddpsi (r : R) : R :=
      c * c * ftt (s + r * c) (p + r * d) + c * d * ftx (s + r * c) (p + r * d)
      + d * c * fxt (s + r * c) (p + r * d) + d * d * fxx (s + r * c) (p + r * d).

    Lemma line_t_is_derive r : is_derive (fun r => s + r * c) r c.
    Proof. auto_derive. exact I. ring. Qed.
    Lemma line_x_is_derive r : is_derive (fun r => p + r * d) r d.
    Proof. auto_derive. exact I. ring. Qed.

    Lemma psi_is_derive r : is_derive psi r (dpsi r).
    Proof.
      unfold psi, dpsi. evar_last.
      apply (is_derive_comp2 f (fun r => s + r * c) (fun r => p + r * d) r _ _ c d (Hf _ _)).
      apply line_t_is_derive. apply line_x_is_derive. ring.
    Qed.
    Lemma Derive_psi r : Derive psi r = dpsi r.
    Proof. apply is_derive_unique. apply psi_is_derive. Qed.

    Lemma dpsi_is_derive r : is_derive dpsi r (ddpsi r).
    Proof.
      unfold dpsi, ddpsi.
      pose proof (is_derive_comp2 ft (fun r => s + r * c) (fun r => p + r * d) r _ _ c d (Hft _ _)
                    (line_t_is_derive r) (line_x_is_derive r)) as H1.
      pose proof (is_derive_comp2 fx (fun r => s + r * c) (fun r => p + r * d) r _ _ c d (Hfx _ _)
                    (line_t_is_derive r) (line_x_is_derive r)) as H2.
      evar_last.
      apply (is_derive_plus (fun r => c * ft (s + r * c) (p + r * d))
                            (fun r => d * fx (s + r * c) (p + r * d))).
      apply (is_derive_scal (fun r => ft (s + r * c) (p + r * d)) r c). exact H1.
      apply (is_derive_scal (fun r => fx (s + r * c) (p + r * d)) r d). exact H2.
      unfold plus; simpl. ring.
    Qed.
    Lemma Derive2_psi r : Derive_n psi 2 r = ddpsi r.
    Proof.
      change (Derive_n psi 2 r) with (Derive (Derive psi) r).
      rewrite (Derive_ext _ dpsi r Derive_psi). apply is_derive_unique. apply dpsi_is_derive.
    Qed.

    Lemma ddpsi_bound r : Rabs (ddpsi r) <= c ^ 2 * N2.
    Proof.
      unfold ddpsi, N2.
      assert (Hcc : Rabs c <= c) by (rewrite Rabs_pos_eq by exact Hc; lra).
      eapply Rle_trans. apply Rabs_triang4.
      - apply Rabs_mult3_le. exact Hcc. exact Hcc. apply HBtt.
      - apply Rabs_mult3_le. exact Hcc. exact Hd. apply HBtx.
      - apply Rabs_mult3_le. exact Hd. exact Hcc. apply HBxt.
      - apply Rabs_mult3_le. exact Hd. exact Hd. apply HBxx.
      - apply Req_le. ring.
    Qed.

    Lemma taylor1_f :
      Rabs (f (s + c) (p + d) - f s p - (c * ft s p + d * fx s p)) <= c ^ 2 * N2 / 2.
    Proof.
      destruct (Taylor_Lagrange psi 1 0 1 ltac:(lra)) as (z & Hz & E).
      { intros t Ht k Hk.
        destruct k as [|[|[|k]]]; [exact I | | | lia].
        - exists (dpsi t). apply psi_is_derive.
        - apply (ex_derive_ext dpsi). intros u. symmetry. apply Derive_psi.
          exists (ddpsi t). apply dpsi_is_derive. }
      assert (E2 : f (s + c) (p + d) - f s p - (c * ft s p + d * fx s p) = / 2 * ddpsi z).
      { replace (f (s + c) (p + d)) with (psi 1) by (unfold psi; f_equal; ring).
        rewrite E. cbn [sum_f_R0]. rewrite Derive2_psi.
        change (Derive_n psi 0 0) with (psi 0). change (Derive_n psi 1 0) with (Derive psi 0).
        rewrite Derive_psi. unfold psi, dpsi.
        replace (s + 0 * c) with s by ring. replace (p + 0 * d) with p by ring.
        generalize (ddpsi z) (ft s p) (fx s p) (f s p). intros d2 d1t d1x d0. simpl. field. }
      rewrite E2. rewrite Rabs_mult, Rabs_pos_eq by lra.
      pose proof (ddpsi_bound z). lra.
    Qed.
  End TaylorF.

  (** ** the exact solution on an open interval (a, b) *)
  Section SolutionN.
    Variable y : R -> R.
    Variables a b : R.
    Hypothesis Hode : forall t, a < t < b -> is_derive y t (f t (y t)).

    Definition yn2 (t : R) : R := ft t (y t) + fx t (y t) * f t (y t).
    Definition yn3 (t : R) : R :=
      ftt t (y t) + ftx t (y t) * f t (y t)
      + (fxt t (y t) + fxx t (y t) * f t (y t)) * f t (y t)
      + fx t (y t) * yn2 t.

    Lemma nsol_Derive t : a < t < b -> Derive y t = f t (y t).
    Proof. intros Ht. apply is_derive_unique. apply Hode. exact Ht. Qed.

    Lemma nsol_locally t (P : R -> Prop) : a < t < b ->
      (forall s, a < s < b -> P s) -> locally t P.
    Proof.
      intros Ht HP. apply (locally_interval P t a b); simpl; try lra.
      intros s Hs1 Hs2. apply HP. simpl in *. lra.
    Qed.

    (** d/dt k(t, y t) = k_t + k_x * f *)
    Lemma along_is_derive (k : R -> R -> R) (kt kx : R) t : a < t < b ->
      differentiable_pt_lim k t (y t) kt kx ->
      is_derive (fun s => k s (y s)) t (kt + kx * f t (y t)).
    Proof.
      intros Ht Hk. evar_last.
      apply (is_derive_comp2 k (fun s => s) y t kt kx 1 (f t (y t)) Hk).
      apply is_derive_id_R. apply Hode. exact Ht. ring.
    Qed.

    Lemma nsol_F_is_derive t : a < t < b -> is_derive (fun s => f s (y s)) t (yn2 t).
    Proof. intros Ht. apply (along_is_derive f). exact Ht. apply Hf. Qed.

    Lemma nsol_d1_is_derive t : a < t < b -> is_derive (Derive y) t (yn2 t).
    Proof.
      intros Ht. apply (is_derive_ext_loc (fun s => f s (y s))).
      - apply nsol_locally. exact Ht. intros s Hs. symmetry. apply nsol_Derive. exact Hs.
      - apply nsol_F_is_derive. exact Ht.
    Qed.

    Lemma nsol_Derive2 t : a < t < b -> Derive_n y 2 t = yn2 t.
    Proof.
      intros Ht. change (Derive_n y 2 t) with (Derive (Derive y) t).
      apply is_derive_unique. apply nsol_d1_is_derive. exact Ht.
    Qed.

    Lemma yn2_is_derive t : a < t < b -> is_derive yn2 t (yn3 t).
    Proof.
      intros Ht. unfold yn2, yn3.
      pose proof (along_is_derive ft _ _ t Ht (Hft t (y t))) as H1.
      pose proof (along_is_derive fx _ _ t Ht (Hfx t (y t))) as H2.
      pose proof (nsol_F_is_derive t Ht) as H3.
      evar_last.
      apply (is_derive_plus (fun s => ft s (y s)) (fun s => fx s (y s) * f s (y s))).
      exact H1.
      apply (is_derive_mult (fun s => fx s (y s)) (fun s => f s (y s)) t _ _ H2 H3).
      intros u v. apply Rmult_comm.
      unfold plus, mult; simpl. unfold yn2. ring.
    Qed.

    Lemma nsol_d2_is_derive t : a < t < b -> is_derive (Derive_n y 2) t (yn3 t).
    Proof.
      intros Ht. apply (is_derive_ext_loc yn2).
      - apply nsol_locally. exact Ht. intros s Hs. symmetry. apply nsol_Derive2. exact Hs.
      - apply yn2_is_derive. exact Ht.
    Qed.

    Lemma nsol_Derive3 t : a < t < b -> Derive_n y 3 t = yn3 t.
    Proof.
      intros Ht. change (Derive_n y 3 t) with (Derive (Derive_n y 2) t).
      apply is_derive_unique. apply nsol_d2_is_derive. exact Ht.
    Qed.

    Lemma yn2_bound t : Rabs (yn2 t) <= Bt + Bx * B0.
    Proof.
      unfold yn2. eapply Rle_trans. apply Rabs_triang.
      apply Rplus_le_compat. apply HBt. apply Rabs_mult_le. apply HBx. apply HB0.
    Qed.

    Lemma yn3_bound t : Rabs (yn3 t) <= M3n.
    Proof.
      unfold yn3, M3n, N2.
      eapply Rle_trans. apply Rabs_triang4.
      - apply HBtt.
      - apply Rabs_mult_le. apply HBtx. apply HB0.
      - apply Rabs_mult_le; [|apply HB0].
        eapply Rle_trans. apply Rabs_triang. apply Rplus_le_compat. apply HBxt.
        apply Rabs_mult_le. apply HBxx. apply HB0.
      - apply Rabs_mult_le. apply HBx. apply yn2_bound.
      - apply Req_le. ring.
    Qed.

    Lemma taylor3_yn s h : 0 < h -> a < s -> s + h < b ->
      Rabs (y (s + h) - y s - h * f s (y s) - h ^ 2 / 2 * yn2 s) <= M3n * h ^ 3 / 6.
    Proof.
      intros Hh Ha Hb.
      destruct (Taylor_Lagrange y 2 s (s + h) ltac:(lra)) as (c & Hc & E).
      { intros t Ht k Hk.
        assert (Ht' : a < t < b) by lra.
        destruct k as [|[|[|[|k]]]]; [exact I | | | | lia].
        - exists (f t (y t)). apply Hode. exact Ht'.
        - exists (yn2 t). apply nsol_d1_is_derive. exact Ht'.
        - exists (yn3 t). apply nsol_d2_is_derive. exact Ht'. }
      assert (E2 : y (s + h) - y s - h * f s (y s) - h ^ 2 / 2 * yn2 s = h ^ 3 / 6 * yn3 c).
      { rewrite E. replace (s + h - s) with h by ring. cbn [sum_f_R0].
        rewrite nsol_Derive3, nsol_Derive2 by lra.
        change (Derive_n y 0 s) with (y s). change (Derive_n y 1 s) with (Derive y s).
        rewrite nsol_Derive by lra.
        generalize (yn3 c) (yn2 s) (f s (y s)) (y s). intros d3 d2 d1 d0. simpl. field. }
      rewrite E2. rewrite Rabs_mult, Rabs_pos_eq.
      - pose proof (yn3_bound c) as H.
        assert (0 <= h ^ 3 / 6) by (pose proof (pow_le h 3 (Rlt_le _ _ Hh)); lra).
        replace (M3n * h ^ 3 / 6) with (h ^ 3 / 6 * M3n) by field.
        apply Rmult_le_compat_l; assumption.
      - pose proof (pow_le h 3 (Rlt_le _ _ Hh)); lra.
    Qed.

    Theorem RK2_local_truncation_open s h : 0 < h -> a < s -> s + h < b ->
      Rabs (y (s + h) - y s - h * Phi_RK2 f h s (y s)) <= C_RK2n * h ^ 3.
    Proof.
      intros Hh Ha Hb. unfold Phi_RK2.
      pose proof (taylor3_yn s h Hh Ha Hb) as H1.
      set (p := y s) in *. set (k := f s p) in *.
      assert (Hd : Rabs (h / 2 * k) <= h / 2 * B0).
      { rewrite Rabs_mult, Rabs_pos_eq by lra. apply Rmult_le_compat_l. lra. apply HB0. }
      pose proof (taylor1_f s p (h / 2) (h / 2 * k) ltac:(lra) Hd) as H2.
      set (z := p + h / 2 * k) in *.
      replace (y (s + h) - p - h * f (s + h / 2) z)
        with ((y (s + h) - p - h * k - h ^ 2 / 2 * yn2 s)
              + - (h * (f (s + h / 2) z - k - (h / 2 * ft s p + h / 2 * k * fx s p))))
        by (unfold yn2; fold p; fold k; field).
      eapply Rle_trans. apply Rabs_triang. rewrite Rabs_Ropp, Rabs_mult, (Rabs_pos_eq h) by lra.
      assert (H5 : h * Rabs (f (s + h / 2) z - k - (h / 2 * ft s p + h / 2 * k * fx s p))
                   <= h * ((h / 2) ^ 2 * N2 / 2))
        by (apply Rmult_le_compat_l; [lra | exact H2]).
      unfold C_RK2n. apply Rle_trans with (M3n * h ^ 3 / 6 + h * ((h / 2) ^ 2 * N2 / 2)).
      lra. apply Req_le. field.
    Qed.
  End SolutionN.

  (** ** the exact solution on a CLOSED interval [t0, t0 + T] *)
  Section SolutionNClosed.
    Variable y : R -> R.
    Variables t0 T : R.
    Hypothesis Hode : forall t, t0 <= t <= t0 + T -> is_derive y t (f t (y t)).

    Lemma nHode_open : forall t, t0 < t < t0 + T -> is_derive y t (f t (y t)).
    Proof. intros t Ht. apply Hode. lra. Qed.

    Section ShrinkN.
      Variables s h : R.
      Hypothesis Hh : 0 < h.
      Hypothesis Hs0 : t0 <= s.
      Hypothesis Hs1 : s + h <= t0 + T.

      Definition shrunkn (eps : R) : R :=
        y (s + h - eps) - y (s + eps)
        - (h - 2 * eps) * f (s + h / 2) (y (s + eps) + (h - 2 * eps) / 2 * f (s + eps) (y (s + eps))).

      Lemma shrunkn_0 : shrunkn 0 = y (s + h) - y s - h * Phi_RK2 f h s (y s).
      Proof.
        unfold shrunkn, Phi_RK2.
        replace (s + h - 0) with (s + h) by ring. replace (s + 0) with s by ring.
        replace (h - 2 * 0) with h by ring. reflexivity.
      Qed.

      Lemma shrunkn_bound eps : 0 < eps < h / 2 -> Rabs (shrunkn eps) <= C_RK2n * h ^ 3.
      Proof.
        intros He.
        pose proof (RK2_local_truncation_open y t0 (t0 + T) nHode_open
                      (s + eps) (h - 2 * eps) ltac:(lra) ltac:(lra) ltac:(lra)) as H.
        unfold Phi_RK2 in H.
        replace (s + eps + (h - 2 * eps)) with (s + h - eps) in H by ring.
        replace (s + eps + (h - 2 * eps) / 2) with (s + h / 2) in H by field.
        eapply Rle_trans. exact H.
        apply Rmult_le_compat_l. apply C_RK2n_nonneg.
        apply pow_incr. lra.
      Qed.

      Lemma shrunkn_continuous : continuous shrunkn 0.
      Proof.
        apply (ex_derive_continuous (K := R_AbsRing) (V := R_NormedModule) shrunkn 0).
        apply (shrunk_ex_derive y (fun x => f (s + h / 2) x) (fun t => f t (y t)) s h).
        - exists (f s (y s)). apply Hode. lra.
        - exists (f (s + h) (y (s + h))). apply Hode. lra.
        - exists (ft s (y s) * 1 + fx s (y s) * f s (y s)).
          apply (is_derive_comp2 f (fun u => u) y s _ _ 1 (f s (y s)) (Hf s (y s))).
          apply is_derive_id_R. apply Hode. lra.
        - intros x. exists (fx (s + h / 2) x). apply f_x_is_derive.
      Qed.

      Lemma closed_step_boundn :
        Rabs (y (s + h) - y s - h * Phi_RK2 f h s (y s)) <= C_RK2n * h ^ 3.
      Proof.
        rewrite <- shrunkn_0.
        apply le_epsilon. intros e He.
        assert (Hc : filterlim shrunkn (locally (0 : R_UniformSpace))
                       (locally (shrunkn 0 : R_UniformSpace))) by exact shrunkn_continuous.
        destruct (proj1 (filterlim_locally shrunkn (shrunkn 0)) Hc (mkposreal e He)) as [d Hd].
        set (eps := Rmin (pos d / 2) (h / 4)).
        assert (Heps : 0 < eps < h / 2 /\ eps < d).
        { unfold eps. pose proof (cond_pos d).
          pose proof (Rmin_l (d / 2) (h / 4)). pose proof (Rmin_r (d / 2) (h / 4)).
          assert (0 < Rmin (d / 2) (h / 4)) by (apply Rmin_glb_lt; lra). lra. }
        assert (Hb : Rabs (shrunkn eps - shrunkn 0) < e).
        { apply (Hd eps). unfold ball; simpl. unfold AbsRing_ball, abs, minus, plus, opp; simpl.
          rewrite Ropp_0, Rplus_0_r, Rabs_pos_eq by lra. lra. }
        pose proof (shrunkn_bound eps (proj1 Heps)) as H1.
        replace (shrunkn 0) with (shrunkn eps + - (shrunkn eps - shrunkn 0)) by ring.
        eapply Rle_trans. apply Rabs_triang. rewrite Rabs_Ropp. lra.
      Qed.
    End ShrinkN.

    Theorem RK2_local_truncation s h : 0 < h -> t0 <= s -> s + h <= t0 + T ->
      Rabs (y (s + h) - y s - h * Phi_RK2 f h s (y s)) <= C_RK2n * h ^ 3.
    Proof. intros Hh H0 H1. apply closed_step_boundn; assumption. Qed.
  End SolutionNClosed.

  Section ConvergenceN.
    Variable y : R -> R.
    Variables h t0 T : R.
    Variable n : nat.
    Hypothesis Hh : 0 < h.
    Hypothesis HT : INR n * h = T.
    Hypothesis Hode : forall t, t0 <= t <= t0 + T -> is_derive y t (f t (y t)).

    Lemma RK2_grid_truncation k : (k < n)%nat ->
      Rabs (y (t0 + INR (S k) * h) - y (t0 + INR k * h)
            - h * Phi_RK2 f h (t0 + INR k * h) (y (t0 + INR k * h)))
        <= C_RK2n * h ^ 3.
    Proof.
      intros Hk.
      pose proof (grid_in_interval t0 h n k Hh ltac:(lia)) as H1.
      pose proof (grid_in_interval t0 h n (S k) Hh ltac:(lia)) as H2.
      rewrite HT in H1, H2.
      replace (t0 + INR (S k) * h) with (t0 + INR k * h + h) in * by (rewrite S_INR; ring).
      apply (RK2_local_truncation y t0 T Hode); lra.
    Qed.

    Theorem RK2_nonautonomous_converges_order2 :
      Rabs (one_step_iter (Phi_RK2 f h) h t0 n (y t0) - y (t0 + T))
        <= exp (T * Lip_RK2 h Bx) * T * C_RK2n * h ^ 2.
    Proof.
      apply (RK2_converges_order2 f y h Bx C_RK2n t0 T n Hh nBx_nonneg C_RK2n_nonneg HT).
      - exact f_lipschitz.
      - exact RK2_grid_truncation.
    Qed.
    Theorem RK2_nonautonomous_converges_order2_uniform hmax : h <= hmax ->
      Rabs (one_step_iter (Phi_RK2 f h) h t0 n (y t0) - y (t0 + T))
        <= exp (T * Lip_RK2 hmax Bx) * T * C_RK2n * h ^ 2.
    Proof.
      intros Hmax.
      apply (RK2_converges_order2_uniform f y h hmax Bx C_RK2n t0 T n (conj Hh Hmax)
               nBx_nonneg C_RK2n_nonneg HT).
      - exact f_lipschitz.
      - exact RK2_grid_truncation.
    Qed.
  End ConvergenceN.
End NonAutonomous.

(** * Non-vacuity of (B): f t x = 1 + sin (x - t)  (non-linear, time-dependent, x-dependent),
    y(0) = PI/2, exact solution y t = t + 2 atan (exp t);
    B0 = 2, all other bounds 1, N2 = 9, M3n = 12, C_RK2n = 25/8 *)
Lemma differentiable_pt_lim_diff t x : differentiable_pt_lim (fun u v => v - u) t x (-1) 1.
Proof.
  intros eps. exists (mkposreal 1 Rlt_0_1). intros u v _ _.
  replace (v - u - (x - t) - (-1 * (u - t) + 1 * (v - x))) with 0 by ring.
  rewrite Rabs_R0. apply Rmult_le_pos. left. apply cond_pos.
  eapply Rle_trans. apply Rabs_pos. apply Rmax_l.
Qed.

Lemma differentiable_pt_lim_shift (K : R -> R) (dK t x : R) :
  is_derive K (x - t) dK -> differentiable_pt_lim (fun u v => K (v - u)) t x (- dK) dK.
Proof.
  intros HK.
  replace (- dK) with (dK * -1 + 0 * 0) by ring.
  replace dK with (dK * 1 + 0 * 0) at 2 by ring.
  apply (differentiable_pt_lim_comp (fun a _ => K a) (fun u v => v - u) (fun _ _ => 0)
           t x dK 0 (-1) 1 0 0).
  - apply differentiable_pt_lim_proj1_0. apply is_derive_Reals. exact HK.
  - apply differentiable_pt_lim_diff.
  - apply (differentiable_pt_lim_proj1_0 (fun _ => 0) t x 0).
    apply is_derive_Reals. apply is_derive_const_R.
Qed.

Definition f_shift (t x : R) : R := 1 + sin (x - t).
Definition y_shift (t : R) : R := t + 2 * atan (exp t).

Lemma y_shift_is_derive t : is_derive y_shift t (f_shift t (y_shift t)).
Proof.
  unfold f_shift, y_shift.
  replace (t + 2 * atan (exp t) - t) with (2 * atan (exp t)) by ring.
  rewrite sin_2atan. auto_derive. exact I.
  assert (0 < 1 + exp t ^ 2) by (pose proof (pow2_ge_0 (exp t)); lra).
  field. lra.
Qed.

Lemma y_shift_0 : y_shift 0 = PI / 2.
Proof. unfold y_shift. rewrite exp_0, atan_1. field. Qed.

Example RK2_shift_example n h T : 0 < h -> INR n * h = T ->
  Rabs (one_step_iter (Phi_RK2 (fun t x => 1 + sin (x - t)) h) h 0 n (PI / 2)
        - (T + 2 * atan (exp T)))
    <= exp (T * Lip_RK2 h 1) * T * (25 / 8) * h ^ 2.
Proof.
  intros Hh HT.
  pose proof (RK2_nonautonomous_converges_order2
                f_shift
                (fun t x => - cos (x - t)) (fun t x => cos (x - t))
                (fun t x => - sin (x - t)) (fun t x => sin (x - t))
                (fun t x => sin (x - t)) (fun t x => - sin (x - t))
                2 1 1 1 1 1 1) as H.
  assert (D0 : forall w, is_derive (fun w => 1 + sin w) w (cos w))
    by (intros w; auto_derive; [exact I | ring]).
  assert (D1 : forall w, is_derive (fun w => - cos w) w (sin w))
    by (intros w; auto_derive; [exact I | ring]).
  assert (D2 : forall w, is_derive (fun w => cos w) w (- sin w))
    by (intros w; auto_derive; [exact I | ring]).
  assert (A1 : forall t x, differentiable_pt_lim f_shift t x (- cos (x - t)) (cos (x - t))).
  { intros t x. apply (differentiable_pt_lim_shift (fun w => 1 + sin w)). apply D0. }
  assert (A2 : forall t x, differentiable_pt_lim (fun t x => - cos (x - t)) t x
                             (- sin (x - t)) (sin (x - t))).
  { intros t x. apply (differentiable_pt_lim_shift (fun w => - cos w)). apply D1. }
  assert (A3 : forall t x, differentiable_pt_lim (fun t x => cos (x - t)) t x
                             (sin (x - t)) (- sin (x - t))).
  { intros t x. replace (sin (x - t)) with (- - sin (x - t)) at 1 by ring.
    apply (differentiable_pt_lim_shift (fun w => cos w)). apply D2. }
  specialize (H A1 A2 A3).
  assert (Hs : forall t x, Rabs (sin (x - t)) <= 1) by (intros; apply Rabs_sin_le).
  assert (Hc : forall t x, Rabs (cos (x - t)) <= 1) by (intros; apply Rabs_cos_le).
  assert (Hms : forall t x, Rabs (- sin (x - t)) <= 1) by (intros; rewrite Rabs_Ropp; apply Hs).
  assert (Hmc : forall t x, Rabs (- cos (x - t)) <= 1) by (intros; rewrite Rabs_Ropp; apply Hc).
  assert (H0 : forall t x, Rabs (f_shift t x) <= 2).
  { intros t x. unfold f_shift. apply Rabs_le. pose proof (SIN_bound (x - t)). lra. }
  specialize (H H0 Hmc Hc Hms Hs Hs Hms y_shift h 0 T n Hh HT (fun t _ => y_shift_is_derive t)).
  rewrite y_shift_0, Rplus_0_l in H. unfold y_shift at 1 in H.
  replace (C_RK2n 2 1 1 1 1 1 1) with (25 / 8) in H by (unfold C_RK2n, M3n, N2; field).
  exact H.
Qed.

(** * Corollaries: constants independent of h (h <= hmax), and the rational model of the tracker *)
Section Corollaries.
  Variable g : R -> R.
  Variables B0 B1 B2 : R.
  Hypothesis Hg1 : forall x : R, ex_derive g x.
  Hypothesis Hg2 : forall x : R, ex_derive (Derive g) x.
  Hypothesis HB0 : forall x, Rabs (g x) <= B0.
  Hypothesis HB1 : forall x, Rabs (Derive g x) <= B1.
  Hypothesis HB2 : forall x, Rabs (Derive_n g 2 x) <= B2.

  Theorem RK2_autonomous_converges_order2_uniform (y : R -> R) (h hmax t0 T : R) (n : nat) :
    0 < h <= hmax -> INR n * h = T ->
    (forall t, t0 <= t <= t0 + T -> is_derive y t (g (y t))) ->
    Rabs (one_step_iter (Phi_RK2 (fun _ x => g x) h) h t0 n (y t0) - y (t0 + T))
      <= exp (T * Lip_RK2 hmax B1) * T * C_RK2 B0 B1 B2 * h ^ 2.
  Proof.
    intros Hh HT Hode.
    apply (RK2_converges_order2_uniform (fun _ x => g x) y h hmax B1 (C_RK2 B0 B1 B2) t0 T n Hh
             (B1_nonneg g B1 HB1) (C_RK2_nonneg g B0 B1 B2 HB0 HB1 HB2) HT).
    - intros _ x x'. apply (g_lipschitz g B1 Hg1 HB1).
    - apply (RK2_autonomous_grid_truncation g B0 B1 B2 Hg1 Hg2 HB0 HB1 HB2 y h t0 T n);
        [lra | exact HT | exact Hode].
  Qed.

  (** n steps of the rational model (Tracker.rk_iter with tab_RK2) on an oracle that agrees with g *)
  Theorem model_RK2_autonomous_converges_order2
      (vel : Q -> Q -> Q -> Q * Q) (dtdx dtdy x0 y0 : Q) (y : R -> R) (t0 T : R) (n : nat) :
    0 < Q2R dtdx -> INR n * Q2R dtdx = T ->
    (forall s x y', Q2R (fst (vel s x y')) = g (Q2R x)) ->
    Q2R x0 = y t0 ->
    (forall t, t0 <= t <= t0 + T -> is_derive y t (g (y t))) ->
    Rabs (Q2R (fst (rk_iter vel dtdx dtdy tab_RK2 n x0 y0)) - y (t0 + T))
      <= exp (T * Lip_RK2 (Q2R dtdx) B1) * T * C_RK2 B0 B1 B2 * Q2R dtdx ^ 2.
  Proof.
    intros Hh HT Hvel Hx0 Hode.
    apply (model_RK2_converges_order2 vel dtdx dtdy x0 y0 (fun _ x => g x) y B1 t0 T n Hh
             (B1_nonneg g B1 HB1) HT).
    - intros _ x x'. apply (g_lipschitz g B1 Hg1 HB1).
    - intros k s x y'. apply Hvel.
    - exact Hx0.
    - apply (C_RK2_nonneg g B0 B1 B2 HB0 HB1 HB2).
    - apply (RK2_autonomous_grid_truncation g B0 B1 B2 Hg1 Hg2 HB0 HB1 HB2 y (Q2R dtdx) t0 T n);
        [exact Hh | exact HT | exact Hode].
  Qed.
End Corollaries.

Check RK2_autonomous_local_truncation_open.
Check RK2_autonomous_local_truncation.
Check RK2_autonomous_converges_order2.
Check RK2_autonomous_converges_order2_uniform.
Check model_RK2_autonomous_converges_order2.
Check RK2_sin_example.
Check RK2_local_truncation_open.
Check RK2_local_truncation.
Check RK2_nonautonomous_converges_order2.
Check RK2_nonautonomous_converges_order2_uniform.
Check RK2_shift_example.

Print Assumptions RK2_autonomous_local_truncation.
Print Assumptions RK2_autonomous_converges_order2.
Print Assumptions model_RK2_autonomous_converges_order2.
Print Assumptions RK2_sin_example.
Print Assumptions RK2_nonautonomous_converges_order2.
Print Assumptions RK2_shift_example.
