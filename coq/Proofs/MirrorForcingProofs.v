(** C10: interpolating the sign-flipped frames gives the sign-flipped field, at every (fractional) time,
    at the level of C03's specification [lerp_spec]. *)
From Coq Require Import ZArith QArith List Bool Lia Lqa.
From Ladim Require Import Base.Num Model.Time Model.ForcingTime Proofs.SymmetryProofs.
Import ListNotations.
Open Scope Q_scope.

Definition neg_pts (pts : list (Z * Q)) : list (Z * Q) := map (fun p => (fst p, - snd p)) pts.
Definition opt_rel (R : Q -> Q -> Prop) (a b : option Q) : Prop :=
  match a, b with Some x, Some y => R x y | None, None => True | _, _ => False end.

Lemma lerp_neg' a fa b fb x : lerp a (- fa) b (- fb) x == - lerp a fa b fb x.
Proof.
  unfold lerp. destruct (Qeq_dec (b - a) 0) as [E|E].
  - (* division by zero is zero in Q: both sides reduce *)
    unfold Qdiv. assert (/ (b - a) == 0) as Z0 by (rewrite E; reflexivity). rewrite Z0. ring.
  - field. exact E.
Qed.

Theorem lerp_spec_neg pts : forall x,
  opt_rel (fun v w => w == - v) (lerp_spec pts x) (lerp_spec (neg_pts pts) x).
Proof.
  induction pts as [|[a fa] r IH]; intro x; cbn [neg_pts map lerp_spec fst snd]; [exact I|].
  destruct r as [|[b fb] r'].
  - cbn [map]. destruct (Qeq_bool x (inject_Z a)); cbn; [reflexivity|exact I].
  - cbn [map fst snd]. destruct (Qle_bool (inject_Z a) x && Qle_bool x (inject_Z b)).
    + cbn. apply lerp_neg'.
    + apply (IH x).
Qed.
