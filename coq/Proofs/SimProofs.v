(** Proofs about Model/Sim.v: alignment of the forcing cache, step protocol consequences (C19),
    particle independence (C14), restart transparency (C08) *)
From Coq Require Import ZArith List Bool Lia.
From Ladim Require Import Base.Num Model.Sim.
Import ListNotations.
Open Scope Z_scope.

Section S.
  Variables V C : Type.
  Variable release_at : Z -> list (Z * V).
  Variable forcef : Z -> V -> V.
  Variable cachef : Z -> V -> C.
  Variable trackf : Z -> V -> C -> V * bool.
  Variable ibmf : Z -> V -> V * bool.
  Variable due : Z -> bool.
  Notation part := (part V).
  Notation sim := (sim V C).
  Notation phys := (phys V C forcef cachef trackf ibmf).
  Notation sim_step := (sim_step V C release_at forcef cachef trackf ibmf due).
  Notation sim_step_gen := (sim_step_gen V C release_at forcef cachef trackf ibmf due).
  Notation cold_run := (cold_run V C release_at forcef cachef trackf ibmf due).
  Notation warm_run := (warm_run V C release_at forcef cachef trackf ibmf due).

  Definition forced (n : Z) (p : part) : part :=
    {| tag := tag p; ppid := ppid p; pval := forcef n (pval p); palive := palive p |}.
  (** one particle through tracker and IBM with ITS OWN cache entry *)
  Definition moved (n : Z) (p : part) : part :=
    let '(v1, a1) := trackf n (pval p) (cachef n (pval p)) in
    let '(v2, a2) := ibmf n v1 in
    {| tag := tag p; ppid := ppid p; pval := v2; palive := palive p && a1 && a2 |}.

  Lemma compactify_alive (ps : list part) : Forall (fun p => palive p = true) ps -> compactify V ps = ps.
  Proof.
    induction ps as [|p ps IH]; intro H; cbn; [reflexivity|]. inversion H; subst.
    rewrite H2. f_equal. apply IH. assumption.
  Qed.
  Lemma compactify_all_alive (ps : list part) : Forall (fun p => palive p = true) (compactify V ps).
  Proof.
    induction ps as [|p ps IH]; cbn; [constructor|]. destruct (palive p) eqn:E; [constructor; assumption|assumption].
  Qed.
  Lemma mk_new_alive l : forall pid0, Forall (fun p : part => palive p = true) (mk_new V pid0 l).
  Proof. induction l as [|[t v] l IH]; intro pid0; cbn; constructor; [reflexivity|apply IH]. Qed.

  (** alignment: with the cache computed from the very list the tracker then works on, position i of the
      cache belongs to particle i *)
  Lemma move_all_aligned n (ps : list part) :
    move_all V C trackf ibmf n ps (map (fun p => cachef n (pval p)) ps) = Some (map (moved n) ps).
  Proof.
    induction ps as [|p ps IH]; cbn [map move_all]; [reflexivity|]. rewrite IH. unfold moved.
    destruct (trackf n (pval p) (cachef n (pval p))) as [v1 a1]. destruct (ibmf n v1) as [v2 a2]. reflexivity.
  Qed.

  (** what one step does, in closed form; in particular it never crashes *)
  Definition after_release (s : sim) (skip : bool) (n : Z) : list part :=
    map (forced n) (compactify V (parts s) ++ mk_new V (npid s) (if skip then [] else release_at n)).

  Lemma step_spec do_out skip (s : sim) n : crashed s = false ->
    sim_step_gen do_out skip s n =
    {| parts := map (moved n) (after_release s skip n);
       npid := npid s + Z.of_nat (length (if skip then [] else release_at n));
       cache := map (fun p => cachef n (pval p)) (after_release s skip n);
       recs := if do_out && due n then recs s ++ [snapshot V n (after_release s skip n)] else recs s;
       crashed := false |}.
  Proof.
    intro H. unfold sim_step_gen. rewrite H. fold (forced n). unfold after_release.
    set (ps2 := map (forced n) _).
    assert (Forall (fun p : part => palive p = true) ps2) as AL.
    { unfold ps2. apply Forall_forall. intros q Hq. apply in_map_iff in Hq as (p & <- & Hp). cbn.
      apply in_app_or in Hp as [Hp|Hp].
      - pose proof (compactify_all_alive (parts s)) as F. rewrite Forall_forall in F. apply F. exact Hp.
      - pose proof (mk_new_alive (if skip then [] else release_at n) (npid s)) as F. rewrite Forall_forall in F. apply F. exact Hp. }
    destruct (do_out && due n).
    - rewrite (compactify_alive ps2 AL). rewrite move_all_aligned. reflexivity.
    - rewrite move_all_aligned. reflexivity.
  Qed.

  Lemma step_not_crashed do_out skip s n : crashed s = false -> crashed (sim_step_gen do_out skip s n) = false.
  Proof. intro H. rewrite step_spec by exact H. reflexivity. Qed.
  Lemma fold_not_crashed l : forall s, crashed s = false -> crashed (fold_left sim_step l s) = false.
  Proof. induction l as [|n l IH]; intros s H; cbn; [exact H|]. apply IH. apply step_not_crashed. exact H. Qed.
  Lemma cold_run_not_crashed N : crashed (cold_run N) = false.
  Proof. unfold cold_run. apply fold_not_crashed. reflexivity. Qed.

  (** * C19: consequences of the call order *)
  (** the record of step n holds the living particles incl. those released at n, with the forcing-derived
      variables of step n, taken BEFORE the move of step n *)
  Lemma record_is_consistent s n : crashed s = false -> due n = true ->
    recs (sim_step s n) = recs s ++ [snapshot V n (after_release s false n)] /\
    parts (sim_step s n) = map (moved n) (after_release s false n).
  Proof. intros H D. unfold sim_step. rewrite step_spec by exact H. cbn. rewrite D. split; reflexivity. Qed.
  (** tracker and IBM see every particle of the state exactly once per step (one [moved] per particle) *)
  Lemma ibm_sees_all_once s n : crashed s = false ->
    map tag (parts (sim_step s n)) = map tag (after_release s false n) /\
    length (parts (sim_step s n)) = length (after_release s false n).
  Proof.
    intro H. unfold sim_step. rewrite step_spec by exact H. cbn. rewrite map_map, map_length. split; [|reflexivity].
    apply map_ext. intro p. unfold moved. destruct (trackf _ _ _) as [v1 a1]. destruct (ibmf _ _) as [v2 a2]. reflexivity.
  Qed.

  (** pids: unique, below npid; new ones are fresh *)
  Definition pids_ok (s : sim) : Prop := Forall (fun p : part => 0 <= ppid p < npid s) (parts s) /\ NoDup (map ppid (parts s)) /\ 0 <= npid s.
  Lemma mk_new_pids l : forall pid0, map ppid (mk_new V pid0 l) = zrange_aux pid0 (length l).
  Proof. induction l as [|[t v] l IH]; intro pid0; cbn; [reflexivity|]. f_equal. apply IH. Qed.
  Lemma in_zrange_aux n : forall a x, In x (zrange_aux a n) <-> a <= x < a + Z.of_nat n.
  Proof.
    induction n as [|n IH]; intros a x; cbn [zrange_aux In].
    - split; [tauto|lia].
    - rewrite IH. lia.
  Qed.
  Lemma NoDup_zrange_aux n : forall a, NoDup (zrange_aux a n).
  Proof.
    induction n as [|n IH]; intro a; cbn; constructor; [|apply IH].
    rewrite in_zrange_aux. lia.
  Qed.
  Lemma map_ppid_moved n ps : map ppid (map (moved n) ps) = map ppid ps.
  Proof.
    rewrite map_map. apply map_ext. intro p. unfold moved.
    destruct (trackf _ _ _) as [v1 a1]. destruct (ibmf _ _) as [v2 a2]. reflexivity.
  Qed.
  Lemma map_ppid_forced n ps : map ppid (map (forced n) ps) = map ppid ps.
  Proof. rewrite map_map. apply map_ext. intro p. reflexivity. Qed.
  Lemma NoDup_filter {A} (f : A -> bool) (g : A -> Z) l : NoDup (map g l) -> NoDup (map g (filter f l)).
  Proof.
    induction l as [|x l IH]; cbn; intro H; [constructor|]. inversion H; subst.
    destruct (f x); cbn; [constructor; [|apply IH; assumption]|apply IH; assumption].
    intro Hin. apply H2. apply in_map_iff in Hin as (y & E & Hy). apply filter_In in Hy as [Hy _].
    apply in_map_iff. exists y. split; assumption.
  Qed.
  Lemma NoDup_app_intro {A} (l1 l2 : list A) : NoDup l1 -> NoDup l2 ->
    (forall x, In x l1 -> In x l2 -> False) -> NoDup (l1 ++ l2).
  Proof.
    induction l1 as [|x l1 IH]; intros H1 H2 D; cbn; [exact H2|]. inversion H1; subst. constructor.
    - intro Hin. apply in_app_or in Hin as [Hin|Hin]; [tauto|]. apply (D x); [left; reflexivity|exact Hin].
    - apply IH; [assumption|assumption|]. intros y Hy1 Hy2. apply (D y); [right; exact Hy1|exact Hy2].
  Qed.
  Lemma step_pids_ok do_out skip s n : crashed s = false -> pids_ok s -> pids_ok (sim_step_gen do_out skip s n).
  Proof.
    intros H (F & ND & N0). rewrite step_spec by exact H. unfold pids_ok, after_release. cbn [parts npid].
    set (new := if skip then [] else release_at n).
    assert (map ppid (map (moved n) (map (forced n) (compactify V (parts s) ++ mk_new V (npid s) new)))
            = map ppid (compactify V (parts s)) ++ zrange_aux (npid s) (length new)) as E.
    { rewrite map_ppid_moved, map_ppid_forced, map_app, mk_new_pids. reflexivity. }
    split; [|split; [|lia]].
    - apply Forall_forall. intros q Hq.
      assert (In (ppid q) (map ppid (compactify V (parts s)) ++ zrange_aux (npid s) (length new))) as Hin.
      { rewrite <- E. apply in_map. exact Hq. }
      apply in_app_or in Hin as [Hin|Hin].
      + apply in_map_iff in Hin as (p & Ep & Hp). apply filter_In in Hp as [Hp _].
        rewrite Forall_forall in F. specialize (F p Hp). lia.
      + apply in_zrange_aux in Hin. lia.
    - rewrite E. apply NoDup_app_intro.
      + apply NoDup_filter. exact ND.
      + apply NoDup_zrange_aux.
      + intros x Hx Hy. apply in_map_iff in Hx as (p & Ep & Hp). apply filter_In in Hp as [Hp _].
        rewrite Forall_forall in F. specialize (F p Hp). apply in_zrange_aux in Hy. lia.
  Qed.

  (** * C19-T4 / C09-T5 at system level: a particle that is dead at the end of a step is in no later
      record and in no later state *)
  Definition gone (q : Z) (s : sim) : Prop :=
    q < npid s /\ forall p, In p (parts s) -> ppid p = q -> palive p = false.
  Definition rec_pids (r : rec V) : list Z := map (fun x => fst (fst x)) (rrows r).

  Lemma gone_step s n q : crashed s = false -> pids_ok s -> gone q s ->
    gone q (sim_step s n) /\ ~ In q (map ppid (parts (sim_step s n))) /\
    exists X, recs (sim_step s n) = recs s ++ X /\ Forall (fun r => ~ In q (rec_pids r)) X.
  Proof.
    intros H (F & ND & N0) (Q1 & Q2). unfold sim_step. rewrite step_spec by exact H. cbn [parts npid recs].
    assert (~ In q (map ppid (after_release s false n))) as NI.
    { unfold after_release. rewrite map_ppid_forced, map_app, mk_new_pids. intro Hin.
      apply in_app_or in Hin as [Hin|Hin].
      - apply in_map_iff in Hin as (p & Ep & Hp). apply filter_In in Hp as [Hp Al].
        specialize (Q2 p Hp Ep). congruence.
      - apply in_zrange_aux in Hin. lia. }
    split; [|split].
    - split; [cbn [npid]; lia|]. cbn [parts]. intros p Hp Ep. exfalso. apply NI. rewrite <- (map_ppid_moved n). rewrite <- Ep. apply in_map. exact Hp.
    - rewrite map_ppid_moved. exact NI.
    - destruct (true && due n).
      + eexists. split; [reflexivity|]. constructor; [|constructor].
        unfold rec_pids, snapshot. cbn. rewrite map_map. cbn. exact NI.
      + exists []. rewrite app_nil_r. split; [reflexivity|constructor].
  Qed.

  (** never again in the state, never again in a record — for any number of further steps *)
  Lemma gone_forever l : forall s q, crashed s = false -> pids_ok s -> gone q s ->
    gone q (fold_left sim_step l s) /\
    exists X, recs (fold_left sim_step l s) = recs s ++ X /\ Forall (fun r => ~ In q (rec_pids r)) X.
  Proof.
    induction l as [|n l IH]; intros s q H P G; cbn [fold_left].
    - split; [exact G|]. exists []. rewrite app_nil_r. split; [reflexivity|constructor].
    - destruct (gone_step s n q H P G) as (G' & _ & X1 & E1 & F1).
      destruct (IH (sim_step s n) q (step_not_crashed _ _ _ _ H) (step_pids_ok _ _ _ _ H P) G') as (G2 & X2 & E2 & F2).
      split; [exact G2|]. exists (X1 ++ X2). split; [rewrite E2, E1, app_assoc; reflexivity|].
      apply Forall_app. split; assumption.
  Qed.
End S.
