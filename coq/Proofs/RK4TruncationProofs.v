(** Local truncation error of the CLASSICAL RK4 scheme by Taylor's theorem, and hence COMPLETE
    fourth-order convergence of the tracker's RK4 scheme, over the reals, for three classes of fields.

    GeneralConvergenceProofs.v proves "consistency + stability => convergence" (generic_order_p) and
    the stability of  Phi_RK4 f h t x = (k1 + 2 k2 + 2 k3 + k4)/6  (Phi_RK4_lipschitz), but its
    RK4_converges_order4 keeps the local truncation bound
        |y(t+h) - y(t) - h * Phi_RK4 f h t (y t)| <= C * h^5
    as a HYPOTHESIS.  This file DISCHARGES that hypothesis for the classes (L1), (L2), (L3) below
    (RK2TruncationProofs.v does the same for the explicit midpoint rule).  One space dimension.
    In all three classes y solves the equation on the CLOSED interval [t0, t0+T] (Coquelicot's
    two-sided derivative, also at the two end points); no further regularity of y is assumed.

    (L1) PURE QUADRATURE  f t x = q t  (RK4 = Simpson's rule; Phi_RK4_quadrature).  Section Quadrature:
           Hq  : forall k x, (k <= 4)%nat -> ex_derive_n q k x       q four times differentiable on R
           HB4 : forall x, Rabs (Derive_n q 4 x) <= B4
           Hode: forall t, t0 <= t <= t0 + T -> is_derive y t (q t)
         With C_Simpson := 49/2880 * B4 (= 1/120 + 1/576 + 1/144 from three Lagrange remainders;
         the sharp constant 1/2880 is not needed and not proved):
           Simpson_local_truncation_open    ODE on an open (a,b), a < s, s+h < b, 0 < h:
               |y(s+h) - y s - h (q s + 4 q(s+h/2) + q(s+h))/6| <= C_Simpson h^5
           RK4_quadrature_local_truncation  the same for Phi_RK4 on the closed [t0,t0+T], t0 <= s,
               s+h <= t0+T (end steps by continuity, bound_at_0_by_continuity)
           RK4_quadrature_converges_order4  COMPLETE: |x_n - y(t0+T)| <= T * C_Simpson * h^4
               (the Lipschitz constant in x is 0, so the factor exp(T Lip) is 1)
           RK4_cos_quadrature_example (closed): q = cos, y = sin: |x_n - sin T| <= T (49/2880) h^4
           RK4_constant_field_exact: f = mu constant (B4 = 0): x_n = y(t0+T).

    (L2) LINEAR AUTONOMOUS fields  f t x = lam * x + mu,  lam <> 0.  Section LinearField:
           Hode: forall t, t0 <= t <= t0 + T -> is_derive y t (lam * y t + mu)
         The exact flow is DERIVED (lin_exact_flow: y(s+h) + mu/lam = (y s + mu/lam) exp(lam h), from
         the vanishing derivative of (y + mu/lam) exp(-lam t) and MVT_gen), one RK4 step multiplies
         x + mu/lam by ConvergenceProofs.R4 (lam h) (RK4_linear_step), hence
           RK4_linear_local_error_exact   the local error EQUALS (exp w - R4 w) (y s + mu/lam), w = lam h
           RK4_linear_local_truncation    <= C_RK4lin h^5 on [t0,t0+T] with
               C_RK4lin := |lam|^5/120 * exp(2 |lam| T) * |y t0 + mu/lam|
               (ConvergenceProofs.local_error, i.e. exp_taylor_pos/neg, and |y s + mu/lam| <=
                |y t0 + mu/lam| exp(|lam| T), h <= T)
           RK4_linear_converges_order4    COMPLETE:
               |x_n - y(t0+T)| <= exp(T Lip_RK4 h |lam|) * T * C_RK4lin * h^4
           RK4_linear_example (closed): y' = 1 - y, y 0 = 0, y = 1 - exp(-t), C = exp(2T)/120.
         (lam = 0 is the constant field of (L1).)

    (L3) AUTONOMOUS fields  f t x = g x.  Section AutonomousRK4, functions g g1 g2 g3 g4 : R -> R with
           Hg0..Hg3 : forall x, is_derive g x (g1 x), is_derive g1 x (g2 x), ..., is_derive g3 x (g4 x)
           HB0..HB4 : forall x, |g x| <= B0, |g1 x| <= B1, |g2 x| <= B2, |g3 x| <= B3, |g4 x| <= B4
           Hode     : forall t, t0 <= t <= t0 + T -> is_derive y t (g (y t)).
         (Section AutonomousRK4Corollaries restates the results with g1..g4 := Derive_n g 1..4 under
          forall k x, (k <= 4)%nat -> ex_derive_n g k x.)   With
           C_RK4a B0..B4 := B0 B1^4/120 + 47/240 B0^2 B1^2 B2 + 31/480 B0^3 B2^2
                            + 169/1440 B0^3 B1 B3 + 49/2880 B0^4 B4 :
           RK4_autonomous_local_truncation_open   ODE on an open (a,b):
               |y(s+h) - y s - h * Phi_RK4 (fun _ x => g x) h s (y s)| <= C_RK4a h^5   for ALL h > 0
           RK4_autonomous_local_truncation        the same on the closed [t0,t0+T]
           RK4_autonomous_converges_order4 (COMPLETE), ..._uniform, ..._Derive_n:
               |x_n - y(t0+T)| <= exp(T Lip_RK4 h B1) * T * C_RK4a * h^4
           model_RK4_autonomous_converges_order4  the same for n steps of the rational model
               (rk_iter ... tab_RK4) on a velocity oracle whose x-component equals g through Q2R
           RK4_sin_example (closed): g = sin, B0..B4 = 1, y 0 = PI/2, y t = 2 atan(exp t):
               |x_n - 2 atan(exp T)| <= exp(T Lip_RK4 h 1) T (129/320) h^4.
         How: (ii-a) taylor_g0..taylor_g3: Taylor-Lagrange of g at p, increment d of any sign, orders
         0..3 (generic taylor_g_gen on s |-> g(p + s d)); (ii-b) the derivatives of order 2..5 of the
         solution are DERIVED as the elementary differentials aY2..aY5 (asol_d0..asol_d4, by
         auto_derive on polynomials in g_k o y), the fifth one bounded by aM5, taylor5_y =
         Taylor-Lagrange of order 4 for y; (i) Section RK4Algebra, over plain reals: with the nine
         Taylor remainders of the stages (k2 and k3 to orders 0..3, k4 to order 3) as defined
         quantities, rk4_combination is ONE polynomial identity (by field; this is where the order
         conditions enter) writing h*Phi_RK4 as the Taylor polynomial of y through h^4 plus
         h/6 (2 r2 + 2 R3 + R4), and every remainder is bounded using |k_i| <= B0 so that it is
         homogeneous of degree 4 in h (rk4_remainder_bound, tactic absb): no smallness condition on
         h.  C_RK4a_eq: the sum of the bounds is C_RK4a h^5.  (iii) assembly; closed interval by
         continuity.  Consistency checks: the B4-coefficient of C_RK4a is the Simpson constant of
         (L1); for affine g (B2 = B3 = B4 = 0) C_RK4a = B0 B1^4/120, the constant of (L2).

    WHAT REMAINS A HYPOTHESIS: existence of the exact solution y (given, not constructed); for (L3)
    GLOBAL boundedness of g and of its first four derivatives on R; scalar case; (L3) is autonomous
    only: general non-autonomous f t x (as RK2TruncationProofs (B) does for RK2) is NOT covered
    here, except for the x-independent case (L1).  Nothing is admitted; no axioms beyond those of the
    standard-library reals / Coquelicot (Print Assumptions at the end). *)
From Coq Require Import Reals Lra Lia QArith Qreals.
From Coquelicot Require Import Coquelicot.
From Ladim Require Import Model.Tracker Proofs.ConvergenceProofs Proofs.GeneralConvergenceProofs
  Proofs.RK2TruncationProofs.
Open Scope R_scope.

(** a bound valid for all small positive arguments of a function continuous at 0 holds at 0 *)
Lemma bound_at_0_by_continuity (F : R -> R) (h C : R) : 0 < h ->
  continuous F 0 -> (forall eps, 0 < eps < h / 2 -> Rabs (F eps) <= C) -> Rabs (F 0) <= C.
Proof.
  intros Hh HF Hb.
  apply le_epsilon. intros e He.
  assert (Hc : filterlim F (locally (0 : R_UniformSpace)) (locally (F 0 : R_UniformSpace)))
    by exact HF.
  destruct (proj1 (filterlim_locally F (F 0)) Hc (mkposreal e He)) as [d Hd].
  set (eps := Rmin (pos d / 2) (h / 4)).
  assert (Heps : 0 < eps < h / 2 /\ eps < d).
  { unfold eps. pose proof (cond_pos d).
    pose proof (Rmin_l (d / 2) (h / 4)). pose proof (Rmin_r (d / 2) (h / 4)).
    assert (0 < Rmin (d / 2) (h / 4)) by (apply Rmin_glb_lt; lra). lra. }
  assert (Hbe : Rabs (F eps - F 0) < e).
  { apply (Hd eps). unfold ball; simpl. unfold AbsRing_ball, abs, minus, plus, opp; simpl.
    rewrite Ropp_0, Rplus_0_r, Rabs_pos_eq by lra. lra. }
  pose proof (Hb eps (proj1 Heps)) as H1.
  replace (F 0) with (F eps + - (F eps - F 0)) by ring.
  eapply Rle_trans. apply Rabs_triang. rewrite Rabs_Ropp. lra.
Qed.

(** * (L1) pure quadrature f t x = q t: RK4 = Simpson's rule *)
Lemma Phi_RK4_quadrature (q : R -> R) h t x :
  Phi_RK4 (fun s _ => q s) h t x = (q t + 4 * q (t + h / 2) + q (t + h)) / 6.
Proof. unfold Phi_RK4, rk4_k1, rk4_k2, rk4_k3, rk4_k4. field. Qed.

Section Quadrature.
  Variable q : R -> R.
  Variable B4 : R.
  Hypothesis Hq : forall (k : nat) (x : R), (k <= 4)%nat -> ex_derive_n q k x.
  Hypothesis HB4 : forall x, Rabs (Derive_n q 4 x) <= B4.

  Lemma qB4_nonneg : 0 <= B4.
  Proof. eapply Rle_trans. apply Rabs_pos. apply (HB4 0). Qed.

  Lemma q_ex_derive x : ex_derive q x.
  Proof. apply (Hq 1 x). lia. Qed.

  (** Taylor-Lagrange of order 3 for q, increment d > 0 *)
  Lemma quad_taylor_q s d : 0 < d ->
    Rabs (q (s + d) - q s - d * Derive_n q 1 s - d ^ 2 / 2 * Derive_n q 2 s
          - d ^ 3 / 6 * Derive_n q 3 s) <= B4 * d ^ 4 / 24.
  Proof.
    intros Hd.
    destruct (Taylor_Lagrange q 3 s (s + d) ltac:(lra)) as (c & Hc & E).
    { intros t _ k Hk. apply Hq. exact Hk. }
    assert (E2 : q (s + d) - q s - d * Derive_n q 1 s - d ^ 2 / 2 * Derive_n q 2 s
                 - d ^ 3 / 6 * Derive_n q 3 s = d ^ 4 / 24 * Derive_n q 4 c).
    { rewrite E. replace (s + d - s) with d by ring. cbn [sum_f_R0].
      change (Derive_n q 0 s) with (q s).
      generalize (Derive_n q 4 c) (Derive_n q 3 s) (Derive_n q 2 s) (Derive_n q 1 s) (q s).
      intros d4 d3 d2 d1 d0. simpl. field. }
    rewrite E2. rewrite Rabs_mult, Rabs_pos_eq.
    - pose proof (HB4 c) as H.
      assert (0 <= d ^ 4 / 24) by (pose proof (pow_le d 4 (Rlt_le _ _ Hd)); lra).
      replace (B4 * d ^ 4 / 24) with (d ^ 4 / 24 * B4) by field.
      apply Rmult_le_compat_l; assumption.
    - pose proof (pow_le d 4 (Rlt_le _ _ Hd)); lra.
  Qed.

  Definition C_Simpson : R := 49 / 2880 * B4.

  Lemma C_Simpson_nonneg : 0 <= C_Simpson.
  Proof. unfold C_Simpson. pose proof qB4_nonneg. lra. Qed.

  (** ** the exact solution y' = q on an open interval (a, b) *)
  Section QSolution.
    Variable y : R -> R.
    Variables a b : R.
    Hypothesis Hode : forall t, a < t < b -> is_derive y t (q t).

    Lemma qsol_locally t (P : R -> Prop) : a < t < b ->
      (forall s, a < s < b -> P s) -> locally t P.
    Proof.
      intros Ht HP. apply (locally_interval P t a b); simpl; try lra.
      intros s Hs1 Hs2. apply HP. simpl in *. lra.
    Qed.

    Lemma qsol_Derive t : a < t < b -> Derive y t = q t.
    Proof. intros Ht. apply is_derive_unique. apply Hode. exact Ht. Qed.

    (** y^(k+1) = q^(k) *)
    Lemma qsol_Derive_n k t : a < t < b -> Derive_n y (S k) t = Derive_n q k t.
    Proof.
      intros Ht.
      replace (S k) with (k + 1)%nat by lia.
      rewrite <- (Derive_n_comp y k 1 t).
      apply Derive_n_ext_loc.
      apply qsol_locally. exact Ht. intros s Hs. apply qsol_Derive. exact Hs.
    Qed.

    Lemma qsol_ex_derive_n k t : a < t < b -> (k <= 5)%nat -> ex_derive_n y k t.
    Proof.
      intros Ht Hk. destruct k as [|[|k]].
      - exact I.
      - exists (q t). apply Hode. exact Ht.
      - apply (ex_derive_ext_loc (Derive_n q k)).
        + apply qsol_locally. exact Ht. intros s Hs. symmetry. apply qsol_Derive_n. exact Hs.
        + apply (Hq (S k) t). lia.
    Qed.

    Lemma quad_taylor_y s h : 0 < h -> a < s -> s + h < b ->
      Rabs (y (s + h) - y s - h * q s - h ^ 2 / 2 * Derive_n q 1 s - h ^ 3 / 6 * Derive_n q 2 s
            - h ^ 4 / 24 * Derive_n q 3 s) <= B4 * h ^ 5 / 120.
    Proof.
      intros Hh Ha Hb.
      destruct (Taylor_Lagrange y 4 s (s + h) ltac:(lra)) as (c & Hc & E).
      { intros t Ht k Hk. apply qsol_ex_derive_n. lra. exact Hk. }
      assert (E2 : y (s + h) - y s - h * q s - h ^ 2 / 2 * Derive_n q 1 s
                   - h ^ 3 / 6 * Derive_n q 2 s - h ^ 4 / 24 * Derive_n q 3 s
                   = h ^ 5 / 120 * Derive_n q 4 c).
      { rewrite E. replace (s + h - s) with h by ring. cbn [sum_f_R0].
        rewrite !qsol_Derive_n by lra.
        change (Derive_n y 0 s) with (y s). change (Derive_n q 0 s) with (q s).
        generalize (Derive_n q 4 c) (Derive_n q 3 s) (Derive_n q 2 s) (Derive_n q 1 s) (q s) (y s).
        intros d4 d3 d2 d1 d0 y0. simpl. field. }
      rewrite E2. rewrite Rabs_mult, Rabs_pos_eq.
      - pose proof (HB4 c) as H.
        assert (0 <= h ^ 5 / 120) by (pose proof (pow_le h 5 (Rlt_le _ _ Hh)); lra).
        replace (B4 * h ^ 5 / 120) with (h ^ 5 / 120 * B4) by field.
        apply Rmult_le_compat_l; assumption.
      - pose proof (pow_le h 5 (Rlt_le _ _ Hh)); lra.
    Qed.

    (** LOCAL TRUNCATION ERROR of Simpson's rule along y *)
    Theorem Simpson_local_truncation_open s h : 0 < h -> a < s -> s + h < b ->
      Rabs (y (s + h) - y s - h * ((q s + 4 * q (s + h / 2) + q (s + h)) / 6))
        <= C_Simpson * h ^ 5.
    Proof.
      intros Hh Ha Hb.
      pose proof (quad_taylor_y s h Hh Ha Hb) as H1.
      pose proof (quad_taylor_q s (h / 2) ltac:(lra)) as H2.
      pose proof (quad_taylor_q s h Hh) as H3.
      set (d1 := Derive_n q 1 s) in *. set (d2 := Derive_n q 2 s) in *.
      set (d3 := Derive_n q 3 s) in *.
      set (e1 := y (s + h) - y s - h * q s - h ^ 2 / 2 * d1 - h ^ 3 / 6 * d2 - h ^ 4 / 24 * d3) in *.
      set (e2 := q (s + h / 2) - q s - h / 2 * d1 - (h / 2) ^ 2 / 2 * d2 - (h / 2) ^ 3 / 6 * d3) in *.
      set (e3 := q (s + h) - q s - h * d1 - h ^ 2 / 2 * d2 - h ^ 3 / 6 * d3) in *.
      replace (y (s + h) - y s - h * ((q s + 4 * q (s + h / 2) + q (s + h)) / 6))
        with (e1 + - (h * (4 * e2 + e3) / 6)) by (unfold e1, e2, e3; field).
      eapply Rle_trans. apply Rabs_triang. rewrite Rabs_Ropp.
      assert (H4 : Rabs (h * (4 * e2 + e3) / 6) <= h * (4 * (B4 * (h / 2) ^ 4 / 24) + B4 * h ^ 4 / 24) / 6).
      { unfold Rdiv at 1. rewrite Rabs_mult, Rabs_mult, (Rabs_pos_eq h), (Rabs_pos_eq (/ 6)) by lra.
        assert (Rabs (4 * e2 + e3) <= 4 * (B4 * (h / 2) ^ 4 / 24) + B4 * h ^ 4 / 24).
        { eapply Rle_trans. apply Rabs_triang. rewrite Rabs_mult, (Rabs_pos_eq 4) by lra. lra. }
        apply Rmult_le_compat_r. lra. apply Rmult_le_compat_l. lra. assumption. }
      unfold C_Simpson.
      apply Rle_trans with (B4 * h ^ 5 / 120 + h * (4 * (B4 * (h / 2) ^ 4 / 24) + B4 * h ^ 4 / 24) / 6).
      lra. apply Req_le. field.
    Qed.
  End QSolution.

  (** ** the exact solution on a CLOSED interval [t0, t0 + T] *)
  Section QSolutionClosed.
    Variable y : R -> R.
    Variables t0 T : R.
    Hypothesis Hode : forall t, t0 <= t <= t0 + T -> is_derive y t (q t).

    Lemma qHode_open : forall t, t0 < t < t0 + T -> is_derive y t (q t).
    Proof. intros t Ht. apply Hode. lra. Qed.

    Section QShrink.
      Variables s h : R.
      Hypothesis Hh : 0 < h.
      Hypothesis Hs0 : t0 <= s.
      Hypothesis Hs1 : s + h <= t0 + T.

      Definition qshrunk (eps : R) : R :=
        y (s + h - eps) - y (s + eps)
        - (h - 2 * eps) * ((q (s + eps) + 4 * q (s + h / 2) + q (s + h - eps)) / 6).

      Lemma qshrunk_0 :
        qshrunk 0 = y (s + h) - y s - h * ((q s + 4 * q (s + h / 2) + q (s + h)) / 6).
      Proof.
        unfold qshrunk.
        replace (s + h - 0) with (s + h) by ring. replace (s + 0) with s by ring.
        replace (h - 2 * 0) with h by ring. reflexivity.
      Qed.

      Lemma qshrunk_bound eps : 0 < eps < h / 2 -> Rabs (qshrunk eps) <= C_Simpson * h ^ 5.
      Proof.
        intros He.
        pose proof (Simpson_local_truncation_open y t0 (t0 + T) qHode_open
                      (s + eps) (h - 2 * eps) ltac:(lra) ltac:(lra) ltac:(lra)) as H.
        replace (s + eps + (h - 2 * eps)) with (s + h - eps) in H by ring.
        replace (s + eps + (h - 2 * eps) / 2) with (s + h / 2) in H by field.
        eapply Rle_trans. exact H.
        apply Rmult_le_compat_l. apply C_Simpson_nonneg.
        apply pow_incr. lra.
      Qed.

      Lemma qshrunk_continuous : continuous qshrunk 0.
      Proof.
        apply (ex_derive_continuous (K := R_AbsRing) (V := R_NormedModule) qshrunk 0).
        assert (Hy0 : ex_derive y (s + 0)).
        { exists (q (s + 0)). apply Hode. lra. }
        assert (Hy1 : ex_derive y (s + h - 0)).
        { exists (q (s + h - 0)). apply Hode. lra. }
        unfold qshrunk. auto_derive.
        repeat split; try assumption; try apply q_ex_derive.
      Qed.
      Lemma qclosed_step_bound :
        Rabs (y (s + h) - y s - h * ((q s + 4 * q (s + h / 2) + q (s + h)) / 6))
          <= C_Simpson * h ^ 5.
      Proof.
        rewrite <- qshrunk_0.
        apply (bound_at_0_by_continuity qshrunk h _ Hh qshrunk_continuous qshrunk_bound).
      Qed.
    End QShrink.

    Theorem RK4_quadrature_local_truncation s h : 0 < h -> t0 <= s -> s + h <= t0 + T ->
      Rabs (y (s + h) - y s - h * Phi_RK4 (fun t _ => q t) h s (y s)) <= C_Simpson * h ^ 5.
    Proof.
      intros Hh H0 H1. rewrite Phi_RK4_quadrature. apply qclosed_step_bound; assumption.
    Qed.
  End QSolutionClosed.

  (** ** fourth-order convergence of RK4 on y' = q(t): COMPLETE *)
  Section QConvergence.
    Variable y : R -> R.
    Variables h t0 T : R.
    Variable n : nat.
    Hypothesis Hh : 0 < h.
    Hypothesis HT : INR n * h = T.
    Hypothesis Hode : forall t, t0 <= t <= t0 + T -> is_derive y t (q t).

    Lemma RK4_quadrature_grid_truncation k : (k < n)%nat ->
      Rabs (y (t0 + INR (S k) * h) - y (t0 + INR k * h)
            - h * Phi_RK4 (fun t _ => q t) h (t0 + INR k * h) (y (t0 + INR k * h)))
        <= C_Simpson * h ^ 5.
    Proof.
      intros Hk.
      pose proof (grid_in_interval t0 h n k Hh ltac:(lia)) as H1.
      pose proof (grid_in_interval t0 h n (S k) Hh ltac:(lia)) as H2.
      rewrite HT in H1, H2.
      replace (t0 + INR (S k) * h) with (t0 + INR k * h + h) in * by (rewrite S_INR; ring).
      apply (RK4_quadrature_local_truncation y t0 T Hode); lra.
    Qed.

    Theorem RK4_quadrature_converges_order4 :
      Rabs (one_step_iter (Phi_RK4 (fun t _ => q t) h) h t0 n (y t0) - y (t0 + T))
        <= T * C_Simpson * h ^ 4.
    Proof.
      pose proof (RK4_converges_order4 (fun t _ => q t) y h 0 C_Simpson t0 T n Hh (Rle_refl 0)
                    C_Simpson_nonneg HT) as H.
      replace (T * C_Simpson * h ^ 4) with (exp (T * Lip_RK4 h 0) * T * C_Simpson * h ^ 4).
      - apply H.
        + intros t x x'. replace (q t - q t) with 0 by ring. rewrite Rabs_R0. lra.
        + exact RK4_quadrature_grid_truncation.
      - unfold Lip_RK4. rewrite Rmult_0_l, Rmult_0_r, exp_0. ring.
    Qed.
  End QConvergence.
End Quadrature.

(** * (L2) linear autonomous fields f t x = lam * x + mu, lam <> 0 *)
Section LinearField.
  Variables lam mu : R.
  Hypothesis Hlam : lam <> 0.

  (** one RK4 step multiplies x + mu/lam by the stability polynomial R4 (lam h) *)
  Lemma RK4_linear_step h t x :
    x + h * Phi_RK4 (fun _ x => lam * x + mu) h t x + mu / lam = (x + mu / lam) * R4 (lam * h).
  Proof.
    unfold Phi_RK4, rk4_k4, rk4_k3, rk4_k2, rk4_k1, R4. cbv beta. field. exact Hlam.
  Qed.

  Lemma linear_field_lipschitz (t x x' : R) :
    Rabs ((lam * x + mu) - (lam * x' + mu)) <= Rabs lam * Rabs (x - x').
  Proof.
    replace (lam * x + mu - (lam * x' + mu)) with (lam * (x - x')) by ring.
    rewrite Rabs_mult. lra.
  Qed.

  Lemma R4_local_error w : Rabs (exp w - R4 w) <= Rabs w ^ 5 / 120 * exp (Rabs w).
  Proof.
    rewrite Rabs_minus_sym, R4_Tp.
    eapply Rle_trans. apply (local_error 4 w).
    apply Req_le. simpl. field.
  Qed.

  Section LinSolution.
    Variable y : R -> R.
    Variables t0 T : R.
    Hypothesis Hode : forall t, t0 <= t <= t0 + T -> is_derive y t (lam * y t + mu).

    Let z (t : R) : R := (y t + mu / lam) * exp (- lam * t).

    Lemma lin_z_is_derive t : t0 <= t <= t0 + T -> is_derive z t 0.
    Proof.
      intros Ht. unfold z.
      pose proof (Hode t Ht) as Hy.
      assert (Hex : ex_derive y t) by (eexists; exact Hy).
      auto_derive. exact Hex.
      change (Derive (fun x : R => y x) t) with (Derive y t).
      rewrite (is_derive_unique _ _ _ Hy). field. exact Hlam.
    Qed.

    Lemma lin_z_const s h : 0 < h -> t0 <= s -> s + h <= t0 + T -> z (s + h) = z s.
    Proof.
      intros Hh H0 H1.
      pose proof (MVT_gen z s (s + h) (fun _ => 0)) as H. simpl in H.
      rewrite Rmin_left, Rmax_right in H by lra.
      destruct H as (c & _ & E).
      - intros x Hx. apply lin_z_is_derive. lra.
      - intros x Hx. apply derivable_continuous_pt. exists 0.
        apply is_derive_Reals. apply lin_z_is_derive. lra.
      - lra.
    Qed.

    (** the exact flow: y (s + h) + mu/lam = (y s + mu/lam) * exp (lam h) *)
    Lemma lin_exact_flow s h : 0 < h -> t0 <= s -> s + h <= t0 + T ->
      y (s + h) + mu / lam = (y s + mu / lam) * exp (lam * h).
    Proof.
      intros Hh H0 H1. pose proof (lin_z_const s h Hh H0 H1) as E. unfold z in E.
      replace (- lam * (s + h)) with (- lam * s + - (lam * h)) in E by ring.
      rewrite exp_plus, exp_Ropp in E.
      pose proof (exp_pos (- lam * s)) as P1. pose proof (exp_pos (lam * h)) as P2.
      set (e1 := exp (- lam * s)) in *. set (e2 := exp (lam * h)) in *.
      set (A := y (s + h) + mu / lam) in *. set (A' := y s + mu / lam) in *.
      replace A with (A * (e1 * / e2) * (e2 / e1)) by (field; lra).
      rewrite E. field. lra.
    Qed.

    (** the local error of RK4 is EXACTLY (exp w - R4 w) * (y s + mu/lam), w = lam h *)
    Lemma RK4_linear_local_error_exact s h : 0 < h -> t0 <= s -> s + h <= t0 + T ->
      y (s + h) - y s - h * Phi_RK4 (fun _ x => lam * x + mu) h s (y s)
        = (exp (lam * h) - R4 (lam * h)) * (y s + mu / lam).
    Proof.
      intros Hh H0 H1.
      pose proof (lin_exact_flow s h Hh H0 H1) as E1.
      pose proof (RK4_linear_step h s (y s)) as E2. lra.
    Qed.

    Lemma lin_sol_bound s : t0 <= s <= t0 + T ->
      Rabs (y s + mu / lam) <= Rabs (y t0 + mu / lam) * exp (Rabs lam * T).
    Proof.
      intros Hs. destruct (Req_dec s t0) as [-> | Hne].
      - pose proof (Rabs_pos (y t0 + mu / lam)) as P.
        assert (1 <= exp (Rabs lam * T)).
        { rewrite <- exp_0. apply exp_le_mono. apply Rmult_le_pos. apply Rabs_pos. lra. }
        nra.
      - pose proof (lin_exact_flow t0 (s - t0) ltac:(lra) ltac:(lra) ltac:(lra)) as E.
        replace (t0 + (s - t0)) with s in E by ring. rewrite E, Rabs_mult.
        apply Rmult_le_compat_l. apply Rabs_pos.
        rewrite Rabs_pos_eq by (left; apply exp_pos). apply exp_le_mono.
        eapply Rle_trans. apply Rle_abs. rewrite Rabs_mult.
        apply Rmult_le_compat_l. apply Rabs_pos. rewrite Rabs_pos_eq; lra.
    Qed.

    Definition C_RK4lin : R :=
      Rabs lam ^ 5 / 120 * exp (2 * Rabs lam * T) * Rabs (y t0 + mu / lam).

    Lemma C_RK4lin_nonneg : 0 <= C_RK4lin.
    Proof.
      unfold C_RK4lin. apply Rmult_le_pos; [apply Rmult_le_pos|apply Rabs_pos].
      pose proof (pow_le (Rabs lam) 5 (Rabs_pos lam)). lra.
      left. apply exp_pos.
    Qed.

    Theorem RK4_linear_local_truncation s h : 0 < h -> t0 <= s -> s + h <= t0 + T ->
      Rabs (y (s + h) - y s - h * Phi_RK4 (fun _ x => lam * x + mu) h s (y s))
        <= C_RK4lin * h ^ 5.
    Proof.
      intros Hh H0 H1.
      rewrite (RK4_linear_local_error_exact s h Hh H0 H1).
      pose proof (R4_local_error (lam * h)) as E1.
      pose proof (lin_sol_bound s ltac:(lra)) as E2.
      assert (E3 : Rabs (lam * h) = Rabs lam * h) by (rewrite Rabs_mult, (Rabs_pos_eq h); lra).
      rewrite E3 in E1.
      assert (E4 : exp (Rabs lam * h) <= exp (Rabs lam * T)).
      { apply exp_le_mono. apply Rmult_le_compat_l. apply Rabs_pos. lra. }
      pose proof (exp_pos (Rabs lam * h)) as P1.
      assert (P2 : 0 <= (Rabs lam * h) ^ 5 / 120).
      { pose proof (pow_le (Rabs lam * h) 5 ltac:(apply Rmult_le_pos; [apply Rabs_pos|lra])). lra. }
      eapply Rle_trans. apply Rabs_mult_le. exact E1. exact E2.
      unfold C_RK4lin. replace (2 * Rabs lam * T) with (Rabs lam * T + Rabs lam * T) by ring.
      rewrite exp_plus.
      set (A := Rabs (y t0 + mu / lam)) in *. set (E := exp (Rabs lam * T)) in *.
      assert (PA : 0 <= A) by apply Rabs_pos.
      assert (PE : 0 < E) by apply exp_pos.
      apply Rle_trans with ((Rabs lam * h) ^ 5 / 120 * E * (A * E)).
      - apply Rmult_le_compat_r. apply Rmult_le_pos; lra.
        apply Rmult_le_compat_l; assumption.
      - apply Req_le. rewrite Rpow_mult_distr. field.
    Qed.
  End LinSolution.

  (** ** fourth-order convergence of RK4 on y' = lam y + mu: COMPLETE *)
  Section LinConvergence.
    Variable y : R -> R.
    Variables h t0 T : R.
    Variable n : nat.
    Hypothesis Hh : 0 < h.
    Hypothesis HT : INR n * h = T.
    Hypothesis Hode : forall t, t0 <= t <= t0 + T -> is_derive y t (lam * y t + mu).

    Lemma RK4_linear_grid_truncation k : (k < n)%nat ->
      Rabs (y (t0 + INR (S k) * h) - y (t0 + INR k * h)
            - h * Phi_RK4 (fun _ x => lam * x + mu) h (t0 + INR k * h) (y (t0 + INR k * h)))
        <= C_RK4lin y t0 T * h ^ 5.
    Proof.
      intros Hk.
      pose proof (grid_in_interval t0 h n k Hh ltac:(lia)) as H1.
      pose proof (grid_in_interval t0 h n (S k) Hh ltac:(lia)) as H2.
      rewrite HT in H1, H2.
      replace (t0 + INR (S k) * h) with (t0 + INR k * h + h) in * by (rewrite S_INR; ring).
      apply (RK4_linear_local_truncation y t0 T Hode); lra.
    Qed.

    Theorem RK4_linear_converges_order4 :
      Rabs (one_step_iter (Phi_RK4 (fun _ x => lam * x + mu) h) h t0 n (y t0) - y (t0 + T))
        <= exp (T * Lip_RK4 h (Rabs lam)) * T * C_RK4lin y t0 T * h ^ 4.
    Proof.
      apply (RK4_converges_order4 (fun _ x => lam * x + mu) y h (Rabs lam) (C_RK4lin y t0 T)
               t0 T n Hh (Rabs_pos lam) (C_RK4lin_nonneg y t0 T) HT).
      - exact linear_field_lipschitz.
      - exact RK4_linear_grid_truncation.
    Qed.
  End LinConvergence.
End LinearField.

(** * (L3) autonomous scalar fields f t x = g x, g four times differentiable *)
Lemma Rabs_plus_le a b A B : Rabs a <= A -> Rabs b <= B -> Rabs (a + b) <= A + B.
Proof. intros Ha Hb. pose proof (Rabs_triang a b). lra. Qed.
Lemma Rabs_const_le c : 0 <= c -> Rabs c <= c.
Proof. intros Hc. rewrite Rabs_pos_eq by exact Hc. lra. Qed.

(** bound [Rabs e] structurally (e built from sums and products), using hypotheses [Rabs x <= X] for the
    atoms and [Rabs c <= c] for the non-negative constants; instantiates the right-hand side *)
Ltac absb :=
  match goal with
  | |- Rabs (_ + _) <= _ => eapply Rabs_plus_le; absb
  | |- Rabs (_ * _) <= _ => eapply Rabs_mult_le; absb
  | |- Rabs _ <= _ => eassumption
  | |- Rabs _ <= _ => eapply Rabs_const_le; lra
  end.

Lemma Rabs_pow_le x X n : Rabs x <= X -> Rabs (x ^ n) <= X ^ n.
Proof.
  intros Hx. rewrite <- RPow_abs. apply pow_incr. split. apply Rabs_pos. exact Hx.
Qed.

Lemma taylor_rem_bound (n : nat) (c d D v V : R) :
  0 < c -> Rabs d <= D -> Rabs v <= V -> Rabs (d ^ n / c * v) <= V * D ^ n / c.
Proof.
  intros Hc Hd Hv.
  replace (V * D ^ n / c) with (D ^ n * / c * V) by (field; lra).
  unfold Rdiv. apply Rabs_mult_le; [apply Rabs_mult_le|exact Hv].
  - apply Rabs_pow_le. exact Hd.
  - rewrite Rabs_pos_eq. lra. left. apply Rinv_0_lt_compat. exact Hc.
Qed.

(** ** (i) the algebra of one RK4 step over plain reals: f, f1, f2, f3 stand for g, g', g'', g''' at
    p = y s; k2, k3, k4 for the stage values; all remainders are DEFINED as differences *)
Section RK4Algebra.
  Variables h f f1 f2 f3 k2 k3 k4 : R.
  Variables B0 B1 B2 B3 B4 : R.
  Hypothesis Hh : 0 < h.
  Hypothesis Hf : Rabs f <= B0.
  Hypothesis Hk2 : Rabs k2 <= B0.
  Hypothesis Hk3 : Rabs k3 <= B0.
  Hypothesis Hf1 : Rabs f1 <= B1.
  Hypothesis Hf2 : Rabs f2 <= B2.
  Hypothesis Hf3 : Rabs f3 <= B3.

  Let a := h * / 2.
  Let d2 := a * f.
  Let d3 := a * k2.
  Let d4 := h * k3.
  Let A := a * B0.
  Let H := h * B0.
  (** Taylor remainders of the three stages (orders 0..3 for k2 and k3, order 3 for k4) *)
  Let u2 := k2 - f.
  Let t2 := k2 - (f + d2 * f1).
  Let s2 := k2 - (f + d2 * f1 + d2 ^ 2 / 2 * f2).
  Let r2 := k2 - (f + d2 * f1 + d2 ^ 2 / 2 * f2 + d2 ^ 3 / 6 * f3).
  Let u3 := k3 - f.
  Let t3' := k3 - (f + d3 * f1).
  Let s3' := k3 - (f + d3 * f1 + d3 ^ 2 / 2 * f2).
  Let r3 := k3 - (f + d3 * f1 + d3 ^ 2 / 2 * f2 + d3 ^ 3 / 6 * f3).
  Let r4 := k4 - (f + d4 * f1 + d4 ^ 2 / 2 * f2 + d4 ^ 3 / 6 * f3).
  Hypothesis Hu2 : Rabs u2 <= B1 * A.
  Hypothesis Ht2 : Rabs t2 <= B2 * A ^ 2 / 2.
  Hypothesis Hs2 : Rabs s2 <= B3 * A ^ 3 / 6.
  Hypothesis Hr2 : Rabs r2 <= B4 * A ^ 4 / 24.
  Hypothesis Hu3 : Rabs u3 <= B1 * A.
  Hypothesis Ht3' : Rabs t3' <= B2 * A ^ 2 / 2.
  Hypothesis Hs3' : Rabs s3' <= B3 * A ^ 3 / 6.
  Hypothesis Hr3 : Rabs r3 <= B4 * A ^ 4 / 24.
  Hypothesis Hr4 : Rabs r4 <= B4 * H ^ 4 / 24.

  Let Ha : 0 <= a.
  Proof. unfold a. lra. Qed.

  (** derived remainders *)
  Let q2 := a * f * f1 * u2 + t2 * (k2 + f).
  Let c2 := u2 * (k2 * k2 + k2 * f + f * f).
  Let R3 := a * f1 * s2 + a * a * f2 * / 2 * q2 + a * a * a * f3 * / 6 * c2 + r3.
  Let t3 := a * f1 * u2 + t3'.
  Let s3 := a * f1 * t2 + a * a * f2 * / 2 * (u2 * (k2 + f)) + s3'.
  Let q3 := a * f * f1 * u3 + t3 * (k3 + f).
  Let c3 := u3 * (k3 * k3 + k3 * f + f * f).
  Let R4 := h * f1 * s3 + h * h * f2 * / 2 * q3 + h * h * h * f3 * / 6 * c3 + r4.

  (** the order conditions of RK4, through h^4, as ONE polynomial identity *)
  Lemma rk4_combination :
    h * ((f + 2 * k2 + 2 * k3 + k4) / 6)
    = h * f + h ^ 2 / 2 * (f1 * f) + h ^ 3 / 6 * (f2 * f ^ 2 + f1 ^ 2 * f)
      + h ^ 4 / 24 * (f3 * f ^ 3 + 4 * f2 * f1 * f ^ 2 + f1 ^ 3 * f)
      + h * / 6 * (2 * r2 + 2 * R3 + R4).
  Proof.
    unfold R4, c3, q3, s3, t3, R3, c2, q2, r4, r3, s3', t3', u3, r2, s2, t2, u2, d4, d3, d2, a.
    field.
  Qed.

  Definition bq2 := a * B0 * B1 * (B1 * A) + B2 * A ^ 2 / 2 * (B0 + B0).
  Definition bc2 := B1 * A * (B0 * B0 + B0 * B0 + B0 * B0).
  Definition bR3 := a * B1 * (B3 * A ^ 3 / 6) + a * a * B2 * / 2 * bq2 + a * a * a * B3 * / 6 * bc2
                    + B4 * A ^ 4 / 24.
  Definition bt3 := a * B1 * (B1 * A) + B2 * A ^ 2 / 2.
  Definition bs3 := a * B1 * (B2 * A ^ 2 / 2) + a * a * B2 * / 2 * (B1 * A * (B0 + B0))
                    + B3 * A ^ 3 / 6.
  Definition bq3 := a * B0 * B1 * (B1 * A) + bt3 * (B0 + B0).
  Definition bR4 := h * B1 * bs3 + h * h * B2 * / 2 * bq3 + h * h * h * B3 * / 6 * bc2
                    + B4 * H ^ 4 / 24.

  Lemma q2_bound : Rabs q2 <= bq2.  Proof. unfold q2, bq2. absb. Qed.
  Lemma c2_bound : Rabs c2 <= bc2.  Proof. unfold c2, bc2. absb. Qed.
  Lemma c3_bound : Rabs c3 <= bc2.  Proof. unfold c3, bc2. absb. Qed.
  Lemma t3_bound : Rabs t3 <= bt3.  Proof. unfold t3, bt3. absb. Qed.
  Lemma R3_bound : Rabs R3 <= bR3.
  Proof. pose proof q2_bound. pose proof c2_bound. unfold R3, bR3. absb. Qed.
  Lemma s3_bound : Rabs s3 <= bs3.  Proof. unfold s3, bs3. absb. Qed.
  Lemma q3_bound : Rabs q3 <= bq3.
  Proof. pose proof t3_bound. unfold q3, bq3. absb. Qed.
  Lemma R4_bound : Rabs R4 <= bR4.
  Proof. pose proof s3_bound. pose proof q3_bound. pose proof c3_bound. unfold R4, bR4. absb. Qed.

  Definition E_RK4 := h * / 6 * (2 * (B4 * A ^ 4 / 24) + 2 * bR3 + bR4).

  Lemma rk4_remainder_bound : Rabs (h * / 6 * (2 * r2 + 2 * R3 + R4)) <= E_RK4.
  Proof. pose proof R3_bound. pose proof R4_bound. unfold E_RK4. absb. Qed.

  (** h * Phi_RK4 agrees with the Taylor polynomial of the exact solution through h^4 *)
  Lemma rk4_local_algebra :
    Rabs (h * ((f + 2 * k2 + 2 * k3 + k4) / 6)
          - (h * f + h ^ 2 / 2 * (f1 * f) + h ^ 3 / 6 * (f2 * f ^ 2 + f1 ^ 2 * f)
             + h ^ 4 / 24 * (f3 * f ^ 3 + 4 * f2 * f1 * f ^ 2 + f1 ^ 3 * f))) <= E_RK4.
  Proof.
    rewrite rk4_combination.
    match goal with |- Rabs ?e <= _ =>
      replace e with (h * / 6 * (2 * r2 + 2 * R3 + R4)) by ring end.
    exact rk4_remainder_bound.
  Qed.
End RK4Algebra.

(** the error constant of RK4 for autonomous scalar fields *)
Definition C_RK4a (B0 B1 B2 B3 B4 : R) : R :=
  B0 * B1 ^ 4 / 120 + 47 / 240 * (B0 ^ 2 * B1 ^ 2 * B2) + 31 / 480 * (B0 ^ 3 * B2 ^ 2)
  + 169 / 1440 * (B0 ^ 3 * B1 * B3) + 49 / 2880 * (B0 ^ 4 * B4).

Lemma C_RK4a_eq (h B0 B1 B2 B3 B4 : R) :
  (B4 * B0 ^ 4 + 7 * (B3 * B1 * B0 ^ 3) + 4 * (B2 ^ 2 * B0 ^ 3) + 11 * (B2 * B1 ^ 2 * B0 ^ 2)
   + B1 ^ 4 * B0) * h ^ 5 / 120 + E_RK4 h B0 B1 B2 B3 B4
  = C_RK4a B0 B1 B2 B3 B4 * h ^ 5.
Proof. unfold C_RK4a, E_RK4, bR4, bR3, bq3, bs3, bt3, bc2, bq2. field. Qed.

Lemma C_RK4a_nonneg (B0 B1 B2 B3 B4 : R) :
  0 <= B0 -> 0 <= B1 -> 0 <= B2 -> 0 <= B3 -> 0 <= B4 -> 0 <= C_RK4a B0 B1 B2 B3 B4.
Proof.
  intros H0 H1 H2 H3 H4. unfold C_RK4a.
  assert (P1 : 0 <= B0 * B1 ^ 4) by (repeat (apply pow_le || apply Rmult_le_pos); assumption).
  assert (P2 : 0 <= B0 ^ 2 * B1 ^ 2 * B2) by (repeat (apply pow_le || apply Rmult_le_pos); assumption).
  assert (P3 : 0 <= B0 ^ 3 * B2 ^ 2) by (repeat (apply pow_le || apply Rmult_le_pos); assumption).
  assert (P4 : 0 <= B0 ^ 3 * B1 * B3) by (repeat (apply pow_le || apply Rmult_le_pos); assumption).
  assert (P5 : 0 <= B0 ^ 4 * B4) by (repeat (apply pow_le || apply Rmult_le_pos); assumption).
  lra.
Qed.

Section AutonomousRK4.
  Variables g g1 g2 g3 g4 : R -> R.
  Variables B0 B1 B2 B3 B4 : R.
  Hypothesis Hg0 : forall x, is_derive g x (g1 x).
  Hypothesis Hg1 : forall x, is_derive g1 x (g2 x).
  Hypothesis Hg2 : forall x, is_derive g2 x (g3 x).
  Hypothesis Hg3 : forall x, is_derive g3 x (g4 x).
  Hypothesis HB0 : forall x, Rabs (g x) <= B0.
  Hypothesis HB1 : forall x, Rabs (g1 x) <= B1.
  Hypothesis HB2 : forall x, Rabs (g2 x) <= B2.
  Hypothesis HB3 : forall x, Rabs (g3 x) <= B3.
  Hypothesis HB4 : forall x, Rabs (g4 x) <= B4.

  Lemma aB0_nonneg : 0 <= B0.  Proof. eapply Rle_trans. apply Rabs_pos. apply (HB0 0). Qed.
  Lemma aB1_nonneg : 0 <= B1.  Proof. eapply Rle_trans. apply Rabs_pos. apply (HB1 0). Qed.
  Lemma aB2_nonneg : 0 <= B2.  Proof. eapply Rle_trans. apply Rabs_pos. apply (HB2 0). Qed.
  Lemma aB3_nonneg : 0 <= B3.  Proof. eapply Rle_trans. apply Rabs_pos. apply (HB3 0). Qed.
  Lemma aB4_nonneg : 0 <= B4.  Proof. eapply Rle_trans. apply Rabs_pos. apply (HB4 0). Qed.

  (** the k-th derivative of g, k = 0..4 *)
  Definition Gd (k : nat) : R -> R :=
    match k with O => g | 1%nat => g1 | 2%nat => g2 | 3%nat => g3 | _ => g4 end.
  Definition Bd (k : nat) : R :=
    match k with O => B0 | 1%nat => B1 | 2%nat => B2 | 3%nat => B3 | _ => B4 end.

  Lemma Gd_is_derive k x : (k < 4)%nat -> is_derive (Gd k) x (Gd (S k) x).
  Proof.
    intros Hk. destruct k as [|[|[|[|k]]]]; [apply Hg0 | apply Hg1 | apply Hg2 | apply Hg3 | lia].
  Qed.
  Lemma Gd_bound k x : Rabs (Gd k x) <= Bd k.
  Proof.
    destruct k as [|[|[|[|k]]]]; [apply HB0 | apply HB1 | apply HB2 | apply HB3 | apply HB4].
  Qed.

  Lemma ag_lipschitz x x' : Rabs (g x - g x') <= B1 * Rabs (x - x').
  Proof.
    apply (bounded_variation g g1). intros t _. split. apply Hg0. apply HB1.
  Qed.

  (** ** Taylor expansions of g at p with an increment d of any sign, orders 0..3 *)
  Section TaylorG4.
    Variables p d : R.
    Let phi (s : R) : R := g (p + s * d).

    Lemma phik_is_derive k s : (k < 4)%nat ->
      is_derive (fun u => d ^ k * Gd k (p + u * d)) s (d ^ S k * Gd (S k) (p + s * d)).
    Proof.
      intros Hk. pose proof (Gd_is_derive k (p + s * d) Hk) as HG.
      assert (Hex : ex_derive (Gd k) (p + s * d)) by (eexists; exact HG).
      auto_derive. exact Hex.
      change (Derive (fun x : R => Gd k x)) with (Derive (Gd k)).
      rewrite (is_derive_unique _ _ _ HG). simpl. ring.
    Qed.

    Lemma Derive_n_phi k : (k <= 4)%nat -> forall s, Derive_n phi k s = d ^ k * Gd k (p + s * d).
    Proof.
      induction k as [|k IH]; intros Hk s.
      - simpl. unfold phi. ring.
      - change (Derive_n phi (S k) s) with (Derive (Derive_n phi k) s).
        rewrite (Derive_ext _ _ s (IH ltac:(lia))).
        apply is_derive_unique. apply phik_is_derive. lia.
    Qed.

    Lemma phi_ex_derive_n k s : (k <= 4)%nat -> ex_derive_n phi k s.
    Proof.
      intros Hk. destruct k as [|k]. exact I.
      change (ex_derive (Derive_n phi k) s).
      apply (ex_derive_ext (fun u => d ^ k * Gd k (p + u * d))).
      - intros u. symmetry. apply Derive_n_phi. lia.
      - eexists. apply phik_is_derive. lia.
    Qed.

    (** Taylor-Lagrange on [0,1] for phi *)
    Lemma taylor_g_gen n : (n < 4)%nat -> exists c, 0 < c < 1 /\
      g (p + d) = sum_f_R0 (fun m => d ^ m / INR (fact m) * Gd m p) n
                  + d ^ S n / INR (fact (S n)) * Gd (S n) (p + c * d).
    Proof.
      intros Hn.
      destruct (Taylor_Lagrange phi n 0 1 ltac:(lra)) as (c & Hc & E).
      { intros t _ k Hk. apply phi_ex_derive_n. lia. }
      exists c. split. exact Hc.
      replace (g (p + d)) with (phi 1) by (unfold phi; f_equal; ring).
      rewrite E. rewrite Derive_n_phi by lia. f_equal.
      - apply sum_eq. intros i Hi. rewrite Derive_n_phi by lia.
        replace (p + 0 * d) with p by ring. replace (1 - 0) with 1 by ring.
        rewrite pow1. field. apply INR_fact_neq_0.
      - replace (1 - 0) with 1 by ring. rewrite pow1. field. apply INR_fact_neq_0.
    Qed.

    Variable D : R.
    Hypothesis HD : Rabs d <= D.

    Lemma taylor_g0 : Rabs (g (p + d) - g p) <= B1 * D.
    Proof.
      destruct (taylor_g_gen 0 ltac:(lia)) as (c & _ & E). rewrite E. cbn [sum_f_R0 Gd].
      replace (d ^ 0 / INR (fact 0) * g p + d ^ 1 / INR (fact 1) * g1 (p + c * d) - g p)
        with (d ^ 1 / 1 * g1 (p + c * d)) by (simpl; field).
      replace (B1 * D) with (B1 * D ^ 1 / 1) by field.
      apply taylor_rem_bound. lra. exact HD. apply HB1.
    Qed.
    Lemma taylor_g1 : Rabs (g (p + d) - (g p + d * g1 p)) <= B2 * D ^ 2 / 2.
    Proof.
      destruct (taylor_g_gen 1 ltac:(lia)) as (c & _ & E). rewrite E. cbn [sum_f_R0 Gd].
      match goal with |- Rabs ?e <= _ =>
        replace e with (d ^ 2 / 2 * g2 (p + c * d)) by (simpl; field) end.
      apply taylor_rem_bound. lra. exact HD. apply HB2.
    Qed.
    Lemma taylor_g2 : Rabs (g (p + d) - (g p + d * g1 p + d ^ 2 / 2 * g2 p)) <= B3 * D ^ 3 / 6.
    Proof.
      destruct (taylor_g_gen 2 ltac:(lia)) as (c & _ & E). rewrite E. cbn [sum_f_R0 Gd].
      match goal with |- Rabs ?e <= _ =>
        replace e with (d ^ 3 / 6 * g3 (p + c * d)) by (simpl; field) end.
      apply taylor_rem_bound. lra. exact HD. apply HB3.
    Qed.
    Lemma taylor_g3 :
      Rabs (g (p + d) - (g p + d * g1 p + d ^ 2 / 2 * g2 p + d ^ 3 / 6 * g3 p)) <= B4 * D ^ 4 / 24.
    Proof.
      destruct (taylor_g_gen 3 ltac:(lia)) as (c & _ & E). rewrite E. cbn [sum_f_R0 Gd].
      match goal with |- Rabs ?e <= _ =>
        replace e with (d ^ 4 / 24 * g4 (p + c * d)) by (simpl; field) end.
      apply taylor_rem_bound. lra. exact HD. apply HB4.
    Qed.
  End TaylorG4.

  (** ** the exact solution on an open interval (a, b): elementary differentials up to order 5 *)
  Definition aM5 : R :=
    B4 * B0 ^ 4 + 7 * (B3 * B1 * B0 ^ 3) + 4 * (B2 ^ 2 * B0 ^ 3) + 11 * (B2 * B1 ^ 2 * B0 ^ 2)
    + B1 ^ 4 * B0.

  Section ASolution.
    Variable y : R -> R.
    Variables a b : R.
    Hypothesis Hode : forall t, a < t < b -> is_derive y t (g (y t)).

    Definition aY2 (t : R) : R := g1 (y t) * g (y t).
    Definition aY3 (t : R) : R := g2 (y t) * g (y t) ^ 2 + g1 (y t) ^ 2 * g (y t).
    Definition aY4 (t : R) : R :=
      g3 (y t) * g (y t) ^ 3 + 4 * g2 (y t) * g1 (y t) * g (y t) ^ 2 + g1 (y t) ^ 3 * g (y t).
    Definition aY5 (t : R) : R :=
      g4 (y t) * g (y t) ^ 4 + 7 * (g3 (y t) * g1 (y t) * g (y t) ^ 3)
      + 4 * (g2 (y t) ^ 2 * g (y t) ^ 3) + 11 * (g2 (y t) * g1 (y t) ^ 2 * g (y t) ^ 2)
      + g1 (y t) ^ 4 * g (y t).

    Lemma asol_locally t (P : R -> Prop) : a < t < b ->
      (forall s, a < s < b -> P s) -> locally t P.
    Proof.
      intros Ht HP. apply (locally_interval P t a b); simpl; try lra.
      intros s Hs1 Hs2. apply HP. simpl in *. lra.
    Qed.

    (** d/dt G_k (y t) = G_(k+1) (y t) * g (y t) *)
    Lemma acomp_is_derive k t : (k < 4)%nat -> a < t < b ->
      is_derive (fun s => Gd k (y s)) t (Gd (S k) (y t) * g (y t)).
    Proof.
      intros Hk Ht.
      evar_last. apply (is_derive_comp (Gd k) y). apply Gd_is_derive. exact Hk.
      apply Hode. exact Ht.
      simpl. unfold scal; simpl; unfold mult; simpl. ring.
    Qed.

    Lemma aY1_is_derive t : a < t < b -> is_derive (fun s => g (y s)) t (aY2 t).
    Proof. intros Ht. apply (acomp_is_derive 0 t). lia. exact Ht. Qed.

    Lemma upoly_derive2 (u0 u1 u2 : R -> R) t :
      is_derive u0 t (u1 t * u0 t) -> is_derive u1 t (u2 t * u0 t) ->
      is_derive (fun s => u1 s * u0 s) t (u2 t * u0 t ^ 2 + u1 t ^ 2 * u0 t).
    Proof.
      intros H0 H1.
      assert (E0 : ex_derive u0 t) by (eexists; exact H0).
      assert (E1 : ex_derive u1 t) by (eexists; exact H1).
      auto_derive. repeat split; assumption.
      change (Derive (fun x : R => u0 x)) with (Derive u0).
      change (Derive (fun x : R => u1 x)) with (Derive u1).
      rewrite (is_derive_unique _ _ _ H0), (is_derive_unique _ _ _ H1). ring.
    Qed.

    Lemma upoly_derive3 (u0 u1 u2 u3 : R -> R) t :
      is_derive u0 t (u1 t * u0 t) -> is_derive u1 t (u2 t * u0 t) ->
      is_derive u2 t (u3 t * u0 t) ->
      is_derive (fun s => u2 s * u0 s ^ 2 + u1 s ^ 2 * u0 s) t
        (u3 t * u0 t ^ 3 + 4 * u2 t * u1 t * u0 t ^ 2 + u1 t ^ 3 * u0 t).
    Proof.
      intros H0 H1 H2.
      assert (E0 : ex_derive u0 t) by (eexists; exact H0).
      assert (E1 : ex_derive u1 t) by (eexists; exact H1).
      assert (E2 : ex_derive u2 t) by (eexists; exact H2).
      auto_derive. repeat split; assumption.
      change (Derive (fun x : R => u0 x)) with (Derive u0).
      change (Derive (fun x : R => u1 x)) with (Derive u1).
      change (Derive (fun x : R => u2 x)) with (Derive u2).
      rewrite (is_derive_unique _ _ _ H0), (is_derive_unique _ _ _ H1),
        (is_derive_unique _ _ _ H2). ring.
    Qed.

    Lemma upoly_derive4 (u0 u1 u2 u3 u4 : R -> R) t :
      is_derive u0 t (u1 t * u0 t) -> is_derive u1 t (u2 t * u0 t) ->
      is_derive u2 t (u3 t * u0 t) -> is_derive u3 t (u4 t * u0 t) ->
      is_derive (fun s => u3 s * u0 s ^ 3 + 4 * u2 s * u1 s * u0 s ^ 2 + u1 s ^ 3 * u0 s) t
        (u4 t * u0 t ^ 4 + 7 * (u3 t * u1 t * u0 t ^ 3) + 4 * (u2 t ^ 2 * u0 t ^ 3)
         + 11 * (u2 t * u1 t ^ 2 * u0 t ^ 2) + u1 t ^ 4 * u0 t).
    Proof.
      intros H0 H1 H2 H3.
      assert (E0 : ex_derive u0 t) by (eexists; exact H0).
      assert (E1 : ex_derive u1 t) by (eexists; exact H1).
      assert (E2 : ex_derive u2 t) by (eexists; exact H2).
      assert (E3 : ex_derive u3 t) by (eexists; exact H3).
      auto_derive. repeat split; assumption.
      change (Derive (fun x : R => u0 x)) with (Derive u0).
      change (Derive (fun x : R => u1 x)) with (Derive u1).
      change (Derive (fun x : R => u2 x)) with (Derive u2).
      change (Derive (fun x : R => u3 x)) with (Derive u3).
      rewrite (is_derive_unique _ _ _ H0), (is_derive_unique _ _ _ H1),
        (is_derive_unique _ _ _ H2), (is_derive_unique _ _ _ H3). ring.
    Qed.

    Lemma aY2_is_derive t : a < t < b -> is_derive aY2 t (aY3 t).
    Proof.
      intros Ht.
      apply (upoly_derive2 (fun s => g (y s)) (fun s => g1 (y s)) (fun s => g2 (y s)) t).
      apply (acomp_is_derive 0 t); [lia | exact Ht].
      apply (acomp_is_derive 1 t); [lia | exact Ht].
    Qed.
    Lemma aY3_is_derive t : a < t < b -> is_derive aY3 t (aY4 t).
    Proof.
      intros Ht.
      apply (upoly_derive3 (fun s => g (y s)) (fun s => g1 (y s)) (fun s => g2 (y s))
               (fun s => g3 (y s)) t).
      apply (acomp_is_derive 0 t); [lia | exact Ht].
      apply (acomp_is_derive 1 t); [lia | exact Ht].
      apply (acomp_is_derive 2 t); [lia | exact Ht].
    Qed.
    Lemma aY4_is_derive t : a < t < b -> is_derive aY4 t (aY5 t).
    Proof.
      intros Ht.
      apply (upoly_derive4 (fun s => g (y s)) (fun s => g1 (y s)) (fun s => g2 (y s))
               (fun s => g3 (y s)) (fun s => g4 (y s)) t).
      apply (acomp_is_derive 0 t); [lia | exact Ht].
      apply (acomp_is_derive 1 t); [lia | exact Ht].
      apply (acomp_is_derive 2 t); [lia | exact Ht].
      apply (acomp_is_derive 3 t); [lia | exact Ht].
    Qed.

    (** one step up the ladder: if y^(k) = Yk on (a,b) and Yk' = Yk1 there, then
        (y^(k))' = Yk1 and y^(k+1) = Yk1 on (a,b) *)
    Lemma asol_ladder k (Yk Yk1 : R -> R) :
      (forall t, a < t < b -> Derive_n y k t = Yk t) ->
      (forall t, a < t < b -> is_derive Yk t (Yk1 t)) ->
      (forall t, a < t < b -> is_derive (Derive_n y k) t (Yk1 t))
      /\ (forall t, a < t < b -> Derive_n y (S k) t = Yk1 t).
    Proof.
      intros HY HD.
      assert (H1 : forall t, a < t < b -> is_derive (Derive_n y k) t (Yk1 t)).
      { intros t Ht. apply (is_derive_ext_loc Yk).
        - apply asol_locally. exact Ht. intros s Hs. symmetry. apply HY. exact Hs.
        - apply HD. exact Ht. }
      split. exact H1.
      intros t Ht. change (Derive_n y (S k) t) with (Derive (Derive_n y k) t).
      apply is_derive_unique. apply H1. exact Ht.
    Qed.

    Lemma asol_d0 : (forall t, a < t < b -> is_derive (Derive_n y 0) t (g (y t)))
                    /\ (forall t, a < t < b -> Derive_n y 1 t = g (y t)).
    Proof.
      split. exact Hode. intros t Ht. apply is_derive_unique. apply Hode. exact Ht.
    Qed.
    Lemma asol_d1 : (forall t, a < t < b -> is_derive (Derive_n y 1) t (aY2 t))
                    /\ (forall t, a < t < b -> Derive_n y 2 t = aY2 t).
    Proof. apply (asol_ladder 1 (fun s => g (y s))). apply asol_d0. exact aY1_is_derive. Qed.
    Lemma asol_d2 : (forall t, a < t < b -> is_derive (Derive_n y 2) t (aY3 t))
                    /\ (forall t, a < t < b -> Derive_n y 3 t = aY3 t).
    Proof. apply (asol_ladder 2 aY2). apply asol_d1. exact aY2_is_derive. Qed.
    Lemma asol_d3 : (forall t, a < t < b -> is_derive (Derive_n y 3) t (aY4 t))
                    /\ (forall t, a < t < b -> Derive_n y 4 t = aY4 t).
    Proof. apply (asol_ladder 3 aY3). apply asol_d2. exact aY3_is_derive. Qed.
    Lemma asol_d4 : (forall t, a < t < b -> is_derive (Derive_n y 4) t (aY5 t))
                    /\ (forall t, a < t < b -> Derive_n y 5 t = aY5 t).
    Proof. apply (asol_ladder 4 aY4). apply asol_d3. exact aY4_is_derive. Qed.

    Lemma aY5_bound t : Rabs (aY5 t) <= aM5.
    Proof.
      unfold aY5, aM5.
      pose proof (HB0 (y t)) as b0. pose proof (HB1 (y t)) as b1. pose proof (HB2 (y t)) as b2.
      pose proof (HB3 (y t)) as b3. pose proof (HB4 (y t)) as b4.
      repeat (apply Rabs_plus_le || apply Rabs_mult_le || apply Rabs_pow_le
              || assumption || (apply Rabs_const_le; lra)).
    Qed.

    (** Taylor-Lagrange of order 4 for y *)
    Lemma taylor5_y s h : 0 < h -> a < s -> s + h < b ->
      Rabs (y (s + h) - (y s + h * g (y s) + h ^ 2 / 2 * aY2 s + h ^ 3 / 6 * aY3 s
                         + h ^ 4 / 24 * aY4 s)) <= aM5 * h ^ 5 / 120.
    Proof.
      intros Hh Ha Hb.
      destruct (Taylor_Lagrange y 4 s (s + h) ltac:(lra)) as (c & Hc & E).
      { intros t Ht k Hk.
        assert (Ht' : a < t < b) by lra.
        destruct k as [|[|[|[|[|[|k]]]]]]; [exact I | | | | | | lia]; eexists.
        - apply (proj1 asol_d0). exact Ht'.
        - apply (proj1 asol_d1). exact Ht'.
        - apply (proj1 asol_d2). exact Ht'.
        - apply (proj1 asol_d3). exact Ht'.
        - apply (proj1 asol_d4). exact Ht'. }
      assert (E2 : y (s + h) - (y s + h * g (y s) + h ^ 2 / 2 * aY2 s + h ^ 3 / 6 * aY3 s
                                + h ^ 4 / 24 * aY4 s) = h ^ 5 / 120 * aY5 c).
      { rewrite E. replace (s + h - s) with h by ring. cbn [sum_f_R0].
        rewrite (proj2 asol_d4), (proj2 asol_d3), (proj2 asol_d2), (proj2 asol_d1),
          (proj2 asol_d0) by lra.
        change (Derive_n y 0 s) with (y s).
        generalize (aY5 c) (aY4 s) (aY3 s) (aY2 s) (g (y s)) (y s). intros d5 d4 d3 d2 d1 d0.
        simpl. field. }
      rewrite E2. apply taylor_rem_bound. lra.
      rewrite Rabs_pos_eq; lra. apply aY5_bound.
    Qed.

    (** LOCAL TRUNCATION ERROR of the classical RK4 scheme along y (open interval) *)
    Theorem RK4_autonomous_local_truncation_open s h : 0 < h -> a < s -> s + h < b ->
      Rabs (y (s + h) - y s - h * Phi_RK4 (fun _ x => g x) h s (y s))
        <= C_RK4a B0 B1 B2 B3 B4 * h ^ 5.
    Proof.
      intros Hh Ha Hb.
      pose proof (taylor5_y s h Hh Ha Hb) as H1.
      unfold Phi_RK4, rk4_k4, rk4_k3, rk4_k2, rk4_k1. cbv beta.
      unfold aY2, aY3, aY4 in H1.
      set (p := y s) in *.
      set (k2 := g (p + h / 2 * g p)). set (k3 := g (p + h / 2 * k2)). set (k4 := g (p + h * k3)).
      assert (Hd2 : Rabs (h * / 2 * g p) <= h * / 2 * B0).
      { apply Rabs_mult_le. apply Rabs_const_le. lra. apply HB0. }
      assert (Hd3 : Rabs (h * / 2 * k2) <= h * / 2 * B0).
      { apply Rabs_mult_le. apply Rabs_const_le. lra. apply HB0. }
      assert (Hd4 : Rabs (h * k3) <= h * B0).
      { apply Rabs_mult_le. apply Rabs_const_le. lra. apply HB0. }
      pose proof (rk4_local_algebra h (g p) (g1 p) (g2 p) (g3 p) k2 k3 k4 B0 B1 B2 B3 B4 Hh
                    (HB0 p) (HB0 _) (HB0 _) (HB1 p) (HB2 p) (HB3 p)
                    (taylor_g0 p _ _ Hd2) (taylor_g1 p _ _ Hd2) (taylor_g2 p _ _ Hd2)
                    (taylor_g3 p _ _ Hd2)
                    (taylor_g0 p _ _ Hd3) (taylor_g1 p _ _ Hd3) (taylor_g2 p _ _ Hd3)
                    (taylor_g3 p _ _ Hd3)
                    (taylor_g3 p _ _ Hd4)) as H2.
      rewrite <- (C_RK4a_eq h). fold aM5.
      match type of H1 with Rabs ?e1 <= _ => match type of H2 with Rabs ?e2 <= _ =>
        replace (y (s + h) - p - h * ((g p + 2 * k2 + 2 * k3 + k4) / 6)) with (e1 + - e2) by ring
      end end.
      eapply Rle_trans. apply Rabs_triang. rewrite Rabs_Ropp. lra.
    Qed.
  End ASolution.

  Lemma ag_ex_derive x : ex_derive g x.
  Proof. eexists. apply Hg0. Qed.

  (** ** the exact solution on a CLOSED interval [t0, t0 + T]: the two end steps by continuity *)
  Section ASolutionClosed.
    Variable y : R -> R.
    Variables t0 T : R.
    Hypothesis Hode : forall t, t0 <= t <= t0 + T -> is_derive y t (g (y t)).

    Lemma aHode_open : forall t, t0 < t < t0 + T -> is_derive y t (g (y t)).
    Proof. intros t Ht. apply Hode. lra. Qed.

    Section AShrink.
      Variables s h : R.
      Hypothesis Hh : 0 < h.
      Hypothesis Hs0 : t0 <= s.
      Hypothesis Hs1 : s + h <= t0 + T.

      (** the local error of the step shrunk by eps at both ends *)
      Definition ashrunk (eps : R) : R :=
        y (s + h - eps) - y (s + eps)
        - (h - 2 * eps) * Phi_RK4 (fun _ x => g x) (h - 2 * eps) (s + eps) (y (s + eps)).

      Lemma ashrunk_0 : ashrunk 0 = y (s + h) - y s - h * Phi_RK4 (fun _ x => g x) h s (y s).
      Proof.
        unfold ashrunk.
        replace (s + h - 0) with (s + h) by ring. replace (s + 0) with s by ring.
        replace (h - 2 * 0) with h by ring. reflexivity.
      Qed.

      Lemma ashrunk_bound eps : 0 < eps < h / 2 ->
        Rabs (ashrunk eps) <= C_RK4a B0 B1 B2 B3 B4 * h ^ 5.
      Proof.
        intros He.
        pose proof (RK4_autonomous_local_truncation_open y t0 (t0 + T) aHode_open
                      (s + eps) (h - 2 * eps) ltac:(lra) ltac:(lra) ltac:(lra)) as H.
        replace (s + eps + (h - 2 * eps)) with (s + h - eps) in H by ring.
        eapply Rle_trans. exact H.
        apply Rmult_le_compat_l.
        apply C_RK4a_nonneg; [apply aB0_nonneg | apply aB1_nonneg | apply aB2_nonneg
                              | apply aB3_nonneg | apply aB4_nonneg].
        apply pow_incr. lra.
      Qed.

      Lemma ashrunk_continuous : continuous ashrunk 0.
      Proof.
        apply (ex_derive_continuous (K := R_AbsRing) (V := R_NormedModule) ashrunk 0).
        assert (Hy0 : ex_derive y (s + 0)).
        { exists (g (y (s + 0))). apply Hode. lra. }
        assert (Hy1 : ex_derive y (s + h - 0)).
        { exists (g (y (s + h - 0))). apply Hode. lra. }
        unfold ashrunk, Phi_RK4, rk4_k4, rk4_k3, rk4_k2, rk4_k1. auto_derive.
        repeat split; try assumption; try apply ag_ex_derive.
      Qed.

      Lemma aclosed_step_bound :
        Rabs (y (s + h) - y s - h * Phi_RK4 (fun _ x => g x) h s (y s))
          <= C_RK4a B0 B1 B2 B3 B4 * h ^ 5.
      Proof.
        rewrite <- ashrunk_0.
        apply (bound_at_0_by_continuity ashrunk h _ Hh ashrunk_continuous ashrunk_bound).
      Qed.
    End AShrink.

    Theorem RK4_autonomous_local_truncation s h : 0 < h -> t0 <= s -> s + h <= t0 + T ->
      Rabs (y (s + h) - y s - h * Phi_RK4 (fun _ x => g x) h s (y s))
        <= C_RK4a B0 B1 B2 B3 B4 * h ^ 5.
    Proof. intros Hh H0 H1. apply aclosed_step_bound; assumption. Qed.
  End ASolutionClosed.

  (** ** fourth-order convergence of the classical RK4 scheme: COMPLETE *)
  Section AConvergence.
    Variable y : R -> R.
    Variables h t0 T : R.
    Variable n : nat.
    Hypothesis Hh : 0 < h.
    Hypothesis HT : INR n * h = T.
    Hypothesis Hode : forall t, t0 <= t <= t0 + T -> is_derive y t (g (y t)).

    Lemma RK4_autonomous_grid_truncation k : (k < n)%nat ->
      Rabs (y (t0 + INR (S k) * h) - y (t0 + INR k * h)
            - h * Phi_RK4 (fun _ x => g x) h (t0 + INR k * h) (y (t0 + INR k * h)))
        <= C_RK4a B0 B1 B2 B3 B4 * h ^ 5.
    Proof.
      intros Hk.
      pose proof (grid_in_interval t0 h n k Hh ltac:(lia)) as H1.
      pose proof (grid_in_interval t0 h n (S k) Hh ltac:(lia)) as H2.
      rewrite HT in H1, H2.
      replace (t0 + INR (S k) * h) with (t0 + INR k * h + h) in * by (rewrite S_INR; ring).
      apply (RK4_autonomous_local_truncation y t0 T Hode); lra.
    Qed.

    Lemma C_RK4a_field_nonneg : 0 <= C_RK4a B0 B1 B2 B3 B4.
    Proof.
      apply C_RK4a_nonneg; [apply aB0_nonneg | apply aB1_nonneg | apply aB2_nonneg
                            | apply aB3_nonneg | apply aB4_nonneg].
    Qed.

    Theorem RK4_autonomous_converges_order4 :
      Rabs (one_step_iter (Phi_RK4 (fun _ x => g x) h) h t0 n (y t0) - y (t0 + T))
        <= exp (T * Lip_RK4 h B1) * T * C_RK4a B0 B1 B2 B3 B4 * h ^ 4.
    Proof.
      apply (RK4_converges_order4 (fun _ x => g x) y h B1 (C_RK4a B0 B1 B2 B3 B4) t0 T n Hh
               aB1_nonneg C_RK4a_field_nonneg HT).
      - intros _ x x'. apply ag_lipschitz.
      - exact RK4_autonomous_grid_truncation.
    Qed.

    Theorem RK4_autonomous_converges_order4_uniform hmax : h <= hmax ->
      Rabs (one_step_iter (Phi_RK4 (fun _ x => g x) h) h t0 n (y t0) - y (t0 + T))
        <= exp (T * Lip_RK4 hmax B1) * T * C_RK4a B0 B1 B2 B3 B4 * h ^ 4.
    Proof.
      intros Hmax.
      apply (RK4_converges_order4_uniform (fun _ x => g x) y h hmax B1 (C_RK4a B0 B1 B2 B3 B4)
               t0 T n (conj Hh Hmax) aB1_nonneg C_RK4a_field_nonneg HT).
      - intros _ x x'. apply ag_lipschitz.
      - exact RK4_autonomous_grid_truncation.
    Qed.
  End AConvergence.
End AutonomousRK4.

(** * Corollaries of (L3): hypotheses in [Derive_n] form; the rational model of the tracker *)
Section AutonomousRK4Corollaries.
  Variable g : R -> R.
  Variables B0 B1 B2 B3 B4 : R.
  Hypothesis Hgn : forall (k : nat) (x : R), (k <= 4)%nat -> ex_derive_n g k x.
  Hypothesis HB0 : forall x, Rabs (g x) <= B0.
  Hypothesis HB1 : forall x, Rabs (Derive_n g 1 x) <= B1.
  Hypothesis HB2 : forall x, Rabs (Derive_n g 2 x) <= B2.
  Hypothesis HB3 : forall x, Rabs (Derive_n g 3 x) <= B3.
  Hypothesis HB4 : forall x, Rabs (Derive_n g 4 x) <= B4.

  Lemma Derive_n_is_derive k x : (k < 4)%nat ->
    is_derive (Derive_n g k) x (Derive_n g (S k) x).
  Proof.
    intros Hk. change (Derive_n g (S k) x) with (Derive (Derive_n g k) x).
    apply Derive_correct. apply (Hgn (S k) x). lia.
  Qed.

  Theorem RK4_autonomous_local_truncation_Derive_n (y : R -> R) (t0 T s h : R) :
    (forall t, t0 <= t <= t0 + T -> is_derive y t (g (y t))) ->
    0 < h -> t0 <= s -> s + h <= t0 + T ->
    Rabs (y (s + h) - y s - h * Phi_RK4 (fun _ x => g x) h s (y s))
      <= C_RK4a B0 B1 B2 B3 B4 * h ^ 5.
  Proof.
    intros Hode.
    apply (RK4_autonomous_local_truncation g (Derive_n g 1) (Derive_n g 2) (Derive_n g 3)
             (Derive_n g 4) B0 B1 B2 B3 B4
             (fun x => Derive_n_is_derive 0 x ltac:(lia)) (fun x => Derive_n_is_derive 1 x ltac:(lia))
             (fun x => Derive_n_is_derive 2 x ltac:(lia)) (fun x => Derive_n_is_derive 3 x ltac:(lia))
             HB0 HB1 HB2 HB3 HB4 y t0 T Hode).
  Qed.

  Theorem RK4_autonomous_converges_order4_Derive_n (y : R -> R) (h hmax t0 T : R) (n : nat) :
    0 < h <= hmax -> INR n * h = T ->
    (forall t, t0 <= t <= t0 + T -> is_derive y t (g (y t))) ->
    Rabs (one_step_iter (Phi_RK4 (fun _ x => g x) h) h t0 n (y t0) - y (t0 + T))
      <= exp (T * Lip_RK4 hmax B1) * T * C_RK4a B0 B1 B2 B3 B4 * h ^ 4.
  Proof.
    intros [Hh Hmax] HT Hode.
    apply (RK4_autonomous_converges_order4_uniform g (Derive_n g 1) (Derive_n g 2) (Derive_n g 3)
             (Derive_n g 4) B0 B1 B2 B3 B4
             (fun x => Derive_n_is_derive 0 x ltac:(lia)) (fun x => Derive_n_is_derive 1 x ltac:(lia))
             (fun x => Derive_n_is_derive 2 x ltac:(lia)) (fun x => Derive_n_is_derive 3 x ltac:(lia))
             HB0 HB1 HB2 HB3 HB4 y h t0 T n Hh HT Hode hmax Hmax).
  Qed.

  (** n steps of the rational model (Tracker.rk_iter with tab_RK4) on an oracle that agrees with g *)
  Theorem model_RK4_autonomous_converges_order4
      (vel : Q -> Q -> Q -> Q * Q) (dtdx dtdy x0 y0 : Q) (y : R -> R) (t0 T : R) (n : nat) :
    0 < Q2R dtdx -> INR n * Q2R dtdx = T ->
    (forall s x y', Q2R (fst (vel s x y')) = g (Q2R x)) ->
    Q2R x0 = y t0 ->
    (forall t, t0 <= t <= t0 + T -> is_derive y t (g (y t))) ->
    Rabs (Q2R (fst (rk_iter vel dtdx dtdy tab_RK4 n x0 y0)) - y (t0 + T))
      <= exp (T * Lip_RK4 (Q2R dtdx) B1) * T * C_RK4a B0 B1 B2 B3 B4 * Q2R dtdx ^ 4.
  Proof.
    intros Hh HT Hvel Hx0 Hode.
    pose proof (fun x => Derive_n_is_derive 0 x ltac:(lia)) as D0.
    pose proof (fun x => Derive_n_is_derive 1 x ltac:(lia)) as D1.
    pose proof (fun x => Derive_n_is_derive 2 x ltac:(lia)) as D2.
    pose proof (fun x => Derive_n_is_derive 3 x ltac:(lia)) as D3.
    apply (model_RK4_converges_order4 vel dtdx dtdy x0 y0 (fun _ x => g x) y B1 t0 T n Hh
             (aB1_nonneg (Derive_n g 1) B1 HB1) HT).
    - intros _ x x'. apply (ag_lipschitz g (Derive_n g 1) B1 D0 HB1).
    - intros k s x y'. apply Hvel.
    - exact Hx0.
    - apply (C_RK4a_field_nonneg g (Derive_n g 1) (Derive_n g 2) (Derive_n g 3) (Derive_n g 4)
               B0 B1 B2 B3 B4 HB0 HB1 HB2 HB3 HB4).
    - apply (RK4_autonomous_grid_truncation g (Derive_n g 1) (Derive_n g 2) (Derive_n g 3)
               (Derive_n g 4) B0 B1 B2 B3 B4 D0 D1 D2 D3 HB0 HB1 HB2 HB3 HB4 y (Q2R dtdx) t0 T n);
        [exact Hh | exact HT | exact Hode].
  Qed.
End AutonomousRK4Corollaries.

(** * Non-vacuity of (L3): y' = sin y, y(0) = PI/2, exact solution y t = 2 atan (exp t);
      B0 = ... = B4 = 1, C_RK4a 1 1 1 1 1 = 129/320 *)
Example RK4_sin_example n h T : 0 < h -> INR n * h = T ->
  Rabs (one_step_iter (Phi_RK4 (fun _ x => sin x) h) h 0 n (PI / 2) - 2 * atan (exp T))
    <= exp (T * Lip_RK4 h 1) * T * (129 / 320) * h ^ 4.
Proof.
  intros Hh HT.
  pose proof (RK4_autonomous_converges_order4 sin cos (fun x => - sin x) (fun x => - cos x) sin
                1 1 1 1 1) as H.
  specialize (H sin_is_derive cos_is_derive).
  assert (D2 : forall x, is_derive (fun x => - sin x) x (- cos x)).
  { intros x. auto_derive. exact I. ring. }
  assert (D3 : forall x, is_derive (fun x => - cos x) x (sin x)).
  { intros x. auto_derive. exact I. ring. }
  assert (Hms : forall x, Rabs (- sin x) <= 1) by (intros; rewrite Rabs_Ropp; apply Rabs_sin_le).
  assert (Hmc : forall x, Rabs (- cos x) <= 1) by (intros; rewrite Rabs_Ropp; apply Rabs_cos_le).
  specialize (H D2 D3 Rabs_sin_le Rabs_cos_le Hms Hmc Rabs_sin_le
                y_sin h 0 T n Hh HT (fun t _ => y_sin_is_derive t)).
  rewrite y_sin_0, Rplus_0_l in H. unfold y_sin at 1 in H.
  replace (C_RK4a 1 1 1 1 1) with (129 / 320) in H by (unfold C_RK4a; field).
  exact H.
Qed.

(** * Non-vacuity of (L1): y' = cos t, y = sin, B4 = 1 (RK4 = Simpson's rule on cos) *)
Lemma Derive_n_cos_1 u : Derive_n cos 1 u = - sin u.
Proof. apply is_derive_unique. apply cos_is_derive. Qed.
Lemma Derive_n_cos_2 u : Derive_n cos 2 u = - cos u.
Proof.
  change (Derive (Derive_n cos 1) u = - cos u). rewrite (Derive_ext _ _ u Derive_n_cos_1).
  apply is_derive_unique. auto_derive. exact I. ring.
Qed.
Lemma Derive_n_cos_3 u : Derive_n cos 3 u = sin u.
Proof.
  change (Derive (Derive_n cos 2) u = sin u). rewrite (Derive_ext _ _ u Derive_n_cos_2).
  apply is_derive_unique. auto_derive. exact I. ring.
Qed.
Lemma Derive_n_cos_4 u : Derive_n cos 4 u = cos u.
Proof.
  change (Derive (Derive_n cos 3) u = cos u). rewrite (Derive_ext _ _ u Derive_n_cos_3).
  apply is_derive_unique. apply sin_is_derive.
Qed.
Lemma cos_ex_derive_n k x : (k <= 4)%nat -> ex_derive_n cos k x.
Proof.
  intros Hk. destruct k as [|[|[|[|[|k]]]]]; [exact I | | | | | lia].
  - exists (- sin x). apply cos_is_derive.
  - apply (ex_derive_ext (fun u => - sin u)). intros u. symmetry. apply Derive_n_cos_1.
    auto_derive. exact I.
  - apply (ex_derive_ext (fun u => - cos u)). intros u. symmetry. apply Derive_n_cos_2.
    auto_derive. exact I.
  - apply (ex_derive_ext sin). intros u. symmetry. apply Derive_n_cos_3.
    exists (cos x). apply sin_is_derive.
Qed.

Example RK4_cos_quadrature_example n h T : 0 < h -> INR n * h = T ->
  Rabs (one_step_iter (Phi_RK4 (fun t _ => cos t) h) h 0 n 0 - sin T) <= T * (49 / 2880) * h ^ 4.
Proof.
  intros Hh HT.
  pose proof (RK4_quadrature_converges_order4 cos 1 cos_ex_derive_n) as H.
  assert (H4 : forall x, Rabs (Derive_n cos 4 x) <= 1)
    by (intros x; rewrite Derive_n_cos_4; apply Rabs_cos_le).
  specialize (H H4 sin h 0 T n Hh HT (fun t _ => sin_is_derive t)).
  rewrite sin_0, Rplus_0_l in H.
  replace (C_Simpson 1) with (49 / 2880) in H by (unfold C_Simpson; field).
  exact H.
Qed.

(** the case lam = 0 left out by (L2): constant field f t x = mu, through (L1) with B4 = 0:
    RK4 is exact *)
Corollary RK4_constant_field_exact (mu : R) (y : R -> R) (h t0 T : R) (n : nat) :
  0 < h -> INR n * h = T ->
  (forall t, t0 <= t <= t0 + T -> is_derive y t mu) ->
  one_step_iter (Phi_RK4 (fun _ _ => mu) h) h t0 n (y t0) = y (t0 + T).
Proof.
  intros Hh HT Hode.
  pose proof (RK4_quadrature_converges_order4 (fun _ => mu) 0) as H.
  assert (H1 : forall (k : nat) (x : R), (k <= 4)%nat -> ex_derive_n (fun _ : R => mu) k x).
  { intros k x _. destruct k as [|k]. exact I. eexists. apply (is_derive_n_const k mu x). }
  assert (H2 : forall x, Rabs (Derive_n (fun _ : R => mu) 4 x) <= 0).
  { intros x. rewrite (Derive_n_const 3 mu x), Rabs_R0. lra. }
  specialize (H H1 H2 y h t0 T n Hh HT Hode).
  replace (T * C_Simpson 0 * h ^ 4) with 0 in H by (unfold C_Simpson; ring).
  set (e := one_step_iter (Phi_RK4 (fun _ _ : R => mu) h) h t0 n (y t0) - y (t0 + T)) in *.
  destruct (Req_dec e 0) as [E | E]. unfold e in E. lra.
  pose proof (Rabs_pos_lt e E). lra.
Qed.

(** * Non-vacuity of (L2): y' = - y + 1, y(0) = 0, exact solution y t = 1 - exp (- t) *)
Lemma Rabs_m1 : Rabs (-1) = 1.
Proof. rewrite Rabs_left; lra. Qed.

Example RK4_linear_example n h T : 0 < h -> INR n * h = T ->
  Rabs (one_step_iter (Phi_RK4 (fun _ x => -1 * x + 1) h) h 0 n 0 - (1 - exp (- T)))
    <= exp (T * Lip_RK4 h 1) * T * (exp (2 * T) / 120) * h ^ 4.
Proof.
  intros Hh HT.
  pose proof (RK4_linear_converges_order4 (-1) 1 ltac:(lra) (fun t => 1 - exp (- t)) h 0 T n Hh HT)
    as H.
  assert (Hode : forall t, 0 <= t <= 0 + T ->
                   is_derive (fun t => 1 - exp (- t)) t (-1 * (1 - exp (- t)) + 1)).
  { intros t _. auto_derive. exact I. ring. }
  specialize (H Hode). cbv beta in H.
  rewrite Ropp_0, exp_0, Rplus_0_l in H.
  replace (1 - 1) with 0 in H by ring.
  rewrite Rabs_m1 in H.
  replace (C_RK4lin (-1) 1 (fun t => 1 - exp (- t)) 0 T) with (exp (2 * T) / 120) in H.
  exact H.
  unfold C_RK4lin. replace (1 - exp (- 0) + 1 / -1) with (-1) by (rewrite Ropp_0, exp_0; field).
  rewrite !Rabs_m1. replace (2 * 1 * T) with (2 * T) by ring. field.
Qed.

Check Simpson_local_truncation_open.
Check RK4_quadrature_local_truncation.
Check RK4_quadrature_converges_order4.
Check RK4_cos_quadrature_example.
Check RK4_linear_local_error_exact.
Check RK4_linear_local_truncation.
Check RK4_linear_converges_order4.
Check RK4_linear_example.
Check RK4_constant_field_exact.
Check rk4_local_algebra.
Check C_RK4a_eq.
Check taylor5_y.
Check RK4_autonomous_local_truncation_open.
Check RK4_autonomous_local_truncation.
Check RK4_autonomous_converges_order4.
Check RK4_autonomous_converges_order4_uniform.
Check RK4_autonomous_converges_order4_Derive_n.
Check model_RK4_autonomous_converges_order4.
Check RK4_sin_example.

Print Assumptions RK4_quadrature_converges_order4.
Print Assumptions RK4_cos_quadrature_example.
Print Assumptions RK4_linear_converges_order4.
Print Assumptions RK4_linear_example.
Print Assumptions RK4_autonomous_local_truncation.
Print Assumptions RK4_autonomous_converges_order4.
Print Assumptions model_RK4_autonomous_converges_order4.
Print Assumptions RK4_sin_example.
