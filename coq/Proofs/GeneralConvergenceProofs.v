(** Convergence of the tracker's Runge-Kutta schemes for ARBITRARY (non-linear, time-dependent)
    Lipschitz velocity fields, over the reals: the classical "consistency + stability => convergence"
    theorem.  (ConvergenceProofs.v does the linear test equation only.)

    Setting: one space dimension; f : R -> R -> R, f t x = velocity at time t and position x; the
    step h > 0 already contains the metric factor dt/dx; f is L-Lipschitz in x uniformly in t.

    WHAT IS PROVED

    G1  generic_convergence, generic_convergence_sum, generic_convergence_exp, generic_order_p:
        for any one-step method x_{k+1} = x_k + h * Phi (t0 + k h) x_k ([one_step_iter]) whose
        increment function Phi is Lam-Lipschitz in x, and any function y with local truncation error
        |y(t_{k+1}) - y(t_k) - h Phi(t_k, y(t_k))| <= tau for k < n,
            |x_n - y(t_n)| <= (1 + h Lam)^n |x_0 - y(t0)| + tau * sum_{j<n} (1 + h Lam)^j
                           <= exp(T Lam) (|x_0 - y(t0)| + n tau),                   T = n h,
        and with tau = C h^(p+1), x_0 = y(t0):  |x_n - y(t0 + T)| <= exp(T Lam) * T * C * h^p.

    G2  Phi_EF_lipschitz, Phi_RK2_lipschitz, Phi_RK4_lipschitz (stability): the increment functions
        [Phi_EF], [Phi_RK2] (explicit midpoint), [Phi_RK4] (classical), written over R exactly as
        Tracker.EF / RK2 / RK4 compute them, are Lipschitz in x with constants
            L,   L (1 + hL/2),   L (1 + hL/2 + (hL)^2/6 + (hL)^3/24)    ([Lip_RK2], [Lip_RK4]).

    G3  EF_local_truncation, EF_converges_order1 (Euler forward, COMPLETE): if y is twice
        differentiable on [t0, t0+T], y' t = f t (y t) and |y'' t| <= M there, the local error is
        <= M/2 h^2 (Taylor-Lagrange) and n steps with n h = T from x_0 = y t0 end within
        exp(T L) * T * M/2 * h of y (t0 + T).  EF_example: the bound is attained (f t x = t).

    G4  RK2_converges_order2, RK4_converges_order4 (CONDITIONAL) and the *_uniform variants whose
        constant does not depend on h (for h <= hmax): global error <= exp(T Lip) * T * C * h^2 resp.
        h^4.  Their ONLY hypothesis besides "f is L-Lipschitz in x" is the local truncation bound
        C h^3 resp. C h^5 of the scheme along the exact solution.  That bound follows from Taylor's
        theorem for sufficiently smooth f (order conditions: SchemeProofs.tableau_orders); it is
        NOT proved here and remains a hypothesis.  RK2_example shows it is satisfiable.

    G5  model_EF_step, model_RK2_step, model_RK4_step: one step of the rational model
        (Tracker.rk_generic with tab_EF / tab_RK2 / tab_RK4) on a velocity oracle whose x-component
        agrees, through Q2R, with the real field f at time tk + s h and does not depend on the
        second coordinate, IS the real step x + h * Phi tk x.  coded_EF_step / coded_RK2_step /
        coded_RK4_step: same for the schemes as coded (Tracker.EF/RK2/RK4 + candidate), as long as
        the intermediate stage positions are not clipped.  model_*_iter: n model steps (rk_iter) =
        [one_step_iter]; model_EF_converges_order1 (complete), model_RK2_converges_order2,
        model_RK4_converges_order4 (conditional as in G4): the model against the exact solution.

    WHAT REMAINS A HYPOTHESIS
      - the Lipschitz bound on f (global in x, uniform in t);
      - existence and regularity of the exact solution y (it is given, not constructed);
      - for RK2 / RK4: the local truncation bound C h^(p+1) (see G4);
      - for G5: agreement of the rational oracle with f at every step (rk_iter uses one oracle for
        all steps, so for n steps this holds for autonomous or step-periodic fields), no clipping;
      - scalar case only (the y-component of the model is not used).
    No axioms beyond those of the standard-library reals / Coquelicot (Print Assumptions below). *)
From Coq Require Import Reals Lra Lia Psatz QArith Qreals.
From Coquelicot Require Import Coquelicot.
From Ladim Require Import Model.Tracker Proofs.TrackerProofs Proofs.SchemeProofs Proofs.ConvergenceProofs.
Open Scope R_scope.

(** * G1: consistency + stability => convergence, for a general one-step method *)
Fixpoint geom (q : R) (n : nat) : R :=
  match n with O => 0 | S k => 1 + q * geom q k end.

Lemma geom_shift q n :
  1 + q * sum_f_R0 (fun j => q ^ j) n = sum_f_R0 (fun j => q ^ j) (S n).
Proof.
  induction n as [|n IH].
  - simpl. ring.
  - change (sum_f_R0 (fun j => q ^ j) (S (S n)))
      with (sum_f_R0 (fun j => q ^ j) (S n) + q ^ S (S n)).
    change (sum_f_R0 (fun j => q ^ j) (S n)) with (sum_f_R0 (fun j => q ^ j) n + q ^ S n) at 1.
    rewrite <- IH. cbn [sum_f_R0]. rewrite <- !tech_pow_Rmult. ring.
Qed.

Lemma geom_sum q n : geom q (S n) = sum_f_R0 (fun j => q ^ j) n.
Proof.
  induction n as [|n IH].
  - simpl. ring.
  - change (geom q (S (S n))) with (1 + q * geom q (S n)).
    rewrite IH. apply geom_shift.
Qed.

Lemma geom_nonneg q n : 0 <= q -> 0 <= geom q n.
Proof.
  intros Hq. induction n as [|n IH]; simpl. lra.
  pose proof (Rmult_le_pos _ _ Hq IH). lra.
Qed.

Lemma pow_ge_1 q n : 1 <= q -> 1 <= q ^ n.
Proof. intros Hq. apply pow_R1_Rle. exact Hq. Qed.

Lemma geom_le_npow q n : 1 <= q -> geom q n <= INR n * q ^ n.
Proof.
  intros Hq. induction n as [|n IH].
  - simpl. lra.
  - rewrite S_INR. cbn [geom].
    assert (H1 : q * geom q n <= q * (INR n * q ^ n)).
    { apply Rmult_le_compat_l. lra. exact IH. }
    pose proof (pow_ge_1 q (S n) Hq) as H2. simpl in *. lra.
Qed.

Lemma one_plus_pow_le_exp w n : 0 <= w -> (1 + w) ^ n <= exp (INR n * w).
Proof.
  intros Hw. rewrite <- exp_pow_INR. apply pow_incr. split. lra. apply exp_ineq1_le.
Qed.

Section Generic.
  Variable Phi : R -> R -> R.
  Variables h Lam t0 : R.
  Variable y : R -> R.

  Fixpoint one_step_iter (n : nat) (x0 : R) : R :=
    match n with
    | O => x0
    | S k => let x := one_step_iter k x0 in x + h * Phi (t0 + INR k * h) x
    end.

  Hypothesis Hh : 0 < h.
  Hypothesis HLam : 0 <= Lam.
  Hypothesis HLip : forall t x x', Rabs (Phi t x - Phi t x') <= Lam * Rabs (x - x').

  Lemma error_recursion x yk yk1 t tau :
    Rabs (yk1 - yk - h * Phi t yk) <= tau ->
    Rabs (x + h * Phi t x - yk1) <= (1 + h * Lam) * Rabs (x - yk) + tau.
  Proof.
    intros Htau.
    replace (x + h * Phi t x - yk1)
      with ((x - yk) + h * (Phi t x - Phi t yk) + - (yk1 - yk - h * Phi t yk)) by ring.
    eapply Rle_trans. apply Rabs_triang. rewrite Rabs_Ropp.
    eapply Rle_trans. apply Rplus_le_compat_r. apply Rabs_triang.
    rewrite Rabs_mult, (Rabs_pos_eq h) by lra.
    pose proof (HLip t x yk) as H1.
    assert (H2 : h * Rabs (Phi t x - Phi t yk) <= h * (Lam * Rabs (x - yk))).
    { apply Rmult_le_compat_l. lra. exact H1. }
    lra.
  Qed.

  Theorem generic_convergence n x0 tau :
    (forall k, (k < n)%nat ->
       Rabs (y (t0 + INR (S k) * h) - y (t0 + INR k * h)
             - h * Phi (t0 + INR k * h) (y (t0 + INR k * h))) <= tau) ->
    Rabs (one_step_iter n x0 - y (t0 + INR n * h))
      <= (1 + h * Lam) ^ n * Rabs (x0 - y t0) + tau * geom (1 + h * Lam) n.
  Proof.
    induction n as [|n IH]; intros Hloc.
    - simpl. rewrite Rmult_0_l, Rplus_0_r. lra.
    - cbn [one_step_iter geom].
      eapply Rle_trans. apply error_recursion. apply Hloc. lia.
      assert (Hq : 0 <= 1 + h * Lam) by (pose proof (Rmult_le_pos h Lam); lra).
      assert (IH' := IH (fun k Hk => Hloc k (Nat.lt_lt_succ_r _ _ Hk))).
      apply (Rmult_le_compat_l _ _ _ Hq) in IH'.
      simpl. lra.
  Qed.

  (** the same with the geometric sum written with the standard library's [sum_f_R0] *)
  Corollary generic_convergence_sum n x0 tau :
    (forall k, (k < S n)%nat ->
       Rabs (y (t0 + INR (S k) * h) - y (t0 + INR k * h)
             - h * Phi (t0 + INR k * h) (y (t0 + INR k * h))) <= tau) ->
    Rabs (one_step_iter (S n) x0 - y (t0 + INR (S n) * h))
      <= (1 + h * Lam) ^ S n * Rabs (x0 - y t0)
         + tau * sum_f_R0 (fun j => (1 + h * Lam) ^ j) n.
  Proof. intros Hloc. rewrite <- geom_sum. apply generic_convergence. exact Hloc. Qed.

  Lemma tau_nonneg n tau : (0 < n)%nat ->
    (forall k, (k < n)%nat ->
       Rabs (y (t0 + INR (S k) * h) - y (t0 + INR k * h)
             - h * Phi (t0 + INR k * h) (y (t0 + INR k * h))) <= tau) -> 0 <= tau.
  Proof. intros Hn H. eapply Rle_trans. apply Rabs_pos. apply (H O Hn). Qed.

  Theorem generic_convergence_exp n x0 tau : 0 <= tau ->
    (forall k, (k < n)%nat ->
       Rabs (y (t0 + INR (S k) * h) - y (t0 + INR k * h)
             - h * Phi (t0 + INR k * h) (y (t0 + INR k * h))) <= tau) ->
    Rabs (one_step_iter n x0 - y (t0 + INR n * h))
      <= exp (INR n * h * Lam) * (Rabs (x0 - y t0) + INR n * tau).
  Proof.
    intros Htau Hloc.
    eapply Rle_trans. apply generic_convergence. exact Hloc.
    assert (Hw : 0 <= h * Lam) by (apply Rmult_le_pos; lra).
    pose proof (one_plus_pow_le_exp (h * Lam) n Hw) as H1.
    rewrite <- Rmult_assoc in H1.
    pose proof (geom_le_npow (1 + h * Lam) n ltac:(lra)) as H2.
    set (q := (1 + h * Lam) ^ n) in *. set (E := exp (INR n * h * Lam)) in *.
    set (g := geom (1 + h * Lam) n) in *. set (e0 := Rabs (x0 - y t0)).
    assert (He0 : 0 <= e0) by apply Rabs_pos.
    assert (Hn : 0 <= INR n) by apply pos_INR.
    assert (H3 : q * e0 <= E * e0) by (apply Rmult_le_compat_r; assumption).
    assert (H4 : tau * g <= tau * (INR n * q)) by (apply Rmult_le_compat_l; assumption).
    assert (H5 : INR n * tau * q <= INR n * tau * E).
    { apply Rmult_le_compat_l. apply Rmult_le_pos; assumption. exact H1. }
    lra.
  Qed.

  Theorem generic_order_p n p C T x0 : 0 <= C ->
    x0 = y t0 -> INR n * h = T ->
    (forall k, (k < n)%nat ->
       Rabs (y (t0 + INR (S k) * h) - y (t0 + INR k * h)
             - h * Phi (t0 + INR k * h) (y (t0 + INR k * h))) <= C * h ^ S p) ->
    Rabs (one_step_iter n x0 - y (t0 + T)) <= exp (T * Lam) * T * C * h ^ p.
  Proof.
    intros HC Hx0 HT Hloc. rewrite <- HT.
    eapply Rle_trans. apply (generic_convergence_exp n x0 (C * h ^ S p)).
    - apply Rmult_le_pos. exact HC. apply pow_le. lra.
    - exact Hloc.
    - rewrite Hx0. replace (y t0 - y t0) with 0 by ring. rewrite Rabs_R0.
      apply Req_le. simpl. ring.
  Qed.
End Generic.

(** * G2: stability — the increment functions of EF, RK2, RK4 are Lipschitz in x *)
Section Increments.
  Variable f : R -> R -> R.
  Variable h : R.

  Definition Phi_EF (t x : R) : R := f t x.
  Definition Phi_RK2 (t x : R) : R := f (t + h / 2) (x + h / 2 * f t x).
  Definition rk4_k1 (t x : R) : R := f t x.
  Definition rk4_k2 (t x : R) : R := f (t + h / 2) (x + h / 2 * rk4_k1 t x).
  Definition rk4_k3 (t x : R) : R := f (t + h / 2) (x + h / 2 * rk4_k2 t x).
  Definition rk4_k4 (t x : R) : R := f (t + h) (x + h * rk4_k3 t x).
  Definition Phi_RK4 (t x : R) : R :=
    (rk4_k1 t x + 2 * rk4_k2 t x + 2 * rk4_k3 t x + rk4_k4 t x) / 6.
End Increments.

Definition Lip_RK2 (h L : R) : R := L * (1 + h * L / 2).
Definition Lip_RK4 (h L : R) : R :=
  L * (1 + h * L / 2 + (h * L) ^ 2 / 6 + (h * L) ^ 3 / 24).

Section Stability.
  Variable f : R -> R -> R.
  Variables h L : R.
  Hypothesis Hh : 0 <= h.
  Hypothesis HL : 0 <= L.
  Hypothesis Hf : forall t x x', Rabs (f t x - f t x') <= L * Rabs (x - x').

  (** one stage: a stage evaluated at x + c * k(x), with k Lipschitz with constant K *)
  Lemma stage_lipschitz (k : R -> R) (K c s : R) x x' :
    0 <= c -> Rabs (k x - k x') <= K * Rabs (x - x') ->
    Rabs (f s (x + c * k x) - f s (x' + c * k x')) <= L * (1 + c * K) * Rabs (x - x').
  Proof.
    intros Hc Hk.
    eapply Rle_trans. apply Hf.
    rewrite Rmult_assoc. apply Rmult_le_compat_l. exact HL.
    replace (x + c * k x - (x' + c * k x')) with ((x - x') + c * (k x - k x')) by ring.
    eapply Rle_trans. apply Rabs_triang.
    rewrite Rabs_mult, (Rabs_pos_eq c) by exact Hc.
    assert (H : c * Rabs (k x - k x') <= c * (K * Rabs (x - x'))).
    { apply Rmult_le_compat_l; assumption. }
    lra.
  Qed.

  Lemma Lip_RK2_nonneg : 0 <= Lip_RK2 h L.
  Proof.
    unfold Lip_RK2. apply Rmult_le_pos. exact HL.
    pose proof (Rmult_le_pos _ _ Hh HL). lra.
  Qed.
  Lemma Lip_RK4_nonneg : 0 <= Lip_RK4 h L.
  Proof.
    unfold Lip_RK4. apply Rmult_le_pos. exact HL.
    pose proof (Rmult_le_pos _ _ Hh HL) as H.
    pose proof (pow_le _ 2 H). pose proof (pow_le _ 3 H). lra.
  Qed.

  Theorem Phi_EF_lipschitz t x x' :
    Rabs (Phi_EF f t x - Phi_EF f t x') <= L * Rabs (x - x').
  Proof. apply Hf. Qed.

  Theorem Phi_RK2_lipschitz t x x' :
    Rabs (Phi_RK2 f h t x - Phi_RK2 f h t x') <= Lip_RK2 h L * Rabs (x - x').
  Proof.
    unfold Phi_RK2, Lip_RK2.
    eapply Rle_trans. apply (stage_lipschitz (f t) L (h / 2)). lra. apply Hf.
    apply Req_le. field.
  Qed.

  Lemma rk4_k1_lipschitz t x x' :
    Rabs (rk4_k1 f t x - rk4_k1 f t x') <= L * Rabs (x - x').
  Proof. apply Hf. Qed.
  Lemma rk4_k2_lipschitz t x x' :
    Rabs (rk4_k2 f h t x - rk4_k2 f h t x') <= L * (1 + h / 2 * L) * Rabs (x - x').
  Proof.
    unfold rk4_k2. apply (stage_lipschitz (rk4_k1 f t)). lra. apply rk4_k1_lipschitz.
  Qed.
  Lemma rk4_k3_lipschitz t x x' :
    Rabs (rk4_k3 f h t x - rk4_k3 f h t x')
      <= L * (1 + h / 2 * (L * (1 + h / 2 * L))) * Rabs (x - x').
  Proof.
    unfold rk4_k3. apply (stage_lipschitz (rk4_k2 f h t)). lra. apply rk4_k2_lipschitz.
  Qed.
  Lemma rk4_k4_lipschitz t x x' :
    Rabs (rk4_k4 f h t x - rk4_k4 f h t x')
      <= L * (1 + h * (L * (1 + h / 2 * (L * (1 + h / 2 * L))))) * Rabs (x - x').
  Proof.
    unfold rk4_k4. apply (stage_lipschitz (rk4_k3 f h t)). lra. apply rk4_k3_lipschitz.
  Qed.

  Theorem Phi_RK4_lipschitz t x x' :
    Rabs (Phi_RK4 f h t x - Phi_RK4 f h t x') <= Lip_RK4 h L * Rabs (x - x').
  Proof.
    unfold Phi_RK4, Lip_RK4.
    pose proof (rk4_k1_lipschitz t x x') as H1.
    pose proof (rk4_k2_lipschitz t x x') as H2.
    pose proof (rk4_k3_lipschitz t x x') as H3.
    pose proof (rk4_k4_lipschitz t x x') as H4.
    set (d := Rabs (x - x')) in *.
    set (a1 := rk4_k1 f t x - rk4_k1 f t x') in *.
    set (a2 := rk4_k2 f h t x - rk4_k2 f h t x') in *.
    set (a3 := rk4_k3 f h t x - rk4_k3 f h t x') in *.
    set (a4 := rk4_k4 f h t x - rk4_k4 f h t x') in *.
    replace ((rk4_k1 f t x + 2 * rk4_k2 f h t x + 2 * rk4_k3 f h t x + rk4_k4 f h t x) / 6 -
             (rk4_k1 f t x' + 2 * rk4_k2 f h t x' + 2 * rk4_k3 f h t x' + rk4_k4 f h t x') / 6)
      with ((a1 + 2 * a2 + 2 * a3 + a4) / 6) by (unfold a1, a2, a3, a4; field).
    assert (HT : Rabs (a1 + 2 * a2 + 2 * a3 + a4)
                 <= Rabs a1 + 2 * Rabs a2 + 2 * Rabs a3 + Rabs a4).
    { eapply Rle_trans. apply Rabs_triang. apply Rplus_le_compat_r.
      eapply Rle_trans. apply Rabs_triang. apply Rplus_le_compat.
      eapply Rle_trans. apply Rabs_triang. apply Rplus_le_compat_l.
      rewrite Rabs_mult, (Rabs_pos_eq 2) by lra. lra.
      rewrite Rabs_mult, (Rabs_pos_eq 2) by lra. lra. }
    unfold Rdiv at 1. rewrite Rabs_mult, (Rabs_pos_eq (/ 6)) by lra.
    apply Rle_trans with
      ((L * d + 2 * (L * (1 + h / 2 * L) * d) + 2 * (L * (1 + h / 2 * (L * (1 + h / 2 * L))) * d)
        + L * (1 + h * (L * (1 + h / 2 * (L * (1 + h / 2 * L))))) * d) * / 6).
    - lra.
    - apply Req_le. field.
  Qed.
End Stability.

(** * G3: Euler forward — consistency by Taylor-Lagrange, convergence of order 1 *)
Lemma grid_in_interval t0 h n k : 0 < h -> (k <= n)%nat ->
  t0 <= t0 + INR k * h <= t0 + INR n * h.
Proof.
  intros Hh Hk. pose proof (pos_INR k) as H0. apply le_INR in Hk.
  split.
  - pose proof (Rmult_le_pos _ _ H0 (Rlt_le _ _ Hh)). lra.
  - assert (INR k * h <= INR n * h) by (apply Rmult_le_compat_r; lra). lra.
Qed.

Section EulerLocal.
  Variable y : R -> R.
  Variables a b M : R.
  Hypothesis Hd1 : forall t, a <= t <= b -> ex_derive y t.
  Hypothesis Hd2 : forall t, a <= t <= b -> ex_derive (Derive y) t.
  Hypothesis HM : forall t, a <= t <= b -> Rabs (Derive_n y 2 t) <= M.

  (** Taylor-Lagrange of order 1 with the remainder bounded by M *)
  Lemma taylor2_bound s h : 0 < h -> a <= s -> s + h <= b ->
    Rabs (y (s + h) - y s - h * Derive y s) <= M * h ^ 2 / 2.
  Proof.
    intros Hh Ha Hb.
    destruct (Taylor_Lagrange y 1 s (s + h) ltac:(lra)) as (c & Hc & E).
    { intros t Ht k Hk.
      destruct k as [|[|[|k]]]; [exact I | apply Hd1; lra | apply Hd2; lra | lia]. }
    assert (E2 : y (s + h) - y s - h * Derive y s = h ^ 2 / 2 * Derive_n y 2 c).
    { rewrite E. replace (s + h - s) with h by ring. cbn [sum_f_R0].
      change (Derive_n y 0 s) with (y s). change (Derive_n y 1 s) with (Derive y s).
      generalize (Derive_n y 2 c) (Derive y s) (y s). intros d2 d1 d0. simpl. field. }
    rewrite E2.
    rewrite Rabs_mult, Rabs_pos_eq.
    - pose proof (HM c ltac:(lra)) as H.
      assert (0 <= h ^ 2 / 2) by (pose proof (pow2_ge_0 h); lra).
      replace (M * h ^ 2 / 2) with (h ^ 2 / 2 * M) by field.
      apply Rmult_le_compat_l; assumption.
    - pose proof (pow2_ge_0 h); lra.
  Qed.
End EulerLocal.

Section EulerConvergence.
  Variable f : R -> R -> R.
  Variable y : R -> R.
  Variables h L M t0 T : R.
  Variable n : nat.
  Hypothesis Hh : 0 < h.
  Hypothesis HL : 0 <= L.
  Hypothesis HT : INR n * h = T.
  Hypothesis Hf : forall t x x', Rabs (f t x - f t x') <= L * Rabs (x - x').
  Hypothesis Hd1 : forall t, t0 <= t <= t0 + T -> ex_derive y t.
  Hypothesis Hd2 : forall t, t0 <= t <= t0 + T -> ex_derive (Derive y) t.
  Hypothesis Hode : forall t, t0 <= t <= t0 + T -> Derive y t = f t (y t).
  Hypothesis HM : forall t, t0 <= t <= t0 + T -> Rabs (Derive_n y 2 t) <= M.

  Lemma EFc_M_nonneg : 0 <= M.
  Proof.
    eapply Rle_trans. apply Rabs_pos. apply (HM t0).
    pose proof (grid_in_interval t0 h n 0 Hh ltac:(lia)) as H. simpl in H. lra.
  Qed.

  (** consistency: local truncation error of Euler forward along the exact solution *)
  Theorem EF_local_truncation k : (k < n)%nat ->
    Rabs (y (t0 + INR (S k) * h) - y (t0 + INR k * h)
          - h * Phi_EF f (t0 + INR k * h) (y (t0 + INR k * h))) <= M / 2 * h ^ 2.
  Proof.
    intros Hk.
    pose proof (grid_in_interval t0 h n k Hh ltac:(lia)) as H1.
    pose proof (grid_in_interval t0 h n (S k) Hh ltac:(lia)) as H2.
    rewrite HT in H1, H2.
    unfold Phi_EF. rewrite <- Hode by exact H1.
    replace (t0 + INR (S k) * h) with (t0 + INR k * h + h) in * by (rewrite S_INR; ring).
    replace (M / 2 * h ^ 2) with (M * h ^ 2 / 2) by field.
    apply (taylor2_bound y t0 (t0 + T) M Hd1 Hd2 HM); lra.
  Qed.

  Theorem EF_converges_order1 :
    Rabs (one_step_iter (Phi_EF f) h t0 n (y t0) - y (t0 + T))
      <= exp (T * L) * T * (M / 2) * h.
  Proof.
    replace h with (h ^ 1) at 2 by ring.
    apply (generic_order_p (Phi_EF f) h L t0 y Hh HL (Phi_EF_lipschitz f L Hf) n 1 (M / 2) T).
    - pose proof EFc_M_nonneg. lra.
    - reflexivity.
    - exact HT.
    - exact EF_local_truncation.
  Qed.
End EulerConvergence.

(** * G4: RK2 and RK4 — convergence of order 2 and 4 from the local truncation bound
    (the bound C*h^3 resp. C*h^5 follows from Taylor's theorem for smooth f; it is NOT proved here) *)
Section RKConvergence.
  Variable f : R -> R -> R.
  Variable y : R -> R.
  Variables h L C t0 T : R.
  Variable n : nat.
  Hypothesis Hh : 0 < h.
  Hypothesis HL : 0 <= L.
  Hypothesis HC : 0 <= C.
  Hypothesis HT : INR n * h = T.
  Hypothesis Hf : forall t x x', Rabs (f t x - f t x') <= L * Rabs (x - x').

  Theorem RK2_converges_order2 :
    (forall k, (k < n)%nat ->
       Rabs (y (t0 + INR (S k) * h) - y (t0 + INR k * h)
             - h * Phi_RK2 f h (t0 + INR k * h) (y (t0 + INR k * h))) <= C * h ^ 3) ->
    Rabs (one_step_iter (Phi_RK2 f h) h t0 n (y t0) - y (t0 + T))
      <= exp (T * Lip_RK2 h L) * T * C * h ^ 2.
  Proof.
    intros Hloc.
    apply (generic_order_p (Phi_RK2 f h) h (Lip_RK2 h L) t0 y Hh
             (Lip_RK2_nonneg h L (Rlt_le _ _ Hh) HL)
             (Phi_RK2_lipschitz f h L (Rlt_le _ _ Hh) HL Hf) n 2 C T);
      [exact HC | reflexivity | exact HT | exact Hloc].
  Qed.

  Theorem RK4_converges_order4 :
    (forall k, (k < n)%nat ->
       Rabs (y (t0 + INR (S k) * h) - y (t0 + INR k * h)
             - h * Phi_RK4 f h (t0 + INR k * h) (y (t0 + INR k * h))) <= C * h ^ 5) ->
    Rabs (one_step_iter (Phi_RK4 f h) h t0 n (y t0) - y (t0 + T))
      <= exp (T * Lip_RK4 h L) * T * C * h ^ 4.
  Proof.
    intros Hloc.
    apply (generic_order_p (Phi_RK4 f h) h (Lip_RK4 h L) t0 y Hh
             (Lip_RK4_nonneg h L (Rlt_le _ _ Hh) HL)
             (Phi_RK4_lipschitz f h L (Rlt_le _ _ Hh) HL Hf) n 4 C T);
      [exact HC | reflexivity | exact HT | exact Hloc].
  Qed.
End RKConvergence.

(** * constants independent of h: the Lipschitz constants of the increment functions are monotone in h *)
Lemma exp_le_mono a b : a <= b -> exp a <= exp b.
Proof. intros [H | H]. left. now apply exp_increasing. rewrite H. lra. Qed.

Lemma Lip_RK2_mono h h' L : 0 <= L -> 0 <= h <= h' -> Lip_RK2 h L <= Lip_RK2 h' L.
Proof.
  intros HL Hh. unfold Lip_RK2. apply Rmult_le_compat_l. exact HL.
  assert (h * L <= h' * L) by (apply Rmult_le_compat_r; lra). lra.
Qed.

Lemma Lip_RK4_mono h h' L : 0 <= L -> 0 <= h <= h' -> Lip_RK4 h L <= Lip_RK4 h' L.
Proof.
  intros HL Hh. unfold Lip_RK4. apply Rmult_le_compat_l. exact HL.
  assert (H0 : 0 <= h * L) by (apply Rmult_le_pos; lra).
  assert (H1 : h * L <= h' * L) by (apply Rmult_le_compat_r; lra).
  pose proof (pow_incr _ _ 2 (conj H0 H1)). pose proof (pow_incr _ _ 3 (conj H0 H1)). lra.
Qed.

Section RKConvergenceUniform.
  Variable f : R -> R -> R.
  Variable y : R -> R.
  Variables h hmax L C t0 T : R.
  Variable n : nat.
  Hypothesis Hh : 0 < h <= hmax.
  Hypothesis HL : 0 <= L.
  Hypothesis HC : 0 <= C.
  Hypothesis HT : INR n * h = T.
  Hypothesis Hf : forall t x x', Rabs (f t x - f t x') <= L * Rabs (x - x').

  Lemma RKu_T_nonneg : 0 <= T.
  Proof. rewrite <- HT. apply Rmult_le_pos. apply pos_INR. lra. Qed.

  Lemma RKu_bound_weaken (K K' : R) (p : nat) e :
    K <= K' -> e <= exp (T * K) * T * C * h ^ p -> e <= exp (T * K') * T * C * h ^ p.
  Proof.
    intros HK He. eapply Rle_trans. exact He.
    pose proof RKu_T_nonneg as H0.
    assert (H1 : exp (T * K) <= exp (T * K')).
    { apply exp_le_mono. apply Rmult_le_compat_l; assumption. }
    assert (H2 : 0 <= T * C * h ^ p).
    { apply Rmult_le_pos. apply Rmult_le_pos; assumption. apply pow_le. lra. }
    replace (exp (T * K) * T * C * h ^ p) with (exp (T * K) * (T * C * h ^ p)) by ring.
    replace (exp (T * K') * T * C * h ^ p) with (exp (T * K') * (T * C * h ^ p)) by ring.
    apply Rmult_le_compat_r; assumption.
  Qed.

  Theorem RK2_converges_order2_uniform :
    (forall k, (k < n)%nat ->
       Rabs (y (t0 + INR (S k) * h) - y (t0 + INR k * h)
             - h * Phi_RK2 f h (t0 + INR k * h) (y (t0 + INR k * h))) <= C * h ^ 3) ->
    Rabs (one_step_iter (Phi_RK2 f h) h t0 n (y t0) - y (t0 + T))
      <= exp (T * Lip_RK2 hmax L) * T * C * h ^ 2.
  Proof.
    intros Hloc. apply (RKu_bound_weaken (Lip_RK2 h L)).
    - apply Lip_RK2_mono. exact HL. lra.
    - apply (RK2_converges_order2 f y h L C t0 T n); try assumption. lra.
  Qed.

  Theorem RK4_converges_order4_uniform :
    (forall k, (k < n)%nat ->
       Rabs (y (t0 + INR (S k) * h) - y (t0 + INR k * h)
             - h * Phi_RK4 f h (t0 + INR k * h) (y (t0 + INR k * h))) <= C * h ^ 5) ->
    Rabs (one_step_iter (Phi_RK4 f h) h t0 n (y t0) - y (t0 + T))
      <= exp (T * Lip_RK4 hmax L) * T * C * h ^ 4.
  Proof.
    intros Hloc. apply (RKu_bound_weaken (Lip_RK4 h L)).
    - apply Lip_RK4_mono. exact HL. lra.
    - apply (RK4_converges_order4 f y h L C t0 T n); try assumption. lra.
  Qed.
End RKConvergenceUniform.

(** * non-vacuity: the field f t x = t (time-dependent, L = 0), exact solution y t = t^2/2, M = 1.
    Euler's end-point error is exactly T*h/2 here, so the bound of EF_converges_order1 is attained. *)
Definition y_ex (t : R) : R := t ^ 2 / 2.

Lemma Derive_y_ex t : Derive y_ex t = t.
Proof. unfold y_ex. apply is_derive_unique. auto_derive. exact I. field. Qed.

Lemma Derive2_y_ex t : Derive_n y_ex 2 t = 1.
Proof.
  change (Derive (Derive y_ex) t = 1).
  rewrite (Derive_ext _ (fun s => s) t Derive_y_ex). apply Derive_id.
Qed.

Example EF_example n h T : 0 < h -> INR n * h = T ->
  Rabs (one_step_iter (Phi_EF (fun t _ => t)) h 0 n 0 - T ^ 2 / 2) <= T * / 2 * h.
Proof.
  intros Hh HT.
  assert (E0 : y_ex 0 = 0) by (unfold y_ex; field).
  replace (one_step_iter (Phi_EF (fun t _ => t)) h 0 n 0 - T ^ 2 / 2)
    with (one_step_iter (Phi_EF (fun t _ => t)) h 0 n (y_ex 0) - y_ex (0 + T))
    by (rewrite E0, Rplus_0_l; reflexivity).
  replace (T * / 2 * h) with (exp (T * 0) * T * (1 / 2) * h)
    by (rewrite Rmult_0_r, exp_0; field).
  apply (EF_converges_order1 (fun t _ => t) y_ex h 0 1 0 T n Hh (Rle_refl 0) HT).
  - intros t x x'. replace (t - t) with 0 by ring. rewrite Rabs_R0. lra.
  - intros t _. unfold y_ex. auto_derive. exact I.
  - intros t _. apply (ex_derive_ext (fun s => s)). intros s. symmetry. apply Derive_y_ex.
    apply ex_derive_id.
  - intros t _. apply Derive_y_ex.
  - intros t _. rewrite Derive2_y_ex, Rabs_R1. lra.
Qed.

(** the local truncation hypothesis of RK2_converges_order2 is satisfiable: on the same field the
    midpoint rule is exact (C = 0), and the theorem then gives the exact end point *)
Example RK2_example n h T : 0 < h -> INR n * h = T ->
  one_step_iter (Phi_RK2 (fun t _ => t) h) h 0 n 0 = T ^ 2 / 2.
Proof.
  intros Hh HT.
  assert (E0 : y_ex 0 = 0) by (unfold y_ex; field).
  assert (H : Rabs (one_step_iter (Phi_RK2 (fun t _ => t) h) h 0 n (y_ex 0) - y_ex (0 + T))
              <= exp (T * Lip_RK2 h 0) * T * 0 * h ^ 2).
  { apply (RK2_converges_order2 (fun t _ => t) y_ex h 0 0 0 T n Hh (Rle_refl 0) (Rle_refl 0) HT).
    - intros t x x'. replace (t - t) with 0 by ring. rewrite Rabs_R0. lra.
    - intros k _. unfold Phi_RK2, y_ex. rewrite S_INR.
      replace (_ - _ - _) with 0 by field. rewrite Rabs_R0. lra. }
  rewrite E0, Rplus_0_l in H. unfold y_ex in H.
  replace (exp (T * Lip_RK2 h 0) * T * 0 * h ^ 2) with 0 in H by ring.
  pose proof (Rabs_pos (one_step_iter (Phi_RK2 (fun t _ => t) h) h 0 n 0 - T ^ 2 / 2)) as H0.
  assert (H1 : Rabs (one_step_iter (Phi_RK2 (fun t _ => t) h) h 0 n 0 - T ^ 2 / 2) = 0) by lra.
  destruct (Req_dec (one_step_iter (Phi_RK2 (fun t _ => t) h) h 0 n 0 - T ^ 2 / 2) 0) as [E | E].
  lra. apply Rabs_no_R0 in E. contradiction.
Qed.

(** * G5: the rational model computes the real schemes *)
Lemma Q2R_zero : Q2R 0 = 0.  Proof. unfold Q2R. simpl. lra. Qed.
Lemma Q2R_half : Q2R (1 # 2) = / 2.  Proof. unfold Q2R. simpl. lra. Qed.
Lemma Q2R_sixth : Q2R (1 # 6) = / 6.  Proof. unfold Q2R. simpl. lra. Qed.
Lemma Q2R_third : Q2R (1 # 3) = / 3.  Proof. unfold Q2R. simpl. lra. Qed.

Section ModelStep.
  Variable vel : Q -> Q -> Q -> Q * Q.
  Variables dtdx dtdy : Q.
  Variable f : R -> R -> R.
  Variable tk : R.
  Let h := Q2R dtdx.
  Hypothesis Hvel : forall s x y, Q2R (fst (vel s x y)) = f (tk + Q2R s * h) (Q2R x).

  Lemma vel_R s x y t xr : tk + Q2R s * h = t -> Q2R x = xr ->
    Q2R (fst (vel s x y)) = f t xr.
  Proof. intros <- <-. apply Hvel. Qed.

  Ltac q2r := repeat (rewrite ?Q2R_plus, ?Q2R_mult);
              rewrite ?Q2R_zero, ?Q2R_one, ?Q2R_half, ?Q2R_sixth, ?Q2R_third.

  Theorem model_EF_step x y :
    Q2R (fst (rk_generic vel dtdx dtdy tab_EF x y)) = Q2R x + h * Phi_EF f tk (Q2R x).
  Proof.
    unfold rk_generic. cbn [tab_EF tc ta tb stages dot app].
    pose proof (vel_R 0 (x + 0) (y + 0) tk (Q2R x)) as E1.
    destruct (vel 0 (x + 0) (y + 0)) as [u1 v1]. cbn [fst snd dot] in *.
    q2r. rewrite E1. unfold Phi_EF. fold h. ring.
    rewrite Q2R_zero. ring. q2r. ring.
  Qed.

  Tactic Notation "next_stage" constr(c) constr(t) constr(xr) ident(E) ident(u) ident(v) :=
    match goal with
    | |- context [vel c ?a ?b] =>
        assert (E : Q2R (fst (vel c a b)) = f t xr);
        [ apply vel_R; q2r; fold h; rewrite ?Q2R_zero; try field
        | destruct (vel c a b) as [u v]; cbn [fst snd] in E ]
    end.

  Theorem model_RK2_step x y :
    Q2R (fst (rk_generic vel dtdx dtdy tab_RK2 x y)) = Q2R x + h * Phi_RK2 f h tk (Q2R x).
  Proof.
    unfold rk_generic. cbn [tab_RK2 tc ta tb stages dot app].
    next_stage 0%Q tk (Q2R x) E1 u1 v1.
    next_stage (1 # 2)%Q (tk + h / 2) (Q2R x + h / 2 * f tk (Q2R x)) E2 u2 v2.
    { rewrite E1. field. }
    cbn [fst snd dot]. q2r. rewrite E2. unfold Phi_RK2. fold h. ring.
  Qed.

  Theorem model_RK4_step x y :
    Q2R (fst (rk_generic vel dtdx dtdy tab_RK4 x y)) = Q2R x + h * Phi_RK4 f h tk (Q2R x).
  Proof.
    unfold rk_generic. cbn [tab_RK4 tc ta tb stages dot app].
    next_stage 0%Q tk (Q2R x) E1 u1 v1.
    next_stage (1 # 2)%Q (tk + h / 2) (Q2R x + h / 2 * rk4_k1 f tk (Q2R x)) E2 u2 v2.
    { rewrite E1. unfold rk4_k1. field. }
    next_stage (1 # 2)%Q (tk + h / 2) (Q2R x + h / 2 * rk4_k2 f h tk (Q2R x)) E3 u3 v3.
    { rewrite E2. unfold rk4_k2. field. }
    next_stage 1%Q (tk + h) (Q2R x + h * rk4_k3 f h tk (Q2R x)) E4 u4 v4.
    { rewrite E3. unfold rk4_k3. field. }
    change (Q2R u1 = rk4_k1 f tk (Q2R x)) in E1.
    change (Q2R u2 = rk4_k2 f h tk (Q2R x)) in E2.
    change (Q2R u3 = rk4_k3 f h tk (Q2R x)) in E3.
    change (Q2R u4 = rk4_k4 f h tk (Q2R x)) in E4.
    cbn [fst snd dot]. q2r. rewrite E1, E2, E3, E4. unfold Phi_RK4. fold h. field.
  Qed.
End ModelStep.

(** the schemes as coded in Tracker.v (velocity [EF]/[RK2]/[RK4] + [candidate]), which clip the
    intermediate stage positions to the box [xlo,xhi] x [ylo,yhi]: as long as the stage positions
    stay in the box they coincide with the tableau form (TrackerProofs.*_is_tableau), hence with the
    real schemes *)
Section ModelStepCoded.
  Variable vel : Q -> Q -> Q -> Q * Q.
  Hypothesis vel_proper : forall c x x' y y', (x == x')%Q -> (y == y')%Q -> peq (vel c x y) (vel c x' y').
  Variables dtdx dtdy xlo xhi ylo yhi : Q.
  Variable f : R -> R -> R.
  Variable tk : R.
  Let h := Q2R dtdx.
  Hypothesis Hvel : forall s x y, Q2R (fst (vel s x y)) = f (tk + Q2R s * h) (Q2R x).
  Notation box := (in_box xlo xhi ylo yhi).

  Theorem coded_EF_step x y :
    Q2R (fst (candidate dtdx dtdy (EF vel) x y)) = Q2R x + h * Phi_EF f tk (Q2R x).
  Proof.
    destruct (ef_is_tableau vel vel_proper dtdx dtdy x y) as [A _].
    rewrite (Qeq_eqR _ _ A). apply model_EF_step. exact Hvel.
  Qed.

  Theorem coded_RK2_step x y : box (rk2_stage1 vel dtdx dtdy x y) ->
    Q2R (fst (candidate dtdx dtdy (RK2 vel dtdx dtdy xlo xhi ylo yhi) x y))
      = Q2R x + h * Phi_RK2 f h tk (Q2R x).
  Proof.
    intros B1.
    destruct (rk2_is_tableau vel vel_proper dtdx dtdy xlo xhi ylo yhi x y B1) as [A _].
    rewrite (Qeq_eqR _ _ A). apply model_RK2_step. exact Hvel.
  Qed.

  Theorem coded_RK4_step x y :
    box (rk4_stage1 vel dtdx dtdy x y) ->
    box (rk4_stage2 vel dtdx dtdy xlo xhi ylo yhi x y) ->
    box (rk4_stage3 vel dtdx dtdy xlo xhi ylo yhi x y) ->
    Q2R (fst (candidate dtdx dtdy (RK4 vel dtdx dtdy xlo xhi ylo yhi) x y))
      = Q2R x + h * Phi_RK4 f h tk (Q2R x).
  Proof.
    intros B1 B2 B3.
    destruct (rk4_is_tableau vel vel_proper dtdx dtdy xlo xhi ylo yhi x y B1 B2 B3) as [A _].
    rewrite (Qeq_eqR _ _ A). apply model_RK4_step. exact Hvel.
  Qed.
End ModelStepCoded.

(** n model steps = n steps of the real one-step method.  [rk_iter] uses the same oracle for every
    step, so the agreement hypothesis is asked for every step k (it holds e.g. for autonomous fields) *)
Section ModelIter.
  Variable vel : Q -> Q -> Q -> Q * Q.
  Variables dtdx dtdy : Q.
  Variable f : R -> R -> R.
  Variable t0 : R.
  Let h := Q2R dtdx.
  Hypothesis Hvel : forall (k : nat) s x y,
    Q2R (fst (vel s x y)) = f (t0 + INR k * h + Q2R s * h) (Q2R x).

  Lemma model_iter_gen (tab : tableau) (Phi : R -> R -> R) :
    (forall (k : nat) x y, Q2R (fst (rk_generic vel dtdx dtdy tab x y))
                           = Q2R x + h * Phi (t0 + INR k * h) (Q2R x)) ->
    forall n x y, Q2R (fst (rk_iter vel dtdx dtdy tab n x y)) = one_step_iter Phi h t0 n (Q2R x).
  Proof.
    intros Hstep n x y. induction n as [|n IH].
    - reflexivity.
    - cbn [rk_iter one_step_iter]. rewrite (Hstep n), IH. reflexivity.
  Qed.

  Theorem model_EF_iter n x y :
    Q2R (fst (rk_iter vel dtdx dtdy tab_EF n x y)) = one_step_iter (Phi_EF f) h t0 n (Q2R x).
  Proof.
    apply model_iter_gen. intros k x' y'. apply model_EF_step. apply Hvel.
  Qed.
  Theorem model_RK2_iter n x y :
    Q2R (fst (rk_iter vel dtdx dtdy tab_RK2 n x y)) = one_step_iter (Phi_RK2 f h) h t0 n (Q2R x).
  Proof.
    apply model_iter_gen. intros k x' y'. apply model_RK2_step. apply Hvel.
  Qed.
  Theorem model_RK4_iter n x y :
    Q2R (fst (rk_iter vel dtdx dtdy tab_RK4 n x y)) = one_step_iter (Phi_RK4 f h) h t0 n (Q2R x).
  Proof.
    apply model_iter_gen. intros k x' y'. apply model_RK4_step. apply Hvel.
  Qed.
End ModelIter.

(** * end to end: n steps of the rational model against the exact solution of a general field *)
Section ModelConvergenceGeneral.
  Variable vel : Q -> Q -> Q -> Q * Q.
  Variables dtdx dtdy x0 y0 : Q.
  Variable f : R -> R -> R.
  Variable y : R -> R.
  Variables L t0 T : R.
  Variable n : nat.
  Let h := Q2R dtdx.
  Hypothesis Hh : 0 < h.
  Hypothesis HL : 0 <= L.
  Hypothesis HT : INR n * h = T.
  Hypothesis Hf : forall t x x', Rabs (f t x - f t x') <= L * Rabs (x - x').
  Hypothesis Hvel : forall (k : nat) s x y,
    Q2R (fst (vel s x y)) = f (t0 + INR k * h + Q2R s * h) (Q2R x).
  Hypothesis Hx0 : Q2R x0 = y t0.

  Theorem model_EF_converges_order1 (M : R) :
    (forall t, t0 <= t <= t0 + T -> ex_derive y t) ->
    (forall t, t0 <= t <= t0 + T -> ex_derive (Derive y) t) ->
    (forall t, t0 <= t <= t0 + T -> Derive y t = f t (y t)) ->
    (forall t, t0 <= t <= t0 + T -> Rabs (Derive_n y 2 t) <= M) ->
    Rabs (Q2R (fst (rk_iter vel dtdx dtdy tab_EF n x0 y0)) - y (t0 + T))
      <= exp (T * L) * T * (M / 2) * h.
  Proof.
    intros Hd1 Hd2 Hode HM.
    rewrite (model_EF_iter vel dtdx dtdy f t0 Hvel), Hx0.
    apply (EF_converges_order1 f y h L M t0 T n); assumption.
  Qed.

  Theorem model_RK2_converges_order2 (C : R) : 0 <= C ->
    (forall k, (k < n)%nat ->
       Rabs (y (t0 + INR (S k) * h) - y (t0 + INR k * h)
             - h * Phi_RK2 f h (t0 + INR k * h) (y (t0 + INR k * h))) <= C * h ^ 3) ->
    Rabs (Q2R (fst (rk_iter vel dtdx dtdy tab_RK2 n x0 y0)) - y (t0 + T))
      <= exp (T * Lip_RK2 h L) * T * C * h ^ 2.
  Proof.
    intros HC Hloc.
    rewrite (model_RK2_iter vel dtdx dtdy f t0 Hvel), Hx0.
    apply (RK2_converges_order2 f y h L C t0 T n); assumption.
  Qed.

  Theorem model_RK4_converges_order4 (C : R) : 0 <= C ->
    (forall k, (k < n)%nat ->
       Rabs (y (t0 + INR (S k) * h) - y (t0 + INR k * h)
             - h * Phi_RK4 f h (t0 + INR k * h) (y (t0 + INR k * h))) <= C * h ^ 5) ->
    Rabs (Q2R (fst (rk_iter vel dtdx dtdy tab_RK4 n x0 y0)) - y (t0 + T))
      <= exp (T * Lip_RK4 h L) * T * C * h ^ 4.
  Proof.
    intros HC Hloc.
    rewrite (model_RK4_iter vel dtdx dtdy f t0 Hvel), Hx0.
    apply (RK4_converges_order4 f y h L C t0 T n); assumption.
  Qed.
End ModelConvergenceGeneral.

Print Assumptions generic_convergence.
Print Assumptions EF_converges_order1.
Print Assumptions RK2_converges_order2.
Print Assumptions RK4_converges_order4.
Print Assumptions model_EF_converges_order1.
Print Assumptions model_RK4_converges_order4.
