(** Proofs about Model/Protocol.v (C19): shape of the call trace of a run, and the module loader.
    State-level consequences of the order (record consistency, IBM sees all once, kills effective
    from the next record) are derived from Proofs/SimProofs.v at the end. *)
From Coq Require Import ZArith String Ascii List Bool Lia.
From Ladim Require Import Base.Num Model.Sim Model.Protocol Proofs.SimProofs.
Import ListNotations.
Open Scope Z_scope.

(** * Classifiers and counting *)
Definition is_timer (c : call) : bool := match c with TimerUpdate => true | _ => false end.
Definition is_compactify (c : call) : bool := match c with Compactify => true | _ => false end.
Definition is_release (c : call) : bool := match c with ReleaseUpdate => true | _ => false end.
Definition is_force (c : call) : bool := match c with ForceUpdate => true | _ => false end.
Definition is_output (c : call) : bool := match c with OutputUpdate _ => true | _ => false end.
Definition is_tracker (c : call) : bool := match c with TrackerUpdate => true | _ => false end.
Definition is_ibm (c : call) : bool := match c with IbmUpdate => true | _ => false end.
Definition is_warm (c : call) : bool := match c with WarmStart => true | _ => false end.
Definition is_construct (c : call) : bool := match c with Construct _ => true | _ => false end.
Definition is_close (c : call) : bool := match c with Close _ => true | _ => false end.
Definition is_close_of (m : modname) (c : call) : bool :=
  match c with Close m' => modname_eqb m m' | _ => false end.
Definition is_construct_of (m : modname) (c : call) : bool :=
  match c with Construct m' => modname_eqb m m' | _ => false end.

Definition count (p : call -> bool) (l : list call) : Z := Z.of_nat (length (filter p l)).
Definition none (p : call -> bool) (l : list call) : Prop := Forall (fun c => p c = false) l.
Definition all (p : call -> bool) (l : list call) : Prop := Forall (fun c => p c = true) l.

(** the six calls of one step after the clock has advanced *)
Definition body (b : bool) : list call :=
  [Compactify; ReleaseUpdate; ForceUpdate; OutputUpdate b; TrackerUpdate; IbmUpdate].
Definition steps_trace (due : Z -> bool) (ks : list Z) : list call :=
  concat (map (fun k => TimerUpdate :: body (due k)) ks).
(** whether Model.finish ever looks at the module *)
Definition in_finish (m : modname) : bool :=
  match m with MState | MTime => false | _ => true end.
Definition wz (warm : bool) : Z := if warm then 1 else 0.

Lemma count_app p a b : count p (a ++ b) = count p a + count p b.
Proof. unfold count. rewrite filter_app, app_length, Nat2Z.inj_add. reflexivity. Qed.
Lemma count_nonneg p l : 0 <= count p l.
Proof. unfold count. lia. Qed.
Lemma steps_trace_cons due k ks :
  steps_trace due (k :: ks) = TimerUpdate :: body (due k) ++ steps_trace due ks.
Proof. reflexivity. Qed.
Lemma count_steps p c due : (forall b, count p (TimerUpdate :: body b) = c) ->
  forall ks, count p (steps_trace due ks) = c * Z.of_nat (length ks).
Proof.
  intros H ks. induction ks as [|k ks IH]; [cbn; lia|].
  change (steps_trace due (k :: ks)) with ((TimerUpdate :: body (due k)) ++ steps_trace due ks).
  rewrite count_app, IH, H. cbn [length]. lia.
Qed.
Lemma count_map_close p l : (forall m, p (Close m) = false) -> count p (map Close l) = 0.
Proof. intro H. induction l as [|m l IH]; [reflexivity|]. unfold count in *. cbn. rewrite H. exact IH. Qed.
Lemma none_count p l : none p l -> count p l = 0.
Proof.
  intro H. induction H as [|c l Hc Hl IH]; [reflexivity|]. unfold count in *. cbn. rewrite Hc. exact IH.
Qed.
Lemma none_app p a b : none p a -> none p b -> none p (a ++ b).
Proof. intros Ha Hb. apply Forall_app. split; assumption. Qed.
Lemma none_finish p hc : (forall m, p (Close m) = false) -> none p (finish_trace hc).
Proof.
  intro H. apply Forall_forall. intros c Hc. unfold finish_trace in Hc.
  apply in_map_iff in Hc as (m & <- & _). apply H.
Qed.
Lemma all_close_finish hc : all is_close (finish_trace hc).
Proof.
  apply Forall_forall. intros c Hc. unfold finish_trace in Hc.
  apply in_map_iff in Hc as (m & <- & _). reflexivity.
Qed.
Lemma none_steps p due : p TimerUpdate = false -> (forall b, none p (body b)) ->
  forall ks, none p (steps_trace due ks).
Proof.
  intros HT HB ks. induction ks as [|k ks IH]; [constructor|].
  rewrite steps_trace_cons. constructor; [exact HT|]. apply none_app; [apply HB|exact IH].
Qed.

Lemma pr_length_zrange_aux n : forall a, length (zrange_aux a n) = n.
Proof. induction n as [|n IH]; intro a; cbn; [reflexivity|]. rewrite IH. reflexivity. Qed.
Lemma zrange_aux_split n : forall a ks1 k ks2, zrange_aux a n = ks1 ++ k :: ks2 ->
  k = a + Z.of_nat (length ks1).
Proof.
  induction n as [|n IH]; intros a ks1 k ks2 E; cbn in E.
  - destruct ks1; discriminate E.
  - destruct ks1 as [|x ks1]; cbn in E; injection E as E1 E2.
    + cbn. lia.
    + apply IH in E2. cbn [length]. lia.
Qed.

(** * The clock is in step with the loop: closed form of the loop and of the run *)
Lemma loop_trace_closed due : forall iters step, 0 <= step + 1 ->
  loop_trace due iters step = steps_trace due (zrange_aux (step + 1) (length iters)).
Proof.
  induction iters as [|i iters IH]; intros step H; [reflexivity|].
  cbn [loop_trace length zrange_aux]. rewrite steps_trace_cons, IH by lia.
  unfold update_trace. destruct (0 <=? step + 1) eqn:E; [|apply Z.leb_gt in E; lia]. reflexivity.
Qed.

Lemma run_trace_closed warm N due hc :
  run_trace warm N due hc =
  init_trace warm ++ steps_trace due (zrange (wz warm) N) ++ finish_trace hc.
Proof.
  unfold run_trace. f_equal. f_equal.
  rewrite loop_trace_closed by (destruct warm; cbn; lia).
  unfold zrange. rewrite pr_length_zrange_aux. destruct warm; reflexivity.
Qed.

(** * Splitting lemmas *)
Lemma strip_prefix (p : call -> bool) A : forall pre c post R,
  none p A -> p c = true -> pre ++ c :: post = A ++ R ->
  exists pre', pre = A ++ pre' /\ pre' ++ c :: post = R.
Proof.
  induction A as [|a A IH]; intros pre c post R HA Hc E.
  - exists pre. split; [reflexivity|exact E].
  - inversion HA as [|? ? Ha HA']; subst. destruct pre as [|x pre]; cbn in E; injection E as E1 E2.
    + subst. congruence.
    + subst. destruct (IH pre c post R HA' Hc E2) as (pre' & -> & E3).
      exists pre'. split; [reflexivity|exact E3].
Qed.

Lemma split_in_prefix (p : call -> bool) : forall pre A c post R,
  p c = true -> none p R -> pre ++ c :: post = A ++ R ->
  exists A2, A = pre ++ c :: A2 /\ post = A2 ++ R.
Proof.
  induction pre as [|x pre IH]; intros A c post R Hc HR E.
  - destruct A as [|a A]; cbn in E.
    + subst R. inversion HR; subst. congruence.
    + injection E as E1 E2. subst. exists A. split; reflexivity.
  - destruct A as [|a A]; cbn in E.
    + subst R. inversion HR as [|? ? _ HR']; subst. apply Forall_app in HR' as [_ HR'].
      inversion HR'; subst. congruence.
    + injection E as E1 E2. subst. destruct (IH A c post R Hc HR E2) as (A2 & -> & ->).
      exists A2. split; reflexivity.
Qed.

Lemma steps_decomp due Cl : none is_timer Cl -> forall ks pre post,
  pre ++ TimerUpdate :: post = steps_trace due ks ++ Cl ->
  exists ks1 k ks2, ks = ks1 ++ k :: ks2 /\ pre = steps_trace due ks1 /\
                    post = body (due k) ++ steps_trace due ks2 ++ Cl.
Proof.
  intros HCl. induction ks as [|k ks IH]; intros pre post E.
  - cbn in E. subst Cl. apply Forall_app in HCl as [_ HCl]. inversion HCl; subst. discriminate.
  - rewrite steps_trace_cons in E. destruct pre as [|x pre]; cbn [app] in E.
    + injection E as E1. exists [], k, ks. repeat split. exact E1.
    + injection E as E1 E2. subst x.
      assert (pre ++ TimerUpdate :: post = body (due k) ++ (steps_trace due ks ++ Cl)) as E2'
        by (rewrite app_assoc; exact E2). clear E2. rename E2' into E2.
      destruct (strip_prefix is_timer (body (due k)) pre TimerUpdate post _
                  ltac:(repeat constructor) eq_refl E2) as (pre' & -> & E3).
      destruct (IH pre' post E3) as (ks1 & k' & ks2 & -> & -> & ->).
      exists (k :: ks1), k', ks2. repeat split.
Qed.

Lemma none_timer_init warm : none is_timer (init_trace warm).
Proof. destruct warm; repeat constructor. Qed.
Lemma count_timer_steps due ks : count is_timer (steps_trace due ks) = Z.of_nat (length ks).
Proof. rewrite (count_steps is_timer 1); [lia|]. intros []; reflexivity. Qed.

(** * T1(b): what follows each advance of the clock *)
Lemma step_sequence warm N due hc pre post :
  run_trace warm N due hc = pre ++ TimerUpdate :: post ->
  let k := count is_timer pre + wz warm in
  wz warm <= k < N /\
  exists rest, post = body (due k) ++ rest /\
               (rest = finish_trace hc \/ exists rest', rest = TimerUpdate :: rest').
Proof.
  intros E k. rewrite run_trace_closed in E. symmetry in E.
  destruct (strip_prefix is_timer _ pre TimerUpdate post _ (none_timer_init warm) eq_refl E) as (pre' & Epre & E2).
  destruct (steps_decomp due (finish_trace hc) (none_finish _ hc (fun _ => eq_refl)) _ _ _ E2)
    as (ks1 & k' & ks2 & Eks & Epre' & Epost).
  assert (k' = k) as Hk.
  { unfold zrange in Eks. pose proof (zrange_aux_split _ _ _ _ _ Eks) as Hk'.
    unfold k. rewrite Epre, count_app, (none_count _ _ (none_timer_init warm)), Epre', count_timer_steps. lia. }
  assert (length (zrange (wz warm) N) = length (ks1 ++ k' :: ks2)) as HL by (rewrite Eks; reflexivity).
  unfold zrange in HL. rewrite pr_length_zrange_aux, app_length in HL. cbn [length] in HL.
  subst k'. split.
  - unfold zrange in Eks. pose proof (zrange_aux_split _ _ _ _ _ Eks) as Hk'. lia.
  - exists (steps_trace due ks2 ++ finish_trace hc). split; [exact Epost|].
    destruct ks2 as [|k2 ks2]; [left; reflexivity|right]. rewrite steps_trace_cons. eexists. reflexivity.
Qed.

(** the first thing after the constructors (and the catch-up of a warm start) is the first advance of
    the clock, or the closes when there is no step to take *)
Lemma run_trace_head warm N due hc :
  exists rest, run_trace warm N due hc =
               map Construct module_names ++ (if warm then warm_branch else []) ++ rest /\
               none is_construct rest /\ none is_warm rest /\
               (rest = finish_trace hc \/ exists rest', rest = TimerUpdate :: rest').
Proof.
  exists (steps_trace due (zrange (wz warm) N) ++ finish_trace hc).
  rewrite run_trace_closed. unfold init_trace. rewrite <- app_assoc. split; [reflexivity|].
  split; [|split].
  - apply none_app; [apply none_steps; [reflexivity|intro b; repeat constructor]|apply none_finish; reflexivity].
  - apply none_app; [apply none_steps; [reflexivity|intro b; repeat constructor]|apply none_finish; reflexivity].
  - destruct (zrange (wz warm) N) as [|k ks]; [left; reflexivity|right]. rewrite steps_trace_cons. eexists. reflexivity.
Qed.

(** * T1(a): how often each module is called *)
Lemma count_run p warm N due hc c0 c1 : (forall b, count p (TimerUpdate :: body b) = c1) ->
  (forall m, p (Close m) = false) -> count p (init_trace warm) = c0 ->
  count p (run_trace warm N due hc) = c0 + c1 * Z.max 0 (N - wz warm).
Proof.
  intros H1 H2 H0. rewrite run_trace_closed, !count_app, H0, (count_steps p c1 due H1).
  unfold finish_trace. rewrite (count_map_close p _ H2). unfold zrange. rewrite pr_length_zrange_aux. lia.
Qed.

Lemma count_moves warm N due hc :
  count is_release (run_trace warm N due hc) = wz warm + Z.max 0 (N - wz warm) /\
  count is_force (run_trace warm N due hc) = wz warm + Z.max 0 (N - wz warm) /\
  count is_tracker (run_trace warm N due hc) = wz warm + Z.max 0 (N - wz warm) /\
  count is_ibm (run_trace warm N due hc) = wz warm + Z.max 0 (N - wz warm).
Proof.
  repeat split.
  all: rewrite (count_run _ warm N due hc (wz warm) 1);
    [lia|intros []; reflexivity|reflexivity|destruct warm; reflexivity].
Qed.
Lemma count_clock warm N due hc :
  count is_timer (run_trace warm N due hc) = Z.max 0 (N - wz warm) /\
  count is_compactify (run_trace warm N due hc) = Z.max 0 (N - wz warm) /\
  count is_output (run_trace warm N due hc) = Z.max 0 (N - wz warm) /\
  count is_warm (run_trace warm N due hc) = wz warm.
Proof.
  repeat split.
  1-3: rewrite (count_run _ warm N due hc 0 1);
    [lia|intros []; reflexivity|reflexivity|destruct warm; reflexivity].
  rewrite (count_run _ warm N due hc (wz warm) 0);
    [lia|intros []; reflexivity|reflexivity|destruct warm; reflexivity].
Qed.

(** * T1(c): closes *)
Lemma count_close m warm N due hc :
  count (is_close_of m) (run_trace warm N due hc) = if hc m && in_finish m then 1 else 0.
Proof.
  rewrite run_trace_closed, !count_app.
  rewrite (count_steps (is_close_of m) 0 due) by (intros []; destruct m; reflexivity).
  replace (count (is_close_of m) (init_trace warm)) with 0 by (destruct warm, m; reflexivity).
  unfold finish_trace, finish_names. cbn [filter].
  destruct m; cbn [in_finish andb];
    destruct (hc MGrid), (hc MForcing), (hc MRelease), (hc MTracker), (hc MIbm), (hc MOutput);
    try destruct (hc MState); try destruct (hc MTime); reflexivity.
Qed.

Lemma none_close_before_finish warm N due :
  none is_close (init_trace warm ++ steps_trace due (zrange (wz warm) N)).
Proof.
  apply none_app; [destruct warm; repeat constructor|].
  apply none_steps; [reflexivity|intro b; repeat constructor].
Qed.

Lemma closes_are_last warm N due hc pre m post :
  run_trace warm N due hc = pre ++ Close m :: post -> all is_close post.
Proof.
  intro E. rewrite run_trace_closed, app_assoc in E. symmetry in E.
  destruct (strip_prefix is_close _ pre (Close m) post _ (none_close_before_finish warm N due) eq_refl E) as (pre' & _ & E2).
  pose proof (all_close_finish hc) as A. rewrite <- E2 in A.
  apply Forall_app in A as [_ A]. inversion A; subst. assumption.
Qed.

(** the closes are a sub-list of grid, forcing, release, tracker, ibm, output in that order *)
Lemma closes_in_order warm N due hc :
  filter is_close (run_trace warm N due hc) = map Close (filter hc finish_names).
Proof.
  rewrite run_trace_closed, app_assoc, filter_app.
  assert (forall l, none is_close l -> filter is_close l = []) as Z0.
  { intros l H. induction H as [|c l Hc _ IH]; [reflexivity|]. cbn. rewrite Hc. exact IH. }
  rewrite (Z0 _ (none_close_before_finish warm N due)). cbn [app]. unfold finish_trace.
  induction (filter hc finish_names) as [|m l IH]; [reflexivity|]. cbn. f_equal. exact IH.
Qed.

(** * T1(d): constructors *)
Lemma constructors_first warm N due hc pre m post :
  run_trace warm N due hc = pre ++ Construct m :: post -> all is_construct pre.
Proof.
  intro E. destruct (run_trace_head warm N due hc) as (rest & E0 & NC & NW & _). rewrite E0 in E. symmetry in E.
  assert (none is_construct ((if warm then warm_branch else []) ++ rest)) as NR.
  { apply none_app; [destruct warm; repeat constructor|exact NC]. }
  destruct (split_in_prefix is_construct pre _ (Construct m) post _ eq_refl NR E) as (A2 & EA & _).
  assert (all is_construct (map Construct module_names)) as A by (repeat constructor).
  rewrite EA in A. apply Forall_app in A as [A _]. exact A.
Qed.

Lemma split_last_unique {A} (x : A) : forall l pre A2, ~ In x l -> pre ++ x :: A2 = l ++ [x] -> A2 = [].
Proof.
  induction l as [|a l IH]; intros pre A2 NI E.
  - destruct pre as [|p pre]; cbn in E.
    + injection E as E1. exact E1.
    + injection E as E1 E2. destruct pre; discriminate E2.
  - destruct pre as [|p pre]; cbn in E; injection E as E1 E2.
    + exfalso. apply NI. left. symmetry. exact E1.
    + apply (IH pre A2); [|exact E2]. intro H. apply NI. right. exact H.
Qed.

Lemma output_constructed_last warm N due hc pre post :
  run_trace warm N due hc = pre ++ Construct MOutput :: post ->
  none is_construct post /\ length pre = 7%nat.
Proof.
  intro E. destruct (run_trace_head warm N due hc) as (rest & E0 & NC & NW & _). rewrite E0 in E. symmetry in E.
  assert (none is_construct ((if warm then warm_branch else []) ++ rest)) as NR.
  { apply none_app; [destruct warm; repeat constructor|exact NC]. }
  destruct (split_in_prefix is_construct pre _ (Construct MOutput) post _ eq_refl NR E) as (A2 & EA & ->).
  change (map Construct module_names) with
    ([Construct MState; Construct MTime; Construct MGrid; Construct MForcing; Construct MRelease;
      Construct MTracker; Construct MIbm] ++ [Construct MOutput]) in EA.
  symmetry in EA. pose proof EA as EA'. apply split_last_unique in EA'.
  - subst A2. split; [exact NR|].
    apply (f_equal (@length call)) in EA. rewrite !app_length in EA. cbn in EA. lia.
  - cbn. intuition discriminate.
Qed.

Lemma count_construct m warm N due hc : count (is_construct_of m) (run_trace warm N due hc) = 1.
Proof.
  rewrite run_trace_closed, !count_app.
  rewrite (count_steps (is_construct_of m) 0 due) by (intros []; destruct m; reflexivity).
  unfold finish_trace. rewrite count_map_close by reflexivity.
  destruct warm, m; reflexivity.
Qed.

(** * T5: load_module *)
Lemma length_append (a b : string) : String.length (a ++ b) = (String.length a + String.length b)%nat.
Proof. induction a as [|c a IH]; cbn; [reflexivity|]. rewrite IH. reflexivity. Qed.

Lemma removesuffix_append name : removesuffix dot_py (name ++ dot_py) = name.
Proof.
  induction name as [|c name IH].
  - reflexivity.
  - cbn [append removesuffix]. destruct (String.eqb (String c (name ++ dot_py)) dot_py) eqn:E.
    + apply String.eqb_eq in E. apply (f_equal String.length) in E. cbn in E.
      rewrite length_append in E. cbn in E. lia.
    + rewrite IH. reflexivity.
Qed.

(** [ends_py s]: s ends with ".py" *)
Fixpoint ends_py (s : string) : bool :=
  String.eqb s dot_py || match s with EmptyString => false | String _ r => ends_py r end.
Lemma removesuffix_noop s : ends_py s = false -> removesuffix dot_py s = s.
Proof.
  induction s as [|c s IH]; intro H; [reflexivity|].
  cbn [ends_py] in H. apply orb_false_iff in H as [H1 H2].
  cbn [removesuffix]. rewrite H1, (IH H2). reflexivity.
Qed.

Lemma load_module_suffix_irrelevant fe imp name :
  load_module fe imp (name ++ dot_py) =
  (if fe (name ++ dot_py)%string then LoadFile (name ++ dot_py)
   else if imp name then Import name else Exit).
Proof. unfold load_module. rewrite removesuffix_append. reflexivity. Qed.

Lemma load_module_bare fe imp name : ends_py name = false ->
  load_module fe imp name = load_module fe imp (name ++ dot_py).
Proof. intro H. rewrite load_module_suffix_irrelevant. unfold load_module. rewrite (removesuffix_noop _ H). reflexivity. Qed.

Lemma path_module_wins fe imp name : fe (name ++ dot_py)%string = true ->
  load_module fe imp (name ++ dot_py) = LoadFile (name ++ dot_py) /\
  (ends_py name = false -> load_module fe imp name = LoadFile (name ++ dot_py)).
Proof.
  intro H. split.
  - rewrite load_module_suffix_irrelevant, H. reflexivity.
  - intro E. rewrite (load_module_bare _ _ _ E), load_module_suffix_irrelevant, H. reflexivity.
Qed.

Lemma load_module_no_file fe imp name : fe (name ++ dot_py)%string = false ->
  load_module fe imp (name ++ dot_py) = (if imp name then Import name else Exit).
Proof. intro H. rewrite load_module_suffix_irrelevant, H. reflexivity. Qed.

(** * State-level consequences of the order (over Model/Sim.v) *)
Section S.
  Variables V C : Type.
  Variable release_at : Z -> list (Z * V).
  Variable forcef : Z -> V -> V.
  Variable cachef : Z -> V -> C.
  Variable trackf : Z -> V -> C -> V * bool.
  Variable ibmf : Z -> V -> V * bool.
  Variable due : Z -> bool.
  Notation part := (part V).
  Notation sim := (sim V C).
  Notation sim_step := (sim_step V C release_at forcef cachef trackf ibmf due).
  Notation after_release := (after_release V C release_at forcef).
  Notation moved := (moved V C cachef trackf ibmf).
  Notation pids_ok := (pids_ok V C).
  Notation gone := (gone V C).

  Lemma NoDup_map_inj {A B} (f : A -> B) l x y :
    NoDup (map f l) -> In x l -> In y l -> f x = f y -> x = y.
  Proof.
    induction l as [|a l IH]; intros ND Hx Hy E; [destruct Hx|].
    cbn in ND. inversion ND as [|? ? NI ND']; subst.
    destruct Hx as [<-|Hx], Hy as [<-|Hy]; try reflexivity.
    - exfalso. apply NI. rewrite E. apply in_map. exact Hy.
    - exfalso. apply NI. rewrite <- E. apply in_map. exact Hx.
    - apply IH; assumption.
  Qed.

  (** the IBM of step n sees the value the tracker produced from the record's value of the particle *)
  Definition ibm_input (n : Z) (p : part) : V := fst (trackf n (pval p) (cachef n (pval p))).

  Lemma moved_ppid n (p : part) : ppid (moved n p) = ppid p.
  Proof.
    unfold SimProofs.moved. destruct (trackf n (pval p) (cachef n (pval p))) as [v1 a1].
    destruct (ibmf n v1) as [v2 a2]. reflexivity.
  Qed.
  Lemma moved_dead n (p : part) : snd (ibmf n (ibm_input n p)) = false -> palive (moved n p) = false.
  Proof.
    unfold SimProofs.moved, ibm_input. destruct (trackf n (pval p) (cachef n (pval p))) as [v1 a1].
    cbn [fst]. destruct (ibmf n v1) as [v2 a2]. cbn [snd palive]. intros ->. apply andb_false_r.
  Qed.

  (** a living particle on which the IBM of step n answers "dead" is gone after step n *)
  Lemma ibm_kill_gone (s : sim) n p : crashed s = false -> pids_ok s ->
    In p (after_release s false n) -> snd (ibmf n (ibm_input n p)) = false ->
    gone (ppid p) (sim_step s n).
  Proof.
    intros H P Hp K.
    pose proof (step_pids_ok V C release_at forcef cachef trackf ibmf due true false s n H P) as (F' & ND' & N0').
    fold sim_step in F', ND', N0'.
    unfold Sim.sim_step in *. rewrite step_spec in * by exact H. cbn [parts npid] in *.
    assert (In (moved n p) (map (moved n) (after_release s false n))) as Hm by (apply in_map; exact Hp).
    split.
    - rewrite Forall_forall in F'. specialize (F' _ Hm). rewrite moved_ppid in F'. cbn [npid]. lia.
    - cbn [parts]. intros q Hq Eq.
      assert (q = moved n p) as ->.
      { apply (NoDup_map_inj ppid _ _ _ ND' Hq Hm). rewrite Eq, moved_ppid. reflexivity. }
      apply moved_dead. exact K.
  Qed.

  (** a particle that is living at step n and gone after it: it is in the record of step n (when one is
      due) and in no record and no state of any later step *)
  Lemma kills_effective_next_record (s : sim) n l q : crashed s = false -> pids_ok s ->
    In q (map ppid (after_release s false n)) -> gone q (sim_step s n) ->
    (due n = true -> exists r, recs (sim_step s n) = recs s ++ [r] /\ rstep r = n /\ In q (rec_pids V r)) /\
    (exists X, recs (fold_left sim_step l (sim_step s n)) = recs (sim_step s n) ++ X /\
               Forall (fun r => ~ In q (rec_pids V r)) X) /\
    ~ In q (map ppid (filter palive (parts (fold_left sim_step l (sim_step s n))))).
  Proof.
    intros H P Hq G. split; [|split].
    - intro D. destruct (record_is_consistent V C release_at forcef cachef trackf ibmf due s n H D) as (R & _).
      eexists. split; [exact R|]. split; [reflexivity|].
      unfold rec_pids, snapshot. cbn. rewrite map_map. cbn. exact Hq.
    - destruct (gone_forever V C release_at forcef cachef trackf ibmf due l (sim_step s n) q
                  (step_not_crashed V C release_at forcef cachef trackf ibmf due true false s n H)
                  (step_pids_ok V C release_at forcef cachef trackf ibmf due true false s n H P) G) as (_ & X).
      exact X.
    - destruct (gone_forever V C release_at forcef cachef trackf ibmf due l (sim_step s n) q
                  (step_not_crashed V C release_at forcef cachef trackf ibmf due true false s n H)
                  (step_pids_ok V C release_at forcef cachef trackf ibmf due true false s n H P) G) as ((_ & G2) & _).
      intro Hin. apply in_map_iff in Hin as (p & Ep & Hp). apply filter_In in Hp as [Hp Al].
      specialize (G2 p Hp Ep). congruence.
  Qed.

  (** ** The step of Model/Sim.v is the trace of Model.update executed call by call *)
  Notation exec := (exec V C release_at forcef cachef trackf ibmf).
  Notation sim_init := (sim_init V C).
  Notation cold_run := (cold_run V C release_at forcef cachef trackf ibmf due).

  Definition tracked (n : Z) (p : part) : part :=
    let '(v1, a1) := trackf n (pval p) (cachef n (pval p)) in
    {| tag := tag p; ppid := ppid p; pval := v1; palive := palive p && a1 |}.
  Lemma track_all_aligned n (ps : list part) :
    track_all V C trackf n ps (map (fun p => cachef n (pval p)) ps) = Some (map (tracked n) ps).
  Proof.
    induction ps as [|p ps IH]; cbn [map track_all]; [reflexivity|]. rewrite IH. unfold tracked.
    destruct (trackf n (pval p) (cachef n (pval p))) as [v1 a1]. reflexivity.
  Qed.
  Lemma ibm_all_tracked n (ps : list part) : ibm_all V ibmf n (map (tracked n) ps) = map (moved n) ps.
  Proof.
    unfold ibm_all. rewrite map_map. apply map_ext. intro p. unfold tracked, SimProofs.moved.
    destruct (trackf n (pval p) (cachef n (pval p))) as [v1 a1]. cbn [pval tag ppid palive].
    destruct (ibmf n v1) as [v2 a2]. reflexivity.
  Qed.

  Lemma exec_timer n (s : sim) : crashed s = false -> exec (n, s) TimerUpdate = (n + 1, s).
  Proof. intro H. unfold exec. rewrite H. reflexivity. Qed.
  Lemma exec_compactify n (s : sim) : crashed s = false ->
    exec (n, s) Compactify = (n, with_parts V C s (compactify V (parts s))).
  Proof. intro H. unfold exec. rewrite H. reflexivity. Qed.
  Lemma exec_release n (s : sim) : crashed s = false ->
    exec (n, s) ReleaseUpdate =
    (n, {| parts := parts s ++ mk_new V (npid s) (release_at n);
           npid := npid s + Z.of_nat (List.length (release_at n));
           cache := cache s; recs := recs s; crashed := false |}).
  Proof. intro H. unfold exec. rewrite H. reflexivity. Qed.
  Lemma exec_force n (s : sim) : crashed s = false ->
    exec (n, s) ForceUpdate =
    (n, {| parts := map (forced V forcef n) (parts s); npid := npid s;
           cache := map (fun p => cachef n (pval p)) (map (forced V forcef n) (parts s));
           recs := recs s; crashed := false |}).
  Proof. intro H. unfold exec. rewrite H. reflexivity. Qed.
  Lemma exec_output n (s : sim) b : crashed s = false ->
    exec (n, s) (OutputUpdate b) =
    if b then (n, {| parts := compactify V (parts s); npid := npid s; cache := cache s;
                     recs := recs s ++ [snapshot V n (compactify V (parts s))]; crashed := false |})
    else (n, s).
  Proof. intro H. unfold exec. rewrite H. destruct b; reflexivity. Qed.
  Lemma exec_tracker n (s : sim) ps : crashed s = false -> track_all V C trackf n (parts s) (cache s) = Some ps ->
    exec (n, s) TrackerUpdate = (n, with_parts V C s ps).
  Proof. intros H T. unfold exec. rewrite H, T. reflexivity. Qed.
  Lemma exec_ibm n (s : sim) : crashed s = false ->
    exec (n, s) IbmUpdate = (n, with_parts V C s (ibm_all V ibmf n (parts s))).
  Proof. intro H. unfold exec. rewrite H. reflexivity. Qed.

  Lemma update_is_sim_step (s : sim) n : crashed s = false -> 0 <= n + 1 ->
    fold_left exec (update_trace due n) (n, s) = (n + 1, sim_step s (n + 1)).
  Proof.
    intros H N0. unfold update_trace. destruct (0 <=? n + 1) eqn:E; [|apply Z.leb_gt in E; lia].
    unfold Sim.sim_step. rewrite step_spec by exact H. unfold SimProofs.after_release.
    cbn [app fold_left].
    rewrite exec_timer by exact H. rewrite exec_compactify by exact H.
    rewrite exec_release by exact H. rewrite exec_force by reflexivity.
    unfold with_parts. cbn [parts npid cache recs crashed].
    set (ps2 := map (forced V forcef (n + 1)) _).
    assert (Forall (fun p : part => palive p = true) ps2) as AL.
    { unfold ps2. apply Forall_forall. intros q Hq. apply in_map_iff in Hq as (p & <- & Hp). cbn.
      apply in_app_or in Hp as [Hp|Hp].
      - pose proof (compactify_all_alive V (parts s)) as F. rewrite Forall_forall in F. apply F. exact Hp.
      - pose proof (mk_new_alive V (release_at (n + 1)) (npid s)) as F. rewrite Forall_forall in F. apply F. exact Hp. }
    rewrite exec_output by reflexivity. cbn [andb parts npid cache recs crashed].
    rewrite (compactify_alive V ps2 AL).
    destruct (due (n + 1)).
    - rewrite (exec_tracker _ _ (map (tracked (n + 1)) ps2)) by (try reflexivity; apply track_all_aligned).
      rewrite exec_ibm by reflexivity. unfold with_parts. cbn [parts npid cache recs crashed].
      rewrite ibm_all_tracked. reflexivity.
    - rewrite (exec_tracker _ _ (map (tracked (n + 1)) ps2)) by (try reflexivity; apply track_all_aligned).
      rewrite exec_ibm by reflexivity. unfold with_parts. cbn [parts npid cache recs crashed].
      rewrite ibm_all_tracked. reflexivity.
  Qed.

  (** constructors and closes leave clock and particles alone *)
  Lemma exec_inert (st : Z * sim) l : (forall c, In c l -> is_construct c = true \/ is_close c = true) ->
    fold_left exec l st = st.
  Proof.
    revert st. induction l as [|c l IH]; intros st Hl; [reflexivity|]. cbn [fold_left].
    assert (exec st c = st) as ->.
    { destruct st as [n s]. unfold exec. destruct (crashed s); [reflexivity|].
      destruct (Hl c (or_introl eq_refl)) as [K|K]; destruct c; try discriminate K; reflexivity. }
    apply IH. intros c' Hc'. apply Hl. right. exact Hc'.
  Qed.

  Lemma steps_are_sim_steps ks : forall (s : sim) n, crashed s = false -> 0 <= n + 1 ->
    fold_left exec (loop_trace due ks n) (n, s) =
    (n + Z.of_nat (List.length ks), fold_left sim_step (zrange_aux (n + 1) (List.length ks)) s).
  Proof.
    induction ks as [|k ks IH]; intros s n H N0.
    - cbn. f_equal. lia.
    - cbn [loop_trace List.length zrange_aux]. rewrite fold_left_app, update_is_sim_step by assumption.
      rewrite IH by (try lia; apply step_not_crashed; exact H).
      cbn [fold_left]. f_equal. lia.
  Qed.

  (** executing the whole call trace of a cold run of N steps yields the state of Sim.cold_run N *)
  Lemma run_trace_is_cold_run N hc : 0 <= N ->
    fold_left exec (run_trace false N due hc) (step_after_construction, sim_init) = (N - 1, cold_run N).
  Proof.
    intro HN. unfold run_trace. rewrite !fold_left_app.
    rewrite (exec_inert _ (init_trace false)).
    2:{ intros c Hc. left. cbn in Hc. repeat (destruct Hc as [<-|Hc]; [reflexivity|]). destruct Hc. }
    cbn [init_step]. rewrite steps_are_sim_steps by (try reflexivity; unfold step_after_construction; lia).
    rewrite exec_inert.
    2:{ intros c Hc. right. unfold finish_trace in Hc. apply in_map_iff in Hc as (m & <- & _). reflexivity. }
    unfold Sim.cold_run, zrange, step_after_construction. rewrite pr_length_zrange_aux.
    f_equal. rewrite Z2Nat.id by lia. lia.
  Qed.
End S.
