(** Local truncation error of the explicit midpoint rule (RK2, the tracker's variant
    Phi_RK2_2d f t p = f (t + ht/2) (p + 1/2 (hx, hy) .* f t p)) in TWO space dimensions, for
    arbitrary TIME-DEPENDENT C2 velocity fields (u, v), by Taylor's theorem; and hence COMPLETE
    second-order convergence of the 2-D RK2 scheme of GeneralConvergence2DProofs.v, whose
    RK2_2d_converges_order2 keeps the local truncation bound C ht^3 (in the max-norm norm2) as a
    HYPOTHESIS.  This file discharges it.  (RK2TruncationProofs.v is the scalar case; its
    section (B) is the template.)

    SMOOTHNESS.  A function k : R -> R -> R -> R of (t, x, y) is differentiable at (t, x, y) with
    partial derivatives kt, kx, ky when
        D3 k t x y kt kx ky :=
          filterdiff (fun p : R * (R * R) => k (fst p) (fst (snd p)) (snd (snd p)))
                     (locally (t, (x, y))) (fun d => fst d * kt + fst (snd d) * kx + snd (snd d) * ky)
    (Coquelicot's Frechet derivative on the product space R * (R * R); the 3-variable analogue of
    differentiable_pt_lim used in the scalar file).  Part 0 gives the chain rule along curves
    (D3_chain), the three partial derivatives in is_derive form (D3_partial_t/x/y), and
    constructors that make D3 facts easy to produce for concrete fields: D3_const, D3_t, D3_x,
    D3_y, D3_plus, D3_minus, D3_mult, D3_scal, D3_comp1 (K o k, K : R -> R differentiable),
    D3_ext, D3_sepf (k t x y = A t + B (x - y)).

    HYPOTHESES on the field (Section Plane): 26 functions
        u, ut, ux, uy, utt, utx, uty, uxt, uxx, uxy, uyt, uyx, uyy   and the same for v,
    with  forall t x y, D3 u t x y (ut t x y) (ux t x y) (uy t x y),  the same for ut, ux, uy
    (second partials; mixed partials are kept apart, so Schwarz's theorem is not needed) and for
    v, vt, vx, vy  (8 differentiability hypotheses), and 26 global bounds
        |u| <= A0, |ut| <= At, ..., |uyy| <= Ayy,   |v| <= B0, |vt| <= Bt, ..., |vyy| <= Byy.
    The exact solution sol : R -> pt is GIVEN on the closed interval (two-sided derivatives at the
    end points too):
        forall t, t0 <= t <= t0 + T -> is_derive (fun r => fst (sol r)) t (u t (fst (sol t)) (snd (sol t)))
        forall t, t0 <= t <= t0 + T -> is_derive (fun r => snd (sol r)) t (v t (fst (sol t)) (snd (sol t)))
    No further regularity of sol is assumed: its second and third derivatives are derived.

    CONSTANTS.  For a component k (= u or v) with bounds K..:
        N2c = (Ktt + A0 Ktx + B0 Kty) + A0 (Kxt + A0 Kxx + B0 Kxy) + B0 (Kyt + A0 Kyx + B0 Kyy)
              (second derivative of k in the direction (1, U, V), |U| <= A0, |V| <= B0)
        DU = At + Ax A0 + Ay B0,  DV = Bt + Bx A0 + By B0   (d/dt of u, v along a trajectory)
        M3c = N2c + Kx DU + Ky DV                           (third derivative of the component)
        Cc  = M3c / 6 + N2c / 8
        C_RK2_2d = Rmax (Cc for u) (Cc for v),   L_2d = Rmax (Ax + Ay) (Bx + By)  (Lipschitz, norm2).
    For u = g x, v = 0 these are the constants of the scalar file.

    WHAT IS PROVED
      Part 1  component_truncation_open / closed_component_bound: for Z' = k (t, X, Y) along a
              solution of X' = U, Y' = V:
              |Z(s+h) - Z s - h k (s + h/2, X s + h/2 U, Y s + h/2 V)| <= Cc h^3
              (Taylor_Lagrange with n = 2 on Z and with n = 1 on r |-> k (s + r h/2, ...); the end
              steps of the closed interval by continuity, bound_by_shrinking).
      Part 2  RK2_x_truncation, RK2_y_truncation, RK2_xy_truncation: both components;
              D3_lipschitz, field2_lipschitz: field2 u v is L_2d-Lipschitz in norm2.
      Part 3  (general steps hx, hy, ht; the scheme integrates x' = hx/ht u, y' = hy/ht v; all
              bounds of u scale by a = hx/ht, those of v by b = hy/ht: C_RK2_2d_metric a b ...)
              RK2_local_truncation_2d_metric, RK2_converges_general_2d_metric (+ _uniform),
              model_RK2_converges_general_2d (n steps of the rational model Tracker.rk_iter with
              tab_RK2, both coordinates), and for hx = hy = ht = h (x' = u, y' = v):
              RK2_local_truncation_2d:
                norm2 (sol (s+h) - sol s - h * Phi_RK2_2d (field2 u v) h h h s (sol s)) <= C_RK2_2d h^3
              RK2_converges_general_2d (COMPLETE, no truncation hypothesis), n h = T:
                norm2 (p_n - sol (t0 + T)) <= exp (T * Lip_RK2 h L_2d) * T * C_RK2_2d * h^2
              RK2_converges_general_2d_uniform: the same with Lip_RK2 hmax L_2d for h <= hmax.
      Part 4  RK2_2d_example_coupled (closed, no hypotheses): u = cos t + sin (x - y),
              v = cos t - sin (x - y) (time-dependent, non-linear, each component depends on both
              coordinates), exact solution (sin t + atan (exp (2t)), sin t - atan (exp (2t))) from
              (PI/4, -PI/4): error <= exp (T * Lip_RK2 h 2) * T * (53/8) * h^2.  (The example has
              hx = hy = ht; the metric theorem is instantiated by it since the equal-step theorem
              is derived from the metric one.  No separate hx <> hy example.)

    WHAT REMAINS A HYPOTHESIS: existence of the exact solution (given, not constructed); GLOBAL
    (all t, x, y) boundedness of u, v and of their partial derivatives up to order 2; constant
    hx, hy along the trajectory; for the model theorem, agreement of the rational oracle with
    (u, v) at every step (as in GeneralConvergence2DProofs.v), no clipping.
    No axioms beyond those of the standard-library reals / Coquelicot (Print Assumptions below). *)
From Coq Require Import Reals Lra Lia Psatz QArith Qreals.
From Coquelicot Require Import Coquelicot.
From Ladim Require Import Model.Tracker Proofs.ConvergenceProofs Proofs.GeneralConvergenceProofs Proofs.RK2TruncationProofs
  Proofs.GeneralConvergence2DProofs.
Open Scope R_scope.

(** * Part 0: Frechet differentiability of a function of (t, x, y), chain rule, constructors *)
Definition D3 (k : R -> R -> R -> R) (t x y kt kx ky : R) : Prop :=
  filterdiff (fun p : R * (R * R) => k (fst p) (fst (snd p)) (snd (snd p)))
             (locally (t, (x, y)))
             (fun d : R * (R * R) => fst d * kt + fst (snd d) * kx + snd (snd d) * ky).

Lemma filterdiff_pair {U V : NormedModule R_AbsRing} (f : R -> U) (g : R -> V) (s : R)
    (lf : R -> U) (lg : R -> V) :
  filterdiff f (locally s) lf -> filterdiff g (locally s) lg ->
  filterdiff (fun r => (f r, g r)) (locally s) (fun d => (lf d, lg d)).
Proof.
  intros Hf Hg.
  apply (filterdiff_comp'_2 f g (fun u v => (u, v)) s lf lg (fun u v => (u, v)) Hf Hg).
  apply (filterdiff_ext (fun t : U * V => t)). intros [u v]; reflexivity.
  apply (filterdiff_ext_lin _ (fun t : U * V => t)). apply filterdiff_id.
  intros [u v]; reflexivity.
Qed.

(** chain rule along a differentiable curve r |-> (a r, b r, c r) *)
Lemma D3_chain (k : R -> R -> R -> R) (a b c : R -> R) (s kt kx ky da db dc : R) :
  D3 k (a s) (b s) (c s) kt kx ky ->
  is_derive a s da -> is_derive b s db -> is_derive c s dc ->
  is_derive (fun r => k (a r) (b r) (c r)) s (kt * da + kx * db + ky * dc).
Proof.
  intros Hk Ha Hb Hc. unfold is_derive.
  pose proof (filterdiff_pair a (fun r => (b r, c r)) s _ _ Ha
                (filterdiff_pair b c s _ _ Hb Hc)) as Hg.
  pose proof (filterdiff_comp' (fun r => (a r, (b r, c r))) _ s _ _ Hg Hk) as H.
  cbn [fst snd] in H.
  apply (filterdiff_ext_lin _ _ _ H).
  intros d. cbn [fst snd]. unfold scal; simpl; unfold mult; simpl. ring.
Qed.

(** the three partial derivatives, in [is_derive] form *)
Lemma D3_partial_t k t x y kt kx ky : D3 k t x y kt kx ky -> is_derive (fun s => k s x y) t kt.
Proof.
  intros H. evar_last.
  apply (D3_chain k (fun s => s) (fun _ => x) (fun _ => y) t kt kx ky 1 0 0 H).
  apply is_derive_id_R. apply is_derive_const_R. apply is_derive_const_R. ring.
Qed.
Lemma D3_partial_x k t x y kt kx ky : D3 k t x y kt kx ky -> is_derive (fun s => k t s y) x kx.
Proof.
  intros H. evar_last.
  apply (D3_chain k (fun _ => t) (fun s => s) (fun _ => y) x kt kx ky 0 1 0 H).
  apply is_derive_const_R. apply is_derive_id_R. apply is_derive_const_R. ring.
Qed.
Lemma D3_partial_y k t x y kt kx ky : D3 k t x y kt kx ky -> is_derive (fun s => k t x s) y ky.
Proof.
  intros H. evar_last.
  apply (D3_chain k (fun _ => t) (fun _ => x) (fun s => s) y kt kx ky 0 0 1 H).
  apply is_derive_const_R. apply is_derive_const_R. apply is_derive_id_R. ring.
Qed.

Ltac eqR := match goal with |- ?a = ?b => change (@eq R a b) end.

(** constructors: constants, coordinates, sums, differences, products, scalar multiples,
    composition with a differentiable function of one variable *)
Lemma D3_const (c t x y : R) : D3 (fun _ _ _ => c) t x y 0 0 0.
Proof.
  unfold D3. apply (filterdiff_ext_lin _ (fun _ : R * (R * R) => zero)).
  apply filterdiff_const. intros d. unfold zero; simpl. eqR. ring.
Qed.
Lemma D3_t (t x y : R) : D3 (fun t _ _ => t) t x y 1 0 0.
Proof.
  unfold D3. apply (filterdiff_ext_lin _ (fun d : R * (R * R) => fst d)).
  apply filterdiff_linear. apply is_linear_fst. intros d. eqR. ring.
Qed.
Lemma D3_x (t x y : R) : D3 (fun _ x _ => x) t x y 0 1 0.
Proof.
  unfold D3. apply (filterdiff_ext_lin _ (fun d : R * (R * R) => fst (snd d))).
  apply filterdiff_linear.
  apply (is_linear_comp (fun d : R * (R * R) => snd d) (fun e : R * R => fst e)).
  apply is_linear_snd. apply is_linear_fst. intros d. eqR. ring.
Qed.
Lemma D3_y (t x y : R) : D3 (fun _ _ y => y) t x y 0 0 1.
Proof.
  unfold D3. apply (filterdiff_ext_lin _ (fun d : R * (R * R) => snd (snd d))).
  apply filterdiff_linear.
  apply (is_linear_comp (fun d : R * (R * R) => snd d) (fun e : R * R => snd e)).
  apply is_linear_snd. apply is_linear_snd. intros d. eqR. ring.
Qed.
Lemma D3_plus k l t x y kt kx ky lt lx ly :
  D3 k t x y kt kx ky -> D3 l t x y lt lx ly ->
  D3 (fun t x y => k t x y + l t x y) t x y (kt + lt) (kx + lx) (ky + ly).
Proof.
  unfold D3. intros Hk Hl.
  apply (filterdiff_ext_lin _ _ _ (filterdiff_plus_fct _ _ _ _ Hk Hl)).
  intros d. unfold plus; simpl. eqR. ring.
Qed.
Lemma D3_minus k l t x y kt kx ky lt lx ly :
  D3 k t x y kt kx ky -> D3 l t x y lt lx ly ->
  D3 (fun t x y => k t x y - l t x y) t x y (kt - lt) (kx - lx) (ky - ly).
Proof.
  unfold D3. intros Hk Hl.
  apply (filterdiff_ext_lin _ _ _ (filterdiff_minus_fct _ _ _ _ Hk Hl)).
  intros d. unfold minus, plus, opp; simpl. eqR. ring.
Qed.
Lemma D3_mult k l t x y kt kx ky lt lx ly :
  D3 k t x y kt kx ky -> D3 l t x y lt lx ly ->
  D3 (fun t x y => k t x y * l t x y) t x y
     (kt * l t x y + k t x y * lt) (kx * l t x y + k t x y * lx) (ky * l t x y + k t x y * ly).
Proof.
  unfold D3. intros Hk Hl.
  apply (filterdiff_ext_lin _ _ _ (filterdiff_mult_fct _ _ _ _ _ Rmult_comm Hk Hl)).
  intros d. unfold plus, mult; simpl. eqR. ring.
Qed.
Lemma D3_scal (c : R) k t x y kt kx ky :
  D3 k t x y kt kx ky -> D3 (fun t x y => c * k t x y) t x y (c * kt) (c * kx) (c * ky).
Proof.
  intros Hk.
  replace (c * kt) with (0 * k t x y + c * kt) by ring.
  replace (c * kx) with (0 * k t x y + c * kx) by ring.
  replace (c * ky) with (0 * k t x y + c * ky) by ring.
  apply (D3_mult (fun _ _ _ => c) k t x y 0 0 0 kt kx ky (D3_const c t x y) Hk).
Qed.
Lemma D3_comp1 (K : R -> R) (dK : R) k t x y kt kx ky :
  D3 k t x y kt kx ky -> is_derive K (k t x y) dK ->
  D3 (fun t x y => K (k t x y)) t x y (dK * kt) (dK * kx) (dK * ky).
Proof.
  unfold D3. intros Hk HK.
  pose proof (filterdiff_comp'
                (fun p : R * (R * R) => k (fst p) (fst (snd p)) (snd (snd p))) K (t, (x, y))
                _ _ Hk HK) as H.
  apply (filterdiff_ext_lin _ _ _ H).
  intros d. unfold scal; simpl; unfold mult; simpl. eqR. ring.
Qed.

(** three small analytic tools for the end points of a closed interval *)
Lemma bound_by_shrinking (F : R -> R) (h B : R) : 0 < h -> ex_derive F 0 ->
  (forall eps, 0 < eps < h / 2 -> Rabs (F eps) <= B) -> Rabs (F 0) <= B.
Proof.
  intros Hh HF Hb.
  assert (Hcont : continuous F 0)
    by (apply (ex_derive_continuous (K := R_AbsRing) (V := R_NormedModule) F 0); exact HF).
  apply le_epsilon. intros e He.
  assert (Hc : filterlim F (locally (0 : R_UniformSpace)) (locally (F 0 : R_UniformSpace)))
    by exact Hcont.
  destruct (proj1 (filterlim_locally F (F 0)) Hc (mkposreal e He)) as [d Hd].
  set (eps := Rmin (pos d / 2) (h / 4)).
  assert (Heps : 0 < eps < h / 2 /\ eps < d).
  { unfold eps. pose proof (cond_pos d).
    pose proof (Rmin_l (d / 2) (h / 4)). pose proof (Rmin_r (d / 2) (h / 4)).
    assert (0 < Rmin (d / 2) (h / 4)) by (apply Rmin_glb_lt; lra). lra. }
  assert (Hball : Rabs (F eps - F 0) < e).
  { apply (Hd eps). unfold ball; simpl. unfold AbsRing_ball, abs, minus, plus, opp; simpl.
    rewrite Ropp_0, Rplus_0_r, Rabs_pos_eq by lra. lra. }
  pose proof (Hb eps (proj1 Heps)) as H1.
  replace (F 0) with (F eps + - (F eps - F 0)) by ring.
  eapply Rle_trans. apply Rabs_triang. rewrite Rabs_Ropp. lra.
Qed.

Lemma stage_ex_derive (x w : R -> R) (s h : R) : ex_derive x s -> ex_derive w s ->
  ex_derive (fun e => x (s + e) + (h - 2 * e) / 2 * w (s + e)) 0.
Proof.
  intros Hx Hw. replace s with (s + 0) in Hx, Hw by ring.
  auto_derive. repeat split; assumption.
Qed.

Lemma shrunk3_ex_derive (z KK : R -> R) (s h : R) :
  ex_derive z s -> ex_derive z (s + h) -> ex_derive KK 0 ->
  ex_derive (fun e => z (s + h - e) - z (s + e) - (h - 2 * e) * KK e) 0.
Proof.
  intros Hz0 Hz1 HK.
  replace s with (s + 0) in Hz0 by ring. replace (s + h) with (s + h - 0) in Hz1 by ring.
  auto_derive. repeat split; assumption.
Qed.

(** * Part 1: one component of the midpoint step, along an exact solution *)
Lemma Rabs_triang3 a b c A B C :
  Rabs a <= A -> Rabs b <= B -> Rabs c <= C -> Rabs (a + b + c) <= A + B + C.
Proof.
  intros Ha Hb Hc.
  pose proof (Rabs_triang (a + b) c). pose proof (Rabs_triang a b). lra.
Qed.

(** the constants: A0, B0 bound the two velocity components; DU, DV bound the derivatives of the
    two velocity components along a trajectory; K.. bound the partial derivatives of the component
    k whose truncation error is estimated *)
Definition N2c (A0 B0 Ktt Ktx Kty Kxt Kxx Kxy Kyt Kyx Kyy : R) : R :=
  (Ktt + A0 * Ktx + B0 * Kty) + A0 * (Kxt + A0 * Kxx + B0 * Kxy) + B0 * (Kyt + A0 * Kyx + B0 * Kyy).
Definition Dc (A0 B0 Kt Kx Ky : R) : R := Kt + Kx * A0 + Ky * B0.
Definition M3c (N2 Kx Ky DU DV : R) : R := N2 + Kx * DU + Ky * DV.
Definition Cc (N2 Kx Ky DU DV : R) : R := M3c N2 Kx Ky DU DV / 6 + N2 / 8.

Lemma N2c_nonneg A0 B0 Ktt Ktx Kty Kxt Kxx Kxy Kyt Kyx Kyy :
  0 <= A0 -> 0 <= B0 -> 0 <= Ktt -> 0 <= Ktx -> 0 <= Kty -> 0 <= Kxt -> 0 <= Kxx -> 0 <= Kxy ->
  0 <= Kyt -> 0 <= Kyx -> 0 <= Kyy ->
  0 <= N2c A0 B0 Ktt Ktx Kty Kxt Kxx Kxy Kyt Kyx Kyy.
Proof.
  intros. unfold N2c.
  assert (0 <= A0 * Ktx) by (apply Rmult_le_pos; assumption).
  assert (0 <= B0 * Kty) by (apply Rmult_le_pos; assumption).
  assert (0 <= A0 * Kxx) by (apply Rmult_le_pos; assumption).
  assert (0 <= B0 * Kxy) by (apply Rmult_le_pos; assumption).
  assert (0 <= A0 * Kyx) by (apply Rmult_le_pos; assumption).
  assert (0 <= B0 * Kyy) by (apply Rmult_le_pos; assumption).
  assert (0 <= A0 * (Kxt + A0 * Kxx + B0 * Kxy)) by (apply Rmult_le_pos; lra).
  assert (0 <= B0 * (Kyt + A0 * Kyx + B0 * Kyy)) by (apply Rmult_le_pos; lra).
  lra.
Qed.
Lemma Dc_nonneg A0 B0 Kt Kx Ky : 0 <= A0 -> 0 <= B0 -> 0 <= Kt -> 0 <= Kx -> 0 <= Ky ->
  0 <= Dc A0 B0 Kt Kx Ky.
Proof.
  intros. unfold Dc.
  assert (0 <= Kx * A0) by (apply Rmult_le_pos; assumption).
  assert (0 <= Ky * B0) by (apply Rmult_le_pos; assumption). lra.
Qed.
Lemma M3c_nonneg N2 Kx Ky DU DV : 0 <= N2 -> 0 <= Kx -> 0 <= Ky -> 0 <= DU -> 0 <= DV ->
  0 <= M3c N2 Kx Ky DU DV.
Proof.
  intros. unfold M3c.
  assert (0 <= Kx * DU) by (apply Rmult_le_pos; assumption).
  assert (0 <= Ky * DV) by (apply Rmult_le_pos; assumption). lra.
Qed.
Lemma Cc_nonneg N2 Kx Ky DU DV : 0 <= N2 -> 0 <= Kx -> 0 <= Ky -> 0 <= DU -> 0 <= DV ->
  0 <= Cc N2 Kx Ky DU DV.
Proof. intros. unfold Cc. pose proof (M3c_nonneg N2 Kx Ky DU DV). lra. Qed.

Section Core.
  (** the field (U, V) that the trajectory follows: X' = U (t, X, Y), Y' = V (t, X, Y) *)
  Variables U V Ut Ux Uy Vt Vx Vy : R -> R -> R -> R.
  Hypothesis HU : forall t x y, D3 U t x y (Ut t x y) (Ux t x y) (Uy t x y).
  Hypothesis HV : forall t x y, D3 V t x y (Vt t x y) (Vx t x y) (Vy t x y).
  Variables A0 At Ax Ay B0 Bt Bx By : R.
  Hypothesis HA0 : forall t x y, Rabs (U t x y) <= A0.
  Hypothesis HAt : forall t x y, Rabs (Ut t x y) <= At.
  Hypothesis HAx : forall t x y, Rabs (Ux t x y) <= Ax.
  Hypothesis HAy : forall t x y, Rabs (Uy t x y) <= Ay.
  Hypothesis HB0 : forall t x y, Rabs (V t x y) <= B0.
  Hypothesis HBt : forall t x y, Rabs (Vt t x y) <= Bt.
  Hypothesis HBx : forall t x y, Rabs (Vx t x y) <= Bx.
  Hypothesis HBy : forall t x y, Rabs (Vy t x y) <= By.

  Lemma cA0_nonneg : 0 <= A0.  Proof. eapply Rle_trans. apply Rabs_pos. apply (HA0 0 0 0). Qed.
  Lemma cAt_nonneg : 0 <= At.  Proof. eapply Rle_trans. apply Rabs_pos. apply (HAt 0 0 0). Qed.
  Lemma cAx_nonneg : 0 <= Ax.  Proof. eapply Rle_trans. apply Rabs_pos. apply (HAx 0 0 0). Qed.
  Lemma cAy_nonneg : 0 <= Ay.  Proof. eapply Rle_trans. apply Rabs_pos. apply (HAy 0 0 0). Qed.
  Lemma cB0_nonneg : 0 <= B0.  Proof. eapply Rle_trans. apply Rabs_pos. apply (HB0 0 0 0). Qed.
  Lemma cBt_nonneg : 0 <= Bt.  Proof. eapply Rle_trans. apply Rabs_pos. apply (HBt 0 0 0). Qed.
  Lemma cBx_nonneg : 0 <= Bx.  Proof. eapply Rle_trans. apply Rabs_pos. apply (HBx 0 0 0). Qed.
  Lemma cBy_nonneg : 0 <= By.  Proof. eapply Rle_trans. apply Rabs_pos. apply (HBy 0 0 0). Qed.

  Notation DU := (Dc A0 B0 At Ax Ay).
  Notation DV := (Dc A0 B0 Bt Bx By).

  Lemma DU_nonneg : 0 <= DU.
  Proof. apply Dc_nonneg. apply cA0_nonneg. apply cB0_nonneg. apply cAt_nonneg. apply cAx_nonneg. apply cAy_nonneg. Qed.
  Lemma DV_nonneg : 0 <= DV.
  Proof. apply Dc_nonneg. apply cA0_nonneg. apply cB0_nonneg. apply cBt_nonneg. apply cBx_nonneg. apply cBy_nonneg. Qed.

  (** d/ds g (s, X s, Y s) at a point where X and Y are differentiable *)
  Lemma along_pt (g : R -> R -> R -> R) (X Y : R -> R) (t gt gx gy dx dy : R) :
    D3 g t (X t) (Y t) gt gx gy -> is_derive X t dx -> is_derive Y t dy ->
    is_derive (fun s => g s (X s) (Y s)) t (gt + gx * dx + gy * dy).
  Proof.
    intros Hg HX HY. evar_last.
    apply (D3_chain g (fun s => s) X Y t gt gx gy 1 dx dy Hg).
    apply is_derive_id_R. exact HX. exact HY. ring.
  Qed.

  (** the component k (k = U or k = V in the application) *)
  Section Component.
    Variables k kt kx ky ktt ktx kty kxt kxx kxy kyt kyx kyy : R -> R -> R -> R.
    Hypothesis Hk : forall t x y, D3 k t x y (kt t x y) (kx t x y) (ky t x y).
    Hypothesis Hkt : forall t x y, D3 kt t x y (ktt t x y) (ktx t x y) (kty t x y).
    Hypothesis Hkx : forall t x y, D3 kx t x y (kxt t x y) (kxx t x y) (kxy t x y).
    Hypothesis Hky : forall t x y, D3 ky t x y (kyt t x y) (kyx t x y) (kyy t x y).
    Variables Kx Ky Ktt Ktx Kty Kxt Kxx Kxy Kyt Kyx Kyy : R.
    Hypothesis HKx : forall t x y, Rabs (kx t x y) <= Kx.
    Hypothesis HKy : forall t x y, Rabs (ky t x y) <= Ky.
    Hypothesis HKtt : forall t x y, Rabs (ktt t x y) <= Ktt.
    Hypothesis HKtx : forall t x y, Rabs (ktx t x y) <= Ktx.
    Hypothesis HKty : forall t x y, Rabs (kty t x y) <= Kty.
    Hypothesis HKxt : forall t x y, Rabs (kxt t x y) <= Kxt.
    Hypothesis HKxx : forall t x y, Rabs (kxx t x y) <= Kxx.
    Hypothesis HKxy : forall t x y, Rabs (kxy t x y) <= Kxy.
    Hypothesis HKyt : forall t x y, Rabs (kyt t x y) <= Kyt.
    Hypothesis HKyx : forall t x y, Rabs (kyx t x y) <= Kyx.
    Hypothesis HKyy : forall t x y, Rabs (kyy t x y) <= Kyy.

    Notation N2 := (N2c A0 B0 Ktt Ktx Kty Kxt Kxx Kxy Kyt Kyx Kyy).
    Notation M3 := (M3c N2 Kx Ky DU DV).
    Notation CC := (Cc N2 Kx Ky DU DV).

    Lemma cKx_nonneg : 0 <= Kx.  Proof. eapply Rle_trans. apply Rabs_pos. apply (HKx 0 0 0). Qed.
    Lemma cKy_nonneg : 0 <= Ky.  Proof. eapply Rle_trans. apply Rabs_pos. apply (HKy 0 0 0). Qed.
    Lemma cN2_nonneg : 0 <= N2.
    Proof.
      apply N2c_nonneg; [apply cA0_nonneg | apply cB0_nonneg | | | | | | | | | ];
        (eapply Rle_trans; [apply Rabs_pos |]).
      apply (HKtt 0 0 0). apply (HKtx 0 0 0). apply (HKty 0 0 0). apply (HKxt 0 0 0).
      apply (HKxx 0 0 0). apply (HKxy 0 0 0). apply (HKyt 0 0 0). apply (HKyx 0 0 0).
      apply (HKyy 0 0 0).
    Qed.
    Lemma cCC_nonneg : 0 <= CC.
    Proof.
      apply Cc_nonneg. apply cN2_nonneg. apply cKx_nonneg. apply cKy_nonneg.
      apply DU_nonneg. apply DV_nonneg.
    Qed.

    (** first-order Taylor expansion of k at (s, p, q) with increment (c, d, e),
        0 <= c, |d| <= c A0, |e| <= c B0 *)
    Section TaylorK.
      Variables s p q c d e : R.
      Hypothesis Hc : 0 <= c.
      Hypothesis Hd : Rabs d <= c * A0.
      Hypothesis He : Rabs e <= c * B0.
      Let ct (r : R) : R := s + r * c.
      Let cx (r : R) : R := p + r * d.
      Let cy (r : R) : R := q + r * e.
      Let psi (r : R) : R := k (ct r) (cx r) (cy r).
      Let dpsi (r : R) : R :=
        c * kt (ct r) (cx r) (cy r) + d * kx (ct r) (cx r) (cy r) + e * ky (ct r) (cx r) (cy r).
      Let ddpsi (r : R) : R :=
        c * (ktt (ct r) (cx r) (cy r) * c + ktx (ct r) (cx r) (cy r) * d + kty (ct r) (cx r) (cy r) * e)
        + d * (kxt (ct r) (cx r) (cy r) * c + kxx (ct r) (cx r) (cy r) * d + kxy (ct r) (cx r) (cy r) * e)
        + e * (kyt (ct r) (cx r) (cy r) * c + kyx (ct r) (cx r) (cy r) * d + kyy (ct r) (cx r) (cy r) * e).

      Lemma lt_is_derive r : is_derive ct r c.
      Proof. unfold ct. auto_derive. exact I. ring. Qed.
      Lemma lx_is_derive r : is_derive cx r d.
      Proof. unfold cx. auto_derive. exact I. ring. Qed.
      Lemma ly_is_derive r : is_derive cy r e.
      Proof. unfold cy. auto_derive. exact I. ring. Qed.

      Lemma line_is_derive (g : R -> R -> R -> R) (gt gx gy : R) r :
        D3 g (ct r) (cx r) (cy r) gt gx gy ->
        is_derive (fun r => g (ct r) (cx r) (cy r)) r (gt * c + gx * d + gy * e).
      Proof.
        intros Hg. apply (D3_chain g ct cx cy r gt gx gy c d e Hg).
        apply lt_is_derive. apply lx_is_derive. apply ly_is_derive.
      Qed.

      Lemma psi_is_derive r : is_derive psi r (dpsi r).
      Proof.
        unfold psi, dpsi. evar_last. apply (line_is_derive k _ _ _ r (Hk _ _ _)). ring.
      Qed.
      Lemma Derive_psi r : Derive psi r = dpsi r.
      Proof. apply is_derive_unique. apply psi_is_derive. Qed.

      Lemma dpsi_is_derive r : is_derive dpsi r (ddpsi r).
      Proof.
        unfold dpsi, ddpsi.
        pose proof (line_is_derive kt _ _ _ r (Hkt _ _ _)) as H1.
        pose proof (line_is_derive kx _ _ _ r (Hkx _ _ _)) as H2.
        pose proof (line_is_derive ky _ _ _ r (Hky _ _ _)) as H3.
        evar_last.
        apply (is_derive_plus
                 (fun r => c * kt (ct r) (cx r) (cy r) + d * kx (ct r) (cx r) (cy r))
                 (fun r => e * ky (ct r) (cx r) (cy r))).
        apply (is_derive_plus (fun r => c * kt (ct r) (cx r) (cy r))
                              (fun r => d * kx (ct r) (cx r) (cy r))).
        apply (is_derive_scal (fun r => kt (ct r) (cx r) (cy r)) r c). exact H1.
        apply (is_derive_scal (fun r => kx (ct r) (cx r) (cy r)) r d). exact H2.
        apply (is_derive_scal (fun r => ky (ct r) (cx r) (cy r)) r e). exact H3.
        unfold plus; simpl. ring.
      Qed.
      Lemma Derive2_psi r : Derive_n psi 2 r = ddpsi r.
      Proof.
        change (Derive_n psi 2 r) with (Derive (Derive psi) r).
        rewrite (Derive_ext _ dpsi r Derive_psi). apply is_derive_unique. apply dpsi_is_derive.
      Qed.

      Lemma ddpsi_bound r : Rabs (ddpsi r) <= c ^ 2 * N2.
      Proof.
        unfold ddpsi, N2c.
        assert (Hcc : Rabs c <= c) by (rewrite Rabs_pos_eq by exact Hc; lra).
        eapply Rle_trans. apply Rabs_triang3.
        - apply Rabs_mult_le. exact Hcc. apply Rabs_triang3.
          apply Rabs_mult_le. apply HKtt. exact Hcc.
          apply Rabs_mult_le. apply HKtx. exact Hd.
          apply Rabs_mult_le. apply HKty. exact He.
        - apply Rabs_mult_le. exact Hd. apply Rabs_triang3.
          apply Rabs_mult_le. apply HKxt. exact Hcc.
          apply Rabs_mult_le. apply HKxx. exact Hd.
          apply Rabs_mult_le. apply HKxy. exact He.
        - apply Rabs_mult_le. exact He. apply Rabs_triang3.
          apply Rabs_mult_le. apply HKyt. exact Hcc.
          apply Rabs_mult_le. apply HKyx. exact Hd.
          apply Rabs_mult_le. apply HKyy. exact He.
        - apply Req_le. ring.
      Qed.

      Lemma taylor1_k :
        Rabs (k (s + c) (p + d) (q + e) - k s p q - (c * kt s p q + d * kx s p q + e * ky s p q))
          <= c ^ 2 * N2 / 2.
      Proof.
        destruct (Taylor_Lagrange psi 1 0 1 ltac:(lra)) as (z & Hz & E).
        { intros t Ht j Hj.
          destruct j as [|[|[|j]]]; [exact I | | | lia].
          - exists (dpsi t). apply psi_is_derive.
          - apply (ex_derive_ext dpsi). intros u. symmetry. apply Derive_psi.
            exists (ddpsi t). apply dpsi_is_derive. }
        assert (E2 : k (s + c) (p + d) (q + e) - k s p q
                     - (c * kt s p q + d * kx s p q + e * ky s p q) = / 2 * ddpsi z).
        { replace (k (s + c) (p + d) (q + e)) with (psi 1)
            by (unfold psi, ct, cx, cy; f_equal; ring).
          rewrite E. cbn [sum_f_R0]. rewrite Derive2_psi.
          change (Derive_n psi 0 0) with (psi 0). change (Derive_n psi 1 0) with (Derive psi 0).
          rewrite Derive_psi. unfold psi, dpsi, ct, cx, cy.
          replace (s + 0 * c) with s by ring. replace (p + 0 * d) with p by ring.
          replace (q + 0 * e) with q by ring.
          generalize (ddpsi z) (kt s p q) (kx s p q) (ky s p q) (k s p q).
          intros d2 d1t d1x d1y d0. simpl. field. }
        rewrite E2. rewrite Rabs_mult, Rabs_pos_eq by lra.
        pose proof (ddpsi_bound z). lra.
      Qed.
    End TaylorK.

    (** ** the exact solution on an open interval (a, b); Z is the component with Z' = k *)
    Section SolutionOpen.
      Variables X Y Z : R -> R.
      Variables a b : R.
      Hypothesis HodeX : forall t, a < t < b -> is_derive X t (U t (X t) (Y t)).
      Hypothesis HodeY : forall t, a < t < b -> is_derive Y t (V t (X t) (Y t)).
      Hypothesis HodeZ : forall t, a < t < b -> is_derive Z t (k t (X t) (Y t)).

      Notation "g @ t" := (g t%R (X t%R) (Y t%R)) (at level 9, only parsing).

      Definition U2 (t : R) : R := Ut@t + Ux@t * U@t + Uy@t * V@t.
      Definition V2 (t : R) : R := Vt@t + Vx@t * U@t + Vy@t * V@t.
      Definition Z2 (t : R) : R := kt@t + kx@t * U@t + ky@t * V@t.
      Definition Z3 (t : R) : R :=
        (ktt@t + ktx@t * U@t + kty@t * V@t)
        + ((kxt@t + kxx@t * U@t + kxy@t * V@t) * U@t + kx@t * U2 t)
        + ((kyt@t + kyx@t * U@t + kyy@t * V@t) * V@t + ky@t * V2 t).

      Lemma csol_Derive t : a < t < b -> Derive Z t = k@t.
      Proof. intros Ht. apply is_derive_unique. apply HodeZ. exact Ht. Qed.

      Lemma csol_locally t (P : R -> Prop) : a < t < b ->
        (forall s, a < s < b -> P s) -> locally t P.
      Proof.
        intros Ht HP. apply (locally_interval P t a b); simpl; try lra.
        intros s Hs1 Hs2. apply HP. simpl in *. lra.
      Qed.

      Lemma along_sol (g : R -> R -> R -> R) (gt gx gy : R) t : a < t < b ->
        D3 g t (X t) (Y t) gt gx gy ->
        is_derive (fun s => g@s) t (gt + gx * U@t + gy * V@t).
      Proof.
        intros Ht Hg. apply (along_pt g X Y t gt gx gy _ _ Hg).
        apply HodeX. exact Ht. apply HodeY. exact Ht.
      Qed.

      Lemma U_along t : a < t < b -> is_derive (fun s => U@s) t (U2 t).
      Proof. intros Ht. apply (along_sol U). exact Ht. apply HU. Qed.
      Lemma V_along t : a < t < b -> is_derive (fun s => V@s) t (V2 t).
      Proof. intros Ht. apply (along_sol V). exact Ht. apply HV. Qed.
      Lemma k_along t : a < t < b -> is_derive (fun s => k@s) t (Z2 t).
      Proof. intros Ht. apply (along_sol k). exact Ht. apply Hk. Qed.

      Lemma csol_d1_is_derive t : a < t < b -> is_derive (Derive Z) t (Z2 t).
      Proof.
        intros Ht. apply (is_derive_ext_loc (fun s => k@s)).
        - apply csol_locally. exact Ht. intros s Hs. symmetry. apply csol_Derive. exact Hs.
        - apply k_along. exact Ht.
      Qed.
      Lemma csol_Derive2 t : a < t < b -> Derive_n Z 2 t = Z2 t.
      Proof.
        intros Ht. change (Derive_n Z 2 t) with (Derive (Derive Z) t).
        apply is_derive_unique. apply csol_d1_is_derive. exact Ht.
      Qed.

      Lemma Z2_is_derive t : a < t < b -> is_derive Z2 t (Z3 t).
      Proof.
        intros Ht. unfold Z2.
        pose proof (along_sol kt _ _ _ t Ht (Hkt _ _ _)) as H1.
        pose proof (along_sol kx _ _ _ t Ht (Hkx _ _ _)) as H2.
        pose proof (along_sol ky _ _ _ t Ht (Hky _ _ _)) as H3.
        pose proof (U_along t Ht) as H4. pose proof (V_along t Ht) as H5.
        evar_last.
        apply (is_derive_plus (fun s => kt@s + kx@s * U@s) (fun s => ky@s * V@s)).
        apply (is_derive_plus (fun s => kt@s) (fun s => kx@s * U@s)).
        exact H1.
        apply (is_derive_mult (fun s => kx@s) (fun s => U@s) t _ _ H2 H4).
        intros u v. apply Rmult_comm.
        apply (is_derive_mult (fun s => ky@s) (fun s => V@s) t _ _ H3 H5).
        intros u v. apply Rmult_comm.
        unfold plus, mult; simpl. unfold Z3. ring.
      Qed.

      Lemma csol_d2_is_derive t : a < t < b -> is_derive (Derive_n Z 2) t (Z3 t).
      Proof.
        intros Ht. apply (is_derive_ext_loc Z2).
        - apply csol_locally. exact Ht. intros s Hs. symmetry. apply csol_Derive2. exact Hs.
        - apply Z2_is_derive. exact Ht.
      Qed.
      Lemma csol_Derive3 t : a < t < b -> Derive_n Z 3 t = Z3 t.
      Proof.
        intros Ht. change (Derive_n Z 3 t) with (Derive (Derive_n Z 2) t).
        apply is_derive_unique. apply csol_d2_is_derive. exact Ht.
      Qed.

      Lemma U2_bound t : Rabs (U2 t) <= DU.
      Proof.
        unfold U2, Dc. apply Rabs_triang3. apply HAt.
        apply Rabs_mult_le. apply HAx. apply HA0. apply Rabs_mult_le. apply HAy. apply HB0.
      Qed.
      Lemma V2_bound t : Rabs (V2 t) <= DV.
      Proof.
        unfold V2, Dc. apply Rabs_triang3. apply HBt.
        apply Rabs_mult_le. apply HBx. apply HA0. apply Rabs_mult_le. apply HBy. apply HB0.
      Qed.

      Lemma Z3_bound t : Rabs (Z3 t) <= M3.
      Proof.
        unfold Z3.
        eapply Rle_trans. apply Rabs_triang3.
        - apply Rabs_triang3. apply HKtt.
          apply Rabs_mult_le. apply HKtx. apply HA0. apply Rabs_mult_le. apply HKty. apply HB0.
        - eapply Rle_trans. apply Rabs_triang. apply Rplus_le_compat.
          + apply Rabs_mult_le; [|apply HA0]. apply Rabs_triang3. apply HKxt.
            apply Rabs_mult_le. apply HKxx. apply HA0. apply Rabs_mult_le. apply HKxy. apply HB0.
          + apply Rabs_mult_le. apply HKx. apply U2_bound.
        - eapply Rle_trans. apply Rabs_triang. apply Rplus_le_compat.
          + apply Rabs_mult_le; [|apply HB0]. apply Rabs_triang3. apply HKyt.
            apply Rabs_mult_le. apply HKyx. apply HA0. apply Rabs_mult_le. apply HKyy. apply HB0.
          + apply Rabs_mult_le. apply HKy. apply V2_bound.
        - apply Req_le. unfold M3c, N2c. ring.
      Qed.

      Lemma taylor3_Z s h : 0 < h -> a < s -> s + h < b ->
        Rabs (Z (s + h) - Z s - h * k@s - h ^ 2 / 2 * Z2 s) <= M3 * h ^ 3 / 6.
      Proof.
        intros Hh Ha Hb.
        destruct (Taylor_Lagrange Z 2 s (s + h) ltac:(lra)) as (c & Hc & E).
        { intros t Ht j Hj.
          assert (Ht' : a < t < b) by lra.
          destruct j as [|[|[|[|j]]]]; [exact I | | | | lia].
          - exists (k@t). apply HodeZ. exact Ht'.
          - exists (Z2 t). apply csol_d1_is_derive. exact Ht'.
          - exists (Z3 t). apply csol_d2_is_derive. exact Ht'. }
        assert (E2 : Z (s + h) - Z s - h * k@s - h ^ 2 / 2 * Z2 s = h ^ 3 / 6 * Z3 c).
        { rewrite E. replace (s + h - s) with h by ring. cbn [sum_f_R0].
          rewrite csol_Derive3, csol_Derive2 by lra.
          change (Derive_n Z 0 s) with (Z s). change (Derive_n Z 1 s) with (Derive Z s).
          rewrite csol_Derive by lra.
          generalize (Z3 c) (Z2 s) (k@s) (Z s). intros d3 d2 d1 d0. simpl. field. }
        rewrite E2. rewrite Rabs_mult, Rabs_pos_eq.
        - pose proof (Z3_bound c) as H.
          assert (0 <= h ^ 3 / 6) by (pose proof (pow_le h 3 (Rlt_le _ _ Hh)); lra).
          replace (M3 * h ^ 3 / 6) with (h ^ 3 / 6 * M3) by field.
          apply Rmult_le_compat_l; assumption.
        - pose proof (pow_le h 3 (Rlt_le _ _ Hh)); lra.
      Qed.

      (** LOCAL TRUNCATION ERROR of the Z-component of the explicit midpoint step *)
      Theorem component_truncation_open s h : 0 < h -> a < s -> s + h < b ->
        Rabs (Z (s + h) - Z s
              - h * k (s + h / 2) (X s + h / 2 * U@s) (Y s + h / 2 * V@s)) <= CC * h ^ 3.
      Proof.
        intros Hh Ha Hb.
        pose proof (taylor3_Z s h Hh Ha Hb) as H1.
        set (p := X s) in *. set (q := Y s) in *.
        set (u0 := U s p q) in *. set (v0 := V s p q) in *.
        assert (Hd : Rabs (h / 2 * u0) <= h / 2 * A0).
        { rewrite Rabs_mult, Rabs_pos_eq by lra. apply Rmult_le_compat_l. lra. apply HA0. }
        assert (He : Rabs (h / 2 * v0) <= h / 2 * B0).
        { rewrite Rabs_mult, Rabs_pos_eq by lra. apply Rmult_le_compat_l. lra. apply HB0. }
        pose proof (taylor1_k s p q (h / 2) (h / 2 * u0) (h / 2 * v0) ltac:(lra) Hd He) as H2.
        set (km := k (s + h / 2) (p + h / 2 * u0) (q + h / 2 * v0)) in *.
        replace (Z (s + h) - Z s - h * km)
          with ((Z (s + h) - Z s - h * k s p q - h ^ 2 / 2 * Z2 s)
                + - (h * (km - k s p q
                          - (h / 2 * kt s p q + h / 2 * u0 * kx s p q + h / 2 * v0 * ky s p q))))
          by (unfold Z2; fold p; fold q; fold u0; fold v0; field).
        eapply Rle_trans. apply Rabs_triang. rewrite Rabs_Ropp, Rabs_mult, (Rabs_pos_eq h) by lra.
        assert (H5 : h * Rabs (km - k s p q
                          - (h / 2 * kt s p q + h / 2 * u0 * kx s p q + h / 2 * v0 * ky s p q))
                     <= h * ((h / 2) ^ 2 * N2 / 2))
          by (apply Rmult_le_compat_l; [lra | exact H2]).
        unfold Cc. apply Rle_trans with (M3 * h ^ 3 / 6 + h * ((h / 2) ^ 2 * N2 / 2)).
        lra. apply Req_le. field.
      Qed.
    End SolutionOpen.

    (** ** the exact solution on a CLOSED interval [t0, t0 + T]: end steps by continuity *)
    Section SolutionClosed.
      Variables X Y Z : R -> R.
      Variables t0 T : R.
      Hypothesis HodeX : forall t, t0 <= t <= t0 + T -> is_derive X t (U t (X t) (Y t)).
      Hypothesis HodeY : forall t, t0 <= t <= t0 + T -> is_derive Y t (V t (X t) (Y t)).
      Hypothesis HodeZ : forall t, t0 <= t <= t0 + T -> is_derive Z t (k t (X t) (Y t)).

      Section ShrinkC.
        Variables s h : R.
        Hypothesis Hh : 0 < h.
        Hypothesis Hs0 : t0 <= s.
        Hypothesis Hs1 : s + h <= t0 + T.

        (** the local error of the step shrunk by eps at both ends *)
        Definition cshrunk (eps : R) : R :=
          Z (s + h - eps) - Z (s + eps)
          - (h - 2 * eps)
            * k (s + h / 2)
                (X (s + eps) + (h - 2 * eps) / 2 * U (s + eps) (X (s + eps)) (Y (s + eps)))
                (Y (s + eps) + (h - 2 * eps) / 2 * V (s + eps) (X (s + eps)) (Y (s + eps))).

        Lemma cshrunk_0 :
          cshrunk 0 = Z (s + h) - Z s
                      - h * k (s + h / 2) (X s + h / 2 * U s (X s) (Y s))
                                          (Y s + h / 2 * V s (X s) (Y s)).
        Proof.
          unfold cshrunk.
          replace (s + h - 0) with (s + h) by ring. replace (s + 0) with s by ring.
          replace (h - 2 * 0) with h by ring. reflexivity.
        Qed.

        Lemma cshrunk_bound eps : 0 < eps < h / 2 -> Rabs (cshrunk eps) <= CC * h ^ 3.
        Proof.
          intros He.
          pose proof (component_truncation_open X Y Z t0 (t0 + T)
                        (fun t Ht => HodeX t (conj (Rlt_le _ _ (proj1 Ht)) (Rlt_le _ _ (proj2 Ht))))
                        (fun t Ht => HodeY t (conj (Rlt_le _ _ (proj1 Ht)) (Rlt_le _ _ (proj2 Ht))))
                        (fun t Ht => HodeZ t (conj (Rlt_le _ _ (proj1 Ht)) (Rlt_le _ _ (proj2 Ht))))
                        (s + eps) (h - 2 * eps) ltac:(lra) ltac:(lra) ltac:(lra)) as H.
          replace (s + eps + (h - 2 * eps)) with (s + h - eps) in H by ring.
          replace (s + eps + (h - 2 * eps) / 2) with (s + h / 2) in H by field.
          eapply Rle_trans. exact H.
          apply Rmult_le_compat_l. apply cCC_nonneg.
          apply pow_incr. lra.
        Qed.

        Lemma cshrunk_ex_derive : ex_derive cshrunk 0.
        Proof.
          assert (Hs : t0 <= s <= t0 + T) by lra.
          assert (HX : ex_derive X s) by (eexists; apply HodeX; exact Hs).
          assert (HY : ex_derive Y s) by (eexists; apply HodeY; exact Hs).
          assert (HUU : ex_derive (fun r => U r (X r) (Y r)) s).
          { eexists. eapply (along_pt U X Y s). apply HU.
            apply HodeX; exact Hs. apply HodeY; exact Hs. }
          assert (HVV : ex_derive (fun r => V r (X r) (Y r)) s).
          { eexists. eapply (along_pt V X Y s). apply HV.
            apply HodeX; exact Hs. apply HodeY; exact Hs. }
          pose proof (stage_ex_derive X (fun r => U r (X r) (Y r)) s h HX HUU) as HP.
          pose proof (stage_ex_derive Y (fun r => V r (X r) (Y r)) s h HY HVV) as HQ.
          apply Derive_correct in HP. apply Derive_correct in HQ.
          unfold cshrunk.
          apply (shrunk3_ex_derive Z
                   (fun e => k (s + h / 2)
                      (X (s + e) + (h - 2 * e) / 2 * U (s + e) (X (s + e)) (Y (s + e)))
                      (Y (s + e) + (h - 2 * e) / 2 * V (s + e) (X (s + e)) (Y (s + e)))) s h).
          - eexists. apply HodeZ. exact Hs.
          - eexists. apply HodeZ. lra.
          - eexists.
            eapply (D3_chain k (fun _ => s + h / 2)
                     (fun e => X (s + e) + (h - 2 * e) / 2 * U (s + e) (X (s + e)) (Y (s + e)))
                     (fun e => Y (s + e) + (h - 2 * e) / 2 * V (s + e) (X (s + e)) (Y (s + e)))
                     0).
            apply Hk. apply is_derive_const_R. exact HP. exact HQ.
        Qed.

        Lemma closed_component_bound :
          Rabs (Z (s + h) - Z s
                - h * k (s + h / 2) (X s + h / 2 * U s (X s) (Y s))
                                    (Y s + h / 2 * V s (X s) (Y s))) <= CC * h ^ 3.
        Proof.
          rewrite <- cshrunk_0.
          apply (bound_by_shrinking cshrunk h). exact Hh. exact cshrunk_ex_derive.
          exact cshrunk_bound.
        Qed.
      End ShrinkC.
    End SolutionClosed.
  End Component.
End Core.

(** * Part 2: both components; the step in the plane *)
(** the explicit constant: [A..] bound U and its partial derivatives, [B..] those of V *)
Definition C_RK2_x (A0 At Ax Ay B0 Bt Bx By Att Atx Aty Axt Axx Axy Ayt Ayx Ayy : R) : R :=
  Cc (N2c A0 B0 Att Atx Aty Axt Axx Axy Ayt Ayx Ayy) Ax Ay (Dc A0 B0 At Ax Ay) (Dc A0 B0 Bt Bx By).
Definition C_RK2_y (A0 At Ax Ay B0 Bt Bx By Btt Btx Bty Bxt Bxx Bxy Byt Byx Byy : R) : R :=
  Cc (N2c A0 B0 Btt Btx Bty Bxt Bxx Bxy Byt Byx Byy) Bx By (Dc A0 B0 At Ax Ay) (Dc A0 B0 Bt Bx By).
Definition C_RK2_2d (A0 At Ax Ay B0 Bt Bx By
                     Att Atx Aty Axt Axx Axy Ayt Ayx Ayy
                     Btt Btx Bty Bxt Bxx Bxy Byt Byx Byy : R) : R :=
  Rmax (C_RK2_x A0 At Ax Ay B0 Bt Bx By Att Atx Aty Axt Axx Axy Ayt Ayx Ayy)
       (C_RK2_y A0 At Ax Ay B0 Bt Bx By Btt Btx Bty Bxt Bxx Bxy Byt Byx Byy).
(** Lipschitz constant of the field in the max-norm *)
Definition L_2d (Ax Ay Bx By : R) : R := Rmax (Ax + Ay) (Bx + By).

(** a function with bounded x- and y-derivatives is Lipschitz in (x, y) *)
Lemma D3_lipschitz (k kt kx ky : R -> R -> R -> R) (Kx Ky : R) :
  (forall t x y, D3 k t x y (kt t x y) (kx t x y) (ky t x y)) ->
  (forall t x y, Rabs (kx t x y) <= Kx) -> (forall t x y, Rabs (ky t x y) <= Ky) ->
  forall t x y x' y',
    Rabs (k t x y - k t x' y') <= Kx * Rabs (x - x') + Ky * Rabs (y - y').
Proof.
  intros Hk HKx HKy t x y x' y'.
  assert (H1 : Rabs (k t x y - k t x' y) <= Kx * Rabs (x - x')).
  { apply (bounded_variation (fun s => k t s y) (fun s => kx t s y)).
    intros s _. split. apply (D3_partial_x k t s y _ _ _ (Hk t s y)). apply HKx. }
  assert (H2 : Rabs (k t x' y - k t x' y') <= Ky * Rabs (y - y')).
  { apply (bounded_variation (fun s => k t x' s) (fun s => ky t x' s)).
    intros s _. split. apply (D3_partial_y k t x' s _ _ _ (Hk t x' s)). apply HKy. }
  replace (k t x y - k t x' y') with ((k t x y - k t x' y) + (k t x' y - k t x' y')) by ring.
  eapply Rle_trans. apply Rabs_triang. lra.
Qed.

(** the field of the plane with components u, v *)
Definition field2 (u v : R -> R -> R -> R) : R -> pt -> pt :=
  fun t p => (u t (fst p) (snd p), v t (fst p) (snd p)).

Lemma field2_lipschitz (u ut ux uy v vt vx vy : R -> R -> R -> R) (Ax Ay Bx By : R) :
  (forall t x y, D3 u t x y (ut t x y) (ux t x y) (uy t x y)) ->
  (forall t x y, D3 v t x y (vt t x y) (vx t x y) (vy t x y)) ->
  (forall t x y, Rabs (ux t x y) <= Ax) -> (forall t x y, Rabs (uy t x y) <= Ay) ->
  (forall t x y, Rabs (vx t x y) <= Bx) -> (forall t x y, Rabs (vy t x y) <= By) ->
  forall t p q,
    norm2 (psub (field2 u v t p) (field2 u v t q)) <= L_2d Ax Ay Bx By * norm2 (psub p q).
Proof.
  intros Hu Hv HAx HAy HBx HBy t p q.
  pose proof (D3_lipschitz u ut ux uy Ax Ay Hu HAx HAy t (fst p) (snd p) (fst q) (snd q)) as H1.
  pose proof (D3_lipschitz v vt vx vy Bx By Hv HBx HBy t (fst p) (snd p) (fst q) (snd q)) as H2.
  pose proof (norm2_fst (psub p q)) as N1. pose proof (norm2_snd (psub p q)) as N2.
  cbn [psub fst snd] in N1, N2.
  pose proof (norm2_nonneg (psub p q)) as N0.
  set (d := norm2 (psub p q)) in *.
  assert (PAx : 0 <= Ax) by (eapply Rle_trans; [apply Rabs_pos | apply (HAx 0 0 0)]).
  assert (PAy : 0 <= Ay) by (eapply Rle_trans; [apply Rabs_pos | apply (HAy 0 0 0)]).
  assert (PBx : 0 <= Bx) by (eapply Rle_trans; [apply Rabs_pos | apply (HBx 0 0 0)]).
  assert (PBy : 0 <= By) by (eapply Rle_trans; [apply Rabs_pos | apply (HBy 0 0 0)]).
  pose proof (Rmax_l (Ax + Ay) (Bx + By)) as M1. pose proof (Rmax_r (Ax + Ay) (Bx + By)) as M2.
  unfold L_2d.
  assert (E1 : Ax * Rabs (fst p - fst q) <= Ax * d) by (apply Rmult_le_compat_l; assumption).
  assert (E2 : Ay * Rabs (snd p - snd q) <= Ay * d) by (apply Rmult_le_compat_l; assumption).
  assert (E3 : Bx * Rabs (fst p - fst q) <= Bx * d) by (apply Rmult_le_compat_l; assumption).
  assert (E4 : By * Rabs (snd p - snd q) <= By * d) by (apply Rmult_le_compat_l; assumption).
  assert (E5 : (Ax + Ay) * d <= Rmax (Ax + Ay) (Bx + By) * d)
    by (apply Rmult_le_compat_r; assumption).
  assert (E6 : (Bx + By) * d <= Rmax (Ax + Ay) (Bx + By) * d)
    by (apply Rmult_le_compat_r; assumption).
  apply norm2_lub; unfold field2; cbn [psub fst snd]; lra.
Qed.

Section Both.
  Variables U Ut Ux Uy Utt Utx Uty Uxt Uxx Uxy Uyt Uyx Uyy : R -> R -> R -> R.
  Variables V Vt Vx Vy Vtt Vtx Vty Vxt Vxx Vxy Vyt Vyx Vyy : R -> R -> R -> R.
  Variables A0 At Ax Ay Att Atx Aty Axt Axx Axy Ayt Ayx Ayy : R.
  Variables B0 Bt Bx By Btt Btx Bty Bxt Bxx Bxy Byt Byx Byy : R.
  Hypothesis HU : forall t x y, D3 U t x y (Ut t x y) (Ux t x y) (Uy t x y).
  Hypothesis HUt : forall t x y, D3 Ut t x y (Utt t x y) (Utx t x y) (Uty t x y).
  Hypothesis HUx : forall t x y, D3 Ux t x y (Uxt t x y) (Uxx t x y) (Uxy t x y).
  Hypothesis HUy : forall t x y, D3 Uy t x y (Uyt t x y) (Uyx t x y) (Uyy t x y).
  Hypothesis HV : forall t x y, D3 V t x y (Vt t x y) (Vx t x y) (Vy t x y).
  Hypothesis HVt : forall t x y, D3 Vt t x y (Vtt t x y) (Vtx t x y) (Vty t x y).
  Hypothesis HVx : forall t x y, D3 Vx t x y (Vxt t x y) (Vxx t x y) (Vxy t x y).
  Hypothesis HVy : forall t x y, D3 Vy t x y (Vyt t x y) (Vyx t x y) (Vyy t x y).
  Hypothesis HA0 : forall t x y, Rabs (U t x y) <= A0.
  Hypothesis HAt : forall t x y, Rabs (Ut t x y) <= At.
  Hypothesis HAx : forall t x y, Rabs (Ux t x y) <= Ax.
  Hypothesis HAy : forall t x y, Rabs (Uy t x y) <= Ay.
  Hypothesis HAtt : forall t x y, Rabs (Utt t x y) <= Att.
  Hypothesis HAtx : forall t x y, Rabs (Utx t x y) <= Atx.
  Hypothesis HAty : forall t x y, Rabs (Uty t x y) <= Aty.
  Hypothesis HAxt : forall t x y, Rabs (Uxt t x y) <= Axt.
  Hypothesis HAxx : forall t x y, Rabs (Uxx t x y) <= Axx.
  Hypothesis HAxy : forall t x y, Rabs (Uxy t x y) <= Axy.
  Hypothesis HAyt : forall t x y, Rabs (Uyt t x y) <= Ayt.
  Hypothesis HAyx : forall t x y, Rabs (Uyx t x y) <= Ayx.
  Hypothesis HAyy : forall t x y, Rabs (Uyy t x y) <= Ayy.
  Hypothesis HB0 : forall t x y, Rabs (V t x y) <= B0.
  Hypothesis HBt : forall t x y, Rabs (Vt t x y) <= Bt.
  Hypothesis HBx : forall t x y, Rabs (Vx t x y) <= Bx.
  Hypothesis HBy : forall t x y, Rabs (Vy t x y) <= By.
  Hypothesis HBtt : forall t x y, Rabs (Vtt t x y) <= Btt.
  Hypothesis HBtx : forall t x y, Rabs (Vtx t x y) <= Btx.
  Hypothesis HBty : forall t x y, Rabs (Vty t x y) <= Bty.
  Hypothesis HBxt : forall t x y, Rabs (Vxt t x y) <= Bxt.
  Hypothesis HBxx : forall t x y, Rabs (Vxx t x y) <= Bxx.
  Hypothesis HBxy : forall t x y, Rabs (Vxy t x y) <= Bxy.
  Hypothesis HByt : forall t x y, Rabs (Vyt t x y) <= Byt.
  Hypothesis HByx : forall t x y, Rabs (Vyx t x y) <= Byx.
  Hypothesis HByy : forall t x y, Rabs (Vyy t x y) <= Byy.

  Notation CX := (C_RK2_x A0 At Ax Ay B0 Bt Bx By Att Atx Aty Axt Axx Axy Ayt Ayx Ayy).
  Notation CY := (C_RK2_y A0 At Ax Ay B0 Bt Bx By Btt Btx Bty Bxt Bxx Bxy Byt Byx Byy).
  Notation C2 := (C_RK2_2d A0 At Ax Ay B0 Bt Bx By Att Atx Aty Axt Axx Axy Ayt Ayx Ayy
                           Btt Btx Bty Bxt Bxx Bxy Byt Byx Byy).

  Lemma CX_nonneg : 0 <= CX.
  Proof.
    exact (cCC_nonneg U V Ut Ux Uy Vt Vx Vy A0 At Ax Ay B0 Bt Bx By
             HA0 HAt HAx HAy HB0 HBt HBx HBy
             Ux Uy Utt Utx Uty Uxt Uxx Uxy Uyt Uyx Uyy Ax Ay Att Atx Aty Axt Axx Axy Ayt Ayx Ayy
             HAx HAy HAtt HAtx HAty HAxt HAxx HAxy HAyt HAyx HAyy).
  Qed.
  Lemma CY_nonneg : 0 <= CY.
  Proof.
    exact (cCC_nonneg U V Ut Ux Uy Vt Vx Vy A0 At Ax Ay B0 Bt Bx By
             HA0 HAt HAx HAy HB0 HBt HBx HBy
             Vx Vy Vtt Vtx Vty Vxt Vxx Vxy Vyt Vyx Vyy Bx By Btt Btx Bty Bxt Bxx Bxy Byt Byx Byy
             HBx HBy HBtt HBtx HBty HBxt HBxx HBxy HByt HByx HByy).
  Qed.
  Lemma C2_nonneg : 0 <= C2.
  Proof. unfold C_RK2_2d. eapply Rle_trans. apply CX_nonneg. apply Rmax_l. Qed.

  Section SolutionBoth.
    Variables X Y : R -> R.
    Variables t0 T : R.
    Hypothesis HodeX : forall t, t0 <= t <= t0 + T -> is_derive X t (U t (X t) (Y t)).
    Hypothesis HodeY : forall t, t0 <= t <= t0 + T -> is_derive Y t (V t (X t) (Y t)).

    (** LOCAL TRUNCATION ERROR of the explicit midpoint step, both components *)
    Theorem RK2_x_truncation s h : 0 < h -> t0 <= s -> s + h <= t0 + T ->
      Rabs (X (s + h) - X s
            - h * U (s + h / 2) (X s + h / 2 * U s (X s) (Y s)) (Y s + h / 2 * V s (X s) (Y s)))
        <= CX * h ^ 3.
    Proof.
      exact (closed_component_bound U V Ut Ux Uy Vt Vx Vy HU HV A0 At Ax Ay B0 Bt Bx By
               HA0 HAt HAx HAy HB0 HBt HBx HBy
               U Ut Ux Uy Utt Utx Uty Uxt Uxx Uxy Uyt Uyx Uyy HU HUt HUx HUy
               Ax Ay Att Atx Aty Axt Axx Axy Ayt Ayx Ayy
               HAx HAy HAtt HAtx HAty HAxt HAxx HAxy HAyt HAyx HAyy
               X Y X t0 T HodeX HodeY HodeX s h).
    Qed.
    Theorem RK2_y_truncation s h : 0 < h -> t0 <= s -> s + h <= t0 + T ->
      Rabs (Y (s + h) - Y s
            - h * V (s + h / 2) (X s + h / 2 * U s (X s) (Y s)) (Y s + h / 2 * V s (X s) (Y s)))
        <= CY * h ^ 3.
    Proof.
      exact (closed_component_bound U V Ut Ux Uy Vt Vx Vy HU HV A0 At Ax Ay B0 Bt Bx By
               HA0 HAt HAx HAy HB0 HBt HBx HBy
               V Vt Vx Vy Vtt Vtx Vty Vxt Vxx Vxy Vyt Vyx Vyy HV HVt HVx HVy
               Bx By Btt Btx Bty Bxt Bxx Bxy Byt Byx Byy
               HBx HBy HBtt HBtx HBty HBxt HBxx HBxy HByt HByx HByy
               X Y Y t0 T HodeX HodeY HodeY s h).
    Qed.

    Theorem RK2_xy_truncation s h : 0 < h -> t0 <= s -> s + h <= t0 + T ->
      Rmax (Rabs (X (s + h) - X s
                  - h * U (s + h / 2) (X s + h / 2 * U s (X s) (Y s))
                                      (Y s + h / 2 * V s (X s) (Y s))))
           (Rabs (Y (s + h) - Y s
                  - h * V (s + h / 2) (X s + h / 2 * U s (X s) (Y s))
                                      (Y s + h / 2 * V s (X s) (Y s))))
        <= C2 * h ^ 3.
    Proof.
      intros Hh H0 H1.
      pose proof (RK2_x_truncation s h Hh H0 H1) as Ex.
      pose proof (RK2_y_truncation s h Hh H0 H1) as Ey.
      assert (H3 : 0 <= h ^ 3) by (apply pow_le; lra).
      unfold C_RK2_2d.
      apply Rmax_lub.
      - eapply Rle_trans. exact Ex. apply Rmult_le_compat_r. exact H3. apply Rmax_l.
      - eapply Rle_trans. exact Ey. apply Rmult_le_compat_r. exact H3. apply Rmax_r.
    Qed.
  End SolutionBoth.
End Both.

(** * Part 3: the midpoint scheme of GeneralConvergence2DProofs.v (steps hx, hy in the two
    coordinates, time increment ht) on the field (u, v); it integrates
    x' = hx/ht * u (t, x, y), y' = hy/ht * v (t, x, y) *)
Ltac feed H tac :=
  match type of H with
  | ?P -> _ => let HP := fresh "HP" in assert (HP : P); [ tac | specialize (H HP); clear HP ]
  end.

(** the constant for metric factors a = hx/ht, b = hy/ht: all bounds of u are scaled by a,
    all bounds of v by b *)
Definition C_RK2_2d_metric (a b A0 At Ax Ay B0 Bt Bx By
                            Att Atx Aty Axt Axx Axy Ayt Ayx Ayy
                            Btt Btx Bty Bxt Bxx Bxy Byt Byx Byy : R) : R :=
  C_RK2_2d (a * A0) (a * At) (a * Ax) (a * Ay) (b * B0) (b * Bt) (b * Bx) (b * By)
           (a * Att) (a * Atx) (a * Aty) (a * Axt) (a * Axx) (a * Axy) (a * Ayt) (a * Ayx) (a * Ayy)
           (b * Btt) (b * Btx) (b * Bty) (b * Bxt) (b * Bxx) (b * Bxy) (b * Byt) (b * Byx) (b * Byy).

Lemma C_RK2_2d_metric_1 A0 At Ax Ay B0 Bt Bx By Att Atx Aty Axt Axx Axy Ayt Ayx Ayy
                        Btt Btx Bty Bxt Bxx Bxy Byt Byx Byy :
  C_RK2_2d_metric 1 1 A0 At Ax Ay B0 Bt Bx By Att Atx Aty Axt Axx Axy Ayt Ayx Ayy
                  Btt Btx Bty Bxt Bxx Bxy Byt Byx Byy
  = C_RK2_2d A0 At Ax Ay B0 Bt Bx By Att Atx Aty Axt Axx Axy Ayt Ayx Ayy
             Btt Btx Bty Bxt Bxx Bxy Byt Byx Byy.
Proof. unfold C_RK2_2d_metric. rewrite !Rmult_1_l. reflexivity. Qed.

Section Plane.
  Variables u ut ux uy utt utx uty uxt uxx uxy uyt uyx uyy : R -> R -> R -> R.
  Variables v vt vx vy vtt vtx vty vxt vxx vxy vyt vyx vyy : R -> R -> R -> R.
  Variables A0 At Ax Ay Att Atx Aty Axt Axx Axy Ayt Ayx Ayy : R.
  Variables B0 Bt Bx By Btt Btx Bty Bxt Bxx Bxy Byt Byx Byy : R.
  Hypothesis Hu : forall t x y, D3 u t x y (ut t x y) (ux t x y) (uy t x y).
  Hypothesis Hut : forall t x y, D3 ut t x y (utt t x y) (utx t x y) (uty t x y).
  Hypothesis Hux : forall t x y, D3 ux t x y (uxt t x y) (uxx t x y) (uxy t x y).
  Hypothesis Huy : forall t x y, D3 uy t x y (uyt t x y) (uyx t x y) (uyy t x y).
  Hypothesis Hv : forall t x y, D3 v t x y (vt t x y) (vx t x y) (vy t x y).
  Hypothesis Hvt : forall t x y, D3 vt t x y (vtt t x y) (vtx t x y) (vty t x y).
  Hypothesis Hvx : forall t x y, D3 vx t x y (vxt t x y) (vxx t x y) (vxy t x y).
  Hypothesis Hvy : forall t x y, D3 vy t x y (vyt t x y) (vyx t x y) (vyy t x y).
  Hypothesis HA0 : forall t x y, Rabs (u t x y) <= A0.
  Hypothesis HAt : forall t x y, Rabs (ut t x y) <= At.
  Hypothesis HAx : forall t x y, Rabs (ux t x y) <= Ax.
  Hypothesis HAy : forall t x y, Rabs (uy t x y) <= Ay.
  Hypothesis HAtt : forall t x y, Rabs (utt t x y) <= Att.
  Hypothesis HAtx : forall t x y, Rabs (utx t x y) <= Atx.
  Hypothesis HAty : forall t x y, Rabs (uty t x y) <= Aty.
  Hypothesis HAxt : forall t x y, Rabs (uxt t x y) <= Axt.
  Hypothesis HAxx : forall t x y, Rabs (uxx t x y) <= Axx.
  Hypothesis HAxy : forall t x y, Rabs (uxy t x y) <= Axy.
  Hypothesis HAyt : forall t x y, Rabs (uyt t x y) <= Ayt.
  Hypothesis HAyx : forall t x y, Rabs (uyx t x y) <= Ayx.
  Hypothesis HAyy : forall t x y, Rabs (uyy t x y) <= Ayy.
  Hypothesis HB0 : forall t x y, Rabs (v t x y) <= B0.
  Hypothesis HBt : forall t x y, Rabs (vt t x y) <= Bt.
  Hypothesis HBx : forall t x y, Rabs (vx t x y) <= Bx.
  Hypothesis HBy : forall t x y, Rabs (vy t x y) <= By.
  Hypothesis HBtt : forall t x y, Rabs (vtt t x y) <= Btt.
  Hypothesis HBtx : forall t x y, Rabs (vtx t x y) <= Btx.
  Hypothesis HBty : forall t x y, Rabs (vty t x y) <= Bty.
  Hypothesis HBxt : forall t x y, Rabs (vxt t x y) <= Bxt.
  Hypothesis HBxx : forall t x y, Rabs (vxx t x y) <= Bxx.
  Hypothesis HBxy : forall t x y, Rabs (vxy t x y) <= Bxy.
  Hypothesis HByt : forall t x y, Rabs (vyt t x y) <= Byt.
  Hypothesis HByx : forall t x y, Rabs (vyx t x y) <= Byx.
  Hypothesis HByy : forall t x y, Rabs (vyy t x y) <= Byy.

  Notation Cm a b := (C_RK2_2d_metric a b A0 At Ax Ay B0 Bt Bx By
                        Att Atx Aty Axt Axx Axy Ayt Ayx Ayy Btt Btx Bty Bxt Bxx Bxy Byt Byx Byy).
  Notation C2 := (C_RK2_2d A0 At Ax Ay B0 Bt Bx By
                        Att Atx Aty Axt Axx Axy Ayt Ayx Ayy Btt Btx Bty Bxt Bxx Bxy Byt Byx Byy).
  Notation L2 := (L_2d Ax Ay Bx By).
  Notation f := (field2 u v).

  (** everything about the scaled field (a u, b v), a, b >= 0 *)
  Lemma scaled_truncation (a b : R) : 0 <= a -> 0 <= b ->
    0 <= Cm a b /\
    forall (X Y : R -> R) (t0 T : R),
      (forall t, t0 <= t <= t0 + T -> is_derive X t (a * u t (X t) (Y t))) ->
      (forall t, t0 <= t <= t0 + T -> is_derive Y t (b * v t (X t) (Y t))) ->
      forall s h, 0 < h -> t0 <= s -> s + h <= t0 + T ->
      Rmax (Rabs (X (s + h) - X s
                  - h * (a * u (s + h / 2) (X s + h / 2 * (a * u s (X s) (Y s)))
                                           (Y s + h / 2 * (b * v s (X s) (Y s))))))
           (Rabs (Y (s + h) - Y s
                  - h * (b * v (s + h / 2) (X s + h / 2 * (a * u s (X s) (Y s)))
                                           (Y s + h / 2 * (b * v s (X s) (Y s))))))
        <= Cm a b * h ^ 3.
  Proof.
    intros Ha Hb.
    pose proof (RK2_xy_truncation
      (fun t x y => a * u t x y) (fun t x y => a * ut t x y) (fun t x y => a * ux t x y)
      (fun t x y => a * uy t x y)
      (fun t x y => a * utt t x y) (fun t x y => a * utx t x y) (fun t x y => a * uty t x y)
      (fun t x y => a * uxt t x y) (fun t x y => a * uxx t x y) (fun t x y => a * uxy t x y)
      (fun t x y => a * uyt t x y) (fun t x y => a * uyx t x y) (fun t x y => a * uyy t x y)
      (fun t x y => b * v t x y) (fun t x y => b * vt t x y) (fun t x y => b * vx t x y)
      (fun t x y => b * vy t x y)
      (fun t x y => b * vtt t x y) (fun t x y => b * vtx t x y) (fun t x y => b * vty t x y)
      (fun t x y => b * vxt t x y) (fun t x y => b * vxx t x y) (fun t x y => b * vxy t x y)
      (fun t x y => b * vyt t x y) (fun t x y => b * vyx t x y) (fun t x y => b * vyy t x y)
      (a * A0) (a * At) (a * Ax) (a * Ay)
      (a * Att) (a * Atx) (a * Aty) (a * Axt) (a * Axx) (a * Axy) (a * Ayt) (a * Ayx) (a * Ayy)
      (b * B0) (b * Bt) (b * Bx) (b * By)
      (b * Btt) (b * Btx) (b * Bty) (b * Bxt) (b * Bxx) (b * Bxy) (b * Byt) (b * Byx) (b * Byy))
      as H.
    pose proof (C2_nonneg
      (fun t x y => a * u t x y) (fun t x y => a * ut t x y) (fun t x y => a * ux t x y)
      (fun t x y => a * uy t x y)
      (fun t x y => a * utt t x y) (fun t x y => a * utx t x y) (fun t x y => a * uty t x y)
      (fun t x y => a * uxt t x y) (fun t x y => a * uxx t x y) (fun t x y => a * uxy t x y)
      (fun t x y => a * uyt t x y) (fun t x y => a * uyx t x y) (fun t x y => a * uyy t x y)
      (fun t x y => b * v t x y) (fun t x y => b * vt t x y) (fun t x y => b * vx t x y)
      (fun t x y => b * vy t x y)
      (a * A0) (a * At) (a * Ax) (a * Ay)
      (a * Att) (a * Atx) (a * Aty) (a * Axt) (a * Axx) (a * Axy) (a * Ayt) (a * Ayx) (a * Ayy)
      (b * B0) (b * Bt) (b * Bx) (b * By)
      (b * Btt) (b * Btx) (b * Bty) (b * Bxt) (b * Bxx) (b * Bxy) (b * Byt) (b * Byx) (b * Byy))
      as H0.
    assert (Sa : forall c w W : R, 0 <= c -> Rabs w <= W -> Rabs (c * w) <= c * W).
    { intros c w W Hc Hw. rewrite Rabs_mult, (Rabs_pos_eq c) by exact Hc.
      apply Rmult_le_compat_l; assumption. }
    do 8 (feed H ltac:(intros; apply D3_scal; auto)).
    do 26 (feed H ltac:(intros; apply Sa; auto)).
    do 17 (feed H0 ltac:(intros; apply Sa; auto)).
    split. exact H0. exact H.
  Qed.

  Lemma L2_nonneg : 0 <= L2.
  Proof.
    unfold L_2d. eapply Rle_trans; [| apply Rmax_l].
    assert (0 <= Ax) by (eapply Rle_trans; [apply Rabs_pos | apply (HAx 0 0 0)]).
    assert (0 <= Ay) by (eapply Rle_trans; [apply Rabs_pos | apply (HAy 0 0 0)]).
    lra.
  Qed.

  Lemma f_lipschitz_2d t p q : norm2 (psub (f t p) (f t q)) <= L2 * norm2 (psub p q).
  Proof. apply (field2_lipschitz u ut ux uy v vt vx vy Ax Ay Bx By); assumption. Qed.

  (** ** general step sizes hx, hy, ht *)
  Section Metric.
    Variable sol : R -> pt.
    Variables hx hy ht t0 T : R.
    Hypothesis Hhx : 0 < hx.
    Hypothesis Hhy : 0 < hy.
    Hypothesis Hht : 0 < ht.
    Hypothesis HodeX : forall t, t0 <= t <= t0 + T ->
      is_derive (fun r => fst (sol r)) t (hx / ht * u t (fst (sol t)) (snd (sol t))).
    Hypothesis HodeY : forall t, t0 <= t <= t0 + T ->
      is_derive (fun r => snd (sol r)) t (hy / ht * v t (fst (sol t)) (snd (sol t))).

    Lemma metric_a_pos : 0 < hx / ht.
    Proof. apply Rdiv_lt_0_compat; assumption. Qed.
    Lemma metric_b_pos : 0 < hy / ht.
    Proof. apply Rdiv_lt_0_compat; assumption. Qed.

    Lemma Cm_nonneg : 0 <= Cm (hx / ht) (hy / ht).
    Proof.
      apply (scaled_truncation (hx / ht) (hy / ht)); left; [apply metric_a_pos | apply metric_b_pos].
    Qed.

    (** LOCAL TRUNCATION ERROR of one midpoint step from the exact solution, in the max-norm *)
    Theorem RK2_local_truncation_2d_metric s : t0 <= s -> s + ht <= t0 + T ->
      norm2 (psub (psub (sol (s + ht)) (sol s))
                  (pscale2 hx hy (Phi_RK2_2d f hx hy ht s (sol s))))
        <= Cm (hx / ht) (hy / ht) * ht ^ 3.
    Proof.
      intros Hs0 Hs1.
      destruct (scaled_truncation (hx / ht) (hy / ht)
                  (Rlt_le _ _ metric_a_pos) (Rlt_le _ _ metric_b_pos)) as [_ H].
      specialize (H (fun r => fst (sol r)) (fun r => snd (sol r)) t0 T HodeX HodeY s ht Hht Hs0 Hs1).
      cbv beta in H.
      unfold norm2, psub, pscale2, Phi_RK2_2d, field2, stage2. cbn [fst snd].
      set (x0 := fst (sol s)) in *. set (y0 := snd (sol s)) in *.
      set (u0 := u s x0 y0) in *. set (v0 := v s x0 y0) in *.
      replace (x0 + / 2 * hx * u0) with (x0 + ht / 2 * (hx / ht * u0)) by (field; lra).
      replace (y0 + / 2 * hy * v0) with (y0 + ht / 2 * (hy / ht * v0)) by (field; lra).
      set (xm := x0 + ht / 2 * (hx / ht * u0)) in *.
      set (ym := y0 + ht / 2 * (hy / ht * v0)) in *.
      replace (hx * u (s + ht / 2) xm ym) with (ht * (hx / ht * u (s + ht / 2) xm ym))
        by (field; lra).
      replace (hy * v (s + ht / 2) xm ym) with (ht * (hy / ht * v (s + ht / 2) xm ym))
        by (field; lra).
      exact H.
    Qed.

    Variable n : nat.
    Hypothesis HT : INR n * ht = T.

    Lemma RK2_grid_truncation_2d_metric k : (k < n)%nat ->
      norm2 (local_err2 (Phi_RK2_2d f hx hy ht) hx hy ht t0 sol k)
        <= Cm (hx / ht) (hy / ht) * ht ^ 3.
    Proof.
      intros Hk.
      pose proof (grid_in_interval t0 ht n k Hht ltac:(lia)) as H1.
      pose proof (grid_in_interval t0 ht n (S k) Hht ltac:(lia)) as H2.
      rewrite HT in H1, H2.
      unfold local_err2.
      replace (t0 + INR (S k) * ht) with (t0 + INR k * ht + ht) in * by (rewrite S_INR; ring).
      apply RK2_local_truncation_2d_metric; lra.
    Qed.

    (** SECOND-ORDER CONVERGENCE of the midpoint scheme in the plane: COMPLETE *)
    Theorem RK2_converges_general_2d_metric :
      norm2 (psub (one_step_iter2 (Phi_RK2_2d f hx hy ht) hx hy ht t0 n (sol t0)) (sol (t0 + T)))
        <= exp (T * (Rmax hx hy / ht * Lip_RK2 (Rmax hx hy) L2)) * T
           * Cm (hx / ht) (hy / ht) * ht ^ 2.
    Proof.
      apply (RK2_2d_converges_order2 f sol hx hy ht L2 (Cm (hx / ht) (hy / ht)) t0 T n
               Hhx Hhy Hht L2_nonneg Cm_nonneg HT f_lipschitz_2d).
      exact RK2_grid_truncation_2d_metric.
    Qed.

    Theorem RK2_converges_general_2d_metric_uniform hmax : Rmax hx hy <= hmax ->
      norm2 (psub (one_step_iter2 (Phi_RK2_2d f hx hy ht) hx hy ht t0 n (sol t0)) (sol (t0 + T)))
        <= exp (T * (Rmax hx hy / ht * Lip_RK2 hmax L2)) * T
           * Cm (hx / ht) (hy / ht) * ht ^ 2.
    Proof.
      intros Hmax.
      apply (RK2_2d_converges_order2_uniform f sol hx hy ht hmax L2 (Cm (hx / ht) (hy / ht)) t0 T n
               Hhx Hhy Hht Hmax L2_nonneg Cm_nonneg HT f_lipschitz_2d).
      exact RK2_grid_truncation_2d_metric.
    Qed.
  End Metric.

  (** n steps of the rational model (Tracker.rk_iter with tab_RK2), both coordinates, on a
      velocity oracle that agrees with (u, v) through Q2R at the stage times *)
  Theorem model_RK2_converges_general_2d
      (vel : Q -> Q -> Q -> Q * Q) (dtdx dtdy x0 y0 : Q) (sol : R -> pt) (ht t0 T : R) (n : nat) :
    0 < Q2R dtdx -> 0 < Q2R dtdy -> 0 < ht -> INR n * ht = T ->
    (forall (k : nat) s x y,
       Q2R (fst (vel s x y)) = u (t0 + INR k * ht + Q2R s * ht) (Q2R x) (Q2R y)) ->
    (forall (k : nat) s x y,
       Q2R (snd (vel s x y)) = v (t0 + INR k * ht + Q2R s * ht) (Q2R x) (Q2R y)) ->
    (Q2R x0, Q2R y0) = sol t0 ->
    (forall t, t0 <= t <= t0 + T ->
       is_derive (fun r => fst (sol r)) t (Q2R dtdx / ht * u t (fst (sol t)) (snd (sol t)))) ->
    (forall t, t0 <= t <= t0 + T ->
       is_derive (fun r => snd (sol r)) t (Q2R dtdy / ht * v t (fst (sol t)) (snd (sol t)))) ->
    norm2 (psub (Q2R2 (rk_iter vel dtdx dtdy tab_RK2 n x0 y0)) (sol (t0 + T)))
      <= exp (T * (Rmax (Q2R dtdx) (Q2R dtdy) / ht * Lip_RK2 (Rmax (Q2R dtdx) (Q2R dtdy)) L2)) * T
         * Cm (Q2R dtdx / ht) (Q2R dtdy / ht) * ht ^ 2.
  Proof.
    intros Hhx Hhy Hht HT Hox Hoy Hp0 HodeX HodeY.
    apply (model_RK2_2d_converges_order2 vel dtdx dtdy x0 y0 f sol ht L2 t0 T n
             Hhx Hhy Hht L2_nonneg HT f_lipschitz_2d).
    - intros k s x y. unfold field2. cbn [fst snd]. apply Hox.
    - intros k s x y. unfold field2. cbn [fst snd]. apply Hoy.
    - exact Hp0.
    - apply (Cm_nonneg (Q2R dtdx) (Q2R dtdy) ht Hhx Hhy Hht).
    - apply (RK2_grid_truncation_2d_metric sol (Q2R dtdx) (Q2R dtdy) ht t0 T Hhx Hhy Hht
               HodeX HodeY n HT).
  Qed.

  (** ** equal steps hx = hy = ht = h: the system x' = u (t, x, y), y' = v (t, x, y) *)
  Section Simple.
    Variable sol : R -> pt.
    Variables h t0 T : R.
    Hypothesis Hh : 0 < h.
    Hypothesis HodeX : forall t, t0 <= t <= t0 + T ->
      is_derive (fun r => fst (sol r)) t (u t (fst (sol t)) (snd (sol t))).
    Hypothesis HodeY : forall t, t0 <= t <= t0 + T ->
      is_derive (fun r => snd (sol r)) t (v t (fst (sol t)) (snd (sol t))).

    Lemma simple_odeX t : t0 <= t <= t0 + T ->
      is_derive (fun r => fst (sol r)) t (h / h * u t (fst (sol t)) (snd (sol t))).
    Proof.
      intros Ht. replace (h / h * u t (fst (sol t)) (snd (sol t)))
                   with (u t (fst (sol t)) (snd (sol t))) by (field; lra).
      apply HodeX. exact Ht.
    Qed.
    Lemma simple_odeY t : t0 <= t <= t0 + T ->
      is_derive (fun r => snd (sol r)) t (h / h * v t (fst (sol t)) (snd (sol t))).
    Proof.
      intros Ht. replace (h / h * v t (fst (sol t)) (snd (sol t)))
                   with (v t (fst (sol t)) (snd (sol t))) by (field; lra).
      apply HodeY. exact Ht.
    Qed.
    Lemma simple_Cm : Cm (h / h) (h / h) = C2.
    Proof. replace (h / h) with 1 by (field; lra). apply C_RK2_2d_metric_1. Qed.

    (** LOCAL TRUNCATION ERROR, C * h^3 *)
    Theorem RK2_local_truncation_2d s : t0 <= s -> s + h <= t0 + T ->
      norm2 (psub (psub (sol (s + h)) (sol s)) (pscale2 h h (Phi_RK2_2d f h h h s (sol s))))
        <= C2 * h ^ 3.
    Proof.
      intros H0 H1. rewrite <- simple_Cm.
      apply (RK2_local_truncation_2d_metric sol h h h t0 T Hh Hh Hh simple_odeX simple_odeY s H0 H1).
    Qed.

    Variable n : nat.
    Hypothesis HT : INR n * h = T.

    (** SECOND-ORDER CONVERGENCE in the plane, no truncation hypothesis *)
    Theorem RK2_converges_general_2d :
      norm2 (psub (one_step_iter2 (Phi_RK2_2d f h h h) h h h t0 n (sol t0)) (sol (t0 + T)))
        <= exp (T * Lip_RK2 h L2) * T * C2 * h ^ 2.
    Proof.
      pose proof (RK2_converges_general_2d_metric sol h h h t0 T Hh Hh Hh simple_odeX simple_odeY
                    n HT) as H.
      rewrite simple_Cm in H. rewrite (Rmax_left h h) in H by lra.
      replace (h / h * Lip_RK2 h L2) with (Lip_RK2 h L2) in H by (field; lra).
      exact H.
    Qed.

    Theorem RK2_converges_general_2d_uniform hmax : h <= hmax ->
      norm2 (psub (one_step_iter2 (Phi_RK2_2d f h h h) h h h t0 n (sol t0)) (sol (t0 + T)))
        <= exp (T * Lip_RK2 hmax L2) * T * C2 * h ^ 2.
    Proof.
      intros Hmax.
      pose proof (RK2_converges_general_2d_metric_uniform sol h h h t0 T Hh Hh Hh
                    simple_odeX simple_odeY n HT hmax) as H.
      rewrite simple_Cm in H. rewrite (Rmax_left h h) in H by lra.
      replace (h / h * Lip_RK2 hmax L2) with (Lip_RK2 hmax L2) in H by (field; lra).
      apply H. exact Hmax.
    Qed.
  End Simple.
End Plane.

(** * Part 4: non-vacuity.  u = cos t + sin (x - y), v = cos t - sin (x - y): time-dependent,
    non-linear, both components depend on both coordinates.  (x - y)' = 2 sin (x - y) and
    (x + y)' = 2 cos t give the exact solution
        x t = sin t + atan (exp (2 t)),   y t = sin t - atan (exp (2 t)),   (x, y) 0 = (PI/4, -PI/4).
    Bounds: |u|, |v| <= 2, first partials <= 1, second partials <= 1 or = 0;
    N2 = 17, DU = DV = 5, M3 = 27, C = 27/6 + 17/8 = 53/8 for both components; L = 2. *)
Lemma D3_ext (k l : R -> R -> R -> R) t x y kt kx ky :
  (forall t x y, k t x y = l t x y) -> D3 k t x y kt kx ky -> D3 l t x y kt kx ky.
Proof.
  unfold D3. intros E H.
  apply (filterdiff_ext (fun p : R * (R * R) => k (fst p) (fst (snd p)) (snd (snd p)))).
  intros p. apply E. exact H.
Qed.

(** functions of the form A t + B (x - y) *)
Definition sepf (A B : R -> R) : R -> R -> R -> R := fun t x y => A t + B (x - y).

Lemma D3_sepf (A B : R -> R) (dA dB t x y : R) :
  is_derive A t dA -> is_derive B (x - y) dB -> D3 (sepf A B) t x y dA dB (- dB).
Proof.
  intros HA HB.
  pose proof (D3_comp1 A dA (fun t _ _ => t) t x y 1 0 0 (D3_t t x y) HA) as H1.
  pose proof (D3_comp1 B dB (fun _ x y => x - y) t x y (0 - 0) (1 - 0) (0 - 1)
                (D3_minus _ _ t x y _ _ _ _ _ _ (D3_x t x y) (D3_y t x y)) HB) as H2.
  pose proof (D3_plus _ _ t x y _ _ _ _ _ _ H1 H2) as H.
  replace dA with (dA * 1 + dB * (0 - 0)) by ring.
  replace dB with (dA * 0 + dB * (1 - 0)) at 2 by ring.
  replace (- dB) with (dA * 0 + dB * (0 - 1)) by ring.
  exact H.
Qed.

Lemma sepf_bound (A B : R -> R) (a b : R) :
  (forall t, Rabs (A t) <= a) -> (forall w, Rabs (B w) <= b) ->
  forall t x y, Rabs (sepf A B t x y) <= a + b.
Proof.
  intros HA HB t x y. unfold sepf.
  eapply Rle_trans. apply Rabs_triang. apply Rplus_le_compat. apply HA. apply HB.
Qed.

Definition zf (_ : R) : R := 0.

Lemma D3_sepf_fun (A B A' B' B'' : R -> R) :
  (forall t, is_derive A t (A' t)) -> (forall w, is_derive B w (B' w)) ->
  (forall w, B'' w = - B' w) ->
  forall t x y, D3 (sepf A B) t x y (sepf A' zf t x y) (sepf zf B' t x y) (sepf zf B'' t x y).
Proof.
  intros HA HB E t x y. unfold sepf at 2 3 4. unfold zf. rewrite E.
  replace (A' t + 0) with (A' t) by ring.
  replace (0 + B' (x - y)) with (B' (x - y)) by ring.
  replace (0 + - B' (x - y)) with (- B' (x - y)) by ring.
  apply D3_sepf. apply HA. apply HB.
Qed.
Definition nsin (w : R) : R := - sin w.
Definition ncos (w : R) : R := - cos w.

Lemma zf_is_derive w : is_derive zf w 0.
Proof. apply is_derive_const_R. Qed.
Lemma nsin_is_derive w : is_derive nsin w (ncos w).
Proof. unfold nsin, ncos. auto_derive. exact I. ring. Qed.
Lemma ncos_is_derive w : is_derive ncos w (sin w).
Proof. unfold ncos. auto_derive. exact I. ring. Qed.
Lemma cos_is_derive_nsin w : is_derive cos w (nsin w).
Proof. unfold nsin. apply cos_is_derive. Qed.
Lemma zf_is_derive_mzf w : is_derive zf w (- zf w).
Proof. unfold zf. rewrite Ropp_0. apply is_derive_const_R. Qed.

Lemma Rabs_zf w : Rabs (zf w) <= 0.
Proof. unfold zf. rewrite Rabs_R0. lra. Qed.
Lemma Rabs_nsin w : Rabs (nsin w) <= 1.
Proof. unfold nsin. rewrite Rabs_Ropp. apply Rabs_sin_le. Qed.
Lemma Rabs_ncos w : Rabs (ncos w) <= 1.
Proof. unfold ncos. rewrite Rabs_Ropp. apply Rabs_cos_le. Qed.

Definition ex_u (t x y : R) : R := cos t + sin (x - y).
Definition ex_v (t x y : R) : R := cos t - sin (x - y).
Definition ex_sol (t : R) : pt := (sin t + atan (exp (2 * t)), sin t - atan (exp (2 * t))).

Lemma ex_sol_diff t : fst (ex_sol t) - snd (ex_sol t) = 2 * atan (exp (2 * t)).
Proof. unfold ex_sol. cbn [fst snd]. ring. Qed.

Lemma ex_sol_x_is_derive t :
  is_derive (fun r => fst (ex_sol r)) t (ex_u t (fst (ex_sol t)) (snd (ex_sol t))).
Proof.
  unfold ex_u. rewrite ex_sol_diff, sin_2atan. unfold ex_sol. cbn [fst snd].
  auto_derive. exact I.
  assert (0 < 1 + exp (2 * t) ^ 2) by (pose proof (pow2_ge_0 (exp (2 * t))); lra).
  field. lra.
Qed.
Lemma ex_sol_y_is_derive t :
  is_derive (fun r => snd (ex_sol r)) t (ex_v t (fst (ex_sol t)) (snd (ex_sol t))).
Proof.
  unfold ex_v. rewrite ex_sol_diff, sin_2atan. unfold ex_sol. cbn [fst snd].
  auto_derive. exact I.
  assert (0 < 1 + exp (2 * t) ^ 2) by (pose proof (pow2_ge_0 (exp (2 * t))); lra).
  field. lra.
Qed.
Lemma ex_sol_0 : ex_sol 0 = (PI / 4, - (PI / 4)).
Proof.
  unfold ex_sol. rewrite Rmult_0_r, exp_0, sin_0, atan_1. f_equal; field.
Qed.

Example RK2_2d_example_coupled n h T : 0 < h -> INR n * h = T ->
  norm2 (psub (one_step_iter2 (Phi_RK2_2d (field2 ex_u ex_v) h h h) h h h 0 n (PI / 4, - (PI / 4)))
              (sin T + atan (exp (2 * T)), sin T - atan (exp (2 * T))))
    <= exp (T * Lip_RK2 h 2) * T * (53 / 8) * h ^ 2.
Proof.
  intros Hh HT.
  pose proof (RK2_converges_general_2d
    ex_u (sepf nsin zf) (sepf zf cos) (sepf zf ncos)
    (sepf ncos zf) (sepf zf zf) (sepf zf zf)
    (sepf zf zf) (sepf zf nsin) (sepf zf sin)
    (sepf zf zf) (sepf zf sin) (sepf zf nsin)
    ex_v (sepf nsin zf) (sepf zf ncos) (sepf zf cos)
    (sepf ncos zf) (sepf zf zf) (sepf zf zf)
    (sepf zf zf) (sepf zf sin) (sepf zf nsin)
    (sepf zf zf) (sepf zf nsin) (sepf zf sin)
    (1 + 1) (1 + 0) (0 + 1) (0 + 1)
    (1 + 0) (0 + 0) (0 + 0) (0 + 0) (0 + 1) (0 + 1) (0 + 0) (0 + 1) (0 + 1)
    (1 + 1) (1 + 0) (0 + 1) (0 + 1)
    (1 + 0) (0 + 0) (0 + 0) (0 + 0) (0 + 1) (0 + 1) (0 + 0) (0 + 1) (0 + 1)) as H.
  assert (Z0 : forall w, zf w = - zf w) by (intros w; unfold zf; ring).
  assert (Z1 : forall w, sin w = - nsin w) by (intros w; unfold nsin; ring).
  assert (Z2 : forall w, nsin w = - sin w) by reflexivity.
  assert (Z3 : forall w, cos w = - ncos w) by (intros w; unfold ncos; ring).
  (* the eight differentiability hypotheses *)
  feed H ltac:(exact (D3_sepf_fun cos sin nsin cos ncos cos_is_derive_nsin sin_is_derive
                        (fun w => eq_refl))).
  feed H ltac:(exact (D3_sepf_fun nsin zf ncos zf zf nsin_is_derive zf_is_derive Z0)).
  feed H ltac:(exact (D3_sepf_fun zf cos zf nsin sin zf_is_derive cos_is_derive_nsin Z1)).
  feed H ltac:(exact (D3_sepf_fun zf ncos zf sin nsin zf_is_derive ncos_is_derive Z2)).
  feed H ltac:(exact (D3_sepf_fun cos nsin nsin ncos cos cos_is_derive_nsin nsin_is_derive Z3)).
  feed H ltac:(exact (D3_sepf_fun nsin zf ncos zf zf nsin_is_derive zf_is_derive Z0)).
  feed H ltac:(exact (D3_sepf_fun zf ncos zf sin nsin zf_is_derive ncos_is_derive Z2)).
  feed H ltac:(exact (D3_sepf_fun zf cos zf nsin sin zf_is_derive cos_is_derive_nsin Z1)).
  (* the 26 bounds *)
  feed H ltac:(exact (sepf_bound cos sin 1 1 Rabs_cos_le Rabs_sin_le)).
  do 12 (feed H ltac:(apply sepf_bound; intros;
                      first [apply Rabs_zf | apply Rabs_nsin | apply Rabs_ncos
                            | apply Rabs_sin_le | apply Rabs_cos_le])).
  feed H ltac:(exact (sepf_bound cos nsin 1 1 Rabs_cos_le Rabs_nsin)).
  do 12 (feed H ltac:(apply sepf_bound; intros;
                      first [apply Rabs_zf | apply Rabs_nsin | apply Rabs_ncos
                            | apply Rabs_sin_le | apply Rabs_cos_le])).
  specialize (H ex_sol h 0 T Hh (fun t _ => ex_sol_x_is_derive t) (fun t _ => ex_sol_y_is_derive t)
                n HT).
  rewrite ex_sol_0, Rplus_0_l in H. unfold ex_sol at 1 in H.
  replace (L_2d (0 + 1) (0 + 1) (0 + 1) (0 + 1)) with 2 in H
    by (unfold L_2d; rewrite Rmax_left by lra; ring).
  match type of H with
  | _ <= _ * _ * ?c * _ => replace c with (53 / 8) in H
  end.
  exact H.
  unfold C_RK2_2d, C_RK2_x, C_RK2_y, Cc, M3c, N2c, Dc. rewrite Rmax_left by lra. field.
Qed.

Check D3_chain.
Check closed_component_bound.
Check RK2_xy_truncation.
Check RK2_local_truncation_2d_metric.
Check RK2_converges_general_2d_metric.
Check model_RK2_converges_general_2d.
Check RK2_local_truncation_2d.
Check RK2_converges_general_2d.
Check RK2_converges_general_2d_uniform.
Check RK2_2d_example_coupled.

Print Assumptions RK2_local_truncation_2d.
Print Assumptions RK2_converges_general_2d.
Print Assumptions RK2_converges_general_2d_metric.
Print Assumptions model_RK2_converges_general_2d.
Print Assumptions RK2_2d_example_coupled.
