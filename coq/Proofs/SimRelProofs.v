(** Relational bisimulation for Model/Sim.v: two set-ups whose step-indexed environments are RELATED
    (not necessarily equal: rational values equal up to [==], sign conventions, different value types)
    on the steps of the run produce related states and related records, step for step.
    [cold_run_ext] (Leibniz-equal environments) is the special case R = eq; this version is what lets
    the component refinements (C03: machine == interpolation, C04: machine = schedule) and the mirror /
    shift symmetries (C10, C14) be carried through whole runs. *)
From Coq Require Import ZArith List Bool Lia.
From Ladim Require Import Base.Num Model.Sim Proofs.SimProofs.
Import ListNotations.
Open Scope Z_scope.

Lemma Forall2_map_both {A B A' B'} (P : A -> B -> Prop) (Q : A' -> B' -> Prop) (f : A -> A') (g : B -> B') l1 l2 :
  (forall a b, P a b -> Q (f a) (g b)) -> Forall2 P l1 l2 -> Forall2 Q (map f l1) (map g l2).
Proof. intros H F. induction F as [|a b l1 l2 Hab F IH]; cbn; constructor; auto. Qed.

Lemma Forall2_filter_both {A B} (P : A -> B -> Prop) (f : A -> bool) (g : B -> bool) l1 l2 :
  (forall a b, P a b -> f a = g b) -> Forall2 P l1 l2 -> Forall2 P (filter f l1) (filter g l2).
Proof.
  intros H F. induction F as [|a b l1 l2 Hab F IH]; cbn; [constructor|].
  rewrite (H a b Hab). destruct (g b); [constructor; assumption|assumption].
Qed.

Lemma Forall2_len {A B} (P : A -> B -> Prop) l1 l2 : Forall2 P l1 l2 -> length l1 = length l2.
Proof. intro F. induction F; cbn; congruence. Qed.

Section Rel.
  Variables V W C : Type.
  Variable R : V -> W -> Prop.
  Variable rel1 : Z -> list (Z * V).    Variable rel2 : Z -> list (Z * W).
  Variable ff1 : Z -> V -> V.           Variable ff2 : Z -> W -> W.
  Variable cf1 : Z -> V -> C.           Variable cf2 : Z -> W -> C.
  Variable tf1 : Z -> V -> C -> V * bool.  Variable tf2 : Z -> W -> C -> W * bool.
  Variable bf1 : Z -> V -> V * bool.    Variable bf2 : Z -> W -> W * bool.
  Variable du1 : Z -> bool.             Variable du2 : Z -> bool.
  (** the steps on which the environments are known to be related (the steps of the run); [okr] for the
      release schedule, which a warm start does not consult at its first step *)
  Variable ok : Z -> Prop.
  Variable okr : Z -> Prop.

  Definition rel_rows (a : Z * V) (b : Z * W) : Prop := fst a = fst b /\ R (snd a) (snd b).
  Hypothesis Hrel : forall n, okr n -> Forall2 rel_rows (rel1 n) (rel2 n).
  Hypothesis Hff : forall n v w, ok n -> R v w -> R (ff1 n v) (ff2 n w).
  Hypothesis Hcf : forall n v w, ok n -> R v w -> cf1 n v = cf2 n w.
  Hypothesis Htf : forall n v w c, ok n -> R v w ->
    R (fst (tf1 n v c)) (fst (tf2 n w c)) /\ snd (tf1 n v c) = snd (tf2 n w c).
  Hypothesis Hbf : forall n v w, ok n -> R v w ->
    R (fst (bf1 n v)) (fst (bf2 n w)) /\ snd (bf1 n v) = snd (bf2 n w).
  Hypothesis Hdu : forall n, ok n -> du1 n = du2 n.

  Definition prel (p : part V) (q : part W) : Prop :=
    tag p = tag q /\ ppid p = ppid q /\ palive p = palive q /\ R (pval p) (pval q).
  Definition rowrel (a : Z * Z * V) (b : Z * Z * W) : Prop := fst a = fst b /\ R (snd a) (snd b).
  Definition rrel (r1 : rec V) (r2 : rec W) : Prop :=
    rstep r1 = rstep r2 /\ Forall2 rowrel (rrows r1) (rrows r2).
  Definition srel (s1 : sim V C) (s2 : sim W C) : Prop :=
    Forall2 prel (parts s1) (parts s2) /\ npid s1 = npid s2 /\ Forall2 rrel (recs s1) (recs s2) /\
    crashed s1 = false /\ crashed s2 = false.

  Lemma mk_new_rel l1 l2 : Forall2 rel_rows l1 l2 -> forall pid0, Forall2 prel (mk_new V pid0 l1) (mk_new W pid0 l2).
  Proof.
    intro F. induction F as [|[t v] [t' w] l1 l2 [Ht Hv] F IH]; intro pid0; cbn; constructor.
    - cbn in Ht, Hv. repeat split; cbn; auto.
    - apply IH.
  Qed.

  Lemma compactify_rel ps qs : Forall2 prel ps qs -> Forall2 prel (compactify V ps) (compactify W qs).
  Proof. unfold compactify. apply Forall2_filter_both. intros a b (_ & _ & H & _). exact H. Qed.

  Lemma after_release_rel s1 s2 skip n : ok n -> (skip = true \/ okr n) -> srel s1 s2 ->
    Forall2 prel (after_release V C rel1 ff1 s1 skip n) (after_release W C rel2 ff2 s2 skip n).
  Proof.
    intros Hn Hr (HP & HN & _). unfold after_release.
    apply Forall2_map_both with (P := prel).
    - intros a b (Ht & Hp & Ha & Hv). unfold forced, prel; cbn. repeat split; auto.
    - apply Forall2_app; [apply compactify_rel; exact HP|]. rewrite HN.
      apply mk_new_rel. destruct skip; [constructor|apply Hrel; destruct Hr as [Hr|Hr]; [discriminate|exact Hr]].
  Qed.

  Lemma moved_rel n p q : ok n -> prel p q ->
    prel (moved V C cf1 tf1 bf1 n p) (moved W C cf2 tf2 bf2 n q).
  Proof.
    intros Hn (Ht & Hp & Ha & Hv). unfold moved.
    rewrite <- (Hcf n _ _ Hn Hv).
    destruct (Htf n (pval p) (pval q) (cf1 n (pval p)) Hn Hv) as [H1 H2].
    destruct (tf1 n (pval p) (cf1 n (pval p))) as [v1 a1]. destruct (tf2 n (pval q) (cf1 n (pval p))) as [w1 b1].
    cbn in H1, H2. destruct (Hbf n v1 w1 Hn H1) as [H3 H4].
    destruct (bf1 n v1) as [v2 a2]. destruct (bf2 n w1) as [w2 b2]. cbn in H3, H4.
    unfold prel; cbn. repeat split; auto. rewrite Ha, H2, H4. reflexivity.
  Qed.

  Lemma snapshot_rel n ps qs : Forall2 prel ps qs -> rrel (snapshot V n ps) (snapshot W n qs).
  Proof.
    intro F. split; [reflexivity|]. cbn. apply Forall2_map_both with (P := prel); [|exact F].
    intros a b (Ht & Hp & _ & Hv). split; cbn; [congruence|exact Hv].
  Qed.

  Lemma step_rel do_out skip s1 s2 n : ok n -> (skip = true \/ okr n) -> srel s1 s2 ->
    srel (sim_step_gen V C rel1 ff1 cf1 tf1 bf1 du1 do_out skip s1 n)
         (sim_step_gen W C rel2 ff2 cf2 tf2 bf2 du2 do_out skip s2 n).
  Proof.
    intros Hn Hr S. pose proof (after_release_rel s1 s2 skip n Hn Hr S) as AR.
    destruct S as (HP & HN & HR & C1 & C2).
    rewrite (step_spec V C rel1 ff1 cf1 tf1 bf1 du1 do_out skip s1 n C1).
    rewrite (step_spec W C rel2 ff2 cf2 tf2 bf2 du2 do_out skip s2 n C2).
    unfold srel; cbn. repeat split.
    - apply Forall2_map_both with (P := prel); [|exact AR]. intros a b H. apply moved_rel; assumption.
    - rewrite HN. f_equal. f_equal. destruct skip; [reflexivity|]. destruct Hr as [Hr|Hr]; [discriminate|]. apply (Forall2_len _ _ _ (Hrel n Hr)).
    - rewrite (Hdu n Hn). destruct (do_out && du2 n); [|exact HR].
      apply Forall2_app; [exact HR|]. constructor; [|constructor]. apply snapshot_rel. exact AR.
  Qed.

  Lemma fold_rel l : Forall (fun n => ok n /\ okr n) l -> forall s1 s2, srel s1 s2 ->
    srel (fold_left (sim_step V C rel1 ff1 cf1 tf1 bf1 du1) l s1) (fold_left (sim_step W C rel2 ff2 cf2 tf2 bf2 du2) l s2).
  Proof.
    induction 1 as [|n l [Hn Hr] F IH]; intros s1 s2 S; cbn; [exact S|].
    apply IH. apply step_rel; [exact Hn|right; exact Hr|exact S].
  Qed.

  Lemma init_rel : srel (sim_init V C) (sim_init W C).
  Proof. unfold srel, sim_init; cbn. repeat split; constructor. Qed.

  Theorem cold_run_rel N : (forall n, 0 <= n < N -> ok n /\ okr n) ->
    srel (cold_run V C rel1 ff1 cf1 tf1 bf1 du1 N) (cold_run W C rel2 ff2 cf2 tf2 bf2 du2 N).
  Proof.
    intro H. unfold cold_run. apply fold_rel; [|exact init_rel].
    apply Forall_forall. intros n Hn. apply H. unfold zrange in Hn.
    apply (in_zrange_aux V C rel1 ff1 cf1 tf1 bf1 du1) in Hn. lia.
  Qed.

  (** warm start: the two runs restart from related records with the same pid counter; the release schedule
      is consulted from the step after the restart on *)
  Lemma restore_rel r1 r2 np : rrel r1 r2 -> srel (restore V C r1 np) (restore W C r2 np).
  Proof.
    intros [_ F]. unfold srel, restore; cbn. repeat split; try constructor.
    apply Forall2_map_both with (P := rowrel); [|exact F].
    intros [[p1 t1] v1] [[p2 t2] v2] [E Rv]. cbn in E, Rv. inversion E; subst. unfold prel; cbn. repeat split; auto.
  Qed.
  Theorem warm_run_rel r1 r2 np N : rrel r1 r2 ->
    ok (rstep r1) -> (forall n, rstep r1 < n < N -> ok n /\ okr n) ->
    srel (warm_run V C rel1 ff1 cf1 tf1 bf1 du1 r1 np N) (warm_run W C rel2 ff2 cf2 tf2 bf2 du2 r2 np N).
  Proof.
    intros RR H0 H. unfold warm_run. destruct RR as [E F]. rewrite <- E.
    apply fold_rel.
    - apply Forall_forall. intros n Hn. apply H. unfold zrange in Hn.
      apply (in_zrange_aux V C rel1 ff1 cf1 tf1 bf1 du1) in Hn. lia.
    - apply step_rel; [exact H0|left; reflexivity|]. apply restore_rel. split; [exact E|exact F].
  Qed.
End Rel.
