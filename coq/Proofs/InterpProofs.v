(** Proofs/InterpProofs.v — lemmas about Model/Interp.v (properties C02 and C17).
    Array lookups (flat indexing, slicing, masking), the algebra of the trilinear kernel (weights,
    convexity, exactness on linear fields), the index discipline (C17), the sub-rectangle-free
    description of what a particle feels ([ref_u], [ref_v]) from which subgrid independence, land faces
    and packing follow. *)
From Coq Require Import ZArith QArith Qround Qabs List Bool Lia Lqa.
From Ladim Require Import Base.Num Model.Interp.
Import ListNotations.
Open Scope Z_scope.

(* ------------------------------------------------------------------ part 1 *)
Open Scope Z_scope.

Lemma nth_opt_map {A B} (f : A -> B) l n : nth_opt (map f l) n = option_map f (nth_opt l n).
Proof. revert n; induction l as [|x l IH]; intros [|n]; cbn; auto. Qed.

Lemma nth_opt_zrange_aux lo len t : (t < len)%nat -> nth_opt (zrange_aux lo len) t = Some (lo + Z.of_nat t).
Proof.
  revert lo t; induction len as [|len IH]; intros lo t Ht; [lia|].
  destruct t as [|t]; cbn [zrange_aux nth_opt].
  - f_equal. lia.
  - rewrite IH by lia. f_equal. lia.
Qed.
Lemma nth_opt_zrange lo hi t : 0 <= t < hi - lo -> nth_opt (zrange lo hi) (Z.to_nat t) = Some (lo + t).
Proof.
  intros Ht. unfold zrange. rewrite nth_opt_zrange_aux by lia. f_equal. lia.
Qed.

Lemma in_shape_true n jn im k j i :
  in_shape n jn im (k, j, i) = true <-> (0 <= k < n /\ 0 <= j < jn /\ 0 <= i < im).
Proof.
  unfold in_shape. rewrite !andb_true_iff, !Z.leb_le, !Z.ltb_lt. lia.
Qed.
Lemma inb3_true F k j i :
  inb3 F k j i = true <-> (0 <= k < a_n F /\ 0 <= j < a_j F /\ 0 <= i < a_i F).
Proof. apply in_shape_true. Qed.

Lemma flat_decode jn im k j i :
  0 <= j < jn -> 0 <= i < im ->
  let t := (k * jn + j) * im + i in
  t / (jn * im) = k /\ (t / im) mod jn = j /\ t mod im = i.
Proof.
  intros Hj Hi t.
  assert (E1 : t / im = k * jn + j).
  { symmetry. apply (Z.div_unique_pos t im (k * jn + j) i); [lia|unfold t; ring]. }
  assert (E2 : t mod im = i).
  { symmetry. apply (Z.mod_unique_pos t im (k * jn + j) i); [lia|unfold t; ring]. }
  assert (E3 : (k * jn + j) mod jn = j).
  { symmetry. apply (Z.mod_unique_pos _ jn k j); [lia|ring]. }
  assert (E4 : (k * jn + j) / jn = k).
  { symmetry. apply (Z.div_unique_pos _ jn k j); [lia|ring]. }
  repeat split.
  - rewrite (Z.mul_comm jn im), <- Z.div_div by lia. rewrite E1. exact E4.
  - rewrite E1. exact E3.
  - exact E2.
Qed.

Lemma get3_mk3 n jn im f k j i :
  0 <= k < n -> 0 <= j < jn -> 0 <= i < im ->
  get3 (mk3 n jn im f) k j i = Some (f k j i).
Proof.
  intros Hk Hj Hi. unfold get3.
  assert (B : inb3 (mk3 n jn im f) k j i = true) by (apply inb3_true; cbn [mk3 a_n a_j a_i]; lia).
  rewrite B. unfold flat3. cbn [mk3 a_n a_j a_i a_data].
  rewrite nth_opt_map.
  assert (R : 0 <= (k * jn + j) * im + i < n * jn * im - 0).
  { assert (0 <= k * jn) by (apply Z.mul_nonneg_nonneg; lia).
    assert (0 <= (k * jn + j) * im) by (apply Z.mul_nonneg_nonneg; lia).
    assert (k * jn <= (n - 1) * jn) by (apply Z.mul_le_mono_nonneg_r; lia).
    assert ((k * jn + j) * im <= (n * jn - 1) * im) by (apply Z.mul_le_mono_nonneg_r; lia).
    lia. }
  rewrite (nth_opt_zrange 0 (n * jn * im) _ R). cbn [option_map].
  rewrite Z.add_0_l.
  destruct (flat_decode jn im k j i Hj Hi) as (E1 & E2 & E3).
  rewrite E1, E2, E3. reflexivity.
Qed.

Lemma get3_mk3_oob n jn im f k j i :
  in_shape n jn im (k, j, i) = false -> get3 (mk3 n jn im f) k j i = None.
Proof. intro H. unfold get3, inb3. cbn [mk3 a_n a_j a_i]. rewrite H. reflexivity. Qed.

Lemma get3_amap f F k j i : get3 (amap f F) k j i = option_map f (get3 F k j i).
Proof.
  unfold get3, inb3, flat3. cbn [amap a_n a_j a_i a_data].
  destruct (in_shape _ _ _ _); [apply nth_opt_map|reflexivity].
Qed.

(* ------------------------------------------------------------------ part 2 *)
Open Scope Q_scope.

Fixpoint qsum (l : list Q) : Q := match l with [] => 0 | x :: r => x + qsum r end.
Fixpoint qdot (ws vs : list Q) : Q :=
  match ws, vs with w :: ws', v :: vs' => w * v + qdot ws' vs' | _, _ => 0 end.

Definition tri_weights (a p q : Q) : list Q :=
  [(1 - p) * (1 - q) * a; (1 - p) * (1 - q) * (1 - a); (1 - p) * q * a; (1 - p) * q * (1 - a);
   p * (1 - q) * a; p * (1 - q) * (1 - a); p * q * a; p * q * (1 - a)].

Definition fracx (x : Q) : Q := x - inject_Z (qtrunc x).

Lemma tri_formula_dot a p q v1 v2 v3 v4 v5 v6 v7 v8 :
  tri_formula a p q v1 v2 v3 v4 v5 v6 v7 v8 == qdot (tri_weights a p q) [v1; v2; v3; v4; v5; v6; v7; v8].
Proof. unfold tri_formula, tri_weights, qdot. ring. Qed.

Lemma tri_weights_sum a p q : qsum (tri_weights a p q) == 1.
Proof. unfold tri_weights, qsum. ring. Qed.

Lemma tri_weights_nonneg a p q :
  0 <= a <= 1 -> 0 <= p <= 1 -> 0 <= q <= 1 -> Forall (fun w => 0 <= w) (tri_weights a p q).
Proof.
  intros Ha Hp Hq. unfold tri_weights.
  assert (0 <= 1 - a) by lra. assert (0 <= 1 - p) by lra. assert (0 <= 1 - q) by lra.
  repeat constructor; repeat apply Qmult_le_0_compat; lra.
Qed.

(** a convex combination lies between the extremes of the values *)
Lemma qdot_bounds ws vs lo hi :
  length ws = length vs -> Forall (fun w => 0 <= w) ws -> Forall (fun v => lo <= v <= hi) vs ->
  lo * qsum ws <= qdot ws vs <= hi * qsum ws.
Proof.
  revert vs; induction ws as [|w ws IH]; intros [|v vs] L Hw Hv; try discriminate; cbn [qsum qdot].
  - lra.
  - inversion Hw as [|? ? W1 W2]; subst. inversion Hv as [|? ? V1 V2]; subst.
    injection L as L. specialize (IH vs L W2 V2). nra.
Qed.

Lemma frac_range x : 0 <= x -> 0 <= fracx x < 1.
Proof.
  intro H. unfold fracx. rewrite (qtrunc_nonneg x H). destruct (qfloor_spec x) as [A B].
  rewrite inject_Z_plus in B. change (inject_Z 1) with 1 in B. lra.
Qed.

(** inversion of a successful kernel call: the eight reads succeeded *)
Lemma trilinear_inv F x y k a r :
  fst (trilinear F x y k a) = Some r ->
  exists v1 v2 v3 v4 v5 v6 v7 v8,
    map (get_idx F) (tri_idx x y k) = map Some [v1; v2; v3; v4; v5; v6; v7; v8] /\
    r = tri_formula a (fracx x) (fracx y) v1 v2 v3 v4 v5 v6 v7 v8.
Proof.
  unfold trilinear. cbn [fst]. cbn [tri_idx map get_idx].
  destruct (get3 F (k - 1) (qtrunc y) (qtrunc x)) as [v1|]; [|discriminate].
  destruct (get3 F k (qtrunc y) (qtrunc x)) as [v2|]; [|discriminate].
  destruct (get3 F (k - 1) (qtrunc y + 1) (qtrunc x)) as [v3|]; [|discriminate].
  destruct (get3 F k (qtrunc y + 1) (qtrunc x)) as [v4|]; [|discriminate].
  destruct (get3 F (k - 1) (qtrunc y) (qtrunc x + 1)) as [v5|]; [|discriminate].
  destruct (get3 F k (qtrunc y) (qtrunc x + 1)) as [v6|]; [|discriminate].
  destruct (get3 F (k - 1) (qtrunc y + 1) (qtrunc x + 1)) as [v7|]; [|discriminate].
  destruct (get3 F k (qtrunc y + 1) (qtrunc x + 1)) as [v8|]; [|discriminate].
  intro H. injection H as <-. exists v1, v2, v3, v4, v5, v6, v7, v8. split; reflexivity.
Qed.

(** ... and conversely *)
Lemma trilinear_some F x y k a v1 v2 v3 v4 v5 v6 v7 v8 :
  let i := qtrunc x in let j := qtrunc y in
  get3 F (k - 1) j i = Some v1 -> get3 F k j i = Some v2 ->
  get3 F (k - 1) (j + 1) i = Some v3 -> get3 F k (j + 1) i = Some v4 ->
  get3 F (k - 1) j (i + 1) = Some v5 -> get3 F k j (i + 1) = Some v6 ->
  get3 F (k - 1) (j + 1) (i + 1) = Some v7 -> get3 F k (j + 1) (i + 1) = Some v8 ->
  fst (trilinear F x y k a) = Some (tri_formula a (fracx x) (fracx y) v1 v2 v3 v4 v5 v6 v7 v8).
Proof.
  intros i j H1 H2 H3 H4 H5 H6 H7 H8. unfold trilinear. cbn [fst tri_idx map get_idx].
  fold i j. rewrite H1, H2, H3, H4, H5, H6, H7, H8. reflexivity.
Qed.

Lemma trilinear_reads F x y k a : snd (trilinear F x y k a) = tri_idx x y k.
Proof. reflexivity. Qed.

(* ------------------------------------------------------------------ part 3 *)
Open Scope Q_scope.

(** * integer parts of shifted positions *)
Lemma inject_Z_minus x y : inject_Z (x - y) = inject_Z x - inject_Z y.
Proof. unfold Z.sub, Qminus. rewrite inject_Z_plus, inject_Z_opp. reflexivity. Qed.
Lemma qfloor_bounds x lo hi :
  inject_Z lo <= x -> x < inject_Z hi -> (lo <= qfloor x < hi)%Z.
Proof.
  intros A B. destruct (qfloor_spec x) as [C D].
  assert (H1 : inject_Z lo < inject_Z (qfloor x + 1)) by lra.
  assert (H2 : inject_Z (qfloor x) < inject_Z hi) by lra.
  rewrite <- Zlt_Qlt in H1, H2. lia.
Qed.
Lemma qtrunc_bounds x lo hi :
  (0 <= lo)%Z -> inject_Z lo <= x -> x < inject_Z hi -> (lo <= qtrunc x < hi)%Z.
Proof.
  intros L A B. assert (0 <= x) as P.
  { assert (inject_Z 0 <= inject_Z lo) by (rewrite <- Zle_Qle; exact L). change (inject_Z 0) with 0 in *. lra. }
  rewrite (qtrunc_nonneg x P). apply qfloor_bounds; assumption.
Qed.
Lemma qround_bounds x lo hi :
  inject_Z lo - (1#2) < x -> x < inject_Z hi + (1#2) -> (lo <= qround x <= hi)%Z.
Proof.
  intros A B. destruct (qround_spec x) as [C D].
  assert (H1 : inject_Z lo < inject_Z (qround x + 1)).
  { rewrite inject_Z_plus. change (inject_Z 1) with 1. lra. }
  assert (H2 : inject_Z (qround x) < inject_Z (hi + 1)).
  { rewrite inject_Z_plus. change (inject_Z 1) with 1. lra. }
  rewrite <- Zlt_Qlt in H1, H2. lia.
Qed.
(** x' = x - n:  int(x') = floor(x) - n when x' >= 0 *)
Lemma qtrunc_shift x x' n : x' == x - inject_Z n -> 0 <= x' -> qtrunc x' = (qfloor x - n)%Z.
Proof.
  intros E P. rewrite (qtrunc_nonneg x' P). apply qfloor_unique.
  destruct (qfloor_spec x) as [A B].
  replace (qfloor x - n + 1)%Z with (qfloor x + 1 - n)%Z by lia.
  rewrite !inject_Z_minus. lra.
Qed.
Lemma qround_Z n : qround (inject_Z n) = n.
Proof.
  pose proof (qround_bounds (inject_Z n) n n) as H.
  assert (inject_Z n - (1#2) < inject_Z n) by lra. assert (inject_Z n < inject_Z n + (1#2)) by lra.
  specialize (H ltac:(assumption) ltac:(assumption)). lia.
Qed.
Lemma qround_Zdiff a b : qround (inject_Z a - inject_Z b) = (a - b)%Z.
Proof.
  pose proof (qround_bounds (inject_Z a - inject_Z b) (a - b) (a - b)) as H.
  rewrite inject_Z_minus in H.
  assert (inject_Z a - inject_Z b - (1#2) < inject_Z a - inject_Z b) as H1 by lra.
  assert (inject_Z a - inject_Z b < inject_Z a - inject_Z b + (1#2)) as H2 by lra.
  specialize (H H1 H2). lia.
Qed.

(** * C17: the index discipline *)
Lemma Forall_forallb {A} (f : A -> bool) l : Forall (fun t => f t = true) l <-> forallb f l = true.
Proof. rewrite forallb_forall, Forall_forall. reflexivity. Qed.

(** the eight triples are inside (n, jn, im) when the integer parts are *)
Lemma tri_idx_in_shape n jn im x y k :
  (1 <= k <= n - 1)%Z -> (0 <= qtrunc x <= im - 2)%Z -> (0 <= qtrunc y <= jn - 2)%Z ->
  forallb (in_shape n jn im) (tri_idx x y k) = true.
Proof.
  intros Hk Hx Hy. apply Forall_forallb. unfold tri_idx.
  repeat constructor; apply in_shape_true; lia.
Qed.

Definition in_clip_range (ext : Z) (x : Q) : Prop := (1#100) <= x <= inject_Z ext - (101#100).

Lemma inj_sub1 z : inject_Z (z - 1) == inject_Z z - 1.
Proof. rewrite inject_Z_minus. reflexivity. Qed.
Lemma inj_sub2 z : inject_Z (z - 2) == inject_Z z - 2.
Proof. rewrite inject_Z_minus. reflexivity. Qed.
Lemma inj_add1 z : inject_Z (z + 1) == inject_Z z + 1.
Proof. rewrite inject_Z_plus. reflexivity. Qed.

(** unstaggered direction: 0 <= int(x) <= ext - 2 *)
Lemma trunc_plain ext x : in_clip_range ext x -> (0 <= qtrunc x <= ext - 2)%Z.
Proof.
  intros [A B].
  pose proof (qtrunc_bounds x 0 (ext - 1) ltac:(lia)) as H.
  change (inject_Z 0) with 0 in H. rewrite inj_sub1 in H.
  specialize (H ltac:(lra) ltac:(lra)). lia.
Qed.
(** staggered direction (+1/2), extent ext + 1: 0 <= int(x + 1/2) <= ext - 1 *)
Lemma trunc_stagger ext x : in_clip_range ext x -> (0 <= qtrunc (x + (1#2)) <= (ext + 1) - 2)%Z.
Proof.
  intros [A B].
  pose proof (qtrunc_bounds (x + (1#2)) 0 ext ltac:(lia)) as H.
  change (inject_Z 0) with 0 in H.
  specialize (H ltac:(lra) ltac:(lra)). lia.
Qed.
Lemma round_plain ext x : in_clip_range ext x -> (0 <= qround x <= ext - 1)%Z.
Proof.
  intros [A B]. apply qround_bounds; [change (inject_Z 0) with 0; lra|rewrite inj_sub1; lra].
Qed.
Lemma round_stagger ext x : in_clip_range ext x -> (0 <= qround (x + (1#2)) <= ext)%Z.
Proof.
  intros [A B]. apply qround_bounds; [change (inject_Z 0) with 0; lra|lra].
Qed.

Lemma sample3DUV_reads_in_bounds U V imax jmax x y k a m :
  a_j U = jmax -> a_i U = (imax + 1)%Z -> a_j V = (jmax + 1)%Z -> a_i V = imax -> a_n V = a_n U ->
  (1 <= k <= a_n U - 1)%Z -> in_clip_range imax x -> in_clip_range jmax y ->
  forallb (in_shape (a_n U) jmax (imax + 1)) (snd (fst (sample3DUV U V x y k a m))) = true /\
  forallb (in_shape (a_n U) (jmax + 1) imax) (snd (snd (sample3DUV U V x y k a m))) = true.
Proof.
  intros _ _ _ _ _ Hk Hx Hy. unfold sample3DUV, sample3D. cbn [fst snd].
  destruct m.
  - cbn [trilinear snd]. split; apply tri_idx_in_shape; try exact Hk.
    + apply trunc_stagger, Hx.
    + apply trunc_plain, Hy.
    + apply trunc_plain, Hx.
    + apply trunc_stagger, Hy.
  - cbn [nearest snd forallb]. rewrite !andb_true_r.
    pose proof (round_plain _ _ Hx). pose proof (round_plain _ _ Hy).
    pose proof (round_stagger _ _ Hx). pose proof (round_stagger _ _ Hy).
    split; apply in_shape_true; lia.
Qed.

Lemma nearest_reads_in_bounds F imax jmax x y k :
  (0 <= k <= a_n F - 1)%Z -> in_clip_range imax x -> in_clip_range jmax y ->
  forallb (in_shape (a_n F) jmax imax) (snd (nearest F x y k)) = true.
Proof.
  intros Hk Hx Hy. cbn [nearest snd forallb]. rewrite andb_true_r.
  pose proof (round_plain _ _ Hx). pose proof (round_plain _ _ Hy). apply in_shape_true; lia.
Qed.

(** clipped and valid positions are in the range *)
Lemma clip1_range lo hi x : lo <= hi -> lo <= clip1 lo hi x <= hi.
Proof.
  intro H. unfold clip1.
  destruct (Qmax'_spec (Qmin' x hi) lo) as (A & B & C).
  destruct (Qmin'_spec x hi) as (D & E & F).
  split; [exact B|]. destruct C as [C|C]; rewrite C; [exact E|exact H].
Qed.
Lemma clip_x_local g X : (2 <= g_imax g)%Z ->
  in_clip_range (g_imax g) (clip_x g X - inject_Z (g_i0 g)).
Proof.
  intro H. unfold clip_x, g_xmin, g_xmax, in_clip_range, g_imax in *.
  assert (E : inject_Z (g_i1 g - g_i0 g) == inject_Z (g_i1 g) - inject_Z (g_i0 g)) by (rewrite inject_Z_minus; reflexivity).
  assert (L : inject_Z 2 <= inject_Z (g_i1 g - g_i0 g)) by (rewrite <- Zle_Qle; exact H).
  change (inject_Z 2) with 2 in L.
  pose proof (inj_sub1 (g_i1 g)) as E1.
  pose proof (clip1_range (inject_Z (g_i0 g) + (1#100)) (inject_Z (g_i1 g - 1) - (1#100)) X ltac:(lra)) as C.
  lra.
Qed.
Lemma clip_y_local g Y : (2 <= g_jmax g)%Z ->
  in_clip_range (g_jmax g) (clip_y g Y - inject_Z (g_j0 g)).
Proof.
  intro H. unfold clip_y, g_ymin, g_ymax, in_clip_range, g_jmax in *.
  assert (E : inject_Z (g_j1 g - g_j0 g) == inject_Z (g_j1 g) - inject_Z (g_j0 g)) by (rewrite inject_Z_minus; reflexivity).
  assert (L : inject_Z 2 <= inject_Z (g_j1 g - g_j0 g)) by (rewrite <- Zle_Qle; exact H).
  change (inject_Z 2) with 2 in L.
  pose proof (inj_sub1 (g_j1 g)) as E1.
  pose proof (clip1_range (inject_Z (g_j0 g) + (1#100)) (inject_Z (g_j1 g - 1) - (1#100)) Y ltac:(lra)) as C.
  lra.
Qed.

Lemma in_valid_true g X Y : in_valid g X Y = true <->
  (g_xmin g + (1#2) < X /\ X < g_xmax g - (1#2) /\ g_ymin g + (1#2) < Y /\ Y < g_ymax g - (1#2)).
Proof. unfold in_valid. rewrite !andb_true_iff, !Qlt_bool_true. tauto. Qed.

Lemma valid_local g X Y : in_valid g X Y = true ->
  (1#2) < X - inject_Z (g_i0 g) < inject_Z (g_imax g) - (3#2) /\
  (1#2) < Y - inject_Z (g_j0 g) < inject_Z (g_jmax g) - (3#2).
Proof.
  intro H. apply in_valid_true in H. unfold g_xmin, g_xmax, g_ymin, g_ymax, g_imax, g_jmax in *.
  rewrite !inject_Z_minus in *. change (inject_Z 1) with 1 in H. lra.
Qed.
Lemma valid_in_clip_range g X Y : in_valid g X Y = true ->
  in_clip_range (g_imax g) (X - inject_Z (g_i0 g)) /\ in_clip_range (g_jmax g) (Y - inject_Z (g_j0 g)).
Proof. intro H. apply valid_local in H. unfold in_clip_range. lra. Qed.

(* ------------------------------------------------------------------ part 4 *)
Open Scope Q_scope.

Lemma getd_some F k j i v : get3 F k j i = Some v -> getd F k j i = v.
Proof. intro H. unfold getd. rewrite H. reflexivity. Qed.
Lemma getd_mk3 n jn im f k j i :
  (0 <= k < n)%Z -> (0 <= j < jn)%Z -> (0 <= i < im)%Z -> getd (mk3 n jn im f) k j i = f k j i.
Proof. intros. apply getd_some, get3_mk3; assumption. Qed.

Lemma get3_slice3 F jlo jhi ilo ihi k j i :
  (0 <= k < a_n F)%Z -> (0 <= j < jhi - jlo)%Z -> (0 <= i < ihi - ilo)%Z ->
  get3 (slice3 F jlo jhi ilo ihi) k j i = Some (getd F k (j + jlo) (i + ilo)).
Proof. intros. unfold slice3. rewrite get3_mk3 by assumption. reflexivity. Qed.
Lemma get3_mul_mask F M2 k j i :
  (0 <= k < a_n F)%Z -> (0 <= j < a_j F)%Z -> (0 <= i < a_i F)%Z ->
  get3 (mul_mask F M2) k j i = Some (getd F k j i * getd M2 0 j i).
Proof. intros. unfold mul_mask. rewrite get3_mk3 by assumption. reflexivity. Qed.
Lemma getd_amap f F k j i v : get3 F k j i = Some v -> getd (amap f F) k j i = f v.
Proof. intro H. apply getd_some. rewrite get3_amap, H. reflexivity. Qed.

(** * global description of what _read_velocity leaves in the arrays *)
(** scaling of U and V as coded (both under scaled["u"]) and of scalars *)
Definition sc_u (pu : packing) (v : Q) : Q := if scaled pu then scale_factor pu * v else v.
Definition sc_v (pu pv : packing) (v : Q) : Q := if scaled pu then scale_factor pv * v else v.
Definition sc_f (pf : packing) (v : Q) : Q := if scaled pf then add_offset pf + scale_factor pf * v else v.
(** integer land mask of the rho-cell with GLOBAL indices (J, I) *)
Definition mt (mask : arr3) (J I : Z) : Q := inject_Z (qtrunc (getd mask 0 J I)).
(** masked, unpacked u at the file's u-point (J, I) — the face between rho-cells (J, I) and (J, I+1) *)
Definition gU (mask fu : arr3) (pu : packing) (k J I : Z) : Q :=
  sc_u pu (getd fu k J I) * (mt mask J I * mt mask J (I + 1)).
(** masked, unpacked v at the file's v-point (J, I) — the face between rho-cells (J, I) and (J+1, I) *)
Definition gV (mask fv : arr3) (pu pv : packing) (k J I : Z) : Q :=
  sc_v pu pv (getd fv k J I) * (mt mask J I * mt mask (J + 1) I).

Lemma M_local mask g j i :
  (1 <= a_n mask)%Z -> (0 <= j < g_jmax g)%Z -> (0 <= i < g_imax g)%Z ->
  getd (mask_M mask g) 0 j i = mt mask (j + g_j0 g) (i + g_i0 g).
Proof.
  intros Hn Hj Hi. unfold mask_M, mt.
  apply (getd_amap (fun v => inject_Z (qtrunc v))).
  apply get3_slice3; unfold g_jmax, g_imax in *; lia.
Qed.
Lemma M_shape mask g : a_j (mask_M mask g) = g_jmax g /\ a_i (mask_M mask g) = g_imax g.
Proof. split; reflexivity. Qed.

(** interior u-faces: product of the two adjacent rho-cells *)
Lemma Mu_interior mask g j i :
  (1 <= a_n mask)%Z -> (0 <= j < g_jmax g)%Z -> (1 <= i <= g_imax g - 1)%Z ->
  getd (mask_Mu (mask_M mask g)) 0 j i =
  mt mask (j + g_j0 g) (i + g_i0 g - 1) * mt mask (j + g_j0 g) (i + g_i0 g).
Proof.
  intros Hn Hj Hi. unfold mask_Mu. destruct (M_shape mask g) as [Ej Ei]. rewrite Ej, Ei.
  rewrite getd_mk3 by lia.
  destruct (Z.eqb_spec i 0) as [E|_]; [lia|]. destruct (Z.eqb_spec i (g_imax g)) as [E|_]; [lia|].
  rewrite !M_local by lia. replace (i - 1 + g_i0 g)%Z with (i + g_i0 g - 1)%Z by lia. reflexivity.
Qed.
(** boundary u-faces carry the mask of the single loaded cell next to them *)
Lemma Mu_boundary mask g j :
  (1 <= a_n mask)%Z -> (0 <= j < g_jmax g)%Z -> (1 <= g_imax g)%Z ->
  getd (mask_Mu (mask_M mask g)) 0 j 0 = mt mask (j + g_j0 g) (g_i0 g) /\
  getd (mask_Mu (mask_M mask g)) 0 j (g_imax g) = mt mask (j + g_j0 g) (g_i1 g - 1).
Proof.
  intros Hn Hj Hi. unfold mask_Mu. destruct (M_shape mask g) as [Ej Ei]. rewrite Ej, Ei.
  rewrite !getd_mk3 by lia. cbn [Z.eqb].
  destruct (Z.eqb_spec (g_imax g) 0) as [E|_]; [lia|]. rewrite Z.eqb_refl.
  rewrite !M_local by lia. unfold g_imax. split; f_equal; lia.
Qed.
Lemma Mv_interior mask g j i :
  (1 <= a_n mask)%Z -> (1 <= j <= g_jmax g - 1)%Z -> (0 <= i < g_imax g)%Z ->
  getd (mask_Mv (mask_M mask g)) 0 j i =
  mt mask (j + g_j0 g - 1) (i + g_i0 g) * mt mask (j + g_j0 g) (i + g_i0 g).
Proof.
  intros Hn Hj Hi. unfold mask_Mv. destruct (M_shape mask g) as [Ej Ei]. rewrite Ej, Ei.
  rewrite getd_mk3 by lia.
  destruct (Z.eqb_spec j 0) as [E|_]; [lia|]. destruct (Z.eqb_spec j (g_jmax g)) as [E|_]; [lia|].
  rewrite !M_local by lia. replace (j - 1 + g_j0 g)%Z with (j + g_j0 g - 1)%Z by lia. reflexivity.
Qed.

(** index shift: local element of the sliced, unpacked, masked array = global element of the file *)
Lemma read_u_interior mask fu fv pu pv g k j i :
  (1 <= a_n mask)%Z -> (0 <= k < a_n fu)%Z -> (0 <= j < g_jmax g)%Z -> (1 <= i <= g_imax g - 1)%Z ->
  get3 (fst (read_velocity (grid_of mask g) fu fv pu pv)) k j i
  = Some (gU mask fu pu k (j + g_j0 g) (i + g_i0 g - 1)).
Proof.
  intros Hn Hk Hj Hi. unfold read_velocity, grid_of. cbn [fst gr_sub gr_Mu gr_Mv gr_M].
  assert (S : get3 (slice3 fu (g_j0 g) (g_j1 g) (g_i0 g - 1) (g_i1 g)) k j i
              = Some (getd fu k (j + g_j0 g) (i + (g_i0 g - 1)))).
  { apply get3_slice3; unfold g_jmax, g_imax in *; lia. }
  unfold gU, sc_u. replace (i + g_i0 g - 1 + 1)%Z with (i + g_i0 g)%Z by lia.
  replace (i + (g_i0 g - 1))%Z with (i + g_i0 g - 1)%Z in S by lia.
  destruct (scaled pu).
  - rewrite get3_mul_mask by (cbn [amap slice3 mk3 a_n a_j a_i]; unfold g_jmax, g_imax in *; lia).
    rewrite (getd_amap _ _ _ _ _ _ S). rewrite Mu_interior by assumption. reflexivity.
  - rewrite get3_mul_mask by (cbn [slice3 mk3 a_n a_j a_i]; unfold g_jmax, g_imax in *; lia).
    rewrite (getd_some _ _ _ _ _ S). rewrite Mu_interior by assumption. reflexivity.
Qed.
Lemma read_v_interior mask fu fv pu pv g k j i :
  (1 <= a_n mask)%Z -> (0 <= k < a_n fv)%Z -> (1 <= j <= g_jmax g - 1)%Z -> (0 <= i < g_imax g)%Z ->
  get3 (snd (read_velocity (grid_of mask g) fu fv pu pv)) k j i
  = Some (gV mask fv pu pv k (j + g_j0 g - 1) (i + g_i0 g)).
Proof.
  intros Hn Hk Hj Hi. unfold read_velocity, grid_of. cbn [snd gr_sub gr_Mu gr_Mv gr_M].
  assert (S : get3 (slice3 fv (g_j0 g - 1) (g_j1 g) (g_i0 g) (g_i1 g)) k j i
              = Some (getd fv k (j + (g_j0 g - 1)) (i + g_i0 g))).
  { apply get3_slice3; unfold g_jmax, g_imax in *; lia. }
  unfold gV, sc_v. replace (j + g_j0 g - 1 + 1)%Z with (j + g_j0 g)%Z by lia.
  replace (j + (g_j0 g - 1))%Z with (j + g_j0 g - 1)%Z in S by lia.
  destruct (scaled pu).
  - rewrite get3_mul_mask by (cbn [amap slice3 mk3 a_n a_j a_i]; unfold g_jmax, g_imax in *; lia).
    rewrite (getd_amap _ _ _ _ _ _ S). rewrite Mv_interior by assumption. reflexivity.
  - rewrite get3_mul_mask by (cbn [slice3 mk3 a_n a_j a_i]; unfold g_jmax, g_imax in *; lia).
    rewrite (getd_some _ _ _ _ _ S). rewrite Mv_interior by assumption. reflexivity.
Qed.
Lemma read_field_local mask ff pf g k j i :
  (0 <= k < a_n ff)%Z -> (0 <= j < g_jmax g)%Z -> (0 <= i < g_imax g)%Z ->
  get3 (read_field (grid_of mask g) ff pf) k j i = Some (sc_f pf (getd ff k (j + g_j0 g) (i + g_i0 g))).
Proof.
  intros Hk Hj Hi. unfold read_field, grid_of, sc_f. cbn [gr_sub].
  assert (S : get3 (slice3 ff (g_j0 g) (g_j1 g) (g_i0 g) (g_i1 g)) k j i
              = Some (getd ff k (j + g_j0 g) (i + g_i0 g))).
  { apply get3_slice3; unfold g_jmax, g_imax in *; lia. }
  destruct (scaled pf); [rewrite get3_amap, S; reflexivity|exact S].
Qed.

(* ------------------------------------------------------------------ part 5 *)
Open Scope Q_scope.

Lemma tri_formula_compat a p p' q q' v1 v2 v3 v4 v5 v6 v7 v8 :
  p == p' -> q == q' ->
  tri_formula a p q v1 v2 v3 v4 v5 v6 v7 v8 == tri_formula a p' q' v1 v2 v3 v4 v5 v6 v7 v8.
Proof. intros Hp Hq. unfold tri_formula. rewrite Hp, Hq. reflexivity. Qed.

Lemma read_u_at mask fu fv pu pv g k j i J I :
  (j = J - g_j0 g)%Z -> (i = I - g_i0 g + 1)%Z ->
  (1 <= a_n mask)%Z -> (0 <= k < a_n fu)%Z -> (0 <= j < g_jmax g)%Z -> (1 <= i <= g_imax g - 1)%Z ->
  get3 (fst (read_velocity (grid_of mask g) fu fv pu pv)) k j i = Some (gU mask fu pu k J I).
Proof.
  intros Ej Ei Hn Hk Hj Hi. rewrite read_u_interior by assumption.
  replace (j + g_j0 g)%Z with J by lia. replace (i + g_i0 g - 1)%Z with I by lia. reflexivity.
Qed.
Lemma read_v_at mask fu fv pu pv g k j i J I :
  (j = J - g_j0 g + 1)%Z -> (i = I - g_i0 g)%Z ->
  (1 <= a_n mask)%Z -> (0 <= k < a_n fv)%Z -> (1 <= j <= g_jmax g - 1)%Z -> (0 <= i < g_imax g)%Z ->
  get3 (snd (read_velocity (grid_of mask g) fu fv pu pv)) k j i = Some (gV mask fv pu pv k J I).
Proof.
  intros Ej Ei Hn Hk Hj Hi. rewrite read_v_interior by assumption.
  replace (j + g_j0 g - 1)%Z with J by lia. replace (i + g_i0 g)%Z with I by lia. reflexivity.
Qed.

(** the subgrid-free description of the sampled velocity *)
Open Scope Z_scope.
Definition ref_u (mask fu : arr3) (pu : packing) (X Y : Q) (K : Z) (A : Q) : Q :=
  let IF := qfloor (X + (1#2))%Q in
  let JF := qfloor Y in
  let g := gU mask fu pu in
  tri_formula A (X + (1#2) - inject_Z IF)%Q (Y - inject_Z JF)%Q
    (g (K - 1) JF (IF - 1)) (g K JF (IF - 1)) (g (K - 1) (JF + 1) (IF - 1)) (g K (JF + 1) (IF - 1))
    (g (K - 1) JF IF) (g K JF IF) (g (K - 1) (JF + 1) IF) (g K (JF + 1) IF).
Definition ref_v (mask fv : arr3) (pu pv : packing) (X Y : Q) (K : Z) (A : Q) : Q :=
  let IF := qfloor X in
  let JF := qfloor (Y + (1#2))%Q in
  let g := gV mask fv pu pv in
  tri_formula A (X - inject_Z IF)%Q (Y + (1#2) - inject_Z JF)%Q
    (g (K - 1) (JF - 1) IF) (g K (JF - 1) IF) (g (K - 1) JF IF) (g K JF IF)
    (g (K - 1) (JF - 1) (IF + 1)) (g K (JF - 1) (IF + 1)) (g (K - 1) JF (IF + 1)) (g K JF (IF + 1)).
Open Scope Q_scope.

Lemma file_velocity_eq mask fu fv pu pv g X Y K A :
  file_velocity mask fu fv pu pv g X Y K A =
  velocity (grid_of mask g) (fst (read_velocity (grid_of mask g) fu fv pu pv))
           (snd (read_velocity (grid_of mask g) fu fv pu pv)) X Y K A Bilinear.
Proof. unfold file_velocity. destruct (read_velocity _ _ _ _ _). reflexivity. Qed.

(** local integer parts in terms of the global position *)
Lemma local_stagger X n ext :
  (1#2) < X - inject_Z n < inject_Z ext - (3#2) ->
  qtrunc (X - inject_Z n + (1#2)) = (qfloor (X + (1#2)) - n)%Z /\
  (1 <= qfloor (X + (1#2)) - n <= ext - 2)%Z.
Proof.
  intros [A B].
  assert (E : qtrunc (X - inject_Z n + (1#2)) = (qfloor (X + (1#2)) - n)%Z).
  { apply qtrunc_shift; [ring|lra]. }
  split; [exact E|]. rewrite <- E.
  pose proof (qtrunc_bounds (X - inject_Z n + (1#2)) 1 (ext - 1) ltac:(lia)) as H.
  rewrite inj_sub1 in H. change (inject_Z 1) with 1 in H.
  specialize (H ltac:(lra) ltac:(lra)). lia.
Qed.
Lemma local_plain X n ext :
  (1#2) < X - inject_Z n < inject_Z ext - (3#2) ->
  qtrunc (X - inject_Z n) = (qfloor X - n)%Z /\ (0 <= qfloor X - n <= ext - 2)%Z.
Proof.
  intros [A B].
  assert (E : qtrunc (X - inject_Z n) = (qfloor X - n)%Z).
  { apply qtrunc_shift; [reflexivity|lra]. }
  split; [exact E|]. rewrite <- E.
  pose proof (qtrunc_bounds (X - inject_Z n) 0 (ext - 1) ltac:(lia)) as H.
  rewrite inj_sub1 in H. change (inject_Z 0) with 0 in H.
  specialize (H ltac:(lra) ltac:(lra)). lia.
Qed.

Lemma file_velocity_u_ref mask fu fv pu pv g X Y K A :
  (1 <= a_n mask)%Z -> in_valid g X Y = true -> (1 <= K <= a_n fu - 1)%Z ->
  exists r, fst (fst (file_velocity mask fu fv pu pv g X Y K A)) = Some r /\
            r == ref_u mask fu pu X Y K A.
Proof.
  intros Hn Hv HK. rewrite file_velocity_eq. unfold velocity, sample3DUV, sample3D. cbn [fst gr_sub grid_of].
  destruct (valid_local g X Y Hv) as [HX HY].
  destruct (local_stagger X (g_i0 g) (g_imax g) HX) as [Ei Bi].
  destruct (local_plain Y (g_j0 g) (g_jmax g) HY) as [Ej Bj].
  set (IF := qfloor (X + (1#2))) in *. set (JF := qfloor Y) in *.
  set (U := fst (read_velocity (grid_of mask g) fu fv pu pv)).
  pose proof (trilinear_some U (X - inject_Z (g_i0 g) + (1#2)) (Y - inject_Z (g_j0 g)) K A) as T.
  cbv zeta in T. rewrite Ei, Ej in T.
  specialize (T (gU mask fu pu (K - 1) JF (IF - 1)) (gU mask fu pu K JF (IF - 1))
                (gU mask fu pu (K - 1) (JF + 1) (IF - 1)) (gU mask fu pu K (JF + 1) (IF - 1))
                (gU mask fu pu (K - 1) JF IF) (gU mask fu pu K JF IF)
                (gU mask fu pu (K - 1) (JF + 1) IF) (gU mask fu pu K (JF + 1) IF))%Z.
  rewrite T; try (apply read_u_at; lia).
  eexists; split; [reflexivity|]. unfold ref_u. fold IF JF.
  apply tri_formula_compat; unfold fracx; [rewrite Ei|rewrite Ej]; rewrite inject_Z_minus; ring.
Qed.

Lemma file_velocity_v_ref mask fu fv pu pv g X Y K A :
  (1 <= a_n mask)%Z -> in_valid g X Y = true -> (1 <= K <= a_n fv - 1)%Z ->
  exists r, fst (snd (file_velocity mask fu fv pu pv g X Y K A)) = Some r /\
            r == ref_v mask fv pu pv X Y K A.
Proof.
  intros Hn Hv HK. rewrite file_velocity_eq. unfold velocity, sample3DUV, sample3D. cbn [snd gr_sub grid_of].
  destruct (valid_local g X Y Hv) as [HX HY].
  destruct (local_plain X (g_i0 g) (g_imax g) HX) as [Ei Bi].
  destruct (local_stagger Y (g_j0 g) (g_jmax g) HY) as [Ej Bj].
  set (IF := qfloor X) in *. set (JF := qfloor (Y + (1#2))) in *.
  set (V := snd (read_velocity (grid_of mask g) fu fv pu pv)).
  pose proof (trilinear_some V (X - inject_Z (g_i0 g)) (Y - inject_Z (g_j0 g) + (1#2)) K A) as T.
  cbv zeta in T. rewrite Ei, Ej in T.
  specialize (T (gV mask fv pu pv (K - 1) (JF - 1) IF) (gV mask fv pu pv K (JF - 1) IF)
                (gV mask fv pu pv (K - 1) JF IF) (gV mask fv pu pv K JF IF)
                (gV mask fv pu pv (K - 1) (JF - 1) (IF + 1)) (gV mask fv pu pv K (JF - 1) (IF + 1))
                (gV mask fv pu pv (K - 1) JF (IF + 1)) (gV mask fv pu pv K JF (IF + 1)))%Z.
  rewrite T; try (apply read_v_at; lia).
  eexists; split; [reflexivity|]. unfold ref_v. fold IF JF.
  apply tri_formula_compat; unfold fracx; [rewrite Ei|rewrite Ej]; rewrite inject_Z_minus; ring.
Qed.

(* ------------------------------------------------------------------ part 6 *)
Open Scope Q_scope.

(** * T1 *)
Lemma trilinear_convex F x y k a r :
  fst (trilinear F x y k a) = Some r ->
  exists vs, map (get_idx F) (tri_idx x y k) = map Some vs /\
    r == qdot (tri_weights a (fracx x) (fracx y)) vs /\
    qsum (tri_weights a (fracx x) (fracx y)) == 1 /\
    (0 <= a <= 1 -> 0 <= x -> 0 <= y ->
       Forall (fun w => 0 <= w) (tri_weights a (fracx x) (fracx y)) /\
       forall lo hi, Forall (fun v => lo <= v <= hi) vs -> lo <= r <= hi).
Proof.
  intro H. destruct (trilinear_inv _ _ _ _ _ _ H) as (v1 & v2 & v3 & v4 & v5 & v6 & v7 & v8 & Hm & ->).
  exists [v1; v2; v3; v4; v5; v6; v7; v8]. split; [exact Hm|].
  split; [apply tri_formula_dot|]. split; [apply tri_weights_sum|].
  intros Ha Hx Hy.
  assert (W : Forall (fun w => 0 <= w) (tri_weights a (fracx x) (fracx y))).
  { apply tri_weights_nonneg; [exact Ha|pose proof (frac_range x Hx); lra|pose proof (frac_range y Hy); lra]. }
  split; [exact W|]. intros lo hi Hv.
  pose proof (qdot_bounds (tri_weights a (fracx x) (fracx y)) [v1; v2; v3; v4; v5; v6; v7; v8] lo hi
                eq_refl W Hv) as B.
  rewrite tri_weights_sum in B. rewrite tri_formula_dot. lra.
Qed.

(** * T2: exactness on fields that are linear in x and y on the two levels *)
Definition reads_as (F : arr3) (k j i : Z) (v : Q) : Prop := exists w, get3 F k j i = Some w /\ w == v.

Lemma tri_formula_linear a x y i j al0 al1 be ga v1 v2 v3 v4 v5 v6 v7 v8 :
  v1 == al0 + be * i + ga * j -> v2 == al1 + be * i + ga * j ->
  v3 == al0 + be * i + ga * (j + 1) -> v4 == al1 + be * i + ga * (j + 1) ->
  v5 == al0 + be * (i + 1) + ga * j -> v6 == al1 + be * (i + 1) + ga * j ->
  v7 == al0 + be * (i + 1) + ga * (j + 1) -> v8 == al1 + be * (i + 1) + ga * (j + 1) ->
  tri_formula a (x - i) (y - j) v1 v2 v3 v4 v5 v6 v7 v8
  == a * (al0 + be * x + ga * y) + (1 - a) * (al1 + be * x + ga * y).
Proof.
  intros E1 E2 E3 E4 E5 E6 E7 E8. unfold tri_formula.
  rewrite E1, E2, E3, E4, E5, E6, E7, E8. ring.
Qed.

(** the kernel in its own coordinates: node (j, i) sits at (i, j) *)
Lemma trilinear_exact_on_linear F x y k a al0 al1 be ga :
  let i := qtrunc x in let j := qtrunc y in
  (forall dj di, (dj = 0 \/ dj = 1)%Z -> (di = 0 \/ di = 1)%Z ->
     reads_as F (k - 1) (j + dj) (i + di) (al0 + be * inject_Z (i + di) + ga * inject_Z (j + dj)) /\
     reads_as F k (j + dj) (i + di) (al1 + be * inject_Z (i + di) + ga * inject_Z (j + dj))) ->
  exists r, fst (trilinear F x y k a) = Some r /\
            r == a * (al0 + be * x + ga * y) + (1 - a) * (al1 + be * x + ga * y).
Proof.
  intros i j H.
  destruct (H 0%Z 0%Z) as ((v1 & G1 & E1) & (v2 & G2 & E2)); try (left; reflexivity).
  destruct (H 1%Z 0%Z) as ((v3 & G3 & E3) & (v4 & G4 & E4)); try (left; reflexivity); try (right; reflexivity).
  destruct (H 0%Z 1%Z) as ((v5 & G5 & E5) & (v6 & G6 & E6)); try (left; reflexivity); try (right; reflexivity).
  destruct (H 1%Z 1%Z) as ((v7 & G7 & E7) & (v8 & G8 & E8)); try (right; reflexivity).
  rewrite !Z.add_0_r in *.
  exists (tri_formula a (fracx x) (fracx y) v1 v2 v3 v4 v5 v6 v7 v8). split.
  - apply trilinear_some; assumption.
  - unfold fracx. fold i j. rewrite !inject_Z_plus in *. change (inject_Z 1) with 1 in *.
    apply tri_formula_linear; assumption.
Qed.

(** through sample3DUV: the u-node (j, i) of the subgrid array sits at local (i - 1/2, j), the v-node at
    (i, j - 1/2) *)
Lemma sample3DUV_exact_on_linear U V x y k a au0 au1 bu gu av0 av1 bv gv :
  let iu := qtrunc (x + (1#2)) in let ju := qtrunc y in
  let iv := qtrunc x in let jv := qtrunc (y + (1#2)) in
  (forall dj di, (dj = 0 \/ dj = 1)%Z -> (di = 0 \/ di = 1)%Z ->
     reads_as U (k - 1) (ju + dj) (iu + di) (au0 + bu * (inject_Z (iu + di) - (1#2)) + gu * inject_Z (ju + dj)) /\
     reads_as U k (ju + dj) (iu + di) (au1 + bu * (inject_Z (iu + di) - (1#2)) + gu * inject_Z (ju + dj))) ->
  (forall dj di, (dj = 0 \/ dj = 1)%Z -> (di = 0 \/ di = 1)%Z ->
     reads_as V (k - 1) (jv + dj) (iv + di) (av0 + bv * inject_Z (iv + di) + gv * (inject_Z (jv + dj) - (1#2))) /\
     reads_as V k (jv + dj) (iv + di) (av1 + bv * inject_Z (iv + di) + gv * (inject_Z (jv + dj) - (1#2)))) ->
  exists ru rv,
    fst (fst (sample3DUV U V x y k a Bilinear)) = Some ru /\
    fst (snd (sample3DUV U V x y k a Bilinear)) = Some rv /\
    ru == a * (au0 + bu * x + gu * y) + (1 - a) * (au1 + bu * x + gu * y) /\
    rv == a * (av0 + bv * x + gv * y) + (1 - a) * (av1 + bv * x + gv * y).
Proof.
  intros iu ju iv jv HU HV. subst iu ju iv jv. unfold sample3DUV, sample3D. cbn [fst snd].
  destruct (trilinear_exact_on_linear U (x + (1#2)) y k a (au0 - bu * (1#2)) (au1 - bu * (1#2)) bu gu) as (ru & Ru & Eu).
  { intros dj di Hdj Hdi. destruct (HU dj di Hdj Hdi) as ((w1 & G1 & E1) & (w2 & G2 & E2)).
    split; [exists w1|exists w2]; (split; [assumption|]).
    - rewrite E1. ring.
    - rewrite E2. ring. }
  destruct (trilinear_exact_on_linear V x (y + (1#2)) k a (av0 - gv * (1#2)) (av1 - gv * (1#2)) bv gv) as (rv & Rv & Ev).
  { intros dj di Hdj Hdi. destruct (HV dj di Hdj Hdi) as ((w1 & G1 & E1) & (w2 & G2 & E2)).
    split; [exists w1|exists w2]; (split; [assumption|]).
    - rewrite E1. ring.
    - rewrite E2. ring. }
  exists ru, rv. repeat split; try assumption.
  - rewrite Eu. ring.
  - rewrite Ev. ring.
Qed.

(* ------------------------------------------------------------------ part 7 *)
Open Scope Q_scope.

Lemma legal_true imax0 jmax0 g : legal imax0 jmax0 g = true <->
  (1 <= g_i0 g < g_i1 g /\ g_i1 g <= imax0 - 1 /\ 1 <= g_j0 g < g_j1 g /\ g_j1 g <= jmax0 - 1)%Z.
Proof. unfold legal. rewrite !andb_true_iff, !Z.leb_le, !Z.ltb_lt. lia. Qed.

(** global integer parts of a valid position *)
Lemma valid_global g X Y : in_valid g X Y = true ->
  (g_i0 g + 1 <= qfloor (X + (1#2)) <= g_i1 g - 2 /\ g_j0 g <= qfloor Y <= g_j1 g - 2 /\
   g_i0 g <= qfloor X <= g_i1 g - 2 /\ g_j0 g + 1 <= qfloor (Y + (1#2)) <= g_j1 g - 2 /\
   g_i0 g + 1 <= qround X <= g_i1 g - 2 /\ g_j0 g + 1 <= qround Y <= g_j1 g - 2)%Z.
Proof.
  intro Hv. destruct (valid_local g X Y Hv) as [HX HY].
  destruct (local_stagger X (g_i0 g) (g_imax g) HX) as [_ B1].
  destruct (local_plain Y (g_j0 g) (g_jmax g) HY) as [_ B2].
  destruct (local_plain X (g_i0 g) (g_imax g) HX) as [_ B3].
  destruct (local_stagger Y (g_j0 g) (g_jmax g) HY) as [_ B4].
  unfold g_imax, g_jmax in *.
  assert (B5 : (g_i0 g + 1 <= qround X <= g_i1 g - 2)%Z).
  { apply qround_bounds; [rewrite inject_Z_plus|rewrite inject_Z_minus];
      rewrite inject_Z_minus in HX; change (inject_Z 1) with 1; change (inject_Z 2) with 2; lra. }
  assert (B6 : (g_j0 g + 1 <= qround Y <= g_j1 g - 2)%Z).
  { apply qround_bounds; [rewrite inject_Z_plus|rewrite inject_Z_minus];
      rewrite inject_Z_minus in HY; change (inject_Z 1) with 1; change (inject_Z 2) with 2; lra. }
  lia.
Qed.

(** * T2 at file level: a u-field linear in the GLOBAL coordinates of its own points (I + 1/2, J) *)
Lemma ref_u_linear mask fu pu X Y K A (al : Z -> Q) be ga :
  let IF := qfloor (X + (1#2)) in let JF := qfloor Y in
  (forall J I, (JF <= J <= JF + 1)%Z -> (IF - 1 <= I <= IF + 1)%Z -> mt mask J I == 1) ->
  (forall k J I, (K - 1 <= k <= K)%Z -> (JF <= J <= JF + 1)%Z -> (IF - 1 <= I <= IF)%Z ->
     sc_u pu (getd fu k J I) == al k + be * (inject_Z I + (1#2)) + ga * inject_Z J) ->
  ref_u mask fu pu X Y K A == A * (al (K - 1)%Z + be * X + ga * Y) + (1 - A) * (al K + be * X + ga * Y).
Proof.
  intros IF JF HM HF. unfold ref_u. fold IF JF.
  assert (G : forall k J I, (K - 1 <= k <= K)%Z -> (JF <= J <= JF + 1)%Z -> (IF - 1 <= I <= IF)%Z ->
              gU mask fu pu k J I == al k + be * (inject_Z I + (1#2)) + ga * inject_Z J).
  { intros k J I Hk HJ HI. unfold gU. rewrite (HM J I), (HM J (I + 1)%Z), (HF k J I) by lia. ring. }
  pose proof (tri_formula_linear A (X + (1#2)) Y (inject_Z IF) (inject_Z JF) (al (K - 1)%Z - be * (1#2)) (al K - be * (1#2)) be ga) as L.
  rewrite L.
  - ring.
  - rewrite G by lia. rewrite inject_Z_minus. change (inject_Z 1) with 1. ring.
  - rewrite G by lia. rewrite inject_Z_minus. change (inject_Z 1) with 1. ring.
  - rewrite G by lia. rewrite inject_Z_minus, inject_Z_plus. change (inject_Z 1) with 1. ring.
  - rewrite G by lia. rewrite inject_Z_minus, inject_Z_plus. change (inject_Z 1) with 1. ring.
  - rewrite G by lia. ring.
  - rewrite G by lia. ring.
  - rewrite G by lia. rewrite inject_Z_plus. change (inject_Z 1) with 1. ring.
  - rewrite G by lia. rewrite inject_Z_plus. change (inject_Z 1) with 1. ring.
Qed.
Lemma ref_v_linear mask fv pu pv X Y K A (al : Z -> Q) be ga :
  let IF := qfloor X in let JF := qfloor (Y + (1#2)) in
  (forall J I, (JF - 1 <= J <= JF + 1)%Z -> (IF <= I <= IF + 1)%Z -> mt mask J I == 1) ->
  (forall k J I, (K - 1 <= k <= K)%Z -> (JF - 1 <= J <= JF)%Z -> (IF <= I <= IF + 1)%Z ->
     sc_v pu pv (getd fv k J I) == al k + be * inject_Z I + ga * (inject_Z J + (1#2))) ->
  ref_v mask fv pu pv X Y K A == A * (al (K - 1)%Z + be * X + ga * Y) + (1 - A) * (al K + be * X + ga * Y).
Proof.
  intros IF JF HM HF. unfold ref_v. fold IF JF.
  assert (G : forall k J I, (K - 1 <= k <= K)%Z -> (JF - 1 <= J <= JF)%Z -> (IF <= I <= IF + 1)%Z ->
              gV mask fv pu pv k J I == al k + be * inject_Z I + ga * (inject_Z J + (1#2))).
  { intros k J I Hk HJ HI. unfold gV. rewrite (HM J I), (HM (J + 1)%Z I), (HF k J I) by lia. ring. }
  pose proof (tri_formula_linear A X (Y + (1#2)) (inject_Z IF) (inject_Z JF) (al (K - 1)%Z - ga * (1#2)) (al K - ga * (1#2)) be ga) as L.
  rewrite L.
  - ring.
  - rewrite G by lia. rewrite inject_Z_minus. change (inject_Z 1) with 1. ring.
  - rewrite G by lia. rewrite inject_Z_minus. change (inject_Z 1) with 1. ring.
  - rewrite G by lia. ring.
  - rewrite G by lia. ring.
  - rewrite G by lia. rewrite inject_Z_minus, inject_Z_plus. change (inject_Z 1) with 1. ring.
  - rewrite G by lia. rewrite inject_Z_minus, inject_Z_plus. change (inject_Z 1) with 1. ring.
  - rewrite G by lia. rewrite inject_Z_plus. change (inject_Z 1) with 1. ring.
  - rewrite G by lia. rewrite inject_Z_plus. change (inject_Z 1) with 1. ring.
Qed.

(* ------------------------------------------------------------------ part 8 *)
Open Scope Q_scope.

(** * T2, file level, every legal subgrid *)
Lemma file_velocity_exact_on_linear mask fu fv pu pv imax0 jmax0 g X Y K A
      (alu alv : Z -> Q) bu gu bv gv :
  (1 <= a_n mask)%Z -> a_n fv = a_n fu ->
  legal imax0 jmax0 g = true -> in_valid g X Y = true -> (1 <= K <= a_n fu - 1)%Z ->
  (forall J I, (0 <= J < jmax0)%Z -> (0 <= I < imax0)%Z -> mt mask J I == 1) ->
  (forall k J I, (0 <= k < a_n fu)%Z -> (0 <= J < jmax0)%Z -> (0 <= I < imax0 - 1)%Z ->
     sc_u pu (getd fu k J I) == alu k + bu * (inject_Z I + (1#2)) + gu * inject_Z J) ->
  (forall k J I, (0 <= k < a_n fu)%Z -> (0 <= J < jmax0 - 1)%Z -> (0 <= I < imax0)%Z ->
     sc_v pu pv (getd fv k J I) == alv k + bv * inject_Z I + gv * (inject_Z J + (1#2))) ->
  exists ru rv,
    fst (fst (file_velocity mask fu fv pu pv g X Y K A)) = Some ru /\
    fst (snd (file_velocity mask fu fv pu pv g X Y K A)) = Some rv /\
    ru == A * (alu (K - 1)%Z + bu * X + gu * Y) + (1 - A) * (alu K + bu * X + gu * Y) /\
    rv == A * (alv (K - 1)%Z + bv * X + gv * Y) + (1 - A) * (alv K + bv * X + gv * Y).
Proof.
  intros Hn HN Hl Hv HK HM HU HV.
  apply legal_true in Hl. pose proof (valid_global g X Y Hv) as B.
  destruct (file_velocity_u_ref mask fu fv pu pv g X Y K A Hn Hv HK) as (ru & Ru & Eu).
  destruct (file_velocity_v_ref mask fu fv pu pv g X Y K A Hn Hv ltac:(lia)) as (rv & Rv & Ev).
  exists ru, rv. split; [exact Ru|]. split; [exact Rv|]. split.
  - rewrite Eu. apply ref_u_linear.
    + intros J I HJ HI. apply HM; lia.
    + intros k J I Hk HJ HI. apply HU; lia.
  - rewrite Ev. apply ref_v_linear.
    + intros J I HJ HI. apply HM; lia.
    + intros k J I Hk HJ HI. apply HV; lia.
Qed.

(** * T3 *)
Lemma subgrid_independent_velocity mask fu fv pu pv g1 g2 X Y K A :
  (1 <= a_n mask)%Z -> a_n fv = a_n fu ->
  in_valid g1 X Y = true -> in_valid g2 X Y = true -> (1 <= K <= a_n fu - 1)%Z ->
  exists u1 v1 u2 v2,
    fst (fst (file_velocity mask fu fv pu pv g1 X Y K A)) = Some u1 /\
    fst (snd (file_velocity mask fu fv pu pv g1 X Y K A)) = Some v1 /\
    fst (fst (file_velocity mask fu fv pu pv g2 X Y K A)) = Some u2 /\
    fst (snd (file_velocity mask fu fv pu pv g2 X Y K A)) = Some v2 /\
    u1 == u2 /\ v1 == v2.
Proof.
  intros Hn HN V1 V2 HK.
  destruct (file_velocity_u_ref mask fu fv pu pv g1 X Y K A Hn V1 HK) as (u1 & R1 & E1).
  destruct (file_velocity_v_ref mask fu fv pu pv g1 X Y K A Hn V1 ltac:(lia)) as (v1 & R2 & E2).
  destruct (file_velocity_u_ref mask fu fv pu pv g2 X Y K A Hn V2 HK) as (u2 & R3 & E3).
  destruct (file_velocity_v_ref mask fu fv pu pv g2 X Y K A Hn V2 ltac:(lia)) as (v2 & R4 & E4).
  exists u1, v1, u2, v2. repeat (split; [assumption|]). split; [rewrite E1, E3|rewrite E2, E4]; reflexivity.
Qed.

(** * T6 and the scalar half of T3: the scalar is the (unpacked) file value of the particle's own cell *)
Lemma nearest_value F x y k : nearest F x y k = (get3 F k (qround y) (qround x), [(k, qround y, qround x)]).
Proof. reflexivity. Qed.

Lemma file_scalar_own_cell mask ff pf g X Y K A :
  in_valid g X Y = true -> (0 <= K < a_n ff)%Z ->
  fst (file_scalar mask ff pf g X Y K A) = Some (sc_f pf (getd ff K (qround Y) (qround X))) /\
  snd (file_scalar mask ff pf g X Y K A) = [(K, fst (level_cell g X Y), snd (level_cell g X Y))] /\
  (0 <= fst (level_cell g X Y) < g_jmax g)%Z /\ (0 <= snd (level_cell g X Y) < g_imax g)%Z.
Proof.
  intros Hv HK. pose proof (valid_global g X Y Hv) as B.
  unfold file_scalar, force_scalar, sample3D, nearest, level_cell. cbn [fst snd gr_sub grid_of].
  rewrite !qround_Zdiff. unfold g_imax, g_jmax.
  split; [|split; [reflexivity|lia]].
  pose proof (read_field_local mask ff pf g K (qround Y - g_j0 g) (qround X - g_i0 g)) as R.
  unfold g_imax, g_jmax in R. rewrite R by lia.
  replace (qround Y - g_j0 g + g_j0 g)%Z with (qround Y) by lia.
  replace (qround X - g_i0 g + g_i0 g)%Z with (qround X) by lia. reflexivity.
Qed.

Lemma subgrid_independent_scalar mask ff pf g1 g2 X Y K A :
  in_valid g1 X Y = true -> in_valid g2 X Y = true -> (0 <= K < a_n ff)%Z ->
  fst (file_scalar mask ff pf g1 X Y K A) = fst (file_scalar mask ff pf g2 X Y K A) /\
  fst (file_scalar mask ff pf g1 X Y K A) <> None.
Proof.
  intros V1 V2 HK.
  destruct (file_scalar_own_cell mask ff pf g1 X Y K A V1 HK) as (E1 & _).
  destruct (file_scalar_own_cell mask ff pf g2 X Y K A V2 HK) as (E2 & _).
  rewrite E1, E2. split; [reflexivity|discriminate].
Qed.

(** the global cell handed to the level search does not depend on the subgrid *)
Lemma level_cell_global g X Y :
  (fst (level_cell g X Y) + g_j0 g = qround Y /\ snd (level_cell g X Y) + g_i0 g = qround X)%Z.
Proof. unfold level_cell. cbn [fst snd]. lia. Qed.

(** the formula used before the repair — around(X - i0) — for the regression example *)
Definition force_scalar_old (gr : grid) (F : arr3) (X Y : Q) (K : Z) (A : Q) :=
  let g := gr_sub gr in
  sample3D F (X - inject_Z (g_i0 g)) (Y - inject_Z (g_j0 g)) K A Nearest.
Definition file_scalar_old (mask ff : arr3) (pf : packing) (g : subgrid) (X Y : Q) (K : Z) (A : Q) :=
  let gr := grid_of mask g in force_scalar_old gr (read_field gr ff pf) X Y K A.

(** * T4: zero velocity through land faces *)
Lemma land_face_u mask fu pu k J I :
  mt mask J I == 0 \/ mt mask J (I + 1) == 0 -> gU mask fu pu k J I == 0.
Proof. intros [H|H]; unfold gU; rewrite H; ring. Qed.
Lemma land_face_v mask fv pu pv k J I :
  mt mask J I == 0 \/ mt mask (J + 1) I == 0 -> gV mask fv pu pv k J I == 0.
Proof. intros [H|H]; unfold gV; rewrite H; ring. Qed.
(** all four faces of a land cell carry zero velocity *)
Lemma land_cell_faces mask fu fv pu pv k J I :
  mt mask J I == 0 ->
  gU mask fu pu k J (I - 1) == 0 /\ gU mask fu pu k J I == 0 /\
  gV mask fv pu pv k (J - 1) I == 0 /\ gV mask fv pu pv k J I == 0.
Proof.
  intro H. repeat split.
  - apply land_face_u. right. replace (I - 1 + 1)%Z with I by lia. exact H.
  - apply land_face_u. left. exact H.
  - apply land_face_v. right. replace (J - 1 + 1)%Z with J by lia. exact H.
  - apply land_face_v. left. exact H.
Qed.
(** what the particle feels when the rho-column between its two u-faces is land on both rows *)
Lemma u_zero_between_land mask fu fv pu pv g X Y K A :
  (1 <= a_n mask)%Z -> in_valid g X Y = true -> (1 <= K <= a_n fu - 1)%Z ->
  mt mask (qfloor Y) (qfloor (X + (1#2))) == 0 -> mt mask (qfloor Y + 1) (qfloor (X + (1#2))) == 0 ->
  exists r, fst (fst (file_velocity mask fu fv pu pv g X Y K A)) = Some r /\ r == 0.
Proof.
  intros Hn Hv HK L0 L1.
  destruct (file_velocity_u_ref mask fu fv pu pv g X Y K A Hn Hv HK) as (r & R & E).
  exists r. split; [exact R|]. rewrite E. unfold ref_u.
  set (IF := qfloor (X + (1#2))) in *. set (JF := qfloor Y) in *.
  destruct (land_cell_faces mask fu fu pu pu (K - 1) JF IF L0) as (A1 & A2 & _).
  destruct (land_cell_faces mask fu fu pu pu K JF IF L0) as (A3 & A4 & _).
  destruct (land_cell_faces mask fu fu pu pu (K - 1) (JF + 1) IF L1) as (A5 & A6 & _).
  destruct (land_cell_faces mask fu fu pu pu K (JF + 1) IF L1) as (A7 & A8 & _).
  unfold tri_formula. rewrite A1, A2, A3, A4, A5, A6, A7, A8. ring.
Qed.

(** * T7: packing *)
Lemma packed_face_value mask fu pu k J I :
  gU mask fu pu k J I ==
  (if scaled pu then scale_factor pu * getd fu k J I else getd fu k J I) * (mt mask J I * mt mask J (I + 1)).
Proof. reflexivity. Qed.
Lemma packed_scaling_u mask fu pu X Y K A s :
  scaled pu = true -> scale_factor pu == s ->
  ref_u mask fu pu X Y K A == s * ref_u mask fu unpacked X Y K A.
Proof.
  intros Hs Es. unfold ref_u, gU, sc_u, tri_formula. rewrite Hs. cbn [scaled unpacked]. rewrite Es. ring.
Qed.
Lemma packed_scaling_v mask fv pu pv X Y K A s :
  scaled pu = true -> scale_factor pv == s ->
  ref_v mask fv pu pv X Y K A == s * ref_v mask fv unpacked unpacked X Y K A.
Proof.
  intros Hs Es. unfold ref_v, gV, sc_v, tri_formula. rewrite Hs. cbn [scaled unpacked]. rewrite Es. ring.
Qed.
Lemma packed_scaling mask fu fv pu pv g X Y K A :
  (1 <= a_n mask)%Z -> a_n fv = a_n fu -> in_valid g X Y = true -> (1 <= K <= a_n fu - 1)%Z ->
  scaled pu = true ->
  exists u v u0 v0,
    fst (fst (file_velocity mask fu fv pu pv g X Y K A)) = Some u /\
    fst (snd (file_velocity mask fu fv pu pv g X Y K A)) = Some v /\
    fst (fst (file_velocity mask fu fv unpacked unpacked g X Y K A)) = Some u0 /\
    fst (snd (file_velocity mask fu fv unpacked unpacked g X Y K A)) = Some v0 /\
    u == scale_factor pu * u0 /\ v == scale_factor pv * v0.
Proof.
  intros Hn HN Hv HK Hs.
  destruct (file_velocity_u_ref mask fu fv pu pv g X Y K A Hn Hv HK) as (u & R1 & E1).
  destruct (file_velocity_v_ref mask fu fv pu pv g X Y K A Hn Hv ltac:(lia)) as (v & R2 & E2).
  destruct (file_velocity_u_ref mask fu fv unpacked unpacked g X Y K A Hn Hv HK) as (u0 & R3 & E3).
  destruct (file_velocity_v_ref mask fu fv unpacked unpacked g X Y K A Hn Hv ltac:(lia)) as (v0 & R4 & E4).
  exists u, v, u0, v0. repeat (split; [assumption|]). split.
  - rewrite E1, E3. apply packed_scaling_u; [exact Hs|reflexivity].
  - rewrite E2, E4. apply packed_scaling_v; [exact Hs|reflexivity].
Qed.

(** * C17: an in-bounds read of a well-formed array yields a value *)
Definition wf3 (F : arr3) : Prop := Z.of_nat (length (a_data F)) = (a_n F * a_j F * a_i F)%Z.
Lemma nth_opt_some {A} (l : list A) n : (n < length l)%nat -> exists v, nth_opt l n = Some v.
Proof.
  revert n; induction l as [|x l IH]; intros n H; [cbn in H; lia|].
  destruct n as [|n]; [exists x; reflexivity|]. cbn [nth_opt]. apply IH. cbn in H. lia.
Qed.
Lemma get3_in_bounds F k j i : wf3 F -> inb3 F k j i = true -> exists v, get3 F k j i = Some v.
Proof.
  intros W B. unfold get3. rewrite B. apply inb3_true in B. destruct B as (Hk & Hj & Hi).
  apply nth_opt_some. unfold wf3 in W. unfold flat3.
  assert (0 <= k * a_j F)%Z by (apply Z.mul_nonneg_nonneg; lia).
  assert (0 <= (k * a_j F + j) * a_i F)%Z by (apply Z.mul_nonneg_nonneg; lia).
  assert (k * a_j F <= (a_n F - 1) * a_j F)%Z by (apply Z.mul_le_mono_nonneg_r; lia).
  assert ((k * a_j F + j) * a_i F <= (a_n F * a_j F - 1) * a_i F)%Z by (apply Z.mul_le_mono_nonneg_r; lia).
  lia.
Qed.
Lemma trilinear_total F x y k a :
  wf3 F -> forallb (in_shape (a_n F) (a_j F) (a_i F)) (tri_idx x y k) = true ->
  exists r, fst (trilinear F x y k a) = Some r.
Proof.
  intros W B. apply Forall_forallb in B. unfold tri_idx in B.
  repeat match goal with H : Forall _ (_ :: _) |- _ => inversion H; clear H; subst end.
  repeat match goal with H : in_shape _ _ _ (?k, ?j, ?i) = true |- _ =>
    apply (get3_in_bounds F k j i W) in H; destruct H as [? ?] end.
  eexists. apply trilinear_some; eassumption.
Qed.

(* ------------------------------------------------------------------ part 9 *)
Open Scope Q_scope.

(** * T1 at file level: the velocity lies between the extremes of the eight masked, unpacked nodes *)
Lemma floor_frac x : 0 <= x - inject_Z (qfloor x) <= 1.
Proof.
  destruct (qfloor_spec x) as [A B]. rewrite inject_Z_plus in B. change (inject_Z 1) with 1 in B. lra.
Qed.
Lemma tri_formula_bounds a p q lo hi v1 v2 v3 v4 v5 v6 v7 v8 :
  0 <= a <= 1 -> 0 <= p <= 1 -> 0 <= q <= 1 ->
  Forall (fun v => lo <= v <= hi) [v1; v2; v3; v4; v5; v6; v7; v8] ->
  lo <= tri_formula a p q v1 v2 v3 v4 v5 v6 v7 v8 <= hi.
Proof.
  intros Ha Hp Hq Hv.
  pose proof (qdot_bounds (tri_weights a p q) [v1; v2; v3; v4; v5; v6; v7; v8] lo hi eq_refl
                (tri_weights_nonneg a p q Ha Hp Hq) Hv) as B.
  rewrite tri_weights_sum in B. rewrite tri_formula_dot. lra.
Qed.
Lemma file_velocity_convex mask fu fv pu pv g X Y K A lo hi :
  (1 <= a_n mask)%Z -> a_n fv = a_n fu -> in_valid g X Y = true -> (1 <= K <= a_n fu - 1)%Z ->
  0 <= A <= 1 ->
  (forall k J I, (K - 1 <= k <= K)%Z -> (qfloor Y <= J <= qfloor Y + 1)%Z ->
     (qfloor (X + (1#2)) - 1 <= I <= qfloor (X + (1#2)))%Z -> lo <= gU mask fu pu k J I <= hi) ->
  (forall k J I, (K - 1 <= k <= K)%Z -> (qfloor (Y + (1#2)) - 1 <= J <= qfloor (Y + (1#2)))%Z ->
     (qfloor X <= I <= qfloor X + 1)%Z -> lo <= gV mask fv pu pv k J I <= hi) ->
  exists u v,
    fst (fst (file_velocity mask fu fv pu pv g X Y K A)) = Some u /\
    fst (snd (file_velocity mask fu fv pu pv g X Y K A)) = Some v /\
    lo <= u <= hi /\ lo <= v <= hi.
Proof.
  intros Hn HN Hv HK HA HU HV.
  destruct (file_velocity_u_ref mask fu fv pu pv g X Y K A Hn Hv HK) as (u & R1 & E1).
  destruct (file_velocity_v_ref mask fu fv pu pv g X Y K A Hn Hv ltac:(lia)) as (v & R2 & E2).
  exists u, v. split; [exact R1|]. split; [exact R2|]. split.
  - rewrite E1. unfold ref_u. apply tri_formula_bounds; try exact HA; try apply floor_frac.
    repeat constructor; apply HU; lia.
  - rewrite E2. unfold ref_v. apply tri_formula_bounds; try exact HA; try apply floor_frac.
    repeat constructor; apply HV; lia.
Qed.

(** * C17 on the arrays Grid/Forcing build *)
Lemma read_velocity_shapes mask fu fv pu pv g :
  let U := fst (read_velocity (grid_of mask g) fu fv pu pv) in
  let V := snd (read_velocity (grid_of mask g) fu fv pu pv) in
  (a_n U = a_n fu /\ a_j U = g_jmax g /\ a_i U = g_imax g + 1 /\
   a_n V = a_n fv /\ a_j V = g_jmax g + 1 /\ a_i V = g_imax g)%Z.
Proof.
  unfold read_velocity, grid_of, g_jmax, g_imax. cbn [fst snd gr_sub].
  destruct (scaled pu); cbn [mul_mask amap slice3 mk3 a_n a_j a_i]; repeat split; lia.
Qed.
Lemma read_field_shape mask ff pf g :
  let F := read_field (grid_of mask g) ff pf in
  (a_n F = a_n ff /\ a_j F = g_jmax g /\ a_i F = g_imax g)%Z.
Proof.
  unfold read_field, grid_of, g_jmax, g_imax. cbn [gr_sub].
  destruct (scaled pf); cbn [amap slice3 mk3 a_n a_j a_i]; repeat split; lia.
Qed.
Lemma wf3_mk3 n jn im f : (0 <= n)%Z -> (0 <= jn)%Z -> (0 <= im)%Z -> wf3 (mk3 n jn im f).
Proof.
  intros Hn Hj Hi. unfold wf3, mk3. cbn [a_data a_n a_j a_i]. rewrite map_length. unfold zrange.
  assert (L : forall len lo, length (zrange_aux lo len) = len).
  { induction len as [|len IH]; intro lo; cbn [zrange_aux length]; [reflexivity|rewrite IH; reflexivity]. }
  rewrite L. assert (0 <= n * jn * im)%Z by (repeat apply Z.mul_nonneg_nonneg; assumption). lia.
Qed.

(** every position in the clip range of subgrid [g]: reads of Forcing.velocity are inside U and V *)
Lemma velocity_reads_in_bounds gr U V X Y K A m :
  let g := gr_sub gr in
  a_j U = g_jmax g -> a_i U = (g_imax g + 1)%Z -> a_j V = (g_jmax g + 1)%Z -> a_i V = g_imax g -> a_n V = a_n U ->
  (1 <= K <= a_n U - 1)%Z ->
  in_clip_range (g_imax g) (X - inject_Z (g_i0 g)) -> in_clip_range (g_jmax g) (Y - inject_Z (g_j0 g)) ->
  forallb (in_shape (a_n U) (a_j U) (a_i U)) (snd (fst (velocity gr U V X Y K A m))) = true /\
  forallb (in_shape (a_n V) (a_j V) (a_i V)) (snd (snd (velocity gr U V X Y K A m))) = true.
Proof.
  intros g S1 S2 S3 S4 S5 HK HX HY. unfold velocity. fold g.
  destruct (sample3DUV_reads_in_bounds U V (g_imax g) (g_jmax g) (X - inject_Z (g_i0 g)) (Y - inject_Z (g_j0 g))
              K A m S1 S2 S3 S4 S5 HK HX HY) as [B1 B2].
  rewrite S1, S2, S3, S4, S5. split; assumption.
Qed.
