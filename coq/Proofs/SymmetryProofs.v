(** Time-shift and time-mirror lemmas (C14-T2, C10): the step tables a set-up compiles to are invariant
    under a whole-step shift of all times and under the mirror t |-> 2S - t with reversed direction;
    linear interpolation commutes with negation and with shifts; and a run depends on the set-up only
    through its step-indexed environment. *)
From Coq Require Import ZArith QArith List Bool Lia Lqa.
From Ladim Require Import Base.Num Model.Time Model.Sim Proofs.SimProofs.
Import ListNotations.
Open Scope Z_scope.

Definition shift_tk (t : tk) (d : Z) : tk :=
  {| start := start t + d; stop := stop t + d; dt := dt t; ref := ref t + d; rev := rev t |}.
(** the forward clock over the mirrored time axis: same start S, stop mirrored *)
Definition mirror_tk (t : tk) : tk :=
  {| start := start t; stop := 2 * start t - stop t; dt := dt t; ref := ref t; rev := negb (rev t) |}.
Definition mirror_time (t : tk) (x : Z) : Z := 2 * start t - x.

Lemma time2step_shift t d x : time2step (shift_tk t d) (x + d) = time2step t x.
Proof. unfold time2step, shift_tk. cbn [start stop dt ref rev]. destruct (rev t); f_equal; lia. Qed.
Lemma step2time_shift t d n : step2time (shift_tk t d) n = step2time t n + d.
Proof. unfold step2time, shift_tk. cbn [start stop dt ref rev]. destruct (rev t); lia. Qed.
Lemma nsteps_shift t d : nsteps (shift_tk t d) = nsteps t.
Proof. unfold nsteps, shift_tk. cbn [start stop dt ref rev]. f_equal. f_equal. lia. Qed.

Lemma time2step_mirror t x : time2step (mirror_tk t) (mirror_time t x) = time2step t x.
Proof. unfold time2step, mirror_tk, mirror_time. cbn [start stop dt ref rev]. destruct (rev t); cbn [negb]; f_equal; lia. Qed.
Lemma step2time_mirror t n : step2time (mirror_tk t) n = mirror_time t (step2time t n).
Proof. unfold step2time, mirror_tk, mirror_time. cbn [start stop dt ref rev]. destruct (rev t); cbn [negb]; lia. Qed.
Lemma nsteps_mirror t : nsteps (mirror_tk t) = nsteps t.
Proof.
  unfold nsteps, mirror_tk. cbn [start stop dt ref rev]. f_equal.
  replace (2 * start t - stop t - start t) with (- (stop t - start t)) by lia. apply Z.abs_opp.
Qed.
(** a time lies in the simulated window [start, stop) of the reversed run iff its mirror image lies in
    the window of the mirrored forward run *)
Lemma window_mirror t x : rev t = true ->
  (stop t < x <= start t) <-> (start (mirror_tk t) <= mirror_time t x < stop (mirror_tk t)).
Proof. intro R. unfold mirror_tk, mirror_time. cbn [start stop dt ref rev]. lia. Qed.
(** the reversed clock reads S - n*dt, the mirrored forward clock S + n*dt = mirror of it *)
Lemma clock_reversed t n : rev t = true -> step2time t n = start t - n * dt t.
Proof. intro R. unfold step2time. rewrite R. reflexivity. Qed.

Open Scope Q_scope.
Lemma lerp_neg a fa b fb x : ~ b - a == 0 -> lerp a (- fa) b (- fb) x == - lerp a fa b fb x.
Proof. intro H. unfold lerp. field. exact H. Qed.
Lemma lerp_shift a fa b fb x d : ~ b - a == 0 -> lerp (a + d) fa (b + d) fb (x + d) == lerp a fa b fb x.
Proof.
  intro H. unfold lerp.
  assert (~ b + d - (a + d) == 0) as H' by (intro E; apply H; rewrite <- E; ring).
  field. auto.
Qed.
Lemma lerp_ends a fa b fb : ~ b - a == 0 -> lerp a fa b fb a == fa /\ lerp a fa b fb b == fb.
Proof. intro H. unfold lerp. split; field; exact H. Qed.
Open Scope Z_scope.

(** a run depends on the set-up only through the step-indexed environment *)
Section Ext.
  Variables V C : Type.
  Variables (rel rel' : Z -> list (Z * V)) (ff ff' : Z -> V -> V) (cf cf' : Z -> V -> C).
  Variables (tf tf' : Z -> V -> C -> V * bool) (bf bf' : Z -> V -> V * bool) (du du' : Z -> bool).
  Hypothesis Hrel : forall n, rel n = rel' n.
  Hypothesis Hff : forall n v, ff n v = ff' n v.
  Hypothesis Hcf : forall n v, cf n v = cf' n v.
  Hypothesis Htf : forall n v c, tf n v c = tf' n v c.
  Hypothesis Hbf : forall n v, bf n v = bf' n v.
  Hypothesis Hdu : forall n, du n = du' n.

  Lemma move_all_ext n ps : forall cs, move_all V C tf bf n ps cs = move_all V C tf' bf' n ps cs.
  Proof.
    induction ps as [|p ps IH]; intros [|c cs]; cbn; try reflexivity.
    rewrite IH, Htf. destruct (move_all V C tf' bf' n ps cs); [|reflexivity].
    destruct (tf' n (pval p) c) as [v1 a1]. rewrite Hbf. reflexivity.
  Qed.
  Lemma sim_step_ext s n : sim_step V C rel ff cf tf bf du s n = sim_step V C rel' ff' cf' tf' bf' du' s n.
  Proof.
    unfold sim_step, sim_step_gen. destruct (crashed s); [reflexivity|]. rewrite Hrel, Hdu.
    assert (forall l : list (part V),
              map (fun p => {| tag := tag p; ppid := ppid p; pval := ff n (pval p); palive := palive p |}) l
              = map (fun p => {| tag := tag p; ppid := ppid p; pval := ff' n (pval p); palive := palive p |}) l) as E1.
    { intro l. apply map_ext. intro p. rewrite Hff. reflexivity. }
    rewrite E1.
    assert (forall l : list (part V), map (fun p => cf n (pval p)) l = map (fun p => cf' n (pval p)) l) as E2.
    { intro l. apply map_ext. intro p. apply Hcf. }
    rewrite E2. destruct (true && du' n); rewrite move_all_ext; reflexivity.
  Qed.
  Lemma run_ext l : forall s, fold_left (sim_step V C rel ff cf tf bf du) l s = fold_left (sim_step V C rel' ff' cf' tf' bf' du') l s.
  Proof. induction l as [|n l IH]; intro s; cbn; [reflexivity|]. rewrite sim_step_ext. apply IH. Qed.
  Theorem cold_run_ext N : cold_run V C rel ff cf tf bf du N = cold_run V C rel' ff' cf' tf' bf' du' N.
  Proof. unfold cold_run. apply run_ext. Qed.
End Ext.
