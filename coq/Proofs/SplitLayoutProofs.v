(** Proofs/SplitLayoutProofs.v — composition of the output cursor machine (C07, Proofs/OutputProofs.v)
    with the ragged layout inside one file (C06, Proofs/LayoutProofs.v), for SPLIT output.

    What is proved here (everything closed under the global context, see the Print Assumptions at the end):

    (S1) A general list library for [chunk n l] (successive blocks of [n] elements of [l], the last block
         possibly shorter, never an empty block), for every [n >= 1]:
           [chunk_concat]        concat (chunk n l) = l
           [chunk_nth_block]     nth a (chunk n l) [] = firstn n (skipn (a*n) l)
           [chunk_block_length]  length (nth a (chunk n l) []) = min n (length l - a*n)
           [chunk_count]         a < length (chunk n l)  <->  a*n < length l
           [chunk_length]        length (chunk n l) = (length l + n - 1) / n      (= ceil (length l / n))
           [chunk_full_blocks]   every block but the last has length n
           [chunk_no_empty]      every block has at least one element; the last has at most n ([chunk_block_le])
           [chunk_nth_nth]       nth j (nth a (chunk n l) []) d = nth (a*n + j) l d   for j < length of block a
           [chunk_divmod]        for k < length l: block k/n exists, k mod n is inside it, and its element
                                 number k mod n is element k of l
           [chunk_unique]        chunk n l is the ONLY list of blocks with full blocks, then one block of
                                 1..n elements, that concatenates to l.

    (S2) The files of a split run are the chunks of the run's records.  For all payload types R, P, all
         [snap], [pvs], nsteps >= 1, period p >= 1, records per file numrec >= 1
         ([split_files_are_chunks]):
             map recs (files (out_run R P snap pvs nsteps p numrec))
               = chunk (Z.to_nat numrec) (map snap (due nsteps p)).
         Corner cases, read off the machine:
           - last file exactly full (numrec divides the number of records): NO empty trailing file is left
             (the roll-over in [write] opens a new file only if [rc < total]); the equation above holds
             as it stands, this case is inside the theorem.
           - nothing due at all (nsteps = 0; with p >= 1 step 0 is always due, so this is the only way to
             have no record): the machine still leaves its one initial file, closed and empty, whereas
             [chunk n [] = []].  [split_files_empty_run]: map recs (files s) = [[]].
         [split_files_all_cases] states both at once for nsteps >= 0, and [split_files_nonempty_chunks]
         the uniform variant (drop empty record lists from the files: always the chunks).

    (S3) The composed retrieval theorem [split_record_retrievable]: with R := snapshot, every snapshot
         of a due step well-formed ([wf_snap nvars]), numrec >= 1, let file number a = k / numrec of the
         run be written with the ragged layout OF ITS OWN records,
             fa := fst (sparse_run nvars (recs (nth a (files s) _))).
         Then for every k < length (due nsteps p), j = k mod numrec and every variable i < nvars:
           - file a exists, carries number a, and has more than j records;
           - [retrieve fa j] (start = sum(count[:j]), count[j], with THAT file's counts) returns the
             columns of [snap (nth k (due nsteps p) 0)];
           - the time coordinate [nth j (stimes fa) 0] is that snapshot's time;
           - [counts fa] are the sizes of exactly the records a*numrec, a*numrec+1, ... (at most numrec
             of them) of the run, and [zsum (counts fa)] is the length of every instance array of that file
             (so the instance dimension of each file starts at zero and holds only its own records).
         [split_retrieval_equals_unsplit]: the same columns and time as read from ONE ragged file holding
         all records of the run at record index k.

    (S4) Non-vacuity by computation: nsteps = 7, p = 1, numrec = 3 gives files of 3, 3, 1 records
         (particle counts 0,1,2 | 0,1,2 | 0); record 4 of the run is record 1 of file 1. *)
From Coq Require Import ZArith List Bool Lia Arith.
From Ladim Require Import Base.Num Model.State Model.Output Proofs.StateProofs
                          Proofs.OutputProofs Proofs.LayoutProofs.
Import ListNotations.
Open Scope Z_scope.

(** * small list facts missing from the 8.16 standard library *)
Section ListFacts.
  Context {A : Type}.

  Lemma skipn_add (b : nat) : forall (a : nat) (l : list A), skipn a (skipn b l) = skipn (b + a) l.
  Proof.
    induction b as [|b IH]; intros a l.
    - reflexivity.
    - destruct l as [|x l].
      + cbn [skipn Nat.add]. apply skipn_nil.
      + cbn [skipn Nat.add]. apply IH.
  Qed.

  Lemma nth_skipn_add (m : nat) : forall (j : nat) (l : list A) (d : A),
    nth j (skipn m l) d = nth (m + j) l d.
  Proof.
    induction m as [|m IH]; intros j l d.
    - reflexivity.
    - destruct l as [|x l].
      + cbn [skipn Nat.add]. destruct j; reflexivity.
      + cbn [skipn Nat.add nth]. apply IH.
  Qed.

  Lemma nth_firstn_lt (n : nat) : forall (j : nat) (l : list A) (d : A),
    (j < n)%nat -> nth j (firstn n l) d = nth j l d.
  Proof.
    induction n as [|n IH]; intros j l d Hj.
    - lia.
    - destruct l as [|x l]; [reflexivity|].
      destruct j as [|j]; [reflexivity|].
      cbn [firstn nth]. apply IH. lia.
  Qed.

  Lemma In_firstn_in (n : nat) (l : list A) (x : A) : In x (firstn n l) -> In x l.
  Proof. intro H. rewrite <- (firstn_skipn n l). apply in_or_app. left. exact H. Qed.

  Lemma In_skipn_in (n : nat) (l : list A) (x : A) : In x (skipn n l) -> In x l.
  Proof. intro H. rewrite <- (firstn_skipn n l). apply in_or_app. right. exact H. Qed.
End ListFacts.

(** * (S1) chunks *)
Section Chunk.
  Context {A : Type}.

  (** [fuel] bounds the number of blocks; [length l] is always enough when [n >= 1] *)
  Fixpoint chunk_aux (fuel n : nat) (l : list A) : list (list A) :=
    match fuel with
    | O => []
    | S f => match l with
             | [] => []
             | _ :: _ => firstn n l :: chunk_aux f n (skipn n l)
             end
    end.
  Definition chunk (n : nat) (l : list A) : list (list A) := chunk_aux (length l) n l.

  Lemma chunk_aux_fuel (n : nat) : (1 <= n)%nat -> forall (f1 f2 : nat) (l : list A),
    (length l <= f1)%nat -> (length l <= f2)%nat -> chunk_aux f1 n l = chunk_aux f2 n l.
  Proof.
    intro Hn. induction f1 as [|f1 IH]; intros f2 l H1 H2.
    - destruct l as [|x l]; [|cbn [length] in H1; lia]. destruct f2; reflexivity.
    - destruct l as [|x l].
      + destruct f2; reflexivity.
      + destruct f2 as [|f2]; [cbn [length] in H2; lia|].
        cbn [chunk_aux]. f_equal.
        apply IH; rewrite skipn_length; cbn [length] in *; lia.
  Qed.

  Lemma chunk_nil (n : nat) : chunk n [] = [].
  Proof. reflexivity. Qed.

  Lemma chunk_cons (n : nat) (l : list A) : (1 <= n)%nat -> l <> [] ->
    chunk n l = firstn n l :: chunk n (skipn n l).
  Proof.
    intros Hn Hl. destruct l as [|x l]; [congruence|].
    unfold chunk. cbn [length chunk_aux]. f_equal.
    apply chunk_aux_fuel; [exact Hn| |lia].
    rewrite skipn_length. cbn [length]. lia.
  Qed.

  (** the blocks concatenate to the list *)
  Lemma chunk_concat_fuel (n : nat) : (1 <= n)%nat -> forall (fuel : nat) (l : list A),
    (length l <= fuel)%nat -> concat (chunk n l) = l.
  Proof.
    intro Hn. induction fuel as [|fuel IH]; intros l Hl.
    - destruct l as [|x l]; [reflexivity|cbn [length] in Hl; lia].
    - destruct l as [|x l]; [reflexivity|].
      rewrite chunk_cons by (exact Hn || discriminate).
      cbn [concat]. rewrite IH.
      + apply firstn_skipn.
      + rewrite skipn_length. cbn [length] in *. lia.
  Qed.
  Theorem chunk_concat (n : nat) (l : list A) : (1 <= n)%nat -> concat (chunk n l) = l.
  Proof. intro Hn. apply (chunk_concat_fuel n Hn (length l)). lia. Qed.

  (** block number a is the slice [a*n, a*n + n) of the list *)
  Theorem chunk_nth_block (n : nat) : (1 <= n)%nat -> forall (a : nat) (l : list A),
    nth a (chunk n l) [] = firstn n (skipn (a * n) l).
  Proof.
    intro Hn. induction a as [|a IH]; intro l.
    - destruct l as [|x l].
      + rewrite chunk_nil. cbn [nth Nat.mul skipn]. symmetry. apply firstn_nil.
      + rewrite chunk_cons by (exact Hn || discriminate). reflexivity.
    - destruct l as [|x l].
      + rewrite chunk_nil, skipn_nil, firstn_nil. reflexivity.
      + rewrite chunk_cons by (exact Hn || discriminate).
        cbn [nth]. rewrite IH, skipn_add. cbn [Nat.mul]. reflexivity.
  Qed.

  Theorem chunk_block_length (n a : nat) (l : list A) : (1 <= n)%nat ->
    length (nth a (chunk n l) []) = Nat.min n (length l - a * n).
  Proof. intro Hn. rewrite chunk_nth_block by exact Hn. rewrite firstn_length, skipn_length. reflexivity. Qed.

  (** how many blocks there are *)
  Theorem chunk_count (n : nat) : (1 <= n)%nat -> forall (a : nat) (l : list A),
    (a < length (chunk n l))%nat <-> (a * n < length l)%nat.
  Proof.
    intro Hn. induction a as [|a IH]; intro l.
    - destruct l as [|x l].
      + rewrite chunk_nil. cbn [length Nat.mul]. lia.
      + rewrite chunk_cons by (exact Hn || discriminate). cbn [length Nat.mul]. lia.
    - destruct l as [|x l].
      + rewrite chunk_nil. cbn [length]. lia.
      + rewrite chunk_cons by (exact Hn || discriminate).
        cbn [length Nat.mul]. specialize (IH (skipn n (x :: l))).
        rewrite skipn_length in IH. cbn [length] in IH. lia.
  Qed.

  Theorem chunk_length (n : nat) (l : list A) : (1 <= n)%nat ->
    length (chunk n l) = ((length l + n - 1) / n)%nat.
  Proof.
    intro Hn. set (L := length (chunk n l)).
    assert (~ (L * n < length l)%nat) as Hup.
    { intro H. apply (chunk_count n Hn L l) in H. unfold L in H. lia. }
    assert (L = 0 \/ ((L - 1) * n < length l)%nat)%nat as Hlo.
    { destruct L as [|L'] eqn:E; [left; reflexivity|right].
      apply (chunk_count n Hn). unfold L in E. rewrite E. lia. }
    apply (Nat.div_unique (length l + n - 1) n L (length l + n - 1 - n * L)).
    - nia.
    - destruct Hlo as [Hz|Hlo]; [rewrite Hz; lia|]. nia.
  Qed.

  (** every block but the last is full, no block is empty, no block is longer than n *)
  Theorem chunk_full_blocks (n a : nat) (l : list A) : (1 <= n)%nat ->
    (S a < length (chunk n l))%nat -> length (nth a (chunk n l) []) = n.
  Proof.
    intros Hn H. apply (chunk_count n Hn) in H. rewrite chunk_block_length by exact Hn.
    cbn [Nat.mul] in H. lia.
  Qed.
  Theorem chunk_no_empty (n a : nat) (l : list A) : (1 <= n)%nat ->
    (a < length (chunk n l))%nat -> (1 <= length (nth a (chunk n l) []))%nat.
  Proof.
    intros Hn H. apply (chunk_count n Hn) in H. rewrite chunk_block_length by exact Hn. lia.
  Qed.
  Theorem chunk_block_le (n a : nat) (l : list A) : (1 <= n)%nat ->
    (length (nth a (chunk n l) []) <= n)%nat.
  Proof. intro Hn. rewrite chunk_block_length by exact Hn. lia. Qed.

  (** element j of block a is element a*n + j of the list *)
  Theorem chunk_nth_nth (n a j : nat) (l : list A) (d : A) : (1 <= n)%nat ->
    (j < length (nth a (chunk n l) []))%nat ->
    nth j (nth a (chunk n l) []) d = nth (a * n + j) l d.
  Proof.
    intros Hn Hj. rewrite chunk_block_length in Hj by exact Hn.
    rewrite chunk_nth_block by exact Hn.
    rewrite nth_firstn_lt by lia. apply nth_skipn_add.
  Qed.

  (** element k of the list is element k mod n of block k / n *)
  Theorem chunk_divmod (n k : nat) (l : list A) (d : A) : (1 <= n)%nat -> (k < length l)%nat ->
    (k / n < length (chunk n l))%nat /\
    (k mod n < length (nth (k / n) (chunk n l) []))%nat /\
    nth (k mod n) (nth (k / n) (chunk n l) []) d = nth k l d.
  Proof.
    intros Hn Hk.
    pose proof (Nat.div_mod k n ltac:(lia)) as DM.
    pose proof (Nat.mod_upper_bound k n ltac:(lia)) as MB.
    assert (k / n * n + k mod n = k)%nat as E by lia.
    assert (k mod n < length (nth (k / n) (chunk n l) []))%nat as Hj.
    { rewrite chunk_block_length by exact Hn. lia. }
    split; [|split].
    - apply (chunk_count n Hn). lia.
    - exact Hj.
    - rewrite chunk_nth_nth by assumption. rewrite E. reflexivity.
  Qed.

  (** uniqueness: full blocks followed by one block of 1..n elements ARE the chunks of their concatenation *)
  Theorem chunk_unique (n : nat) (last : list A) : (1 <= n)%nat -> (1 <= length last <= n)%nat ->
    forall ls : list (list A), Forall (fun c => length c = n) ls ->
    chunk n (concat ls ++ last) = ls ++ [last].
  Proof.
    intros Hn Hlast. induction ls as [|c ls IH]; intro F.
    - cbn [concat app].
      assert (last <> []) as NE by (destruct last; [cbn [length] in Hlast; lia|discriminate]).
      rewrite chunk_cons by assumption.
      rewrite firstn_all2 by lia. rewrite skipn_all2 by lia. rewrite chunk_nil. reflexivity.
    - inversion F as [|? ? Hc F']; subst.
      cbn [concat app]. rewrite <- app_assoc.
      assert (c ++ concat ls ++ last <> []) as NE.
      { destruct c; [cbn [length] in Hn; lia|discriminate]. }
      rewrite chunk_cons by assumption.
      rewrite firstn_app, Nat.sub_diag, firstn_all. cbn [firstn]. rewrite app_nil_r.
      rewrite skipn_app, Nat.sub_diag, skipn_all. cbn [skipn app].
      rewrite IH by exact F'. reflexivity.
  Qed.
End Chunk.

(** * (S2) the files of a split run are the chunks of its records *)
Section SplitFiles.
  Variables R P : Type.
  Variable snap : Z -> R.
  Variable pvs : Z -> P.

  Lemma all_records_files (s : ost R P) :
    all_records s = concat (map recs (done s)) ++ recs (cur s).
  Proof.
    unfold all_records, files. rewrite map_app, concat_app. cbn [map concat]. rewrite app_nil_r. reflexivity.
  Qed.

  Lemma cdiv_pos nsteps p : 1 <= nsteps -> 1 <= p -> 0 < cdiv nsteps p.
  Proof. intros Hn Hp. pose proof (cdiv_spec nsteps p ltac:(lia)) as CS. nia. Qed.

  (** nsteps >= 1 (so at least one record is due): the record lists of the files, in order, are exactly
      the chunks; in particular a last file that is exactly full is NOT followed by an empty one *)
  Theorem split_files_are_chunks nsteps p numrec :
    1 <= nsteps -> 1 <= p -> 1 <= numrec ->
    map recs (files (out_run R P snap pvs nsteps p numrec))
      = chunk (Z.to_nat numrec) (map snap (due nsteps p)).
  Proof.
    intros Hn Hp Hr.
    pose proof (all_records_written R P snap pvs nsteps p numrec ltac:(lia) Hp ltac:(lia) ltac:(lia)) as W.
    cbv zeta in W. destruct W as (_ & _ & AR & D & Cle & Cpos & _).
    assert ((numrec =? 0) = false) as E0 by (apply Z.eqb_neq; lia). rewrite E0 in D, Cle.
    destruct (Cpos (cdiv_pos nsteps p Hn Hp)) as [Cgt _].
    set (s := out_run R P snap pvs nsteps p numrec) in *.
    rewrite <- AR, all_records_files.
    unfold files. rewrite map_app. cbn [map].
    symmetry. apply chunk_unique; [lia|lia|].
    apply Forall_forall. intros c Hc. apply in_map_iff in Hc as (f & <- & Hf).
    rewrite Forall_forall in D. destruct (D f Hf) as [L _]. lia.
  Qed.

  (** nothing due (nsteps = 0): the one initial file remains, closed and empty — not a chunk *)
  Theorem split_files_empty_run p numrec :
    let s := out_run R P snap pvs 0 p numrec in
    map recs (files s) = [[]] /\ Forall (fun f : file R P => closed f = true) (files s) /\
    chunk (Z.to_nat numrec) (map snap (due 0 p)) = [].
  Proof. cbn. repeat split. repeat constructor. Qed.

  Theorem split_files_all_cases nsteps p numrec :
    0 <= nsteps -> 1 <= p -> 1 <= numrec ->
    map recs (files (out_run R P snap pvs nsteps p numrec))
      = if nsteps =? 0 then [[]] else chunk (Z.to_nat numrec) (map snap (due nsteps p)).
  Proof.
    intros Hn Hp Hr. destruct (nsteps =? 0) eqn:E.
    - apply Z.eqb_eq in E. subst nsteps. apply (split_files_empty_run p numrec).
    - apply Z.eqb_neq in E. apply split_files_are_chunks; lia.
  Qed.

  (** uniform variant: the non-empty record lists of the files are always the chunks *)
  Definition nonempty {X} (l : list X) : bool := match l with [] => false | _ :: _ => true end.
  Lemma filter_all_true {X} (f : X -> bool) : forall l : list X,
    (forall x, In x l -> f x = true) -> filter f l = l.
  Proof.
    induction l as [|x l IH]; intro H; [reflexivity|].
    cbn [filter]. rewrite (H x (or_introl eq_refl)). f_equal. apply IH.
    intros y Hy. apply H. right. exact Hy.
  Qed.
  Lemma filter_nonempty_chunk {X} (n : nat) (l : list X) : (1 <= n)%nat ->
    filter nonempty (chunk n l) = chunk n l.
  Proof.
    intro Hn. apply filter_all_true. intros c Hc.
    apply (In_nth _ _ []) in Hc as (a & Ha & <-).
    pose proof (chunk_no_empty n a l Hn Ha) as H1.
    destruct (nth a (chunk n l) []); [cbn [length] in H1; lia|reflexivity].
  Qed.
  Theorem split_files_nonempty_chunks nsteps p numrec :
    0 <= nsteps -> 1 <= p -> 1 <= numrec ->
    filter nonempty (map recs (files (out_run R P snap pvs nsteps p numrec)))
      = chunk (Z.to_nat numrec) (map snap (due nsteps p)).
  Proof.
    intros Hn Hp Hr. rewrite split_files_all_cases by assumption.
    destruct (nsteps =? 0) eqn:E.
    - apply Z.eqb_eq in E. subst nsteps. reflexivity.
    - apply filter_nonempty_chunk. lia.
  Qed.

  (** the number of files is ceil (records / numrec) *)
  Corollary split_file_count nsteps p numrec :
    1 <= nsteps -> 1 <= p -> 1 <= numrec ->
    length (files (out_run R P snap pvs nsteps p numrec))
      = ((length (due nsteps p) + Z.to_nat numrec - 1) / Z.to_nat numrec)%nat.
  Proof.
    intros Hn Hp Hr.
    rewrite <- (map_length recs), split_files_are_chunks by assumption.
    rewrite chunk_length by lia. rewrite map_length. reflexivity.
  Qed.
End SplitFiles.

(** * (S3) record k of the run is record k mod numrec of file k / numrec, in that file's own ragged layout *)
Lemma nth_zrange_aux (n : nat) : forall (a : nat) (start d : Z),
  (a < n)%nat -> nth a (zrange_aux start n) d = start + Z.of_nat a.
Proof.
  induction n as [|n IH]; intros a start d Ha; [lia|].
  destruct a as [|a]; cbn [zrange_aux nth].
  - change (Z.of_nat 0) with 0. lia.
  - rewrite IH by lia. lia.
Qed.

Definition snap0 : snapshot := {| stime := 0; cols := [] |}.

Section SplitRetrieve.
  Variable P : Type.
  Variable snap : Z -> snapshot.
  Variable pvs : Z -> P.
  Variable nvars : nat.

  (** the records of file a, and the facts needed to read record k of the run out of it *)
  Lemma split_file_records nsteps p numrec (k : nat) :
    1 <= p -> 1 <= numrec -> 0 <= nsteps -> (k < length (due nsteps p))%nat ->
    let s := out_run snapshot P snap pvs nsteps p numrec in
    let n := Z.to_nat numrec in
    let file_a := nth (k / n) (files s) (new_file snapshot P 0) in
    (k / n < length (files s))%nat /\
    recs file_a = firstn n (skipn (k / n * n) (map snap (due nsteps p))) /\
    (k mod n < length (recs file_a))%nat /\
    nth (k mod n) (recs file_a) snap0 = snap (nth k (due nsteps p) 0).
  Proof.
    intros Hp Hr Hn0 Hk s n file_a.
    assert (1 <= nsteps) as Hn.
    { destruct (Z.eq_dec nsteps 0) as [E|NE]; [|lia]. subst nsteps. cbn in Hk. lia. }
    assert (1 <= n)%nat as Hn1 by (unfold n; lia).
    pose proof (split_files_are_chunks snapshot P snap pvs nsteps p numrec Hn Hp Hr) as CH.
    fold s in CH. fold n in CH.
    assert (k < length (map snap (due nsteps p)))%nat as Hk' by (rewrite map_length; exact Hk).
    destruct (chunk_divmod n k (map snap (due nsteps p)) snap0 Hn1 Hk') as (C1 & C2 & C3).
    rewrite <- CH in C1, C2, C3. rewrite map_length in C1.
    assert (nth (k / n) (map recs (files s)) [] = recs file_a) as NA.
    { unfold file_a. apply nth_map_lt. exact C1. }
    rewrite NA in C2, C3.
    split; [exact C1|]. split; [|split; [exact C2|]].
    - rewrite <- NA, CH. apply chunk_nth_block. exact Hn1.
    - rewrite C3. apply (nth_map_lt snap (due nsteps p) k snap0 0). exact Hk.
  Qed.

  Theorem split_record_retrievable nsteps p numrec (k i : nat) :
    0 <= nsteps -> 1 <= p -> 1 <= numrec ->
    (forall step, In step (due nsteps p) -> wf_snap nvars (snap step)) ->
    (k < length (due nsteps p))%nat -> (i < nvars)%nat ->
    let s := out_run snapshot P snap pvs nsteps p numrec in
    let n := Z.to_nat numrec in
    let a := (k / n)%nat in
    let j := (k mod n)%nat in
    let file_a := nth a (files s) (new_file snapshot P 0) in
    let fa := fst (sparse_run nvars (recs file_a)) in
    (a < length (files s))%nat /\ fno file_a = Z.of_nat a /\ closed file_a = true /\
    (j < length (recs file_a))%nat /\
    nth i (retrieve fa j) [] = nth i (cols (snap (nth k (due nsteps p) 0))) [] /\
    nth j (stimes fa) 0 = stime (snap (nth k (due nsteps p) 0)) /\
    counts fa = map snap_count (firstn n (skipn (a * n) (map snap (due nsteps p)))) /\
    Forall (fun arr => Z.of_nat (length arr) = zsum (counts fa)) (flat fa).
  Proof.
    intros Hn0 Hp Hr W Hk Hi s n a j file_a fa.
    destruct (split_file_records nsteps p numrec k Hp Hr Hn0 Hk) as (Ha & RE & Hj & NJ).
    fold s in Ha, RE, Hj, NJ. fold n in Ha, RE, Hj, NJ. fold a in Ha, RE, Hj, NJ.
    fold file_a in RE, Hj, NJ. fold j in Hj, NJ.
    (* every record of file a is a well-formed snapshot *)
    assert (Forall (wf_snap nvars) (recs file_a)) as WF.
    { apply Forall_forall. intros r Hr'. rewrite RE in Hr'.
      apply In_firstn_in, In_skipn_in in Hr'. apply in_map_iff in Hr' as (st & <- & Hst).
      apply W. exact Hst. }
    pose proof (sparse_record_faithful nvars (recs file_a) j i WF Hj Hi) as SF.
    cbv zeta in SF. fold fa in SF. fold snap0 in SF. destruct SF as (S1 & S2 & S3 & S4).
    pose proof (all_records_written snapshot P snap pvs nsteps p numrec Hn0 Hp ltac:(lia) ltac:(lia)) as AW.
    cbv zeta in AW. fold s in AW. destruct AW as (_ & CL & _ & _ & _ & _ & FN).
    assert (In file_a (files s)) as IN by (unfold file_a; apply nth_In; exact Ha).
    split; [exact Ha|]. split; [|split; [|split; [exact Hj|split; [|split; [|split; [|exact S4]]]]]].
    - assert (nth a (map fno (files s)) 0 = fno file_a) as NA.
      { unfold file_a. apply nth_map_lt. exact Ha. }
      rewrite <- NA, FN. rewrite nth_zrange_aux by exact Ha. lia.
    - rewrite Forall_forall in CL. apply CL. exact IN.
    - rewrite S1, NJ. reflexivity.
    - rewrite S2, NJ. reflexivity.
    - rewrite S3, RE. reflexivity.
  Qed.

  (** reading record k from the split files = reading record k from ONE ragged file of the whole run *)
  Corollary split_retrieval_equals_unsplit nsteps p numrec (k i : nat) :
    0 <= nsteps -> 1 <= p -> 1 <= numrec ->
    (forall step, In step (due nsteps p) -> wf_snap nvars (snap step)) ->
    (k < length (due nsteps p))%nat -> (i < nvars)%nat ->
    let s := out_run snapshot P snap pvs nsteps p numrec in
    let n := Z.to_nat numrec in
    let fa := fst (sparse_run nvars (recs (nth (k / n) (files s) (new_file snapshot P 0)))) in
    let f1 := fst (sparse_run nvars (map snap (due nsteps p))) in
    nth i (retrieve fa (k mod n)) [] = nth i (retrieve f1 k) [] /\
    nth (k mod n) (stimes fa) 0 = nth k (stimes f1) 0.
  Proof.
    intros Hn0 Hp Hr W Hk Hi s n fa f1.
    destruct (split_record_retrievable nsteps p numrec k i Hn0 Hp Hr W Hk Hi)
      as (_ & _ & _ & _ & X1 & X2 & _).
    fold s in X1, X2. fold n in X1, X2. fold fa in X1, X2.
    assert (Forall (wf_snap nvars) (map snap (due nsteps p))) as WF.
    { apply Forall_forall. intros r Hr'. apply in_map_iff in Hr' as (st & <- & Hst). apply W. exact Hst. }
    assert (k < length (map snap (due nsteps p)))%nat as Hk' by (rewrite map_length; exact Hk).
    pose proof (sparse_record_faithful nvars (map snap (due nsteps p)) k i WF Hk' Hi) as SF.
    cbv zeta in SF. fold f1 in SF. fold snap0 in SF. destruct SF as (Y1 & Y2 & _).
    rewrite (nth_map_lt snap (due nsteps p) k snap0 0 Hk) in Y1, Y2.
    split; congruence.
  Qed.
End SplitRetrieve.

(** * (S4) non-vacuity *)
(** step t: t mod 3 particles (zero at t = 0, 3, 6), two variables *)
Definition ex_snap (t : Z) : snapshot :=
  let c := Z.to_nat (t mod 3) in
  {| stime := 600 * t; cols := [zrange_aux (10 * t) c; zrange_aux (100 * t) c] |}.

Example split_ex_chunk : chunk 3 [0; 1; 2; 3; 4; 5; 6] = [[0; 1; 2]; [3; 4; 5]; [6]] /\
                         chunk 3 [0; 1; 2; 3; 4; 5] = [[0; 1; 2]; [3; 4; 5]] /\ chunk 3 (@nil Z) = [].
Proof. vm_compute. repeat split. Qed.

Example split_ex_wf : forall step, In step (due 7 1) -> wf_snap 2 (ex_snap step).
Proof.
  intros step H. vm_compute in H.
  repeat (destruct H as [<-|H]; [split; [reflexivity|repeat constructor]|]). destruct H.
Qed.

Example split_ex_files :
  let s := out_run snapshot unit ex_snap (fun _ => tt) 7 1 3 in
  err s = false /\
  map (fun f => (fno f, map stime (recs f), map snap_count (recs f), closed f)) (files s)
    = [(0, [0; 600; 1200], [0; 1; 2], true); (1, [1800; 2400; 3000], [0; 1; 2], true); (2, [3600], [0], true)] /\
  map recs (files s) = chunk 3 (map ex_snap (due 7 1)).
Proof. vm_compute. repeat split. Qed.

(** record 4 of the run (step 4: one particle, values 40 and 400) is record 4 mod 3 = 1 of file 4 / 3 = 1;
    that file's own counts are 0, 1, 2 and its instance arrays start at zero *)
Example split_ex_retrieve :
  let s := out_run snapshot unit ex_snap (fun _ => tt) 7 1 3 in
  let f1 := fst (sparse_run 2 (recs (nth 1 (files s) (new_file snapshot unit 0)))) in
  (4 / 3 = 1 /\ 4 mod 3 = 1)%nat /\
  counts f1 = [0; 1; 2] /\ flat f1 = [[40; 50; 51]; [400; 500; 501]] /\ stimes f1 = [1800; 2400; 3000] /\
  retrieve f1 1 = [[40]; [400]] /\ retrieve f1 1 = cols (ex_snap (nth 4 (due 7 1) 0)) /\
  nth 1 (stimes f1) 0 = stime (ex_snap 4) /\
  retrieve f1 0 = [[]; []] /\ retrieve f1 2 = [[50; 51]; [500; 501]].
Proof. vm_compute. repeat split. Qed.

(** the last file (one record, zero particles) is a well-formed ragged file of its own *)
Example split_ex_last :
  let s := out_run snapshot unit ex_snap (fun _ => tt) 7 1 3 in
  let f2 := fst (sparse_run 2 (recs (nth 2 (files s) (new_file snapshot unit 0)))) in
  counts f2 = [0] /\ flat f2 = [[]; []] /\ retrieve f2 0 = [[]; []] /\ stimes f2 = [3600].
Proof. vm_compute. repeat split. Qed.

(** last file exactly full: six records in files of three, no empty third file; nothing due: one empty file *)
Example split_ex_exact :
  map (fun f => map stime (recs f)) (files (out_run snapshot unit ex_snap (fun _ => tt) 6 1 3))
    = [[0; 600; 1200]; [1800; 2400; 3000]] /\
  map (fun f => map stime (recs f)) (files (out_run snapshot unit ex_snap (fun _ => tt) 0 1 3)) = [[]].
Proof. vm_compute. repeat split. Qed.

(** the general theorem instantiated on the example (hypotheses discharged, so it is not vacuous) *)
Example split_ex_theorem :
  let s := out_run snapshot unit ex_snap (fun _ => tt) 7 1 3 in
  let fa := fst (sparse_run 2 (recs (nth 1 (files s) (new_file snapshot unit 0)))) in
  nth 0 (retrieve fa 1) [] = [40] /\ nth 1 (retrieve fa 1) [] = [400].
Proof.
  assert (4 < length (due 7 1))%nat as Hk by (vm_compute; lia).
  pose proof (split_record_retrievable unit ex_snap (fun _ => tt) 2 7 1 3 4 0
                ltac:(lia) ltac:(lia) ltac:(lia) split_ex_wf Hk ltac:(lia)) as T0.
  pose proof (split_record_retrievable unit ex_snap (fun _ => tt) 2 7 1 3 4 1
                ltac:(lia) ltac:(lia) ltac:(lia) split_ex_wf Hk ltac:(lia)) as T1.
  cbv zeta in T0, T1.
  destruct T0 as (_ & _ & _ & _ & X0 & _). destruct T1 as (_ & _ & _ & _ & X1 & _).
  change (Z.to_nat 3) with 3%nat in X0, X1.
  change (4 / 3)%nat with 1%nat in X0, X1. change (4 mod 3)%nat with 1%nat in X0, X1.
  split; [rewrite X0|rewrite X1]; vm_compute; reflexivity.
Qed.

Print Assumptions chunk_unique.
Print Assumptions chunk_divmod.
Print Assumptions split_files_are_chunks.
Print Assumptions split_files_all_cases.
Print Assumptions split_record_retrievable.
Print Assumptions split_retrieval_equals_unsplit.
