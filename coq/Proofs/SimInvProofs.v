(** A state predicate preserved by the physics holds for every particle of every output record
    (system-level form of C09-T6), and its instance for the tracker's move. *)
From Coq Require Import ZArith QArith List Bool Lia.
From Ladim Require Import Base.Num Model.Sim Proofs.SimProofs Model.Tracker Proofs.TrackerProofs.
Import ListNotations.
Open Scope Z_scope.

Section Inv.
  Variables V C : Type.
  Variable release_at : Z -> list (Z * V).
  Variable forcef : Z -> V -> V.
  Variable cachef : Z -> V -> C.
  Variable trackf : Z -> V -> C -> V * bool.
  Variable ibmf : Z -> V -> V * bool.
  Variable due : Z -> bool.
  Variable P : V -> Prop.
  Hypothesis Hrel : forall n x, In x (release_at n) -> P (snd x).
  Hypothesis Hforce : forall n v, P v -> P (forcef n v).
  Hypothesis Htrack : forall n v c v', P v -> trackf n v c = (v', true) -> P v'.
  Hypothesis Hibm : forall n v v', P v -> ibmf n v = (v', true) -> P v'.

  Notation step := (sim_step V C release_at forcef cachef trackf ibmf due).
  Definition good (s : sim V C) : Prop :=
    crashed s = false /\
    Forall (fun p : part V => palive p = true -> P (pval p)) (parts s) /\
    Forall (fun r : rec V => Forall (fun x => P (snd x)) (rrows r)) (recs s).

  Lemma mk_new_P l : forall pid0, (forall x, In x l -> P (snd x)) -> Forall (fun p : part V => P (pval p)) (mk_new V pid0 l).
  Proof.
    induction l as [|[t v] l IH]; intros pid0 H; cbn; constructor.
    - apply (H (t, v)). left. reflexivity.
    - apply IH. intros x Hx. apply H. right. exact Hx.
  Qed.

  Lemma after_release_P (s : sim V C) n : good s ->
    Forall (fun p : part V => P (pval p)) (after_release V C release_at forcef s false n).
  Proof.
    intros (_ & G & _). unfold after_release. apply Forall_forall. intros q Hq.
    apply in_map_iff in Hq as (p & <- & Hp). cbn. apply Hforce. apply in_app_or in Hp as [Hp|Hp].
    - apply filter_In in Hp as [Hp Al]. rewrite Forall_forall in G. apply G; assumption.
    - pose proof (mk_new_P (release_at n) (npid s) (Hrel n)) as F. rewrite Forall_forall in F. apply F. exact Hp.
  Qed.

  Lemma step_good s n : good s -> good (step s n).
  Proof.
    intro G. pose proof (after_release_P s n G) as AR. destruct G as (H & G1 & G2).
    unfold sim_step. rewrite step_spec by exact H. unfold good. cbn [parts recs crashed]. split; [reflexivity|]. split.
    - apply Forall_forall. intros q Hq. apply in_map_iff in Hq as (p & <- & Hp).
      rewrite Forall_forall in AR. specialize (AR p Hp). unfold moved.
      destruct (trackf n (pval p) (cachef n (pval p))) as [v1 a1] eqn:E1. destruct (ibmf n v1) as [v2 a2] eqn:E2.
      cbn. intro A. apply andb_true_iff in A as [A A2]. apply andb_true_iff in A as [A0 A1]. subst a1 a2.
      eapply Hibm; [|exact E2]. eapply Htrack; [exact AR|exact E1].
    - destruct (true && due n); [|exact G2]. apply Forall_app. split; [exact G2|]. constructor; [|constructor].
      unfold snapshot. cbn. apply Forall_forall. intros x Hx. apply in_map_iff in Hx as (p & <- & Hp). cbn.
      rewrite Forall_forall in AR. apply AR. exact Hp.
  Qed.

  Theorem records_satisfy l : forall s, good s -> good (fold_left step l s).
  Proof. induction l as [|n l IH]; intros s G; cbn; [exact G|]. apply IH. apply step_good. exact G. Qed.

  Corollary cold_records_satisfy N :
    Forall (fun r : rec V => Forall (fun x => P (snd x)) (rrows r))
           (recs (cold_run V C release_at forcef cachef trackf ibmf due N)).
  Proof.
    assert (good (sim_init V C)) as G0 by (repeat split; constructor).
    exact (proj2 (proj2 (records_satisfy (zrange 0 N) _ G0))).
  Qed.
End Inv.

(** instance: the tracker's move with an arbitrary candidate (any velocity field, scheme, diffusion draw) *)
Section TrackerInstance.
  Variable g : grid.
  Variable C : Type.
  Variable cand : Z -> Q * Q * bool -> C -> option (Q * Q).     (* arbitrary *)
  Definition wet (v : Q * Q * bool) : Prop :=
    ingrid g (fst (fst v)) (snd (fst v)) = true /\ atsea g (fst (fst v)) (snd (fst v)) = true.
  Definition track_inst (n : Z) (v : Q * Q * bool) (c : C) : (Q * Q * bool) * bool :=
    let p := {| px := fst (fst v); py := snd (fst v); alive := true; active := snd v |} in
    let q := move g p (cand n v c) in
    ((px q, py q, active q), alive q).
  Lemma track_inst_wet n v c v' : wet v -> track_inst n v c = (v', true) -> wet v'.
  Proof.
    intros W E. unfold track_inst in E. injection E as <- A.
    set (p := {| px := fst (fst v); py := snd (fst v); alive := true; active := snd v |}) in *.
    assert (valid g p) as V0 by (intros _; exact W).
    exact (move_preserves_valid g p (cand n v c) V0 A).
  Qed.
End TrackerInstance.
