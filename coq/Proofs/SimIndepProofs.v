(** C14: particles are independent — removing / adding other release rows, or other particles dying,
    leaves a particle's values unchanged (up to renumbering of pids). *)
From Coq Require Import ZArith List Bool Lia.
From Ladim Require Import Base.Num Model.Sim Proofs.SimProofs.
Import ListNotations.
Open Scope Z_scope.

Section Indep.
  Variables V C : Type.
  Variable release_at : Z -> list (Z * V).
  Variable forcef : Z -> V -> V.
  Variable cachef : Z -> V -> C.
  Variable trackf : Z -> V -> C -> V * bool.
  Variable ibmf : Z -> V -> V * bool.
  Variable due : Z -> bool.
  Variable keep : Z -> bool.                      (* which release rows (tags) the second set-up keeps *)
  Definition release_sub (n : Z) : list (Z * V) := filter (fun x => keep (fst x)) (release_at n).

  Notation step1 := (sim_step V C release_at forcef cachef trackf ibmf due).
  Notation step2 := (sim_step V C release_sub forcef cachef trackf ibmf due).

  (** what is observable of a particle apart from its number *)
  Definition view (ps : list (part V)) : list (Z * V * bool) := map (fun p => (tag p, pval p, palive p)) ps.
  Definition kfilter (l : list (Z * V * bool)) := filter (fun x => keep (fst (fst x))) l.
  Definition vstep (n : Z) (x : Z * V * bool) : Z * V * bool :=
    let '(t, v, a) := x in
    let v0 := forcef n v in
    let '(v1, a1) := trackf n v0 (cachef n v0) in
    let '(v2, a2) := ibmf n v1 in (t, v2, a && a1 && a2).

  Lemma view_moved_forced n ps :
    view (map (moved V C cachef trackf ibmf n) (map (forced V forcef n) ps)) = map (vstep n) (view ps).
  Proof.
    unfold view. rewrite !map_map. apply map_ext. intro p. unfold moved, forced, vstep. cbn.
    destruct (trackf n (forcef n (pval p)) (cachef n (forcef n (pval p)))) as [v1 a1].
    destruct (ibmf n v1) as [v2 a2]. reflexivity.
  Qed.
  Lemma vstep_tag n x : fst (fst (vstep n x)) = fst (fst x).
  Proof.
    destruct x as [[t v] a]. unfold vstep.
    destruct (trackf n (forcef n v) (cachef n (forcef n v))) as [v1 a1]. destruct (ibmf n v1) as [v2 a2]. reflexivity.
  Qed.
  Lemma kfilter_vstep n l : kfilter (map (vstep n) l) = map (vstep n) (kfilter l).
  Proof.
    induction l as [|x l IH]; [reflexivity|]. unfold kfilter in *. cbn [map filter].
    rewrite vstep_tag. destruct (keep (fst (fst x))); cbn [map]; rewrite IH; reflexivity.
  Qed.
  Lemma view_compactify ps : view (compactify V ps) = filter (fun x => snd x) (view ps).
  Proof.
    unfold view, compactify. induction ps as [|[t i v a] ps IH]; cbn [filter map]; [reflexivity|].
    cbn [tag pval palive]. destruct a; cbn [filter map snd tag pval palive]; rewrite IH; reflexivity.
  Qed.
  Lemma kfilter_alive l : kfilter (filter (fun x : Z * V * bool => snd x) l) = filter (fun x => snd x) (kfilter l).
  Proof.
    unfold kfilter. induction l as [|[[t v] a] l IH]; cbn [filter fst snd]; [reflexivity|].
    destruct a; cbn [filter fst snd]; destruct (keep t) eqn:K; cbn [filter fst snd]; rewrite ?K, ?IH; reflexivity.
  Qed.
  Lemma view_mk_new l : forall pid0, view (mk_new V pid0 l) = map (fun x => (fst x, snd x, true)) l.
  Proof. unfold view. induction l as [|[t v] l IH]; intro pid0; cbn [mk_new map fst snd tag pval palive]; [reflexivity|]. f_equal. apply IH. Qed.
  Lemma kfilter_new l : kfilter (map (fun x : Z * V => (fst x, snd x, true)) l)
                        = map (fun x => (fst x, snd x, true)) (filter (fun x => keep (fst x)) l).
  Proof. unfold kfilter. induction l as [|[t v] l IH]; cbn [filter map fst snd]; [reflexivity|]. destruct (keep t); cbn [filter map fst snd]; rewrite IH; reflexivity. Qed.
  Lemma view_app a b : view (a ++ b) = view a ++ view b.
  Proof. unfold view. apply map_app. Qed.
  Lemma kfilter_app a b : kfilter (a ++ b) = kfilter a ++ kfilter b.
  Proof. unfold kfilter. apply filter_app. Qed.

  (** one step commutes with dropping the other rows *)
  Lemma step_commutes (s1 s2 : sim V C) n : crashed s1 = false -> crashed s2 = false ->
    view (parts s2) = kfilter (view (parts s1)) ->
    view (parts (step2 s2 n)) = kfilter (view (parts (step1 s1 n))).
  Proof.
    intros H1 H2 E. unfold sim_step. rewrite !step_spec by assumption. cbn [parts]. unfold after_release.
    rewrite !view_moved_forced, kfilter_vstep. f_equal.
    rewrite !view_app, kfilter_app, !view_compactify, kfilter_alive, E. f_equal.
    rewrite !view_mk_new, kfilter_new. reflexivity.
  Qed.

  (** records, seen as (tag, values) rows *)
  Definition rview (r : rec V) : Z * list (Z * V) := (rstep r, map (fun x => (snd (fst x), snd x)) (rrows r)).
  Definition rkeep (x : Z * list (Z * V)) : Z * list (Z * V) := (fst x, filter (fun y => keep (fst y)) (snd x)).
  Lemma rview_snapshot n ps : rview (snapshot V n ps) = (n, map (fun x => (fst (fst x), snd (fst x))) (view ps)).
  Proof. unfold rview, snapshot, view. cbn. rewrite !map_map. reflexivity. Qed.
  Lemma view_forced n ps : view (map (forced V forcef n) ps) = map (fun x => (fst (fst x), forcef n (snd (fst x)), snd x)) (view ps).
  Proof. unfold view. rewrite !map_map. reflexivity. Qed.

  Lemma kfilter_map_tagpres (g : Z * V * bool -> Z * V * bool) l :
    (forall x, fst (fst (g x)) = fst (fst x)) -> kfilter (map g l) = map g (kfilter l).
  Proof.
    intro G. unfold kfilter. induction l as [|x l IH]; [reflexivity|]. cbn [map filter]. rewrite G.
    destruct (keep (fst (fst x))); cbn [map]; rewrite IH; reflexivity.
  Qed.
  Lemma after_release_commutes (s1 s2 : sim V C) n :
    view (parts s2) = kfilter (view (parts s1)) ->
    view (after_release V C release_sub forcef s2 false n) = kfilter (view (after_release V C release_at forcef s1 false n)).
  Proof.
    intro E. unfold after_release. rewrite !view_forced.
    rewrite kfilter_map_tagpres by (intros [[t v] a]; reflexivity). f_equal.
    rewrite !view_app, kfilter_app, !view_compactify, kfilter_alive, E. f_equal.
    rewrite !view_mk_new, kfilter_new. reflexivity.
  Qed.

  Lemma records_commute (s1 s2 : sim V C) n : crashed s1 = false -> crashed s2 = false ->
    view (parts s2) = kfilter (view (parts s1)) ->
    map rview (recs s2) = map rkeep (map rview (recs s1)) ->
    map rview (recs (step2 s2 n)) = map rkeep (map rview (recs (step1 s1 n))).
  Proof.
    intros H1 H2 E R. unfold sim_step. rewrite !step_spec by assumption. cbn [recs].
    destruct (true && due n); [|exact R].
    rewrite !map_app, R. f_equal. cbn [map]. f_equal. rewrite !rview_snapshot. unfold rkeep. cbn [fst snd]. f_equal.
    rewrite (after_release_commutes s1 s2 n E).
    generalize (view (after_release V C release_at forcef s1 false n)). intro l. unfold kfilter.
    induction l as [|[[t v] a] l IH]; cbn [filter map fst snd]; [reflexivity|].
    destruct (keep t); cbn [filter map fst snd]; rewrite IH; reflexivity.
  Qed.

  (** C14-T1: for every number of steps, the run of the sub-table is the run of the full table with the
      other particles dropped: same values, same liveness, same records for every kept row *)
  Theorem particlewise steps : forall (s1 s2 : sim V C), crashed s1 = false -> crashed s2 = false ->
    view (parts s2) = kfilter (view (parts s1)) ->
    map rview (recs s2) = map rkeep (map rview (recs s1)) ->
    view (parts (fold_left step2 steps s2)) = kfilter (view (parts (fold_left step1 steps s1))) /\
    map rview (recs (fold_left step2 steps s2)) = map rkeep (map rview (recs (fold_left step1 steps s1))).
  Proof.
    induction steps as [|n steps IH]; intros s1 s2 H1 H2 E R; cbn [fold_left]; [split; assumption|].
    apply IH.
    - apply step_not_crashed. exact H1.
    - apply step_not_crashed. exact H2.
    - apply step_commutes; assumption.
    - apply records_commute; assumption.
  Qed.
  Corollary particlewise_cold N :
    let r1 := cold_run V C release_at forcef cachef trackf ibmf due N in
    let r2 := cold_run V C release_sub forcef cachef trackf ibmf due N in
    view (parts r2) = kfilter (view (parts r1)) /\ map rview (recs r2) = map rkeep (map rview (recs r1)).
  Proof. unfold cold_run. apply particlewise; reflexivity. Qed.
End Indep.
