(** Global convergence with order p = 1, 2, 4 of EF / RK2 / RK4 on the linear test equation
    x' = lam * x, over the reals (C01, convergence clause restricted to linear fields).

    One step of the scheme of order p with step h multiplies the solution by the stability polynomial
    R_p(lam*h) = sum_{k<=p} (lam*h)^k / k!  (SchemeProofs.ef_linear / rk2_linear / rk4_linear, over Q).
    Integrating over a fixed time T with n equal steps h = T/n gives the factor R_p(z/n)^n with z = lam*T,
    the exact flow gives exp z.  Main theorems (conv_EF, conv_RK2, conv_RK4, and conv_order for every p):

       | R_p(z/n)^n - exp z |  <=  ( |z|^(p+1) * exp |z| / (p+1)! ) / n^p     for every n >= 1.

    model_conv_EF / model_conv_RK2 / model_conv_RK4 transport this to the model itself: n steps of
    Tracker.rk_generic (rk_iter) on the linear field u = lam*x + mu with dtdx = T/n, against the exact
    end point (x0 + mu/lam) * exp (lam*T) - mu/lam.

    Uses only the axioms of the standard-library reals plus what Coquelicot's Taylor_Lagrange pulls in
    (classical logic, functional extensionality); see the Print Assumptions at the end. *)
From Coq Require Import Reals Lra Lia Psatz QArith Qreals.
From Coquelicot Require Import Coquelicot.
From Ladim Require Import Model.Tracker Proofs.SchemeProofs.
Open Scope R_scope.

(** * the stability polynomials *)
Definition Tp (p : nat) (w : R) : R := sum_f_R0 (fun k => w ^ k / INR (fact k)) p.
Definition R1 (w : R) : R := 1 + w.
Definition R2 (w : R) : R := 1 + w + w * w / 2.
Definition R4 (w : R) : R := 1 + w + w * w / 2 + w * w * w / 6 + w * w * w * w / 24.

Lemma R1_Tp w : R1 w = Tp 1 w.
Proof. unfold R1, Tp. simpl. field. Qed.
Lemma R2_Tp w : R2 w = Tp 2 w.
Proof. unfold R2, Tp. simpl. field. Qed.
Lemma R4_Tp w : R4 w = Tp 4 w.
Proof. unfold R4, Tp. simpl. field. Qed.

(** * (1) one-step (local) error: Taylor-Lagrange for exp at 0, both signs *)
Lemma ex_derive_n_exp k y : ex_derive_n exp k y.
Proof.
  destruct k as [|k]. exact I.
  exists (exp y). exact (is_derive_n_exp (S k) y).
Qed.

Lemma Derive_n_exp k y : Derive_n exp k y = exp y.
Proof. apply is_derive_n_unique, is_derive_n_exp. Qed.

Lemma exp_taylor_pos p w : 0 < w ->
  exists c, 0 < c < w /\ exp w = Tp p w + w ^ S p / INR (fact (S p)) * exp c.
Proof.
  intros Hw.
  destruct (Taylor_Lagrange exp p 0 w Hw) as (c & Hc & E).
  { intros t _ k _. apply ex_derive_n_exp. }
  exists c. split. exact Hc.
  rewrite E. rewrite Derive_n_exp. f_equal.
  unfold Tp. apply sum_eq. intros i _.
  rewrite Derive_n_exp, exp_0, Rminus_0_r. ring.
  rewrite Rminus_0_r. reflexivity.
Qed.

Lemma exp_taylor_neg p w : 0 < w ->
  exists c, 0 < c < w /\ exp (- w) = Tp p (- w) + (- w) ^ S p / INR (fact (S p)) * exp (- c).
Proof.
  intros Hw.
  assert (HD : forall k t, Derive_n (fun y => exp (- y)) k t = (-1) ^ k * exp (- t)).
  { intros k t. rewrite Derive_n_comp_opp. now rewrite Derive_n_exp.
    apply filter_forall. intros y j _. apply ex_derive_n_exp. }
  destruct (Taylor_Lagrange (fun y => exp (- y)) p 0 w Hw) as (c & Hc & E).
  { intros t _ k _. apply ex_derive_n_comp_opp.
    apply filter_forall. intros y j _. apply ex_derive_n_exp. }
  exists c. split. exact Hc.
  rewrite E. rewrite HD. rewrite Rminus_0_r.
  f_equal.
  - unfold Tp. apply sum_eq. intros i _.
    rewrite HD, Ropp_0, exp_0.
    replace (- w) with (-1 * w) by ring. rewrite Rpow_mult_distr. field.
    apply INR_fact_neq_0.
  - replace (- w) with (-1 * w) at 1 by ring. rewrite Rpow_mult_distr. field.
    apply INR_fact_neq_0.
Qed.

Lemma Tp_0 p : Tp p 0 = 1.
Proof.
  induction p as [|p IH]; unfold Tp in *; simpl.
  - field.
  - rewrite IH. rewrite Rmult_0_l. unfold Rdiv. ring.
Qed.

Theorem local_error p w :
  Rabs (Tp p w - exp w) <= Rabs w ^ S p / INR (fact (S p)) * exp (Rabs w).
Proof.
  assert (Hf : 0 < / INR (fact (S p))) by (apply Rinv_0_lt_compat, INR_fact_lt_0).
  destruct (Rtotal_order w 0) as [Hw | [Hw | Hw]].
  - destruct (exp_taylor_neg p (- w)) as (c & Hc & E). lra.
    rewrite Ropp_involutive in E. rewrite E.
    replace (Tp p w - _) with (- (w ^ S p / INR (fact (S p)) * exp (- c))) by ring.
    rewrite Rabs_Ropp, Rabs_mult. unfold Rdiv. rewrite Rabs_mult.
    rewrite <- RPow_abs.
    rewrite (Rabs_pos_eq (/ _)) by lra.
    rewrite (Rabs_pos_eq (exp _)) by (left; apply exp_pos).
    apply Rmult_le_compat_l.
    + apply Rmult_le_pos. apply pow_le, Rabs_pos. lra.
    + destruct (Rle_lt_dec (- c) (Rabs w)) as [H | H].
      * destruct H as [H | H]. left; now apply exp_increasing. rewrite H; lra.
      * pose proof (Rabs_pos w). lra.
  - subst w. rewrite Tp_0, exp_0, Rabs_R0. replace (1 - 1) with 0 by ring.
    rewrite Rabs_R0. simpl. rewrite Rmult_0_l. unfold Rdiv. rewrite Rmult_0_l, Rmult_0_l. lra.
  - destruct (exp_taylor_pos p w Hw) as (c & Hc & E).
    rewrite E.
    replace (Tp p w - _) with (- (w ^ S p / INR (fact (S p)) * exp c)) by ring.
    rewrite Rabs_Ropp, Rabs_mult. unfold Rdiv. rewrite Rabs_mult.
    rewrite <- RPow_abs.
    rewrite (Rabs_pos_eq (/ _)) by lra.
    rewrite (Rabs_pos_eq (exp _)) by (left; apply exp_pos).
    apply Rmult_le_compat_l.
    + apply Rmult_le_pos. apply pow_le, Rabs_pos. lra.
    + left. apply exp_increasing. rewrite (Rabs_pos_eq w); lra.
Qed.

(** * (2) stability: |R_p(w)| <= exp |w| *)
Lemma Tp_abs p w : Rabs (Tp p w) <= Tp p (Rabs w).
Proof.
  unfold Tp. induction p as [|p IH]; cbn [sum_f_R0].
  - simpl. unfold Rdiv. rewrite Rinv_1, Rmult_1_r, Rabs_R1. lra.
  - eapply Rle_trans. apply Rabs_triang. apply Rplus_le_compat. exact IH.
    unfold Rdiv. rewrite Rabs_mult.
    rewrite (Rabs_pos_eq (/ _)) by (left; apply Rinv_0_lt_compat, (INR_fact_lt_0 (S p))).
    rewrite <- (RPow_abs w (S p)). lra.
Qed.

Theorem stability p w : Rabs (Tp p w) <= exp (Rabs w).
Proof.
  eapply Rle_trans. apply Tp_abs. apply exp_ge_taylor, Rabs_pos.
Qed.

(** * (3) telescoping: |a^n - b^n| <= n * M^(n-1) * |a - b| when |a|, |b| <= M *)
Lemma pow_diff_bound a b M n : Rabs a <= M -> Rabs b <= M ->
  Rabs (a ^ S n - b ^ S n) <= INR (S n) * M ^ n * Rabs (a - b).
Proof.
  intros Ha Hb.
  assert (HM : 0 <= M) by (pose proof (Rabs_pos a); lra).
  induction n as [|n IH].
  - simpl. rewrite !Rmult_1_r, Rmult_1_l. lra.
  - replace (a ^ S (S n) - b ^ S (S n)) with (a * (a ^ S n - b ^ S n) + (a - b) * b ^ S n)
      by (simpl; ring).
    eapply Rle_trans. apply Rabs_triang.
    rewrite !Rabs_mult. rewrite <- (RPow_abs b (S n)).
    assert (H1 : Rabs a * Rabs (a ^ S n - b ^ S n) <= M * (INR (S n) * M ^ n * Rabs (a - b))).
    { apply Rmult_le_compat; try apply Rabs_pos; assumption. }
    assert (H2 : Rabs (a - b) * Rabs b ^ S n <= Rabs (a - b) * M ^ S n).
    { apply Rmult_le_compat_l. apply Rabs_pos. apply pow_incr. split. apply Rabs_pos. exact Hb. }
    rewrite (S_INR (S n)).
    replace ((INR (S n) + 1) * M ^ S n * Rabs (a - b))
      with (M * (INR (S n) * M ^ n * Rabs (a - b)) + Rabs (a - b) * M ^ S n) by (simpl; ring).
    lra.
Qed.

(** * (4) n exact steps compose to the exact flow: (exp w)^n = exp (n*w) *)
Lemma exp_pow_INR w n : exp w ^ n = exp (INR n * w).
Proof.
  induction n as [|n IH].
  - simpl. now rewrite Rmult_0_l, exp_0.
  - rewrite S_INR. replace ((INR n + 1) * w) with (w + INR n * w) by ring.
    rewrite exp_plus, <- IH. reflexivity.
Qed.

(** * global error of order p, every p *)
Definition Cconv (p : nat) (z : R) : R := Rabs z ^ S p * exp (Rabs z) / INR (fact (S p)).

Theorem conv_order p z n : (1 <= n)%nat ->
  Rabs (Tp p (z / INR n) ^ n - exp z) <= Cconv p z / INR n ^ p.
Proof.
  intros Hn. destruct n as [|m]. lia. clear Hn.
  set (N := INR (S m)).
  assert (HN : 0 < N) by (apply lt_0_INR; lia).
  set (w := z / N).
  assert (Ez : exp z = exp w ^ S m).
  { rewrite exp_pow_INR. f_equal. unfold w. fold N. field. lra. }
  rewrite Ez.
  assert (Ew : Rabs w = Rabs z / N).
  { unfold w, Rdiv. rewrite Rabs_mult, (Rabs_pos_eq (/ N)). reflexivity.
    left. now apply Rinv_0_lt_compat. }
  eapply Rle_trans.
  apply (pow_diff_bound _ _ (exp (Rabs w))).
  - apply stability.
  - rewrite Rabs_pos_eq by (left; apply exp_pos).
    destruct (Rle_abs w) as [H | H]. left; now apply exp_increasing. rewrite H at 1. lra.
  - fold N.
    eapply Rle_trans.
    apply Rmult_le_compat_l; [ | apply (local_error p w) ].
    { apply Rmult_le_pos. lra. apply pow_le. left. apply exp_pos. }
    apply Req_le.
    replace (N * exp (Rabs w) ^ m * (Rabs w ^ S p / INR (fact (S p)) * exp (Rabs w)))
      with (N * exp (Rabs w) ^ S m * Rabs w ^ S p / INR (fact (S p))) by (simpl; unfold Rdiv; ring).
    rewrite exp_pow_INR. fold N. rewrite Ew.
    replace (N * (Rabs z / N)) with (Rabs z) by (field; lra).
    unfold Cconv. unfold Rdiv at 2. rewrite Rpow_mult_distr, pow_inv.
    simpl. field. split. apply (INR_fact_neq_0 (S p)). split. apply pow_nonzero; lra. lra.
Qed.

(** * the three schemes of the tracker *)
Theorem conv_EF z n : (1 <= n)%nat ->
  Rabs (R1 (z / INR n) ^ n - exp z) <= (Rabs z ^ 2 * exp (Rabs z) / 2) / INR n ^ 1.
Proof.
  intros Hn. rewrite R1_Tp. eapply Rle_trans. apply (conv_order 1 z n Hn).
  apply Req_le. unfold Cconv. simpl. field. apply not_0_INR. lia.
Qed.

Theorem conv_RK2 z n : (1 <= n)%nat ->
  Rabs (R2 (z / INR n) ^ n - exp z) <= (Rabs z ^ 3 * exp (Rabs z) / 6) / INR n ^ 2.
Proof.
  intros Hn. rewrite R2_Tp. eapply Rle_trans. apply (conv_order 2 z n Hn).
  apply Req_le. unfold Cconv. simpl. field. apply not_0_INR. lia.
Qed.

Theorem conv_RK4 z n : (1 <= n)%nat ->
  Rabs (R4 (z / INR n) ^ n - exp z) <= (Rabs z ^ 5 * exp (Rabs z) / 120) / INR n ^ 4.
Proof.
  intros Hn. rewrite R4_Tp. eapply Rle_trans. apply (conv_order 4 z n Hn).
  apply Req_le. unfold Cconv. simpl. field. apply not_0_INR. lia.
Qed.

(** * connection with the model: n steps of rk_generic on the linear field u = lam*x + mu
    (SchemeProofs.ef_linear / rk2_linear / rk4_linear), total "time" T = n * dtdx, compared with the
    exact solution x(T) = (x0 + mu/lam) * exp (lam*T) - mu/lam of dx/dt = lam*x + mu. *)
Fixpoint rk_iter (vel : Q -> Q -> Q -> Q * Q) (dtdx dtdy : Q) (t : tableau) (n : nat) (x y : Q) : Q * Q :=
  match n with
  | O => (x, y)
  | S k => let p := rk_iter vel dtdx dtdy t k x y in rk_generic vel dtdx dtdy t (fst p) (snd p)
  end.

Lemma Q2R_one : Q2R 1 = 1.  Proof. unfold Q2R. simpl. lra. Qed.
Lemma Q2R_2 : Q2R 2 = 2.  Proof. unfold Q2R. simpl. lra. Qed.
Lemma Q2R_6 : Q2R 6 = 6.  Proof. unfold Q2R. simpl. lra. Qed.
Lemma Q2R_24 : Q2R 24 = 24.  Proof. unfold Q2R. simpl. lra. Qed.
Lemma Q2R_nat n : Q2R (inject_Z (Z.of_nat n)) = INR n.
Proof. unfold Q2R. simpl. rewrite INR_IZR_INZ. field. Qed.

Section LinearIter.
  Variables lam mu dtdx dtdy : Q.
  Hypothesis Hlam : ~ (lam == 0)%Q.
  Let s := Q2R mu / Q2R lam.
  Let zr := Q2R lam * Q2R dtdx.
  Let Hl : Q2R lam <> 0.
  Proof. intro H. apply Hlam. apply eqR_Qeq. rewrite H. unfold Q2R. simpl. lra. Qed.

  (** one step multiplies x + mu/lam by the stability polynomial *)
  Lemma step_EF_R x y :
    Q2R (fst (rk_generic (vlin lam mu) dtdx dtdy tab_EF x y)) + s = (Q2R x + s) * R1 zr.
  Proof.
    rewrite (Qeq_eqR _ _ (ef_linear lam mu dtdx dtdy x y)).
    repeat (rewrite ?Q2R_plus, ?Q2R_mult).
    unfold R1, s, zr. field. exact Hl.
  Qed.
  Lemma step_RK2_R x y :
    Q2R (fst (rk_generic (vlin lam mu) dtdx dtdy tab_RK2 x y)) + s = (Q2R x + s) * R2 zr.
  Proof.
    rewrite (Qeq_eqR _ _ (rk2_linear lam mu dtdx dtdy x y)).
    repeat (rewrite ?Q2R_plus, ?Q2R_mult, ?Q2R_div by discriminate). rewrite ?Q2R_one, ?Q2R_2.
    unfold R2, s, zr. field. exact Hl.
  Qed.
  Lemma step_RK4_R x y :
    Q2R (fst (rk_generic (vlin lam mu) dtdx dtdy tab_RK4 x y)) + s = (Q2R x + s) * R4 zr.
  Proof.
    rewrite (Qeq_eqR _ _ (rk4_linear lam mu dtdx dtdy x y)).
    repeat (rewrite ?Q2R_plus, ?Q2R_mult, ?Q2R_div by discriminate).
    rewrite ?Q2R_one, ?Q2R_2, ?Q2R_6, ?Q2R_24.
    unfold R4, s, zr. field. exact Hl.
  Qed.

  (** hence n steps multiply it by the n-th power *)
  Lemma iter_R (t : tableau) (r : R) :
    (forall x y, Q2R (fst (rk_generic (vlin lam mu) dtdx dtdy t x y)) + s = (Q2R x + s) * r) ->
    forall n x y, Q2R (fst (rk_iter (vlin lam mu) dtdx dtdy t n x y)) + s = (Q2R x + s) * r ^ n.
  Proof.
    intros Hstep n x y. induction n as [|n IH].
    - simpl. ring.
    - cbn [rk_iter]. rewrite Hstep, IH. simpl. ring.
  Qed.
End LinearIter.

Section ModelConvergence.
  Variables lam mu T dtdy x0 y0 : Q.
  Variable n : nat.
  Hypothesis Hlam : ~ (lam == 0)%Q.
  Hypothesis Hn : (1 <= n)%nat.
  Let dtdx : Q := (T / inject_Z (Z.of_nat n))%Q.
  Let s := Q2R mu / Q2R lam.
  Let z := Q2R lam * Q2R T.
  Definition exact_end : R := (Q2R x0 + Q2R mu / Q2R lam) * exp (Q2R lam * Q2R T) - Q2R mu / Q2R lam.

  Let Hz : Q2R lam * Q2R dtdx = z / INR n.
  Proof.
    unfold dtdx, z. rewrite Q2R_div, Q2R_nat. field. apply not_0_INR; lia.
    intro H. apply Qeq_eqR in H. rewrite Q2R_nat in H. unfold Q2R in H. simpl in H.
    apply (not_0_INR n). lia. lra.
  Qed.

  Lemma model_conv_gen (t : tableau) (Rp : R -> R) (C : R) (p : nat) :
    (forall x y, Q2R (fst (rk_generic (vlin lam mu) dtdx dtdy t x y)) + s = (Q2R x + s) * Rp (Q2R lam * Q2R dtdx)) ->
    Rabs (Rp (z / INR n) ^ n - exp z) <= C / INR n ^ p ->
    Rabs (Q2R (fst (rk_iter (vlin lam mu) dtdx dtdy t n x0 y0)) - exact_end)
      <= Rabs (Q2R x0 + s) * (C / INR n ^ p).
  Proof.
    intros Hstep Hc.
    pose proof (iter_R lam mu dtdx dtdy t _ Hstep n x0 y0) as E. fold s in E.
    replace (Q2R (fst (rk_iter (vlin lam mu) dtdx dtdy t n x0 y0)) - exact_end)
      with ((Q2R x0 + s) * (Rp (z / INR n) ^ n - exp z)).
    - rewrite Rabs_mult. apply Rmult_le_compat_l. apply Rabs_pos. exact Hc.
    - unfold exact_end. fold s. fold z. rewrite <- Hz. lra.
  Qed.

  Theorem model_conv_EF :
    Rabs (Q2R (fst (rk_iter (vlin lam mu) dtdx dtdy tab_EF n x0 y0)) - exact_end)
      <= Rabs (Q2R x0 + s) * ((Rabs z ^ 2 * exp (Rabs z) / 2) / INR n ^ 1).
  Proof.
    apply (model_conv_gen tab_EF R1). intros; apply (step_EF_R lam mu dtdx dtdy Hlam).
    apply (conv_EF z n Hn).
  Qed.
  Theorem model_conv_RK2 :
    Rabs (Q2R (fst (rk_iter (vlin lam mu) dtdx dtdy tab_RK2 n x0 y0)) - exact_end)
      <= Rabs (Q2R x0 + s) * ((Rabs z ^ 3 * exp (Rabs z) / 6) / INR n ^ 2).
  Proof.
    apply (model_conv_gen tab_RK2 R2). intros; apply (step_RK2_R lam mu dtdx dtdy Hlam).
    apply (conv_RK2 z n Hn).
  Qed.
  Theorem model_conv_RK4 :
    Rabs (Q2R (fst (rk_iter (vlin lam mu) dtdx dtdy tab_RK4 n x0 y0)) - exact_end)
      <= Rabs (Q2R x0 + s) * ((Rabs z ^ 5 * exp (Rabs z) / 120) / INR n ^ 4).
  Proof.
    apply (model_conv_gen tab_RK4 R4). intros; apply (step_RK4_R lam mu dtdx dtdy Hlam).
    apply (conv_RK4 z n Hn).
  Qed.
End ModelConvergence.

Print Assumptions conv_order.
Print Assumptions conv_EF.
Print Assumptions conv_RK2.
Print Assumptions conv_RK4.
Print Assumptions model_conv_EF.
Print Assumptions model_conv_RK2.
Print Assumptions model_conv_RK4.
