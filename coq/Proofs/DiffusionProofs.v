(** Proofs about Model/Diffusion.v (C11). *)
From Coq Require Import ZArith QArith Qabs List Bool Lia Lqa.
From Ladim Require Import Base.Num Model.Diffusion.
Import ListNotations.
Open Scope Z_scope.

(** * Switches *)
Lemma switch_true D : switch D = true <-> (0 < D)%Q.
Proof. unfold switch. apply Qlt_bool_true. Qed.
Lemma switch_false D : switch D = false <-> (D <= 0)%Q.
Proof. unfold switch. apply Qlt_bool_false. Qed.
Lemma switch_zero D : (D == 0)%Q -> switch D = false.
Proof. intro H. apply switch_false. rewrite H. apply Qle_refl. Qed.

(** * Draw discipline within one step *)
Definition per_particle (hon von : bool) : Z := (if hon then 2 else 0) + (if von then 1 else 0).

Lemma knext_layout hon von k n :
  knext (update_layout hon von k n) = k + per_particle hon von * n.
Proof.
  unfold per_particle.
  destruct hon, von; cbv [update_layout diffuse diffuse_vert rng_normal knext]; lia.
Qed.

Lemma step_draws_eq hon von n : step_draws hon von n = per_particle hon von * n.
Proof. unfold step_draws. rewrite knext_layout. lia. Qed.

Lemma step_index_spec hon von k n d p i :
  step_index hon von k n d p = Some i <->
  0 <= p < n /\
  match d with
  | DX => hon = true /\ i = k + p
  | DY => hon = true /\ i = k + n + p
  | DZ => von = true /\ i = k + (if hon then 2 * n else 0) + p
  end.
Proof.
  unfold step_index.
  destruct (0 <=? p) eqn:E1; destruct (p <? n) eqn:E2; cbn [andb];
    try apply Z.leb_le in E1; try apply Z.leb_gt in E1;
    try apply Z.ltb_lt in E2; try apply Z.ltb_ge in E2.
  - destruct hon, von, d; cbv [update_layout diffuse diffuse_vert rng_normal pick apply_idx ix iy iz];
      (split; intro H;
       [ first [discriminate H | injection H as H; split; [lia|split; [reflexivity|lia]]]
       | destruct H as (_ & H1 & H2); first [discriminate H1 | f_equal; lia] ]).
  - split; [discriminate|]. intros [H _]. lia.
  - split; [discriminate|]. intros [H _]. lia.
  - split; [discriminate|]. intros [H _]. lia.
Qed.

Lemma step_index_range hon von k n d p i :
  step_index hon von k n d p = Some i ->
  0 <= p < n /\ k <= i < knext (update_layout hon von k n).
Proof.
  intro H. apply step_index_spec in H. rewrite knext_layout. unfold per_particle.
  destruct H as [Hp H]. split; [exact Hp|].
  destruct d, hon, von; destruct H as [H1 H2]; try discriminate; lia.
Qed.

Lemma step_index_inj hon von k n d p d' p' i :
  step_index hon von k n d p = Some i -> step_index hon von k n d' p' = Some i ->
  d = d' /\ p = p'.
Proof.
  intros H H'. apply step_index_spec in H. apply step_index_spec in H'.
  destruct H as [Hp H]. destruct H' as [Hp' H'].
  destruct d, d', hon, von; destruct H as [H1 H2]; destruct H' as [H1' H2'];
    try discriminate; try (split; [reflexivity|lia]); exfalso; lia.
Qed.

(** * Several steps *)
Lemma nonneg_cons n r : nonneg_all (n :: r) = true <-> 0 <= n /\ nonneg_all r = true.
Proof.
  unfold nonneg_all. cbn [forallb]. rewrite andb_true_iff, Z.leb_le. reflexivity.
Qed.

Lemma per_particle_nonneg hon von : 0 <= per_particle hon von.
Proof. unfold per_particle. destruct hon, von; lia. Qed.

Lemma cursor_after_total hon von ns : forall k,
  cursor_after hon von k ns = k + per_particle hon von * zsum ns.
Proof.
  induction ns as [|n r IH]; intro k; cbn [cursor_after zsum]; [lia|].
  rewrite IH, knext_layout. lia.
Qed.

Lemma cursor_mono hon von ns : forall k, nonneg_all ns = true -> k <= cursor_after hon von k ns.
Proof.
  induction ns as [|n r IH]; intros k H; cbn [cursor_after]; [lia|].
  apply nonneg_cons in H. destruct H as [Hn Hr].
  specialize (IH (knext (update_layout hon von k n)) Hr).
  rewrite knext_layout in *. pose proof (per_particle_nonneg hon von). nia.
Qed.

Lemma draw_index_range hon von ns : forall k s d p i,
  nonneg_all ns = true -> draw_index hon von k ns s d p = Some i ->
  k <= i < cursor_after hon von k ns.
Proof.
  induction ns as [|n r IH]; intros k s d p i Hns H; cbn [draw_index cursor_after] in *; [discriminate|].
  apply nonneg_cons in Hns. destruct Hns as [Hn Hr].
  destruct s as [|s'].
  - apply step_index_range in H. destruct H as [_ H].
    pose proof (cursor_mono hon von r (knext (update_layout hon von k n)) Hr). lia.
  - apply (IH _ _ _ _ _ Hr) in H.
    rewrite knext_layout in *. pose proof (per_particle_nonneg hon von). nia.
Qed.

(** T2 *)
Lemma draws_disjoint hon von ns : forall k s d p s' d' p' i,
  nonneg_all ns = true ->
  draw_index hon von k ns s d p = Some i -> draw_index hon von k ns s' d' p' = Some i ->
  s = s' /\ d = d' /\ p = p'.
Proof.
  induction ns as [|n r IH]; intros k s d p s' d' p' i Hns H H'; cbn [draw_index] in *; [discriminate|].
  apply nonneg_cons in Hns. destruct Hns as [Hn Hr].
  destruct s as [|s]; destruct s' as [|s'].
  - destruct (step_index_inj _ _ _ _ _ _ _ _ _ H H') as [A B]. repeat split; assumption.
  - exfalso. apply step_index_range in H. apply (draw_index_range _ _ _ _ _ _ _ _ Hr) in H'. lia.
  - exfalso. apply step_index_range in H'. apply (draw_index_range _ _ _ _ _ _ _ _ Hr) in H. lia.
  - destruct (IH _ _ _ _ _ _ _ _ Hr H H') as (A & B & C). repeat split; congruence.
Qed.

(** explicit position of the draw of (step s, direction d, particle p) *)
Lemma draw_index_formula hon von ns : forall k s d p,
  (s < length ns)%nat ->
  draw_index hon von k ns s d p =
  step_index hon von (k + per_particle hon von * zsum (firstn s ns)) (nth s ns 0) d p.
Proof.
  induction ns as [|n r IH]; intros k s d p Hs; cbn [length] in Hs; [lia|].
  destruct s as [|s]; cbn [draw_index firstn nth zsum].
  - f_equal. lia.
  - rewrite IH by lia. rewrite knext_layout. f_equal. lia.
Qed.

Lemma draw_index_some hon von ns : forall k s d p,
  (s < length ns)%nat -> 0 <= p < nth s ns 0 ->
  (match d with DZ => von | _ => hon end) = true ->
  exists i, draw_index hon von k ns s d p = Some i.
Proof.
  intros k s d p Hs Hp Hon. rewrite draw_index_formula by exact Hs.
  set (k' := k + _). set (n := nth s ns 0) in *.
  destruct d.
  - exists (k' + p). apply step_index_spec. split; [exact Hp|]. split; [exact Hon|reflexivity].
  - exists (k' + n + p). apply step_index_spec. split; [exact Hp|]. split; [exact Hon|reflexivity].
  - exists (k' + (if hon then 2 * n else 0) + p). apply step_index_spec. split; [exact Hp|].
    split; [exact Hon|reflexivity].
Qed.

(** T4, draw part: nothing is consumed when both switches are off *)
Lemma no_draws_off k n : knext (update_layout false false k n) = k /\
  ix (update_layout false false k n) = None /\ iy (update_layout false false k n) = None /\
  iz (update_layout false false k n) = None.
Proof. cbn. repeat split. Qed.
Lemma cursor_off ns k : cursor_after false false k ns = k.
Proof. rewrite cursor_after_total. unfold per_particle. lia. Qed.
Lemma draw_index_off ns : forall k s d p, draw_index false false k ns s d p = None.
Proof.
  induction ns as [|n r IH]; intros k s d p; cbn [draw_index]; [reflexivity|].
  destruct s; [|apply IH].
  unfold step_index. destruct ((0 <=? p) && (p <? n)); [|reflexivity]. destruct d; reflexivity.
Qed.

(** * The L2 reading: finitely supported coefficient vectors over the draw indices *)
Open Scope Q_scope.

Lemma qsum_ext f g N : (forall i, (i < N)%nat -> f i == g i) -> qsum f N == qsum g N.
Proof.
  induction N as [|N IH]; intro H; cbn [qsum]; [reflexivity|].
  rewrite IH by (intros i Hi; apply H; lia). rewrite (H N) by lia. reflexivity.
Qed.
Lemma qsum_zero f N : (forall i, (i < N)%nat -> f i == 0) -> qsum f N == 0.
Proof.
  induction N as [|N IH]; intro H; cbn [qsum]; [reflexivity|].
  rewrite IH by (intros i Hi; apply H; lia). rewrite (H N) by lia. ring.
Qed.
Lemma qsum_plus f g N : qsum (fun i => f i + g i) N == qsum f N + qsum g N.
Proof. induction N as [|N IH]; cbn [qsum]; [ring|]. rewrite IH. ring. Qed.
Lemma qsum_scale c f N : qsum (fun i => c * f i) N == c * qsum f N.
Proof. induction N as [|N IH]; cbn [qsum]; [ring|]. rewrite IH. ring. Qed.
Lemma qsum_const c N : qsum (fun _ => c) N == inject_Z (Z.of_nat N) * c.
Proof.
  induction N as [|N IH]; cbn [qsum]; [cbn; ring|].
  rewrite IH, Nat2Z.inj_succ. unfold Z.succ. rewrite inject_Z_plus. change (inject_Z 1) with 1. ring.
Qed.

Lemma ip_sym N u v : ip N u v == ip N v u.
Proof. unfold ip. apply qsum_ext. intros i _. ring. Qed.
Lemma ip_vadd_l N u w v : ip N (vadd u w) v == ip N u v + ip N w v.
Proof. unfold ip, vadd. rewrite <- qsum_plus. apply qsum_ext. intros i _. ring. Qed.
Lemma ip_vadd_r N v u w : ip N v (vadd u w) == ip N v u + ip N v w.
Proof. rewrite ip_sym, ip_vadd_l, (ip_sym N u v), (ip_sym N w v). reflexivity. Qed.
Lemma ip_vscale_l N c u v : ip N (vscale c u) v == c * ip N u v.
Proof. unfold ip, vscale. rewrite <- qsum_scale. apply qsum_ext. intros i _. ring. Qed.
Lemma ip_vzero_l N v : ip N vzero v == 0.
Proof. unfold ip, vzero. apply qsum_zero. intros i _. ring. Qed.
Lemma ip_vzero_r N v : ip N v vzero == 0.
Proof. rewrite ip_sym. apply ip_vzero_l. Qed.

Definition in_range (N : nat) (i : Z) : bool := ((0 <=? i) && (i <? Z.of_nat N))%Z.

(** sifting: the inner product with the draw [i] reads off coefficient [i] *)
Lemma ip_draw_r N v i : ip N v (draw i) == if in_range N i then v i else 0.
Proof.
  unfold in_range. induction N as [|N IH].
  - unfold ip; cbn [qsum].
    destruct (Z.leb_spec 0 i), (Z.ltb_spec i (Z.of_nat 0)); cbn [andb]; try reflexivity. lia.
  - unfold ip in *. cbn [qsum]. rewrite IH. unfold draw. rewrite Nat2Z.inj_succ.
    destruct (Z.eqb_spec (Z.of_nat N) i) as [E|E];
      destruct (Z.leb_spec 0 i), (Z.ltb_spec i (Z.of_nat N)), (Z.ltb_spec i (Z.succ (Z.of_nat N)));
      cbn [andb]; try lia; try (subst i); ring.
Qed.
Lemma ip_draw_l N v i : ip N (draw i) v == if in_range N i then v i else 0.
Proof. rewrite ip_sym. apply ip_draw_r. Qed.

(** orthonormality of the draws *)
Lemma draws_orthonormal N i j : in_range N i = true -> in_range N j = true ->
  ip N (draw i) (draw j) == if (i =? j)%Z then 1 else 0.
Proof.
  intros Hi Hj. rewrite ip_draw_r, Hj. unfold draw. rewrite Z.eqb_sym. reflexivity.
Qed.

Lemma disp_vec_at c oi j : oi <> Some j -> disp_vec c oi j == 0.
Proof.
  intro H. destruct oi as [i|]; cbn [disp_vec]; [|reflexivity].
  unfold vscale, draw. destruct (Z.eqb_spec j i) as [E|E]; [subst; congruence|ring].
Qed.
Lemma ip_disp_l N c oi v :
  ip N (disp_vec c oi) v ==
  match oi with Some i => c * (if in_range N i then v i else 0) | None => 0 end.
Proof.
  destruct oi as [i|]; cbn [disp_vec]; [|apply ip_vzero_l].
  rewrite ip_vscale_l, ip_draw_l. reflexivity.
Qed.

Lemma vsum_at_zero f m j : (forall s, (s < m)%nat -> f s j == 0) -> vsum f m j == 0.
Proof.
  induction m as [|m IH]; intro H; cbn [vsum]; [reflexivity|].
  unfold vadd. rewrite IH by (intros s Hs; apply H; lia). rewrite (H m) by lia. ring.
Qed.

(** a single displacement against an accumulated walk that never used its draw *)
Lemma ip_disp_walk_zero N c oi (idx : nat -> option Z) (cf : nat -> Q) m :
  (forall s i, (s < m)%nat -> oi = Some i -> idx s <> Some i) ->
  ip N (disp_vec c oi) (vsum (fun s => disp_vec (cf s) (idx s)) m) == 0.
Proof.
  intro H. rewrite ip_disp_l. destruct oi as [i|]; [|reflexivity].
  destruct (in_range N i); [|ring].
  rewrite vsum_at_zero; [ring|]. intros s Hs. apply disp_vec_at. apply (H s i Hs eq_refl).
Qed.

(** walks over disjoint sets of draws are orthogonal *)
Lemma ip_walks_disjoint N (idx idx' : nat -> option Z) (cf cf' : nat -> Q) m m' :
  (forall s s' i, (s < m)%nat -> (s' < m')%nat -> idx s = Some i -> idx' s' <> Some i) ->
  ip N (vsum (fun s => disp_vec (cf s) (idx s)) m) (vsum (fun s => disp_vec (cf' s) (idx' s)) m') == 0.
Proof.
  induction m as [|m IH]; intro H; cbn [vsum]; [apply ip_vzero_l|].
  rewrite ip_vadd_l. rewrite IH by (intros s s' i Hs Hs'; apply H; lia).
  rewrite ip_disp_walk_zero; [ring|].
  intros s' i Hs' E. apply (H m s' i); [lia|exact Hs'|exact E].
Qed.

(** squared norm of a walk whose steps use pairwise different draws inside the range *)
Lemma norm_walk N (idx : nat -> option Z) (cf : nat -> Q) m :
  (forall s, (s < m)%nat -> exists i, idx s = Some i /\ in_range N i = true) ->
  (forall s s', (s < m)%nat -> (s' < m)%nat -> idx s = idx s' -> s = s') ->
  ip N (vsum (fun s => disp_vec (cf s) (idx s)) m) (vsum (fun s => disp_vec (cf s) (idx s)) m)
  == qsum (fun s => cf s * cf s) m.
Proof.
  induction m as [|m IH]; intros Hin Hinj; cbn [vsum qsum]; [apply ip_vzero_l|].
  rewrite ip_vadd_l, !ip_vadd_r.
  rewrite IH;
    [|intros s Hs; apply Hin; lia|intros s s' Hs Hs' E; apply Hinj; [lia|lia|exact E]].
  assert (ip N (disp_vec (cf m) (idx m)) (vsum (fun s => disp_vec (cf s) (idx s)) m) == 0) as Z1.
  { apply ip_disp_walk_zero. intros s i Hs E E'.
    assert (s = m) by (apply Hinj; [lia|lia|congruence]). lia. }
  rewrite (ip_sym N (vsum _ m) (disp_vec (cf m) (idx m))), Z1.
  destruct (Hin m ltac:(lia)) as (i & Ei & Ri).
  rewrite ip_disp_l, Ei, Ri. cbn [disp_vec]. unfold vscale, draw. rewrite Z.eqb_refl. ring.
Qed.

(** the vectors stand for the model's displacements: evaluating a vector on a concrete stream *)
Lemma realize_disp xi N c oi :
  match oi with Some i => in_range N i = true | None => True end ->
  realize xi N (disp_vec c oi) == diffusive xi c oi.
Proof.
  intro H. change (realize xi N (disp_vec c oi)) with (ip N (disp_vec c oi) xi).
  rewrite ip_disp_l. destruct oi as [i|]; cbn [diffusive]; [|reflexivity]. rewrite H. reflexivity.
Qed.
Lemma realize_walk xi N (idx : nat -> option Z) (cf : nat -> Q) m :
  (forall s, (s < m)%nat -> match idx s with Some i => in_range N i = true | None => True end) ->
  realize xi N (vsum (fun s => disp_vec (cf s) (idx s)) m) == qsum (fun s => diffusive xi (cf s) (idx s)) m.
Proof.
  induction m as [|m IH]; intro H; cbn [vsum qsum].
  - change (realize xi N vzero) with (ip N vzero xi). apply ip_vzero_l.
  - change (realize xi N (vadd ?a ?b)) with (ip N (vadd a b) xi). rewrite ip_vadd_l.
    change (ip N ?a xi) with (realize xi N a).
    rewrite IH by (intros s Hs; apply H; lia). rewrite realize_disp by (apply H; lia). reflexivity.
Qed.

(** * T3 on the model's index layout *)
Lemma in_range_of hon von k ns s d p i N :
  nonneg_all ns = true -> (0 <= k)%Z -> (cursor_after hon von k ns <= Z.of_nat N)%Z ->
  draw_index hon von k ns s d p = Some i -> in_range N i = true.
Proof.
  intros Hns Hk HN H. apply (draw_index_range _ _ _ _ _ _ _ _ Hns) in H.
  unfold in_range. apply andb_true_iff. split; [apply Z.leb_le|apply Z.ltb_lt]; lia.
Qed.

Lemma variance_adds_lemma hon von k ns d p (cf : nat -> Q) m N :
  nonneg_all ns = true -> (0 <= k)%Z -> (cursor_after hon von k ns <= Z.of_nat N)%Z ->
  (forall s, (s < m)%nat -> exists i, draw_index hon von k ns s d p = Some i) ->
  ip N (walk_vec hon von k ns d p cf m) (walk_vec hon von k ns d p cf m) == qsum (fun s => cf s * cf s) m.
Proof.
  intros Hns Hk HN Hex. unfold walk_vec. apply norm_walk.
  - intros s Hs. destruct (Hex s Hs) as [i Ei]. exists i. split; [exact Ei|].
    apply (in_range_of _ _ _ _ _ _ _ _ _ Hns Hk HN Ei).
  - intros s s' Hs Hs' E. destruct (Hex s Hs) as [i Ei]. rewrite Ei in E. symmetry in E.
    destruct (draws_disjoint _ _ _ _ _ _ _ _ _ _ _ Hns Ei E) as (A & _). exact A.
Qed.

Lemma variance_adds_const hon von k ns d p (c : Q) m N :
  nonneg_all ns = true -> (0 <= k)%Z -> (cursor_after hon von k ns <= Z.of_nat N)%Z ->
  (forall s, (s < m)%nat -> exists i, draw_index hon von k ns s d p = Some i) ->
  ip N (walk_vec hon von k ns d p (fun _ => c) m) (walk_vec hon von k ns d p (fun _ => c) m)
  == inject_Z (Z.of_nat m) * (c * c).
Proof.
  intros Hns Hk HN Hex. rewrite variance_adds_lemma by assumption. apply qsum_const.
Qed.

Lemma walks_orthogonal hon von k ns d p d' p' (cf cf' : nat -> Q) m m' N :
  nonneg_all ns = true -> (d, p) <> (d', p') ->
  ip N (walk_vec hon von k ns d p cf m) (walk_vec hon von k ns d' p' cf' m') == 0.
Proof.
  intros Hns Hne. unfold walk_vec. apply ip_walks_disjoint.
  intros s s' i _ _ E E'.
  destruct (draws_disjoint _ _ _ _ _ _ _ _ _ _ _ Hns E E') as (_ & A & B). congruence.
Qed.

Lemma disps_orthogonal hon von k ns s d p s' d' p' (c c' : Q) N :
  nonneg_all ns = true -> (s, d, p) <> (s', d', p') ->
  ip N (disp_vec c (draw_index hon von k ns s d p)) (disp_vec c' (draw_index hon von k ns s' d' p')) == 0.
Proof.
  intros Hns Hne. rewrite ip_disp_l.
  destruct (draw_index hon von k ns s d p) as [i|] eqn:E; [|reflexivity].
  destruct (in_range N i); [|ring].
  rewrite disp_vec_at; [ring|]. intro E'.
  destruct (draws_disjoint _ _ _ _ _ _ _ _ _ _ _ Hns E E') as (A & B & C). congruence.
Qed.

(** * Displacements in Q *)
Lemma hdisp_affine xi sd oi u dt dx :
  hdisp xi sd oi u dt dx == u * dt / dx + (sd * dt / dx) * match oi with Some i => xi i | None => 0 end.
Proof. unfold hdisp, diffusive, Qdiv. destruct oi; ring. Qed.
Lemma vdisp_affine xi sdz oi vadv w dt :
  vdisp xi sdz oi vadv w dt ==
  (if vadv then w * dt else 0) + (sdz * dt) * match oi with Some i => xi i | None => 0 end.
Proof. unfold vdisp, diffusive. destruct oi, vadv; ring. Qed.

Lemma cx2_of_sd D dt dx sd : ~ dt == 0 -> ~ dx == 0 -> sd * sd == sd2 D dt ->
  (sd * dt / dx) * (sd * dt / dx) == cx2 D dt dx.
Proof.
  intros Hdt Hdx H.
  assert ((sd * dt / dx) * (sd * dt / dx) == (sd * sd) * (dt * dt / (dx * dx))) as E by (field; exact Hdx).
  rewrite E, H. unfold sd2, cx2. field. split; assumption.
Qed.
Lemma cz2_of_sd Dz dt sdz : ~ dt == 0 -> sdz * sdz == sd2 Dz dt ->
  (sdz * dt) * (sdz * dt) == cz2 Dz dt.
Proof.
  intros Hdt H.
  assert ((sdz * dt) * (sdz * dt) == (sdz * sdz) * (dt * dt)) as E by ring.
  rewrite E, H. unfold sd2, cz2. field. exact Hdt.
Qed.

Lemma disp_exact_scaled c c2 x : 0 <= c -> c * c == c2 -> disp_exact c2 x (c * x).
Proof.
  intros Hc H. unfold disp_exact. split.
  - rewrite <- H. ring.
  - assert (c * x * x == c * (x * x)) as E by ring. rewrite E.
    apply Qmult_le_0_compat; [exact Hc|]. nra.
Qed.

Lemma hdisp_exact xi D dt dx sd i u :
  0 < dt -> 0 < dx -> 0 <= sd -> sd * sd == sd2 D dt ->
  disp_exact (cx2 D dt dx) (xi i) (hdisp xi sd (Some i) u dt dx - u * dt / dx).
Proof.
  intros Hdt Hdx Hsd H.
  assert (hdisp xi sd (Some i) u dt dx - u * dt / dx == (sd * dt / dx) * xi i) as E
    by (rewrite hdisp_affine; ring).
  unfold disp_exact. rewrite E.
  apply disp_exact_scaled.
  - unfold Qdiv. apply Qmult_le_0_compat; [apply Qmult_le_0_compat; lra|].
    apply Qlt_le_weak, Qinv_lt_0_compat, Hdx.
  - apply cx2_of_sd; [lra|lra|exact H].
Qed.
Lemma vdisp_exact xi Dz dt sdz i vadv w :
  0 < dt -> 0 <= sdz -> sdz * sdz == sd2 Dz dt ->
  disp_exact (cz2 Dz dt) (xi i) (vdisp xi sdz (Some i) vadv w dt - (if vadv then w * dt else 0)).
Proof.
  intros Hdt Hsd H.
  assert (vdisp xi sdz (Some i) vadv w dt - (if vadv then w * dt else 0) == (sdz * dt) * xi i) as E
    by (rewrite vdisp_affine; ring).
  unfold disp_exact. rewrite E.
  apply disp_exact_scaled.
  - apply Qmult_le_0_compat; lra.
  - apply cz2_of_sd; [lra|exact H].
Qed.

(** the tolerance check used by the correspondence accepts every exact displacement *)
Lemma disp_exact_close tol m c2 x e0 : 0 <= tol -> 0 <= m -> disp_exact c2 x e0 -> disp_close tol m c2 x e0 = true.
Proof.
  intros Ht Hm [H1 H2]. unfold disp_close. apply andb_true_iff. split; apply Qle_bool_iff.
  - assert (e0 * e0 - c2 * (x * x) == 0) as E by (rewrite H1; ring).
    rewrite E. change (Qabs 0) with 0. apply Qmult_le_0_compat; [exact Ht|]. nra.
  - pose proof (Qabs_nonneg x) as Hx.
    assert (0 <= tol * m * Qabs x) as P
      by (apply Qmult_le_0_compat; [apply Qmult_le_0_compat; assumption|exact Hx]).
    lra.
Qed.

(** T4, displacement part: with both switches off the step is the advective one, whatever the
    stream and the standard deviations are *)
Lemma off_is_advective xi D Dz dt sd sdz vadv k n p dx dy u v w :
  switch D = false -> switch Dz = false ->
  let r := update_disp xi D Dz dt sd sdz vadv k n p dx dy u v w in
  dX r == u * dt / dx /\ dY r == v * dt / dy /\ dZ r == (if vadv then w * dt else 0) /\
  knext (update_layout (switch D) (switch Dz) k n) = k.
Proof.
  intros H1 H2 r. subst r. unfold update_disp. rewrite H1, H2.
  cbn [update_layout ix iy iz knext apply_idx dX dY dZ].
  rewrite !hdisp_affine, vdisp_affine. repeat split; try ring.
Qed.

Lemma cx2_time_linear D dt dx (m : Z) : ~ dx == 0 ->
  inject_Z m * cx2 D dt dx == cx2 D (inject_Z m * dt) dx.
Proof. intro H. unfold cx2. field. exact H. Qed.
Lemma cz2_time_linear Dz dt (m : Z) : inject_Z m * cz2 Dz dt == cz2 Dz (inject_Z m * dt).
Proof. unfold cz2. ring. Qed.

(** T4 assembled: a non-positive coefficient is "off" (in particular D == 0, Dz == 0) *)
Lemma no_draws_when_off_lemma xi D Dz dt sd sdz vadv k ns n p dx dy u v w :
  D <= 0 -> Dz <= 0 ->
  let r := update_disp xi D Dz dt sd sdz vadv k n p dx dy u v w in
  (dX r == u * dt / dx /\ dY r == v * dt / dy /\ dZ r == (if vadv then w * dt else 0)) /\
  step_draws (switch D) (switch Dz) n = 0%Z /\
  cursor_after (switch D) (switch Dz) k ns = k /\
  (forall s d q, draw_index (switch D) (switch Dz) k ns s d q = None).
Proof.
  intros HD HDz r. apply switch_false in HD. apply switch_false in HDz.
  destruct (off_is_advective xi D Dz dt sd sdz vadv k n p dx dy u v w HD HDz) as (A & B & C & _).
  split; [repeat split; assumption|]. rewrite HD, HDz.
  split; [reflexivity|]. split; [apply cursor_off|]. intros s d q. apply draw_index_off.
Qed.

(** T1 in Q: what the executable model does with a standard deviation [sd] whose square is 2D/dt *)
Lemma model_displacement_lemma xi D Dz dt dx sd sdz i j u w vadv :
  0 < dt -> 0 < dx -> 0 <= sd -> sd * sd == sd2 D dt -> 0 <= sdz -> sdz * sdz == sd2 Dz dt ->
  disp_exact (cx2 D dt dx) (xi i) (hdisp xi sd (Some i) u dt dx - u * dt / dx) /\
  disp_exact (cz2 Dz dt) (xi j) (vdisp xi sdz (Some j) vadv w dt - (if vadv then w * dt else 0)).
Proof.
  intros Hdt Hdx Hsd H Hsdz Hz. split; [apply hdisp_exact|apply vdisp_exact]; assumption.
Qed.

(** the step function used by the correspondence is the multi-step index of the theorems *)
Lemma draw_index_step hon von ns : forall k s d p,
  (s < length ns)%nat ->
  draw_index hon von k ns s d p =
  step_index hon von (cursor_after hon von k (firstn s ns)) (nth s ns 0%Z) d p.
Proof.
  intros k s d p Hs. rewrite draw_index_formula by exact Hs. rewrite cursor_after_total. reflexivity.
Qed.

(** * T1: the coefficients with the square root, over the reals.
    (These lemmas depend on the axioms of the standard library's real numbers.) *)
From Coq Require Import Reals Qreals Psatz.
Local Open Scope R_scope.

Lemma sd_arg_nonneg (D dt : R) : 0 <= D -> 0 < dt -> 0 <= 2 * D / dt.
Proof.
  intros HD Hdt. unfold Rdiv. apply Rmult_le_pos; [lra|]. left. apply Rinv_0_lt_compat. exact Hdt.
Qed.

Lemma coeff_sq_R (D dt dx : R) : 0 <= D -> 0 < dt -> 0 < dx ->
  (sqrt (2 * D / dt) * dt / dx) ^ 2 = 2 * D * dt / dx ^ 2.
Proof.
  intros HD Hdt Hdx.
  replace ((sqrt (2 * D / dt) * dt / dx) ^ 2) with ((sqrt (2 * D / dt)) ^ 2 * (dt / dx) ^ 2) by (field; lra).
  rewrite pow2_sqrt by (apply sd_arg_nonneg; assumption). field. lra.
Qed.
Lemma coeff_sq_z_R (Dz dt : R) : 0 <= Dz -> 0 < dt ->
  (sqrt (2 * Dz / dt) * dt) ^ 2 = 2 * Dz * dt.
Proof.
  intros HD Hdt.
  replace ((sqrt (2 * Dz / dt) * dt) ^ 2) with ((sqrt (2 * Dz / dt)) ^ 2 * dt ^ 2) by ring.
  rewrite pow2_sqrt by (apply sd_arg_nonneg; assumption). field. lra.
Qed.
Lemma coeff_nonneg_R (D dt dx : R) : 0 < dt -> 0 < dx -> 0 <= sqrt (2 * D / dt) * dt / dx.
Proof.
  intros Hdt Hdx. unfold Rdiv at 2. apply Rmult_le_pos; [apply Rmult_le_pos; [apply sqrt_pos|lra]|].
  left. apply Rinv_0_lt_compat. exact Hdx.
Qed.
(** the coefficient itself: sqrt(2D/dt)*dt/dx = sqrt(2*D*dt/dx^2) *)
Lemma coeff_is_sqrt_R (D dt dx : R) : 0 <= D -> 0 < dt -> 0 < dx ->
  sqrt (2 * D / dt) * dt / dx = sqrt (2 * D * dt / dx ^ 2).
Proof.
  intros HD Hdt Hdx. rewrite <- coeff_sq_R by assumption.
  rewrite sqrt_pow2; [reflexivity|]. apply coeff_nonneg_R; assumption.
Qed.
Lemma coeff_is_sqrt_z_R (Dz dt : R) : 0 <= Dz -> 0 < dt ->
  sqrt (2 * Dz / dt) * dt = sqrt (2 * Dz * dt).
Proof.
  intros HD Hdt. rewrite <- coeff_sq_z_R by assumption.
  rewrite sqrt_pow2; [reflexivity|]. apply Rmult_le_pos; [apply sqrt_pos|lra].
Qed.

(** the square-root-free relation checked by the correspondence determines the displacement *)
Lemma sqrt_form_unique (c2 x d : R) : 0 <= c2 ->
  (d * d = c2 * (x * x) /\ 0 <= d * x) <-> d = sqrt c2 * x.
Proof.
  intro Hc. pose proof (sqrt_pos c2) as Hr. pose proof (sqrt_sqrt c2 Hc) as Hs.
  set (r := sqrt c2) in *. split.
  - intros [H1 H2].
    assert ((d - r * x) * (d + r * x) = 0) as P by (rewrite <- Hs in H1; nra).
    apply Rmult_integral in P. destruct P as [P|P]; [lra|].
    assert (d = - (r * x)) as Q by lra.
    assert (r * (x * x) = 0) as Z0 by (rewrite Q in H2; nra).
    assert ((r * x) * (r * x) = 0) as Z1 by (replace ((r * x) * (r * x)) with (r * (r * (x * x))) by ring; rewrite Z0; ring).
    apply Rmult_integral in Z1. lra.
  - intro H. subst d. split; [rewrite <- Hs; ring|].
    replace (r * x * x) with (r * (x * x)) by ring. apply Rmult_le_pos; [exact Hr|nra].
Qed.

Lemma Q2R_two : Q2R 2 = 2.
Proof. unfold Q2R. cbn. lra. Qed.
Lemma Q2R_inject_Z z : Q2R (inject_Z z) = IZR z.
Proof. unfold Q2R, inject_Z. cbn. lra. Qed.
Lemma Q2R_pos q : (0 < q)%Q -> 0 < Q2R q.
Proof. intro H. apply Qlt_Rlt in H. rewrite RMicromega.Q2R_0 in H. exact H. Qed.
Lemma Q2R_nonneg q : (0 <= q)%Q -> 0 <= Q2R q.
Proof. intro H. apply Qle_Rle in H. rewrite RMicromega.Q2R_0 in H. exact H. Qed.

Lemma cx2_Q2R D dt dx : (0 < dx)%Q -> Q2R (cx2 D dt dx) = 2 * Q2R D * Q2R dt / (Q2R dx) ^ 2.
Proof.
  intro H. unfold cx2.
  rewrite Q2R_div by (intro E; nra).
  rewrite !Q2R_mult, Q2R_two. pose proof (Q2R_pos _ H). field. lra.
Qed.
Lemma cz2_Q2R Dz dt : Q2R (cz2 Dz dt) = 2 * Q2R Dz * Q2R dt.
Proof. unfold cz2. rewrite !Q2R_mult, Q2R_two. ring. Qed.

(** T1 for the model's rational coefficients *)
Lemma horizontal_coefficient_lemma (D dt dx : Q) : (0 <= D)%Q -> (0 < dt)%Q -> (0 < dx)%Q ->
  let c := sqrt (2 * Q2R D / Q2R dt) * Q2R dt / Q2R dx in
  c ^ 2 = Q2R (cx2 D dt dx) /\ 0 <= c /\ c = sqrt (Q2R (cx2 D dt dx)).
Proof.
  intros HD Hdt Hdx c. subst c.
  pose proof (Q2R_nonneg _ HD). pose proof (Q2R_pos _ Hdt). pose proof (Q2R_pos _ Hdx).
  rewrite cx2_Q2R by exact Hdx. split; [apply coeff_sq_R; assumption|].
  split; [apply coeff_nonneg_R; assumption|apply coeff_is_sqrt_R; assumption].
Qed.
Lemma vertical_coefficient_lemma (Dz dt : Q) : (0 <= Dz)%Q -> (0 < dt)%Q ->
  let c := sqrt (2 * Q2R Dz / Q2R dt) * Q2R dt in
  c ^ 2 = Q2R (cz2 Dz dt) /\ 0 <= c /\ c = sqrt (Q2R (cz2 Dz dt)).
Proof.
  intros HD Hdt c. subst c.
  pose proof (Q2R_nonneg _ HD). pose proof (Q2R_pos _ Hdt).
  rewrite cz2_Q2R. split; [apply coeff_sq_z_R; assumption|].
  split; [apply Rmult_le_pos; [apply sqrt_pos|lra]|apply coeff_is_sqrt_z_R; assumption].
Qed.

(** the displacement produced with the real standard deviation satisfies the square-root-free
    relation of the model (stated on the reals; [x] is the draw) *)
Lemma real_displacement_relation (D dt dx : Q) (x : R) : (0 <= D)%Q -> (0 < dt)%Q -> (0 < dx)%Q ->
  let d := (sqrt (2 * Q2R D / Q2R dt) * x) * Q2R dt / Q2R dx in
  d * d = Q2R (cx2 D dt dx) * (x * x) /\ 0 <= d * x.
Proof.
  intros HD Hdt Hdx d.
  destruct (horizontal_coefficient_lemma D dt dx HD Hdt Hdx) as (_ & _ & E).
  apply sqrt_form_unique.
  - rewrite cx2_Q2R by exact Hdx. pose proof (Q2R_nonneg _ HD). pose proof (Q2R_pos _ Hdt).
    pose proof (Q2R_pos _ Hdx). unfold Rdiv. apply Rmult_le_pos; [nra|].
    left. apply Rinv_0_lt_compat. nra.
  - rewrite <- E. subst d. pose proof (Q2R_pos _ Hdx). field. lra.
Qed.

(** T1 + T3: variance of the accumulated displacement.  [W] is the walk with unit coefficients
    (the plain sum of the draws used); the displacement is c*W with the real coefficient c, so its
    variance is c^2 * |W|^2 = 2*D*(m*dt)/dx^2. *)
Lemma cloud_variance_lemma hon von k ns d p m N (D dt dx : Q) :
  (0 <= D)%Q -> (0 < dt)%Q -> (0 < dx)%Q ->
  nonneg_all ns = true -> (0 <= k)%Z -> (cursor_after hon von k ns <= Z.of_nat N)%Z ->
  (forall s, (s < m)%nat -> exists i, draw_index hon von k ns s d p = Some i) ->
  let c := sqrt (2 * Q2R D / Q2R dt) * Q2R dt / Q2R dx in
  let W := walk_vec hon von k ns d p (fun _ => 1%Q) m in
  c ^ 2 * Q2R (ip N W W) = 2 * Q2R D * (INR m * Q2R dt) / (Q2R dx) ^ 2.
Proof.
  intros HD Hdt Hdx Hns Hk HN Hex c W.
  destruct (horizontal_coefficient_lemma D dt dx HD Hdt Hdx) as (E & _ & _). fold c in E. rewrite E.
  subst W. rewrite (Qeq_eqR _ _ (variance_adds_const hon von k ns d p 1%Q m N Hns Hk HN Hex)).
  rewrite cx2_Q2R by exact Hdx. rewrite !Q2R_mult, Q2R_inject_Z, <- INR_IZR_INZ.
  replace (Q2R 1) with 1 by (unfold Q2R; cbn; lra).
  pose proof (Q2R_pos _ Hdx). field. lra.
Qed.
