(** Proofs/ConfigProofs.v — lemmas about Model/Config.v (C18). *)
From Coq Require Import ZArith List Bool String Ascii Lia.
From Ladim Require Import Model.Config.
Import ListNotations.
Open Scope string_scope.

(** * Association lists *)
Lemma eqb_sym (a b : string) : String.eqb a b = String.eqb b a.
Proof.
  destruct (String.eqb_spec a b) as [->|H]; [now rewrite String.eqb_refl|].
  destruct (String.eqb_spec b a) as [->|H']; [now elim H|reflexivity].
Qed.

Section AL.
  Context {A : Type}.
  Implicit Types (d : list (string * A)) (k : string) (v : A).

  Lemma aget_aset d k v k' :
    aget (aset d k v) k' = if String.eqb k k' then Some v else aget d k'.
  Proof.
    induction d as [|[k0 v0] r IH]; cbn.
    - reflexivity.
    - destruct (String.eqb_spec k0 k) as [->|Hne]; cbn.
      + destruct (String.eqb k k'); reflexivity.
      + destruct (String.eqb_spec k0 k') as [->|Hne'].
        * destruct (String.eqb_spec k k') as [->|_]; [now elim Hne|reflexivity].
        * exact IH.
  Qed.

  Lemma ahas_aset d k v k' : ahas (aset d k v) k' = String.eqb k k' || ahas d k'.
  Proof. unfold ahas. rewrite aget_aset. destruct (String.eqb k k'); reflexivity. Qed.

  Lemma aget_app (a b : list (string * A)) k :
    aget (a ++ b)%list k = match aget a k with Some v => Some v | None => aget b k end.
  Proof.
    induction a as [|[k0 v0] r IH]; cbn; [reflexivity|].
    destruct (String.eqb k0 k); [reflexivity|exact IH].
  Qed.

  Lemma aset_new d k v : aget d k = None -> aset d k v = (d ++ [(k, v)])%list.
  Proof.
    induction d as [|[k0 v0] r IH]; cbn; [reflexivity|].
    destruct (String.eqb k0 k); [discriminate|]. intros H. now rewrite IH.
  Qed.

  Lemma aset_same d k v : aget d k = Some v -> aset d k v = d.
  Proof.
    induction d as [|[k0 v0] r IH]; cbn; [discriminate|].
    destruct (String.eqb k0 k).
    - intros [= ->]. reflexivity.
    - intros H. now rewrite IH.
  Qed.

  Lemma aget_none_notin d k : aget d k = None <-> ~ In k (akeys d).
  Proof.
    induction d as [|[k0 v0] r IH]; cbn; [tauto|].
    destruct (String.eqb_spec k0 k) as [->|Hne].
    - split; [discriminate|]. intros H; elim H; now left.
    - rewrite IH. split; [intros H [E|E]; [now elim Hne|now elim H]|tauto].
  Qed.

  Lemma adel_head d k v : adel ((k, v) :: d) k = d.
  Proof. cbn. now rewrite String.eqb_refl. Qed.
End AL.

Lemma mem_In v l : mem v l = true <-> In v l.
Proof.
  unfold mem. rewrite existsb_exists. split.
  - intros [x [Hx E]]. apply String.eqb_eq in E. now subst.
  - intros H. exists v. split; [exact H|apply String.eqb_refl].
Qed.
Lemma mem_false v l : mem v l = false <-> ~ In v l.
Proof. rewrite <- mem_In. destruct (mem v l); split; congruence. Qed.
Lemma mem_app v (a b : list string) : mem v (a ++ b)%list = mem v a || mem v b.
Proof. unfold mem. apply existsb_app. Qed.

(** * [uniq]: first occurrences *)
Lemma filter_filter {A} (p q : A -> bool) l :
  filter p (filter q l) = filter (fun x => q x && p x) l.
Proof.
  induction l as [|x r IH]; cbn; [reflexivity|].
  destruct (q x); cbn; [destruct (p x); now rewrite IH|exact IH].
Qed.
Lemma filter_all {A} (p : A -> bool) l : (forall x, In x l -> p x = true) -> filter p l = l.
Proof.
  induction l as [|x r IH]; cbn; intros H; [reflexivity|].
  rewrite (H x (or_introl eq_refl)). f_equal. apply IH. intros y Hy. apply H. now right.
Qed.

Lemma uniq_In v l : In v (uniq l) <-> In v l.
Proof.
  induction l as [|x r IH]; cbn; [tauto|].
  rewrite filter_In, IH. split.
  - intros [->|[H _]]; tauto.
  - intros [->|H]; [now left|].
    destruct (String.eqb_spec x v) as [->|Hne]; [now left|right; split; [exact H|reflexivity]].
Qed.
Lemma uniq_NoDup l : NoDup (uniq l).
Proof.
  induction l as [|x r IH]; cbn; constructor.
  - rewrite filter_In. intros [_ H]. now rewrite String.eqb_refl in H.
  - now apply NoDup_filter.
Qed.
Lemma uniq_id l : NoDup l -> uniq l = l.
Proof.
  induction l as [|x r IH]; cbn; intros H; [reflexivity|].
  inversion H as [|? ? Hx Hr]; subst. rewrite (IH Hr). f_equal. apply filter_all.
  intros y Hy. destruct (String.eqb_spec x y) as [->|_]; [now elim Hx|reflexivity].
Qed.
Lemma uniq_idem l : uniq (uniq l) = uniq l.
Proof. apply uniq_id, uniq_NoDup. Qed.
Lemma nodupb_NoDup l : nodupb l = true <-> NoDup l.
Proof.
  induction l as [|x r IH]; cbn; [split; [constructor|reflexivity]|].
  rewrite andb_true_iff, negb_true_iff, mem_false, IH. split.
  - intros [H1 H2]. now constructor.
  - intros H. inversion H; now subst.
Qed.

(** repeated insertion of [(v, f v)] = one entry per first occurrence *)
Section FoldSet.
  Context {A : Type} (f : string -> A).
  Let g (v : string) := (v, f v).
  Let step (d : list (string * A)) (v : string) := aset d v (f v).

  Lemma aget_map_g acc v : aget (map g acc) v = if mem v acc then Some (f v) else None.
  Proof.
    induction acc as [|x r IH]; cbn; [reflexivity|].
    rewrite (eqb_sym v x). destruct (String.eqb_spec x v) as [->|_]; cbn; [reflexivity|exact IH].
  Qed.

  Lemma fold_aset_acc l acc :
    fold_left step l (map g acc) = map g (acc ++ filter (fun x => negb (mem x acc)) (uniq l))%list.
  Proof.
    revert acc. induction l as [|v r IH]; intros acc; cbn [fold_left uniq filter].
    - now rewrite app_nil_r.
    - unfold step at 2. destruct (mem v acc) eqn:Hm.
      + rewrite aset_same by (rewrite aget_map_g, Hm; reflexivity).
        rewrite IH. cbn [negb]. rewrite filter_filter. do 2 f_equal.
        apply filter_ext_in. intros x _.
        destruct (String.eqb_spec v x) as [<-|_]; cbn; [now rewrite Hm|reflexivity].
      + rewrite aset_new by (rewrite aget_map_g, Hm; reflexivity).
        change [(v, f v)] with (map g [v]). rewrite <- map_app, IH. cbn [negb].
        rewrite <- app_assoc. cbn [app]. rewrite filter_filter. do 3 f_equal.
        apply filter_ext_in. intros x _. rewrite mem_app. cbn [mem existsb].
        rewrite orb_false_r, negb_orb, (eqb_sym x v), andb_comm. reflexivity.
  Qed.

  Lemma fold_aset l : fold_left step l [] = map g (uniq l).
  Proof.
    change (@nil (string * A)) with (map g []). rewrite fold_aset_acc. cbn [app]. f_equal.
    apply filter_all. reflexivity.
  Qed.
End FoldSet.

(** * The error monad *)
Lemma bind_ok {A B} (a : A) (f : A -> res B) : bind (Ok a) f = f a.
Proof. reflexivity. Qed.

(** * configure_v2 on dictionaries: lookup equivalence *)
Definition same_lookup (d1 d2 : dict) : Prop := forall k, aget d1 k = aget d2 k.
Definition csame (c1 c2 : cv) : Prop :=
  exists d1 d2, c1 = CDict d1 /\ c2 = CDict d2 /\ same_lookup d1 d2.
Definition rsame (r1 r2 : res cv) : Prop :=
  match r1, r2 with
  | Ok c1, Ok c2 => csame c1 c2
  | Err e1, Err e2 => e1 = e2
  | _, _ => False
  end.

Lemma same_lookup_refl d : same_lookup d d.
Proof. intros k; reflexivity. Qed.
Lemma csame_refl d : csame (CDict d) (CDict d).
Proof. exists d, d. repeat split. Qed.
Lemma same_lookup_aset d1 d2 k v : same_lookup d1 d2 -> same_lookup (aset d1 k v) (aset d2 k v).
Proof. intros H k'. rewrite !aget_aset, H. reflexivity. Qed.

Lemma getitem_same c1 c2 : csame c1 c2 -> forall k, getitem c1 k = getitem c2 k.
Proof. intros (d1 & d2 & -> & -> & H) k. cbn. now rewrite H. Qed.
Lemma contains_same c1 c2 : csame c1 c2 -> forall k, contains c1 k = contains c2 k.
Proof. intros (d1 & d2 & -> & -> & H) k. cbn. unfold ahas. now rewrite H. Qed.
Lemma getdef_same c1 c2 : csame c1 c2 -> forall k x, getdef c1 k x = getdef c2 k x.
Proof. intros (d1 & d2 & -> & -> & H) k x. cbn. now rewrite H. Qed.
Lemma setitem_same c1 c2 k v : csame c1 c2 -> rsame (setitem c1 k v) (setitem c2 k v).
Proof.
  intros (d1 & d2 & -> & -> & H). cbn. exists (aset d1 k v), (aset d2 k v).
  repeat split. now apply same_lookup_aset.
Qed.
Lemma ok_same c1 c2 : csame c1 c2 -> rsame (Ok c1) (Ok c2).
Proof. intros H; exact H. Qed.

Lemma bind_rsame r1 r2 (f1 f2 : cv -> res cv) :
  rsame r1 r2 -> (forall c1 c2, csame c1 c2 -> rsame (f1 c1) (f2 c2)) -> rsame (bind r1 f1) (bind r2 f2).
Proof.
  destruct r1 as [a|e], r2 as [b|e']; cbn; intros H Hf; try contradiction.
  - now apply Hf.
  - exact H.
Qed.
Lemma bind_eq {A} (r : res A) (f1 f2 : A -> res cv) :
  (forall a, rsame (f1 a) (f2 a)) -> rsame (bind r f1) (bind r f2).
Proof. destruct r as [a|e]; cbn; intros H; [apply H|reflexivity]. Qed.

Lemma ensure_same c1 c2 k : csame c1 c2 -> rsame (ensure c1 k) (ensure c2 k).
Proof.
  intros H. unfold ensure. rewrite (getdef_same _ _ H). apply bind_eq. intros v.
  destruct (is_null v).
  - now apply setitem_same.
  - now apply ok_same.
Qed.

Section V2.
  Variable glob : string -> list string.
  Variable wst : option cv.

  Lemma v2_grid_same c1 c2 : csame c1 c2 -> rsame (v2_grid glob c1) (v2_grid glob c2).
  Proof.
    intros H. unfold v2_grid. rewrite !(getitem_same _ _ H).
    repeat (apply bind_eq; intros ?). now apply setitem_same.
  Qed.

  Lemma v2_warm_same c1 c2 : csame c1 c2 -> rsame (v2_warm wst c1) (v2_warm wst c2).
  Proof.
    intros H. unfold v2_warm. rewrite !(getitem_same _ _ H).
    apply bind_eq; intros ws. apply bind_eq; intros [|]; [|now apply ok_same].
    apply bind_eq; intros wf. apply bind_eq; intros t. apply bind_eq; intros tm. apply bind_eq; intros tm'.
    apply bind_rsame; [now apply setitem_same|]. clear c1 c2 H. intros c1 c2 H.
    apply bind_eq; intros hv. apply bind_eq; intros ws'.
    apply bind_rsame; [now apply setitem_same|]. clear c1 c2 H. intros c1 c2 H.
    rewrite !(getitem_same _ _ H).
    apply bind_eq; intros r. apply bind_eq; intros r'.
    apply bind_rsame; [now apply setitem_same|]. clear c1 c2 H. intros c1 c2 H.
    rewrite !(getitem_same _ _ H).
    apply bind_eq; intros o. apply bind_eq; intros [|]; [now apply ok_same|].
    apply bind_eq; intros o'. now apply setitem_same.
  Qed.

  (** configure_v2 after its first four lines *)
  Definition cfg2_rest (c : cv) : res cv :=
    tr <- getitem c "tracker" ;;
    c <- (if is_null tr then setitem c "tracker" (CDict []) else Ok c) ;;
    _ <- getitem c "time" ;;
    rl <- getitem c "release" ;;
    c <- (if is_null rl then setitem c "release" (CDict [("release_file", CStr "")]) else Ok c) ;;
    _ <- getitem c "output" ;;
    c <- v2_grid glob c ;;
    v2_warm wst c.
  Lemma configure_v2_unfold c :
    configure_v2 glob wst c =
    (c <- ensure c "state" ;; c <- ensure c "grid" ;; c <- ensure c "ibm" ;; c <- ensure c "warm_start" ;;
     cfg2_rest c).
  Proof. reflexivity. Qed.

  Lemma cfg2_rest_same c1 c2 : csame c1 c2 -> rsame (cfg2_rest c1) (cfg2_rest c2).
  Proof.
    intros H. unfold cfg2_rest.
    rewrite !(getitem_same _ _ H). apply bind_eq; intros tr.
    apply bind_rsame; [destruct (is_null tr); [now apply setitem_same|now apply ok_same]|].
    clear c1 c2 H; intros c1 c2 H.
    rewrite !(getitem_same _ _ H). apply bind_eq; intros _. apply bind_eq; intros rl.
    apply bind_rsame; [destruct (is_null rl); [now apply setitem_same|now apply ok_same]|].
    clear c1 c2 H; intros c1 c2 H.
    rewrite !(getitem_same _ _ H). apply bind_eq; intros _.
    apply bind_rsame; [now apply v2_grid_same|]. intros c1' c2' H'. now apply v2_warm_same.
  Qed.

  (** configure_v2 only looks sections up by name: dictionaries with the same bindings (whatever
      the order of their keys) give the same result — same exception, or same bindings *)
  Lemma configure_v2_same c1 c2 :
    csame c1 c2 -> rsame (configure_v2 glob wst c1) (configure_v2 glob wst c2).
  Proof.
    intros H. rewrite !configure_v2_unfold.
    do 4 (apply bind_rsame; [now apply ensure_same|]; clear c1 c2 H; intros c1 c2 H).
    now apply cfg2_rest_same.
  Qed.

  (** the first four lines: [ens] on the dictionary *)
  Definition absent_or_null (d : dict) (k : string) : bool :=
    match aget d k with Some v => is_null v | None => true end.
  Definition ens (d : dict) (k : string) : dict :=
    if absent_or_null d k then aset d k (CDict []) else d.
  Definition e4 (d : dict) : dict := ens (ens (ens (ens d "state") "grid") "ibm") "warm_start".
  (** the section as configure_v2 sees it: empty when omitted or null *)
  Definition sec_val (o : option cv) : cv :=
    match o with Some v => if is_null v then CDict [] else v | None => CDict [] end.
  Definition sec_or_empty (d : dict) (k : string) : cv := sec_val (aget d k).
  Lemma ensure_dict d k : ensure (CDict d) k = Ok (CDict (ens d k)).
  Proof.
    unfold ensure, ens, absent_or_null. cbn. destruct (aget d k) as [v|]; cbn [bind is_null]; [|reflexivity].
    destruct (is_null v); reflexivity.
  Qed.
  Lemma aget_ens d k k' :
    aget (ens d k) k' = if String.eqb k k' then Some (sec_or_empty d k) else aget d k'.
  Proof.
    unfold ens, sec_or_empty, sec_val, absent_or_null. destruct (aget d k) as [v|] eqn:F.
    - destruct (is_null v); [now rewrite aget_aset|].
      destruct (String.eqb_spec k k') as [<-|_]; [exact F|reflexivity].
    - now rewrite aget_aset.
  Qed.
  Lemma configure_v2_dict d : configure_v2 glob wst (CDict d) = cfg2_rest (CDict (e4 d)).
  Proof. rewrite configure_v2_unfold. do 4 (rewrite ensure_dict; cbn [bind]). reflexivity. Qed.

  Definition optional_section (k : string) : bool := mem k ["state"; "grid"; "ibm"; "warm_start"].
  Lemma aget_e4 d k :
    aget (e4 d) k = if optional_section k then Some (sec_or_empty d k) else aget d k.
  Proof.
    unfold e4, optional_section, sec_or_empty. rewrite !aget_ens. unfold sec_or_empty. rewrite !aget_ens.
    cbn [mem existsb orb]. rewrite !(eqb_sym k).
    destruct (String.eqb_spec "warm_start" k) as [<-|_]; [reflexivity|].
    destruct (String.eqb_spec "ibm" k) as [<-|_]; [reflexivity|].
    destruct (String.eqb_spec "grid" k) as [<-|_]; [reflexivity|].
    destruct (String.eqb_spec "state" k) as [<-|_]; reflexivity.
  Qed.

  (** T2: an optional section that is omitted, or present but null, behaves as an empty one — for
      every configuration tree (also one that configure_v2 goes on to refuse) *)
  Lemma e4_same d1 d2 :
    (forall k, if optional_section k then sec_or_empty d1 k = sec_or_empty d2 k else aget d1 k = aget d2 k) ->
    same_lookup (e4 d1) (e4 d2).
  Proof.
    intros H k. rewrite !aget_e4. specialize (H k). destruct (optional_section k); [now rewrite H|exact H].
  Qed.
  Lemma sec_or_empty_aset d k v k' :
    sec_or_empty (aset d k v) k' = if String.eqb k k' then (if is_null v then CDict [] else v) else sec_or_empty d k'.
  Proof.
    unfold sec_or_empty. rewrite aget_aset. destruct (String.eqb k k'); reflexivity.
  Qed.
  Lemma omitted_is_empty d k :
    optional_section k = true -> absent_or_null d k = true ->
    rsame (configure_v2 glob wst (CDict d)) (configure_v2 glob wst (CDict (aset d k (CDict [])))).
  Proof.
    intros Hk Hn. rewrite !configure_v2_dict. apply cfg2_rest_same.
    exists (e4 d), (e4 (aset d k (CDict []))). repeat split. apply e4_same. intros k'.
    rewrite sec_or_empty_aset, aget_aset. cbn [is_null].
    destruct (String.eqb_spec k k') as [<-|_].
    - rewrite Hk. unfold sec_or_empty, sec_val. unfold absent_or_null in Hn.
      destruct (aget d k) as [v|]; [now rewrite Hn|reflexivity].
    - destruct (optional_section k'); reflexivity.
  Qed.
  (** null and omitted are the same thing *)
  Lemma null_is_omitted d k :
    optional_section k = true -> aget d k = None ->
    rsame (configure_v2 glob wst (CDict d)) (configure_v2 glob wst (CDict (aset d k CNull))).
  Proof.
    intros Hk Hn. rewrite !configure_v2_dict. apply cfg2_rest_same.
    exists (e4 d), (e4 (aset d k CNull)). repeat split. apply e4_same. intros k'.
    rewrite sec_or_empty_aset, aget_aset. cbn [is_null].
    destruct (String.eqb_spec k k') as [<-|_].
    - rewrite Hk. unfold sec_or_empty. now rewrite Hn.
    - destruct (optional_section k'); reflexivity.
  Qed.
End V2.

(** normalize (what the modules receive) looks sections up by name too *)
Lemma normalize_same c1 c2 : csame c1 c2 -> normalize c1 = normalize c2.
Proof. intros H. unfold normalize. rewrite !(getitem_same _ _ H). reflexivity. Qed.
Lemma normalize_res_same r1 r2 : rsame r1 r2 -> normalize_res r1 = normalize_res r2.
Proof.
  destruct r1 as [a|e], r2 as [b|e']; cbn; intros H; try contradiction.
  - now apply normalize_same.
  - now subst.
Qed.

(** * configure_v2 on an accepted configuration without warm start, computed *)
Section V2Plain.
  Variable glob : string -> list string.
  Variable wst : option cv.

  Lemma e4_plain d k : optional_section k = false -> aget (e4 d) k = aget d k.
  Proof. intros H. now rewrite aget_e4, H. Qed.
  Lemma e4_opt d k : optional_section k = true -> aget (e4 d) k = Some (sec_or_empty d k).
  Proof. intros H. now rewrite aget_e4, H. Qed.

  (** what configure_v2 makes of the grid section [g], given the forcing module and file name *)
  Definition fillgrid (g : dict) (m : cv) (p : string) : dict :=
    let g1 := if ahas g "module" then g else aset g "module" m in
    if ahas g1 "filename" then g1 else aset g1 "filename" (CStr (first_file_v2 glob p)).

  Lemma cfg2_plain d tr tm rl out f m p g w :
    aget d "tracker" = Some tr -> is_null tr = false ->
    aget d "time" = Some tm ->
    aget d "release" = Some rl -> is_null rl = false ->
    aget d "output" = Some out ->
    aget d "forcing" = Some (CDict f) -> aget f "module" = Some m -> aget f "filename" = Some (CStr p) ->
    sec_or_empty d "grid" = CDict g ->
    sec_or_empty d "warm_start" = CDict w -> aget w "filename" = None ->
    configure_v2 glob wst (CDict d) = Ok (CDict (aset (e4 d) "grid" (CDict (fillgrid g m p)))).
  Proof.
    intros Htr Ntr Htm Hrl Nrl Hout Hf Hm Hp Hg Hw Hwf.
    rewrite configure_v2_dict. unfold cfg2_rest. cbn [getitem].
    rewrite (e4_plain d "tracker" eq_refl), Htr. cbn [bind]. rewrite Ntr. cbn [bind getitem].
    rewrite (e4_plain d "time" eq_refl), Htm. cbn [bind].
    rewrite (e4_plain d "release" eq_refl), Hrl. cbn [bind]. rewrite Nrl. cbn [bind getitem].
    rewrite (e4_plain d "output" eq_refl), Hout. cbn [bind].
    (* grid *)
    unfold v2_grid. cbn [getitem].
    rewrite (e4_opt d "grid" eq_refl), Hg. cbn [bind contains].
    rewrite (e4_plain d "forcing" eq_refl), Hf. cbn [bind getitem]. rewrite Hm, Hp. cbn [bind to_path].
    assert (E : (g0 <- (if ahas g "module" then Ok (CDict g) else setitem (CDict g) "module" m) ;;
                 hf <- contains g0 "filename" ;;
                 g1 <- (if hf then Ok g0 else setitem g0 "filename" (CStr (first_file_v2 glob p))) ;;
                 setitem (CDict (e4 d)) "grid" g1)
                = Ok (CDict (aset (e4 d) "grid" (CDict (fillgrid g m p))))).
    { unfold fillgrid. destruct (ahas g "module"); cbn [bind setitem contains].
      - destruct (ahas g "filename"); reflexivity.
      - destruct (ahas (aset g "module" m) "filename"); reflexivity. }
    rewrite E. cbn [bind].
    (* warm start *)
    unfold v2_warm. cbn [getitem]. rewrite aget_aset. cbn [String.eqb Ascii.eqb Bool.eqb].
    rewrite (e4_opt d "warm_start" eq_refl), Hw. cbn [bind contains]. unfold ahas. rewrite Hwf. reflexivity.
  Qed.

  Lemma aget_fillgrid_module g m p :
    aget (fillgrid g m p) "module" = match aget g "module" with Some x => Some x | None => Some m end.
  Proof.
    unfold fillgrid, ahas. destruct (aget g "module") as [x|] eqn:E.
    - destruct (aget g "filename"); [exact E|]. rewrite aget_aset. exact E.
    - destruct (aget (aset g "module" m) "filename"); rewrite !aget_aset; reflexivity.
  Qed.
  Lemma aget_fillgrid_filename g m p :
    aget (fillgrid g m p) "filename" =
    match aget g "filename" with Some x => Some x | None => Some (CStr (first_file_v2 glob p)) end.
  Proof.
    unfold fillgrid, ahas. destruct (aget g "module") as [x|] eqn:E.
    - destruct (aget g "filename") as [y|] eqn:F; [exact F|]. now rewrite aget_aset.
    - rewrite aget_aset. cbn [String.eqb Ascii.eqb Bool.eqb].
      destruct (aget g "filename") as [y|] eqn:F.
      + rewrite aget_aset. exact F.
      + now rewrite aget_aset.
  Qed.
  Lemma aget_fillgrid_other g m p k :
    String.eqb "module" k = false -> String.eqb "filename" k = false ->
    aget (fillgrid g m p) k = aget g k.
  Proof.
    intros H1 H2. unfold fillgrid.
    destruct (ahas g "module"), (ahas _ "filename"); rewrite ?aget_aset, ?H1, ?H2; reflexivity.
  Qed.
End V2Plain.

(** * Reading a rendered v1 file: helper lemmas *)
Lemma strs_of_map l : strs_of (map CStr l) = Ok l.
Proof. induction l as [|x r IH]; cbn; [reflexivity|]. now rewrite IH. Qed.
Lemma iter_strs_strs l : iter_strs (strs l) = Ok l.
Proof. apply strs_of_map. Qed.
Lemma contains_strs l v : contains (strs l) v = Ok (mem v l).
Proof.
  cbn. f_equal. unfold mem. induction l as [|x r IH]; cbn; [reflexivity|].
  now rewrite IH, (eqb_sym x v).
Qed.
Lemma disjoint_spec a b : disjoint a b = true -> forall x, In x a -> mem x b = false.
Proof.
  unfold disjoint. rewrite forallb_forall. intros H x Hx. apply negb_true_iff. now apply H.
Qed.
Lemma disjoint_aget {A} (d : list (string * A)) b :
  disjoint (akeys d) b = true -> forall k, mem k b = true -> aget d k = None.
Proof.
  intros H k Hk. apply aget_none_notin. intros Hin.
  rewrite (disjoint_spec _ _ H k Hin) in Hk. discriminate.
Qed.

Section Loop.
  Variables (pr : cv) (pvars : list string) (convf : string -> cv).
  Hypothesis Hpv : (contains pr "particle_variables" = Ok true /\ getitem pr "particle_variables" = Ok (strs pvars))
                   \/ (contains pr "particle_variables" = Ok false /\ pvars = []).
  Definition pfilter (v : string) : bool := negb (ignored v) && mem v pvars.

  Lemma state_loop_spec l : forall inst part,
    (forall v, In v l -> pfilter v = true -> getdef pr v (CStr "float") = Ok (convf v)) ->
    v1_state_loop pr l inst part =
    Ok (fold_left (fun d v => aset d v (CStr "float")) (filter lonlat l) inst,
        fold_left (fun d v => aset d v (convf v)) (filter pfilter l) part).
  Proof.
    induction l as [|v r IH]; intros inst part Hc; [reflexivity|].
    cbn [v1_state_loop filter]. unfold pfilter at 1.
    destruct (ignored v) eqn:Ig.
    - assert (L : lonlat v = false).
      { revert Ig. unfold ignored, lonlat, mem. cbn [existsb].
        rewrite !orb_false_r, !orb_true_iff. rewrite !String.eqb_eq.
        intros [ -> | [ -> | [ -> | -> ] ] ]; reflexivity. }
      rewrite L. cbn [negb andb]. apply IH. intros x Hx. apply Hc. now right.
    - cbn [negb andb].
      assert (E : (hp <- contains pr "particle_variables" ;;
                   (if hp then pv <- getitem pr "particle_variables" ;; contains pv v else Ok false))
                  = Ok (mem v pvars)).
      { destruct Hpv as [[H1 H2]|[H1 ->]]; rewrite H1; cbn [bind]; [|reflexivity].
        rewrite H2. cbn [bind]. apply contains_strs. }
      assert (E' : forall (k : bool -> res (dict * dict)),
                 (hp <- contains pr "particle_variables" ;;
                  isin <- (if hp then pv <- getitem pr "particle_variables" ;; contains pv v else Ok false) ;; k isin)
                 = k (mem v pvars)).
      { intros k. destruct Hpv as [[H1 H2]|[H1 ->]]; rewrite H1; cbn [bind]; [|reflexivity].
        rewrite H2. cbn [bind]. rewrite contains_strs. reflexivity. }
      rewrite E'. clear E E'.
      destruct (mem v pvars) eqn:Mv.
      + rewrite (Hc v (or_introl eq_refl)) by (unfold pfilter; now rewrite Ig, Mv).
        cbn [bind]. rewrite IH by (intros x Hx; apply Hc; now right).
        destruct (lonlat v); reflexivity.
      + cbn [bind]. rewrite IH by (intros x Hx; apply Hc; now right).
        destruct (lonlat v); reflexivity.
  Qed.
End Loop.

(** * configure_v1 on the v1 spelling of a description, section by section *)
Section V1.
  Variable glob : string -> list string.
  Variable S : sim.

  Definition grid_name : cv :=
    match s_grid_file S with Some g => CStr g | None => CStr (first_file_v2 glob (s_forcing_file S)) end.
  Definition grid_v1 : cv :=
    CDict ([("module", v2_module_name (s_module S)); ("filename", grid_name)] ++ opt_entry "subgrid" (s_subgrid S)).
  Definition forcing_tree : cv :=
    CDict ([("module", v2_module_name (s_module S)); ("filename", CStr (s_forcing_file S))]
           ++ opt_entry "extra_forcing" (s_extra_forcing S)).

  Lemma first_file_v1_ok p :
    (if has_wild p then match glob p with [] => false | _ => true end else true) = true ->
    first_file_v1 glob p = Ok (CStr (first_file_v2 glob p)).
  Proof.
    unfold first_file_v1, first_file_v2. destruct (has_wild p); [|reflexivity].
    destruct (glob p); [discriminate|reflexivity].
  Qed.

  Lemma v1_gridforce_render :
    wf_sim S = true -> wf_glob glob S = true ->
    v1_gridforce glob (render_v1 S) = Ok (grid_v1, forcing_tree).
  Proof.
    unfold wf_sim, wf_glob, grid_v1, forcing_tree, grid_name.
    destruct S as [st sp dt rf md ff gf sg ef adv dif rfile names cont fq convs pvars im io iv ofile oper ofmt oi op spl].
    cbn [s_forcing_file s_grid_file s_module s_subgrid s_extra_forcing s_diffusion s_continuous s_frequency].
    intros W G. repeat (apply andb_prop in W; destruct W as [W ?]).
    assert (Tff : truthy (CStr ff) = true) by exact W.
    assert (Tg : match gf with Some g => truthy (CStr g) = true | None => True end).
    { destruct gf; [assumption|exact I]. }
    unfold v1_gridforce.
    assert (Hm : forall c, contains (v1_module_name md) "ladim1.gridforce.ROMS" = Ok c ->
                 (if c then CStr "ladim.ROMS" else v1_module_name md) = v2_module_name md).
    { destruct md as [[|]|n]; cbn; intros c [= <-]; try reflexivity.
      match goal with H : negb (substr_in _ n) = true |- _ => apply negb_true_iff in H; rewrite H end. reflexivity. }
    destruct spl as [sfiles sibm srt smin sver]. cbn [sp_files sp_min sp_version sp_ibm_legacy sp_rtype s_spell] in *.
    destruct sfiles, gf as [g|], sg as [sgv|], ef as [efv|]; cbn -[contains v1_module_name v2_module_name substr_in first_file_v1 first_file_v2 truthy];
      (destruct (contains (v1_module_name md) "ladim1.gridforce.ROMS") as [c|e] eqn:E;
       [ | destruct md as [[|]|n]; discriminate E ]);
      cbn -[v1_module_name v2_module_name first_file_v1 first_file_v2 truthy]; rewrite (Hm c eq_refl).
    all: try rewrite Tg.
    all: rewrite ?Tff; cbn -[v1_module_name v2_module_name first_file_v1 first_file_v2].
    all: try reflexivity.
    all: rewrite first_file_v1_ok by exact G; reflexivity.
  Qed.
End V1.

Section V1State.
  Variable S : sim.
  Hypothesis W : wf_sim S = true.

  Lemma wf_parts :
    disjoint (akeys (s_converters S)) reserved_release = true /\
    disjoint (part_names S) reserved_release = true /\
    disjoint (akeys (s_ibm_opts S)) reserved_ibm = true /\
    nodupb (akeys (s_ibm_opts S)) = true /\
    disjoint (map ov_name (s_out_instance S ++ s_out_particle S)) reserved_output = true /\
    nodupb (map ov_name (s_out_instance S ++ s_out_particle S)) = true /\
    forallb (fun o => negb (ahas (ov_attrs o) "ncformat")) (s_out_instance S ++ s_out_particle S) = true.
  Proof.
    pose proof W as H. unfold wf_sim in H.
    repeat (apply andb_prop in H; let H' := fresh in destruct H as [H H']).
    repeat split; assumption.
  Qed.

  (** the particle_release section of the v1 file *)
  Definition prd : dict :=
    ([("variables", strs (s_names S))]
    ++ (if s_continuous S then [("release_type", CStr "continuous")]
        else if sp_rtype (s_spell S) then [("release_type", CStr "discrete")] else [])
    ++ opt_entry "release_frequency" (s_frequency S)
    ++ (match s_particle_vars S with
        | [] => if sp_min (s_spell S) then [] else [("particle_variables", strs [])]
        | l => [("particle_variables", strs l)]
        end)
    ++ s_converters S)%list.
  Lemma r1_pr : getitem (render_v1 S) "particle_release" = Ok (CDict prd).
  Proof. reflexivity. Qed.

  Lemma aget_prd_other v : mem v reserved_release = false -> aget prd v = aget (s_converters S) v.
  Proof.
    unfold reserved_release, mem. cbn [existsb]. rewrite !orb_false_iff, !(eqb_sym v).
    intros (E1 & E2 & E3 & E4 & _). unfold prd.
    destruct (s_continuous S), (sp_rtype (s_spell S)), (s_frequency S), (s_particle_vars S), (sp_min (s_spell S));
      cbn [app aget opt_entry]; rewrite ?E1, ?E2, ?E3, ?E4; reflexivity.
  Qed.

  Lemma prd_pv :
    (contains (CDict prd) "particle_variables" = Ok true /\
     getitem (CDict prd) "particle_variables" = Ok (strs (s_particle_vars S)))
    \/ (contains (CDict prd) "particle_variables" = Ok false /\ s_particle_vars S = []).
  Proof.
    destruct wf_parts as (Hc & _).
    pose proof (disjoint_aget _ _ Hc "particle_variables" eq_refl) as N.
    unfold prd, contains, getitem, ahas.
    destruct (s_continuous S), (sp_rtype (s_spell S)), (s_frequency S), (s_particle_vars S) as [|p ps], (sp_min (s_spell S));
      cbn [app aget opt_entry String.eqb Ascii.eqb Bool.eqb]; rewrite ?N; auto.
  Qed.

  (** the ibm section of the v1 file *)
  Definition ibd : dict :=
    (opt_entry (if sp_ibm_legacy (s_spell S) then "ibm_module" else "module") (s_ibm_module S)
     ++ (match s_ibm_vars S with
         | [] => if sp_min (s_spell S) then [] else [("variables", strs [])]
         | l => [("variables", strs l)]
         end)
     ++ s_ibm_opts S)%list.
  Definition ibm_omitted : bool := sp_min (s_spell S) && ibm_absent S.
  Lemma r1_has_ibm : contains (render_v1 S) "ibm" = Ok (negb ibm_omitted).
  Proof.
    unfold ibm_omitted, render_v1. cbn -[ibm_absent].
    destruct (sp_version (s_spell S)), (sp_min (s_spell S) && ibm_absent S); reflexivity.
  Qed.
  Lemma r1_ibm : ibm_omitted = false -> getitem (render_v1 S) "ibm" = Ok (CDict ibd).
  Proof.
    unfold ibm_omitted, render_v1, ibd. cbn -[ibm_absent]. intros ->.
    destruct (sp_version (s_spell S)); reflexivity.
  Qed.
  Lemma r1_has_warm : contains (render_v1 S) "warm_start" = Ok false.
  Proof.
    unfold render_v1. cbn -[ibm_absent].
    destruct (sp_version (s_spell S)), (sp_min (s_spell S) && ibm_absent S); reflexivity.
  Qed.

  Lemma ibm_vars_prefix {B} (K : dict -> res B) :
    (hi <- contains (render_v1 S) "ibm" ;;
     hv <- (if hi then ib <- getitem (render_v1 S) "ibm" ;; contains ib "variables" else Ok false) ;;
     inst <- (if hv then ib <- getitem (render_v1 S) "ibm" ;; vs <- getitem ib "variables" ;; l <- iter_strs vs ;;
                         Ok (fold_left (fun d v => aset d v (CStr "float")) l [])
              else Ok []) ;;
     K inst)
    = K (fold_left (fun d v => aset d v (CStr "float")) (s_ibm_vars S) []).
  Proof.
    destruct wf_parts as (_ & _ & Hio & _).
    pose proof (disjoint_aget _ _ Hio "variables" eq_refl) as N.
    rewrite r1_has_ibm. destruct ibm_omitted eqn:E; cbn [negb bind].
    - unfold ibm_omitted, ibm_absent in E. apply andb_prop in E. destruct E as [_ E].
      destruct (s_ibm_module S), (s_ibm_opts S), (s_ibm_vars S); try discriminate. reflexivity.
    - rewrite (r1_ibm E). cbn [bind]. unfold ibd, contains, getitem, ahas.
      destruct (sp_ibm_legacy (s_spell S)), (s_ibm_module S), (s_ibm_vars S) as [|x xs], (sp_min (s_spell S));
        cbn [app aget opt_entry String.eqb Ascii.eqb Bool.eqb bind]; rewrite ?N; cbn [bind];
        rewrite ?iter_strs_strs; reflexivity.
  Qed.

  Lemma v1_state_render : v1_state (render_v1 S) = Ok (CDict (state_tree S)).
  Proof.
    destruct wf_parts as (Hc & Hp & _).
    unfold v1_state. rewrite ibm_vars_prefix. rewrite r1_pr. cbn [bind].
    change (getitem (CDict prd) "variables") with (Ok (strs (s_names S))). cbn [bind].
    rewrite iter_strs_strs. cbn [bind].
    rewrite (state_loop_spec (CDict prd) (s_particle_vars S) (conv S) prd_pv).
    2:{ intros v Hv Pv. unfold getdef, conv. rewrite aget_prd_other; [reflexivity|].
        apply (disjoint_spec _ _ Hp). unfold part_names. apply uniq_In. apply filter_In. split; assumption. }
    cbn [bind]. unfold state_tree. do 3 f_equal.
    - (* instance variables *)
      rewrite <- fold_left_app. rewrite (fold_aset (fun _ => CStr "float")). reflexivity.
    - f_equal. f_equal.
      + rewrite (fold_aset (conv S)). reflexivity.
      + f_equal. f_equal. f_equal.
        rewrite <- fold_left_app. rewrite (fold_aset (fun _ => CStr "float")).
        unfold akeys. rewrite map_map. cbn [fst]. rewrite map_id.
        rewrite (fold_aset (fun _ => CInt 0)). unfold inst_names. rewrite uniq_idem. reflexivity.
  Qed.
End V1State.

Lemma fold_ibm_opts (opts : dict) : forall acc : dict,
  NoDup (akeys opts) ->
  (forall k, In k (akeys opts) -> mem k reserved_ibm = false /\ aget acc k = None) ->
  fold_left v1_ibm_step opts acc = (acc ++ opts)%list.
Proof.
  induction opts as [|[k v] r IH]; intros acc ND H; cbn [fold_left]; [now rewrite app_nil_r|].
  cbn [akeys map fst] in ND, H. inversion ND as [|? ? Hk Hr]; subst.
  destruct (H k (or_introl eq_refl)) as [Hres Hacc].
  unfold reserved_ibm, mem in Hres. cbn [existsb] in Hres. rewrite !orb_false_iff in Hres.
  destruct Hres as (E1 & E2 & E3 & _).
  unfold v1_ibm_step at 2. rewrite E1, E3. rewrite (aset_new _ _ _ Hacc).
  rewrite IH; [now rewrite <- app_assoc|exact Hr|].
  intros k' Hk'. destruct (H k' (or_intror Hk')) as [R A]. split; [exact R|].
  rewrite aget_app, A. cbn. destruct (String.eqb_spec k k') as [->|_]; [now elim Hk|reflexivity].
Qed.

Section V1Rest.
  Variable S : sim.
  Hypothesis W : wf_sim S = true.

  Lemma r1_num : getitem (render_v1 S) "numerics" =
    Ok (CDict [("dt", s_dt S); ("advection", s_advection S);
               ("diffusion", match s_diffusion S with Some d => d | None => CFloat 0 1 end)]).
  Proof. reflexivity. Qed.

  Definition tracker_v1 : cv :=
    CDict (("advection", s_advection S)
           :: match s_diffusion S with Some d => if truthy d then [("diffusion", d)] else [] | None => [] end).
  Lemma v1_tracker_render : v1_tracker (render_v1 S) = Ok tracker_v1.
  Proof.
    unfold v1_tracker, tracker_v1. rewrite r1_num. cbn [bind getitem aget String.eqb Ascii.eqb Bool.eqb].
    destruct (s_diffusion S); reflexivity.
  Qed.

  Definition release_tree : cv :=
    CDict ([("release_file", s_release_file S); ("names", strs (s_names S))]
           ++ (if s_continuous S
               then [("continuous", CBool true)] ++ opt_entry "release_frequency" (s_frequency S)
               else [])).
  Lemma v1_release_render : v1_release (render_v1 S) = Ok release_tree.
  Proof.
    destruct (wf_parts S W) as (Hc & _).
    pose proof (disjoint_aget _ _ Hc "release_type" eq_refl) as N.
    assert (F : s_continuous S = true -> exists f, s_frequency S = Some f).
    { pose proof W as H. unfold wf_sim in H.
      repeat (apply andb_prop in H; let H' := fresh in destruct H as [H H']).
      intros E. rewrite E in *. destruct (s_frequency S) as [f|]; [now exists f|discriminate]. }
    unfold v1_release, release_tree.
    change (getitem (render_v1 S) "files") with
      (Ok (CDict ([("particle_release_file", s_release_file S); ("output_file", s_out_file S)]
                  ++ (if sp_files (s_spell S)
                      then [("input_file", CStr (s_forcing_file S))] ++ opt_entry "gridfile" (option_map CStr (s_grid_file S))
                      else [])))).
    cbn [bind getitem app aget String.eqb Ascii.eqb Bool.eqb].
    rewrite (r1_pr S). cbn [bind].
    change (getitem (CDict (prd S)) "variables") with (Ok (strs (s_names S))). cbn [bind].
    unfold prd, contains, getitem, ahas.
    destruct (s_continuous S) eqn:C.
    - destruct (F eq_refl) as [f ->]. reflexivity.
    - destruct (sp_rtype (s_spell S)), (s_frequency S), (s_particle_vars S), (sp_min (s_spell S));
        cbn [app aget opt_entry String.eqb Ascii.eqb Bool.eqb bind is_str]; rewrite ?N; reflexivity.
  Qed.

  Definition ibm_tree : cv := CDict (opt_entry "module" (s_ibm_module S) ++ s_ibm_opts S).
  Lemma v1_ibm_render : v1_ibm (render_v1 S) = Ok ibm_tree.
  Proof.
    destruct (wf_parts S W) as (_ & _ & Hio & Hnd & _).
    unfold v1_ibm, ibm_tree. rewrite (r1_has_ibm S). destruct (ibm_omitted S) eqn:E; cbn [negb bind].
    - unfold ibm_omitted, ibm_absent in E. apply andb_prop in E. destruct E as [_ E].
      destruct (s_ibm_module S), (s_ibm_opts S), (s_ibm_vars S); try discriminate. reflexivity.
    - rewrite (r1_ibm S E). cbn [bind]. f_equal. f_equal. unfold ibd.
      rewrite !fold_left_app.
      set (acc := fold_left v1_ibm_step _ (fold_left v1_ibm_step _ [])).
      assert (Ea : acc = opt_entry "module" (s_ibm_module S)).
      { subst acc. destruct (sp_ibm_legacy (s_spell S)), (s_ibm_module S), (s_ibm_vars S), (sp_min (s_spell S)); reflexivity. }
      rewrite Ea. apply fold_ibm_opts.
      + now apply nodupb_NoDup.
      + intros k Hk. pose proof (disjoint_spec _ _ Hio k Hk) as R. split; [exact R|].
        unfold reserved_ibm, mem in R. cbn [existsb] in R. rewrite !orb_false_iff in R.
        destruct R as (_ & R & _). destruct (s_ibm_module S); cbn [opt_entry aget]; [|reflexivity].
        now rewrite (eqb_sym "module" k), R.
  Qed.
End V1Rest.

Lemma NoDup_app_lr {A} (a b : list A) : NoDup (a ++ b) -> NoDup a /\ NoDup b.
Proof.
  induction a as [|x r IH]; cbn; intros H; [split; [constructor|exact H]|].
  inversion H as [|? ? Hx Hr]; subst. destruct (IH Hr) as [Ha Hb]. split; [|exact Hb].
  constructor; [|exact Ha]. intros Hin. apply Hx. apply in_or_app. now left.
Qed.

Lemma aget_outvar_entries (l : list outvar) (o : outvar) :
  NoDup (map ov_name l) -> In o l ->
  aget (map v1_outvar_entry l) (ov_name o) = Some (CDict (("ncformat", ov_fmt o) :: ov_attrs o)).
Proof.
  induction l as [|x r IH]; intros ND Hin; [destruct Hin|].
  cbn [map] in ND. inversion ND as [|? ? Hx Hr]; subst. cbn [map aget v1_outvar_entry fst].
  destruct Hin as [->|Hin].
  - unfold v1_outvar_entry at 1. cbn [aget]. now rewrite String.eqb_refl.
  - unfold v1_outvar_entry at 1. cbn [aget].
    destruct (String.eqb_spec (ov_name x) (ov_name o)) as [E|_]; [|now apply IH].
    elim Hx. rewrite E. now apply in_map.
Qed.

Section V1Out.
  Variable S : sim.
  Hypothesis W : wf_sim S = true.
  Let all := (s_out_instance S ++ s_out_particle S)%list.

  Definition ovd : dict :=
    (opt_entry "format" (s_out_format S)
     ++ [("outper", s_out_period S);
         ("particle", strs (map ov_name (s_out_particle S)));
         ("instance", strs (map ov_name (s_out_instance S)))]
     ++ map v1_outvar_entry (s_out_instance S ++ s_out_particle S))%list.
  Lemma r1_ov : getitem (render_v1 S) "output_variables" = Ok (CDict ovd).
  Proof. reflexivity. Qed.

  Lemma aget_ovd_other v : mem v reserved_output = false -> aget ovd v = aget (map v1_outvar_entry all) v.
  Proof.
    unfold reserved_output, mem. cbn [existsb]. rewrite !orb_false_iff, !(eqb_sym v).
    intros (E1 & E2 & E3 & E4 & _). unfold ovd.
    destruct (s_out_format S); cbn [app aget opt_entry]; rewrite ?E1, ?E2, ?E3, ?E4; reflexivity.
  Qed.

  Lemma getitem_outvar o : In o all ->
    getitem (CDict ovd) (ov_name o) = Ok (CDict (("ncformat", ov_fmt o) :: ov_attrs o)).
  Proof.
    destruct (wf_parts S W) as (_ & _ & _ & _ & Hd & Hn & _).
    intros Hin. unfold getitem. rewrite aget_ovd_other.
    - rewrite aget_outvar_entries; [reflexivity| |exact Hin]. now apply nodupb_NoDup.
    - apply (disjoint_spec _ _ Hd). now apply in_map.
  Qed.

  Lemma fold_outvars (l : list outvar) : forall acc : list (string * cv),
    incl l all -> NoDup (map ov_name l) ->
    (forall o, In o l -> aget acc (ov_name o) = None) ->
    fold_left (v1_outvar (CDict ovd)) (map ov_name l) (@Ok (list (string * cv)) acc)
    = Ok (acc ++ map v2_outvar_entry l)%list.
  Proof.
    induction l as [|o r IH]; intros acc Hi ND Ha; cbn [map fold_left]; [now rewrite app_nil_r|].
    cbn [map] in ND. inversion ND as [|? ? Ho Hr]; subst.
    unfold v1_outvar at 2. cbn [bind].
    rewrite (getitem_outvar o) by (apply Hi; now left). cbn [bind copy_pop aget].
    rewrite String.eqb_refl. rewrite adel_head. cbn [bind].
    rewrite (aset_new _ _ _ (Ha o (or_introl eq_refl))).
    rewrite IH.
    - now rewrite <- app_assoc.
    - intros x Hx. apply Hi. now right.
    - exact Hr.
    - intros x Hx. rewrite aget_app, (Ha x (or_intror Hx)). cbn [aget].
      destruct (String.eqb_spec (ov_name o) (ov_name x)) as [E|_]; [|reflexivity].
      elim Ho. rewrite E. now apply in_map.
  Qed.

  Definition output_v1 : cv :=
    CDict [("filename", s_out_file S); ("output_period", s_out_period S);
           ("instance_variables", CDict (map v2_outvar_entry (s_out_instance S)));
           ("particle_variables", CDict (map v2_outvar_entry (s_out_particle S)));
           ("ncargs", CDict [("data_model", match s_out_format S with Some f => f | None => CStr "NETCDF3_CLASSIC" end)])].

  Lemma v1_output_render : v1_output (render_v1 S) = Ok output_v1.
  Proof.
    destruct (wf_parts S W) as (_ & _ & _ & _ & Hd & Hn & _).
    apply nodupb_NoDup in Hn. rewrite map_app in Hn.
    unfold v1_output, output_v1.
    change (getitem (render_v1 S) "files") with
      (Ok (CDict ([("particle_release_file", s_release_file S); ("output_file", s_out_file S)]
                  ++ (if sp_files (s_spell S)
                      then [("input_file", CStr (s_forcing_file S))] ++ opt_entry "gridfile" (option_map CStr (s_grid_file S))
                      else [])))).
    cbn [bind getitem app aget String.eqb Ascii.eqb Bool.eqb].
    rewrite r1_ov. cbn [bind].
    assert (Eop : getitem (CDict ovd) "outper" = Ok (s_out_period S)).
    { unfold ovd. destruct (s_out_format S); reflexivity. }
    assert (Ei : getitem (CDict ovd) "instance" = Ok (strs (map ov_name (s_out_instance S)))).
    { unfold ovd. destruct (s_out_format S); reflexivity. }
    assert (Ep : getitem (CDict ovd) "particle" = Ok (strs (map ov_name (s_out_particle S)))).
    { unfold ovd. destruct (s_out_format S); reflexivity. }
    assert (Ef : getdef (CDict ovd) "format" (CStr "NETCDF3_CLASSIC")
                 = Ok (match s_out_format S with Some f => f | None => CStr "NETCDF3_CLASSIC" end)).
    { unfold ovd, getdef. destruct (s_out_format S); [reflexivity|].
      cbn [app opt_entry aget String.eqb Ascii.eqb Bool.eqb].
      fold all.
      assert (Nf : aget (map v1_outvar_entry all) "format" = None).
      { apply aget_none_notin. unfold akeys. rewrite map_map. cbn [fst v1_outvar_entry].
        intros Hin. pose proof (disjoint_spec _ _ Hd "format" Hin). discriminate. }
      now rewrite Nf. }
    rewrite Eop, Ef, Ei. cbn [bind]. rewrite iter_strs_strs. cbn [bind].
    rewrite (fold_outvars (s_out_instance S) []); cycle 1.
    { intros x Hx. apply in_or_app. now left. }
    { exact (proj1 (NoDup_app_lr _ _ Hn)). }
    { reflexivity. }
    cbn [bind app]. rewrite Ep. cbn [bind]. rewrite iter_strs_strs. cbn [bind].
    rewrite (fold_outvars (s_out_particle S) []); cycle 1.
    { intros x Hx. apply in_or_app. now right. }
    { exact (proj2 (NoDup_app_lr _ _ Hn)). }
    { reflexivity. }
    reflexivity.
  Qed.
End V1Out.

(** * normalize by section *)
Definition norm9 (st tm gr fo rl tr ib ou ws : cv) : res cv :=
  st <- norm_section "ladim.state" sig_state [] st ;;
  tm <- norm_section "ladim.timekeeper" sig_time [] tm ;;
  gr <- norm_section "ladim.ROMS" sig_grid [] gr ;;
  fo <- norm_section "ladim.ROMS" sig_forcing [] fo ;;
  rl <- norm_section "ladim.release" sig_release [] rl ;;
  tr <- norm_section "ladim.tracker" sig_tracker [] tr ;;
  ib <- norm_section "ladim.ibm" sig_ibm [] ib ;;
  ou <- norm_section "ladim.out_netcdf" sig_output ["ncargs"] ou ;;
  Ok (CDict [("state", st); ("time", tm); ("grid", gr); ("forcing", fo); ("release", rl);
             ("tracker", tr); ("ibm", ib); ("output", ou); ("warm_start", ws)]).

Lemma normalize_lookup d st tm gr fo rl tr ib ou ws :
  aget d "state" = Some st -> aget d "time" = Some tm -> aget d "grid" = Some gr ->
  aget d "forcing" = Some fo -> aget d "release" = Some rl -> aget d "tracker" = Some tr ->
  aget d "ibm" = Some ib -> aget d "output" = Some ou -> aget d "warm_start" = Some ws ->
  normalize (CDict d) = norm9 st tm gr fo rl tr ib ou ws.
Proof.
  intros H1 H2 H3 H4 H5 H6 H7 H8 H9. unfold normalize, norm9. cbn [getitem].
  rewrite H1, H2, H3, H4, H5, H6, H7, H8, H9. cbn [bind].
  destruct (norm_section "ladim.state" sig_state [] st); cbn [bind]; [|reflexivity].
  destruct (norm_section "ladim.timekeeper" sig_time [] tm); cbn [bind]; [|reflexivity].
  destruct (norm_section "ladim.ROMS" sig_grid [] gr); cbn [bind]; [|reflexivity].
  destruct (norm_section "ladim.ROMS" sig_forcing [] fo); cbn [bind]; [|reflexivity].
  destruct (norm_section "ladim.release" sig_release [] rl); cbn [bind]; [|reflexivity].
  destruct (norm_section "ladim.tracker" sig_tracker [] tr); cbn [bind]; [|reflexivity].
  destruct (norm_section "ladim.ibm" sig_ibm [] ib); cbn [bind]; [|reflexivity].
  destruct (norm_section "ladim.out_netcdf" sig_output ["ncargs"] ou); cbn [bind]; reflexivity.
Qed.

Section T1.
  Variable glob : string -> list string.
  Variable wst : option cv.
  Variable S : sim.
  Hypothesis W : wf_sim S = true.
  Hypothesis G : wf_glob glob S = true.

  Definition time_tree : cv :=
    CDict ([("start", s_start S); ("stop", s_stop S); ("dt", s_dt S)] ++ opt_entry "reference" (s_reference S)).
  Lemma v1_time_render : v1_time (render_v1 S) = Ok time_tree.
  Proof.
    unfold v1_time, time_tree.
    change (getitem (render_v1 S) "time_control") with
      (Ok (CDict ([("start_time", s_start S); ("stop_time", s_stop S)] ++ opt_entry "reference_time" (s_reference S)))).
    rewrite r1_num. cbn [bind]. destruct (s_reference S); reflexivity.
  Qed.

  Definition v1_result : cv :=
    CDict [("time", time_tree); ("grid", grid_v1 glob S); ("forcing", forcing_tree S);
           ("state", CDict (state_tree S)); ("tracker", tracker_v1 S); ("release", release_tree S);
           ("ibm", ibm_tree S); ("warm_start", CDict []); ("output", output_v1 S)].

  Lemma configure_v1_render : configure_v1 glob (render_v1 S) = Ok v1_result.
  Proof.
    unfold configure_v1.
    rewrite v1_time_render. cbn [bind].
    rewrite (v1_gridforce_render glob S W G). cbn [bind].
    rewrite (v1_state_render S W). cbn [bind].
    rewrite (v1_tracker_render S). cbn [bind].
    rewrite (v1_release_render S W). cbn [bind].
    rewrite (v1_ibm_render S W). cbn [bind].
    rewrite (r1_has_warm S). cbn [bind].
    rewrite (v1_output_render S W). reflexivity.
  Qed.

  Lemma normalize_v1 :
    normalize_res (configure_v1 glob (render_v1 S)) =
    norm9 (CDict (state_tree S)) time_tree (grid_v1 glob S) (forcing_tree S) (release_tree S)
          (tracker_v1 S) (ibm_tree S) (output_v1 S) (CDict []).
  Proof. rewrite configure_v1_render. unfold normalize_res. cbn [bind]. apply normalize_lookup; reflexivity. Qed.
End T1.

(** * configure_v2 on the v2 spelling *)
Section T1v2.
  Variable glob : string -> list string.
  Variable wst : option cv.
  Variable S : sim.
  Variable omit : bool.

  Definition grid_entries : dict :=
    (opt_entry "filename" (option_map CStr (s_grid_file S)) ++ opt_entry "subgrid" (s_subgrid S))%list.
  Definition state_v2 : cv := if omit && state_empty S then CDict [] else CDict (state_tree S).
  Definition grid_v2 : cv :=
    CDict (fillgrid glob (if omit then grid_entries else ("module", v2_module_name (s_module S)) :: grid_entries)
                    (v2_module_name (s_module S)) (s_forcing_file S)).
  Definition tracker_v2 : cv := CDict ([("advection", s_advection S)] ++ opt_entry "diffusion" (s_diffusion S)).
  Definition output_v2 : cv :=
    CDict ([("filename", s_out_file S); ("output_period", s_out_period S);
            ("instance_variables", CDict (map v2_outvar_entry (s_out_instance S)))]
           ++ (match s_out_particle S with
               | [] => if omit then [] else [("particle_variables", CDict [])]
               | l => [("particle_variables", CDict (map v2_outvar_entry l))]
               end)).

  (** the top level of the v2 file *)
  Definition d2 : dict :=
    match render_v2 S omit with CDict d => d | _ => [] end.
  Lemma render_v2_d2 : render_v2 S omit = CDict d2.
  Proof. reflexivity. Qed.
  Definition g2 : dict :=
    if omit then grid_entries else ("module", v2_module_name (s_module S)) :: grid_entries.

  Lemma d2_lookup :
    aget d2 "time" = Some (time_tree S) /\ aget d2 "forcing" = Some (forcing_tree S) /\
    aget d2 "release" = Some (release_tree S) /\ aget d2 "tracker" = Some tracker_v2 /\
    aget d2 "output" = Some output_v2 /\
    sec_or_empty d2 "state" = state_v2 /\ sec_or_empty d2 "grid" = CDict g2 /\
    sec_or_empty d2 "ibm" = ibm_tree S /\ sec_or_empty d2 "warm_start" = CDict [].
  Proof.
    unfold d2, render_v2, state_v2, g2, tracker_v2, output_v2, ibm_tree, grid_entries, sec_or_empty.
    repeat split; try reflexivity.
    all: destruct omit; cbn [andb].
    all: destruct (sp_version (s_spell S)); try reflexivity.
    all: destruct (state_empty S); try reflexivity.
    all: destruct (s_grid_file S), (s_subgrid S); try reflexivity.
    all: destruct (s_ibm_module S), (s_ibm_opts S); reflexivity.
  Qed.

  Lemma configure_v2_render :
    exists d', configure_v2 glob wst (render_v2 S omit) = Ok (CDict d') /\
      aget d' "state" = Some state_v2 /\ aget d' "time" = Some (time_tree S) /\
      aget d' "grid" = Some grid_v2 /\ aget d' "forcing" = Some (forcing_tree S) /\
      aget d' "release" = Some (release_tree S) /\ aget d' "tracker" = Some tracker_v2 /\
      aget d' "ibm" = Some (ibm_tree S) /\ aget d' "output" = Some output_v2 /\
      aget d' "warm_start" = Some (CDict []).
  Proof.
    destruct d2_lookup as (Htm & Hfo & Hrl & Htr & Hou & Hst & Hgr & Hib & Hws).
    rewrite render_v2_d2.
    exists (aset (e4 d2) "grid" grid_v2). split.
    - unfold grid_v2. fold g2.
      eapply (cfg2_plain glob wst d2 tracker_v2 (time_tree S) (release_tree S) output_v2 _ _ _ g2 []);
        try eassumption; try reflexivity.
    - rewrite !aget_aset, !aget_e4.
      cbn [String.eqb Ascii.eqb Bool.eqb optional_section mem existsb orb].
      rewrite Hst, Htm, Hfo, Hrl, Htr, Hib, Hou, Hws. repeat split; reflexivity.
  Qed.
End T1v2.

(** * T1 *)
Section T1final.
  Variable glob : string -> list string.
  Variable wst : option cv.
  Variable S : sim.
  Variable omit : bool.
  Hypothesis W : wf_sim S = true.
  Hypothesis G : wf_glob glob S = true.

  Lemma ns_state :
    norm_section "ladim.state" sig_state [] (CDict (state_tree S)) =
    norm_section "ladim.state" sig_state [] (state_v2 S omit).
  Proof.
    unfold state_v2. destruct omit; cbn [andb]; [|reflexivity].
    destruct (state_empty S) eqn:E; [|reflexivity].
    unfold state_empty in E. unfold state_tree.
    destruct (inst_names S), (part_names S); try discriminate. reflexivity.
  Qed.

  Lemma ns_grid :
    norm_section "ladim.ROMS" sig_grid [] (grid_v1 glob S) =
    norm_section "ladim.ROMS" sig_grid [] (grid_v2 glob S omit).
  Proof.
    unfold grid_v1, grid_v2, grid_name, grid_entries, fillgrid.
    destruct omit, (s_grid_file S), (s_subgrid S); reflexivity.
  Qed.

  Lemma ns_tracker :
    norm_section "ladim.tracker" sig_tracker [] (tracker_v1 S) =
    norm_section "ladim.tracker" sig_tracker [] (tracker_v2 S).
  Proof.
    assert (N : match s_diffusion S with Some d => is_num d = true | None => True end).
    { pose proof W as H. unfold wf_sim in H.
      repeat (apply andb_prop in H; let H' := fresh in destruct H as [H H']).
      destruct (s_diffusion S); [assumption|exact I]. }
    unfold tracker_v1, tracker_v2. destruct (s_diffusion S) as [d|]; [|reflexivity].
    destruct d as [| | z | n dd | | |]; try discriminate N; cbn [truthy].
    - destruct (Z.eqb_spec z 0) as [->|_]; reflexivity.
    - cbn [is_num] in N. destruct (Z.eqb_spec n 0) as [->|_]; cbn [negb] in *; [|reflexivity].
      cbn [orb] in N. apply Z.eqb_eq in N. subst dd. reflexivity.
  Qed.

  Lemma ns_output :
    norm_section "ladim.out_netcdf" sig_output ["ncargs"] (output_v1 S) =
    norm_section "ladim.out_netcdf" sig_output ["ncargs"] (output_v2 S omit).
  Proof.
    unfold output_v1, output_v2. destruct (s_out_particle S), omit; reflexivity.
  Qed.

  Theorem v1_equals_v2 :
    normalize_res (configure_v1 glob (render_v1 S)) =
    normalize_res (configure_v2 glob wst (render_v2 S omit)).
  Proof.
    rewrite (normalize_v1 glob S W G).
    destruct (configure_v2_render glob wst S omit) as (d' & E & H1 & H2 & H3 & H4 & H5 & H6 & H7 & H8 & H9).
    rewrite E. unfold normalize_res. cbn [bind].
    rewrite (normalize_lookup d' _ _ _ _ _ _ _ _ _ H1 H2 H3 H4 H5 H6 H7 H8 H9).
    unfold norm9. rewrite ns_state, ns_grid, ns_tracker, ns_output. reflexivity.
  Qed.
End T1final.

(** * T3: version dispatch *)
Definition keyerror_to_exit (r : res cv) : res cv :=
  match r with Err EKey => Err (EExit 3) | r => r end.

Section Dispatch.
  Variable glob : string -> list string.
  Variable wst : option cv.

  Lemma configure_by_version c v :
    decide_version c = Ok v ->
    configure glob wst c =
    match v with
    | Some V2 => keyerror_to_exit (configure_v2 glob wst c)
    | Some V1 => configure_v1 glob c
    | None => Err (EExit 3)
    end.
  Proof.
    intros H. unfold configure. rewrite H. cbn [bind]. destruct v as [[|]|]; try reflexivity.
    destruct (configure_v2 glob wst c) as [a|[| | | |n]]; reflexivity.
  Qed.

  (** explicit version: only the first character of [str(version)] counts *)
  Lemma decide_explicit c v ch rest :
    getdef c "version" (CStr "0") = Ok v -> str_of_cv v = String ch rest ->
    String.eqb (String ch rest) "0" = false ->
    decide_version c = Ok (if Ascii.eqb ch "2" then Some V2 else if Ascii.eqb ch "1" then Some V1 else None).
  Proof.
    intros Hv Hs Hz. unfold decide_version. rewrite Hv. cbn [bind]. rewrite Hs, Hz. cbn [bind].
    destruct (Ascii.eqb ch "2"); [reflexivity|]. destruct (Ascii.eqb ch "1"); reflexivity.
  Qed.
  (** no version (or version 0): a [time_control] section means version 1 *)
  Lemma decide_inferred c v h :
    getdef c "version" (CStr "0") = Ok v -> str_of_cv v = "0" -> contains c "time_control" = Ok h ->
    decide_version c = Ok (Some (if h then V1 else V2)).
  Proof.
    intros Hv Hs Hc. unfold decide_version. rewrite Hv. cbn [bind]. rewrite Hs. cbn [String.eqb Ascii.eqb Bool.eqb].
    rewrite Hc. cbn [bind]. destruct h; reflexivity.
  Qed.
  Lemma getdef_absent d : aget d "version" = None -> getdef (CDict d) "version" (CStr "0") = Ok (CStr "0").
  Proof. intros H. cbn. now rewrite H. Qed.

  Lemma configure_v2_explicit c v rest :
    getdef c "version" (CStr "0") = Ok v -> str_of_cv v = String "2" rest ->
    configure glob wst c = keyerror_to_exit (configure_v2 glob wst c).
  Proof.
    intros Hv Hs. rewrite (configure_by_version c (Some V2)); [reflexivity|].
    rewrite (decide_explicit c v "2"%char rest Hv Hs); [reflexivity|].
    cbn. reflexivity.
  Qed.
  Lemma configure_v1_explicit c v rest :
    getdef c "version" (CStr "0") = Ok v -> str_of_cv v = String "1" rest ->
    configure glob wst c = configure_v1 glob c.
  Proof.
    intros Hv Hs. rewrite (configure_by_version c (Some V1)); [reflexivity|].
    rewrite (decide_explicit c v "1"%char rest Hv Hs); [reflexivity|].
    cbn. reflexivity.
  Qed.
  Lemma configure_inferred d :
    aget d "version" = None ->
    configure glob wst (CDict d) =
    if ahas d "time_control" then configure_v1 glob (CDict d)
    else keyerror_to_exit (configure_v2 glob wst (CDict d)).
  Proof.
    intros H.
    rewrite (configure_by_version (CDict d) (Some (if ahas d "time_control" then V1 else V2))).
    - destruct (ahas d "time_control"); reflexivity.
    - apply (decide_inferred (CDict d) (CStr "0")); [now apply getdef_absent|reflexivity|reflexivity].
  Qed.
  Lemma configure_refused c v ch rest :
    getdef c "version" (CStr "0") = Ok v -> str_of_cv v = String ch rest ->
    String.eqb (String ch rest) "0" = false -> Ascii.eqb ch "2" = false -> Ascii.eqb ch "1" = false ->
    configure glob wst c = Err (EExit 3).
  Proof.
    intros Hv Hs Hz H2 H1. rewrite (configure_by_version c None); [reflexivity|].
    rewrite (decide_explicit c v ch rest Hv Hs Hz), H2, H1. reflexivity.
  Qed.
  (** a version-2 file never ends in a bare KeyError *)
  Lemma keyerror_to_exit_no_key r : keyerror_to_exit r <> Err EKey.
  Proof. destruct r as [a|[| | | |n]]; cbn; discriminate. Qed.

  (** the rendered files are dispatched to the intended reader *)
  Lemma decide_render_v1 S : decide_version (render_v1 S) = Ok (Some V1).
  Proof.
    unfold decide_version, render_v1, getdef, contains, ahas. cbn -[ibm_absent].
    destruct (sp_version (s_spell S)), (sp_min (s_spell S) && ibm_absent S); reflexivity.
  Qed.
  Lemma decide_render_v2 S omit : decide_version (render_v2 S omit) = Ok (Some V2).
  Proof.
    unfold decide_version, render_v2, getdef, contains, ahas.
    destruct omit; cbn [andb].
    all: destruct (sp_version (s_spell S)); try reflexivity.
    all: destruct (state_empty S); try reflexivity.
    all: destruct (s_grid_file S), (s_subgrid S); try reflexivity.
    all: destruct (s_ibm_module S), (s_ibm_opts S); reflexivity.
  Qed.

  Theorem three_spellings S omit :
    wf_sim S = true -> wf_glob glob S = true ->
    normalize_res (configure glob wst (render_v1 S)) =
    normalize_res (configure glob wst (render_v2 S omit)).
  Proof.
    intros W G.
    rewrite (configure_by_version _ _ (decide_render_v1 S)).
    rewrite (configure_by_version _ _ (decide_render_v2 S omit)).
    destruct (configure_v2_render glob wst S omit) as (d' & E & _).
    rewrite (v1_equals_v2 glob wst S omit W G), E. reflexivity.
  Qed.
End Dispatch.

(** * T2: grid defaults *)
Lemma has_char_In c s : has_char c s = true <-> In c (list_ascii_of_string s).
Proof.
  induction s as [|a r IH]; cbn; [split; [discriminate|tauto]|].
  rewrite orb_true_iff, IH, Ascii.eqb_eq. tauto.
Qed.
Lemma has_wild_spec s :
  has_wild s = true <-> In "*"%char (list_ascii_of_string s) \/ In "?"%char (list_ascii_of_string s).
Proof. unfold has_wild. now rewrite orb_true_iff, !has_char_In. Qed.

Section GridDefaults.
  Variable glob : string -> list string.
  Variable wst : option cv.

  Lemma first_file_plain p : has_wild p = false -> first_file_v2 glob p = p.
  Proof. unfold first_file_v2. now intros ->. Qed.
  Lemma first_file_wild p f r : has_wild p = true -> glob p = f :: r -> first_file_v2 glob p = f.
  Proof. unfold first_file_v2. now intros -> ->. Qed.
  Lemma first_file_nomatch p : has_wild p = true -> glob p = [] -> first_file_v2 glob p = p.
  Proof. unfold first_file_v2. now intros -> ->. Qed.

  Lemma grid_defaults d tr tm rl out f m p g w :
    aget d "tracker" = Some tr -> is_null tr = false ->
    aget d "time" = Some tm ->
    aget d "release" = Some rl -> is_null rl = false ->
    aget d "output" = Some out ->
    aget d "forcing" = Some (CDict f) -> aget f "module" = Some m -> aget f "filename" = Some (CStr p) ->
    sec_or_empty d "grid" = CDict g ->
    sec_or_empty d "warm_start" = CDict w -> aget w "filename" = None ->
    exists d' g',
      configure_v2 glob wst (CDict d) = Ok (CDict d') /\ aget d' "grid" = Some (CDict g') /\
      aget g' "module" = Some (match aget g "module" with Some x => x | None => m end) /\
      aget g' "filename" = Some (match aget g "filename" with Some x => x | None => CStr (first_file_v2 glob p) end) /\
      (forall k, String.eqb "module" k = false -> String.eqb "filename" k = false -> aget g' k = aget g k) /\
      (forall k, String.eqb "grid" k = false -> aget d' k = aget (e4 d) k).
  Proof.
    intros. eexists. exists (fillgrid glob g m p). split; [eapply cfg2_plain; eassumption|].
    split; [rewrite aget_aset; reflexivity|].
    split; [rewrite aget_fillgrid_module; destruct (aget g "module"); reflexivity|].
    split; [rewrite aget_fillgrid_filename; destruct (aget g "filename"); reflexivity|].
    split; [intros k Hk1 Hk2; now apply aget_fillgrid_other|].
    intros k Hk. rewrite aget_aset, Hk. reflexivity.
  Qed.
End GridDefaults.

(** omitted = empty, seen by the modules *)
Lemma omitted_same_modules glob wst d k :
  optional_section k = true -> absent_or_null d k = true ->
  normalize_res (configure_v2 glob wst (CDict d)) =
  normalize_res (configure_v2 glob wst (CDict (aset d k (CDict [])))).
Proof. intros Hk Hn. apply normalize_res_same. now apply omitted_is_empty. Qed.

Lemma key_order_irrelevant glob wst (d1 d2 : dict) :
  (forall k, aget d1 k = aget d2 k) ->
  rsame (configure_v2 glob wst (CDict d1)) (configure_v2 glob wst (CDict d2)).
Proof. intros H. apply configure_v2_same. exists d1, d2. repeat split. exact H. Qed.

Lemma first_file_cases (glob : string -> list string) (p : string) :
  (has_wild p = false -> first_file_v2 glob p = p) /\
  (forall f r, has_wild p = true -> glob p = f :: r -> first_file_v2 glob p = f) /\
  (has_wild p = true -> glob p = [] -> first_file_v2 glob p = p).
Proof.
  split; [exact (first_file_plain glob p)|].
  split; [exact (first_file_wild glob p)|exact (first_file_nomatch glob p)].
Qed.
