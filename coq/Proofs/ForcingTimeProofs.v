(** Proofs/ForcingTimeProofs.v — the forcing machine of Model/ForcingTime.v refines linear interpolation
    between the bracketing frames (C03). *)
From Coq Require Import ZArith QArith List Bool Lia Lqa Sorted.
From Ladim Require Import Base.Num Model.Time Model.ForcingTime.
Import ListNotations.
Open Scope Z_scope.

(** * Lists: membership, sorting, tables *)
Lemma memb_In x l : memb x l = true <-> In x l.
Proof.
  unfold memb. rewrite existsb_exists. split.
  - intros [y [Hy E]]. apply Z.eqb_eq in E. subst; auto.
  - intros H; exists x; split; auto. apply Z.eqb_refl.
Qed.
Lemma memb_false x l : ~ In x l -> memb x l = false.
Proof. intros H. destruct (memb x l) eqn:E; auto. apply memb_In in E. contradiction. Qed.

Lemma nodupb_NoDup l : nodupb l = true -> NoDup l.
Proof.
  induction l as [|x l IH]; cbn; intros H; [constructor|].
  apply andb_prop in H as [H1 H2]. constructor; auto.
  intro Hin. apply memb_In in Hin. rewrite Hin in H1. discriminate.
Qed.

Lemma insert_In x y l : In y (insert x l) <-> y = x \/ In y l.
Proof.
  induction l as [|z l IH]; cbn.
  - intuition.
  - destruct (x <=? z); cbn; [intuition|]. rewrite IH. intuition.
Qed.
Lemma isort_In y l : In y (isort l) <-> In y l.
Proof.
  induction l as [|x l IH]; cbn; [tauto|]. rewrite insert_In, IH. intuition.
Qed.

Lemma insert_SS x l : StronglySorted Z.lt l -> ~ In x l -> StronglySorted Z.lt (insert x l).
Proof.
  induction l as [|z l IH]; intros Hs Hn; cbn.
  - constructor; constructor.
  - inversion Hs as [|? ? Hs' Hf]; subst.
    destruct (x <=? z) eqn:E.
    + apply Z.leb_le in E.
      assert (x <> z) by (intro; subst; apply Hn; left; auto).
      constructor; [exact Hs|]. constructor; [lia|].
      rewrite Forall_forall in *. intros w Hw. specialize (Hf w Hw). lia.
    + apply Z.leb_gt in E. constructor.
      * apply IH; auto. intro; apply Hn; right; auto.
      * rewrite Forall_forall in *. intros w Hw. apply insert_In in Hw as [->|Hw]; auto.
Qed.
Lemma isort_SS l : NoDup l -> StronglySorted Z.lt (isort l).
Proof.
  induction l as [|x l IH]; intros H; cbn; [constructor|].
  inversion H; subst. apply insert_SS; auto. rewrite isort_In; auto.
Qed.

Lemma SS_app l1 l2 : StronglySorted Z.lt (l1 ++ l2) ->
  StronglySorted Z.lt l1 /\ StronglySorted Z.lt l2 /\ (forall x y, In x l1 -> In y l2 -> x < y).
Proof.
  induction l1 as [|a l1 IH]; cbn; intros H.
  - repeat split; auto; [constructor | intros ? ? []].
  - inversion H as [|? ? Hs Hf]; subst. destruct (IH Hs) as (A & B & C).
    rewrite Forall_forall in Hf. repeat split; auto.
    + constructor; auto. rewrite Forall_forall. intros w Hw. apply Hf. apply in_or_app; auto.
    + intros x y [->|Hx] Hy; [apply Hf; apply in_or_app; auto | eauto].
Qed.

Lemma SS_decomp pre a b post : StronglySorted Z.lt (pre ++ a :: b :: post) ->
  a < b /\ (forall x, In x pre -> x < a) /\ (forall x, In x post -> b < x) /\
  StronglySorted Z.lt (a :: b :: post).
Proof.
  intros H. apply SS_app in H as (_ & H2 & H3).
  inversion H2 as [|? ? Hs Hf]; subst. inversion Hs as [|? ? Hs' Hf']; subst.
  rewrite Forall_forall in Hf, Hf'. repeat split; auto.
  - apply Hf; left; auto.
  - intros x Hx. apply H3; auto. left; auto.
Qed.

Lemma between_notin pre a b post x : StronglySorted Z.lt (pre ++ a :: b :: post) ->
  a < x < b -> ~ In x (pre ++ a :: b :: post).
Proof.
  intros H Hx Hin. destruct (SS_decomp _ _ _ _ H) as (Hab & Hpre & Hpost & _).
  apply in_app_or in Hin as [Hin|[->|[->|Hin]]]; try lia.
  - specialize (Hpre _ Hin). lia.
  - specialize (Hpost _ Hin). lia.
Qed.

Lemma index_of_app x pre post : ~ In x pre -> index_of x (pre ++ x :: post) = Some (length pre).
Proof.
  induction pre as [|a pre IH]; cbn; intros H; [rewrite Z.eqb_refl; auto|].
  destruct (a =? x) eqn:E.
  - apply Z.eqb_eq in E; subst; exfalso; apply H; left; auto.
  - rewrite IH; auto.
Qed.
Lemma nth_opt_app {A} (pre l : list A) k : nth_opt (pre ++ l) (length pre + k) = nth_opt l k.
Proof. induction pre as [|a pre IH]; cbn; auto. Qed.
Lemma diff_app pre a b post : nth_opt (diff (pre ++ a :: b :: post)) (length pre) = Some (b - a).
Proof.
  induction pre as [|p pre IH]; [reflexivity|].
  destruct pre as [|q pre]; cbn in *; exact IH.
Qed.

Lemma index_here pre a b post : StronglySorted Z.lt (pre ++ a :: b :: post) ->
  index_of a (pre ++ a :: b :: post) = Some (length pre).
Proof.
  intros H. apply index_of_app. intro Hin.
  destruct (SS_decomp _ _ _ _ H) as (_ & Hpre & _). specialize (Hpre _ Hin). lia.
Qed.

Lemma split_at l m : StronglySorted Z.lt l ->
  (exists x, In x l /\ x <= m) -> (exists y, In y l /\ m < y) ->
  exists pre a b post, l = pre ++ a :: b :: post /\ a <= m < b.
Proof.
  induction l as [|x0 l IH]; intros Hs [x [Hx Hxm]] [y [Hy Hym]]; [destruct Hx|].
  inversion Hs as [|? ? Hs' Hf]; subst. rewrite Forall_forall in Hf.
  assert (H0 : x0 <= m) by (destruct Hx as [->|Hx]; [lia | specialize (Hf _ Hx); lia]).
  assert (Hy' : In y l) by (destruct Hy as [->|Hy]; [lia | auto]).
  destruct l as [|x1 l]; [destruct Hy'|].
  destruct (Z_le_gt_dec x1 m) as [H1|H1].
  - destruct IH as (pre & a & b & post & E & Hab); auto.
    + exists x1; split; [left; auto | lia].
    + exists y; auto.
    + exists (x0 :: pre), a, b, post. rewrite E. split; auto.
  - exists [], x0, x1, l. split; auto. lia.
Qed.

(** prestep *)
Lemma filter_all {A} (f : A -> bool) l : (forall x, In x l -> f x = true) -> filter f l = l.
Proof.
  induction l as [|a l IH]; cbn; intros H; auto.
  rewrite (H a) by (left; auto). rewrite IH; auto.
Qed.
Lemma filter_none {A} (f : A -> bool) l : (forall x, In x l -> f x = false) -> filter f l = [].
Proof.
  induction l as [|a l IH]; cbn; intros H; auto.
  rewrite (H a) by (left; auto). apply IH; auto.
Qed.
Lemma fold_max_last l : forall v a, (forall x, In x (v :: l) -> x <= a) -> fold_left Z.max (l ++ [a]) v = a.
Proof.
  induction l as [|y l IH]; intros v a H; cbn.
  - specialize (H v (or_introl eq_refl)). lia.
  - apply IH. intros x [<-|Hx].
    + pose proof (H v (or_introl eq_refl)). pose proof (H y (or_intror (or_introl eq_refl))). lia.
    + apply H. right; right; auto.
Qed.
Lemma prestep_neg pre a b post : StronglySorted Z.lt (pre ++ a :: b :: post) -> a < 0 <= b ->
  prestep_of (pre ++ a :: b :: post) = a.
Proof.
  intros H Hab. destruct (SS_decomp _ _ _ _ H) as (_ & Hpre & Hpost & _).
  unfold prestep_of. rewrite filter_app. cbn [filter].
  rewrite (filter_all _ pre) by (intros x Hx; specialize (Hpre _ Hx); apply Z.ltb_lt; lia).
  replace (a <? 0) with true by (symmetry; apply Z.ltb_lt; lia).
  replace (b <? 0) with false by (symmetry; apply Z.ltb_ge; lia).
  rewrite (filter_none _ post) by (intros x Hx; specialize (Hpost _ Hx); apply Z.ltb_ge; lia).
  destruct pre as [|p pre]; [reflexivity|].
  cbn [app]. apply fold_max_last. intros x Hx. assert (x < a) by (apply Hpre; exact Hx). lia.
Qed.
Lemma prestep_nonneg l : (forall x, In x l -> 0 <= x) -> prestep_of l = 0.
Proof.
  intros H. unfold prestep_of. rewrite filter_none; auto.
  intros x Hx. apply Z.ltb_ge. auto.
Qed.

(** dict lookups *)
Lemma lookup_sound d s : forall fr, lookup d s = Some fr -> In fr d /\ fstep fr = s.
Proof.
  induction d as [|f0 d IH]; intros fr; cbn; [discriminate|].
  destruct (lookup d s) as [x|] eqn:E.
  - intros [= <-]. destruct (IH x eq_refl); auto.
  - destruct (fstep f0 =? s) eqn:E2; [|discriminate].
    intros [= <-]. apply Z.eqb_eq in E2. auto.
Qed.
Lemma lookup_complete d fr : NoDup (map fstep d) -> In fr d -> lookup d (fstep fr) = Some fr.
Proof.
  induction d as [|f0 d IH]; cbn; intros Hn Hin; [destruct Hin|].
  inversion Hn as [|? ? Hnot Hn']; subst.
  destruct Hin as [->|Hin].
  - destruct (lookup d (fstep fr)) eqn:E.
    + apply lookup_sound in E as [Hi He]. exfalso; apply Hnot. rewrite <- He. apply in_map; auto.
    + rewrite Z.eqb_refl; auto.
  - rewrite IH; auto.
Qed.

(** * Interpolation algebra *)
Open Scope Q_scope.
Lemma lerp_init (A B fa fb : Q) : A < B ->
  fa - (A + 1) * ((fb - fa) / (B - A)) == lerp A fa B fb (-1 # 1).
Proof. intros H. unfold lerp. field. lra. Qed.
Lemma lerp_frac (A B fa fb x f uu d : Q) : A < B ->
  uu == lerp A fa B fb x -> d == (fb - fa) / (B - A) -> uu + f * d == lerp A fa B fb (x + f).
Proof. intros H Hu Hd. rewrite Hu, Hd. unfold lerp. field. lra. Qed.
Lemma lerp_left (A B fa fb x : Q) : A < B -> x == A -> lerp A fa B fb x == fa.
Proof. intros H Hx. unfold lerp. rewrite Hx. field. lra. Qed.
Lemma lerp_right (A B fa fb x : Q) : A < B -> x == B -> lerp A fa B fb x == fb.
Proof. intros H Hx. unfold lerp. rewrite Hx. field. lra. Qed.
(** step space and time space give the same interpolation (time = t0 + k * step, k <> 0) *)
Lemma lerp_affine (A B fa fb x t0 k : Q) : A < B -> ~ k == 0 ->
  lerp (t0 + k * A) fa (t0 + k * B) fb (t0 + k * x) == lerp A fa B fb x.
Proof. intros H Hk. unfold lerp. field. split; [lra|]. intro E. apply Hk. nra. Qed.
Close Scope Q_scope.

Lemma inj_lt a b : a < b -> (inject_Z a < inject_Z b)%Q.
Proof. intros H. rewrite <- Zlt_Qlt. exact H. Qed.
Lemma inj_le a b : a <= b -> (inject_Z a <= inject_Z b)%Q.
Proof. intros H. rewrite <- Zle_Qle. exact H. Qed.

(** * The specification functions on a sorted frame list *)
Lemma lerp_spec_cons2 a fa b fb r x :
  lerp_spec ((a, fa) :: (b, fb) :: r) x =
  if Qle_bool (inject_Z a) x && Qle_bool x (inject_Z b)
  then Some (lerp (inject_Z a) fa (inject_Z b) fb x) else lerp_spec ((b, fb) :: r) x.
Proof. reflexivity. Qed.

Lemma lerp_spec_at (f : Z -> Q) pre a b post x :
  StronglySorted Z.lt (pre ++ a :: b :: post) -> (inject_Z a <= x <= inject_Z b)%Q ->
  exists v, lerp_spec (map (fun s => (s, f s)) (pre ++ a :: b :: post)) x = Some v /\
            (v == lerp (inject_Z a) (f a) (inject_Z b) (f b) x)%Q.
Proof.
  induction pre as [|p pre IH]; intros Hs [Hax Hxb].
  - cbn [app map]. rewrite lerp_spec_cons2.
    apply Qle_bool_iff in Hax, Hxb. rewrite Hax, Hxb. cbn [andb].
    eexists; split; reflexivity.
  - cbn [app] in Hs. inversion Hs as [|? ? Hs' Hf]; subst. rewrite Forall_forall in Hf.
    specialize (IH Hs' (conj Hax Hxb)).
    destruct (SS_decomp _ _ _ _ Hs') as (Hab & Hpre & _).
    destruct pre as [|q pre].
    + cbn [app map] in *. rewrite lerp_spec_cons2.
      destruct (Qle_bool (inject_Z p) x && Qle_bool x (inject_Z a)) eqn:E; [|exact IH].
      apply andb_prop in E as [E1 E2]. apply Qle_bool_iff in E1, E2.
      assert (Hpa : p < a) by (apply Hf; left; auto).
      assert (Hx : (x == inject_Z a)%Q) by lra.
      eexists; split; [reflexivity|].
      rewrite lerp_right by (auto using inj_lt).
      rewrite lerp_left by (auto using inj_lt). reflexivity.
    + cbn [app map] in *. rewrite lerp_spec_cons2.
      destruct (Qle_bool (inject_Z p) x && Qle_bool x (inject_Z q)) eqn:E; [|exact IH].
      exfalso. apply andb_prop in E as [E1 E2]. apply Qle_bool_iff in E2.
      assert (Hqa : q < a) by (apply Hpre; left; auto).
      apply inj_lt in Hqa. lra.
Qed.

Lemma latest_spec_at (f : Z -> Q) pre a b post n :
  StronglySorted Z.lt (pre ++ a :: b :: post) -> a <= n < b ->
  latest_spec (map (fun s => (s, f s)) (pre ++ a :: b :: post)) n = Some (f a).
Proof.
  induction pre as [|p pre IH]; intros Hs Hn.
  - cbn [app map latest_spec].
    replace (a <=? n) with true by (symmetry; apply Z.leb_le; lia).
    replace (b <=? n) with false by (symmetry; apply Z.leb_gt; lia). reflexivity.
  - destruct (SS_decomp (p :: pre) a b post Hs) as (_ & Hpre & _).
    cbn [app] in Hs. inversion Hs as [|? ? Hs' Hf]; subst.
    cbn [app map latest_spec].
    assert (p < a) by (apply Hpre; left; auto).
    replace (p <=? n) with true by (symmetry; apply Z.leb_le; lia).
    rewrite (IH Hs' Hn). reflexivity.
Qed.

(** * The machine on a fixed layout *)
Lemma opened_eq (o : option Z) f :
  match o with None => f | Some g => if negb (f =? g) then f else g end = f.
Proof.
  destruct o as [g|]; auto. destruct (f =? g) eqn:E; cbn; auto. apply Z.eqb_eq in E; auto.
Qed.

Section Core.
Variable raw : list frame.
Variable D : disk.
Variable hs : bool.
Hypothesis Hnd : NoDup (map fstep raw).
Hypothesis Hrd : readable raw D = true.

Notation T := (mk_tables raw).
Notation SL := (isort (map fstep raw)).
Notation uv := (uval raw D).
Notation sv := (sval raw D).
Notation fl := (file_of raw).

Lemma steps_mk : steps T = SL. Proof. reflexivity. Qed.
Lemma stepdiff_mk : stepdiff T = diff SL. Proof. reflexivity. Qed.
Lemma S_SS : StronglySorted Z.lt SL.
Proof. apply isort_SS. exact Hnd. Qed.

Lemma S_frame s : In s SL ->
  exists fr p, lookup raw s = Some fr /\ fstep fr = s /\ D (ffile fr) (fidx fr) = Some p.
Proof.
  intros H. apply (proj1 (isort_In _ _)) in H. apply (proj1 (in_map_iff _ _ _)) in H as (fr & Hs & Hin).
  unfold readable in Hrd. rewrite forallb_forall in Hrd. specialize (Hrd _ Hin).
  destruct (D (ffile fr) (fidx fr)) as [p|] eqn:E; [|discriminate].
  exists fr, p. repeat split; auto. rewrite <- Hs. apply lookup_complete; auto.
Qed.

Lemma read_velocity_ok st s : In s SL -> log_ok raw (rlog st) ->
  exists st', read_velocity T D st s = Some (uv s, st') /\
    u st' = u st /\ u_new st' = u_new st /\ dU st' = dU st /\ scal st' = scal st /\
    open_file st' = Some (fl s) /\ log_ok raw (rlog st').
Proof.
  intros Hin Hlog. destruct (S_frame s Hin) as (fr & [x y] & Hl & Hs & HD).
  unfold read_velocity. cbn [dict mk_tables]. rewrite Hl. cbv zeta. rewrite opened_eq, HD.
  eexists. split.
  - unfold uval, frame_val. rewrite Hl, HD. cbn [fst]. reflexivity.
  - cbn [u u_new dU scal open_file rlog]. repeat split.
    + unfold file_of. rewrite Hl. reflexivity.
    + constructor; auto. destruct fr; cbn in *; subst; exact Hl.
Qed.

Lemma read_scalars_ok st s : In s SL -> open_file st = Some (fl s) -> log_ok raw (rlog st) ->
  exists sc st', read_scalars hs T D st s = Some (sc, st') /\ (hs = true -> sc = sv s) /\
    u st' = u st /\ u_new st' = u_new st /\ dU st' = dU st /\
    open_file st' = open_file st /\ log_ok raw (rlog st').
Proof.
  intros Hin Hop Hlog. unfold read_scalars. destruct hs.
  - destruct (S_frame s Hin) as (fr & [x y] & Hl & Hs & HD).
    unfold read_field. cbn [dict mk_tables]. rewrite Hl, Hop.
    unfold file_of. rewrite Hl, HD.
    eexists _, _. split; [reflexivity|]. cbn [u u_new dU scal open_file rlog].
    repeat split; auto.
    + intros _. unfold sval, frame_val. rewrite Hl, HD. reflexivity.
    + constructor; auto. destruct fr; cbn in *; subst; exact Hl.
  - eexists _, _. split; [reflexivity|]. repeat split; auto. discriminate.
Qed.

(** the state in force at step [n] inside the bracket [a <= n < b] *)
Definition full (st : fstate) (a b n : Z) : Prop :=
  a <= n < b /\
  (u st == lerp (inject_Z a) (uv a) (inject_Z b) (uv b) (inject_Z n))%Q /\
  (dU st == (uv b - uv a) / (inject_Z b - inject_Z a))%Q /\
  (u_new st == uv b)%Q /\
  open_file st = Some (fl b) /\
  (hs = true -> (scal st == sv a)%Q) /\
  log_ok raw (rlog st).

Ltac split_full :=
  unfold full; cbn [u u_new dU scal open_file rlog];
  refine (conj _ (conj _ (conj _ (conj _ (conj _ (conj _ _)))))).

Lemma in_mid {A} (pre : list A) a b post : In a (pre ++ a :: b :: post) /\ In b (pre ++ a :: b :: post).
Proof. split; apply in_or_app; right; cbn; auto. Qed.

Lemma update_frame pre b c post st :
  SL = pre ++ b :: c :: post -> (u_new st == uv b)%Q -> open_file st = Some (fl b) ->
  log_ok raw (rlog st) ->
  exists st', forcing_update T D hs st b = Some st' /\ full st' b c b.
Proof.
  intros E Hun Hop Hlog.
  pose proof S_SS as Hss. rewrite E in Hss.
  destruct (SS_decomp _ _ _ _ Hss) as (Hbc & _).
  destruct (in_mid pre b c post) as [Hb Hc]. rewrite <- E in Hb, Hc.
  destruct (read_scalars_ok st b Hb Hop Hlog) as (sc & st2 & Hrs & Hsc & Hu2 & Hn2 & Hd2 & Ho2 & Hl2).
  destruct (read_velocity_ok st2 c Hc Hl2) as (st3 & Hrv & Hu3 & Hn3 & Hd3 & Hs3 & Ho3 & Hl3).
  unfold forcing_update. rewrite steps_mk, stepdiff_mk.
  rewrite (proj2 (memb_In b SL) Hb). cbv zeta. rewrite Hrs. rewrite E.
  rewrite (index_here _ _ _ _ Hss).
  replace (Nat.ltb (length pre + 1) (length (pre ++ b :: c :: post))) with true
    by (symmetry; apply Nat.ltb_lt; rewrite app_length; cbn [length]; lia).
  rewrite (nth_opt_app pre (b :: c :: post) 1). cbn [nth_opt].
  rewrite diff_app. rewrite Hrv.
  eexists; split; [reflexivity|]. split_full.
  - lia.
  - rewrite Hun. rewrite lerp_left; [reflexivity | apply inj_lt; exact Hbc | reflexivity].
  - rewrite Hun. unfold Z.sub. rewrite inject_Z_plus, inject_Z_opp. reflexivity.
  - reflexivity.
  - exact Ho3.
  - intros Hh. rewrite (Hsc Hh). reflexivity.
  - exact Hl3.
Qed.

Lemma update_ordinary pre a b post st n :
  SL = pre ++ a :: b :: post -> full st a b n -> n + 1 < b ->
  exists st', forcing_update T D hs st (n + 1) = Some st' /\ full st' a b (n + 1).
Proof.
  intros E (Hn & Hu & Hd & Hun & Hop & Hsc & Hlog) Hnb.
  pose proof S_SS as Hss. rewrite E in Hss.
  destruct (SS_decomp _ _ _ _ Hss) as (Hab & _).
  unfold forcing_update. rewrite steps_mk.
  rewrite memb_false by (rewrite E; apply between_notin; [exact Hss | lia]).
  eexists; split; [reflexivity|]. split_full; auto; try lia.
  rewrite inject_Z_plus.
  pose proof (lerp_frac (inject_Z a) (inject_Z b) (uv a) (uv b) (inject_Z n) 1 (u st) (dU st)
                (inj_lt _ _ Hab) Hu Hd) as H.
  rewrite <- H. change (inject_Z 1) with 1%Q. ring.
Qed.

Lemma init_neg pre a b post : SL = pre ++ a :: b :: post -> a < 0 <= b ->
  exists st, forcing_init T D hs = Some st /\ full st a b (-1).
Proof.
  intros E Hab0.
  pose proof S_SS as Hss. rewrite E in Hss.
  destruct (SS_decomp _ _ _ _ Hss) as (Hab & _).
  destruct (in_mid pre a b post) as [Ha Hb]. rewrite <- E in Ha, Hb.
  assert (Hl0 : log_ok raw (rlog st0)) by constructor.
  destruct (read_velocity_ok st0 a Ha Hl0) as (st1 & Hrv1 & _ & _ & _ & _ & Ho1 & Hl1).
  destruct (read_scalars_ok st1 a Ha Ho1 Hl1) as (sc & st2 & Hrs & Hsc & _ & _ & _ & Ho2 & Hl2).
  destruct (read_velocity_ok st2 b Hb Hl2) as (st3 & Hrv3 & _ & _ & _ & _ & Ho3 & Hl3).
  unfold forcing_init. rewrite steps_mk, stepdiff_mk. cbv zeta. rewrite E.
  rewrite (prestep_neg _ _ _ _ Hss Hab0). rewrite (index_here _ _ _ _ Hss).
  rewrite diff_app.
  replace (S (length pre)) with (length pre + 1)%nat by lia.
  rewrite (nth_opt_app pre (a :: b :: post) 1). cbn [nth_opt].
  rewrite Hrv1, Hrs.
  replace (a =? 0) with false by (symmetry; apply Z.eqb_neq; lia).
  rewrite Hrv3.
  eexists; split; [reflexivity|]. split_full.
  - lia.
  - rewrite inject_Z_plus. unfold Z.sub. rewrite inject_Z_plus, inject_Z_opp.
    change (inject_Z 1) with 1%Q. change (inject_Z (-1)) with (-1 # 1)%Q.
    apply lerp_init. apply inj_lt; exact Hab.
  - unfold Z.sub. rewrite inject_Z_plus, inject_Z_opp. reflexivity.
  - reflexivity.
  - exact Ho3.
  - intros Hh. rewrite (Hsc Hh). reflexivity.
  - exact Hl3.
Qed.

Lemma init_zero b post : SL = 0 :: b :: post ->
  exists st, forcing_init T D hs = Some st /\
    (u_new st == uv 0)%Q /\ open_file st = Some (fl 0) /\ log_ok raw (rlog st).
Proof.
  intros E.
  pose proof S_SS as Hss. rewrite E in Hss.
  destruct (SS_decomp [] _ _ _ Hss) as (H0b & _ & Hpost & _).
  destruct (in_mid [] 0 b post) as [Ha Hb]. cbn [app] in Ha, Hb. rewrite <- E in Ha, Hb.
  assert (Hl0 : log_ok raw (rlog st0)) by constructor.
  destruct (read_velocity_ok st0 0 Ha Hl0) as (st1 & Hrv1 & _ & _ & _ & _ & Ho1 & Hl1).
  destruct (read_scalars_ok st1 0 Ha Ho1 Hl1) as (sc & st2 & Hrs & Hsc & _ & _ & _ & Ho2 & Hl2).
  unfold forcing_init. rewrite steps_mk, stepdiff_mk. cbv zeta. rewrite E.
  rewrite prestep_nonneg.
  2:{ intros x [<-|[<-|Hx]]; try lia. specialize (Hpost _ Hx). lia. }
  cbn [index_of Z.eqb diff nth_opt]. rewrite Hrv1, Hrs. cbn [Z.eqb].
  eexists; split; [reflexivity|]. cbn [u u_new dU scal open_file rlog].
  refine (conj _ (conj _ _)).
  - reflexivity.
  - rewrite Ho2. exact Ho1.
  - exact Hl2.
Qed.

(** invariant between updates: inside a bracket, or just before the first frame step *)
Definition inv (st : fstate) (n : Z) : Prop :=
  exists pre a b post, SL = pre ++ a :: b :: post /\
    (full st a b n \/
     (n + 1 = a /\ (u_new st == uv a)%Q /\ open_file st = Some (fl a) /\ log_ok raw (rlog st))).
Definition bracketed (st : fstate) (n : Z) : Prop :=
  exists pre a b post, SL = pre ++ a :: b :: post /\ full st a b n.

Lemma inv_init : (exists x, In x SL /\ x <= 0) -> (exists y, In y SL /\ 0 < y) ->
  exists st, forcing_init T D hs = Some st /\ inv st (-1).
Proof.
  intros Hlo Hhi.
  destruct (split_at SL 0 S_SS Hlo Hhi) as (pre & a & b & post & E & Hab).
  destruct (Z_lt_le_dec a 0) as [Ha|Ha].
  - destruct (init_neg pre a b post E) as (st & Hi & Hf); [lia|].
    exists st; split; auto. exists pre, a, b, post. auto.
  - assert (a = 0) by lia. subst a.
    destruct pre as [|p0 pre0].
    + destruct (init_zero b post E) as (st & Hi & H1 & H2 & H3).
      exists st; split; auto. exists [], 0, b, post. split; auto.
    + destruct (@exists_last _ (p0 :: pre0)) as (pre' & p & Ep); [discriminate|].
      rewrite Ep in E. rewrite <- app_assoc in E. cbn [app] in E.
      pose proof S_SS as Hss. rewrite E in Hss.
      destruct (SS_decomp _ _ _ _ Hss) as (Hp0 & _).
      destruct (init_neg pre' p 0 (b :: post) E) as (st & Hi & Hf); [lia|].
      exists st; split; auto. exists pre', p, 0, (b :: post). auto.
Qed.

Lemma inv_step st n : inv st n -> (exists y, In y SL /\ n + 1 < y) ->
  exists st', forcing_update T D hs st (n + 1) = Some st' /\ bracketed st' (n + 1).
Proof.
  intros (pre & a & b & post & E & H) (y & Hy & Hny).
  pose proof S_SS as Hss. rewrite E in Hss.
  destruct (SS_decomp _ _ _ _ Hss) as (Hab & Hpre & Hpost & _).
  destruct H as [Hf | (Hna & Hun & Hop & Hlog)].
  - destruct (Z_lt_le_dec (n + 1) b) as [Hlt|Hge].
    + destruct (update_ordinary pre a b post st n E Hf Hlt) as (st' & Hu & Hf').
      exists st'; split; auto. exists pre, a, b, post; auto.
    + destruct Hf as (Hn & _ & _ & Hun & Hop & _ & Hlog).
      assert (n + 1 = b) by lia.
      (* the frame after b exists because some frame lies beyond n + 1 *)
      destruct post as [|c post'].
      { exfalso. rewrite E in Hy. apply in_app_or in Hy as [Hy|[<-|[<-|[]]]]; try lia.
        specialize (Hpre _ Hy). lia. }
      assert (E' : SL = (pre ++ [a]) ++ b :: c :: post') by (rewrite <- app_assoc; exact E).
      destruct (update_frame (pre ++ [a]) b c post' st E' Hun Hop Hlog) as (st' & Hu & Hf').
      exists st'. replace (n + 1) with b by lia. split; auto.
      exists (pre ++ [a]), b, c, post'; auto.
  - destruct (update_frame pre a b post st E Hun Hop Hlog) as (st' & Hu & Hf').
    exists st'. rewrite Hna. split; auto. exists pre, a, b, post; auto.
Qed.

Lemma after_updates_inv k :
  (exists x, In x SL /\ x <= 0) -> (exists y, In y SL /\ Z.of_nat k <= y /\ 0 < y) ->
  exists st, after_updates T D hs k = Some st /\ inv st (Z.of_nat k - 1).
Proof.
  intros Hlo. induction k as [|j IH]; intros (y & Hy & Hky & Hy0).
  - cbn [after_updates]. apply inv_init; auto. exists y; auto.
  - destruct IH as (st & Ha & Hi); [exists y; repeat split; auto; lia|].
    cbn [after_updates]. rewrite Ha.
    destruct (inv_step st (Z.of_nat j - 1) Hi) as (st' & Hu & pre & a & b & post & E & Hf).
    { exists y; split; auto. lia. }
    replace (Z.of_nat j - 1 + 1) with (Z.of_nat j) in Hu by lia.
    exists st'; split; auto.
    replace (Z.of_nat (S j) - 1) with (Z.of_nat j - 1 + 1) by lia.
    exists pre, a, b, post. auto.
Qed.

(** the state in force at every step of the window is the bracket state *)
Lemma state_bracketed n : 0 <= n ->
  (exists x, In x SL /\ x <= 0) -> (exists y, In y SL /\ n < y) ->
  exists st, state_at T D hs n = Some st /\ bracketed st n.
Proof.
  intros Hn Hlo (y & Hy & Hny). unfold state_at.
  replace (Z.to_nat (n + 1)) with (S (Z.to_nat n)) by lia.
  cbn [after_updates].
  destruct (after_updates_inv (Z.to_nat n) Hlo) as (st & Ha & Hi).
  { exists y; repeat split; auto; lia. }
  rewrite Ha. rewrite Z2Nat.id in * by lia.
  destruct (inv_step st (n - 1) Hi) as (st' & Hu & Hb).
  { exists y; split; auto; lia. }
  replace (n - 1 + 1) with n in * by lia. exists st'; auto.
Qed.
End Core.

(** * The property lemmas (decidable hypotheses) *)
Lemma covers_spec raw n : covers raw n = true ->
  (exists x, In x (isort (map fstep raw)) /\ x <= 0) /\ (exists y, In y (isort (map fstep raw)) /\ n < y).
Proof.
  unfold covers. intros H. apply andb_prop in H as [H1 H2].
  apply existsb_exists in H1 as (x & Hx & Hx0). apply existsb_exists in H2 as (y & Hy & Hy0).
  split; [exists x | exists y]; rewrite isort_In; split; auto.
  - apply Z.leb_le; auto.
  - apply Z.ltb_lt; auto.
Qed.

Lemma state_at_bracket raw D hs n :
  nodupb (map fstep raw) = true -> readable raw D = true -> covers raw n = true -> 0 <= n ->
  exists st pre a b post,
    state_at (mk_tables raw) D hs n = Some st /\
    steps (mk_tables raw) = pre ++ a :: b :: post /\
    StronglySorted Z.lt (pre ++ a :: b :: post) /\
    full raw D hs st a b n.
Proof.
  intros Hnd Hrd Hcov Hn. apply nodupb_NoDup in Hnd.
  destruct (covers_spec raw n Hcov) as [Hlo Hhi].
  destruct (state_bracketed raw D hs Hnd Hrd n Hn Hlo Hhi) as (st & Hs & pre & a & b & post & E & Hf).
  exists st, pre, a, b, post. refine (conj Hs (conj E (conj _ Hf))).
  rewrite <- E. apply S_SS; auto.
Qed.

(** T1 *)
Lemma forcing_refines_lerp raw D hs rv n :
  nodupb (map fstep raw) = true -> readable raw D = true -> covers raw n = true -> 0 <= n ->
  exists st v, state_at (mk_tables raw) D hs n = Some st /\
    lerp_spec (upts raw D) (inject_Z n) = Some v /\ (u st == v)%Q /\
    (particle_u rv st == if rv then - v else v)%Q.
Proof.
  intros Hnd Hrd Hcov Hn.
  destruct (state_at_bracket raw D hs n Hnd Hrd Hcov Hn) as (st & pre & a & b & post & Hs & E & Hss & Hf).
  destruct Hf as (Hab & Hu & _).
  destruct (lerp_spec_at (uval raw D) pre a b post (inject_Z n) Hss) as (v & Hv & Hvl).
  { split; apply inj_le; lia. }
  exists st, v. unfold upts. rewrite E. repeat split; auto.
  - rewrite Hu, Hvl. reflexivity.
  - unfold particle_u. destruct rv; rewrite Hu, Hvl; reflexivity.
Qed.

(** the interpolation a fraction of a step ahead is u + f dU *)
Lemma fractional_general raw D hs n f :
  nodupb (map fstep raw) = true -> readable raw D = true -> covers raw n = true -> 0 <= n ->
  (0 <= f <= 1)%Q ->
  exists st v, state_at (mk_tables raw) D hs n = Some st /\
    lerp_spec (upts raw D) (inject_Z n + f) = Some v /\ (v == u st + f * dU st)%Q.
Proof.
  intros Hnd Hrd Hcov Hn Hf01.
  destruct (state_at_bracket raw D hs n Hnd Hrd Hcov Hn) as (st & pre & a & b & post & Hs & E & Hss & Hf).
  destruct Hf as (Hab & Hu & Hd & _).
  destruct (SS_decomp _ _ _ _ Hss) as (Hltab & _).
  destruct (lerp_spec_at (uval raw D) pre a b post (inject_Z n + f)%Q Hss) as (v & Hv & Hvl).
  { assert (H1 : (inject_Z a <= inject_Z n)%Q) by (apply inj_le; lia).
    assert (H2 : (inject_Z (n + 1) <= inject_Z b)%Q) by (apply inj_le; lia).
    rewrite inject_Z_plus in H2. change (inject_Z 1) with 1%Q in H2. split; lra. }
  exists st, v. unfold upts. rewrite E. repeat split; auto.
  rewrite Hvl. symmetry. apply lerp_frac; auto. apply inj_lt; exact Hltab.
Qed.

Lemma velocity_frac_big rv st f : (1 # 1000 <= f)%Q ->
  velocity_frac rv st f = if rv then (- (u st + f * dU st))%Q else (u st + f * dU st)%Q.
Proof.
  intros H. unfold velocity_frac. replace (Qlt_bool f (1 # 1000)) with false; auto.
  symmetry. apply Qlt_bool_false. exact H.
Qed.
Lemma velocity_frac_small rv st f : (f < 1 # 1000)%Q ->
  velocity_frac rv st f = if rv then (- u st)%Q else u st.
Proof.
  intros H. unfold velocity_frac. replace (Qlt_bool f (1 # 1000)) with true; auto.
  symmetry. apply Qlt_bool_true. exact H.
Qed.

(** T2 *)
Lemma fractional_velocity raw D hs rv n f :
  nodupb (map fstep raw) = true -> readable raw D = true -> covers raw n = true -> 0 <= n ->
  (f == 0 \/ 1 # 1000 <= f)%Q -> (f <= 1)%Q ->
  exists st v, state_at (mk_tables raw) D hs n = Some st /\
    lerp_spec (upts raw D) (inject_Z n + f) = Some v /\
    (velocity_frac rv st f == if rv then - v else v)%Q.
Proof.
  intros Hnd Hrd Hcov Hn Hf Hf1.
  destruct (fractional_general raw D hs n f Hnd Hrd Hcov Hn) as (st & v & Hs & Hv & Hvu).
  { destruct Hf as [Hf|Hf]; split; lra. }
  exists st, v. repeat split; auto.
  destruct Hf as [Hf|Hf].
  - rewrite velocity_frac_small by lra. rewrite Hf in Hvu. destruct rv; rewrite Hvu; ring.
  - rewrite velocity_frac_big by exact Hf. destruct rv; rewrite Hvu; reflexivity.
Qed.

(** T2, the branch [fractional_step < 0.001] of the code: the field at the step itself is returned;
    it differs from the interpolation at n + f by exactly f * dU *)
Lemma fractional_small raw D hs rv n f :
  nodupb (map fstep raw) = true -> readable raw D = true -> covers raw n = true -> 0 <= n ->
  (0 <= f)%Q -> (f < 1 # 1000)%Q ->
  exists st v0 vf, state_at (mk_tables raw) D hs n = Some st /\
    lerp_spec (upts raw D) (inject_Z n) = Some v0 /\
    lerp_spec (upts raw D) (inject_Z n + f) = Some vf /\
    (velocity_frac rv st f == if rv then - v0 else v0)%Q /\
    (vf - v0 == f * dU st)%Q.
Proof.
  intros Hnd Hrd Hcov Hn Hf0 Hf1.
  destruct (fractional_general raw D hs n f Hnd Hrd Hcov Hn) as (st & vf & Hs & Hv & Hvu); [lra|].
  destruct (forcing_refines_lerp raw D hs rv n Hnd Hrd Hcov Hn) as (st' & v0 & Hs' & Hv0 & Hu0 & _).
  rewrite Hs in Hs'. injection Hs' as <-.
  exists st, v0, vf. repeat split; auto.
  - rewrite velocity_frac_small by exact Hf1. destruct rv; rewrite Hu0; reflexivity.
  - rewrite Hvu, Hu0. ring.
Qed.

(** T3 *)
Lemma scalar_latest raw D n :
  nodupb (map fstep raw) = true -> readable raw D = true -> covers raw n = true -> 0 <= n ->
  exists st v, state_at (mk_tables raw) D true n = Some st /\
    latest_spec (spts raw D) n = Some v /\ (scal st == v)%Q.
Proof.
  intros Hnd Hrd Hcov Hn.
  destruct (state_at_bracket raw D true n Hnd Hrd Hcov Hn) as (st & pre & a & b & post & Hs & E & Hss & Hf).
  destruct Hf as (Hab & _ & _ & _ & _ & Hsc & _).
  exists st, (sval raw D a). unfold spts. rewrite E. repeat split; auto.
  apply latest_spec_at; auto.
Qed.

(** T4 *)
Lemma reads_from_right_file raw D hs n :
  nodupb (map fstep raw) = true -> readable raw D = true -> covers raw n = true -> 0 <= n ->
  exists st pre a b post, state_at (mk_tables raw) D hs n = Some st /\
    steps (mk_tables raw) = pre ++ a :: b :: post /\ a <= n < b /\
    open_file st = Some (file_of raw b) /\ log_ok raw (rlog st).
Proof.
  intros Hnd Hrd Hcov Hn.
  destruct (state_at_bracket raw D hs n Hnd Hrd Hcov Hn) as (st & pre & a & b & post & Hs & E & Hss & Hf).
  destruct Hf as (Hab & _ & _ & _ & Hop & _ & Hlog).
  exists st, pre, a, b, post. repeat split; auto; lia.
Qed.

(** * Physical layouts (files of records with times) satisfy the hypotheses *)
From Ladim Require Import Proofs.TimeProofs.

Lemma NoDup_nodupb l : NoDup l -> nodupb l = true.
Proof.
  induction 1 as [|x l Hn Hd IH]; cbn; auto.
  rewrite memb_false by exact Hn. exact IH.
Qed.
Lemma NoDup_map_inj_on {A B} (f : A -> B) l :
  (forall x y, In x l -> In y l -> f x = f y -> x = y) -> NoDup l -> NoDup (map f l).
Proof.
  induction l as [|a l IH]; intros Hinj Hn; cbn; [constructor|].
  inversion Hn as [|? ? Hna Hnl]; subst. constructor.
  - intro Hin. apply in_map_iff in Hin as (y & Hy & Hyl).
    assert (y = a) by (apply Hinj; cbn; auto). subst. contradiction.
  - apply IH; auto. intros x y Hx Hy. apply Hinj; cbn; auto.
Qed.

Lemma scan_file_steps t k recs : forall i,
  map fstep (scan_file t k i recs) = map (fun r : record => time2step t (fst (fst r))) recs.
Proof.
  induction recs as [|[[time x] y] recs IH]; intros i; cbn; auto. rewrite IH. reflexivity.
Qed.
Lemma scan_files_steps t files : forall k,
  map fstep (scan_files t k files) = map (time2step t) (layout_times files).
Proof.
  unfold layout_times.
  induction files as [|f files IH]; intros k; cbn; auto.
  rewrite !map_app, IH, scan_file_steps, !map_map. reflexivity.
Qed.

Lemma layout_nodup t files : 0 < dt t -> on_grid t files = true -> nodupb (layout_times files) = true ->
  nodupb (map fstep (scan t files)) = true.
Proof.
  intros Hdt Hg Hn. apply NoDup_nodupb. unfold scan. rewrite scan_files_steps.
  apply nodupb_NoDup in Hn. unfold on_grid in Hg. rewrite forallb_forall in Hg.
  apply NoDup_map_inj_on; auto.
  intros x y Hx Hy E.
  rewrite <- (step2time_time2step t x Hdt) by (apply Z.eqb_eq; auto).
  rewrite <- (step2time_time2step t y Hdt) by (apply Z.eqb_eq; auto).
  rewrite E. reflexivity.
Qed.

Lemma nth_opt_mid {A} (pre : list A) x r : nth_opt (pre ++ x :: r) (length pre) = Some x.
Proof. induction pre; cbn; auto. Qed.
Lemma znth_opt_mid {A} (pre : list A) x r : znth_opt (pre ++ x :: r) (Z.of_nat (length pre)) = Some x.
Proof.
  unfold znth_opt. replace (Z.of_nat (length pre) <? 0) with false by (symmetry; apply Z.ltb_ge; lia).
  rewrite Nat2Z.id. apply nth_opt_mid.
Qed.

Lemma scan_file_readable t files k file : znth_opt files k = Some file ->
  forall recs pre, file = pre ++ recs ->
  readable (scan_file t k (Z.of_nat (length pre)) recs) (disk_of files) = true.
Proof.
  intros Hk. induction recs as [|[[time x] y] recs IH]; intros pre E; [reflexivity|].
  cbn [scan_file]. unfold readable. cbn [forallb ffile fidx].
  unfold disk_of at 1. rewrite Hk, E, znth_opt_mid. cbn [andb].
  replace (Z.of_nat (length pre) + 1) with (Z.of_nat (length (pre ++ [(time, x, y)])))
    by (rewrite app_length; cbn [length]; lia).
  apply IH. rewrite <- app_assoc. exact E.
Qed.
Lemma scan_files_readable t all : forall files pre, all = pre ++ files ->
  readable (scan_files t (Z.of_nat (length pre)) files) (disk_of all) = true.
Proof.
  induction files as [|f files IH]; intros pre E; [reflexivity|].
  cbn [scan_files]. unfold readable. rewrite forallb_app. apply andb_true_intro. split.
  - apply (scan_file_readable t all _ f) with (pre := []); auto.
    rewrite E. apply znth_opt_mid.
  - replace (Z.of_nat (length pre) + 1) with (Z.of_nat (length (pre ++ [f])))
      by (rewrite app_length; cbn [length]; lia).
    apply IH. rewrite <- app_assoc. exact E.
Qed.
Lemma layout_readable t files : readable (scan t files) (disk_of files) = true.
Proof. apply (scan_files_readable t files files []). reflexivity. Qed.
