(** Floating-point level of C02: the binary64 behaviour of the interpolation kernel [ladim.ROMS.trilinear].

    Model: Model/TrilinearFloat.v ([trilinear_f], [frac_f], [float_of_bits]) over Coq's primitive floats.
    Notation: [FR x] is the real value [B2R (Prim2B x)] of a primitive float, [fin x] says it is finite,
    [rnd] is rounding to nearest even in binary64 ([FLT_exp (-1074) 53]),
    [u64 = 2^-53] (unit roundoff u), [eta = 2^-1075] (half the smallest subnormal).

    What is proved (no hypothesis left open, underflow INCLUDED):

    (T1) [trilinear_f_is_IEEE]: [Prim2B (trilinear_f ...)] is the same expression written with Flocq's
         [Bmult]/[Bplus]/[Bminus] in [mode_NE] on [Prim2B] of the inputs ([trilinear_B]).
    (T2) [trilinear_f_error]: for finite inputs with 0 <= a, p, q <= 1 and the eight node values bounded by
         M <= 2^1000 in absolute value, the result is finite and
             | FR result - E | <= delta M = 11 * u64 * M + 7 * eta,
         E = [trilinear_R] = the exact convex combination (weights built from FR a, FR p, FR q in exact real
         arithmetic; [trilinear_R_eight] spells it as eight products weight * value).
         c1 = 11, c2 = 7 (first-order count: 10 roundings on the longest path, 6 possible underflows).
         Ingredients: every product rounds with |rnd x - x| <= u |x| + eta ([rnd_err], from [error_N_FLT]),
         every sum/difference of floats with |rnd (x+y) - (x+y)| <= u |x+y| ([rnd_add_err], from
         [FLT_plus_error_N_ex]: no underflow error in additions); no overflow because every intermediate is
         below 2^1007 ([trilinear_f_rounded]).
    (T3) [trilinear_f_between] / [trilinear_f_within_min_max]: the float result lies in
         [min of the eight values - delta M, max of the eight values + delta M].
    (T4) [frac_f_exact]: for finite 0 <= x < 2^52 and an integer i with i <= x < i + 1,
         FR (frac_f x i) = FR x - i EXACTLY, and it lies in [0, 1)  (Sterbenz).
         [in_cell_spec] ties the checker's side condition [in_cell x i = true] to i <= x < i + 1.
    (T5) [float_of_bits_correct]: [Prim2B (float_of_bits z) = B2BSN (b64_of_bits z)] for 0 <= z < 2^64
         (Flocq's decoder of IEEE-754 bit patterns, NaN payload dropped), and
         [bits_of_float_of_bits]: [bits_of_float (float_of_bits z) = z] for every non-NaN pattern.
    Composite: [kernel_f_error_checked]: all hypotheses as ONE computable boolean ([kernel_ok], the same side
    conditions Corr/C02F.v checks on every case) => error bound and min/max clause for
    [trilinear_f a (frac_f X i) (frac_f Y j) ...] against the exact combination at p = X - i, q = Y - j.

    Axioms: only those of the standard library -- the classical reals (incl. [classic],
    functional extensionality as used by Flocq/Reals) and [FloatAxioms] (the specification of the primitive
    float operations in terms of [SpecFloat]); see the [Print Assumptions] output at the end. *)
From Coq Require Import ZArith Reals Floats Lra Lia Psatz Bool.
From Flocq Require Import Core BinarySingleNaN Relative Plus_error Sterbenz.
From Flocq Require IEEE754.PrimFloat IEEE754.Binary IEEE754.Bits.
From Ladim Require Import Model.TrilinearFloat.
Import Flocq.IEEE754.PrimFloat.
Open Scope R_scope.

#[local] Existing Instance Hprec.
#[local] Existing Instance Hmax.
Notation bf := (binary_float prec emax).
Notation pfloat := Coq.Floats.PrimFloat.float.
Definition fexp64 := FLT_exp (-1074) 53.
Definition rnd (x : R) : R := round radix2 fexp64 ZnearestE x.
Definition fmt (x : R) : Prop := generic_format radix2 fexp64 x.
Definition FR (x : pfloat) : R := B2R (Prim2B x).
Definition fin (x : pfloat) : Prop := is_finite (Prim2B x) = true.

Lemma Prim2B_one : Prim2B 1%float = Bone.
Proof. rewrite <- (Prim2B_B2Prim Bone). exact (f_equal Prim2B one_equiv). Qed.

(* T1 *)
Definition Bm (x y : bf) : bf := Bmult mode_NE x y.
Definition Bp (x y : bf) : bf := Bplus mode_NE x y.
Definition Bs (x y : bf) : bf := Bminus mode_NE x y.
Definition lerp_B (a d u : bf) : bf := Bp (Bm a d) (Bm (Bs Bone a) u).
Definition bilin_B (p q f00 f01 f10 f11 : bf) : bf :=
  Bp (Bp (Bp (Bm (Bm (Bs Bone p) (Bs Bone q)) f00) (Bm (Bm p (Bs Bone q)) f10))
         (Bm (Bm (Bs Bone p) q) f01))
     (Bm (Bm p q) f11).
Definition trilinear_B (a p q d00 u00 d01 u01 d10 u10 d11 u11 : bf) : bf :=
  bilin_B p q (lerp_B a d00 u00) (lerp_B a d01 u01) (lerp_B a d10 u10) (lerp_B a d11 u11).

Theorem trilinear_f_is_IEEE : forall a p q d00 u00 d01 u01 d10 u10 d11 u11,
  Prim2B (trilinear_f a p q d00 u00 d01 u01 d10 u10 d11 u11) =
  trilinear_B (Prim2B a) (Prim2B p) (Prim2B q) (Prim2B d00) (Prim2B u00) (Prim2B d01) (Prim2B u01)
              (Prim2B d10) (Prim2B u10) (Prim2B d11) (Prim2B u11).
Proof.
  intros. unfold trilinear_f, bilin_f, lerp_f, trilinear_B, bilin_B, lerp_B, Bm, Bp, Bs.
  repeat (rewrite ?add_equiv, ?mul_equiv, ?sub_equiv, ?Prim2B_one). reflexivity.
Qed.
Print Assumptions trilinear_f_is_IEEE.

(* ---- basic facts about rnd ---- *)
#[local] Instance fexp64_valid : Valid_exp fexp64.
Proof. unfold fexp64. apply FLT_exp_valid. reflexivity. Qed.
Lemma fexp64_eq : fexp prec emax = fexp64. Proof. reflexivity. Qed.

Lemma fmt_FR : forall x, fmt (FR x).
Proof. intros x. unfold fmt, FR. rewrite <- fexp64_eq. apply generic_format_B2R. Qed.
Lemma fmt_rnd : forall x, fmt (rnd x).
Proof. intros. apply generic_format_round; auto with typeclass_instances. Qed.
Lemma fmt_bpow : forall k, (-1074 <= k)%Z -> fmt (bpow radix2 k).
Proof. intros. apply generic_format_bpow. unfold fexp64, FLT_exp. lia. Qed.
Lemma fmt_1 : fmt 1.
Proof. change 1 with (bpow radix2 0). apply fmt_bpow. lia. Qed.
Lemma rnd_id : forall x, fmt x -> rnd x = x.
Proof. intros. apply round_generic; auto with typeclass_instances. Qed.
Lemma rnd_le : forall x y, x <= y -> rnd x <= rnd y.
Proof. intros. apply round_le; auto with typeclass_instances. Qed.
Lemma rnd_0 : rnd 0 = 0.
Proof. apply round_0. auto with typeclass_instances. Qed.
Lemma rnd_abs_le : forall x y, fmt y -> Rabs x <= y -> Rabs (rnd x) <= y.
Proof. intros. apply abs_round_le_generic; auto with typeclass_instances. Qed.

(* ---- single operations ---- *)
Definition fb (x : pfloat) (k : Z) : Prop := fin x /\ Rabs (FR x) <= bpow radix2 k.

Lemma no_ovf : forall x k, (-1074 <= k < 1024)%Z -> Rabs x <= bpow radix2 k ->
  Rabs (rnd x) <= bpow radix2 k /\
  Rlt_bool (Rabs (round radix2 (fexp prec emax) (round_mode mode_NE) x)) (bpow radix2 emax) = true.
Proof.
  intros x k Hk Hx.
  assert (H : Rabs (rnd x) <= bpow radix2 k) by (apply rnd_abs_le; [apply fmt_bpow; lia | exact Hx]).
  split; [exact H|]. apply Rlt_bool_true. change (Rabs (rnd x) < bpow radix2 1024).
  eapply Rle_lt_trans; [exact H|]. apply bpow_lt. lia.
Qed.

Lemma mul_fb : forall x y kx ky, fb x kx -> fb y ky -> (-1074 <= kx + ky < 1024)%Z ->
  fb (x * y)%float (kx + ky) /\ FR (x * y)%float = rnd (FR x * FR y).
Proof.
  intros x y kx ky [Fx Bx] [Fy By] Hk. unfold fb, fin, FR in *. rewrite mul_equiv.
  assert (Hxy : Rabs (B2R (Prim2B x) * B2R (Prim2B y)) <= bpow radix2 (kx + ky)).
  { rewrite Rabs_mult, bpow_plus. apply Rmult_le_compat; auto using Rabs_pos. }
  destruct (no_ovf _ _ Hk Hxy) as [Hb Ho].
  generalize (Bmult_correct prec emax Hprec Hmax mode_NE (Prim2B x) (Prim2B y)). rewrite Ho.
  intros [H1 [H2 _]]. rewrite H1, H2, Fx, Fy. repeat split; auto.
Qed.

Lemma add_fb : forall x y kx ky, fb x kx -> fb y ky -> (-1074 <= Z.max kx ky + 1 < 1024)%Z ->
  fb (x + y)%float (Z.max kx ky + 1) /\ FR (x + y)%float = rnd (FR x + FR y).
Proof.
  intros x y kx ky [Fx Bx] [Fy By] Hk. unfold fb, fin, FR in *. rewrite add_equiv.
  assert (Hxy : Rabs (B2R (Prim2B x) + B2R (Prim2B y)) <= bpow radix2 (Z.max kx ky + 1)).
  { eapply Rle_trans; [apply Rabs_triang|]. rewrite bpow_plus. change (bpow radix2 1) with 2.
    assert (bpow radix2 kx <= bpow radix2 (Z.max kx ky)) by (apply bpow_le; lia).
    assert (bpow radix2 ky <= bpow radix2 (Z.max kx ky)) by (apply bpow_le; lia). lra. }
  destruct (no_ovf _ _ Hk Hxy) as [Hb Ho].
  generalize (Bplus_correct prec emax Hprec Hmax mode_NE (Prim2B x) (Prim2B y) Fx Fy). rewrite Ho.
  intros [H1 [H2 _]]. rewrite H1, H2. repeat split; auto.
Qed.

Lemma sub_fb : forall x y kx ky, fb x kx -> fb y ky -> (-1074 <= Z.max kx ky + 1 < 1024)%Z ->
  fb (x - y)%float (Z.max kx ky + 1) /\ FR (x - y)%float = rnd (FR x - FR y).
Proof.
  intros x y kx ky [Fx Bx] [Fy By] Hk. unfold fb, fin, FR in *. rewrite sub_equiv.
  assert (Hxy : Rabs (B2R (Prim2B x) - B2R (Prim2B y)) <= bpow radix2 (Z.max kx ky + 1)).
  { unfold Rminus. eapply Rle_trans; [apply Rabs_triang|]. rewrite Rabs_Ropp. rewrite bpow_plus. change (bpow radix2 1) with 2.
    assert (bpow radix2 kx <= bpow radix2 (Z.max kx ky)) by (apply bpow_le; lia).
    assert (bpow radix2 ky <= bpow radix2 (Z.max kx ky)) by (apply bpow_le; lia). lra. }
  destruct (no_ovf _ _ Hk Hxy) as [Hb Ho].
  generalize (Bminus_correct prec emax Hprec Hmax mode_NE (Prim2B x) (Prim2B y) Fx Fy). rewrite Ho.
  intros [H1 [H2 _]]. rewrite H1, H2. repeat split; auto.
Qed.

Lemma fb_one : fb 1%float 0 /\ FR 1%float = 1.
Proof. unfold fb, fin, FR. rewrite Prim2B_one, Bone_correct, is_finite_Bone, Rabs_R1. simpl. repeat split; lra. Qed.

(* ---- the rounded real computation ---- *)
Definition lerp_r (a d u : R) : R := rnd (rnd (a * d) + rnd (rnd (1 - a) * u)).
Definition bilin_r (p q f00 f01 f10 f11 : R) : R :=
  rnd (rnd (rnd (rnd (rnd (rnd (1 - p) * rnd (1 - q)) * f00) + rnd (rnd (p * rnd (1 - q)) * f10))
            + rnd (rnd (rnd (1 - p) * q) * f01))
       + rnd (rnd (p * q) * f11)).
Definition trilinear_r (a p q d00 u00 d01 u01 d10 u10 d11 u11 : R) : R :=
  bilin_r p q (lerp_r a d00 u00) (lerp_r a d01 u01) (lerp_r a d10 u10) (lerp_r a d11 u11).

Lemma lerp_fb : forall a d u, fb a 0 -> fb d 1000 -> fb u 1000 ->
  fb (lerp_f a d u) 1002 /\ FR (lerp_f a d u) = lerp_r (FR a) (FR d) (FR u).
Proof.
  intros a d u Ha Hd Hu. unfold lerp_f, lerp_r.
  destruct fb_one as [H1 E1].
  destruct (sub_fb 1 a 0 0 H1 Ha) as [Hs Es]; [simpl; lia|]. simpl in Hs.
  destruct (mul_fb a d 0 1000 Ha Hd) as [Hm1 Em1]; [lia|]. simpl in Hm1.
  destruct (mul_fb _ u 1 1000 Hs Hu) as [Hm2 Em2]; [lia|]. simpl in Hm2.
  destruct (add_fb _ _ _ _ Hm1 Hm2) as [Hp Ep]; [simpl; lia|]. simpl in Hp.
  split; [exact Hp|]. rewrite Ep, Em1, Em2, Es, E1. reflexivity.
Qed.

Lemma bilin_fb : forall p q f00 f01 f10 f11, fb p 0 -> fb q 0 ->
  fb f00 1002 -> fb f01 1002 -> fb f10 1002 -> fb f11 1002 ->
  fb (bilin_f p q f00 f01 f10 f11) 1007 /\
  FR (bilin_f p q f00 f01 f10 f11) = bilin_r (FR p) (FR q) (FR f00) (FR f01) (FR f10) (FR f11).
Proof.
  intros p q f00 f01 f10 f11 Hp Hq H00 H01 H10 H11. unfold bilin_f, bilin_r.
  destruct fb_one as [H1 E1].
  destruct (sub_fb 1 p 0 0 H1 Hp) as [Hsp Esp]; [simpl; lia|]. simpl in Hsp.
  destruct (sub_fb 1 q 0 0 H1 Hq) as [Hsq Esq]; [simpl; lia|]. simpl in Hsq.
  destruct (mul_fb _ _ _ _ Hsp Hsq) as [Hw00 Ew00]; [lia|]. simpl in Hw00.
  destruct (mul_fb _ _ _ _ Hp Hsq) as [Hw10 Ew10]; [lia|]. simpl in Hw10.
  destruct (mul_fb _ _ _ _ Hsp Hq) as [Hw01 Ew01]; [lia|]. simpl in Hw01.
  destruct (mul_fb _ _ _ _ Hp Hq) as [Hw11 Ew11]; [lia|]. simpl in Hw11.
  destruct (mul_fb _ _ _ _ Hw00 H00) as [Ht00 Et00]; [lia|]. simpl in Ht00.
  destruct (mul_fb _ _ _ _ Hw10 H10) as [Ht10 Et10]; [lia|]. simpl in Ht10.
  destruct (mul_fb _ _ _ _ Hw01 H01) as [Ht01 Et01]; [lia|]. simpl in Ht01.
  destruct (mul_fb _ _ _ _ Hw11 H11) as [Ht11 Et11]; [lia|]. simpl in Ht11.
  destruct (add_fb _ _ _ _ Ht00 Ht10) as [Hs1 Es1]; [simpl; lia|]. simpl in Hs1.
  destruct (add_fb _ _ _ _ Hs1 Ht01) as [Hs2 Es2]; [simpl; lia|]. simpl in Hs2.
  destruct (add_fb _ _ _ _ Hs2 Ht11) as [Hs3 Es3]; [simpl; lia|]. simpl in Hs3.
  split; [exact Hs3|].
  rewrite Es3, Es2, Es1, Et00, Et10, Et01, Et11, Ew00, Ew10, Ew01, Ew11, Esp, Esq, E1. reflexivity.
Qed.

Theorem trilinear_f_rounded : forall a p q d00 u00 d01 u01 d10 u10 d11 u11,
  fb a 0 -> fb p 0 -> fb q 0 ->
  fb d00 1000 -> fb u00 1000 -> fb d01 1000 -> fb u01 1000 ->
  fb d10 1000 -> fb u10 1000 -> fb d11 1000 -> fb u11 1000 ->
  fin (trilinear_f a p q d00 u00 d01 u01 d10 u10 d11 u11) /\
  FR (trilinear_f a p q d00 u00 d01 u01 d10 u10 d11 u11) =
  trilinear_r (FR a) (FR p) (FR q) (FR d00) (FR u00) (FR d01) (FR u01) (FR d10) (FR u10) (FR d11) (FR u11).
Proof.
  intros. unfold trilinear_f, trilinear_r.
  destruct (lerp_fb a d00 u00) as [F00 E00]; auto.
  destruct (lerp_fb a d01 u01) as [F01 E01]; auto.
  destruct (lerp_fb a d10 u10) as [F10 E10]; auto.
  destruct (lerp_fb a d11 u11) as [F11 E11]; auto.
  destruct (bilin_fb p q _ _ _ _ H0 H1 F00 F01 F10 F11) as [[Fr _] Er].
  split; [exact Fr|]. rewrite Er, E00, E01, E10, E11. reflexivity.
Qed.

(** * Error analysis on the rounded real computation *)
#[local] Instance prec53 : Prec_gt_0 53 := eq_refl.
Definition u64 : R := bpow radix2 (-53).
Definition eta : R := bpow radix2 (-1075).
Lemma u_pos : 0 < u64. Proof. apply bpow_gt_0. Qed.
Lemma eta_pos : 0 < eta. Proof. apply bpow_gt_0. Qed.

Lemma rnd_err : forall x, Rabs (rnd x - x) <= u64 * Rabs x + eta.
Proof.
  intros x. destruct (error_N_FLT radix2 (-1074) 53 ltac:(lia) (fun z => negb (Z.even z)) x)
    as (eps & h & He & Hh & _ & E).
  change (round radix2 (FLT_exp (-1074) 53) (Znearest (fun z => negb (Z.even z))) x) with (rnd x) in E.
  rewrite E. replace (x * (1 + eps) + h - x) with (x * eps + h) by ring.
  eapply Rle_trans; [apply Rabs_triang|]. rewrite Rabs_mult.
  change (- (53) + 1)%Z with (-52)%Z in He.
  assert (U : / 2 * bpow radix2 (-52) = u64).
  { unfold u64. change (-52)%Z with (1 + -53)%Z. rewrite bpow_plus. change (bpow radix2 1) with 2. field. }
  assert (V : / 2 * bpow radix2 (-1074) = eta).
  { unfold eta. change (-1074)%Z with (1 + -1075)%Z. rewrite bpow_plus. change (bpow radix2 1) with 2. field. }
  rewrite U in He. rewrite V in Hh.
  assert (0 <= Rabs x) by apply Rabs_pos. nra.
Qed.

Lemma rnd_add_err : forall x y, fmt x -> fmt y -> Rabs (rnd (x + y) - (x + y)) <= u64 * Rabs (x + y).
Proof.
  intros x y Fx Fy.
  destruct (FLT_plus_error_N_ex radix2 (-1074) 53 (fun z => negb (Z.even z)) x y Fx Fy) as (eps & He & E).
  change (round radix2 (FLT_exp (-1074) 53) (Znearest (fun z => negb (Z.even z))) (x + y)) with (rnd (x + y)) in E.
  rewrite E. replace ((x + y) * (1 + eps) - (x + y)) with (eps * (x + y)) by ring.
  rewrite Rabs_mult. apply Rmult_le_compat_r; [apply Rabs_pos|].
  eapply Rle_trans; [exact He|]. eapply Rle_trans; [apply u_rod1pu_ro_le_u_ro|].
  unfold u_ro, u64. change (- (53) + 1)%Z with (1 + -53)%Z. rewrite bpow_plus. change (bpow radix2 1) with 2. right. field.
Qed.

Definition g3 : R := 3 * u64 + 3 * u64 * u64 + u64 * u64 * u64.
Lemma u_lt_1 : u64 < 1.
Proof. unfold u64. change 1 with (bpow radix2 0). apply bpow_lt. lia. Qed.
Lemma g3_pos : 0 < g3. Proof. unfold g3. pose proof u_pos. nra. Qed.

Ltac unabs H := apply Rabs_le_inv in H.

Definition wt (c P : R) : Prop := fmt c /\ 0 <= c <= 1 /\ 0 <= P <= 1 /\ Rabs (c - P) <= u64 * P.

Lemma rnd_1 : rnd 1 = 1. Proof. apply rnd_id, fmt_1. Qed.

Lemma rnd_01 : forall x, 0 <= x <= 1 -> 0 <= rnd x <= 1.
Proof.
  intros x Hx. split.
  - rewrite <- rnd_0. apply rnd_le. lra.
  - apply Rle_trans with (rnd 1); [apply rnd_le; lra | rewrite rnd_1; lra].
Qed.

Lemma wt_self : forall p, fmt p -> 0 <= p <= 1 -> wt p p.
Proof.
  intros p Fp Hp. repeat split; try tauto. replace (p - p) with 0 by ring. rewrite Rabs_R0.
  pose proof u_pos. nra.
Qed.

Lemma fmt_opp : forall x, fmt x -> fmt (- x).
Proof. intros. apply generic_format_opp. assumption. Qed.

Lemma wt_om : forall p, fmt p -> 0 <= p <= 1 -> wt (rnd (1 - p)) (1 - p).
Proof.
  intros p Fp Hp. split; [apply fmt_rnd|]. split.
  { apply rnd_01. lra. }
  split; [lra|].
  pose proof (rnd_add_err 1 (- p) fmt_1 (fmt_opp _ Fp)) as H.
  change (1 + - p) with (1 - p) in H. rewrite (Rabs_pos_eq (1 - p)) in H by lra. exact H.
Qed.

Lemma wprod : forall cp P cq Q, wt cp P -> wt cq Q ->
  fmt (rnd (cp * cq)) /\ 0 <= rnd (cp * cq) <= 1 /\ Rabs (rnd (cp * cq) - P * Q) <= g3 * (P * Q) + eta.
Proof.
  intros cp P cq Q (Fp & Hcp & HP & Ep) (Fq & Hcq & HQ & Eq).
  split; [apply fmt_rnd|]. split.
  { apply rnd_01. nra. }
  pose proof (rnd_err (cp * cq)) as E0. rewrite (Rabs_pos_eq (cp * cq)) in E0 by nra.
  pose proof u_pos as Hu. pose proof eta_pos as He.
  unabs Ep. unabs Eq. unabs E0. apply Rabs_le.
  set (w := rnd (cp * cq)) in *.
  set (ep := cp - P) in *. set (eq := cq - Q) in *. set (e0 := w - cp * cq) in *.
  replace (w - P * Q) with (e0 + ep * cq + P * eq) by (unfold e0, ep, eq; ring).
  assert (Bq : cq <= Q * (1 + u64)) by (unfold eq in Eq; lra).
  assert (Bp : cp <= P * (1 + u64)) by (unfold ep in Ep; lra).
  assert (Bpq : cp * cq <= P * Q * ((1 + u64) * (1 + u64))) by nra.
  assert (B1 : - (u64 * P * (Q * (1 + u64))) <= ep * cq <= u64 * P * (Q * (1 + u64))) by nra.
  assert (B2 : - (P * (u64 * Q)) <= P * eq <= P * (u64 * Q)) by nra.
  assert (B0 : - (u64 * (P * Q * ((1 + u64) * (1 + u64))) + eta) <= e0 <= u64 * (P * Q * ((1 + u64) * (1 + u64))) + eta) by nra.
  unfold g3. nra.
Qed.

Lemma lerp_err : forall a d v M, fmt a -> 0 <= a <= 1 -> Rabs d <= M -> Rabs v <= M ->
  Rabs (lerp_r a d v - (a * d + (1 - a) * v)) <= g3 * M + 2 * (1 + u64) * eta.
Proof.
  intros a d v M Fa Ha Hd Hv. unfold lerp_r.
  destruct (wt_om a Fa Ha) as (Fo & Ho & _ & Eo).
  set (oma := rnd (1 - a)) in *.
  pose proof u_pos as Hu. pose proof eta_pos as He.
  assert (HM : 0 <= M) by (pose proof (Rabs_pos d); lra).
  pose proof (rnd_err (a * d)) as E1. rewrite Rabs_mult, (Rabs_pos_eq a) in E1 by lra.
  pose proof (rnd_err (oma * v)) as E2. rewrite Rabs_mult, (Rabs_pos_eq oma) in E2 by lra.
  pose proof (rnd_add_err (rnd (a * d)) (rnd (oma * v)) (fmt_rnd _) (fmt_rnd _)) as E4.
  set (x1 := rnd (a * d)) in *. set (x2 := rnd (oma * v)) in *.
  set (f := rnd (x1 + x2)) in *.
  assert (HF : Rabs (a * d + (1 - a) * v) <= M).
  { unabs Hd. unabs Hv. apply Rabs_le. nra. }
  set (F := a * d + (1 - a) * v) in *.
  assert (E3 : Rabs ((oma - (1 - a)) * v) <= u64 * (1 - a) * M).
  { rewrite Rabs_mult. apply Rmult_le_compat; auto using Rabs_pos. }
  assert (E1' : Rabs (x1 - a * d) <= u64 * a * M + eta).
  { eapply Rle_trans; [exact E1|]. pose proof (Rabs_pos d). assert (0 <= u64 * a) by nra. nra. }
  assert (E2' : Rabs (x2 - oma * v) <= u64 * oma * M + eta).
  { eapply Rle_trans; [exact E2|]. pose proof (Rabs_pos v). assert (0 <= u64 * oma) by nra. nra. }
  assert (Bo : oma <= (1 - a) * (1 + u64)) by (unabs Eo; lra).
  assert (ES : Rabs (x1 + x2 - F) <= u64 * M * (2 + u64) + 2 * eta).
  { replace (x1 + x2 - F) with ((x1 - a * d) + (x2 - oma * v) + (oma - (1 - a)) * v) by (unfold F; ring).
    eapply Rle_trans; [apply Rabs_triang|]. eapply Rle_trans; [apply Rplus_le_compat_r, Rabs_triang|].
    assert (0 <= u64 * M) by nra. assert (u64 * oma * M <= u64 * M * 1) by nra. assert (0 <= u64 * M * u64) by nra. lra. }
  assert (BS : Rabs (x1 + x2) <= M + (u64 * M * (2 + u64) + 2 * eta)).
  { replace (x1 + x2) with (F + (x1 + x2 - F)) by ring. eapply Rle_trans; [apply Rabs_triang|]. lra. }
  replace (f - F) with ((f - (x1 + x2)) + (x1 + x2 - F)) by ring.
  eapply Rle_trans; [apply Rabs_triang|]. unfold g3. nra.
Qed.

Lemma corner : forall w W f F M dl, 0 <= w -> 0 <= W ->
  Rabs (w - W) <= g3 * W + eta -> Rabs (f - F) <= dl -> Rabs F <= M ->
  Rabs (rnd (w * f) - W * F) <=
    W * (u64 * (1 + g3) * (M + dl) + g3 * (M + dl) + dl) + eta * (1 + (1 + u64) * (M + dl)).
Proof.
  intros w W f F M dl Hw HW Ew Ef HF.
  pose proof u_pos as Hu. pose proof eta_pos as He. pose proof g3_pos as Hg.
  assert (Hdl : 0 <= dl) by (pose proof (Rabs_pos (f - F)); lra).
  assert (HM : 0 <= M) by (pose proof (Rabs_pos F); lra).
  assert (Bf : Rabs f <= M + dl).
  { replace f with (F + (f - F)) by ring. eapply Rle_trans; [apply Rabs_triang|]. lra. }
  pose proof (rnd_err (w * f)) as E0. rewrite Rabs_mult, (Rabs_pos_eq w) in E0 by lra.
  assert (Bw : w <= W * (1 + g3) + eta) by (unabs Ew; lra).
  set (Mf := M + dl) in *.
  assert (E0' : Rabs (rnd (w * f) - w * f) <= u64 * ((W * (1 + g3) + eta) * Mf) + eta).
  { eapply Rle_trans; [exact E0|]. pose proof (Rabs_pos f).
    assert (w * Rabs f <= (W * (1 + g3) + eta) * Mf) by (apply Rmult_le_compat; lra). nra. }
  assert (E1 : Rabs ((w - W) * f) <= (g3 * W + eta) * Mf).
  { rewrite Rabs_mult. apply Rmult_le_compat; auto using Rabs_pos. }
  assert (E2 : Rabs (W * (f - F)) <= W * dl).
  { rewrite Rabs_mult, (Rabs_pos_eq W) by lra. apply Rmult_le_compat_l; lra. }
  replace (rnd (w * f) - W * F) with ((rnd (w * f) - w * f) + (w - W) * f + W * (f - F)) by ring.
  eapply Rle_trans; [apply Rabs_triang|]. eapply Rle_trans; [apply Rplus_le_compat_r, Rabs_triang|].
  nra.
Qed.

Lemma sum4 : forall t1 t2 t3 t4, fmt t1 -> fmt t2 -> fmt t3 -> fmt t4 ->
  Rabs (rnd (rnd (rnd (t1 + t2) + t3) + t4) - (t1 + t2 + t3 + t4)) <=
  g3 * (Rabs t1 + Rabs t2 + Rabs t3 + Rabs t4).
Proof.
  intros t1 t2 t3 t4 F1 F2 F3 F4.
  pose proof u_pos as Hu.
  pose proof (rnd_add_err t1 t2 F1 F2) as E1. set (s1 := rnd (t1 + t2)) in *.
  pose proof (rnd_add_err s1 t3 (fmt_rnd _) F3) as E2. set (s2 := rnd (s1 + t3)) in *.
  pose proof (rnd_add_err s2 t4 (fmt_rnd _) F4) as E3. set (r := rnd (s2 + t4)) in *.
  pose proof (Rabs_pos t1). pose proof (Rabs_pos t2). pose proof (Rabs_pos t3). pose proof (Rabs_pos t4).
  assert (T12 : Rabs (t1 + t2) <= Rabs t1 + Rabs t2) by apply Rabs_triang.
  assert (B1 : Rabs s1 <= (1 + u64) * (Rabs t1 + Rabs t2)).
  { replace s1 with ((s1 - (t1 + t2)) + (t1 + t2)) by ring. eapply Rle_trans; [apply Rabs_triang|]. nra. }
  assert (T3 : Rabs (s1 + t3) <= (1 + u64) * (Rabs t1 + Rabs t2) + Rabs t3).
  { eapply Rle_trans; [apply Rabs_triang|]. lra. }
  assert (B2 : Rabs s2 <= (1 + u64) * ((1 + u64) * (Rabs t1 + Rabs t2) + Rabs t3)).
  { replace s2 with ((s2 - (s1 + t3)) + (s1 + t3)) by ring. eapply Rle_trans; [apply Rabs_triang|]. nra. }
  assert (T4 : Rabs (s2 + t4) <= (1 + u64) * ((1 + u64) * (Rabs t1 + Rabs t2) + Rabs t3) + Rabs t4).
  { eapply Rle_trans; [apply Rabs_triang|]. lra. }
  replace (r - (t1 + t2 + t3 + t4)) with ((r - (s2 + t4)) + (s2 - (s1 + t3)) + (s1 - (t1 + t2))) by ring.
  eapply Rle_trans; [apply Rabs_triang|]. eapply Rle_trans; [apply Rplus_le_compat_r, Rabs_triang|].
  set (A := Rabs t1 + Rabs t2) in *. set (B := Rabs t3) in *. set (C := Rabs t4) in *.
  assert (X1 : Rabs (s1 - (t1 + t2)) <= u64 * A) by nra.
  assert (X2 : Rabs (s2 - (s1 + t3)) <= u64 * ((1 + u64) * A + B)) by nra.
  assert (X3 : Rabs (r - (s2 + t4)) <= u64 * ((1 + u64) * ((1 + u64) * A + B) + C)) by nra.
  assert (0 <= u64 * B) by nra. assert (0 <= u64 * u64 * B) by nra. assert (0 <= u64 * u64 * u64 * B) by nra.
  assert (0 <= u64 * C) by nra. assert (0 <= u64 * u64 * C) by nra. assert (0 <= u64 * u64 * u64 * C) by nra.
  unfold g3. lra.
Qed.

Definition trilinear_R (a p q d00 u00 d01 u01 d10 u10 d11 u11 : R) : R :=
  (1 - p) * (1 - q) * (a * d00 + (1 - a) * u00) + p * (1 - q) * (a * d10 + (1 - a) * u10)
  + (1 - p) * q * (a * d01 + (1 - a) * u01) + p * q * (a * d11 + (1 - a) * u11).

Definition dl_of (M : R) : R := g3 * M + 2 * (1 + u64) * eta.
Definition al_of (M : R) : R := u64 * (1 + g3) * (M + dl_of M) + g3 * (M + dl_of M) + dl_of M.
Definition be_of (M : R) : R := eta * (1 + (1 + u64) * (M + dl_of M)).
Definition bound_expr (M : R) : R := g3 * (M + al_of M + 4 * be_of M) + al_of M + 4 * be_of M.

(** the same exact value as eight products weight * value *)
Lemma trilinear_R_eight : forall a p q d00 u00 d01 u01 d10 u10 d11 u11,
  trilinear_R a p q d00 u00 d01 u01 d10 u10 d11 u11 =
  (1 - p) * (1 - q) * a * d00 + (1 - p) * (1 - q) * (1 - a) * u00 +
  p * (1 - q) * a * d10 + p * (1 - q) * (1 - a) * u10 +
  (1 - p) * q * a * d01 + (1 - p) * q * (1 - a) * u01 +
  p * q * a * d11 + p * q * (1 - a) * u11.
Proof. intros. unfold trilinear_R. ring. Qed.
(** the eight weights are non-negative and sum to one *)
Lemma weights_sum_one : forall a p q : R,
  (1 - p) * (1 - q) * a + (1 - p) * (1 - q) * (1 - a) + p * (1 - q) * a + p * (1 - q) * (1 - a) +
  (1 - p) * q * a + (1 - p) * q * (1 - a) + p * q * a + p * q * (1 - a) = 1.
Proof. intros. ring. Qed.

Lemma corner_full : forall cp P cq Q a d v M, wt cp P -> wt cq Q -> fmt a -> 0 <= a <= 1 ->
  Rabs d <= M -> Rabs v <= M ->
  fmt (rnd (rnd (cp * cq) * lerp_r a d v)) /\
  Rabs (rnd (rnd (cp * cq) * lerp_r a d v) - P * Q * (a * d + (1 - a) * v)) <= P * Q * al_of M + be_of M /\
  Rabs (rnd (rnd (cp * cq) * lerp_r a d v)) <= P * Q * (M + al_of M) + be_of M.
Proof.
  intros cp P cq Q a d v M Wp Wq Fa Ha Hd Hv.
  destruct (wprod cp P cq Q Wp Wq) as (Fw & Hw & Ew).
  pose proof (lerp_err a d v M Fa Ha Hd Hv) as Ef. fold (dl_of M) in Ef.
  assert (HF : Rabs (a * d + (1 - a) * v) <= M).
  { unabs Hd. unabs Hv. apply Rabs_le. nra. }
  assert (HPQ : 0 <= P * Q) by (destruct Wp as (_ & _ & HP & _), Wq as (_ & _ & HQ & _); nra).
  pose proof (corner (rnd (cp * cq)) (P * Q) (lerp_r a d v) (a * d + (1 - a) * v) M (dl_of M)
                (proj1 Hw) HPQ Ew Ef HF) as C.
  fold (al_of M) in C. fold (be_of M) in C.
  split; [apply fmt_rnd|]. split; [exact C|].
  set (t := rnd (rnd (cp * cq) * lerp_r a d v)) in *. set (F := a * d + (1 - a) * v) in *.
  replace t with ((t - P * Q * F) + P * Q * F) by ring.
  eapply Rle_trans; [apply Rabs_triang|].
  assert (Rabs (P * Q * F) <= P * Q * M).
  { rewrite Rabs_mult, (Rabs_pos_eq (P * Q)) by lra. apply Rmult_le_compat_l; lra. }
  lra.
Qed.

Lemma trilinear_r_err : forall a p q d00 u00 d01 u01 d10 u10 d11 u11 M,
  fmt a -> 0 <= a <= 1 -> fmt p -> 0 <= p <= 1 -> fmt q -> 0 <= q <= 1 ->
  Rabs d00 <= M -> Rabs u00 <= M -> Rabs d01 <= M -> Rabs u01 <= M ->
  Rabs d10 <= M -> Rabs u10 <= M -> Rabs d11 <= M -> Rabs u11 <= M ->
  Rabs (trilinear_r a p q d00 u00 d01 u01 d10 u10 d11 u11 - trilinear_R a p q d00 u00 d01 u01 d10 u10 d11 u11)
  <= bound_expr M.
Proof.
  intros a p q d00 u00 d01 u01 d10 u10 d11 u11 M Fa Ha Fp Hp Fq Hq H00 G00 H01 G01 H10 G10 H11 G11.
  pose proof (wt_self p Fp Hp) as Wp. pose proof (wt_om p Fp Hp) as Wp'.
  pose proof (wt_self q Fq Hq) as Wq. pose proof (wt_om q Fq Hq) as Wq'.
  destruct (corner_full _ _ _ _ a d00 u00 M Wp' Wq' Fa Ha H00 G00) as (F1 & E1 & B1).
  destruct (corner_full _ _ _ _ a d10 u10 M Wp Wq' Fa Ha H10 G10) as (F2 & E2 & B2).
  destruct (corner_full _ _ _ _ a d01 u01 M Wp' Wq Fa Ha H01 G01) as (F3 & E3 & B3).
  destruct (corner_full _ _ _ _ a d11 u11 M Wp Wq Fa Ha H11 G11) as (F4 & E4 & B4).
  unfold trilinear_r, bilin_r, trilinear_R.
  set (t1 := rnd (rnd (rnd (1 - p) * rnd (1 - q)) * lerp_r a d00 u00)) in *.
  set (t2 := rnd (rnd (p * rnd (1 - q)) * lerp_r a d10 u10)) in *.
  set (t3 := rnd (rnd (rnd (1 - p) * q) * lerp_r a d01 u01)) in *.
  set (t4 := rnd (rnd (p * q) * lerp_r a d11 u11)) in *.
  pose proof (sum4 t1 t2 t3 t4 F1 F2 F3 F4) as S.
  set (r := rnd (rnd (rnd (t1 + t2) + t3) + t4)) in *.
  set (al := al_of M) in *. set (be := be_of M) in *.
  pose proof g3_pos as Hg.
  set (X1 := (1 - p) * (1 - q) * (a * d00 + (1 - a) * u00)) in *.
  set (X2 := p * (1 - q) * (a * d10 + (1 - a) * u10)) in *.
  set (X3 := (1 - p) * q * (a * d01 + (1 - a) * u01)) in *.
  set (X4 := p * q * (a * d11 + (1 - a) * u11)) in *.
  replace (r - (X1 + X2 + X3 + X4)) with
    ((r - (t1 + t2 + t3 + t4)) + ((t1 - X1) + (t2 - X2) + (t3 - X3) + (t4 - X4))) by ring.
  eapply Rle_trans; [apply Rabs_triang|].
  assert (T : Rabs ((t1 - X1) + (t2 - X2) + (t3 - X3) + (t4 - X4)) <= al + 4 * be).
  { eapply Rle_trans; [apply Rabs_triang|]. eapply Rle_trans; [apply Rplus_le_compat_r, Rabs_triang|].
    eapply Rle_trans; [apply Rplus_le_compat_r, Rplus_le_compat_r, Rabs_triang|].
    replace (al + 4 * be) with (((1 - p) * (1 - q) * al + be) + (p * (1 - q) * al + be)
       + ((1 - p) * q * al + be) + (p * q * al + be)) by ring. lra. }
  assert (U : Rabs t1 + Rabs t2 + Rabs t3 + Rabs t4 <= M + al + 4 * be).
  { replace (M + al + 4 * be) with (((1 - p) * (1 - q) * (M + al) + be) + (p * (1 - q) * (M + al) + be)
       + ((1 - p) * q * (M + al) + be) + (p * q * (M + al) + be)) by ring. lra. }
  unfold bound_expr. fold al be. nra.
Qed.

Lemma bpow_neg_val : forall k, (0 < k)%Z -> bpow radix2 (- k) = / IZR (2 ^ k).
Proof.
  intros k Hk. rewrite bpow_opp. f_equal. rewrite <- (IZR_Zpower radix2) by lia. reflexivity.
Qed.

Lemma bound_expr_le : forall M, 0 <= M -> bound_expr M <= 11 * u64 * M + 7 * eta.
Proof.
  intros M HM. unfold bound_expr, al_of, be_of, dl_of, g3.
  unfold u64, eta.
  replace (bpow radix2 (-53)) with (/ IZR (2 ^ 53)) by (symmetry; apply (bpow_neg_val 53); lia).
  replace (bpow radix2 (-1075)) with (/ IZR (2 ^ 1075)) by (symmetry; apply (bpow_neg_val 1075); lia).
  let v := eval vm_compute in (2 ^ 53)%Z in change (2 ^ 53)%Z with v.
  let v := eval vm_compute in (2 ^ 1075)%Z in change (2 ^ 1075)%Z with v.
  lra.
Qed.

(** * The theorems on primitive floats *)
Lemma fb_unit : forall x, fin x -> 0 <= FR x <= 1 -> fb x 0.
Proof. intros x F H. split; [exact F|]. simpl. rewrite Rabs_pos_eq; lra. Qed.
Lemma fb_val : forall x M, fin x -> Rabs (FR x) <= M -> M <= bpow radix2 1000 -> fb x 1000.
Proof. intros x M F H HM. split; [exact F|lra]. Qed.

Definition delta (M : R) : R := 11 * u64 * M + 7 * eta.

Theorem trilinear_f_error : forall a p q d00 u00 d01 u01 d10 u10 d11 u11 M,
  fin a -> fin p -> fin q ->
  fin d00 -> fin u00 -> fin d01 -> fin u01 -> fin d10 -> fin u10 -> fin d11 -> fin u11 ->
  0 <= FR a <= 1 -> 0 <= FR p <= 1 -> 0 <= FR q <= 1 ->
  Rabs (FR d00) <= M -> Rabs (FR u00) <= M -> Rabs (FR d01) <= M -> Rabs (FR u01) <= M ->
  Rabs (FR d10) <= M -> Rabs (FR u10) <= M -> Rabs (FR d11) <= M -> Rabs (FR u11) <= M ->
  M <= bpow radix2 1000 ->
  fin (trilinear_f a p q d00 u00 d01 u01 d10 u10 d11 u11) /\
  Rabs (FR (trilinear_f a p q d00 u00 d01 u01 d10 u10 d11 u11)
        - trilinear_R (FR a) (FR p) (FR q) (FR d00) (FR u00) (FR d01) (FR u01)
                      (FR d10) (FR u10) (FR d11) (FR u11)) <= delta M.
Proof.
  intros a p q d00 u00 d01 u01 d10 u10 d11 u11 M Fa Fp Fq F1 F2 F3 F4 F5 F6 F7 F8 Ha Hp Hq
    B1 B2 B3 B4 B5 B6 B7 B8 HM.
  destruct (trilinear_f_rounded a p q d00 u00 d01 u01 d10 u10 d11 u11) as [Fr Er];
    eauto using fb_unit, fb_val.
  split; [exact Fr|]. rewrite Er.
  eapply Rle_trans; [apply trilinear_r_err with (M := M); auto using fmt_FR|].
  apply bound_expr_le. pose proof (Rabs_pos (FR d00)). lra.
Qed.
Print Assumptions trilinear_f_error.

(* T3 *)
Lemma trilinear_R_between : forall a p q d00 u00 d01 u01 d10 u10 d11 u11 lo hi,
  0 <= a <= 1 -> 0 <= p <= 1 -> 0 <= q <= 1 ->
  lo <= d00 <= hi -> lo <= u00 <= hi -> lo <= d01 <= hi -> lo <= u01 <= hi ->
  lo <= d10 <= hi -> lo <= u10 <= hi -> lo <= d11 <= hi -> lo <= u11 <= hi ->
  lo <= trilinear_R a p q d00 u00 d01 u01 d10 u10 d11 u11 <= hi.
Proof.
  intros a p q d00 u00 d01 u01 d10 u10 d11 u11 lo hi Ha Hp Hq H1 H2 H3 H4 H5 H6 H7 H8.
  unfold trilinear_R.
  assert (L : forall d v, lo <= d <= hi -> lo <= v <= hi -> lo <= a * d + (1 - a) * v <= hi) by (intros; nra).
  pose proof (L d00 u00 H1 H2) as G1. pose proof (L d10 u10 H5 H6) as G2.
  pose proof (L d01 u01 H3 H4) as G3. pose proof (L d11 u11 H7 H8) as G4.
  set (f00 := a * d00 + (1 - a) * u00) in *. set (f10 := a * d10 + (1 - a) * u10) in *.
  set (f01 := a * d01 + (1 - a) * u01) in *. set (f11 := a * d11 + (1 - a) * u11) in *.
  assert (W1 : 0 <= (1 - p) * (1 - q)) by nra. assert (W2 : 0 <= p * (1 - q)) by nra.
  assert (W3 : 0 <= (1 - p) * q) by nra. assert (W4 : 0 <= p * q) by nra.
  assert (0 <= (1 - p) * (1 - q) * (f00 - lo)) by (apply Rmult_le_pos; lra).
  assert (0 <= (1 - p) * (1 - q) * (hi - f00)) by (apply Rmult_le_pos; lra).
  assert (0 <= p * (1 - q) * (f10 - lo)) by (apply Rmult_le_pos; lra).
  assert (0 <= p * (1 - q) * (hi - f10)) by (apply Rmult_le_pos; lra).
  assert (0 <= (1 - p) * q * (f01 - lo)) by (apply Rmult_le_pos; lra).
  assert (0 <= (1 - p) * q * (hi - f01)) by (apply Rmult_le_pos; lra).
  assert (0 <= p * q * (f11 - lo)) by (apply Rmult_le_pos; lra).
  assert (0 <= p * q * (hi - f11)) by (apply Rmult_le_pos; lra).
  split; lra.
Qed.

Theorem trilinear_f_between : forall a p q d00 u00 d01 u01 d10 u10 d11 u11 M lo hi,
  fin a -> fin p -> fin q ->
  fin d00 -> fin u00 -> fin d01 -> fin u01 -> fin d10 -> fin u10 -> fin d11 -> fin u11 ->
  0 <= FR a <= 1 -> 0 <= FR p <= 1 -> 0 <= FR q <= 1 ->
  Rabs (FR d00) <= M -> Rabs (FR u00) <= M -> Rabs (FR d01) <= M -> Rabs (FR u01) <= M ->
  Rabs (FR d10) <= M -> Rabs (FR u10) <= M -> Rabs (FR d11) <= M -> Rabs (FR u11) <= M ->
  M <= bpow radix2 1000 ->
  lo <= FR d00 <= hi -> lo <= FR u00 <= hi -> lo <= FR d01 <= hi -> lo <= FR u01 <= hi ->
  lo <= FR d10 <= hi -> lo <= FR u10 <= hi -> lo <= FR d11 <= hi -> lo <= FR u11 <= hi ->
  fin (trilinear_f a p q d00 u00 d01 u01 d10 u10 d11 u11) /\
  lo - delta M <= FR (trilinear_f a p q d00 u00 d01 u01 d10 u10 d11 u11) <= hi + delta M.
Proof.
  intros a p q d00 u00 d01 u01 d10 u10 d11 u11 M lo hi Fa Fp Fq F1 F2 F3 F4 F5 F6 F7 F8 Ha Hp Hq
    B1 B2 B3 B4 B5 B6 B7 B8 HM L1 L2 L3 L4 L5 L6 L7 L8.
  destruct (trilinear_f_error a p q d00 u00 d01 u01 d10 u10 d11 u11 M) as [Fr Er]; auto.
  split; [exact Fr|].
  pose proof (trilinear_R_between (FR a) (FR p) (FR q) (FR d00) (FR u00) (FR d01) (FR u01)
                (FR d10) (FR u10) (FR d11) (FR u11) lo hi Ha Hp Hq L1 L2 L3 L4 L5 L6 L7 L8) as HB.
  apply Rabs_le_inv in Er. lra.
Qed.
Print Assumptions trilinear_f_between.

Definition min8 (x1 x2 x3 x4 x5 x6 x7 x8 : R) : R :=
  Rmin x1 (Rmin x2 (Rmin x3 (Rmin x4 (Rmin x5 (Rmin x6 (Rmin x7 x8)))))).
Definition max8 (x1 x2 x3 x4 x5 x6 x7 x8 : R) : R :=
  Rmax x1 (Rmax x2 (Rmax x3 (Rmax x4 (Rmax x5 (Rmax x6 (Rmax x7 x8)))))).
Definition maxabs8 (x1 x2 x3 x4 x5 x6 x7 x8 : R) : R :=
  max8 (Rabs x1) (Rabs x2) (Rabs x3) (Rabs x4) (Rabs x5) (Rabs x6) (Rabs x7) (Rabs x8).

Lemma min8_le : forall x1 x2 x3 x4 x5 x6 x7 x8, let m := min8 x1 x2 x3 x4 x5 x6 x7 x8 in
  m <= x1 /\ m <= x2 /\ m <= x3 /\ m <= x4 /\ m <= x5 /\ m <= x6 /\ m <= x7 /\ m <= x8.
Proof.
  intros. unfold m, min8.
  pose proof (Rmin_l x7 x8). pose proof (Rmin_r x7 x8). set (m7 := Rmin x7 x8) in *.
  pose proof (Rmin_l x6 m7). pose proof (Rmin_r x6 m7). set (m6 := Rmin x6 m7) in *.
  pose proof (Rmin_l x5 m6). pose proof (Rmin_r x5 m6). set (m5 := Rmin x5 m6) in *.
  pose proof (Rmin_l x4 m5). pose proof (Rmin_r x4 m5). set (m4 := Rmin x4 m5) in *.
  pose proof (Rmin_l x3 m4). pose proof (Rmin_r x3 m4). set (m3 := Rmin x3 m4) in *.
  pose proof (Rmin_l x2 m3). pose proof (Rmin_r x2 m3). set (m2 := Rmin x2 m3) in *.
  pose proof (Rmin_l x1 m2). pose proof (Rmin_r x1 m2). set (m1 := Rmin x1 m2) in *.
  repeat split; lra.
Qed.
Lemma max8_ge : forall x1 x2 x3 x4 x5 x6 x7 x8, let m := max8 x1 x2 x3 x4 x5 x6 x7 x8 in
  x1 <= m /\ x2 <= m /\ x3 <= m /\ x4 <= m /\ x5 <= m /\ x6 <= m /\ x7 <= m /\ x8 <= m.
Proof.
  intros. unfold m, max8.
  pose proof (Rmax_l x7 x8). pose proof (Rmax_r x7 x8). set (m7 := Rmax x7 x8) in *.
  pose proof (Rmax_l x6 m7). pose proof (Rmax_r x6 m7). set (m6 := Rmax x6 m7) in *.
  pose proof (Rmax_l x5 m6). pose proof (Rmax_r x5 m6). set (m5 := Rmax x5 m6) in *.
  pose proof (Rmax_l x4 m5). pose proof (Rmax_r x4 m5). set (m4 := Rmax x4 m5) in *.
  pose proof (Rmax_l x3 m4). pose proof (Rmax_r x3 m4). set (m3 := Rmax x3 m4) in *.
  pose proof (Rmax_l x2 m3). pose proof (Rmax_r x2 m3). set (m2 := Rmax x2 m3) in *.
  pose proof (Rmax_l x1 m2). pose proof (Rmax_r x1 m2). set (m1 := Rmax x1 m2) in *.
  repeat split; lra.
Qed.

Theorem trilinear_f_within_min_max : forall a p q d00 u00 d01 u01 d10 u10 d11 u11,
  fin a -> fin p -> fin q ->
  fin d00 -> fin u00 -> fin d01 -> fin u01 -> fin d10 -> fin u10 -> fin d11 -> fin u11 ->
  0 <= FR a <= 1 -> 0 <= FR p <= 1 -> 0 <= FR q <= 1 ->
  let M := maxabs8 (FR d00) (FR u00) (FR d01) (FR u01) (FR d10) (FR u10) (FR d11) (FR u11) in
  M <= bpow radix2 1000 ->
  fin (trilinear_f a p q d00 u00 d01 u01 d10 u10 d11 u11) /\
  min8 (FR d00) (FR u00) (FR d01) (FR u01) (FR d10) (FR u10) (FR d11) (FR u11) - delta M
  <= FR (trilinear_f a p q d00 u00 d01 u01 d10 u10 d11 u11) <=
  max8 (FR d00) (FR u00) (FR d01) (FR u01) (FR d10) (FR u10) (FR d11) (FR u11) + delta M.
Proof.
  intros a p q d00 u00 d01 u01 d10 u10 d11 u11 Fa Fp Fq F1 F2 F3 F4 F5 F6 F7 F8 Ha Hp Hq M HM.
  pose proof (min8_le (FR d00) (FR u00) (FR d01) (FR u01) (FR d10) (FR u10) (FR d11) (FR u11)) as Hlo.
  pose proof (max8_ge (FR d00) (FR u00) (FR d01) (FR u01) (FR d10) (FR u10) (FR d11) (FR u11)) as Hhi.
  pose proof (max8_ge (Rabs (FR d00)) (Rabs (FR u00)) (Rabs (FR d01)) (Rabs (FR u01))
                (Rabs (FR d10)) (Rabs (FR u10)) (Rabs (FR d11)) (Rabs (FR u11))) as Hab.
  cbv zeta in Hlo, Hhi, Hab. fold (maxabs8 (FR d00) (FR u00) (FR d01) (FR u01) (FR d10) (FR u10) (FR d11) (FR u11)) in Hab.
  fold M in Hab.
  apply trilinear_f_between; auto; tauto.
Qed.
Print Assumptions trilinear_f_within_min_max.

(* T4 *)
Lemma fmt_IZR : forall i, (Z.abs i < 2 ^ 53)%Z -> fmt (IZR i).
Proof.
  intros i Hi. apply generic_format_FLT. exists (Float radix2 i 0).
  - unfold F2R. simpl. ring.
  - exact Hi.
  - simpl. lia.
Qed.

Lemma float_of_Z_correct : forall i, (0 <= i < 2 ^ 53)%Z ->
  fin (float_of_Z i) /\ FR (float_of_Z i) = IZR i.
Proof.
  intros i Hi. unfold float_of_Z. replace (i <? 0)%Z with false by (symmetry; apply Z.ltb_ge; lia).
  unfold fin, FR. rewrite of_int63_equiv.
  assert (Ei : Uint63.to_Z (Uint63.of_Z i) = i).
  { rewrite Uint63.of_Z_spec. apply Z.mod_small. change Uint63.wB with (2 ^ 63)%Z. lia. }
  rewrite Ei.
  assert (Fi : fmt (IZR i)) by (apply fmt_IZR; lia).
  assert (Xi : F2R (Float radix2 i 0) = IZR i) by (unfold F2R; simpl; ring).
  generalize (binary_normalize_correct prec emax Hprec Hmax mode_NE i 0 false). cbv zeta.
  rewrite Xi. change (round radix2 (fexp prec emax) (round_mode mode_NE) (IZR i)) with (rnd (IZR i)).
  rewrite (rnd_id _ Fi). rewrite Rlt_bool_true.
  - intros (H1 & H2 & _). split; assumption.
  - rewrite <- abs_IZR. change (bpow radix2 emax) with (IZR (2 ^ 1024)). apply IZR_lt.
    assert (2 ^ 53 < 2 ^ 1024)%Z by (apply Z.pow_lt_mono_r; lia). lia.
Qed.

Theorem frac_f_exact : forall x i,
  fin x -> 0 <= FR x < bpow radix2 52 -> IZR i <= FR x < IZR i + 1 ->
  fin (frac_f x i) /\ FR (frac_f x i) = FR x - IZR i /\ 0 <= FR (frac_f x i) < 1.
Proof.
  intros x i Fx Hx Hi.
  assert (Hi0 : (0 <= i)%Z).
  { apply Z.lt_succ_r. apply lt_IZR. rewrite succ_IZR. lra. }
  assert (Hi1 : (i < 2 ^ 52)%Z).
  { apply lt_IZR. change (IZR (2 ^ 52)) with (bpow radix2 52). lra. }
  destruct (float_of_Z_correct i) as [Fi Ei]; [lia|].
  assert (Fd : fmt (FR x - IZR i)).
  { destruct (Z.eq_dec i 0) as [->|Hn].
    - rewrite Rminus_0_r. apply fmt_FR.
    - assert (1 <= IZR i) by (apply IZR_le; lia).
      apply (sterbenz radix2 (FLT_exp (-1074) 53) (FR x) (IZR i)).
      + apply fmt_FR.
      + apply fmt_IZR. lia.
      + lra. }
  unfold frac_f, fin, FR in *. rewrite sub_equiv.
  generalize (Bminus_correct prec emax Hprec Hmax mode_NE (Prim2B x) (Prim2B (float_of_Z i)) Fx Fi).
  rewrite Ei. change (round radix2 (fexp prec emax) (round_mode mode_NE) (B2R (Prim2B x) - IZR i))
    with (rnd (B2R (Prim2B x) - IZR i)).
  rewrite (rnd_id _ Fd). rewrite Rlt_bool_true.
  - intros (H1 & H2 & _). rewrite H1, H2. repeat split; lra.
  - rewrite Rabs_pos_eq by lra. apply Rlt_trans with 1; [lra|]. change 1 with (bpow radix2 0). apply bpow_lt. reflexivity.
Qed.
Print Assumptions frac_f_exact.

Lemma in_cell_spec : forall x i, fin x -> (0 <= i < 2 ^ 53 - 1)%Z -> in_cell x i = true ->
  IZR i <= FR x < IZR i + 1.
Proof.
  intros x i Fx Hi H. unfold in_cell in H. apply andb_true_iff in H. destruct H as [H1 H2].
  destruct (float_of_Z_correct i) as [Fi Ei]; [lia|].
  destruct (float_of_Z_correct (i + 1)) as [Fj Ej]; [lia|].
  rewrite leb_equiv, Bleb_correct in H1 by assumption.
  rewrite ltb_equiv, Bltb_correct in H2 by assumption.
  fold (FR (float_of_Z i)) in H1. fold (FR (float_of_Z (i + 1))) in H2. fold (FR x) in H1, H2.
  rewrite Ei in H1. rewrite Ej, plus_IZR in H2.
  split.
  - revert H1. case Rle_bool_spec; [tauto|discriminate].
  - revert H2. case Rlt_bool_spec; [tauto|discriminate].
Qed.

(* T5 *)
Lemma Zeq_bool_eqb : forall a b, Zeq_bool a b = (a =? b)%Z.
Proof. intros. unfold Zeq_bool. rewrite Z.eqb_compare. reflexivity. Qed.

(** the decoder written with div/mod *)
Lemma sf_of_bits_unfold : forall z,
  sf_of_bits z =
  let s := (2 ^ 63 <=? z)%Z in
  let m := (z mod 2 ^ 52)%Z in
  let e := ((z / 2 ^ 52) mod 2 ^ 11)%Z in
  if (e =? 0)%Z then match m with Zpos pm => S754_finite s pm (-1074) | _ => S754_zero s end
  else if (e =? 2047)%Z then match m with Z0 => S754_infinity s | _ => S754_nan end
  else match (m + 2 ^ 52)%Z with Zpos pm => S754_finite s pm (e - 1075) | _ => S754_nan end.
Proof.
  intros z. unfold sf_of_bits.
  replace (Z.land z 4503599627370495) with (z mod 2 ^ 52)%Z
    by (symmetry; apply (Z.land_ones z 52); lia).
  replace (Z.land (Z.shiftr z 52) 2047) with ((z / 2 ^ 52) mod 2 ^ 11)%Z
    by (rewrite Z.shiftr_div_pow2 by lia; symmetry; apply (Z.land_ones _ 11); lia).
  reflexivity.
Qed.

Lemma sf_of_bits_aux : forall z, (0 <= z < 2 ^ 64)%Z ->
  sf_of_bits z = Binary.FF2SF (Bits.binary_float_of_bits_aux 52 11 z).
Proof.
  intros z Hz. rewrite sf_of_bits_unfold. cbv zeta. unfold Bits.binary_float_of_bits_aux, Bits.split_bits.
  change (2 ^ 52 * 2 ^ 11)%Z with (2 ^ 63)%Z.
  assert (Hm : (0 <= z mod 2 ^ 52 < 2 ^ 52)%Z) by (apply Z.mod_pos_bound; lia).
  set (m := (z mod 2 ^ 52)%Z) in *. set (e := ((z / 2 ^ 52) mod 2 ^ 11)%Z).
  rewrite !Zeq_bool_eqb. change (2 ^ 11 - 1)%Z with 2047%Z.
  destruct (e =? 0)%Z.
  - destruct m; try reflexivity. lia.
  - destruct (e =? 2047)%Z.
    + destruct m; try reflexivity.
    + change (SpecFloat.emin (52 + 1) (2 ^ (11 - 1))) with (-1074)%Z.
      replace (e + -1074 - 1)%Z with (e - 1075)%Z by ring.
      destruct (m + 2 ^ 52)%Z; reflexivity.
Qed.

Lemma sf_of_bits_valid : forall z, (0 <= z < 2 ^ 64)%Z -> valid_binary (sf_of_bits z) = true.
Proof.
  intros z Hz. rewrite sf_of_bits_aux by assumption.
  generalize (Bits.binary_float_of_bits_aux_correct 52 11 eq_refl eq_refl eq_refl z).
  destruct (Bits.binary_float_of_bits_aux 52 11 z); simpl; auto.
Qed.

Theorem float_of_bits_correct : forall z, (0 <= z < 2 ^ 64)%Z ->
  Prim2B (float_of_bits z) = Binary.B2BSN 53 1024 (Bits.b64_of_bits z).
Proof.
  intros z Hz. apply B2SF_inj. rewrite B2SF_Prim2B. unfold float_of_bits.
  rewrite Prim2SF_SF2Prim by (apply sf_of_bits_valid; assumption).
  rewrite Binary.B2SF_B2BSN. unfold Bits.b64_of_bits, Bits.binary_float_of_bits.
  rewrite Binary.B2SF_FF2B. apply sf_of_bits_aux. assumption.
Qed.
Print Assumptions float_of_bits_correct.

(* round trip of the bit pattern *)
Lemma bits_of_sf_of_bits : forall z, (0 <= z < 2 ^ 64)%Z ->
  sf_of_bits z <> S754_nan -> bits_of_sf (sf_of_bits z) = z.
Proof.
  intros z Hz. rewrite sf_of_bits_unfold. cbv zeta. unfold bits_of_sf.
  pose proof (Z.div_mod z (2 ^ 52) ltac:(lia)) as D1.
  pose proof (Z.mod_pos_bound z (2 ^ 52) ltac:(lia)) as M1.
  pose proof (Z.div_mod (z / 2 ^ 52) (2 ^ 11) ltac:(lia)) as D2.
  pose proof (Z.mod_pos_bound (z / 2 ^ 52) (2 ^ 11) ltac:(lia)) as M2.
  assert (H12 : (0 <= z / 2 ^ 52 < 2 ^ 12)%Z).
  { split; [apply Z.div_pos; lia|]. apply Z.div_lt_upper_bound; [lia|]. change (2 ^ 52 * 2 ^ 12)%Z with (2 ^ 64)%Z. lia. }
  set (m := (z mod 2 ^ 52)%Z) in *. set (hi := (z / 2 ^ 52)%Z) in *.
  set (e := (hi mod 2 ^ 11)%Z) in *. set (sb := (hi / 2 ^ 11)%Z) in *.
  assert (Hsb : (0 <= sb < 2)%Z).
  { unfold sb. split; [apply Z.div_pos; lia|]. apply Z.div_lt_upper_bound; lia. }
  change (2 ^ 52)%Z with 4503599627370496%Z in *. change (2 ^ 11)%Z with 2048%Z in *.
  change (2 ^ 63)%Z with 9223372036854775808%Z in *. change (2 ^ 64)%Z with 18446744073709551616%Z in *.
  change (2 ^ 12)%Z with 4096%Z in *.
  destruct (Z.leb_spec 9223372036854775808 z) as [Hs|Hs];
  (destruct (Z.eqb_spec e 0) as [He|He];
   [ destruct m eqn:Em; intros _; try lia
   | destruct (Z.eqb_spec e 2047) as [He'|He'];
     [ destruct m eqn:Em; intros Hn; try (exfalso; apply Hn; reflexivity); lia
     | destruct (m + 4503599627370496)%Z eqn:Em; intros Hn; try (exfalso; apply Hn; reflexivity); try lia ] ]).
  all: try (destruct (Z.leb_spec 4503599627370496 (Z.pos p)); lia).
Qed.

Theorem bits_of_float_of_bits : forall z, (0 <= z < 2 ^ 64)%Z ->
  sf_of_bits z <> S754_nan -> bits_of_float (float_of_bits z) = z.
Proof.
  intros z Hz Hn. unfold bits_of_float, float_of_bits.
  rewrite Prim2SF_SF2Prim by (apply sf_of_bits_valid; assumption).
  apply bits_of_sf_of_bits; assumption.
Qed.
Print Assumptions bits_of_float_of_bits.

(* ---- computable hypotheses ---- *)

Lemma FR_SF : forall x, FR x = SF2R radix2 (Prim2SF x).
Proof. intros. unfold FR, Prim2B. apply B2R_SF2B. Qed.
Lemma FR_0 : FR 0%float = 0. Proof. rewrite FR_SF. reflexivity. Qed.
Lemma FR_1 : FR 1%float = 1. Proof. exact (proj2 fb_one). Qed.
Lemma FR_pow2 : forall k, (-1022 <= k <= 1023)%Z -> Prim2SF (Z.ldexp 1 k) = S754_finite false (2 ^ 52) (k - 52) ->
  FR (Z.ldexp 1 k) = bpow radix2 k.
Proof.
  intros k Hk E. rewrite FR_SF, E. unfold SF2R, F2R. simpl Fnum. simpl Fexp. unfold cond_Zopp.
  change (IZR (Z.pos (2 ^ 52))) with (bpow radix2 52). rewrite <- bpow_plus. f_equal. ring.
Qed.
Lemma FR_two1000 : FR two1000 = bpow radix2 1000.
Proof. apply FR_pow2; [lia|]. vm_compute. reflexivity. Qed.
Lemma FR_two52 : FR two52 = bpow radix2 52.
Proof. apply FR_pow2; [lia|]. vm_compute. reflexivity. Qed.

Lemma fin_bool : forall x, Coq.Floats.PrimFloat.is_finite x = true -> fin x.
Proof. intros x H. unfold fin. rewrite <- is_finite_equiv. exact H. Qed.
Lemma leb_FR : forall x y, fin x -> fin y -> (x <=? y)%float = true -> FR x <= FR y.
Proof.
  intros x y Fx Fy H. rewrite leb_equiv, Bleb_correct in H by assumption.
  revert H. unfold FR. case Rle_bool_spec; [tauto|discriminate].
Qed.
Lemma ltb_FR : forall x y, fin x -> fin y -> (x <? y)%float = true -> FR x < FR y.
Proof.
  intros x y Fx Fy H. rewrite ltb_equiv, Bltb_correct in H by assumption.
  revert H. unfold FR. case Rlt_bool_spec; [tauto|discriminate].
Qed.
Lemma fin_abs : forall x, fin x -> fin (abs x).
Proof. intros x H. unfold fin. rewrite abs_equiv, is_finite_Babs. exact H. Qed.
Lemma FR_abs : forall x, FR (abs x) = Rabs (FR x).
Proof. intros. unfold FR. rewrite abs_equiv. apply B2R_Babs. Qed.
Lemma fin_0 : fin 0%float. Proof. apply fin_bool. reflexivity. Qed.
Lemma fin_1 : fin 1%float. Proof. apply fin_bool. reflexivity. Qed.

Lemma unit_ok_spec : forall x, unit_ok x = true -> fin x /\ 0 <= FR x <= 1.
Proof.
  intros x H. unfold unit_ok in H. apply andb_true_iff in H. destruct H as [H H3].
  apply andb_true_iff in H. destruct H as [H1 H2]. apply fin_bool in H1.
  split; [exact H1|]. rewrite <- FR_0, <- FR_1. split; apply leb_FR; auto using fin_0, fin_1.
Qed.
Lemma val_ok_spec : forall m x, fin m -> val_ok m x = true -> fin x /\ Rabs (FR x) <= FR m.
Proof.
  intros m x Fm H. unfold val_ok in H. apply andb_true_iff in H. destruct H as [H1 H2]. apply fin_bool in H1.
  split; [exact H1|]. rewrite <- FR_abs. apply leb_FR; auto using fin_abs.
Qed.

Theorem trilinear_f_error_checked : forall a p q d00 u00 d01 u01 d10 u10 d11 u11 m,
  hyps_ok a p q d00 u00 d01 u01 d10 u10 d11 u11 m = true ->
  fin (trilinear_f a p q d00 u00 d01 u01 d10 u10 d11 u11) /\
  Rabs (FR (trilinear_f a p q d00 u00 d01 u01 d10 u10 d11 u11)
        - trilinear_R (FR a) (FR p) (FR q) (FR d00) (FR u00) (FR d01) (FR u01)
                      (FR d10) (FR u10) (FR d11) (FR u11)) <= delta (FR m).
Proof.
  intros a p q d00 u00 d01 u01 d10 u10 d11 u11 m H. unfold hyps_ok in H.
  rewrite !andb_true_iff in H.
  destruct H as ((((((((((((Ha & Hp) & Hq) & K1) & K2) & K3) & K4) & K5) & K6) & K7) & K8) & K0) & KM).
  apply fin_bool in K0.
  assert (HM : FR m <= bpow radix2 1000).
  { rewrite <- FR_two1000. apply leb_FR; auto. apply fin_bool. reflexivity. }
  apply unit_ok_spec in Ha, Hp, Hq.
  apply (val_ok_spec m _ K0) in K1, K2, K3, K4, K5, K6, K7, K8.
  apply trilinear_f_error; tauto.
Qed.

Theorem trilinear_f_within_checked : forall a p q d00 u00 d01 u01 d10 u10 d11 u11 m,
  hyps_ok a p q d00 u00 d01 u01 d10 u10 d11 u11 m = true ->
  fin (trilinear_f a p q d00 u00 d01 u01 d10 u10 d11 u11) /\
  min8 (FR d00) (FR u00) (FR d01) (FR u01) (FR d10) (FR u10) (FR d11) (FR u11) - delta (FR m)
  <= FR (trilinear_f a p q d00 u00 d01 u01 d10 u10 d11 u11) <=
  max8 (FR d00) (FR u00) (FR d01) (FR u01) (FR d10) (FR u10) (FR d11) (FR u11) + delta (FR m).
Proof.
  intros a p q d00 u00 d01 u01 d10 u10 d11 u11 m H. unfold hyps_ok in H.
  rewrite !andb_true_iff in H.
  destruct H as ((((((((((((Ha & Hp) & Hq) & K1) & K2) & K3) & K4) & K5) & K6) & K7) & K8) & K0) & KM).
  apply fin_bool in K0.
  assert (HM : FR m <= bpow radix2 1000).
  { rewrite <- FR_two1000. apply leb_FR; auto. apply fin_bool. reflexivity. }
  apply unit_ok_spec in Ha, Hp, Hq.
  apply (val_ok_spec m _ K0) in K1, K2, K3, K4, K5, K6, K7, K8.
  pose proof (min8_le (FR d00) (FR u00) (FR d01) (FR u01) (FR d10) (FR u10) (FR d11) (FR u11)) as Hlo.
  pose proof (max8_ge (FR d00) (FR u00) (FR d01) (FR u01) (FR d10) (FR u10) (FR d11) (FR u11)) as Hhi.
  cbv zeta in Hlo, Hhi.
  apply trilinear_f_between; tauto.
Qed.

Theorem frac_f_exact_checked : forall x i, frac_ok x i = true ->
  fin (frac_f x i) /\ FR (frac_f x i) = FR x - IZR i /\ 0 <= FR (frac_f x i) < 1.
Proof.
  intros x i H. unfold frac_ok in H. rewrite !andb_true_iff in H.
  destruct H as (((((H1 & H2) & H3) & H4) & H5) & H6).
  apply fin_bool in H1. apply Z.leb_le in H5. apply Z.ltb_lt in H6.
  apply frac_f_exact; auto.
  - split.
    + rewrite <- FR_0. apply leb_FR; auto using fin_0.
    + rewrite <- FR_two52. apply ltb_FR; auto. apply fin_bool. reflexivity.
  - apply in_cell_spec; auto.
Qed.

Theorem kernel_f_error_checked : forall X i Y j a d00 u00 d01 u01 d10 u10 d11 u11 m,
  kernel_ok X i Y j a d00 u00 d01 u01 d10 u10 d11 u11 m = true ->
  let r := kernel_f X i Y j a d00 u00 d01 u01 d10 u10 d11 u11 in
  fin r /\
  Rabs (FR r - trilinear_R (FR a) (FR X - IZR i) (FR Y - IZR j) (FR d00) (FR u00) (FR d01) (FR u01)
                           (FR d10) (FR u10) (FR d11) (FR u11)) <= delta (FR m) /\
  min8 (FR d00) (FR u00) (FR d01) (FR u01) (FR d10) (FR u10) (FR d11) (FR u11) - delta (FR m) <= FR r
  <= max8 (FR d00) (FR u00) (FR d01) (FR u01) (FR d10) (FR u10) (FR d11) (FR u11) + delta (FR m).
Proof.
  intros X i Y j a d00 u00 d01 u01 d10 u10 d11 u11 m H r. unfold kernel_ok in H.
  rewrite !andb_true_iff in H.
  destruct H as ((((((((((((HX & HY) & Ha) & K1) & K2) & K3) & K4) & K5) & K6) & K7) & K8) & K0) & KM).
  destruct (frac_f_exact_checked X i HX) as (Fp & Ep & Bp).
  destruct (frac_f_exact_checked Y j HY) as (Fq & Eq & Bq).
  apply fin_bool in K0.
  assert (HM : FR m <= bpow radix2 1000).
  { rewrite <- FR_two1000. apply leb_FR; auto. apply fin_bool. reflexivity. }
  apply unit_ok_spec in Ha.
  apply (val_ok_spec m _ K0) in K1, K2, K3, K4, K5, K6, K7, K8.
  pose proof (min8_le (FR d00) (FR u00) (FR d01) (FR u01) (FR d10) (FR u10) (FR d11) (FR u11)) as Hlo.
  pose proof (max8_ge (FR d00) (FR u00) (FR d01) (FR u01) (FR d10) (FR u10) (FR d11) (FR u11)) as Hhi.
  cbv zeta in Hlo, Hhi.
  rewrite <- Ep, <- Eq. unfold r, kernel_f.
  split; [|split].
  - apply (trilinear_f_error a (frac_f X i) (frac_f Y j) d00 u00 d01 u01 d10 u10 d11 u11 (FR m)); try tauto; lra.
  - apply (trilinear_f_error a (frac_f X i) (frac_f Y j) d00 u00 d01 u01 d10 u10 d11 u11 (FR m)); try tauto; lra.
  - apply (trilinear_f_between a (frac_f X i) (frac_f Y j) d00 u00 d01 u01 d10 u10 d11 u11 (FR m)); try tauto; lra.
Qed.
Print Assumptions kernel_f_error_checked.

(* ---- non-vacuity ---- *)
Example ex_hyps : hyps_ok 0.25 0.5 0.75 1 2 3 4 5 6 7 8 8 = true.
Proof. vm_compute. reflexivity. Qed.
Example ex_bound :
  Rabs (FR (trilinear_f 0.25 0.5 0.75 1 2 3 4 5 6 7 8)
        - trilinear_R (FR 0.25) (FR 0.5) (FR 0.75) (FR 1) (FR 2) (FR 3) (FR 4) (FR 5) (FR 6) (FR 7) (FR 8))
  <= delta (FR 8).
Proof. apply (trilinear_f_error_checked 0.25 0.5 0.75 1 2 3 4 5 6 7 8 8). vm_compute. reflexivity. Qed.

Lemma FR_8 : FR 8 = 8.
Proof. rewrite FR_SF. vm_compute Prim2SF. unfold SF2R, F2R, cond_Zopp. simpl. lra. Qed.

(** the bound evaluated: for node values up to 8 the float result is within 1e-14 of the exact combination *)
Example ex_delta : delta (FR 8) <= / 100000000000000.
Proof.
  rewrite FR_8. unfold delta, u64, eta.
  replace (bpow radix2 (-53)) with (/ IZR (2 ^ 53)) by (symmetry; apply (bpow_neg_val 53); lia).
  replace (bpow radix2 (-1075)) with (/ IZR (2 ^ 1075)) by (symmetry; apply (bpow_neg_val 1075); lia).
  let v := eval vm_compute in (2 ^ 53)%Z in change (2 ^ 53)%Z with v.
  let v := eval vm_compute in (2 ^ 1075)%Z in change (2 ^ 1075)%Z with v.
  lra.
Qed.

#[local] Set Warnings "-inexact-float".
(** hypotheses are satisfiable in the hard corners too: weights exactly 0 and 1, p one ulp below 1, q = 2^-1074,
    node values: zeros of both signs, a subnormal, 1e300 of both signs, two neighbours in the last bit *)
Example ex_hyps_hard :
  hyps_ok 1 0x1.fffffffffffffp-1 0x1p-1074 (-0) 0 0x1p-1074 1e300 (-1e300) 0x1.0000000000001p0 1 (-0x1p-1060) 1e300 = true
  /\ hyps_ok 0 0 1 (-0) 0 0x1p-1074 1e300 (-1e300) 0x1.0000000000001p0 1 (-0x1p-1060) 1e300 = true.
Proof. vm_compute. split; reflexivity. Qed.

(** ... and the kernel-level statement on a concrete cell: X = 3.75 in cell 3, Y = 2.5 in cell 2 *)
Example ex_kernel : kernel_ok 3.75 3 2.5 2 0.25 1 2 3 4 5 6 7 8 8 = true.
Proof. vm_compute. reflexivity. Qed.
Example ex_kernel_bound :
  let r := kernel_f 3.75 3 2.5 2 0.25 1 2 3 4 5 6 7 8 in
  fin r /\ Rabs (FR r - trilinear_R (FR 0.25) (FR 3.75 - 3) (FR 2.5 - 2) (FR 1) (FR 2) (FR 3) (FR 4) (FR 5) (FR 6) (FR 7) (FR 8))
           <= delta (FR 8).
Proof.
  intros r. destruct (kernel_f_error_checked 3.75 3 2.5 2 0.25 1 2 3 4 5 6 7 8 8 ex_kernel) as (H1 & H2 & _).
  split; assumption.
Qed.
