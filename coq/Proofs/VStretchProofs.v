(** Proofs about Model/VStretch.v: the three ROMS stretching curves are strictly increasing from -1 to 0
    (real analysis over Coq's Reals; exp algebra for sinh/cosh/tanh, one mean-value argument for Vstretching 2). *)
From Coq Require Import Reals ZArith Lra Lia Psatz.
From Ladim Require Import Model.VStretch.
Open Scope R_scope.

Lemma exp_ge_1 x : 0 <= x -> 1 <= exp x.
Proof.
  intros [H|<-]; [|rewrite exp_0; lra]. left. rewrite <- exp_0. apply exp_increasing. exact H.
Qed.
Lemma exp_gt_1 x : 0 < x -> 1 < exp x.
Proof. intro H. rewrite <- exp_0. apply exp_increasing. exact H. Qed.

Lemma sinh_opp x : sinh (- x) = - sinh x.
Proof. unfold sinh. rewrite Ropp_involutive. lra. Qed.
Lemma cosh_opp x : cosh (- x) = cosh x.
Proof. unfold cosh. rewrite Ropp_involutive. lra. Qed.
Lemma sinh_pos x : 0 < x -> 0 < sinh x.
Proof. intro H. rewrite <- sinh_0. apply sinh_lt. exact H. Qed.
Lemma cosh_pos x : 0 < cosh x.
Proof. unfold cosh. pose proof (exp_pos x). pose proof (exp_pos (- x)). lra. Qed.

(** cosh is strictly increasing on [0, oo) *)
Lemma cosh_lt x y : 0 <= x -> x < y -> cosh x < cosh y.
Proof.
  intros Hx Hxy. unfold cosh. rewrite !exp_Ropp.
  pose proof (exp_ge_1 x Hx) as A. pose proof (exp_increasing x y Hxy) as B.
  set (a := exp x) in *. set (b := exp y) in *.
  assert (/ a - / b = (b - a) / (a * b)) as E by (field; lra).
  assert (1 < a * b) as P by nra.
  assert ((b - a) / (a * b) < b - a) as Q.
  { apply Rmult_lt_reg_r with (a * b); [lra|]. unfold Rdiv. rewrite Rmult_assoc, Rinv_l by lra. nra. }
  lra.
Qed.
Lemma cosh_le x y : 0 <= x -> x <= y -> cosh x <= cosh y.
Proof. intros Hx [H| ->]; [left; apply cosh_lt; assumption|right; reflexivity]. Qed.
Lemma cosh_gt_1 x : 0 < x -> 1 < cosh x.
Proof. intro H. rewrite <- cosh_0. apply cosh_lt; lra. Qed.

(** tanh = 1 - 2/(exp(2x)+1), hence strictly increasing *)
Lemma tanh_alt x : tanh x = 1 - 2 / (exp (2 * x) + 1).
Proof.
  unfold tanh, sinh, cosh. rewrite exp_Ropp.
  replace (2 * x) with (x + x) by lra. rewrite exp_plus.
  pose proof (exp_pos x) as P. set (a := exp x) in *.
  field. split; [nra|lra].
Qed.
Lemma tanh_lt x y : x < y -> tanh x < tanh y.
Proof.
  intro H. rewrite !tanh_alt.
  assert (exp (2 * x) < exp (2 * y)) as E by (apply exp_increasing; lra).
  pose proof (exp_pos (2 * x)) as P.
  set (a := exp (2 * x)) in *. set (b := exp (2 * y)) in *.
  assert (2 / (b + 1) < 2 / (a + 1)) as Q.
  { unfold Rdiv. apply Rmult_lt_compat_l; [lra|]. apply Rinv_lt_contravar; nra. }
  lra.
Qed.
Lemma tanh_0 : tanh 0 = 0.
Proof. unfold tanh. rewrite sinh_0. lra. Qed.
Lemma tanh_opp x : tanh (- x) = - tanh x.
Proof. unfold tanh. rewrite sinh_opp, cosh_opp. lra. Qed.
Lemma tanh_pos x : 0 < x -> 0 < tanh x.
Proof. intro H. rewrite <- tanh_0. apply tanh_lt. exact H. Qed.

(** * Vstretching 1 *)
Definition A1 (ts s : R) : R := 1 / sinh ts * sinh (ts * s).
Definition T1 (ts s : R) : R := (1/2) / tanh ((1/2) * ts) * tanh (ts * (s + 1/2)) - 1/2.
Lemma Cs1_split ts tb s : Cs1 ts tb s = (1 - tb) * A1 ts s + tb * T1 ts s.
Proof. unfold Cs1, A1, T1. ring. Qed.

Lemma A1_lt ts x y : 0 < ts -> x < y -> A1 ts x < A1 ts y.
Proof.
  intros Hts H. unfold A1. apply Rmult_lt_compat_l.
  - unfold Rdiv. rewrite Rmult_1_l. apply Rinv_0_lt_compat, sinh_pos, Hts.
  - apply sinh_lt. nra.
Qed.
Lemma T1_lt ts x y : 0 < ts -> x < y -> T1 ts x < T1 ts y.
Proof.
  intros Hts H. unfold T1.
  assert (0 < (1/2) / tanh ((1/2) * ts)) as P.
  { apply Rdiv_lt_0_compat; [lra|]. apply tanh_pos. lra. }
  assert (tanh (ts * (x + 1/2)) < tanh (ts * (y + 1/2))) as Q by (apply tanh_lt; nra).
  nra.
Qed.
Lemma A1_ends ts : 0 < ts -> A1 ts (-1) = -1 /\ A1 ts 0 = 0.
Proof.
  intro Hts. unfold A1. pose proof (sinh_pos ts Hts) as P. split.
  - replace (ts * -1) with (- ts) by lra. rewrite sinh_opp. field. lra.
  - rewrite Rmult_0_r, sinh_0. lra.
Qed.
Lemma T1_ends ts : 0 < ts -> T1 ts (-1) = -1 /\ T1 ts 0 = 0.
Proof.
  intro Hts. unfold T1. pose proof (tanh_pos ((1/2) * ts) ltac:(lra)) as P. split.
  - replace (ts * (-1 + 1/2)) with (- ((1/2) * ts)) by lra. rewrite tanh_opp. field. lra.
  - replace (ts * (0 + 1/2)) with ((1/2) * ts) by lra. field. lra.
Qed.

Lemma stretch1_monotone_lemma ts tb : 0 < ts -> 0 <= tb <= 1 ->
  (forall x y, x < y -> Cs1 ts tb x < Cs1 ts tb y) /\ Cs1 ts tb (-1) = -1 /\ Cs1 ts tb 0 = 0.
Proof.
  intros Hts Htb. split; [|split].
  - intros x y H. rewrite !Cs1_split.
    pose proof (A1_lt ts x y Hts H). pose proof (T1_lt ts x y Hts H).
    destruct (Rle_lt_dec tb (1/2)); nra.
  - rewrite Cs1_split. destruct (A1_ends ts Hts) as [-> _]. destruct (T1_ends ts Hts) as [-> _]. lra.
  - rewrite Cs1_split. destruct (A1_ends ts Hts) as [_ ->]. destruct (T1_ends ts Hts) as [_ ->]. lra.
Qed.

(** * the surface curve *)
Lemma Csur_lt ts x y : 0 < ts -> -1 <= x -> x < y -> y <= 0 -> Csur ts x < Csur ts y.
Proof.
  intros Hts Hx Hxy Hy. unfold Csur.
  pose proof (cosh_gt_1 ts Hts) as P.
  assert (cosh (ts * y) < cosh (ts * x)) as Q.
  { rewrite <- (cosh_opp (ts * y)), <- (cosh_opp (ts * x)). apply cosh_lt; nra. }
  unfold Rdiv. apply Rmult_lt_compat_r; [apply Rinv_0_lt_compat; lra|lra].
Qed.
Lemma Csur_ends ts : 0 < ts -> Csur ts (-1) = -1 /\ Csur ts 0 = 0.
Proof.
  intro Hts. unfold Csur. pose proof (cosh_gt_1 ts Hts) as P. split.
  - replace (ts * -1) with (- ts) by lra. rewrite cosh_opp. field. lra.
  - rewrite Rmult_0_r, cosh_0. unfold Rdiv. lra.
Qed.

(** * Vstretching 4 *)
Lemma stretch4_monotone_lemma ts tb : 0 < ts -> 0 < tb ->
  strictly_increasing_on (Cs4 ts tb) (-1) 0 /\ Cs4 ts tb (-1) = -1 /\ Cs4 ts tb 0 = 0.
Proof.
  intros Hts Htb.
  assert (0 < 1 - exp (- tb)) as D.
  { assert (exp (- tb) < exp 0) by (apply exp_increasing; lra). rewrite exp_0 in *. lra. }
  split; [|split].
  - intros x y Hx Hxy Hy. unfold Cs4.
    pose proof (Csur_lt ts x y Hts Hx Hxy Hy) as Q.
    assert (exp (tb * Csur ts x) < exp (tb * Csur ts y)) as E by (apply exp_increasing; nra).
    unfold Rdiv. apply Rmult_lt_compat_r; [apply Rinv_0_lt_compat; lra|lra].
  - unfold Cs4. destruct (Csur_ends ts Hts) as [-> _].
    replace (tb * -1) with (- tb) by lra. field. lra.
  - unfold Cs4. destruct (Csur_ends ts Hts) as [_ ->]. rewrite Rmult_0_r, exp_0. unfold Rdiv. lra.
Qed.
(** a function on [0,1] with non-decreasing derivative vanishing at both ends is <= 0 in between *)
Lemma convex_below_chord (g g' : R -> R) :
  (forall c, 0 <= c <= 1 -> derivable_pt_lim g c (g' c)) ->
  (forall x y, 0 <= x -> x <= y -> y <= 1 -> g' x <= g' y) ->
  g 0 = 0 -> g 1 = 0 -> forall t, 0 <= t <= 1 -> g t <= 0.
Proof.
  intros Hd Hm G0 G1 t [T0 T1].
  destruct (Rle_lt_dec (g t) 0) as [L|L]; [exact L|exfalso].
  assert (0 < t) as T0' by (destruct T0 as [H | <-]; [exact H|lra]).
  assert (t < 1) as T1' by (destruct T1 as [H | ->]; [exact H|lra]).
  destruct (MVT_cor2 g g' 0 t T0') as (c1 & E1 & C1).
  { intros c Hc. apply Hd. lra. }
  destruct (MVT_cor2 g g' t 1 T1') as (c2 & E2 & C2).
  { intros c Hc. apply Hd. lra. }
  pose proof (Hm c1 c2 ltac:(lra) ltac:(lra) ltac:(lra)) as M.
  assert (0 < g' c1) as P1 by nra.
  assert (g' c2 < 0) as P2 by nra.
  lra.
Qed.

Lemma dlim_sinh_lin a c : derivable_pt_lim (fun t => sinh (a * t)) c (a * cosh (a * c)).
Proof.
  pose proof (derivable_pt_lim_comp (fun t => a * t) sinh c a (cosh (a * c))) as H.
  rewrite Rmult_comm. apply H.
  - pose proof (derivable_pt_lim_scal id a c 1 (derivable_pt_lim_id c)) as S.
    rewrite Rmult_1_r in S. exact S.
  - apply derivable_pt_lim_sinh.
Qed.
Lemma dlim_cosh_lin a c : derivable_pt_lim (fun t => cosh (a * t)) c (a * sinh (a * c)).
Proof.
  pose proof (derivable_pt_lim_comp (fun t => a * t) cosh c a (sinh (a * c))) as H.
  rewrite Rmult_comm. apply H.
  - pose proof (derivable_pt_lim_scal id a c 1 (derivable_pt_lim_id c)) as S.
    rewrite Rmult_1_r in S. exact S.
  - apply derivable_pt_lim_cosh.
Qed.
Lemma dlim_lin b c : derivable_pt_lim (fun t => b * t) c b.
Proof.
  pose proof (derivable_pt_lim_scal id b c 1 (derivable_pt_lim_id c)) as S.
  rewrite Rmult_1_r in S. exact S.
Qed.

(** sinh (a t) <= t sinh a  for a > 0, t in [0,1] *)
Lemma sinh_chord a t : 0 < a -> 0 <= t <= 1 -> sinh (a * t) <= t * sinh a.
Proof.
  intros Ha Ht.
  pose proof (convex_below_chord (fun t => sinh (a * t) - sinh a * t)
                                 (fun t => a * cosh (a * t) - sinh a)) as H.
  cbv beta in H. assert (sinh (a * t) - sinh a * t <= 0) as R; [|lra].
  apply H; [| | | |exact Ht].
  - intros c _. apply (derivable_pt_lim_minus (fun t => sinh (a * t)) (fun t => sinh a * t)).
    + apply dlim_sinh_lin.
    + apply dlim_lin.
  - intros x y Hx Hxy Hy. pose proof (cosh_le (a * x) (a * y) ltac:(nra) ltac:(nra)). nra.
  - rewrite !Rmult_0_r, sinh_0. lra.
  - rewrite !Rmult_1_r. lra.
Qed.
(** cosh (a t) - 1 <= t (cosh a - 1)  for a > 0, t in [0,1] *)
Lemma cosh_chord a t : 0 < a -> 0 <= t <= 1 -> cosh (a * t) - 1 <= t * (cosh a - 1).
Proof.
  intros Ha Ht.
  pose proof (convex_below_chord (fun t => cosh (a * t) - ((cosh a - 1) * t + 1))
                                 (fun t => a * sinh (a * t) - (cosh a - 1))) as H.
  cbv beta in H. assert (cosh (a * t) - ((cosh a - 1) * t + 1) <= 0) as R; [|lra].
  apply H; [| | | |exact Ht].
  - intros c _.
    apply (derivable_pt_lim_minus (fun t => cosh (a * t)) (fun t => (cosh a - 1) * t + 1)).
    + apply dlim_cosh_lin.
    + pose proof (derivable_pt_lim_plus (fun t => (cosh a - 1) * t) (fun _ => 1) c (cosh a - 1) 0
                    (dlim_lin _ c) (derivable_pt_lim_const 1 c)) as S.
      rewrite Rplus_0_r in S. exact S.
  - intros x y Hx Hxy Hy.
    destruct Hxy as [Hxy | ->]; [|lra].
    pose proof (sinh_lt (a * x) (a * y) ltac:(nra)). nra.
  - rewrite !Rmult_0_r, cosh_0. lra.
  - rewrite !Rmult_1_r. lra.
Qed.

(** the surface curve lies above the diagonal, the bottom curve below it *)
Lemma Csur_ge_id ts s : 0 < ts -> -1 <= s <= 0 -> s <= Csur ts s.
Proof.
  intros Hts Hs. unfold Csur. pose proof (cosh_gt_1 ts Hts) as P.
  pose proof (cosh_chord ts (- s) Hts ltac:(lra)) as C.
  replace (ts * - s) with (- (ts * s)) in C by lra. rewrite cosh_opp in C.
  apply Rmult_le_reg_r with (cosh ts - 1); [lra|].
  unfold Rdiv. rewrite Rmult_assoc, Rinv_l by lra. lra.
Qed.
Lemma Cbot_le_id tb s : 0 < tb -> -1 <= s <= 0 -> Cbot tb s <= s.
Proof.
  intros Htb Hs. unfold Cbot. pose proof (sinh_pos tb Htb) as P.
  pose proof (sinh_chord tb (s + 1) Htb ltac:(lra)) as C.
  assert (sinh (tb * (s + 1)) / sinh tb <= s + 1) as Q; [|lra].
  apply Rmult_le_reg_r with (sinh tb); [lra|].
  unfold Rdiv. rewrite Rmult_assoc, Rinv_l by lra. lra.
Qed.
Lemma Cbot_lt tb x y : 0 < tb -> x < y -> Cbot tb x < Cbot tb y.
Proof.
  intros Htb H. unfold Cbot. pose proof (sinh_pos tb Htb) as P.
  assert (sinh (tb * (x + 1)) < sinh (tb * (y + 1))) as Q by (apply sinh_lt; nra).
  assert (sinh (tb * (x + 1)) / sinh tb < sinh (tb * (y + 1)) / sinh tb); [|lra].
  unfold Rdiv. apply Rmult_lt_compat_r; [apply Rinv_0_lt_compat; lra|lra].
Qed.
Lemma Cbot_ends tb : 0 < tb -> Cbot tb (-1) = -1 /\ Cbot tb 0 = 0.
Proof.
  intro Htb. unfold Cbot. pose proof (sinh_pos tb Htb) as P. split.
  - replace (tb * (-1 + 1)) with 0 by lra. rewrite sinh_0. unfold Rdiv. lra.
  - replace (tb * (0 + 1)) with tb by lra. field. lra.
Qed.
Lemma mu_alt s : mu s = 1 - s * s.
Proof. unfold mu. field. Qed.

(** * Vstretching 2 *)
Lemma stretch2_monotone_lemma ts tb : 0 < ts -> 0 < tb ->
  strictly_increasing_on (Cs2 ts tb) (-1) 0 /\ Cs2 ts tb (-1) = -1 /\ Cs2 ts tb 0 = 0.
Proof.
  intros Hts Htb. split; [|split].
  - intros x y Hx Hxy Hy. unfold Cs2. rewrite !mu_alt.
    pose proof (Csur_lt ts x y Hts Hx Hxy Hy) as A.
    pose proof (Cbot_lt tb x y Htb Hxy) as B.
    pose proof (Csur_ge_id ts x Hts ltac:(lra)) as U.
    pose proof (Cbot_le_id tb x Htb ltac:(lra)) as L.
    set (a := Csur ts x) in *. set (a' := Csur ts y) in *.
    set (b := Cbot tb x) in *. set (b' := Cbot tb y) in *.
    assert (0 <= 1 - y * y <= 1) as M2 by nra.
    assert (1 - x * x <= 1 - y * y) as M12 by nra.
    set (m1 := 1 - x * x) in *. set (m2 := 1 - y * y) in *.
    assert (0 <= (m2 - m1) * (a - b)) as P3 by (apply Rmult_le_pos; lra).
    assert (0 < m2 * (a' - a) + (1 - m2) * (b' - b)) as P12.
    { destruct (Rle_lt_dec m2 (1/2)); nra. }
    nra.
  - unfold Cs2. rewrite mu_alt. destruct (Cbot_ends tb Htb) as [-> _].
    destruct (Csur_ends ts Hts) as [-> _]. lra.
  - unfold Cs2. rewrite mu_alt. destruct (Cbot_ends tb Htb) as [_ ->].
    destruct (Csur_ends ts Hts) as [_ ->]. lra.
Qed.

(** * all three curves *)
Lemma stretch_monotone_lemma vs ts tb : stretch_params vs ts tb ->
  strictly_increasing_on (Cs vs ts tb) (-1) 0 /\ Cs vs ts tb (-1) = -1 /\ Cs vs ts tb 0 = 0.
Proof.
  intros [Hts [[-> Htb]|[[-> | ->] Htb]]]; unfold Cs; cbn [Z.eqb Pos.eqb].
  - destruct (stretch1_monotone_lemma ts tb Hts Htb) as (M & E0 & E1).
    split; [|split; assumption]. intros x y _ Hxy _. apply M. exact Hxy.
  - apply stretch2_monotone_lemma; assumption.
  - apply stretch4_monotone_lemma; assumption.
Qed.

Lemma stretch_range vs ts tb s : stretch_params vs ts tb -> -1 <= s <= 0 -> -1 <= Cs vs ts tb s <= 0.
Proof.
  intros Hp [H0 H1]. destruct (stretch_monotone_lemma vs ts tb Hp) as (M & E0 & E1). split.
  - destruct H0 as [H0 | <-]; [|lra]. rewrite <- E0. left. apply M; lra.
  - destruct H1 as [H1 | ->]; [|lra]. rewrite <- E1. left. apply M; lra.
Qed.

(** abscissae *)
Lemma Sr_order N k : (0 < N)%Z ->
  Sr_w N k < Sr_rho N k /\ Sr_rho N k < Sr_w N (k + 1) /\ Sr_rho N k < Sr_rho N (k + 1).
Proof.
  intro HN. unfold Sr_w, Sr_rho. rewrite plus_IZR.
  assert (0 < / IZR N) as P by (apply Rinv_0_lt_compat, IZR_lt; exact HN).
  unfold Rdiv. repeat split; nra.
Qed.
Lemma Sr_w_range N k : (0 <= k <= N)%Z -> (0 < N)%Z -> -1 <= Sr_w N k <= 0.
Proof.
  intros [Hk HkN] HN. unfold Sr_w.
  assert (0 < IZR N) as P by (apply IZR_lt; exact HN).
  assert (0 <= IZR k) as K0 by (apply IZR_le; exact Hk).
  assert (IZR k <= IZR N) as K1 by (apply IZR_le; exact HkN).
  assert (0 <= IZR k / IZR N) as A by (apply Rmult_le_pos; [lra|left; apply Rinv_0_lt_compat; lra]).
  assert (IZR k / IZR N <= 1) as B.
  { apply Rmult_le_reg_r with (IZR N); [lra|]. unfold Rdiv. rewrite Rmult_assoc, Rinv_l by lra. lra. }
  lra.
Qed.
Lemma Sr_w_ends N : (0 < N)%Z -> Sr_w N 0 = -1 /\ Sr_w N N = 0.
Proof.
  intro HN. unfold Sr_w. assert (0 < IZR N) as P by (apply IZR_lt; exact HN).
  split; [unfold Rdiv; lra|field; lra].
Qed.

(** the arrays s_stretch returns (exact arithmetic) satisfy the hypotheses T1 puts on C:
    w: starts at -1, ends at 0; rho/w interleave (hence both strictly increasing); all in [-1,0] *)
Lemma stretch_samples_lemma vs ts tb N : stretch_params vs ts tb -> (0 < N)%Z ->
  let Cw k := Cs vs ts tb (Sr_w N k) in
  let Cr k := Cs vs ts tb (Sr_rho N k) in
  Cw 0%Z = -1 /\ Cw N = 0 /\
  (forall k, (0 <= k < N)%Z -> Cw k < Cr k /\ Cr k < Cw (k + 1)%Z) /\
  (forall k, (0 <= k <= N)%Z -> -1 <= Cw k <= 0) /\
  (forall k, (0 <= k < N)%Z -> -1 < Cr k < 0).
Proof.
  intros Hp HN Cw Cr. subst Cw Cr. cbv beta.
  destruct (stretch_monotone_lemma vs ts tb Hp) as (M & E0 & E1).
  destruct (Sr_w_ends N HN) as [W0 WN].
  assert (forall k, (0 <= k < N)%Z ->
    Cs vs ts tb (Sr_w N k) < Cs vs ts tb (Sr_rho N k) /\
    Cs vs ts tb (Sr_rho N k) < Cs vs ts tb (Sr_w N (k + 1))) as IL.
  { intros k Hk. destruct (Sr_order N k HN) as (A & B & _).
    pose proof (Sr_w_range N k ltac:(lia) HN) as R0.
    pose proof (Sr_w_range N (k + 1) ltac:(lia) HN) as R1.
    split; apply M; lra. }
  assert (forall k, (0 <= k <= N)%Z -> -1 <= Cs vs ts tb (Sr_w N k) <= 0) as RW.
  { intros k Hk. apply stretch_range; [exact Hp|]. apply Sr_w_range; assumption. }
  split; [rewrite W0; exact E0|]. split; [rewrite WN; exact E1|].
  split; [exact IL|]. split; [exact RW|].
  intros k Hk. destruct (IL k Hk) as [A B].
  pose proof (RW k ltac:(lia)). pose proof (RW (k + 1)%Z ltac:(lia)). lra.
Qed.
