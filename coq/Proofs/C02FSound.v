(** Soundness of the float-level correspondence checker Corr/C02F.v with respect to the proved error bound:
    whenever [check_case] accepts a case, the value the REAL kernel returned (the float with bit pattern Rb)
    is finite, lies within delta M = 11 * 2^-53 * M + 7 * 2^-1075 of the exact convex combination of the
    eight node values at p = X - i, q = Y - j, and within [min - delta M, max + delta M] of the eight values.
    So every case the harness replays is an instance of (T2)/(T3)/(T4) of Proofs/TrilinearFloatProofs.v for
    the arithmetic the machine code really performed. *)
From Coq Require Import ZArith Reals List Bool Floats.
From Ladim Require Import Model.TrilinearFloat Corr.C02F Proofs.TrilinearFloatProofs.
Import ListNotations.

Lemma sf_same_eq : forall x y, sf_same x y = true -> x = y.
Proof.
  intros [s| s| |s m e] [t| t| |t n f]; simpl; try discriminate; intros H.
  - apply eqb_prop in H. congruence.
  - apply eqb_prop in H. congruence.
  - reflexivity.
  - apply andb_true_iff in H. destruct H as [H H3]. apply andb_true_iff in H. destruct H as [H1 H2].
    apply eqb_prop in H1. apply Pos.eqb_eq in H2. apply Z.eqb_eq in H3. congruence.
Qed.

Lemma same_bits_eq : forall x y : float, same_bits x y = true -> x = y.
Proof. intros x y H. apply Prim2SF_inj. apply sf_same_eq. exact H. Qed.

Open Scope R_scope.

Theorem check_case_sound : forall xb i yb j ab d00 u00 d01 u01 d10 u10 d11 u11 mb rb,
  check_case [xb; i; yb; j; ab; d00; u00; d01; u01; d10; u10; d11; u11; mb; rb] = true ->
  let X := float_of_bits xb in let Y := float_of_bits yb in let A := float_of_bits ab in
  let D00 := float_of_bits d00 in let U00 := float_of_bits u00 in
  let D01 := float_of_bits d01 in let U01 := float_of_bits u01 in
  let D10 := float_of_bits d10 in let U10 := float_of_bits u10 in
  let D11 := float_of_bits d11 in let U11 := float_of_bits u11 in
  let M := float_of_bits mb in
  let observed := float_of_bits rb in
  observed = kernel_f X i Y j A D00 U00 D01 U01 D10 U10 D11 U11 /\
  fin observed /\
  Rabs (FR observed - trilinear_R (FR A) (FR X - IZR i) (FR Y - IZR j)
                        (FR D00) (FR U00) (FR D01) (FR U01) (FR D10) (FR U10) (FR D11) (FR U11))
    <= delta (FR M) /\
  min8 (FR D00) (FR U00) (FR D01) (FR U01) (FR D10) (FR U10) (FR D11) (FR U11) - delta (FR M)
    <= FR observed <=
  max8 (FR D00) (FR U00) (FR D01) (FR U01) (FR D10) (FR U10) (FR D11) (FR U11) + delta (FR M).
Proof.
  intros xb i yb j ab d00 u00 d01 u01 d10 u10 d11 u11 mb rb H. cbv zeta.
  unfold check_case in H. apply andb_true_iff in H. destruct H as [Hs Hb].
  unfold check_side in Hs. unfold check_bits in Hb.
  apply andb_true_iff in Hb. destruct Hb as [_ Hb].
  unfold result_agrees in Hb. apply andb_true_iff in Hb. destruct Hb as [Hb _].
  apply same_bits_eq in Hb. rewrite <- Hb.
  split; [reflexivity|].
  exact (kernel_f_error_checked _ _ _ _ _ _ _ _ _ _ _ _ _ _ Hs).
Qed.
Print Assumptions check_case_sound.
