(** C08: a warm start from the record written at step r continues the run as if it had never stopped. *)
From Coq Require Import ZArith List Bool Lia.
From Ladim Require Import Base.Num Model.Sim Proofs.SimProofs Proofs.StateProofs.
Import ListNotations.
Open Scope Z_scope.

Section Restart.
  Variables V C : Type.
  Variable release_at : Z -> list (Z * V).
  Variable forcef : Z -> V -> V.
  Variable cachef : Z -> V -> C.
  Variable trackf : Z -> V -> C -> V * bool.
  Variable ibmf : Z -> V -> V * bool.
  Variable due : Z -> bool.
  (** forcing-derived variables are overwritten by Forcing.update, not accumulated *)
  Hypothesis forcef_idem : forall n v, forcef n (forcef n v) = forcef n v.

  Notation sim := (sim V C).
  Notation step := (sim_step V C release_at forcef cachef trackf ibmf due).
  Notation step_gen := (sim_step_gen V C release_at forcef cachef trackf ibmf due).

  Lemma step_recs (s : sim) n : crashed s = false ->
    recs (step s n) = recs s ++ (if due n then [snapshot V n (after_release V C release_at forcef s false n)] else []).
  Proof.
    intro H. unfold sim_step. rewrite step_spec by exact H. cbn [recs andb]. destruct (due n); [reflexivity|].
    rewrite app_nil_r. reflexivity.
  Qed.

  (** the future depends on the particle list and the pid counter only; the records grow by the same list *)
  Lemma fold_same l : forall (s1 s2 : sim), crashed s1 = false -> crashed s2 = false ->
    parts s1 = parts s2 -> npid s1 = npid s2 ->
    parts (fold_left step l s1) = parts (fold_left step l s2) /\
    npid (fold_left step l s1) = npid (fold_left step l s2) /\
    exists X, recs (fold_left step l s1) = recs s1 ++ X /\ recs (fold_left step l s2) = recs s2 ++ X.
  Proof.
    induction l as [|n l IH]; intros s1 s2 H1 H2 P N; cbn [fold_left].
    - repeat split; try assumption. exists []. rewrite !app_nil_r. split; reflexivity.
    - assert (after_release V C release_at forcef s1 false n = after_release V C release_at forcef s2 false n) as AR.
      { unfold after_release. rewrite P, N. reflexivity. }
      destruct (IH (step s1 n) (step s2 n)) as (A & B & X & E1 & E2).
      + apply step_not_crashed. exact H1.
      + apply step_not_crashed. exact H2.
      + unfold sim_step. rewrite !step_spec by assumption. cbn [parts]. rewrite AR. reflexivity.
      + unfold sim_step. rewrite !step_spec by assumption. cbn [npid]. rewrite N. reflexivity.
      + split; [exact A|]. split; [exact B|].
        rewrite (step_recs s1 n H1) in E1. rewrite (step_recs s2 n H2) in E2. rewrite AR in E1.
        exists ((if due n then [snapshot V n (after_release V C release_at forcef s2 false n)] else []) ++ X).
        rewrite E1, E2, <- !app_assoc. split; reflexivity.
  Qed.

  Lemma restore_snapshot (s : sim) n np :
    parts (restore V C (snapshot V n (after_release V C release_at forcef s false n)) np)
    = after_release V C release_at forcef s false n.
  Proof.
    unfold restore, snapshot. cbn [parts rrows]. rewrite map_map.
    assert (Forall (fun p : part V => palive p = true) (after_release V C release_at forcef s false n)) as AL.
    { unfold after_release. apply Forall_forall. intros q Hq. apply in_map_iff in Hq as (p & <- & Hp). cbn.
      apply in_app_or in Hp as [Hp|Hp].
      - pose proof (compactify_all_alive V (parts s)) as F. rewrite Forall_forall in F. apply F. exact Hp.
      - pose proof (mk_new_alive V (release_at n) (npid s)) as F. rewrite Forall_forall in F. apply F. exact Hp. }
    induction (after_release V C release_at forcef s false n) as [|[t i v a] l IH]; cbn [map]; [reflexivity|].
    inversion AL; subst. cbn in H1. subst a. f_equal. apply IH. assumption.
  Qed.

  Lemma forced_idem n (l : list (part V)) : map (forced V forcef n) (map (forced V forcef n) l) = map (forced V forcef n) l.
  Proof. rewrite map_map. apply map_ext. intros [t i v a]. unfold forced. cbn. rewrite forcef_idem. reflexivity. Qed.

  Lemma after_release_alive (s : sim) skip n :
    Forall (fun p : part V => palive p = true) (after_release V C release_at forcef s skip n).
  Proof.
    unfold after_release. apply Forall_forall. intros q Hq. apply in_map_iff in Hq as (p & <- & Hp). cbn.
    apply in_app_or in Hp as [Hp|Hp].
    - pose proof (compactify_all_alive V (parts s)) as F. rewrite Forall_forall in F. apply F. exact Hp.
    - pose proof (mk_new_alive V (if skip then [] else release_at n) (npid s)) as F. rewrite Forall_forall in F. apply F. exact Hp.
  Qed.

  (** the catch-up step of Model.__init__ after restoring the record of step n re-creates the state the
      uninterrupted run has after step n *)
  Lemma catchup (s : sim) n : crashed s = false ->
    let rec_n := snapshot V n (after_release V C release_at forcef s false n) in
    let np := npid s + Z.of_nat (length (release_at n)) in
    let w := step_gen false true (restore V C rec_n np) n in
    parts w = parts (step s n) /\ npid w = npid (step s n) /\ recs w = [] /\ crashed w = false.
  Proof.
    intros H rec_n np w.
    assert (crashed (restore V C rec_n np) = false) as HR by reflexivity.
    assert (after_release V C release_at forcef (restore V C rec_n np) true n = after_release V C release_at forcef s false n) as AW.
    { transitivity (map (forced V forcef n) (compactify V (parts (restore V C rec_n np)) ++ [])); [reflexivity|].
      unfold rec_n. rewrite restore_snapshot, app_nil_r.
      rewrite (compactify_alive V _ (after_release_alive s false n)).
      unfold after_release. apply forced_idem. }
    unfold w. rewrite step_spec by exact HR. unfold sim_step. rewrite step_spec by exact H.
    cbn [parts npid recs crashed andb]. rewrite AW. repeat split. unfold np. cbn. lia.
  Qed.

  (** C08-T1: stop after the record of step r (0 <= r < N, a record is due at r), restart from that record
      with the pid counter of that moment: the records of the restarted run are exactly the records the
      uninterrupted run writes after step r, and the final particle lists coincide *)
  Theorem warm_equals_cold_suffix N r : 0 <= r < N -> due r = true ->
    let before := fold_left step (zrange 0 r) (sim_init V C) in
    let rec_r := snapshot V r (after_release V C release_at forcef before false r) in
    let np := npid before + Z.of_nat (length (release_at r)) in
    let cold := cold_run V C release_at forcef cachef trackf ibmf due N in
    let warm := warm_run V C release_at forcef cachef trackf ibmf due rec_r np N in
    recs cold = recs before ++ [rec_r] ++ recs warm /\ parts cold = parts warm /\ npid cold = npid warm /\
    crashed warm = false.
  Proof.
    intros Hr D before rec_r np cold warm.
    assert (crashed before = false) as HB by (apply fold_not_crashed; reflexivity).
    assert (zrange 0 N = zrange 0 r ++ r :: zrange (r + 1) N) as SP.
    { rewrite (zrange_split 0 r N) by lia. f_equal. rewrite (zrange_split r (r + 1) N) by lia.
      unfold zrange at 1. replace (r + 1 - r) with 1 by lia. reflexivity. }
    assert (cold = fold_left step (zrange (r + 1) N) (step before r)) as EC.
    { unfold cold, cold_run. rewrite SP, fold_left_app. reflexivity. }
    destruct (catchup before r HB) as (P0 & N0 & R0 & C0). fold rec_r np in P0, N0, R0, C0.
    set (w0 := step_gen false true (restore V C rec_r np) r) in *.
    destruct (fold_same (zrange (r + 1) N) (step before r) w0) as (A & B & X & E1 & E2).
    - apply step_not_crashed. exact HB.
    - exact C0.
    - symmetry. exact P0.
    - symmetry. exact N0.
    - assert (warm = fold_left step (zrange (r + 1) N) w0) as EW by reflexivity.
      rewrite EC, EW. repeat split.
      + rewrite E1, E2, R0, (step_recs before r HB), D, <- app_assoc. reflexivity.
      + exact A.
      + exact B.
      + apply fold_not_crashed. exact C0.
  Qed.
End Restart.
