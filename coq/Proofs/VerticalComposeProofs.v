(** C02-T5: the level search (C12) composed with the trilinear kernel (C02): a field that is linear in the
    level depth (over a flat bottom: the same level depths in the surrounding columns) and in x, y is
    reproduced at the particle's own depth CLAMPED to the range of the levels — linear in depth between the
    two bracketing s-levels, constant above the top and below the bottom level. *)
From Coq Require Import ZArith QArith List Bool Lia Lqa.
From Ladim Require Import Base.Num Model.VGrid Model.Interp Proofs.VGridProofs Proofs.InterpProofs.
Import ListNotations.
Open Scope Q_scope.

Theorem vertical_clamped_linear (F : arr3) (zr : list Q) (Zp x y c0 c1 be ga : Q) :
  increasing zr = true -> (2 <= Z.of_nat (length zr))%Z ->
  let KA := z2s_kernel zr Zp in
  let i := qtrunc x in let j := qtrunc y in
  (forall dj di, (dj = 0 \/ dj = 1)%Z -> (di = 0 \/ di = 1)%Z ->
     reads_as F (fst KA - 1) (j + dj) (i + di)
              (c0 + c1 * nthQ zr (fst KA - 1) + be * inject_Z (i + di) + ga * inject_Z (j + dj)) /\
     reads_as F (fst KA) (j + dj) (i + di)
              (c0 + c1 * nthQ zr (fst KA) + be * inject_Z (i + di) + ga * inject_Z (j + dj))) ->
  exists r, fst (trilinear F x y (fst KA) (snd KA)) = Some r /\
            r == c0 + c1 * clamped_depth zr Zp + be * x + ga * y.
Proof.
  intros Hinc HN KA i j Hnodes.
  pose proof (z2s_clamped_depth_lemma zr Zp Hinc HN) as CL. fold KA in CL.
  destruct KA as [K A] eqn:EKA. cbn [fst snd] in *.
  destruct (trilinear_exact_on_linear F x y K A (c0 + c1 * nthQ zr (K - 1)) (c0 + c1 * nthQ zr K) be ga) as (r & Hr & Er).
  { intros dj di Hdj Hdi. destruct (Hnodes dj di Hdj Hdi) as [N0 N1]. split; assumption. }
  exists r. split; [exact Hr|]. rewrite Er. unfold weighted_depth in CL. rewrite <- CL. ring.
Qed.
