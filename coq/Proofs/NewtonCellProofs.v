(** Proofs/NewtonCellProofs.v — local quadratic convergence of the Newton update of
    [ladim.sample.bilin_inv] (Model/Geo.v [bilin_step]) inside ONE grid cell.

    Everything is over the exact rationals [Q] (as the model; float rounding is not modelled) and every
    theorem is closed under the global context (see the [Print Assumptions] at the end).

    SETTING.  Inside one cell the two interpolated coordinate fields are exactly bilinear in the
    offsets (x, y) of the cell:
        F(x, y) = a0 + a1 x + a2 y + a3 x y          G(x, y) = b0 + b1 x + b2 y + b3 x y
    ([bcell] = the four coefficients, [bval] = the value, [bdx]/[bdy] = the partial derivatives
    Fx = a1 + a3 y, Fy = a2 + a3 x, [ndet] = Fx Gy - Fy Gx).  The Newton update is
        x' = x - ( Gy (F - f) - Fy (G - g)) / det        y' = y - (- Gx (F - f) + Fx (G - g)) / det
    ([newton_x], [newton_y]).  This IS the update of the model: [bilin_step_is_newton_cell] shows that
    whenever [bilin_step f g F G tol x y = StNext x' y'], with (i, j) the (clipped) cell index the model
    uses, kf, kg the node values of that cell and p = x - i, q = y - j the offsets, then
        x' - i == newton_x (cell_of_quad kf) (cell_of_quad kg) f g p q   (same for y'), and det <> 0,
    where [cell_of_quad] turns the four node values into the coefficients a0..a3
    ([bil_est_bval], [bil_dx_bdx], [bil_dy_bdy]: the model's estimate and derivatives are [bval], [bdx], [bdy]).

    WHAT IS PROVED.  (xs, ys) is a root in the cell's bilinear map: F(xs, ys) == f, G(xs, ys) == g
    (the root may lie anywhere, the bilinear map is used as a polynomial); ex = x - xs, ey = y - ys.
    N1 [newton_error_identity]   x' - xs == ( Gy a3 - Fy b3) ex ey / det,
                                 y' - ys == (- Gx a3 + Fx b3) ex ey / det       (exact; needs det <> 0 only).
       i.e. (x' - xs, y' - ys) = J(x,y)^-1 (a3 ex ey, b3 ex ey).  On an affine cell (a3 = b3 = 0) this gives
       the one-step exactness already proved in GeoProofs ([newton_affine_exact]).
    N2 [newton_error_bound_x], [newton_error_bound_y]
                                 |x' - xs| <= (|Gy| |a3| + |Fy| |b3|) / |det| * (|ex| |ey|)
                                 |y' - ys| <= (|Gx| |a3| + |Fx| |b3|) / |det| * (|ex| |ey|)
       [newton_quadratic_sharp]  max(|x'-xs|, |y'-ys|) <= (C M / |det|) e^2,
                                 C = max(|Fy| + |Gy|, |Fx| + |Gx|), M = max(|a3|, |b3|), e = max(|ex|, |ey|)
       [newton_quadratic]        the same with S = |Fx| + |Fy| + |Gx| + |Gy| in place of C.
       Valid at EVERY point (x, y) with det(x, y) <> 0: quadratic convergence with an explicit constant.
    N3 [quadratic_recurrence]    abstract: 0 <= e_k, e_{k+1} <= kappa e_k^2 (k < n)  ==>  e_n <= (kappa e_0)^(2^n - 1) e_0
       (powers with natural exponent are [qpow r n], which is [r ^ Z.of_nat n]: [qpow_Qpower]);
       [quadratic_recurrence_geometric]: if moreover kappa e_0 <= 1 then also e_n <= (kappa e_0)^n e_0 and e_n <= e_0.
       [newton_cell_convergence] the Newton iterates [newton_it] in one cell: if on the unit cell [0,1]^2
       |det| >= dmin > 0 and both sums |Fy|+|Gy|, |Fx|+|Gx| are <= S ([cell_ok A B dmin Sb]),
       kappa = S M / dmin ([kappa]), and the iterates 0 .. n-1 lie in the cell, then
       err_n <= (kappa err_0)^(2^n - 1) err_0   (err = max-norm error; err_0 <= 1 for a start and a root in the
       cell, so kappa < 1 makes kappa err_0 < 1).
       [newton_cell_convergence_ball] no hypothesis on the iterates: if the max-norm ball of radius err_0
       around the root lies in the cell and kappa err_0 <= 1, all iterates stay in that ball (hence in the
       cell) and err_n <= (kappa err_0)^(2^n - 1) err_0, err_n <= (kappa err_0)^n err_0, for every n.
    N4 Examples: the curved cell a = (10, 1/8, 1/100, 1/400), b = (60, -1/200, 1/16, 1/800), root (1/2, 1/4):
       one Newton step from (0,0) (error 1/2 -> 27/10064, N2 bound 13/1258; the coordinate bound of N2 is
       attained) and from (1,1) (3/4 -> 27/3488, bound 315/13952); the uniform constants of the cell
       (|det| >= 1/128, S = 53/400, M = 1/400, kappa = 53/1250) and the N3 bound after two steps; the same
       steps run through the model's [bilin_step], and [bilin_inv] on the 2 x 2 arrays of the node values.

    WHAT REMAINS OPEN.  The statements concern ONE cell's bilinear map.  When an iterate leaves the cell the
    real code (and the model) recomputes the cell index (clipped to the array) and continues with the
    bilinear map of the NEIGHBOURING cell; F, G are then only piecewise bilinear (continuous, with kinks in
    the derivative across cell edges) and nothing here addresses convergence across cells, nor the
    behaviour from the actual start point (the centre of the array), nor whether 7 iterations suffice on a
    given grid.  [newton_cell_convergence] therefore carries "the iterates stay in the cell" as a hypothesis,
    and [newton_cell_convergence_ball] replaces it by a (strong) condition on the start point.
    Float rounding and the tolerance test (which can only stop the iteration earlier) are not modelled. *)
From Coq Require Import ZArith QArith Qabs Qminmax Qpower Qround Qreduction List Bool Lia Lqa.
From Ladim Require Import Base.Num Model.Geo.
Import ListNotations.
Open Scope Q_scope.

(** * The bilinear map of one cell and its Newton update *)
Record bcell := BCell { c0 : Q; c1 : Q; c2 : Q; c3 : Q }.
Definition bval (A : bcell) (x y : Q) : Q := c0 A + c1 A * x + c2 A * y + c3 A * x * y.
Definition bdx (A : bcell) (y : Q) : Q := c1 A + c3 A * y.
Definition bdy (A : bcell) (x : Q) : Q := c2 A + c3 A * x.
Definition ndet (A B : bcell) (x y : Q) : Q := bdx A y * bdy B x - bdy A x * bdx B y.
Definition newton_x (A B : bcell) (f g x y : Q) : Q :=
  x - (bdy B x * (bval A x y - f) - bdy A x * (bval B x y - g)) / ndet A B x y.
Definition newton_y (A B : bcell) (f g x y : Q) : Q :=
  y - (- bdx B y * (bval A x y - f) + bdx A y * (bval B x y - g)) / ndet A B x y.

(** ** Link with the model (Model/Geo.v) *)
Definition cell_of_quad (k : quad) : bcell :=
  BCell (n00 k) (n01 k - n00 k) (n10 k - n00 k) (n11 k - n10 k - n01 k + n00 k).

Lemma bil_est_bval k p q : bil_est k p q == bval (cell_of_quad k) p q.
Proof. unfold bil_est, bval, cell_of_quad. cbn [c0 c1 c2 c3]. ring. Qed.
Lemma bil_dx_bdx k q : bil_dx k q == bdx (cell_of_quad k) q.
Proof. unfold bil_dx, bdx, cell_of_quad. cbn [c0 c1 c2 c3]. ring. Qed.
Lemma bil_dy_bdy k p : bil_dy k p == bdy (cell_of_quad k) p.
Proof. unfold bil_dy, bdy, cell_of_quad. cbn [c0 c1 c2 c3]. ring. Qed.

Lemma StNext_inj a b c d : StNext a b = StNext c d -> a = c /\ b = d.
Proof. intro H. injection H as H1 H2. split; assumption. Qed.

(** a Newton update of the model is [newton_x], [newton_y] of the cell the model picked, in cell offsets *)
Lemma bilin_step_is_newton_cell f g F G tol x y x' y' kf kg :
  let i := cell_index (nrow F) x in
  let j := cell_index (ncol F) y in
  corners F i j = Some kf -> corners G i j = Some kg ->
  bilin_step f g F G tol x y = StNext x' y' ->
  ~ ndet (cell_of_quad kf) (cell_of_quad kg) (x - inject_Z i) (y - inject_Z j) == 0 /\
  x' - inject_Z i == newton_x (cell_of_quad kf) (cell_of_quad kg) f g (x - inject_Z i) (y - inject_Z j) /\
  y' - inject_Z j == newton_y (cell_of_quad kf) (cell_of_quad kg) f g (x - inject_Z i) (y - inject_Z j).
Proof.
  intros i j Hkf Hkg Hstep. subst i j. unfold bilin_step in Hstep. rewrite Hkf, Hkg in Hstep.
  set (p := x - inject_Z (cell_index (nrow F) x)) in *.
  set (q := y - inject_Z (cell_index (ncol F) y)) in *.
  destruct (Qlt_bool _ tol); [discriminate|].
  destruct (Qeq_bool _ 0) eqn:E; [discriminate|].
  apply Qeq_bool_neq in E.
  assert (Hd : ~ ndet (cell_of_quad kf) (cell_of_quad kg) p q == 0).
  { unfold ndet. rewrite <- !bil_dx_bdx, <- !bil_dy_bdy. exact E. }
  apply StNext_inj in Hstep. destruct Hstep as [Hx Hy]. subst x' y'.
  split; [exact Hd|]. rewrite !Qred_correct.
  unfold newton_x, newton_y.
  rewrite <- !bil_est_bval.
  unfold ndet in *. rewrite <- !bil_dx_bdx, <- !bil_dy_bdy in *.
  split.
  - transitivity (p - (bil_dy kg p * (bil_est kf p q - f) - bil_dy kf p * (bil_est kg p q - g)) /
                      (bil_dx kf q * bil_dy kg p - bil_dy kf p * bil_dx kg q)); [|reflexivity].
    subst p q. unfold Qdiv. ring.
  - transitivity (q - (- bil_dx kg q * (bil_est kf p q - f) + bil_dx kf q * (bil_est kg p q - g)) /
                      (bil_dx kf q * bil_dy kg p - bil_dy kf p * bil_dx kg q)); [|reflexivity].
    subst p q. unfold Qdiv. ring.
Qed.

(** * N1: the exact error identity *)

(** Taylor expansion of a bilinear map about (x, y), exact because the only second-order term is a3 x y *)
Lemma bval_taylor A x y xs ys :
  bval A xs ys == bval A x y - bdx A y * (x - xs) - bdy A x * (y - ys) + c3 A * (x - xs) * (y - ys).
Proof. unfold bval, bdx, bdy. ring. Qed.

Lemma newton_error_identity_x A B f g x y xs ys :
  bval A xs ys == f -> bval B xs ys == g -> ~ ndet A B x y == 0 ->
  newton_x A B f g x y - xs ==
  (bdy B x * (c3 A * (x - xs) * (y - ys)) - bdy A x * (c3 B * (x - xs) * (y - ys))) / ndet A B x y.
Proof.
  intros Hf Hg Hd. unfold newton_x. rewrite <- Hf, <- Hg.
  rewrite (bval_taylor A x y xs ys), (bval_taylor B x y xs ys).
  unfold ndet in *. field. exact Hd.
Qed.

Lemma newton_error_identity_y A B f g x y xs ys :
  bval A xs ys == f -> bval B xs ys == g -> ~ ndet A B x y == 0 ->
  newton_y A B f g x y - ys ==
  (- bdx B y * (c3 A * (x - xs) * (y - ys)) + bdx A y * (c3 B * (x - xs) * (y - ys))) / ndet A B x y.
Proof.
  intros Hf Hg Hd. unfold newton_y. rewrite <- Hf, <- Hg.
  rewrite (bval_taylor A x y xs ys), (bval_taylor B x y xs ys).
  unfold ndet in *. field. exact Hd.
Qed.

(** N1: (x' - xs, y' - ys) = J(x,y)^-1 (a3 ex ey, b3 ex ey) *)
Theorem newton_error_identity A B f g x y xs ys :
  bval A xs ys == f -> bval B xs ys == g -> ~ ndet A B x y == 0 ->
  let ex := x - xs in let ey := y - ys in
  newton_x A B f g x y - xs == (  bdy B x * (c3 A * ex * ey) - bdy A x * (c3 B * ex * ey)) / ndet A B x y /\
  newton_y A B f g x y - ys == (- bdx B y * (c3 A * ex * ey) + bdx A y * (c3 B * ex * ey)) / ndet A B x y.
Proof.
  intros Hf Hg Hd ex ey. subst ex ey. split.
  - apply newton_error_identity_x; assumption.
  - apply newton_error_identity_y; assumption.
Qed.

(** the same, cleared of the division: J (x' - xs, y' - ys) = (a3 ex ey, b3 ex ey) *)
Lemma newton_error_times_det A B f g x y xs ys :
  bval A xs ys == f -> bval B xs ys == g -> ~ ndet A B x y == 0 ->
  (newton_x A B f g x y - xs) * ndet A B x y == (bdy B x * c3 A - bdy A x * c3 B) * ((x - xs) * (y - ys)) /\
  (newton_y A B f g x y - ys) * ndet A B x y == (bdx A y * c3 B - bdx B y * c3 A) * ((x - xs) * (y - ys)).
Proof.
  intros Hf Hg Hd.
  destruct (newton_error_identity A B f g x y xs ys Hf Hg Hd) as [Ex Ey]. cbv zeta in Ex, Ey.
  rewrite Ex, Ey. split; field; exact Hd.
Qed.

(** corollary: on an affine cell (a3 = b3 = 0) one step is exact (cf. GeoProofs.newton_affine_step) *)
Corollary newton_affine_exact A B f g x y xs ys :
  c3 A == 0 -> c3 B == 0 ->
  bval A xs ys == f -> bval B xs ys == g -> ~ ndet A B x y == 0 ->
  newton_x A B f g x y == xs /\ newton_y A B f g x y == ys.
Proof.
  intros HA HB Hf Hg Hd.
  destruct (newton_error_identity A B f g x y xs ys Hf Hg Hd) as [Ex Ey]. cbv zeta in Ex, Ey.
  rewrite HA, HB in Ex, Ey.
  assert (Zx : newton_x A B f g x y - xs == 0) by (rewrite Ex; field; exact Hd).
  assert (Zy : newton_y A B f g x y - ys == 0) by (rewrite Ey; field; exact Hd).
  split; lra.
Qed.

(** * N2: the bound *)
Lemma Qabs_sub_le a b : Qabs (a - b) <= Qabs a + Qabs b.
Proof.
  unfold Qminus. eapply Qle_trans; [apply Qabs_triangle|]. rewrite Qabs_opp. apply Qle_refl.
Qed.

Lemma Qabs_pos_neq d : ~ d == 0 -> 0 < Qabs d.
Proof.
  intro Hd. destruct (Qlt_le_dec 0 (Qabs d)) as [H|H]; [exact H|exfalso].
  apply Hd. pose proof (Qabs_nonneg d) as H0.
  assert (E : Qabs d <= 0) by exact H. apply Qabs_Qle_condition in E. lra.
Qed.

(** the generic step: w det = (u c - v d) E  ==>  |w| |det| <= (|u| |c| + |v| |d|) |E| *)
Lemma adj_bound u v c d E w det :
  w * det == (u * c - v * d) * E ->
  Qabs w * Qabs det <= (Qabs u * Qabs c + Qabs v * Qabs d) * Qabs E.
Proof.
  intro H. rewrite <- Qabs_Qmult, H, Qabs_Qmult.
  apply Qmult_le_compat_r; [|apply Qabs_nonneg].
  eapply Qle_trans; [apply Qabs_sub_le|]. rewrite !Qabs_Qmult. apply Qle_refl.
Qed.

Lemma Qle_div_of_mul a b d : 0 < d -> a * d <= b -> a <= b / d.
Proof. intros Hd H. apply Qle_shift_div_l; assumption. Qed.

(** N2, first coordinate *)
Theorem newton_error_bound_x A B f g x y xs ys :
  bval A xs ys == f -> bval B xs ys == g -> ~ ndet A B x y == 0 ->
  Qabs (newton_x A B f g x y - xs) <=
  (Qabs (bdy B x) * Qabs (c3 A) + Qabs (bdy A x) * Qabs (c3 B)) / Qabs (ndet A B x y)
  * (Qabs (x - xs) * Qabs (y - ys)).
Proof.
  intros Hf Hg Hd.
  destruct (newton_error_times_det A B f g x y xs ys Hf Hg Hd) as [Ex _].
  apply adj_bound in Ex. rewrite Qabs_Qmult in Ex.
  pose proof (Qabs_pos_neq _ Hd) as Hp.
  assert (E : (Qabs (bdy B x) * Qabs (c3 A) + Qabs (bdy A x) * Qabs (c3 B)) / Qabs (ndet A B x y)
              * (Qabs (x - xs) * Qabs (y - ys)) ==
              (Qabs (bdy B x) * Qabs (c3 A) + Qabs (bdy A x) * Qabs (c3 B))
              * (Qabs (x - xs) * Qabs (y - ys)) / Qabs (ndet A B x y)) by (field; lra).
  rewrite E. apply Qle_div_of_mul; assumption.
Qed.

(** N2, second coordinate *)
Theorem newton_error_bound_y A B f g x y xs ys :
  bval A xs ys == f -> bval B xs ys == g -> ~ ndet A B x y == 0 ->
  Qabs (newton_y A B f g x y - ys) <=
  (Qabs (bdx B y) * Qabs (c3 A) + Qabs (bdx A y) * Qabs (c3 B)) / Qabs (ndet A B x y)
  * (Qabs (x - xs) * Qabs (y - ys)).
Proof.
  intros Hf Hg Hd.
  destruct (newton_error_times_det A B f g x y xs ys Hf Hg Hd) as [_ Ey].
  apply adj_bound in Ey. rewrite Qabs_Qmult in Ey.
  pose proof (Qabs_pos_neq _ Hd) as Hp.
  assert (E : (Qabs (bdx B y) * Qabs (c3 A) + Qabs (bdx A y) * Qabs (c3 B)) / Qabs (ndet A B x y)
              * (Qabs (x - xs) * Qabs (y - ys)) ==
              (Qabs (bdx B y) * Qabs (c3 A) + Qabs (bdx A y) * Qabs (c3 B))
              * (Qabs (x - xs) * Qabs (y - ys)) / Qabs (ndet A B x y)) by (field; lra).
  rewrite E. apply Qle_div_of_mul; [assumption|].
  eapply Qle_trans; [exact Ey|]. apply Qmult_le_compat_r.
  - lra.
  - pose proof (Qabs_nonneg (x - xs)). pose proof (Qabs_nonneg (y - ys)). nra.
Qed.

(** ** the max-norm form *)
Definition curv (A B : bcell) : Q := Qmax (Qabs (c3 A)) (Qabs (c3 B)).            (* M *)
Definition colx (A B : bcell) (x : Q) : Q := Qabs (bdy A x) + Qabs (bdy B x).   (* |Fy| + |Gy| *)
Definition coly (A B : bcell) (y : Q) : Q := Qabs (bdx A y) + Qabs (bdx B y).   (* |Fx| + |Gx| *)
Definition csum (A B : bcell) (x y : Q) : Q := Qmax (colx A B x) (coly A B y).  (* C *)
Definition ssum (A B : bcell) (x y : Q) : Q :=                                  (* S *)
  Qabs (bdx A y) + Qabs (bdy A x) + Qabs (bdx B y) + Qabs (bdy B x).
Definition err (xs ys x y : Q) : Q := Qmax (Qabs (x - xs)) (Qabs (y - ys)).     (* e *)

Lemma curv_nonneg A B : 0 <= curv A B.
Proof. unfold curv. eapply Qle_trans; [apply (Qabs_nonneg (c3 A))|apply Q.le_max_l]. Qed.
Lemma err_nonneg xs ys x y : 0 <= err xs ys x y.
Proof. unfold err. eapply Qle_trans; [apply (Qabs_nonneg (x - xs))|apply Q.le_max_l]. Qed.
Lemma colx_nonneg A B x : 0 <= colx A B x.
Proof. unfold colx. pose proof (Qabs_nonneg (bdy A x)). pose proof (Qabs_nonneg (bdy B x)). lra. Qed.
Lemma coly_nonneg A B y : 0 <= coly A B y.
Proof. unfold coly. pose proof (Qabs_nonneg (bdx A y)). pose proof (Qabs_nonneg (bdx B y)). lra. Qed.
Lemma csum_le_ssum A B x y : csum A B x y <= ssum A B x y.
Proof.
  unfold csum, colx, coly, ssum.
  pose proof (Qabs_nonneg (bdx A y)). pose proof (Qabs_nonneg (bdy A x)).
  pose proof (Qabs_nonneg (bdx B y)). pose proof (Qabs_nonneg (bdy B x)).
  apply Q.max_lub; lra.
Qed.

(** |u| |a| + |v| |b| <= (|v| + |u|) M, and |ex| |ey| <= e^2 *)
Lemma weighted_le u v a b M : 0 <= u -> 0 <= v -> 0 <= a -> a <= M -> 0 <= b -> b <= M ->
  u * a + v * b <= (v + u) * M.
Proof. intros. nra. Qed.
Lemma prod_le_sq a b e : 0 <= a -> a <= e -> 0 <= b -> b <= e -> a * b <= e * e.
Proof. intros. nra. Qed.

(** the two coordinates, multiplied form: |x'-xs| |det| <= colx M e^2, |y'-ys| |det| <= coly M e^2 *)
Lemma newton_step_mul A B f g x y xs ys :
  bval A xs ys == f -> bval B xs ys == g -> ~ ndet A B x y == 0 ->
  Qabs (newton_x A B f g x y - xs) * Qabs (ndet A B x y)
    <= colx A B x * curv A B * (err xs ys x y * err xs ys x y) /\
  Qabs (newton_y A B f g x y - ys) * Qabs (ndet A B x y)
    <= coly A B y * curv A B * (err xs ys x y * err xs ys x y).
Proof.
  intros Hf Hg Hd.
  destruct (newton_error_times_det A B f g x y xs ys Hf Hg Hd) as [Ex Ey].
  apply adj_bound in Ex. apply adj_bound in Ey. rewrite Qabs_Qmult in Ex, Ey.
  pose proof (Qabs_nonneg (bdx A y)) as P1. pose proof (Qabs_nonneg (bdy A x)) as P2.
  pose proof (Qabs_nonneg (bdx B y)) as P3. pose proof (Qabs_nonneg (bdy B x)) as P4.
  pose proof (Qabs_nonneg (c3 A)) as P5. pose proof (Qabs_nonneg (c3 B)) as P6.
  pose proof (Qabs_nonneg (x - xs)) as P7. pose proof (Qabs_nonneg (y - ys)) as P8.
  assert (M1 : Qabs (c3 A) <= curv A B) by apply Q.le_max_l.
  assert (M2 : Qabs (c3 B) <= curv A B) by apply Q.le_max_r.
  assert (E1 : Qabs (x - xs) <= err xs ys x y) by apply Q.le_max_l.
  assert (E2 : Qabs (y - ys) <= err xs ys x y) by apply Q.le_max_r.
  pose proof (prod_le_sq _ _ _ P7 E1 P8 E2) as HE.
  assert (HE0 : 0 <= Qabs (x - xs) * Qabs (y - ys)) by (apply Qmult_le_0_compat; assumption).
  pose proof (curv_nonneg A B) as HM.
  split.
  - eapply Qle_trans; [exact Ex|].
    pose proof (weighted_le _ _ _ _ _ P4 P2 P5 M1 P6 M2) as W. fold (colx A B x) in W.
    pose proof (colx_nonneg A B x) as HC.
    assert (HCM : 0 <= colx A B x * curv A B) by (apply Qmult_le_0_compat; assumption).
    eapply Qle_trans; [apply Qmult_le_compat_r; [exact W|exact HE0]|].
    rewrite !(Qmult_comm (colx A B x * curv A B)). apply Qmult_le_compat_r; assumption.
  - eapply Qle_trans; [exact Ey|].
    pose proof (weighted_le _ _ _ _ _ P1 P3 P6 M2 P5 M1) as W.
    assert (W' : Qabs (bdx A y) * Qabs (c3 B) + Qabs (bdx B y) * Qabs (c3 A) <= coly A B y * curv A B).
    { unfold coly. lra. }
    pose proof (coly_nonneg A B y) as HC.
    assert (HCM : 0 <= coly A B y * curv A B) by (apply Qmult_le_0_compat; assumption).
    eapply Qle_trans; [apply Qmult_le_compat_r; [exact W'|exact HE0]|].
    rewrite !(Qmult_comm (coly A B y * curv A B)). apply Qmult_le_compat_r; assumption.
Qed.

(** max-norm, multiplied form *)
Lemma newton_step_mul_max A B f g x y xs ys :
  bval A xs ys == f -> bval B xs ys == g -> ~ ndet A B x y == 0 ->
  err xs ys (newton_x A B f g x y) (newton_y A B f g x y) * Qabs (ndet A B x y)
    <= csum A B x y * curv A B * (err xs ys x y * err xs ys x y).
Proof.
  intros Hf Hg Hd.
  destruct (newton_step_mul A B f g x y xs ys Hf Hg Hd) as [Hx Hy].
  pose proof (curv_nonneg A B) as HM. pose proof (err_nonneg xs ys x y) as He.
  assert (HMe : 0 <= curv A B * (err xs ys x y * err xs ys x y)).
  { apply Qmult_le_0_compat; [exact HM|apply Qmult_le_0_compat; exact He]. }
  assert (Cx : colx A B x <= csum A B x y) by apply Q.le_max_l.
  assert (Cy : coly A B y <= csum A B x y) by apply Q.le_max_r.
  unfold err at 1.
  destruct (Q.max_dec (Qabs (newton_x A B f g x y - xs)) (Qabs (newton_y A B f g x y - ys))) as [E|E];
    rewrite E.
  - eapply Qle_trans; [exact Hx|]. rewrite <- !Qmult_assoc. apply Qmult_le_compat_r; assumption.
  - eapply Qle_trans; [exact Hy|]. rewrite <- !Qmult_assoc. apply Qmult_le_compat_r; assumption.
Qed.

(** N2, max norm, sharp constant C = max(|Fy|+|Gy|, |Fx|+|Gx|) *)
Theorem newton_quadratic_sharp A B f g x y xs ys :
  bval A xs ys == f -> bval B xs ys == g -> ~ ndet A B x y == 0 ->
  err xs ys (newton_x A B f g x y) (newton_y A B f g x y)
    <= csum A B x y * curv A B / Qabs (ndet A B x y) * (err xs ys x y * err xs ys x y).
Proof.
  intros Hf Hg Hd.
  pose proof (newton_step_mul_max A B f g x y xs ys Hf Hg Hd) as H.
  pose proof (Qabs_pos_neq _ Hd) as Hp.
  assert (E : csum A B x y * curv A B / Qabs (ndet A B x y) * (err xs ys x y * err xs ys x y) ==
              csum A B x y * curv A B * (err xs ys x y * err xs ys x y) / Qabs (ndet A B x y))
    by (field; lra).
  rewrite E. apply Qle_div_of_mul; assumption.
Qed.

(** N2, max norm, with S = |Fx| + |Fy| + |Gx| + |Gy| *)
Theorem newton_quadratic A B f g x y xs ys :
  bval A xs ys == f -> bval B xs ys == g -> ~ ndet A B x y == 0 ->
  err xs ys (newton_x A B f g x y) (newton_y A B f g x y)
    <= ssum A B x y * curv A B / Qabs (ndet A B x y) * (err xs ys x y * err xs ys x y).
Proof.
  intros Hf Hg Hd.
  pose proof (newton_step_mul_max A B f g x y xs ys Hf Hg Hd) as H.
  pose proof (Qabs_pos_neq _ Hd) as Hp.
  pose proof (curv_nonneg A B) as HM. pose proof (err_nonneg xs ys x y) as He.
  assert (HMe : 0 <= curv A B * (err xs ys x y * err xs ys x y)).
  { apply Qmult_le_0_compat; [exact HM|apply Qmult_le_0_compat; exact He]. }
  assert (E : ssum A B x y * curv A B / Qabs (ndet A B x y) * (err xs ys x y * err xs ys x y) ==
              ssum A B x y * curv A B * (err xs ys x y * err xs ys x y) / Qabs (ndet A B x y))
    by (field; lra).
  rewrite E. apply Qle_div_of_mul; [assumption|].
  eapply Qle_trans; [exact H|]. rewrite <- !Qmult_assoc.
  apply Qmult_le_compat_r; [apply csum_le_ssum|exact HMe].
Qed.

(** * N3: from the one-step bound to the whole iteration *)
Fixpoint qpow (r : Q) (n : nat) : Q := match n with O => 1 | S n => r * qpow r n end.

Global Instance qpow_comp : Proper (Qeq ==> eq ==> Qeq) qpow.
Proof.
  intros r r' Hr n n' <-. induction n as [|n IH]; cbn [qpow]; [reflexivity|rewrite IH, Hr; reflexivity].
Qed.

Lemma qpow_Qpower r n : qpow r n == r ^ Z.of_nat n.
Proof.
  induction n as [|n IH].
  - reflexivity.
  - rewrite Nat2Z.inj_succ. cbn [qpow]. rewrite IH. unfold Z.succ.
    rewrite Qpower_plus' by lia. rewrite Qpower_1_r. ring.
Qed.

Lemma qpow_add r m n : qpow r (m + n) == qpow r m * qpow r n.
Proof. induction m as [|m IH]; cbn [qpow plus]; [ring|rewrite IH; ring]. Qed.
Lemma qpow_nonneg r n : 0 <= r -> 0 <= qpow r n.
Proof. intro Hr. induction n as [|n IH]; cbn [qpow]; [lra|apply Qmult_le_0_compat; assumption]. Qed.
Lemma qpow_le_1 r n : 0 <= r -> r <= 1 -> qpow r n <= 1.
Proof.
  intros H0 H1. induction n as [|n IH]; cbn [qpow]; [lra|].
  pose proof (qpow_nonneg r n H0). nra.
Qed.
Lemma qpow_antimono r m n : 0 <= r -> r <= 1 -> (m <= n)%nat -> qpow r n <= qpow r m.
Proof.
  intros H0 H1 Hmn. replace n with ((n - m) + m)%nat by lia. rewrite qpow_add.
  pose proof (qpow_le_1 r (n - m) H0 H1). pose proof (qpow_nonneg r (n - m) H0).
  pose proof (qpow_nonneg r m H0). nra.
Qed.

(** the exponent 2^k - 1, by its recurrence m_0 = 0, m_{k+1} = 2 m_k + 1 *)
Fixpoint mexp (k : nat) : nat := match k with O => O | S k => S (mexp k + mexp k) end.
Lemma mexp_spec k : mexp k = (2 ^ k - 1)%nat.
Proof.
  induction k as [|k IH]; [reflexivity|]. cbn [mexp]. rewrite IH. cbn [Nat.pow].
  assert (1 <= 2 ^ k)%nat by (apply Nat.neq_0_lt_0, Nat.pow_nonzero; discriminate). lia.
Qed.
Lemma mexp_ge k : (k <= mexp k)%nat.
Proof. induction k as [|k IH]; cbn [mexp]; lia. Qed.

(** N3, abstract: e_{k+1} <= kappa e_k^2 for k < n gives e_n <= (kappa e_0)^(2^n - 1) e_0 *)
Lemma quadratic_recurrence_mexp (e : nat -> Q) kappa : 0 <= kappa ->
  forall n, (forall k, (k < n)%nat -> 0 <= e k) ->
            (forall k, (k < n)%nat -> e (S k) <= kappa * (e k * e k)) ->
  e n <= qpow (kappa * e O) (mexp n) * e O.
Proof.
  intros Hk n. induction n as [|n IH]; intros Hpos Hrec.
  - cbn [mexp qpow]. lra.
  - assert (Hn : e n <= qpow (kappa * e O) (mexp n) * e O).
    { apply IH; intros k Hlt; [apply Hpos|apply Hrec]; lia. }
    assert (H0 : 0 <= e O) by (apply Hpos; lia).
    assert (Hen : 0 <= e n) by (apply Hpos; lia).
    assert (Hr : 0 <= kappa * e O) by (apply Qmult_le_0_compat; assumption).
    pose proof (qpow_nonneg (kappa * e O) (mexp n) Hr) as Hq.
    set (b := qpow (kappa * e O) (mexp n) * e O) in *.
    assert (Hb : 0 <= b) by (apply Qmult_le_0_compat; assumption).
    assert (Hsq : e n * e n <= b * b) by nra.
    eapply Qle_trans; [apply Hrec; lia|].
    eapply Qle_trans; [rewrite Qmult_comm; apply Qmult_le_compat_r; [exact Hsq|exact Hk]|].
    cbn [mexp qpow]. rewrite qpow_add. subst b. apply Qle_lteq. right. ring.
Qed.

Theorem quadratic_recurrence (e : nat -> Q) kappa n : 0 <= kappa ->
  (forall k, (k < n)%nat -> 0 <= e k) ->
  (forall k, (k < n)%nat -> e (S k) <= kappa * (e k * e k)) ->
  e n <= qpow (kappa * e O) (2 ^ n - 1) * e O.
Proof. intros Hk Hpos Hrec. rewrite <- mexp_spec. apply quadratic_recurrence_mexp; assumption. Qed.

(** with kappa e_0 <= 1 the bound is at most geometric, and the errors never exceed e_0 *)
Corollary quadratic_recurrence_geometric (e : nat -> Q) kappa n : 0 <= kappa -> kappa * e O <= 1 ->
  (forall k, (k < n)%nat -> 0 <= e k) ->
  (forall k, (k < n)%nat -> e (S k) <= kappa * (e k * e k)) ->
  e n <= qpow (kappa * e O) n * e O /\ e n <= e O.
Proof.
  intros Hk Hr1 Hpos Hrec.
  pose proof (quadratic_recurrence_mexp e kappa Hk n Hpos Hrec) as H.
  destruct n as [|n]; [cbn [qpow]; split; lra|].
  assert (H0 : 0 <= e O) by (apply Hpos; lia).
  assert (Hr : 0 <= kappa * e O) by (apply Qmult_le_0_compat; assumption).
  pose proof (qpow_antimono (kappa * e O) (S n) (mexp (S n)) Hr Hr1 (mexp_ge (S n))) as Ha.
  pose proof (qpow_le_1 (kappa * e O) (S n) Hr Hr1) as H1.
  pose proof (qpow_nonneg (kappa * e O) (mexp (S n)) Hr) as Hq.
  split; nra.
Qed.

(** ** the Newton iterates of one cell *)
Fixpoint newton_it (A B : bcell) (f g : Q) (n : nat) (x y : Q) : Q * Q :=
  match n with
  | O => (x, y)
  | S n => let p := newton_it A B f g n x y in
           (newton_x A B f g (fst p) (snd p), newton_y A B f g (fst p) (snd p))
  end.
Definition in01 (x : Q) : Prop := 0 <= x /\ x <= 1.
(** on the unit cell: |det| >= dmin, |Fy| + |Gy| <= Sb and |Fx| + |Gx| <= Sb *)
Definition cell_ok (A B : bcell) (dmin Sb : Q) : Prop :=
  forall x y, in01 x -> in01 y ->
  dmin <= Qabs (ndet A B x y) /\ colx A B x <= Sb /\ coly A B y <= Sb.
Definition kappa (A B : bcell) (dmin Sb : Q) : Q := Sb * curv A B / dmin.
Definition err_it (A B : bcell) (f g xs ys x0 y0 : Q) (n : nat) : Q :=
  err xs ys (fst (newton_it A B f g n x0 y0)) (snd (newton_it A B f g n x0 y0)).

Lemma cell_ok_S_nonneg A B dmin Sb : cell_ok A B dmin Sb -> 0 <= Sb.
Proof.
  intro H. destruct (H 0 0) as (_ & H1 & _); try (split; lra).
  eapply Qle_trans; [apply (colx_nonneg A B 0)|exact H1].
Qed.
Lemma kappa_nonneg A B dmin Sb : cell_ok A B dmin Sb -> 0 < dmin -> 0 <= kappa A B dmin Sb.
Proof.
  intros H Hd. unfold kappa. apply Qle_shift_div_l; [exact Hd|]. rewrite Qmult_0_l.
  apply Qmult_le_0_compat; [eapply cell_ok_S_nonneg; exact H|apply curv_nonneg].
Qed.

(** one step from a point of the cell, uniform constant *)
Lemma newton_step_uniform A B f g dmin Sb x y xs ys :
  cell_ok A B dmin Sb -> 0 < dmin -> bval A xs ys == f -> bval B xs ys == g ->
  in01 x -> in01 y ->
  err xs ys (newton_x A B f g x y) (newton_y A B f g x y)
    <= kappa A B dmin Sb * (err xs ys x y * err xs ys x y).
Proof.
  intros Hc Hd Hf Hg Hx Hy.
  destruct (Hc x y Hx Hy) as (D & C1 & C2).
  assert (Hdet : ~ ndet A B x y == 0).
  { intro E. rewrite E in D. change (Qabs 0) with 0 in D. lra. }
  pose proof (newton_step_mul_max A B f g x y xs ys Hf Hg Hdet) as H.
  pose proof (curv_nonneg A B) as HM. pose proof (err_nonneg xs ys x y) as He.
  pose proof (err_nonneg xs ys (newton_x A B f g x y) (newton_y A B f g x y)) as He'.
  assert (HMe : 0 <= curv A B * (err xs ys x y * err xs ys x y)).
  { apply Qmult_le_0_compat; [exact HM|apply Qmult_le_0_compat; exact He]. }
  assert (HC : csum A B x y <= Sb) by (apply Q.max_lub; assumption).
  set (X := err xs ys (newton_x A B f g x y) (newton_y A B f g x y)) in *.
  set (E2 := err xs ys x y * err xs ys x y) in *.
  assert (E : kappa A B dmin Sb * E2 == Sb * curv A B * E2 / dmin) by (unfold kappa; field; lra).
  rewrite E. apply Qle_div_of_mul; [exact Hd|].
  eapply Qle_trans; [rewrite Qmult_comm; apply Qmult_le_compat_r; [exact D|exact He']|].
  rewrite Qmult_comm. eapply Qle_trans; [exact H|].
  rewrite <- !Qmult_assoc. apply Qmult_le_compat_r; assumption.
Qed.

(** N3 for the Newton iterates: while they stay in the cell the error obeys the doubly exponential bound *)
Theorem newton_cell_convergence A B f g dmin Sb xs ys x0 y0 n :
  cell_ok A B dmin Sb -> 0 < dmin -> bval A xs ys == f -> bval B xs ys == g ->
  (forall k, (k < n)%nat -> in01 (fst (newton_it A B f g k x0 y0)) /\ in01 (snd (newton_it A B f g k x0 y0))) ->
  err_it A B f g xs ys x0 y0 n
    <= qpow (kappa A B dmin Sb * err xs ys x0 y0) (2 ^ n - 1) * err xs ys x0 y0.
Proof.
  intros Hc Hd Hf Hg Hin.
  change (err xs ys x0 y0) with (err_it A B f g xs ys x0 y0 O).
  apply (quadratic_recurrence (err_it A B f g xs ys x0 y0) (kappa A B dmin Sb) n).
  - apply kappa_nonneg; assumption.
  - intros k _. apply err_nonneg.
  - intros k Hk. destruct (Hin k Hk) as [Hx Hy]. unfold err_it. cbn [newton_it fst snd].
    apply newton_step_uniform; assumption.
Qed.

Lemma contract k a b : 0 <= k -> 0 <= a -> a <= b -> k * b <= 1 -> k * (a * a) <= b.
Proof.
  intros Hk Ha Hab Hkb.
  assert (H1 : k * a <= k * b) by nra.
  assert (H2 : k * a <= 1) by lra.
  assert (H3 : (k * a) * a <= 1 * a) by (apply Qmult_le_compat_r; assumption).
  lra.
Qed.

(** a max-norm ball around the root *)
Lemma err_le_iff xs ys x y r : err xs ys x y <= r <-> (xs - r <= x <= xs + r) /\ (ys - r <= y <= ys + r).
Proof.
  unfold err. rewrite Q.max_lub_iff, !Qabs_Qle_condition. split; intros [[? ?] [? ?]]; repeat split; lra.
Qed.

(** N3 without a hypothesis on the iterates: start in a ball around the root that lies in the cell *)
Theorem newton_cell_convergence_ball A B f g dmin Sb xs ys x0 y0 :
  cell_ok A B dmin Sb -> 0 < dmin -> bval A xs ys == f -> bval B xs ys == g ->
  let e0 := err xs ys x0 y0 in
  0 <= xs - e0 -> xs + e0 <= 1 -> 0 <= ys - e0 -> ys + e0 <= 1 ->
  kappa A B dmin Sb * e0 <= 1 ->
  forall n,
    err_it A B f g xs ys x0 y0 n <= e0 /\
    (in01 (fst (newton_it A B f g n x0 y0)) /\ in01 (snd (newton_it A B f g n x0 y0))) /\
    err_it A B f g xs ys x0 y0 n <= qpow (kappa A B dmin Sb * e0) (2 ^ n - 1) * e0 /\
    err_it A B f g xs ys x0 y0 n <= qpow (kappa A B dmin Sb * e0) n * e0.
Proof.
  intros Hc Hd Hf Hg e0 X0 X1 Y0 Y1 Hr.
  pose proof (kappa_nonneg A B dmin Sb Hc Hd) as Hk.
  assert (Hball : forall x y, err xs ys x y <= e0 -> in01 x /\ in01 y).
  { intros x y H. apply err_le_iff in H. unfold in01. lra. }
  assert (Hstay : forall n, err_it A B f g xs ys x0 y0 n <= e0).
  { induction n as [|n IH]; [apply Qle_refl|].
    destruct (Hball _ _ IH) as [Hx Hy].
    pose proof (newton_step_uniform A B f g dmin Sb _ _ xs ys Hc Hd Hf Hg Hx Hy) as H.
    fold (err_it A B f g xs ys x0 y0 n) in H.
    pose proof (err_nonneg xs ys (fst (newton_it A B f g n x0 y0)) (snd (newton_it A B f g n x0 y0))) as He.
    fold (err_it A B f g xs ys x0 y0 n) in He.
    unfold err_it at 1. cbn [newton_it fst snd]. eapply Qle_trans; [exact H|].
    apply contract; assumption. }
  assert (Hin : forall n, in01 (fst (newton_it A B f g n x0 y0)) /\ in01 (snd (newton_it A B f g n x0 y0))).
  { intro n. apply Hball. apply Hstay. }
  intro n. split; [apply Hstay|]. split; [apply Hin|].
  assert (Hrec : forall k, (k < n)%nat ->
            err_it A B f g xs ys x0 y0 (S k)
            <= kappa A B dmin Sb * (err_it A B f g xs ys x0 y0 k * err_it A B f g xs ys x0 y0 k)).
  { intros k _. destruct (Hin k) as [Hx Hy]. unfold err_it. cbn [newton_it fst snd].
    apply newton_step_uniform; assumption. }
  assert (Hpos : forall k, (k < n)%nat -> 0 <= err_it A B f g xs ys x0 y0 k) by (intros; apply err_nonneg).
  split.
  - apply (quadratic_recurrence (err_it A B f g xs ys x0 y0) (kappa A B dmin Sb) n Hk Hpos Hrec).
  - apply (quadratic_recurrence_geometric (err_it A B f g xs ys x0 y0) (kappa A B dmin Sb) n Hk Hr Hpos Hrec).
Qed.

(** * N4: a concrete curved cell *)
Definition exA : bcell := BCell 10 (1 # 8) (1 # 100) (1 # 400).        (* longitude-like *)
Definition exB : bcell := BCell 60 (- 1 # 200) (1 # 16) (1 # 800).     (* latitude-like  *)
(** the target = the image of the root (xs, ys) = (1/2, 1/4) *)
Definition exf : Q := 32209 # 3200.
Definition exg : Q := 76817 # 1280.
Example ex_root : bval exA (1 # 2) (1 # 4) == exf /\ bval exB (1 # 2) (1 # 4) == exg.
Proof. split; vm_compute; reflexivity. Qed.

Ltac qle_compute := apply Qle_bool_iff; vm_compute; reflexivity.

(** one step from the corner (0, 0): error 1/2 -> 27/10064 (about 0.0027) *)
Example ex_step_00 :
  newton_x exA exB exf exg 0 0 == 5055 # 10064 /\ newton_y exA exB exf exg 0 0 == 2543 # 10064.
Proof. split; vm_compute; reflexivity. Qed.
Example ex_err_00 :
  err (1 # 2) (1 # 4) 0 0 == 1 # 2 /\
  err (1 # 2) (1 # 4) (newton_x exA exB exf exg 0 0) (newton_y exA exB exf exg 0 0) == 27 # 10064.
Proof. split; vm_compute; reflexivity. Qed.
(** the N2 bounds at (0, 0): the coordinate bound for x' is attained (27/10064), the max-norm bound
    C M / |det| e^2 is 13/1258 (about 0.0103) *)
Example ex_bound_00_x :
  (Qabs (bdy exB 0) * Qabs (c3 exA) + Qabs (bdy exA 0) * Qabs (c3 exB)) / Qabs (ndet exA exB 0 0)
  * (Qabs (0 - (1 # 2)) * Qabs (0 - (1 # 4))) == 27 # 10064.
Proof. vm_compute; reflexivity. Qed.
Example ex_bound_00 :
  csum exA exB 0 0 * curv exA exB / Qabs (ndet exA exB 0 0) * (err (1 # 2) (1 # 4) 0 0 * err (1 # 2) (1 # 4) 0 0)
  == 13 # 1258.
Proof. vm_compute; reflexivity. Qed.
(** ... and N2 itself instantiated (no computation): the new error is below that bound *)
Example ex_N2_00 :
  err (1 # 2) (1 # 4) (newton_x exA exB exf exg 0 0) (newton_y exA exB exf exg 0 0) <= 13 # 1258.
Proof.
  rewrite <- ex_bound_00. destruct ex_root as [Hf Hg].
  apply newton_quadratic_sharp; [exact Hf|exact Hg|].
  intro E. vm_compute in E. discriminate E.
Qed.

(** one step from the opposite corner (1, 1): error 3/4 -> 27/3488 (about 0.0077); bound 315/13952 (0.0226) *)
Example ex_step_11 :
  newton_x exA exB exf exg 1 1 == 1767 # 3488 /\ newton_y exA exB exf exg 1 1 == 899 # 3488.
Proof. split; vm_compute; reflexivity. Qed.
Example ex_err_11 :
  err (1 # 2) (1 # 4) 1 1 == 3 # 4 /\
  err (1 # 2) (1 # 4) (newton_x exA exB exf exg 1 1) (newton_y exA exB exf exg 1 1) == 27 # 3488.
Proof. split; vm_compute; reflexivity. Qed.
Example ex_bound_11 :
  csum exA exB 1 1 * curv exA exB / Qabs (ndet exA exB 1 1) * (err (1 # 2) (1 # 4) 1 1 * err (1 # 2) (1 # 4) 1 1)
  == 315 # 13952.
Proof. vm_compute; reflexivity. Qed.
Example ex_N2_11 :
  err (1 # 2) (1 # 4) (newton_x exA exB exf exg 1 1) (newton_y exA exB exf exg 1 1) <= 315 # 13952.
Proof.
  rewrite <- ex_bound_11. destruct ex_root as [Hf Hg].
  apply newton_quadratic_sharp; [exact Hf|exact Hg|].
  intro E. vm_compute in E. discriminate E.
Qed.

(** the uniform constants of this cell: on [0,1]^2 |det| >= 1/128, both column sums <= 53/400,
    M = 1/400, so kappa = 53/1250 = 0.0424 < 1 *)
Example ex_cell_ok : cell_ok exA exB (1 # 128) (53 # 400).
Proof.
  intros x y [X0 X1] [Y0 Y1].
  assert (D : 1 # 128 <= ndet exA exB x y).
  { unfold ndet, bdx, bdy, exA, exB. cbn [c0 c1 c2 c3]. nra. }
  split; [eapply Qle_trans; [exact D|apply Qle_Qabs]|].
  unfold colx, coly, bdx, bdy, exA, exB. cbn [c0 c1 c2 c3].
  split.
  - rewrite !Qabs_pos by nra. nra.
  - rewrite (Qabs_pos ((1 # 8) + (1 # 400) * y)) by nra.
    rewrite (Qabs_neg ((-1 # 200) + (1 # 800) * y)) by nra. nra.
Qed.
Example ex_kappa : kappa exA exB (1 # 128) (53 # 400) == 53 # 1250.
Proof. vm_compute; reflexivity. Qed.

(** two steps from (0, 0): the first iterate is in the cell, so N3 gives
    err_2 <= (kappa / 2)^3 / 2 = 148877/31250000000 (about 4.8e-6); the exact err_2 is 5589/43125870368 (1.3e-7) *)
Example ex_two_steps_00 :
  err_it exA exB exf exg (1 # 2) (1 # 4) 0 0 2 <= 148877 # 31250000000.
Proof.
  destruct ex_root as [Hf Hg].
  pose proof (newton_cell_convergence exA exB exf exg (1 # 128) (53 # 400) (1 # 2) (1 # 4) 0 0 2
                ex_cell_ok eq_refl Hf Hg) as H.
  eapply Qle_trans; [apply H|].
  - intros k Hk. assert (k = 0 \/ k = 1)%nat as [-> | ->] by lia; unfold in01; cbn [newton_it fst snd].
    + repeat split; lra.
    + destruct ex_step_00 as [Ex Ey]. rewrite Ex, Ey. repeat split; lra.
  - qle_compute.
Qed.
Example ex_two_steps_00_exact : err_it exA exB exf exg (1 # 2) (1 # 4) 0 0 2 == 5589 # 43125870368.
Proof. vm_compute; reflexivity. Qed.

(** from any start within max-norm distance 1/4 of the root, all iterates stay in the cell
    (kappa e0 <= 0.0106) *)
Example ex_ball x0 y0 n : err (1 # 2) (1 # 4) x0 y0 <= 1 # 4 ->
  err_it exA exB exf exg (1 # 2) (1 # 4) x0 y0 n
  <= qpow ((53 # 1250) * err (1 # 2) (1 # 4) x0 y0) (2 ^ n - 1) * err (1 # 2) (1 # 4) x0 y0.
Proof.
  intro He. destruct ex_root as [Hf Hg]. pose proof (err_nonneg (1 # 2) (1 # 4) x0 y0) as H0.
  rewrite <- ex_kappa.
  apply (newton_cell_convergence_ball exA exB exf exg (1 # 128) (53 # 400) (1 # 2) (1 # 4) x0 y0
           ex_cell_ok eq_refl Hf Hg); try lra.
  rewrite ex_kappa. lra.
Qed.

(** the same cell as 2 x 2 coordinate arrays of the model (node values F(i, j), i = row = x):
    the model's loop body performs exactly these steps *)
Definition exF : arr2 := mkArr 2 2 [10; 1001 # 100; 81 # 8; 4055 # 400].
Definition exG : arr2 := mkArr 2 2 [60; 961 # 16; 11999 # 200; 48047 # 800].
Definition bcell_eq (A B : bcell) : Prop := c0 A == c0 B /\ c1 A == c1 B /\ c2 A == c2 B /\ c3 A == c3 B.
Example ex_model_cell : exists kf kg,
  corners exF 0 0 = Some kf /\ corners exG 0 0 = Some kg /\
  bcell_eq (cell_of_quad kf) exA /\ bcell_eq (cell_of_quad kg) exB.
Proof.
  do 2 eexists. split; [vm_compute; reflexivity|]. split; [vm_compute; reflexivity|].
  split; repeat split; vm_compute; reflexivity.
Qed.
Example ex_model_step_00 : bilin_step exf exg exF exG default_tol 0 0 = StNext (5055 # 10064) (2543 # 10064).
Proof. vm_compute; reflexivity. Qed.
Example ex_model_step_11 : bilin_step exf exg exF exG default_tol 1 1 = StNext (1767 # 3488) (899 # 3488).
Proof. vm_compute; reflexivity. Qed.

(** the whole model on this cell: [bilin_inv] starts at the centre of the 2 x 2 array = the corner (1, 1)
    of the cell, takes two Newton steps (both iterates in the cell) and stops by the tolerance test;
    the returned point is 5589/5181179840 (about 1.1e-6) from the root, below the N3 bound
    (kappa 3/4)^3 3/4 (about 2.4e-5) for two steps from (1, 1) *)
Example ex_model_inv :
  bilin_inv exf exg exF exG default_maxiter default_tol
  = BDone (2590594681 # 5181179840) (1295300549 # 5181179840) true /\
  err (1 # 2) (1 # 4) (2590594681 # 5181179840) (1295300549 # 5181179840) == 5589 # 5181179840.
Proof. split; vm_compute; reflexivity. Qed.
Example ex_two_steps_11 :
  err_it exA exB exf exg (1 # 2) (1 # 4) 1 1 2 == 5589 # 5181179840 /\
  err_it exA exB exf exg (1 # 2) (1 # 4) 1 1 2 <= 25 # 1000000.
Proof.
  split; [vm_compute; reflexivity|].
  destruct ex_root as [Hf Hg].
  pose proof (newton_cell_convergence exA exB exf exg (1 # 128) (53 # 400) (1 # 2) (1 # 4) 1 1 2
                ex_cell_ok eq_refl Hf Hg) as H.
  eapply Qle_trans; [apply H|].
  - intros k Hk. assert (k = 0 \/ k = 1)%nat as [-> | ->] by lia; unfold in01; cbn [newton_it fst snd].
    + repeat split; lra.
    + destruct ex_step_11 as [Ex Ey]. rewrite Ex, Ey. repeat split; lra.
  - qle_compute.
Qed.

(** * Statements and assumptions *)
Check bilin_step_is_newton_cell.
Check newton_error_identity.
Check newton_error_bound_x.
Check newton_error_bound_y.
Check newton_quadratic_sharp.
Check newton_quadratic.
Check quadratic_recurrence.
Check quadratic_recurrence_geometric.
Check newton_cell_convergence.
Check newton_cell_convergence_ball.
Print Assumptions bilin_step_is_newton_cell.
Print Assumptions newton_error_identity.        (* N1 *)
Print Assumptions newton_error_bound_x.         (* N2 *)
Print Assumptions newton_error_bound_y.
Print Assumptions newton_quadratic_sharp.
Print Assumptions newton_quadratic.
Print Assumptions quadratic_recurrence.         (* N3 *)
Print Assumptions quadratic_recurrence_geometric.
Print Assumptions newton_cell_convergence.
Print Assumptions newton_cell_convergence_ball.
Print Assumptions ex_two_steps_00.              (* N4 *)
Print Assumptions ex_model_inv.
