(** Convergence of the tracker's Runge-Kutta schemes for ARBITRARY (non-linear, time-dependent)
    Lipschitz velocity fields in the model's actual TWO-DIMENSIONAL state, over the reals:
    "consistency + stability => convergence".  (GeneralConvergenceProofs.v is the scalar case and is
    reused here: geom, one_plus_pow_le_exp, Lip_RK2, Lip_RK4, taylor2_bound, Q2R_* lemmas.)

    Setting: positions are pairs p = (x, y) : pt = R * R with the max-norm
    norm2 (a, b) = Rmax (Rabs a) (Rabs b); the field is f : R -> pt -> pt, f t p = (u, v); the step
    sizes differ per coordinate: hx, hy > 0 (they contain the metric factors, hx = dt/dx, hy = dt/dy),
    one update is padd p (pscale2 hx hy k) = (x + hx * u, y + hy * v); the time increment ht > 0
    (t_k = t0 + k * ht) is given separately; h = Rmax hx hy.  f is L-Lipschitz in the position
    w.r.t. norm2, uniformly in t.

    WHAT IS PROVED

    D1  norm2_nonneg, norm2_fst, norm2_snd, norm2_lub, norm2_triang, norm2_psub_triang,
        norm2_psub_sym, norm2_psub_self, norm2_dist_triang, norm2_pscale2
        (norm2 (hx * a, hy * b) <= Rmax hx hy * norm2 (a, b)), norm2_pscale2_eq, norm2_le_0_eq.

    D2  generic_convergence_2d, generic_convergence_sum_2d, generic_convergence_exp_2d,
        generic_order_p_2d: for any one-step method p_{k+1} = p_k + (hx, hy) .* Phi (t0 + k ht) p_k
        ([one_step_iter2]) whose increment function Phi is Lam-Lipschitz in the position (norm2), and
        any y : R -> pt with local truncation error ([local_err2])
        norm2 (y(t_{k+1}) - y(t_k) - (hx, hy) .* Phi(t_k, y(t_k))) <= tau for k < n,
            norm2 (p_n - y(t_n)) <= (1 + h Lam)^n norm2 (p_0 - y(t0)) + tau * sum_{j<n} (1 + h Lam)^j
                                 <= exp (n h Lam) (norm2 (p_0 - y(t0)) + n tau),
        and with tau = C ht^(p+1), p_0 = y(t0), T = n ht:
            norm2 (p_n - y(t0 + T)) <= exp (T * (h/ht * Lam)) * T * C * ht^p.
        The local bound and the order are in powers of the TIME increment ht; the stability factor
        has h = Rmax hx hy: n h Lam = T * (h/ht) * Lam, where h/ht = max(hx, hy)/ht is the metric
        factor (max (1/dx, 1/dy) for hx = dt/dx, hy = dt/dy, ht = dt) and (h/ht) Lam is a Lipschitz
        constant of the right-hand side (hx/ht * u, hy/ht * v) the scheme actually integrates.

    D3  Phi_EF2_lipschitz, Phi_RK2_2d_lipschitz, Phi_RK4_2d_lipschitz (stability): the 2-D increment
        functions [Phi_EF2], [Phi_RK2_2d] (explicit midpoint), [Phi_RK4_2d] (classical), written over
        R as Tracker.EF / RK2 / RK4 compute them without clipping (stage positions
        [stage2] c p k = (x + c*hx*u, y + c*hy*v), stage times t + c*ht), are Lipschitz in the position
        w.r.t. norm2 with constants  L,  Lip_RK2 h L = L (1 + hL/2),
        Lip_RK4 h L = L (1 + hL/2 + (hL)^2/6 + (hL)^3/24),  h = Rmax hx hy.

    D4  EF2_converges, RK2_2d_converges_order2, RK4_2d_converges_order4 (CONDITIONAL on the local
        truncation bound C ht^2 / C ht^3 / C ht^5 in norm2 along the exact solution) and the
        *_uniform variants (constant independent of the step for h <= hmax): global error
        <= exp (T * (h/ht * Lip)) * T * C * ht^p, p = 1, 2, 4.
        EF2_local_truncation, EF2_converges_order1 (Euler forward, COMPLETE): if the components of
        y are twice differentiable on [t0, t0+T], solve the ODE the scheme integrates,
            x' = (hx/ht) * u(t, (x, y)),   y' = (hy/ht) * v(t, (x, y)),
        and have second derivatives bounded by M, the local error is <= M/2 ht^2 in norm2
        (scalar Taylor-Lagrange [taylor2_bound] per component) and n steps with n ht = T from y t0
        end within exp (T * (h/ht * L)) * T * M/2 * ht of y (t0 + T).
        EF2_example: a coupled field (solid rotation, exact solution (cos t, sin t)) satisfies all
        hypotheses.  RK2_2d_example: the RK2 local bound is satisfiable with hx <> hy.

    D5  model_EF_step2, model_RK2_step2, model_RK4_step2: one step of the rational model
        (Tracker.rk_generic with tab_EF / tab_RK2 / tab_RK4), BOTH coordinates ([Q2R2]), on a
        velocity oracle that agrees through Q2R with the real field at the stage times
        tk + Q2R s * ht, IS the real 2-D step with hx = Q2R dtdx, hy = Q2R dtdy.
        coded_EF_step2 / coded_RK2_step2 / coded_RK4_step2: same for the schemes as coded
        (Tracker.EF/RK2/RK4 + candidate) while the stage positions are not clipped.
        model_*_iter2: n model steps (rk_iter) = [one_step_iter2].  model_EF2_converges_order1
        (complete), model_RK2_2d_converges_order2, model_RK4_2d_converges_order4 (conditional as in
        D4): the rational model, both coordinates, against the exact solution.

    WHAT REMAINS A HYPOTHESIS
      - the Lipschitz bound on f (global in the position, in norm2, uniform in t);
      - existence and regularity of the exact solution y (it is given, not constructed);
      - for RK2 / RK4: the local truncation bound C ht^(p+1) in norm2 (it follows from Taylor's
        theorem for sufficiently smooth f; NOT proved here);
      - hx, hy are constant along the trajectory (the code takes dt/dx, dt/dy at the particle's
        cell at every step; a varying metric is not modelled here);
      - for D5: agreement of the rational oracle with f at every step (rk_iter uses one oracle for
        all steps, so for n steps this holds for autonomous or step-periodic fields), no clipping.
    No axioms beyond those of the standard-library reals / Coquelicot (Print Assumptions below). *)
From Coq Require Import Reals Lra Lia Psatz QArith Qreals.
From Coquelicot Require Import Coquelicot.
From Ladim Require Import Model.Tracker Proofs.TrackerProofs Proofs.SchemeProofs
  Proofs.ConvergenceProofs Proofs.GeneralConvergenceProofs.
Open Scope R_scope.

(** * D1: points of the plane, componentwise operations, max-norm *)
Definition pt : Type := (R * R)%type.
Definition padd (p q : pt) : pt := (fst p + fst q, snd p + snd q).
Definition psub (p q : pt) : pt := (fst p - fst q, snd p - snd q).
Definition pscale2 (hx hy : R) (p : pt) : pt := (hx * fst p, hy * snd p).
Definition norm2 (p : pt) : R := Rmax (Rabs (fst p)) (Rabs (snd p)).

Lemma norm2_pair a b : norm2 (a, b) = Rmax (Rabs a) (Rabs b).
Proof. reflexivity. Qed.

Lemma norm2_fst p : Rabs (fst p) <= norm2 p.
Proof. apply Rmax_l. Qed.
Lemma norm2_snd p : Rabs (snd p) <= norm2 p.
Proof. apply Rmax_r. Qed.

Lemma norm2_nonneg p : 0 <= norm2 p.
Proof. eapply Rle_trans. apply Rabs_pos. apply norm2_fst. Qed.

Lemma norm2_lub p c : Rabs (fst p) <= c -> Rabs (snd p) <= c -> norm2 p <= c.
Proof. intros Ha Hb. unfold norm2. apply Rmax_lub; assumption. Qed.

Lemma norm2_triang p q : norm2 (padd p q) <= norm2 p + norm2 q.
Proof.
  pose proof (norm2_fst p) as H1. pose proof (norm2_snd p) as H2.
  pose proof (norm2_fst q) as H3. pose proof (norm2_snd q) as H4.
  apply norm2_lub; cbn [padd fst snd].
  - pose proof (Rabs_triang (fst p) (fst q)). lra.
  - pose proof (Rabs_triang (snd p) (snd q)). lra.
Qed.

Lemma Rabs_minus_triang a b : Rabs (a - b) <= Rabs a + Rabs b.
Proof.
  replace (a - b) with (a + - b) by ring.
  eapply Rle_trans. apply Rabs_triang. rewrite Rabs_Ropp. lra.
Qed.

Lemma norm2_psub_triang p q : norm2 (psub p q) <= norm2 p + norm2 q.
Proof.
  pose proof (norm2_fst p) as H1. pose proof (norm2_snd p) as H2.
  pose proof (norm2_fst q) as H3. pose proof (norm2_snd q) as H4.
  apply norm2_lub; cbn [psub fst snd].
  - pose proof (Rabs_minus_triang (fst p) (fst q)). lra.
  - pose proof (Rabs_minus_triang (snd p) (snd q)). lra.
Qed.

Lemma norm2_psub_sym p q : norm2 (psub p q) = norm2 (psub q p).
Proof.
  unfold norm2, psub. cbn [fst snd].
  rewrite (Rabs_minus_sym (fst p)), (Rabs_minus_sym (snd p)). reflexivity.
Qed.

Lemma norm2_psub_self p : norm2 (psub p p) = 0.
Proof.
  unfold norm2, psub. cbn [fst snd].
  replace (fst p - fst p) with 0 by ring. replace (snd p - snd p) with 0 by ring.
  rewrite Rabs_R0. apply Rmax_left. lra.
Qed.

(** triangle inequality for the distance norm2 (p - q) *)
Lemma norm2_dist_triang p q r : norm2 (psub p r) <= norm2 (psub p q) + norm2 (psub q r).
Proof.
  replace (psub p r) with (padd (psub p q) (psub q r)).
  - apply norm2_triang.
  - unfold padd, psub. cbn [fst snd]. f_equal; ring.
Qed.

(** scaling with one factor per coordinate: the larger factor bounds the norm *)
Lemma norm2_pscale2 hx hy p : 0 <= hx -> 0 <= hy ->
  norm2 (pscale2 hx hy p) <= Rmax hx hy * norm2 p.
Proof.
  intros Hx Hy.
  pose proof (Rmax_l hx hy) as Mx. pose proof (Rmax_r hx hy) as My.
  apply norm2_lub; cbn [pscale2 fst snd]; rewrite Rabs_mult.
  - rewrite (Rabs_pos_eq hx) by exact Hx.
    apply Rmult_le_compat. exact Hx. apply Rabs_pos. exact Mx. apply norm2_fst.
  - rewrite (Rabs_pos_eq hy) by exact Hy.
    apply Rmult_le_compat. exact Hy. apply Rabs_pos. exact My. apply norm2_snd.
Qed.

(** equal factors: equality *)
Lemma norm2_pscale2_eq c p : 0 <= c -> norm2 (pscale2 c c p) = c * norm2 p.
Proof.
  intros Hc. unfold norm2, pscale2. cbn [fst snd].
  rewrite !Rabs_mult, (Rabs_pos_eq c) by exact Hc. apply RmaxRmult. exact Hc.
Qed.

Lemma Rmax_scale c hx hy : 0 <= c -> Rmax (c * hx) (c * hy) = c * Rmax hx hy.
Proof. intros Hc. apply RmaxRmult. exact Hc. Qed.

Lemma Rmax_pos_l hx hy : 0 < hx -> 0 < Rmax hx hy.
Proof. intros H. pose proof (Rmax_l hx hy). lra. Qed.

(** * D2: consistency + stability => convergence, for a one-step method in the plane *)
Section Generic2.
  Variable Phi : R -> pt -> pt.
  Variables hx hy ht Lam t0 : R.
  Variable y : R -> pt.
  Notation h := (Rmax hx hy).

  Fixpoint one_step_iter2 (n : nat) (p0 : pt) : pt :=
    match n with
    | O => p0
    | S k => let p := one_step_iter2 k p0 in
             padd p (pscale2 hx hy (Phi (t0 + INR k * ht) p))
    end.

  (** local truncation error of step k along y: y(t_{k+1}) - y(t_k) - (hx, hy) .* Phi(t_k, y(t_k)) *)
  Definition local_err2 (k : nat) : pt :=
    psub (psub (y (t0 + INR (S k) * ht)) (y (t0 + INR k * ht)))
         (pscale2 hx hy (Phi (t0 + INR k * ht) (y (t0 + INR k * ht)))).

  Hypothesis Hhx : 0 < hx.
  Hypothesis Hhy : 0 < hy.
  Hypothesis HLam : 0 <= Lam.
  Hypothesis HLip : forall t p q, norm2 (psub (Phi t p) (Phi t q)) <= Lam * norm2 (psub p q).

  Lemma h_pos2 : 0 < h.
  Proof. apply Rmax_pos_l. exact Hhx. Qed.

  Lemma error_recursion2 x yk yk1 t tau :
    norm2 (psub (psub yk1 yk) (pscale2 hx hy (Phi t yk))) <= tau ->
    norm2 (psub (padd x (pscale2 hx hy (Phi t x))) yk1)
      <= (1 + h * Lam) * norm2 (psub x yk) + tau.
  Proof.
    intros Htau.
    assert (E : psub (padd x (pscale2 hx hy (Phi t x))) yk1
                = psub (padd (psub x yk) (pscale2 hx hy (psub (Phi t x) (Phi t yk))))
                       (psub (psub yk1 yk) (pscale2 hx hy (Phi t yk)))).
    { unfold padd, psub, pscale2. cbn [fst snd]. f_equal; ring. }
    rewrite E.
    eapply Rle_trans. apply norm2_psub_triang.
    pose proof (norm2_triang (psub x yk) (pscale2 hx hy (psub (Phi t x) (Phi t yk)))) as H1.
    pose proof (norm2_pscale2 hx hy (psub (Phi t x) (Phi t yk))
                  (Rlt_le _ _ Hhx) (Rlt_le _ _ Hhy)) as H2.
    pose proof (HLip t x yk) as H3.
    pose proof h_pos2 as Hh.
    assert (H4 : h * norm2 (psub (Phi t x) (Phi t yk)) <= h * (Lam * norm2 (psub x yk))).
    { apply Rmult_le_compat_l. lra. exact H3. }
    lra.
  Qed.

  Theorem generic_convergence_2d n p0 tau :
    (forall k, (k < n)%nat -> norm2 (local_err2 k) <= tau) ->
    norm2 (psub (one_step_iter2 n p0) (y (t0 + INR n * ht)))
      <= (1 + h * Lam) ^ n * norm2 (psub p0 (y t0)) + tau * geom (1 + h * Lam) n.
  Proof.
    induction n as [|n IH]; intros Hloc.
    - simpl. rewrite Rmult_0_l, Rplus_0_r. lra.
    - cbn [one_step_iter2 geom].
      eapply Rle_trans. apply error_recursion2. apply (Hloc n). lia.
      pose proof h_pos2 as Hh.
      assert (Hq : 0 <= 1 + h * Lam) by (pose proof (Rmult_le_pos h Lam); lra).
      assert (IH' := IH (fun k Hk => Hloc k (Nat.lt_lt_succ_r _ _ Hk))).
      apply (Rmult_le_compat_l _ _ _ Hq) in IH'.
      simpl. lra.
  Qed.

  (** the same with the geometric sum written with the standard library's [sum_f_R0] *)
  Corollary generic_convergence_sum_2d n p0 tau :
    (forall k, (k < S n)%nat -> norm2 (local_err2 k) <= tau) ->
    norm2 (psub (one_step_iter2 (S n) p0) (y (t0 + INR (S n) * ht)))
      <= (1 + h * Lam) ^ S n * norm2 (psub p0 (y t0))
         + tau * sum_f_R0 (fun j => (1 + h * Lam) ^ j) n.
  Proof. intros Hloc. rewrite <- geom_sum. apply generic_convergence_2d. exact Hloc. Qed.

  Lemma tau_nonneg2 n tau : (0 < n)%nat ->
    (forall k, (k < n)%nat -> norm2 (local_err2 k) <= tau) -> 0 <= tau.
  Proof. intros Hn H. eapply Rle_trans. apply norm2_nonneg. apply (H O Hn). Qed.

  Theorem generic_convergence_exp_2d n p0 tau : 0 <= tau ->
    (forall k, (k < n)%nat -> norm2 (local_err2 k) <= tau) ->
    norm2 (psub (one_step_iter2 n p0) (y (t0 + INR n * ht)))
      <= exp (INR n * h * Lam) * (norm2 (psub p0 (y t0)) + INR n * tau).
  Proof.
    intros Htau Hloc.
    eapply Rle_trans. apply generic_convergence_2d. exact Hloc.
    pose proof h_pos2 as Hh.
    assert (Hw : 0 <= h * Lam) by (apply Rmult_le_pos; lra).
    pose proof (one_plus_pow_le_exp (h * Lam) n Hw) as H1.
    rewrite <- Rmult_assoc in H1.
    pose proof (geom_le_npow (1 + h * Lam) n ltac:(lra)) as H2.
    set (q := (1 + h * Lam) ^ n) in *. set (E := exp (INR n * h * Lam)) in *.
    set (g := geom (1 + h * Lam) n) in *. set (e0 := norm2 (psub p0 (y t0))).
    assert (He0 : 0 <= e0) by apply norm2_nonneg.
    assert (Hn : 0 <= INR n) by apply pos_INR.
    assert (H3 : q * e0 <= E * e0) by (apply Rmult_le_compat_r; assumption).
    assert (H4 : tau * g <= tau * (INR n * q)) by (apply Rmult_le_compat_l; assumption).
    assert (H5 : INR n * tau * q <= INR n * tau * E).
    { apply Rmult_le_compat_l. apply Rmult_le_pos; assumption. exact H1. }
    lra.
  Qed.

  (** order p: local error C * ht^(p+1) (in the time increment ht), T = n * ht.  The stability
      exponent n * h * Lam is T * (h / ht * Lam): h / ht = max (hx/ht, hy/ht) is the metric factor
      (1/dx resp. 1/dy when hx = dt/dx, hy = dt/dy, ht = dt), and h / ht * Lam is the Lipschitz
      constant of the right-hand side (hx/ht * u, hy/ht * v) that the scheme integrates. *)
  Theorem generic_order_p_2d n p C T p0 : 0 < ht -> 0 <= C ->
    p0 = y t0 -> INR n * ht = T ->
    (forall k, (k < n)%nat -> norm2 (local_err2 k) <= C * ht ^ S p) ->
    norm2 (psub (one_step_iter2 n p0) (y (t0 + T)))
      <= exp (T * (h / ht * Lam)) * T * C * ht ^ p.
  Proof.
    intros Hht HC Hp0 HT Hloc. rewrite <- HT.
    eapply Rle_trans. apply (generic_convergence_exp_2d n p0 (C * ht ^ S p)).
    - apply Rmult_le_pos. exact HC. apply pow_le. lra.
    - exact Hloc.
    - rewrite Hp0, norm2_psub_self.
      replace (INR n * ht * (h / ht * Lam)) with (INR n * h * Lam) by (field; lra).
      apply Req_le. simpl. ring.
  Qed.
End Generic2.

(** * D3: the increment functions of EF, RK2, RK4 in the plane, and their Lipschitz constants *)
Section Increments2.
  Variable f : R -> pt -> pt.
  Variables hx hy ht : R.

  (** stage position (x + c*hx*u, y + c*hy*v)  (Tracker.rkstep, without clipping) *)
  Definition stage2 (c : R) (p k : pt) : pt := (fst p + c * hx * fst k, snd p + c * hy * snd k).

  Definition Phi_EF2 (t : R) (p : pt) : pt := f t p.
  Definition Phi_RK2_2d (t : R) (p : pt) : pt := f (t + ht / 2) (stage2 (/ 2) p (f t p)).
  Definition rk4_2d_k1 (t : R) (p : pt) : pt := f t p.
  Definition rk4_2d_k2 (t : R) (p : pt) : pt := f (t + ht / 2) (stage2 (/ 2) p (rk4_2d_k1 t p)).
  Definition rk4_2d_k3 (t : R) (p : pt) : pt := f (t + ht / 2) (stage2 (/ 2) p (rk4_2d_k2 t p)).
  Definition rk4_2d_k4 (t : R) (p : pt) : pt := f (t + ht) (stage2 1 p (rk4_2d_k3 t p)).
  Definition avg6 (a b c d : R) : R := (a + 2 * b + 2 * c + d) / 6.
  Definition Phi_RK4_2d (t : R) (p : pt) : pt :=
    (avg6 (fst (rk4_2d_k1 t p)) (fst (rk4_2d_k2 t p)) (fst (rk4_2d_k3 t p)) (fst (rk4_2d_k4 t p)),
     avg6 (snd (rk4_2d_k1 t p)) (snd (rk4_2d_k2 t p)) (snd (rk4_2d_k3 t p)) (snd (rk4_2d_k4 t p))).
End Increments2.

Lemma avg6_bound a1 a2 a3 a4 b1 b2 b3 b4 a1' a2' a3' a4' :
  Rabs (a1 - a1') <= b1 -> Rabs (a2 - a2') <= b2 -> Rabs (a3 - a3') <= b3 -> Rabs (a4 - a4') <= b4 ->
  Rabs (avg6 a1 a2 a3 a4 - avg6 a1' a2' a3' a4') <= (b1 + 2 * b2 + 2 * b3 + b4) / 6.
Proof.
  intros H1 H2 H3 H4. unfold avg6.
  replace ((a1 + 2 * a2 + 2 * a3 + a4) / 6 - (a1' + 2 * a2' + 2 * a3' + a4') / 6)
    with (((a1 - a1') + 2 * (a2 - a2') + 2 * (a3 - a3') + (a4 - a4')) * / 6) by field.
  rewrite Rabs_mult, (Rabs_pos_eq (/ 6)) by lra.
  set (d1 := a1 - a1') in *. set (d2 := a2 - a2') in *.
  set (d3 := a3 - a3') in *. set (d4 := a4 - a4') in *.
  assert (HT : Rabs (d1 + 2 * d2 + 2 * d3 + d4) <= Rabs d1 + 2 * Rabs d2 + 2 * Rabs d3 + Rabs d4).
  { eapply Rle_trans. apply Rabs_triang. apply Rplus_le_compat_r.
    eapply Rle_trans. apply Rabs_triang. apply Rplus_le_compat.
    eapply Rle_trans. apply Rabs_triang. apply Rplus_le_compat_l.
    rewrite Rabs_mult, (Rabs_pos_eq 2) by lra. lra.
    rewrite Rabs_mult, (Rabs_pos_eq 2) by lra. lra. }
  lra.
Qed.

Section Stability2.
  Variable f : R -> pt -> pt.
  Variables hx hy ht L : R.
  Notation h := (Rmax hx hy).
  Hypothesis Hhx : 0 <= hx.
  Hypothesis Hhy : 0 <= hy.
  Hypothesis HL : 0 <= L.
  Hypothesis Hf : forall t p q, norm2 (psub (f t p) (f t q)) <= L * norm2 (psub p q).

  Lemma h_nonneg2 : 0 <= h.
  Proof. pose proof (Rmax_l hx hy). lra. Qed.

  (** the stage positions move apart by at most (1 + c h K) times the distance of the base points *)
  Lemma stage2_dist (k : pt -> pt) (K c : R) p q :
    0 <= c -> norm2 (psub (k p) (k q)) <= K * norm2 (psub p q) ->
    norm2 (psub (stage2 hx hy c p (k p)) (stage2 hx hy c q (k q)))
      <= (1 + c * h * K) * norm2 (psub p q).
  Proof.
    intros Hc Hk.
    assert (E : psub (stage2 hx hy c p (k p)) (stage2 hx hy c q (k q))
                = padd (psub p q) (pscale2 (c * hx) (c * hy) (psub (k p) (k q)))).
    { unfold stage2, padd, psub, pscale2. cbn [fst snd]. f_equal; ring. }
    rewrite E.
    eapply Rle_trans. apply norm2_triang.
    pose proof (norm2_pscale2 (c * hx) (c * hy) (psub (k p) (k q))
                  (Rmult_le_pos _ _ Hc Hhx) (Rmult_le_pos _ _ Hc Hhy)) as H1.
    rewrite (Rmax_scale c hx hy Hc) in H1.
    assert (Hch : 0 <= c * h) by (apply Rmult_le_pos; [exact Hc | apply h_nonneg2]).
    assert (H2 : c * h * norm2 (psub (k p) (k q)) <= c * h * (K * norm2 (psub p q))).
    { apply Rmult_le_compat_l; assumption. }
    lra.
  Qed.

  (** one stage: f evaluated at the stage position p + c (hx, hy) .* k(p), with k K-Lipschitz *)
  Lemma stage_lipschitz2 (k : pt -> pt) (K c s : R) p q :
    0 <= c -> norm2 (psub (k p) (k q)) <= K * norm2 (psub p q) ->
    norm2 (psub (f s (stage2 hx hy c p (k p))) (f s (stage2 hx hy c q (k q))))
      <= L * (1 + c * h * K) * norm2 (psub p q).
  Proof.
    intros Hc Hk.
    eapply Rle_trans. apply Hf.
    rewrite Rmult_assoc. apply Rmult_le_compat_l. exact HL.
    apply stage2_dist; assumption.
  Qed.

  Theorem Phi_EF2_lipschitz t p q :
    norm2 (psub (Phi_EF2 f t p) (Phi_EF2 f t q)) <= L * norm2 (psub p q).
  Proof. apply Hf. Qed.

  Theorem Phi_RK2_2d_lipschitz t p q :
    norm2 (psub (Phi_RK2_2d f hx hy ht t p) (Phi_RK2_2d f hx hy ht t q))
      <= Lip_RK2 h L * norm2 (psub p q).
  Proof.
    unfold Phi_RK2_2d, Lip_RK2.
    eapply Rle_trans. apply (stage_lipschitz2 (f t) L (/ 2)). lra. apply Hf.
    apply Req_le. field.
  Qed.

  Lemma rk4_2d_k1_lipschitz t p q :
    norm2 (psub (rk4_2d_k1 f t p) (rk4_2d_k1 f t q)) <= L * norm2 (psub p q).
  Proof. apply Hf. Qed.
  Lemma rk4_2d_k2_lipschitz t p q :
    norm2 (psub (rk4_2d_k2 f hx hy ht t p) (rk4_2d_k2 f hx hy ht t q))
      <= L * (1 + / 2 * h * L) * norm2 (psub p q).
  Proof.
    unfold rk4_2d_k2. apply (stage_lipschitz2 (rk4_2d_k1 f t)). lra. apply rk4_2d_k1_lipschitz.
  Qed.
  Lemma rk4_2d_k3_lipschitz t p q :
    norm2 (psub (rk4_2d_k3 f hx hy ht t p) (rk4_2d_k3 f hx hy ht t q))
      <= L * (1 + / 2 * h * (L * (1 + / 2 * h * L))) * norm2 (psub p q).
  Proof.
    unfold rk4_2d_k3. apply (stage_lipschitz2 (rk4_2d_k2 f hx hy ht t)). lra.
    apply rk4_2d_k2_lipschitz.
  Qed.
  Lemma rk4_2d_k4_lipschitz t p q :
    norm2 (psub (rk4_2d_k4 f hx hy ht t p) (rk4_2d_k4 f hx hy ht t q))
      <= L * (1 + 1 * h * (L * (1 + / 2 * h * (L * (1 + / 2 * h * L))))) * norm2 (psub p q).
  Proof.
    unfold rk4_2d_k4. apply (stage_lipschitz2 (rk4_2d_k3 f hx hy ht t)). lra.
    apply rk4_2d_k3_lipschitz.
  Qed.

  Theorem Phi_RK4_2d_lipschitz t p q :
    norm2 (psub (Phi_RK4_2d f hx hy ht t p) (Phi_RK4_2d f hx hy ht t q))
      <= Lip_RK4 h L * norm2 (psub p q).
  Proof.
    pose proof (rk4_2d_k1_lipschitz t p q) as H1.
    pose proof (rk4_2d_k2_lipschitz t p q) as H2.
    pose proof (rk4_2d_k3_lipschitz t p q) as H3.
    pose proof (rk4_2d_k4_lipschitz t p q) as H4.
    set (d := norm2 (psub p q)) in *.
    apply Rle_trans with
      ((L * d + 2 * (L * (1 + / 2 * h * L) * d)
        + 2 * (L * (1 + / 2 * h * (L * (1 + / 2 * h * L))) * d)
        + L * (1 + 1 * h * (L * (1 + / 2 * h * (L * (1 + / 2 * h * L))))) * d) / 6).
    - apply norm2_lub; unfold Phi_RK4_2d; cbn [psub fst snd]; apply avg6_bound.
      + eapply Rle_trans. apply (norm2_fst (psub _ _)). exact H1.
      + eapply Rle_trans. apply (norm2_fst (psub _ _)). exact H2.
      + eapply Rle_trans. apply (norm2_fst (psub _ _)). exact H3.
      + eapply Rle_trans. apply (norm2_fst (psub _ _)). exact H4.
      + eapply Rle_trans. apply (norm2_snd (psub _ _)). exact H1.
      + eapply Rle_trans. apply (norm2_snd (psub _ _)). exact H2.
      + eapply Rle_trans. apply (norm2_snd (psub _ _)). exact H3.
      + eapply Rle_trans. apply (norm2_snd (psub _ _)). exact H4.
    - apply Req_le. unfold Lip_RK4. field.
  Qed.
End Stability2.

(** * D4: convergence of EF, RK2, RK4 in the plane from the local truncation bound C * ht^(p+1)
    (in norm2, along the exact solution, in powers of the time increment ht).
    For RK2 / RK4 that bound follows from Taylor's theorem for smooth f; it is NOT proved here. *)
Section RKConvergence2.
  Variable f : R -> pt -> pt.
  Variable y : R -> pt.
  Variables hx hy ht L C t0 T : R.
  Variable n : nat.
  Notation h := (Rmax hx hy).
  Hypothesis Hhx : 0 < hx.
  Hypothesis Hhy : 0 < hy.
  Hypothesis Hht : 0 < ht.
  Hypothesis HL : 0 <= L.
  Hypothesis HC : 0 <= C.
  Hypothesis HT : INR n * ht = T.
  Hypothesis Hf : forall t p q, norm2 (psub (f t p) (f t q)) <= L * norm2 (psub p q).

  Theorem EF2_converges :
    (forall k, (k < n)%nat -> norm2 (local_err2 (Phi_EF2 f) hx hy ht t0 y k) <= C * ht ^ 2) ->
    norm2 (psub (one_step_iter2 (Phi_EF2 f) hx hy ht t0 n (y t0)) (y (t0 + T)))
      <= exp (T * (h / ht * L)) * T * C * ht.
  Proof.
    intros Hloc. replace ht with (ht ^ 1) at 3 by ring.
    apply (generic_order_p_2d (Phi_EF2 f) hx hy ht L t0 y Hhx Hhy HL
             (Phi_EF2_lipschitz f L Hf) n 1 C T);
      [exact Hht | exact HC | reflexivity | exact HT | exact Hloc].
  Qed.

  Theorem RK2_2d_converges_order2 :
    (forall k, (k < n)%nat ->
       norm2 (local_err2 (Phi_RK2_2d f hx hy ht) hx hy ht t0 y k) <= C * ht ^ 3) ->
    norm2 (psub (one_step_iter2 (Phi_RK2_2d f hx hy ht) hx hy ht t0 n (y t0)) (y (t0 + T)))
      <= exp (T * (h / ht * Lip_RK2 h L)) * T * C * ht ^ 2.
  Proof.
    intros Hloc.
    pose proof (h_nonneg2 hx hy (Rlt_le _ _ Hhx)) as Hh.
    apply (generic_order_p_2d (Phi_RK2_2d f hx hy ht) hx hy ht (Lip_RK2 h L) t0 y Hhx Hhy
             (Lip_RK2_nonneg h L Hh HL)
             (Phi_RK2_2d_lipschitz f hx hy ht L (Rlt_le _ _ Hhx) (Rlt_le _ _ Hhy) HL Hf) n 2 C T);
      [exact Hht | exact HC | reflexivity | exact HT | exact Hloc].
  Qed.

  Theorem RK4_2d_converges_order4 :
    (forall k, (k < n)%nat ->
       norm2 (local_err2 (Phi_RK4_2d f hx hy ht) hx hy ht t0 y k) <= C * ht ^ 5) ->
    norm2 (psub (one_step_iter2 (Phi_RK4_2d f hx hy ht) hx hy ht t0 n (y t0)) (y (t0 + T)))
      <= exp (T * (h / ht * Lip_RK4 h L)) * T * C * ht ^ 4.
  Proof.
    intros Hloc.
    pose proof (h_nonneg2 hx hy (Rlt_le _ _ Hhx)) as Hh.
    apply (generic_order_p_2d (Phi_RK4_2d f hx hy ht) hx hy ht (Lip_RK4 h L) t0 y Hhx Hhy
             (Lip_RK4_nonneg h L Hh HL)
             (Phi_RK4_2d_lipschitz f hx hy ht L (Rlt_le _ _ Hhx) (Rlt_le _ _ Hhy) HL Hf) n 4 C T);
      [exact Hht | exact HC | reflexivity | exact HT | exact Hloc].
  Qed.
End RKConvergence2.

(** * D4 (continued): Euler forward in the plane, COMPLETE.
    The scheme x_{k+1} = x_k + hx * u, y_{k+1} = y_k + hy * v with time increment ht integrates the
    ODE for the GRID coordinates
        x' = (hx / ht) * u (t, (x, y)),     y' = (hy / ht) * v (t, (x, y))
    (hx / ht = 1/dx, hy / ht = 1/dy when hx = dt/dx, hy = dt/dy, ht = dt).  For a solution of THAT
    ODE with both components twice differentiable and second derivatives bounded by M, the local
    error is <= M/2 * ht^2 in norm2 (Taylor-Lagrange per component) and the global error is O(ht). *)
Section EulerConvergence2.
  Variable f : R -> pt -> pt.
  Variable y : R -> pt.
  Variables hx hy ht L M t0 T : R.
  Variable n : nat.
  Notation h := (Rmax hx hy).
  Notation yx := (fun s : R => fst (y s)).
  Notation yy := (fun s : R => snd (y s)).
  Hypothesis Hhx : 0 < hx.
  Hypothesis Hhy : 0 < hy.
  Hypothesis Hht : 0 < ht.
  Hypothesis HL : 0 <= L.
  Hypothesis HT : INR n * ht = T.
  Hypothesis Hf : forall t p q, norm2 (psub (f t p) (f t q)) <= L * norm2 (psub p q).
  Hypothesis Hd1x : forall t, t0 <= t <= t0 + T -> ex_derive yx t.
  Hypothesis Hd1y : forall t, t0 <= t <= t0 + T -> ex_derive yy t.
  Hypothesis Hd2x : forall t, t0 <= t <= t0 + T -> ex_derive (Derive yx) t.
  Hypothesis Hd2y : forall t, t0 <= t <= t0 + T -> ex_derive (Derive yy) t.
  Hypothesis Hodex : forall t, t0 <= t <= t0 + T -> Derive yx t = hx / ht * fst (f t (y t)).
  Hypothesis Hodey : forall t, t0 <= t <= t0 + T -> Derive yy t = hy / ht * snd (f t (y t)).
  Hypothesis HMx : forall t, t0 <= t <= t0 + T -> Rabs (Derive_n yx 2 t) <= M.
  Hypothesis HMy : forall t, t0 <= t <= t0 + T -> Rabs (Derive_n yy 2 t) <= M.

  Lemma EF2c_M_nonneg : 0 <= M.
  Proof.
    eapply Rle_trans. apply Rabs_pos. apply (HMx t0).
    pose proof (grid_in_interval t0 ht n 0 Hht ltac:(lia)) as H. simpl in H. lra.
  Qed.

  (** one component: Taylor-Lagrange of the scalar file, with ht * (hc / ht) = hc *)
  Lemma EF2_component (yc : R -> R) (hc fc : R) s :
    (forall t, t0 <= t <= t0 + T -> ex_derive yc t) ->
    (forall t, t0 <= t <= t0 + T -> ex_derive (Derive yc) t) ->
    (forall t, t0 <= t <= t0 + T -> Rabs (Derive_n yc 2 t) <= M) ->
    Derive yc s = hc / ht * fc -> t0 <= s -> s + ht <= t0 + T ->
    Rabs (yc (s + ht) - yc s - hc * fc) <= M / 2 * ht ^ 2.
  Proof.
    intros D1 D2 HMc Hode Hs1 Hs2.
    replace (hc * fc) with (ht * Derive yc s) by (rewrite Hode; field; lra).
    replace (M / 2 * ht ^ 2) with (M * ht ^ 2 / 2) by field.
    apply (taylor2_bound yc t0 (t0 + T) M D1 D2 HMc); lra.
  Qed.

  (** consistency: local truncation error of Euler forward along the exact solution *)
  Theorem EF2_local_truncation k : (k < n)%nat ->
    norm2 (local_err2 (Phi_EF2 f) hx hy ht t0 y k) <= M / 2 * ht ^ 2.
  Proof.
    intros Hk.
    pose proof (grid_in_interval t0 ht n k Hht ltac:(lia)) as H1.
    pose proof (grid_in_interval t0 ht n (S k) Hht ltac:(lia)) as H2.
    rewrite HT in H1, H2.
    unfold local_err2, Phi_EF2.
    replace (t0 + INR (S k) * ht) with (t0 + INR k * ht + ht) in * by (rewrite S_INR; ring).
    apply norm2_lub; cbn [psub pscale2 fst snd].
    - apply (EF2_component yx hx (fst (f (t0 + INR k * ht) (y (t0 + INR k * ht))))
               (t0 + INR k * ht) Hd1x Hd2x HMx); [apply Hodex; lra | lra | lra].
    - apply (EF2_component yy hy (snd (f (t0 + INR k * ht) (y (t0 + INR k * ht))))
               (t0 + INR k * ht) Hd1y Hd2y HMy); [apply Hodey; lra | lra | lra].
  Qed.

  Theorem EF2_converges_order1 :
    norm2 (psub (one_step_iter2 (Phi_EF2 f) hx hy ht t0 n (y t0)) (y (t0 + T)))
      <= exp (T * (h / ht * L)) * T * (M / 2) * ht.
  Proof.
    apply (EF2_converges f y hx hy ht L (M / 2) t0 T n Hhx Hhy Hht HL); try assumption.
    - pose proof EF2c_M_nonneg. lra.
    - exact EF2_local_truncation.
  Qed.
End EulerConvergence2.

(** * D5: the rational model computes the real schemes in the plane *)
Definition Q2R2 (r : Q * Q) : pt := (Q2R (fst r), Q2R (snd r)).

Lemma Q2R2_peq a b : peq a b -> Q2R2 a = Q2R2 b.
Proof. intros [A B]. unfold Q2R2. rewrite (Qeq_eqR _ _ A), (Qeq_eqR _ _ B). reflexivity. Qed.

Section ModelStep2.
  Variable vel : Q -> Q -> Q -> Q * Q.
  Variables dtdx dtdy : Q.
  Variable f : R -> pt -> pt.
  Variables tk ht : R.
  Notation hx := (Q2R dtdx).
  Notation hy := (Q2R dtdy).
  Hypothesis Hvelx : forall s x y,
    Q2R (fst (vel s x y)) = fst (f (tk + Q2R s * ht) (Q2R x, Q2R y)).
  Hypothesis Hvely : forall s x y,
    Q2R (snd (vel s x y)) = snd (f (tk + Q2R s * ht) (Q2R x, Q2R y)).

  Lemma vel_R2 s x y t pr : tk + Q2R s * ht = t -> (Q2R x, Q2R y) = pr ->
    Q2R (fst (vel s x y)) = fst (f t pr) /\ Q2R (snd (vel s x y)) = snd (f t pr).
  Proof. intros <- <-. split. apply Hvelx. apply Hvely. Qed.

  Ltac q2r := repeat (rewrite ?Q2R_plus, ?Q2R_mult);
              rewrite ?Q2R_zero, ?Q2R_one, ?Q2R_half, ?Q2R_sixth, ?Q2R_third.
  Notation PQ x y := (Q2R x, Q2R y).

  Tactic Notation "next_stage2" constr(c) constr(t) constr(pr)
      ident(Eu) ident(Ev) ident(u) ident(v) :=
    match goal with
    | |- context [vel c ?a ?b] =>
        let E := fresh "E" in
        assert (E : Q2R (fst (vel c a b)) = fst (f t pr) /\ Q2R (snd (vel c a b)) = snd (f t pr));
        [ apply vel_R2;
          [ q2r; try field
          | unfold stage2; cbn [fst snd]; f_equal; q2r ]
        | destruct (vel c a b) as [u v]; cbn [fst snd] in E; destruct E as [Eu Ev] ]
    end.

  Theorem model_EF_step2 x y :
    Q2R2 (rk_generic vel dtdx dtdy tab_EF x y)
      = padd (Q2R x, Q2R y) (pscale2 hx hy (Phi_EF2 f tk (Q2R x, Q2R y))).
  Proof.
    unfold rk_generic. cbn [tab_EF tc ta tb stages dot app].
    next_stage2 0%Q tk (Q2R x, Q2R y) E1u E1v u1 v1.
    { ring. } { ring. }
    cbn [fst snd dot]. unfold Q2R2, padd, pscale2, Phi_EF2. cbn [fst snd].
    f_equal; q2r; [rewrite E1u | rewrite E1v]; ring.
  Qed.

  Theorem model_RK2_step2 x y :
    Q2R2 (rk_generic vel dtdx dtdy tab_RK2 x y)
      = padd (Q2R x, Q2R y) (pscale2 hx hy (Phi_RK2_2d f hx hy ht tk (Q2R x, Q2R y))).
  Proof.
    unfold rk_generic. cbn [tab_RK2 tc ta tb stages dot app].
    next_stage2 0%Q tk (Q2R x, Q2R y) E1u E1v u1 v1.
    { ring. } { ring. }
    next_stage2 (1 # 2)%Q (tk + ht / 2) (stage2 hx hy (/ 2) (Q2R x, Q2R y) (f tk (Q2R x, Q2R y)))
      E2u E2v u2 v2.
    { rewrite E1u. ring. } { rewrite E1v. ring. }
    cbn [fst snd dot]. unfold Q2R2, padd, pscale2, Phi_RK2_2d. cbn [fst snd].
    f_equal; q2r; [rewrite E2u | rewrite E2v]; ring.
  Qed.

  Theorem model_RK4_step2 x y :
    Q2R2 (rk_generic vel dtdx dtdy tab_RK4 x y)
      = padd (Q2R x, Q2R y) (pscale2 hx hy (Phi_RK4_2d f hx hy ht tk (Q2R x, Q2R y))).
  Proof.
    unfold rk_generic. cbn [tab_RK4 tc ta tb stages dot app].
    next_stage2 0%Q tk (PQ x y) E1u E1v u1 v1.
    { ring. } { ring. }
    next_stage2 (1 # 2)%Q (tk + ht / 2) (stage2 hx hy (/ 2) (PQ x y) (rk4_2d_k1 f tk (PQ x y)))
      E2u E2v u2 v2.
    { rewrite E1u. unfold rk4_2d_k1. ring. } { rewrite E1v. unfold rk4_2d_k1. ring. }
    next_stage2 (1 # 2)%Q (tk + ht / 2)
      (stage2 hx hy (/ 2) (PQ x y) (rk4_2d_k2 f hx hy ht tk (PQ x y))) E3u E3v u3 v3.
    { rewrite E2u. unfold rk4_2d_k2. ring. } { rewrite E2v. unfold rk4_2d_k2. ring. }
    next_stage2 1%Q (tk + ht) (stage2 hx hy 1 (PQ x y) (rk4_2d_k3 f hx hy ht tk (PQ x y)))
      E4u E4v u4 v4.
    { rewrite E3u. unfold rk4_2d_k3. ring. } { rewrite E3v. unfold rk4_2d_k3. ring. }
    change (Q2R u1 = fst (rk4_2d_k1 f tk (PQ x y))) in E1u.
    change (Q2R v1 = snd (rk4_2d_k1 f tk (PQ x y))) in E1v.
    change (Q2R u2 = fst (rk4_2d_k2 f hx hy ht tk (PQ x y))) in E2u.
    change (Q2R v2 = snd (rk4_2d_k2 f hx hy ht tk (PQ x y))) in E2v.
    change (Q2R u3 = fst (rk4_2d_k3 f hx hy ht tk (PQ x y))) in E3u.
    change (Q2R v3 = snd (rk4_2d_k3 f hx hy ht tk (PQ x y))) in E3v.
    change (Q2R u4 = fst (rk4_2d_k4 f hx hy ht tk (PQ x y))) in E4u.
    change (Q2R v4 = snd (rk4_2d_k4 f hx hy ht tk (PQ x y))) in E4v.
    cbn [fst snd dot]. unfold Q2R2, padd, pscale2, Phi_RK4_2d, avg6. cbn [fst snd].
    f_equal; q2r;
      [rewrite E1u, E2u, E3u, E4u | rewrite E1v, E2v, E3v, E4v]; cbn [fst snd]; field.
  Qed.
End ModelStep2.

(** the schemes as coded in Tracker.v (velocity [EF]/[RK2]/[RK4] + [candidate]), which clip the
    intermediate stage positions to the box: as long as the stage positions stay in the box they
    coincide with the tableau form (TrackerProofs.*_is_tableau, both coordinates), hence with the
    real 2-D schemes *)
Section ModelStepCoded2.
  Variable vel : Q -> Q -> Q -> Q * Q.
  Hypothesis vel_proper :
    forall c x x' y y', (x == x')%Q -> (y == y')%Q -> peq (vel c x y) (vel c x' y').
  Variables dtdx dtdy xlo xhi ylo yhi : Q.
  Variable f : R -> pt -> pt.
  Variables tk ht : R.
  Notation hx := (Q2R dtdx).
  Notation hy := (Q2R dtdy).
  Hypothesis Hvelx : forall s x y,
    Q2R (fst (vel s x y)) = fst (f (tk + Q2R s * ht) (Q2R x, Q2R y)).
  Hypothesis Hvely : forall s x y,
    Q2R (snd (vel s x y)) = snd (f (tk + Q2R s * ht) (Q2R x, Q2R y)).
  Notation box := (in_box xlo xhi ylo yhi).

  Theorem coded_EF_step2 x y :
    Q2R2 (candidate dtdx dtdy (EF vel) x y)
      = padd (Q2R x, Q2R y) (pscale2 hx hy (Phi_EF2 f tk (Q2R x, Q2R y))).
  Proof.
    rewrite (Q2R2_peq _ _ (ef_is_tableau vel vel_proper dtdx dtdy x y)).
    apply (model_EF_step2 vel dtdx dtdy f tk ht Hvelx Hvely).
  Qed.

  Theorem coded_RK2_step2 x y : box (rk2_stage1 vel dtdx dtdy x y) ->
    Q2R2 (candidate dtdx dtdy (RK2 vel dtdx dtdy xlo xhi ylo yhi) x y)
      = padd (Q2R x, Q2R y) (pscale2 hx hy (Phi_RK2_2d f hx hy ht tk (Q2R x, Q2R y))).
  Proof.
    intros B1.
    rewrite (Q2R2_peq _ _ (rk2_is_tableau vel vel_proper dtdx dtdy xlo xhi ylo yhi x y B1)).
    apply (model_RK2_step2 vel dtdx dtdy f tk ht Hvelx Hvely).
  Qed.

  Theorem coded_RK4_step2 x y :
    box (rk4_stage1 vel dtdx dtdy x y) ->
    box (rk4_stage2 vel dtdx dtdy xlo xhi ylo yhi x y) ->
    box (rk4_stage3 vel dtdx dtdy xlo xhi ylo yhi x y) ->
    Q2R2 (candidate dtdx dtdy (RK4 vel dtdx dtdy xlo xhi ylo yhi) x y)
      = padd (Q2R x, Q2R y) (pscale2 hx hy (Phi_RK4_2d f hx hy ht tk (Q2R x, Q2R y))).
  Proof.
    intros B1 B2 B3.
    rewrite (Q2R2_peq _ _
               (rk4_is_tableau vel vel_proper dtdx dtdy xlo xhi ylo yhi x y B1 B2 B3)).
    apply (model_RK4_step2 vel dtdx dtdy f tk ht Hvelx Hvely).
  Qed.
End ModelStepCoded2.

(** n model steps = n steps of the real 2-D one-step method.  [rk_iter] uses the same oracle for
    every step, so the agreement hypothesis is asked for every step k (autonomous or step-periodic
    fields) *)
Section ModelIter2.
  Variable vel : Q -> Q -> Q -> Q * Q.
  Variables dtdx dtdy : Q.
  Variable f : R -> pt -> pt.
  Variables t0 ht : R.
  Notation hx := (Q2R dtdx).
  Notation hy := (Q2R dtdy).
  Hypothesis Hvelx : forall (k : nat) s x y,
    Q2R (fst (vel s x y)) = fst (f (t0 + INR k * ht + Q2R s * ht) (Q2R x, Q2R y)).
  Hypothesis Hvely : forall (k : nat) s x y,
    Q2R (snd (vel s x y)) = snd (f (t0 + INR k * ht + Q2R s * ht) (Q2R x, Q2R y)).

  Lemma model_iter_gen2 (tab : tableau) (Phi : R -> pt -> pt) :
    (forall (k : nat) x y,
       Q2R2 (rk_generic vel dtdx dtdy tab x y)
       = padd (Q2R x, Q2R y) (pscale2 hx hy (Phi (t0 + INR k * ht) (Q2R x, Q2R y)))) ->
    forall n x y,
      Q2R2 (rk_iter vel dtdx dtdy tab n x y) = one_step_iter2 Phi hx hy ht t0 n (Q2R x, Q2R y).
  Proof.
    intros Hstep n x y. induction n as [|n IH].
    - reflexivity.
    - cbn [rk_iter one_step_iter2]. rewrite (Hstep n), <- IH. reflexivity.
  Qed.

  Theorem model_EF_iter2 n x y :
    Q2R2 (rk_iter vel dtdx dtdy tab_EF n x y)
      = one_step_iter2 (Phi_EF2 f) hx hy ht t0 n (Q2R x, Q2R y).
  Proof.
    apply model_iter_gen2. intros k x' y'.
    apply (model_EF_step2 vel dtdx dtdy f (t0 + INR k * ht) ht (Hvelx k) (Hvely k)).
  Qed.
  Theorem model_RK2_iter2 n x y :
    Q2R2 (rk_iter vel dtdx dtdy tab_RK2 n x y)
      = one_step_iter2 (Phi_RK2_2d f hx hy ht) hx hy ht t0 n (Q2R x, Q2R y).
  Proof.
    apply model_iter_gen2. intros k x' y'.
    apply (model_RK2_step2 vel dtdx dtdy f (t0 + INR k * ht) ht (Hvelx k) (Hvely k)).
  Qed.
  Theorem model_RK4_iter2 n x y :
    Q2R2 (rk_iter vel dtdx dtdy tab_RK4 n x y)
      = one_step_iter2 (Phi_RK4_2d f hx hy ht) hx hy ht t0 n (Q2R x, Q2R y).
  Proof.
    apply model_iter_gen2. intros k x' y'.
    apply (model_RK4_step2 vel dtdx dtdy f (t0 + INR k * ht) ht (Hvelx k) (Hvely k)).
  Qed.
End ModelIter2.

(** * end to end: n steps of the rational model, both coordinates, against the exact solution *)
Section ModelConvergenceGeneral2.
  Variable vel : Q -> Q -> Q -> Q * Q.
  Variables dtdx dtdy x0 y0 : Q.
  Variable f : R -> pt -> pt.
  Variable y : R -> pt.
  Variables ht L t0 T : R.
  Variable n : nat.
  Notation hx := (Q2R dtdx).
  Notation hy := (Q2R dtdy).
  Notation h := (Rmax hx hy).
  Hypothesis Hhx : 0 < hx.
  Hypothesis Hhy : 0 < hy.
  Hypothesis Hht : 0 < ht.
  Hypothesis HL : 0 <= L.
  Hypothesis HT : INR n * ht = T.
  Hypothesis Hf : forall t p q, norm2 (psub (f t p) (f t q)) <= L * norm2 (psub p q).
  Hypothesis Hvelx : forall (k : nat) s x y,
    Q2R (fst (vel s x y)) = fst (f (t0 + INR k * ht + Q2R s * ht) (Q2R x, Q2R y)).
  Hypothesis Hvely : forall (k : nat) s x y,
    Q2R (snd (vel s x y)) = snd (f (t0 + INR k * ht + Q2R s * ht) (Q2R x, Q2R y)).
  Hypothesis Hp0 : (Q2R x0, Q2R y0) = y t0.

  Theorem model_EF2_converges_order1 (M : R) :
    (forall t, t0 <= t <= t0 + T -> ex_derive (fun s => fst (y s)) t) ->
    (forall t, t0 <= t <= t0 + T -> ex_derive (fun s => snd (y s)) t) ->
    (forall t, t0 <= t <= t0 + T -> ex_derive (Derive (fun s => fst (y s))) t) ->
    (forall t, t0 <= t <= t0 + T -> ex_derive (Derive (fun s => snd (y s))) t) ->
    (forall t, t0 <= t <= t0 + T ->
       Derive (fun s => fst (y s)) t = hx / ht * fst (f t (y t))) ->
    (forall t, t0 <= t <= t0 + T ->
       Derive (fun s => snd (y s)) t = hy / ht * snd (f t (y t))) ->
    (forall t, t0 <= t <= t0 + T -> Rabs (Derive_n (fun s => fst (y s)) 2 t) <= M) ->
    (forall t, t0 <= t <= t0 + T -> Rabs (Derive_n (fun s => snd (y s)) 2 t) <= M) ->
    norm2 (psub (Q2R2 (rk_iter vel dtdx dtdy tab_EF n x0 y0)) (y (t0 + T)))
      <= exp (T * (h / ht * L)) * T * (M / 2) * ht.
  Proof.
    intros D1x D1y D2x D2y Ox Oy Mx My.
    rewrite (model_EF_iter2 vel dtdx dtdy f t0 ht Hvelx Hvely), Hp0.
    apply (EF2_converges_order1 f y hx hy ht L M t0 T n); assumption.
  Qed.

  Theorem model_RK2_2d_converges_order2 (C : R) : 0 <= C ->
    (forall k, (k < n)%nat ->
       norm2 (local_err2 (Phi_RK2_2d f hx hy ht) hx hy ht t0 y k) <= C * ht ^ 3) ->
    norm2 (psub (Q2R2 (rk_iter vel dtdx dtdy tab_RK2 n x0 y0)) (y (t0 + T)))
      <= exp (T * (h / ht * Lip_RK2 h L)) * T * C * ht ^ 2.
  Proof.
    intros HC Hloc.
    rewrite (model_RK2_iter2 vel dtdx dtdy f t0 ht Hvelx Hvely), Hp0.
    apply (RK2_2d_converges_order2 f y hx hy ht L C t0 T n); assumption.
  Qed.

  Theorem model_RK4_2d_converges_order4 (C : R) : 0 <= C ->
    (forall k, (k < n)%nat ->
       norm2 (local_err2 (Phi_RK4_2d f hx hy ht) hx hy ht t0 y k) <= C * ht ^ 5) ->
    norm2 (psub (Q2R2 (rk_iter vel dtdx dtdy tab_RK4 n x0 y0)) (y (t0 + T)))
      <= exp (T * (h / ht * Lip_RK4 h L)) * T * C * ht ^ 4.
  Proof.
    intros HC Hloc.
    rewrite (model_RK4_iter2 vel dtdx dtdy f t0 ht Hvelx Hvely), Hp0.
    apply (RK4_2d_converges_order4 f y hx hy ht L C t0 T n); assumption.
  Qed.
End ModelConvergenceGeneral2.

(** * constants independent of the step: for h = max hx hy <= hmax the Lipschitz constants of the
    increment functions are bounded by those at hmax (Lip_RK2_mono / Lip_RK4_mono) *)
Section RKConvergenceUniform2.
  Variable f : R -> pt -> pt.
  Variable y : R -> pt.
  Variables hx hy ht hmax L C t0 T : R.
  Variable n : nat.
  Notation h := (Rmax hx hy).
  Hypothesis Hhx : 0 < hx.
  Hypothesis Hhy : 0 < hy.
  Hypothesis Hht : 0 < ht.
  Hypothesis Hhmax : h <= hmax.
  Hypothesis HL : 0 <= L.
  Hypothesis HC : 0 <= C.
  Hypothesis HT : INR n * ht = T.
  Hypothesis Hf : forall t p q, norm2 (psub (f t p) (f t q)) <= L * norm2 (psub p q).

  Lemma RKu2_T_nonneg : 0 <= T.
  Proof. rewrite <- HT. apply Rmult_le_pos. apply pos_INR. lra. Qed.

  Lemma RKu2_ratio_nonneg : 0 <= h / ht.
  Proof.
    pose proof (h_pos2 hx hy Hhx) as Hh.
    apply Rmult_le_pos. lra. left. apply Rinv_0_lt_compat. exact Hht.
  Qed.

  Lemma RKu2_bound_weaken (K K' : R) (p : nat) e :
    K <= K' -> e <= exp (T * (h / ht * K)) * T * C * ht ^ p ->
    e <= exp (T * (h / ht * K')) * T * C * ht ^ p.
  Proof.
    intros HK He. eapply Rle_trans. exact He.
    pose proof RKu2_T_nonneg as H0. pose proof RKu2_ratio_nonneg as Hr.
    assert (H1 : exp (T * (h / ht * K)) <= exp (T * (h / ht * K'))).
    { apply exp_le_mono. apply Rmult_le_compat_l. exact H0.
      apply Rmult_le_compat_l; assumption. }
    assert (H2 : 0 <= T * C * ht ^ p).
    { apply Rmult_le_pos. apply Rmult_le_pos; assumption. apply pow_le. lra. }
    replace (exp (T * (h / ht * K)) * T * C * ht ^ p)
      with (exp (T * (h / ht * K)) * (T * C * ht ^ p)) by ring.
    replace (exp (T * (h / ht * K')) * T * C * ht ^ p)
      with (exp (T * (h / ht * K')) * (T * C * ht ^ p)) by ring.
    apply Rmult_le_compat_r; assumption.
  Qed.

  Theorem RK2_2d_converges_order2_uniform :
    (forall k, (k < n)%nat ->
       norm2 (local_err2 (Phi_RK2_2d f hx hy ht) hx hy ht t0 y k) <= C * ht ^ 3) ->
    norm2 (psub (one_step_iter2 (Phi_RK2_2d f hx hy ht) hx hy ht t0 n (y t0)) (y (t0 + T)))
      <= exp (T * (h / ht * Lip_RK2 hmax L)) * T * C * ht ^ 2.
  Proof.
    intros Hloc. apply (RKu2_bound_weaken (Lip_RK2 h L)).
    - apply Lip_RK2_mono. exact HL. split. apply h_nonneg2. lra. exact Hhmax.
    - apply (RK2_2d_converges_order2 f y hx hy ht L C t0 T n); assumption.
  Qed.

  Theorem RK4_2d_converges_order4_uniform :
    (forall k, (k < n)%nat ->
       norm2 (local_err2 (Phi_RK4_2d f hx hy ht) hx hy ht t0 y k) <= C * ht ^ 5) ->
    norm2 (psub (one_step_iter2 (Phi_RK4_2d f hx hy ht) hx hy ht t0 n (y t0)) (y (t0 + T)))
      <= exp (T * (h / ht * Lip_RK4 hmax L)) * T * C * ht ^ 4.
  Proof.
    intros Hloc. apply (RKu2_bound_weaken (Lip_RK4 h L)).
    - apply Lip_RK4_mono. exact HL. split. apply h_nonneg2. lra. exact Hhmax.
    - apply (RK4_2d_converges_order4 f y hx hy ht L C t0 T n); assumption.
  Qed.
End RKConvergenceUniform2.

(** * non-vacuity, with a genuinely coupled field: solid rotation f t (x, y) = (-y, x), L = 1,
    hx = hy = ht = hh, exact solution (cos t, sin t), M = 1.  n Euler steps with n * hh = T from
    (1, 0) end within exp T * T / 2 * hh of (cos T, sin T) in the max-norm. *)
Definition rot_field (t : R) (p : pt) : pt := (- snd p, fst p).
Definition rot_sol (t : R) : pt := (cos t, sin t).

Lemma rot_field_lipschitz t p q :
  norm2 (psub (rot_field t p) (rot_field t q)) <= 1 * norm2 (psub p q).
Proof.
  unfold norm2, psub, rot_field. cbn [fst snd].
  replace (- snd p - - snd q) with (- (snd p - snd q)) by ring.
  rewrite Rabs_Ropp, Rmax_comm. lra.
Qed.

Lemma Derive_cos_eq t : Derive (fun s => cos s) t = - sin t.
Proof. apply is_derive_unique. auto_derive. exact I. ring. Qed.
Lemma Derive_sin_eq t : Derive (fun s => sin s) t = cos t.
Proof. apply is_derive_unique. auto_derive. exact I. ring. Qed.
Lemma Derive2_cos_eq t : Derive_n (fun s => cos s) 2 t = - cos t.
Proof.
  change (Derive (Derive (fun s => cos s)) t = - cos t).
  rewrite (Derive_ext _ (fun s => - sin s) t Derive_cos_eq).
  apply is_derive_unique. auto_derive. exact I. ring.
Qed.
Lemma Derive2_sin_eq t : Derive_n (fun s => sin s) 2 t = - sin t.
Proof.
  change (Derive (Derive (fun s => sin s)) t = - sin t).
  rewrite (Derive_ext _ (fun s => cos s) t Derive_sin_eq).
  apply is_derive_unique. auto_derive. exact I. ring.
Qed.

Example EF2_example n hh T : 0 < hh -> INR n * hh = T ->
  norm2 (psub (one_step_iter2 (Phi_EF2 rot_field) hh hh hh 0 n (1, 0)) (cos T, sin T))
    <= exp T * T * / 2 * hh.
Proof.
  intros Hh HT.
  assert (E0 : rot_sol 0 = (1, 0)) by (unfold rot_sol; rewrite cos_0, sin_0; reflexivity).
  rewrite <- E0.
  change (cos T, sin T) with (rot_sol T). replace T with (0 + T) at 1 by ring.
  replace (exp T * T * / 2 * hh) with (exp (T * (Rmax hh hh / hh * 1)) * T * (1 / 2) * hh).
  2:{ rewrite Rmax_left by lra. replace (T * (hh / hh * 1)) with T by (field; lra). field. }
  apply (EF2_converges_order1 rot_field rot_sol hh hh hh 1 1 0 T n Hh Hh Hh Rle_0_1 HT
           rot_field_lipschitz).
  - intros t _. change (ex_derive (fun s => cos s) t). auto_derive. exact I.
  - intros t _. change (ex_derive (fun s => sin s) t). auto_derive. exact I.
  - intros t _. change (ex_derive (Derive (fun s => cos s)) t).
    apply (ex_derive_ext (fun s => - sin s)). intros s. symmetry. apply Derive_cos_eq.
    auto_derive. exact I.
  - intros t _. change (ex_derive (Derive (fun s => sin s)) t).
    apply (ex_derive_ext (fun s => cos s)). intros s. symmetry. apply Derive_sin_eq.
    auto_derive. exact I.
  - intros t _. change (Derive (fun s => cos s) t = hh / hh * - sin t).
    rewrite Derive_cos_eq. field. lra.
  - intros t _. change (Derive (fun s => sin s) t = hh / hh * cos t).
    rewrite Derive_sin_eq. field. lra.
  - intros t _. change (Rabs (Derive_n (fun s => cos s) 2 t) <= 1).
    rewrite Derive2_cos_eq, Rabs_Ropp. apply Rabs_le. pose proof (COS_bound t). lra.
  - intros t _. change (Rabs (Derive_n (fun s => sin s) 2 t) <= 1).
    rewrite Derive2_sin_eq, Rabs_Ropp. apply Rabs_le. pose proof (SIN_bound t). lra.
Qed.

(** the local truncation hypothesis of RK2_2d_converges_order2 is satisfiable, with hx <> hy:
    on the time-dependent field f t p = (t, t) the midpoint rule is exact (C = 0) for the solution
    (hx/ht * t^2/2, hy/ht * t^2/2) of x' = hx/ht * t, y' = hy/ht * t, and the theorem then gives
    the exact end point *)
Lemma Rabs_le_0_eq a b : Rabs (a - b) <= 0 -> a = b.
Proof.
  intros H. destruct (Req_dec (a - b) 0) as [E | E]. lra.
  pose proof (Rabs_pos_lt _ E). lra.
Qed.

Lemma norm2_le_0_eq p q : norm2 (psub p q) <= 0 -> p = q.
Proof.
  intros H.
  pose proof (norm2_fst (psub p q)) as H1. pose proof (norm2_snd (psub p q)) as H2.
  cbn [psub fst snd] in H1, H2.
  destruct p as [a b], q as [c d]. cbn [fst snd] in *.
  f_equal; apply Rabs_le_0_eq; lra.
Qed.

Definition time_field (t : R) (p : pt) : pt := (t, t).
Definition time_sol (hx hy ht t : R) : pt := (hx / ht * (t ^ 2 / 2), hy / ht * (t ^ 2 / 2)).

Example RK2_2d_example n hx hy ht T : 0 < hx -> 0 < hy -> 0 < ht -> INR n * ht = T ->
  one_step_iter2 (Phi_RK2_2d time_field hx hy ht) hx hy ht 0 n (0, 0) = time_sol hx hy ht T.
Proof.
  intros Hhx Hhy Hht HT.
  assert (E0 : time_sol hx hy ht 0 = (0, 0)).
  { unfold time_sol. f_equal; field; lra. }
  apply norm2_le_0_eq.
  assert (H : norm2 (psub (one_step_iter2 (Phi_RK2_2d time_field hx hy ht) hx hy ht 0 n
                             (time_sol hx hy ht 0)) (time_sol hx hy ht (0 + T)))
              <= exp (T * (Rmax hx hy / ht * Lip_RK2 (Rmax hx hy) 0)) * T * 0 * ht ^ 2).
  2:{ rewrite E0, Rplus_0_l in H.
      replace (exp (T * (Rmax hx hy / ht * Lip_RK2 (Rmax hx hy) 0)) * T * 0 * ht ^ 2)
        with 0 in H by ring.
      exact H. }
  apply (RK2_2d_converges_order2 time_field (time_sol hx hy ht) hx hy ht 0 0 0 T n
           Hhx Hhy Hht (Rle_refl 0) (Rle_refl 0) HT).
  - intros t p q. unfold time_field, norm2, psub. cbn [fst snd].
    replace (t - t) with 0 by ring. rewrite Rabs_R0, Rmax_left by lra. lra.
  - intros k _. unfold local_err2, Phi_RK2_2d, time_field, time_sol, norm2, psub, pscale2.
    cbn [fst snd]. rewrite S_INR.
    replace (hx / ht * ((0 + (INR k + 1) * ht) ^ 2 / 2) - hx / ht * ((0 + INR k * ht) ^ 2 / 2)
             - hx * (0 + INR k * ht + ht / 2)) with 0 by (field; lra).
    replace (hy / ht * ((0 + (INR k + 1) * ht) ^ 2 / 2) - hy / ht * ((0 + INR k * ht) ^ 2 / 2)
             - hy * (0 + INR k * ht + ht / 2)) with 0 by (field; lra).
    rewrite Rabs_R0, Rmax_left by lra. lra.
Qed.

Print Assumptions generic_convergence_2d.
Print Assumptions generic_order_p_2d.
Print Assumptions Phi_RK4_2d_lipschitz.
Print Assumptions EF2_converges_order1.
Print Assumptions RK2_2d_converges_order2.
Print Assumptions RK4_2d_converges_order4.
Print Assumptions model_RK4_step2.
Print Assumptions model_EF2_converges_order1.
Print Assumptions model_RK4_2d_converges_order4.
