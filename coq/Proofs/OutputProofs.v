(** Proofs about the output cursor machine (C07) and the file layouts (C06) *)
From Coq Require Import ZArith List Bool Lia.
From Ladim Require Import Base.Num Model.State Model.Output Proofs.StateProofs.
Import ListNotations.
Open Scope Z_scope.

(** * counting the due steps *)
Lemma cdiv_succ n p : 0 <= n -> 0 < p ->
  cdiv (n + 1) p = cdiv n p + (if n mod p =? 0 then 1 else 0).
Proof.
  intros Hn Hp. pose proof (Z.div_mod n p ltac:(lia)) as DM. pose proof (Z.mod_pos_bound n p Hp) as MB.
  destruct (n mod p =? 0) eqn:E.
  - apply Z.eqb_eq in E. rewrite (cdiv_unique n p (n / p) Hp) by nia.
    apply cdiv_unique; [exact Hp|nia].
  - apply Z.eqb_neq in E. rewrite (cdiv_unique n p (n / p + 1) Hp) by nia.
    rewrite Z.add_0_r. apply cdiv_unique; [exact Hp|nia].
Qed.
Lemma cdiv_0 p : 0 < p -> cdiv 0 p = 0.
Proof. intro H. apply cdiv_unique; lia. Qed.
Lemma zrange_aux_snoc n : forall a, zrange_aux a (S n) = zrange_aux a n ++ [a + Z.of_nat n].
Proof.
  induction n as [|n IH]; intro a.
  - cbn. f_equal. lia.
  - change (zrange_aux a (S (S n))) with (a :: zrange_aux (a + 1) (S n)). rewrite IH.
    cbn [zrange_aux app]. f_equal. f_equal. f_equal. lia.
Qed.
Lemma due_length_nat p n : 0 < p ->
  Z.of_nat (length (filter (fun k => k mod p =? 0) (zrange_aux 0 n))) = cdiv (Z.of_nat n) p.
Proof.
  intro Hp. induction n as [|n IH].
  - cbn [zrange_aux filter length]. change (Z.of_nat 0) with 0. rewrite cdiv_0 by exact Hp. reflexivity.
  - rewrite zrange_aux_snoc, filter_app, app_length, Nat2Z.inj_add, IH. cbn [filter].
    rewrite Nat2Z.inj_succ. unfold Z.succ. rewrite cdiv_succ by lia.
    replace (0 + Z.of_nat n) with (Z.of_nat n) by lia.
    destruct (Z.of_nat n mod p =? 0); cbn; lia.
Qed.
Lemma due_length nsteps p : 0 <= nsteps -> 0 < p -> Z.of_nat (length (due nsteps p)) = cdiv nsteps p.
Proof.
  intros Hn Hp. unfold due, zrange. rewrite Z.sub_0_r. rewrite due_length_nat by exact Hp.
  rewrite Z2Nat.id by exact Hn. reflexivity.
Qed.

(** * the cursor machine *)
Section M.
  Variables R P : Type.
  Notation ost := (ost R P).
  Notation file := (file R P).

  Definition Inv (s : ost) (j : Z) : Prop :=
    err s = false /\ rc s = j /\ 0 <= j <= total s /\ 1 <= nr s /\
    lrc s = Z.of_nat (length (recs (cur s))) /\
    Forall (fun f : file => closed f = true /\ Z.of_nat (length (recs f)) = nr s /\ pv f <> None) (done s) /\
    j = nr s * Z.of_nat (length (done s)) + lrc s /\
    fno (cur s) = Z.of_nat (length (done s)) /\
    map fno (done s) = zrange_aux 0 (length (done s)) /\
    (j < total s -> closed (cur s) = false /\ lrc s < lnr s /\
                    lnr s = Z.min (nr s) (total s - nr s * Z.of_nat (length (done s)))) /\
    (j = total s -> 0 < j -> closed (cur s) = true /\ pv (cur s) <> None /\ 0 < lrc s <= nr s).

  Lemma init_inv nsteps p numrec : 0 <= nsteps -> 0 < p -> 0 <= numrec ->
    Inv (out_init R P nsteps p numrec false) 0 /\ total (out_init R P nsteps p numrec false) = cdiv nsteps p.
  Proof.
    intros Hn Hp Hr. pose proof (cdiv_spec nsteps p Hp) as CS.
    assert (0 <= cdiv nsteps p) as C0 by nia.
    unfold Inv, out_init. cbn. rewrite !Z.sub_0_r.
    assert (1 <= (if numrec =? 0 then 999999 else numrec)) as N1.
    { destruct (numrec =? 0) eqn:E; [lia|]. apply Z.eqb_neq in E. lia. }
    repeat split; try lia; try constructor.
  Qed.

  Lemma write_inv s j r pvars : Inv s j -> j < total s ->
    Inv (write R P s r pvars) (j + 1) /\
    all_records (write R P s r pvars) = all_records s ++ [r] /\
    total (write R P s r pvars) = total s /\ nr (write R P s r pvars) = nr s.
  Proof.
    intros (E & RC & J & N1 & L & D & JJ & F & FN & A & B) Hlt.
    destruct (A Hlt) as (CL & LL & LN). clear B.
    unfold write. rewrite CL.
    destruct (lrc s + 1 =? lnr s) eqn:E1.
    - apply Z.eqb_eq in E1. destruct (rc s + 1 <? total s) eqn:E2.
      + apply Z.ltb_lt in E2.
        split; [|split; [|split; reflexivity]].
        * unfold Inv. cbn. rewrite !app_length, Nat2Z.inj_add. cbn [length].
          assert (lnr s = nr s) as LNR by lia.
          repeat split; try lia; try assumption; try (intros _; discriminate).
          -- apply Forall_app. split; [exact D|]. constructor; [|constructor]. cbn.
             rewrite app_length, Nat2Z.inj_add. cbn [length]. repeat split; [lia|discriminate].
          -- rewrite map_app. cbn. rewrite FN, F. replace (length (done s) + 1)%nat with (S (length (done s))) by lia.
             rewrite zrange_aux_snoc. repeat f_equal; lia.
        * unfold all_records, files. cbn. rewrite !map_app, !concat_app. cbn. rewrite !app_nil_r, app_assoc. reflexivity.
      + apply Z.ltb_ge in E2.
        split; [|split; [|split; reflexivity]].
        * unfold Inv. cbn. rewrite app_length, Nat2Z.inj_add. cbn [length].
          repeat split; try lia; try assumption; try discriminate.
        * unfold all_records, files. cbn. rewrite !map_app, !concat_app. cbn. rewrite !app_nil_r, app_assoc. reflexivity.
    - apply Z.eqb_neq in E1.
      split; [|split; [|split; reflexivity]].
      + unfold Inv. cbn. rewrite app_length, Nat2Z.inj_add. cbn [length].
        repeat split; try lia; try assumption.
      + unfold all_records, files. cbn. rewrite !map_app, !concat_app. cbn. rewrite !app_nil_r, app_assoc. reflexivity.
  Qed.

  Variable snap : Z -> R.
  Variable pvs : Z -> P.

  Lemma run_inv p (l : list Z) : forall s j, Inv s j ->
    j + Z.of_nat (length (filter (fun n => n mod p =? 0) l)) <= total s ->
    let s' := fold_left (out_update R P snap pvs p) l s in
    Inv s' (j + Z.of_nat (length (filter (fun n => n mod p =? 0) l))) /\
    all_records s' = all_records s ++ map snap (filter (fun n => n mod p =? 0) l) /\
    total s' = total s /\ nr s' = nr s.
  Proof.
    induction l as [|n l IH]; intros s j I H; cbn [fold_left filter] in *.
    - cbn [filter length map]. change (Z.of_nat 0) with 0. rewrite Z.add_0_r, app_nil_r.
      split; [exact I|]. split; [reflexivity|]. split; reflexivity.
    - destruct (n mod p =? 0) eqn:E.
      + replace (out_update R P snap pvs p s n) with (write R P s (snap n) (pvs n)) by (unfold out_update; rewrite E; reflexivity).
        cbn [length] in *. rewrite Nat2Z.inj_succ in *.
        destruct (write_inv s j (snap n) (pvs n) I ltac:(lia)) as (I' & AR & T & NR).
        specialize (IH _ _ I' ltac:(rewrite T; lia)). cbv zeta in IH. destruct IH as (I2 & AR2 & T2 & NR2).
        replace (j + Z.succ (Z.of_nat (length (filter (fun n0 => n0 mod p =? 0) l))))
          with (j + 1 + Z.of_nat (length (filter (fun n0 => n0 mod p =? 0) l))) by lia.
        split; [exact I2|]. split; [|split; congruence].
        rewrite AR2, AR. cbn [map]. rewrite <- app_assoc. reflexivity.
      + replace (out_update R P snap pvs p s n) with s by (unfold out_update; rewrite E; reflexivity).
        apply IH; assumption.
  Qed.

  Lemma finish_props (s : ost) : closed (cur (finish R P s)) = true /\ done (finish R P s) = done s /\
    recs (cur (finish R P s)) = recs (cur s) /\ err (finish R P s) = err s /\ fno (cur (finish R P s)) = fno (cur s).
  Proof. unfold finish. destruct (closed (cur s)) eqn:E; cbn; repeat split; try assumption. Qed.

  Lemma finish_records (s : ost) : all_records (finish R P s) = all_records s.
  Proof. unfold all_records, files, finish. destruct (closed (cur s)); [reflexivity|]. cbn. rewrite !map_app. reflexivity. Qed.

  (** C07-T1 *)
  Theorem all_records_written nsteps p numrec :
    0 <= nsteps -> 1 <= p -> 0 <= numrec -> (numrec = 0 -> cdiv nsteps p <= 999999) ->
    let s := out_run R P snap pvs nsteps p numrec in
    let n := if numrec =? 0 then 999999 else numrec in
    err s = false /\
    Forall (fun f : file => closed f = true) (files s) /\
    all_records s = map snap (due nsteps p) /\
    Forall (fun f : file => Z.of_nat (length (recs f)) = n /\ pv f <> None) (done s) /\
    Z.of_nat (length (recs (cur s))) <= n /\
    (0 < cdiv nsteps p -> 0 < Z.of_nat (length (recs (cur s))) /\ pv (cur s) <> None) /\
    map fno (files s) = zrange_aux 0 (length (files s)).
  Proof.
    intros Hn Hp Hr Hbig s n.
    destruct (init_inv nsteps p numrec Hn ltac:(lia) Hr) as [I0 T0].
    pose proof (due_length nsteps p Hn ltac:(lia)) as DL. unfold due in DL.
    pose proof (run_inv p (zrange 0 nsteps) _ 0 I0 ltac:(rewrite T0; lia)) as RI. cbv zeta in RI.
    destruct RI as (I & AR & T & NR).
    set (s1 := fold_left (out_update R P snap pvs p) (zrange 0 nsteps) (out_init R P nsteps p numrec false)) in *.
    destruct I as (E & RC & J & N1 & L & D & JJ & F & FN & A & B).
    destruct (finish_props s1) as (FC & FD & FR & FE & FF).
    subst s. unfold out_run. fold s1.
    assert (nr s1 = n) as NRn by (rewrite NR; reflexivity).
    split; [|split; [|split; [|split; [|split; [|split]]]]].
    - rewrite FE. exact E.
    - unfold files. apply Forall_app. split.
      + rewrite FD. eapply Forall_impl; [|exact D]. cbn. tauto.
      + constructor; [exact FC|constructor].
    - rewrite finish_records, AR. unfold due. reflexivity.
    - rewrite FD. eapply Forall_impl; [|exact D]. cbn. intros f (X & Y & Z0). rewrite <- NRn. tauto.
    - rewrite FR, <- L.
      destruct (Z.eq_dec (rc s1) (total s1)) as [EQ|NE].
      + destruct (Z_lt_le_dec 0 (rc s1)) as [POS|ZERO].
        * destruct (B ltac:(lia) ltac:(lia)) as (_ & _ & X). lia.
        * assert (lrc s1 = 0) by nia. lia.
      + destruct (A ltac:(lia)) as (_ & X & Y). lia.
    - intro POS. destruct (B ltac:(lia) ltac:(lia)) as (_ & X & Y).
      split; [rewrite FR, <- L; lia|]. unfold finish. destruct (closed (cur s1)); exact X.
    - unfold files. rewrite FD, map_app, app_length. cbn. rewrite FF, F, FN.
      replace (length (done s1) + 1)%nat with (S (length (done s1))) by lia.
      rewrite zrange_aux_snoc. repeat f_equal; lia.
  Qed.

  (** C07-T2: the split files, concatenated, give the records of the unsplit run *)
  Theorem split_equals_unsplit nsteps p numrec :
    0 <= nsteps -> 1 <= p -> 0 <= numrec -> cdiv nsteps p <= 999999 ->
    all_records (out_run R P snap pvs nsteps p numrec) = all_records (out_run R P snap pvs nsteps p 0).
  Proof.
    intros Hn Hp Hr Hbig.
    destruct (all_records_written nsteps p numrec Hn Hp Hr ltac:(intros; assumption)) as (_ & _ & X & _).
    destruct (all_records_written nsteps p 0 Hn Hp ltac:(lia) ltac:(intros; assumption)) as (_ & _ & Y & _).
    rewrite X, Y. reflexivity.
  Qed.
End M.
